/-
  fpdriver — line-protocol driver for the executable model. One request per line on stdin,
  one canonical reply line on stdout. Used by the correspondence check (tools/check.py,
  harness) to run the model on exactly the inputs the implementation is run on.
-/
import FastPasta
import FastPasta.Spec.ProtocolExec
open FastPasta

def joinSp (l : List String) : String := " ".intercalate l

def optNat (s : String) : Option Nat := if s == "-" then none else s.toNat?

def parseKv (toks : List String) : List (String × String) :=
  toks.filterMap fun t => match t.splitOn "=" with
    | [k, v] => some (k, v)
    | _ => none

def kvGet (kv : List (String × String)) (k : String) (d : String := "-") : String :=
  match kv.find? (·.1 == k) with | some (_, v) => v | none => d

def parseOrders (s : String) : Option (List (List Nat)) :=
  if s == "-" then none else
  some ((s.splitOn "|").map fun o => (o.splitOn ".").filterMap (·.toNat?))

def parseFilter (s : String) : Option Filter :=
  match s.splitOn ":" with
  | ["link", n] => n.toNat?.map Filter.link
  | ["fee", n] => n.toNat?.map Filter.fee
  | ["stave", n] => n.toNat?.map Filter.stave
  | _ => none

def parseTarget (s : String) : Target :=
  if s == "its" then .its else if s == "stave" then .itsStave else .none

def parseCheckCfg (kv : List (String × String)) : CheckCfg :=
  { running := kvGet kv "running" "0" == "1",
    target := parseTarget (kvGet kv "target" "none"),
    customRdhVersion := optNat (kvGet kv "ver"),
    triggerPeriod := optNat (kvGet kv "period"),
    alpide := { chipCountOb := optNat (kvGet kv "cnt"), chipOrdersOb := parseOrders (kvGet kv "orders") } }

def parseCmd (s : String) : Cmd :=
  match s with
  | "sanity" => .checkSanity | "all" => .checkAll | "viewrdh" => .viewRdh
  | "viewframes" => .viewFrames | "viewdata" => .viewFramesData | _ => .none

def parseOpts (kv : List (String × String)) : Opts :=
  { cmd := parseCmd (kvGet kv "cmd" "none"),
    target := parseTarget (kvGet kv "target" "none"),
    filter := parseFilter (kvGet kv "filter"),
    src := if kvGet kv "src" "file" == "pipe" then .pipe else .file,
    mute := kvGet kv "mute" "0" == "1",
    cap := (optNat (kvGet kv "cap")).getD 0,
    anyErrCode := optNat (kvGet kv "E"),
    codeFilter := (let w := kvGet kv "w"; if w == "-" then none else some ((w.splitOn ",").map ("E" ++ ·))),
    triggerPeriod := optNat (kvGet kv "period"),
    customCdps := optNat (kvGet kv "cdps"),
    customPht := optNat (kvGet kv "pht"),
    customRdhVersion := optNat (kvGet kv "ver"),
    alpide := { chipCountOb := optNat (kvGet kv "cnt"), chipOrdersOb := parseOrders (kvGet kv "orders") },
    writeOutput := kvGet kv "out" "1" == "1" }

def showFinding (f : Finding) : String :=
  s!"{f.offset}:{f.code}:" ++ (match f.word with | some w => toHex w | none => "-")

def showMsgs (ms : List Msg) : String :=
  joinSp (ms.filterMap fun m => match m with | .error f => some (showFinding f) | .alpideStats _ => none)

def showAlpide (s : AlpideStats) : String :=
  s!"{s.chipTrailers},{s.busyViolations},{s.dataOverrun},{s.transmissionInFatal},{s.flushedIncomplete},{s.strobeExtended},{s.busyTransitions}"

def sumAlpide (ms : List Msg) : AlpideStats :=
  ms.foldl (fun a m => match m with | .alpideStats s => a.add s | _ => a) {}

def parsePacket (t : String) : Option Packet :=
  match t.splitOn ":" with
  | [o, r, p] =>
    match o.toNat?, parseHex r, parseHex p with
    | some off, some rb, some pb => some { offset := off, rdh := decodeRdh rb, payload := pb }
    | _, _, _ => none
  | _ => none

def parseRawPacket (t : String) : Option (Bytes × Bytes) :=
  match t.splitOn ":" with
  | [_, r, p] =>
    match parseHex r, parseHex p with
    | some rb, some pb => some (rb, pb)
    | _, _ => none
  | _ => none

def rdhFields (r : Rdh) : String :=
  joinSp ([r.headerId, r.headerSize, r.feeId, r.priority, r.systemId, r.reserved0, r.offsetNext,
    r.memSize, r.linkId, r.packetCounter, r.cruId, r.dw, r.bc, r.rdh1Reserved, r.orbit,
    r.dataFormat, r.dataFormatReserved / 256, r.triggerType, r.pagesCounter, r.stopBit, r.rdh2Reserved,
    r.reserved1, r.detectorField, r.parBit, r.rdh3Reserved, r.reserved2, r.payloadSize].map toString)

def showColl (fin : Final) : String :=
  let c := fin.coll
  let o (x : Option Nat) := match x with | some v => toString v | none => "-"
  s!"seen={c.rdhsSeen} filtered={c.rdhsFiltered} ver={o c.rdhVersion} hbfs={c.hbfs} payload={c.payload} " ++
  s!"df={o c.dataFormat} links={",".intercalate (c.links.map toString)} fees={",".intercalate (c.fees.map toString)} " ++
  s!"sys={o c.systemId} runtrig={o c.runTrigger} " ++
  s!"staves={",".intercalate (c.layerStaves.map fun p => s!"{p.1}/{p.2}")} " ++
  s!"trig={",".intercalate (triggerBits.map fun k => toString (c.trig k))} " ++
  s!"fatal={if c.fatal.isSome then 1 else 0} total={fin.total} codes={",".intercalate fin.uniqueCodes} " ++
  s!"alpide={match c.alpide with | some a => showAlpide a | none => "-"}"

def showShown (s : Shown) : String :=
  match s with
  | .err f => s!"{f.offset}:{f.code}"
  | .fatal => "FATAL"
  | .custom c => s!"custom:{c}"

def natList (s : String) : List Nat := if s == "-" || s == "" then [] else (s.splitOn ",").filterMap (·.toNat?)
def strList (s : String) : List String := if s == "-" || s == "" then [] else s.splitOn ","
def pairList (s : String) : List (Nat × Nat) :=
  if s == "-" || s == "" then [] else (s.splitOn ",").filterMap fun t =>
    match t.splitOn "/" with
    | [a, b] => match a.toNat?, b.toNat? with | some x, some y => some (x, y) | _, _ => none
    | _ => none
def optStr (s : String) : Option String := if s == "-" then none else some s

def parseStatsRec (kv : List (String × String)) : StatsRec :=
  { rdhsSeen := (optNat (kvGet kv "rdhs_seen")).getD 0, rdhsFiltered := (optNat (kvGet kv "rdhs_filtered")).getD 0,
    rdhVersion := optNat (kvGet kv "rdh_version"), hbfsSeen := (optNat (kvGet kv "hbfs_seen")).getD 0,
    payloadSize := (optNat (kvGet kv "payload_size")).getD 0, dataFormat := optNat (kvGet kv "data_format"),
    links := natList (kvGet kv "links"), feeId := natList (kvGet kv "fee_id"), systemId := optStr (kvGet kv "system_id"),
    runTriggerType := (match (kvGet kv "run_trigger_type").splitOn ":" with
      | [a, b] => a.toNat?.map (fun n => (n, b))
      | _ => none),
    layerStavesSeen := pairList (kvGet kv "layer_staves_seen"), trig := natList (kvGet kv "trig"),
    fatalError := optStr (kvGet kv "fatal_error"), reportedErrors := strList (kvGet kv "reported_errors"),
    customChecksStatsErrors := strList (kvGet kv "custom_checks_stats_errors"),
    totalErrors := (optNat (kvGet kv "total_errors")).getD 0, uniqueErrorCodes := strList (kvGet kv "unique_error_codes"),
    stavesWithErrors := (let v := kvGet kv "staves_with_errors"; if v == "-" then none else some (pairList v)),
    alpide := (let v := kvGet kv "alpide"; if v == "-" then none else some (natList v)) }

def handle (line : String) : String :=
  match line.trimAscii.toString.splitOn " " with
  | ["rdh", h] =>
    match parseHex h with
    | some bs => if bs.length == 64 then
        rdhFields (decodeRdh bs) ++ " " ++ (if encodeRdh (decodeRdh bs) == bs then "rt=ok" else "rt=BAD")
      else "bad-op"
    | none => "bad-op"
  | ["rdhsane", its, first, h] =>
    match parseHex first, parseHex h with
    | some fb, some bs =>
      let r := decodeRdh bs
      let e := (decodeRdh fb).headerId
      if rdhSanityBad e (if its == "1" then some 32 else none) r then "bad" else "ok"
    | _, _ => "bad-op"
  | "running" :: hs =>
    let rs := hs.filterMap parseHex
    let (_, out) := rs.foldl (fun (acc : RunSt × List String) bs =>
      let (s', e) := runningStep acc.1 (decodeRdh bs)
      (s', acc.2 ++ [if e then "1" else "0"])) ({}, [])
    joinSp out
  | ["sane", kind, h] =>
    match parseHex h with
    | some w =>
      let r := match kind with
        | "ihw" => ihwSane w | "tdh" => tdhSane w | "tdt" => tdtSane w | "ddw0" => ddw0Sane w | _ => false
      if w.length == 10 then (if r then "ok" else "bad") else "bad-op"
    | none => "bad-op"
  | ["data", running, lanes, h] =>
    match parseHex h, lanes.toNat? with
    | some w, some l => ",".intercalate (dataWordCodes (running == "1") l w) ++ ";"
    | _, _ => "bad-op"
  | ["cut", h] =>
    match parseHex h with
    | some p =>
      match cutPayload p with
      | none => "err"
      | some ws => joinSp (toString ws.length :: ws.map toHex)
    | none => "bad-op"
  | ["fsm", sid, h] =>
    match sid.toNat?.bind FsmSt.ofId, parseHex h with
    | some s, some w => let (s', c) := fsmAdvance s w; s!"{s'.id} {c.name}"
    | _, _ => "bad-op"
  | ["lane", h] =>
    match parseHex h with
    | some bs =>
      let d := decodeLane bs
      s!"chips={",".intercalate (d.chips.map fun c => s!"{c.1}/{c.2}")} fatal={if d.fatal then 1 else 0} bcerr={if d.bcErr then 1 else 0} stats={showAlpide d.stats}"
    | none => "bad-op"
  | "link" :: rest =>
    let cfgToks := rest.takeWhile (· != "--")
    let pkToks := (rest.dropWhile (· != "--")).drop 1
    let cfg := parseCheckCfg (parseKv cfgToks)
    let pks := pkToks.filterMap parsePacket
    if pks.length != pkToks.length then "bad-op" else
    match linkRun cfg (LinkSt.init cfg) pks with
    | .error e => s!"PANIC {e.name}"
    | .ok (_, ms) => s!"OK alpide={showAlpide (sumAlpide ms)} " ++ showMsgs ms
  | "conf" :: rest =>
    -- is this link (its packets in order) inside the protocol grammar of Spec.Protocol?
    let cfgToks := rest.takeWhile (· != "--")
    let pkToks := (rest.dropWhile (· != "--")).drop 1
    let running := kvGet (parseKv cfgToks) "running" "0" == "1"
    let pks := pkToks.filterMap parseRawPacket
    if pks.length != pkToks.length then "bad-op" else
    (match Proto.confLink running {} pks with
     | .error e => s!"REJECT {e}"
     | .ok c => s!"CONFORMS n={c.idx}")
  | "scan" :: rest =>
    let kv := parseKv rest
    match parseHex (kvGet kv "data") with
    | none => "bad-op"
    | some bs =>
      let cfg : ScanCfg := { filter := parseFilter (kvGet kv "filter"),
                             skipPayload := kvGet kv "skip" "0" == "1",
                             src := if kvGet kv "src" "file" == "pipe" then .pipe else .file }
      let r := scanAll cfg bs
      let pk := r.packets.map fun p => s!"{p.offset}:{toHex (encodeRdh p.rdh)}:{p.payload.length}:{leNat (p.payload.take 4)}"
      let ms := r.msgs.map fun m => match m with
        | .fatalOffset p d => s!"fatal@{p}:{d}" | .error f => s!"err@{f.offset}:{f.code}"
        | .runTrigger t => s!"runtrig:{t}" | .dataFormat f => s!"df:{f}" | .systemId s => s!"sys:{s}"
        | .link l => s!"link:{l}" | .fee f => s!"fee:{f}" | .rdhSeen n => s!"seen:{n}"
        | .rdhFiltered n => s!"filtered:{n}" | .payloadSize n => s!"payload:{n}"
      s!"n={r.packets.length} " ++ joinSp pk ++ " | " ++ joinSp ms
  | "view" :: rest =>
    let kv := parseKv rest
    match parseHex (kvGet kv "data") with
    | none => "bad-op"
    | some bs =>
      let kind := kvGet kv "kind" "rdh"
      let cfg : ScanCfg := { filter := parseFilter (kvGet kv "filter"), skipPayload := kind == "rdh", src := .file }
      let pk := (scanAll cfg bs).packets
      if kind == "rdh" then
        joinSp ((rdhViewRows pk).map fun r => s!"{r.offset}:{r.ver}:{r.hsize}:{r.fee}:{r.sys}:{r.offNext}:{r.link}:{r.pkt}:{r.bc}:{r.orbit}:{r.df}:{r.trig}:{r.pages}:{r.stop}:{r.det}")
      else
        match frameViewRows (kind == "data") pk with
        | .error e => s!"PANIC {e.name}"
        | .ok (rows, complete) =>
          (if complete then "" else "INCOMPLETE ") ++ joinSp (rows.map fun r => match r with
            | .rdh h => s!"R:{h.offset}:{h.ver}:{h.stop}:{h.layer}:{h.stave}:{h.trig}:{h.link}:{h.laneStatus}:{h.orbit}:{h.bc}"
            | .word w => s!"W:{w.offset}:{reprStr w.kind |>.replace "FastPasta.ViewKind." ""}:{toHex w.bytes}:{"|".intercalate w.attrs |>.replace " " "_"}")
  | "collect" :: rest =>
    let mute := rest.head? == some "mute=1"
    let toks := rest.drop 1
    let msgs : List Stat := toks.filterMap fun t =>
      match t.splitOn ":" with
      | ["e", off, code, tag] => off.toNat?.map fun o => Stat.error { offset := o, code := code, word := some tag.toUTF8.toList }
      | ["l", n] => n.toNat?.map Stat.link
      | ["f", n] => n.toNat?.map Stat.feeId
      | ["s", a, b] => match a.toNat?, b.toNat? with | some x, some y => some (Stat.layerStave x y) | _, _ => none
      | ["t", n] => n.toNat?.map Stat.triggerType
      | ["h", n] => n.toNat?.map Stat.hbfs
      | ["r", n] => n.toNat?.map Stat.rdhSeen
      | ["p", n] => n.toNat?.map Stat.payloadSize
      | _ => none
    if msgs.length != toks.length then "bad-op" else
    let fin := finalize mute none none (Coll.run 0 {} msgs)
    let c := fin.coll
    s!"errors={",".intercalate (fin.errors.map fun f => s!"{f.offset}:{f.code}:{String.fromUTF8! (ByteArray.mk (f.word.getD []).toArray)}")} " ++
    s!"links={",".intercalate (c.links.map toString)} fees={",".intercalate (c.fees.map toString)} " ++
    s!"staves={",".intercalate (c.layerStaves.map fun p => s!"{p.1}/{p.2}")} trig={",".intercalate (triggerBits.map fun k => toString (c.trig k))} " ++
    s!"hbfs={c.hbfs} seen={c.rdhsSeen} payload={c.payload} total={fin.total} codes={",".intercalate fin.uniqueCodes}"
  | "statscmp" :: rest =>
    let a := parseStatsRec (parseKv (rest.takeWhile (· != "||")))
    let b := parseStatsRec (parseKv ((rest.dropWhile (· != "||")).drop 1))
    let ms := validateOther a b
    if ms.isEmpty then "match" else "mismatch " ++ ",".intercalate ms
  | "run" :: rest =>
    let kv := parseKv rest
    match parseHex (kvGet kv "data") with
    | none => "bad-op"
    | some bs =>
      let o := parseOpts kv
      if !o.valid then "INVALID-OPTS" else
      match run o bs with
      | .error e => s!"PANIC {e.name}"
      | .ok out =>
        if out.initErr then "INITERR exit=1" else
        s!"exit={out.exit} {showColl out.fin} errors={joinSp (out.fin.errors.map showFinding)} " ++
        s!"| custom={",".intercalate out.fin.customErrors} | shown={joinSp (out.shown.map showShown)} " ++
        s!"| outlen={out.output.length} outsum={out.output.foldl (fun a b => (a * 31 + b.toNat) % 4294967291) 7}"
  | _ => "bad-op"

partial def loop (h : IO.FS.Stream) (out : IO.FS.Stream) : IO Unit := do
  let line ← h.getLine
  if line.isEmpty then return ()
  out.putStrLn (handle line)
  loop h out

def main : IO Unit := do
  let out ← IO.getStdout
  loop (← IO.getStdin) out
  out.flush
