/-
  C02 / C16 — from the link level to the whole run: a finding that one link's sequential pass
  emits (the detection theorems of `Props/C02.lean`, the iff theorems of C10/C11) is **stored in the
  report's error list, counted, and makes the process return the configured any-errors status** —
  for every input, every interleaving of links, every filter, file or pipe, provided no fatal
  message ended the run.  Glue: `dispatch_partition` (C06), `run_errors_nofatal` (C14),
  `sortStable_filter` (C05), `run_exit` / `exit_contract` (C16).
-/
import FastPasta.Props.C06
import FastPasta.Props.C14
import FastPasta.Props.C16
import FastPasta.Proofs.Sort
namespace FastPasta
namespace C02

/-- shape of a check run that passed the start-up gate, with the dispatcher result exposed -/
theorem run_form_check (o : Opts) (input : Bytes) (out : Outcome) (h : run o input = .ok out) (hinit : out.initErr = false)
    (hc : o.isCheck = true) :
    ∃ d : DispSt, runValidators o.checkCfg [] (scanAll o.scanCfg input).packets = .ok d ∧
      out.fin = finalize o.mute o.customCdps o.customPht
        (Coll.run o.cap (if o.isCheck && o.target == .itsStave then { alpide := some {} } else {})
          ([Stat.rdhVersion (bAt input 0)] ++
            (if o.isCheck || o.isView then analysisMsgs (scanAll o.scanCfg input).packets else []) ++
            d.allMsgs.map msgToStat ++ (scanAll o.scanCfg input).msgs.flatMap inMsgToStat)) := by
  unfold run at h
  split at h
  · simp only [Except.ok.injEq] at h; subst h; simp at hinit
  · simp only [hc, ↓reduceIte] at h
    cases hrv : runValidators o.checkCfg [] (scanAll o.scanCfg input).packets with
    | error e => simp [hrv] at h
    | ok d =>
      simp only [hrv, Except.ok.injEq] at h
      subst h
      exact ⟨d, rfl, by simp [hc]⟩

theorem mem_allMsgs_of_msgsOf (d : DispSt) (i : Nat) (m : Msg) (h : m ∈ d.msgsOf i) : m ∈ d.allMsgs := by
  unfold DispSt.msgsOf at h
  cases hf : d.find? (·.1 == i) with
  | none => simp [hf] at h
  | some x =>
    obtain ⟨j, s, ms⟩ := x
    simp only [hf] at h
    have hx := List.mem_of_find?_eq_some hf
    unfold DispSt.allMsgs
    exact List.mem_flatMap.mpr ⟨(j, s, ms), hx, h⟩

theorem mem_sortStable (l : List Finding) (f : Finding) (h : f ∈ l) : f ∈ sortStable l := by
  have h1 : f ∈ l.filter (keyIs f.offset) := List.mem_filter.mpr ⟨h, by simp [keyIs]⟩
  rw [← sortStable_filter l f.offset] at h1
  exact (List.mem_filter.mp h1).1

/-- **from a link's finding to the report and the exit status.**  `i` is a link id (a FEE ID in
    stave mode); the packets the scanner delivers for that id, checked alone in one sequential
    pass, give the message list `ms`. Every finding in `ms` is in the final (sorted) error list, the
    error total is positive, and with `-E n` the exit status is `n`. -/
theorem link_finding_reported_and_exit (o : Opts) (input : Bytes) (out : Outcome) (h : run o input = .ok out)
    (hinit : out.initErr = false) (hc : o.isCheck = true) (hnf : out.fin.coll.fatal = none)
    (i : Nat) (sL : LinkSt) (ms : List Msg)
    (hl : linkRun o.checkCfg (LinkSt.init o.checkCfg) (C06.ofId o.checkCfg i (scanAll o.scanCfg input).packets) = .ok (sL, ms))
    (f : Finding) (hf : Msg.error f ∈ ms) :
    f ∈ out.fin.errors ∧ 0 < out.fin.total ∧ (∀ n, o.anyErrCode = some n → out.exit = n) := by
  obtain ⟨d, hd, hfin⟩ := run_form_check o input out h hinit hc
  have hpart := C06.dispatch_partition o.checkCfg _ d hd i
  simp only [C06.alone, hl, Except.ok.injEq] at hpart
  have hmem : Msg.error f ∈ d.allMsgs := mem_allMsgs_of_msgsOf d i _ (by rw [← hpart]; exact hf)
  -- the collector keeps every error message when no fatal message was issued
  have hnf' := hnf
  rw [hfin] at hnf'
  simp only [finalize] at hnf'
  obtain ⟨e1, e2⟩ := C14.run_errors_nofatal o.cap _ _ hnf'
  have hstat : Stat.error f ∈ d.allMsgs.map msgToStat := List.mem_map.mpr ⟨_, hmem, rfl⟩
  have hin : f ∈ (Coll.run o.cap (if o.isCheck && o.target == .itsStave then { alpide := some {} } else {})
      ([Stat.rdhVersion (bAt input 0)] ++
        (if o.isCheck || o.isView then analysisMsgs (scanAll o.scanCfg input).packets else []) ++
        d.allMsgs.map msgToStat ++ (scanAll o.scanCfg input).msgs.flatMap inMsgToStat)).errors := by
    rw [e1]
    apply List.mem_append_right
    simp only [List.filterMap_append, List.mem_append]
    left; right
    exact List.mem_filterMap.mpr ⟨_, hstat, rfl⟩
  have herr : f ∈ out.fin.errors := by rw [hfin]; simp only [finalize]; exact mem_sortStable _ f hin
  have htot : 0 < out.fin.total := by
    rw [hfin]; simp only [finalize]
    rw [e2]
    have : 0 < (List.filterMap Stat.errOf ([Stat.rdhVersion (bAt input 0)] ++
        (if o.isCheck || o.isView then analysisMsgs (scanAll o.scanCfg input).packets else []) ++
        d.allMsgs.map msgToStat ++ (scanAll o.scanCfg input).msgs.flatMap inMsgToStat)).length := by
      apply List.length_pos_of_mem (a := f)
      simp only [List.filterMap_append, List.mem_append]
      left; right
      exact List.mem_filterMap.mpr ⟨_, hstat, rfl⟩
    omega
  refine ⟨herr, htot, ?_⟩
  intro n hn
  rcases C16.run_exit o input out h with ⟨hi, _⟩ | ⟨_, hex⟩
  · rw [hinit] at hi; cases hi
  · rw [hex]
    unfold exitCode
    simp only [Bool.false_eq_true, ↓reduceIte, hn]
    have : decide (out.fin.total > 0) = true := by simpa using htot
    simp [this]

end C02
end FastPasta
