/-
  C04 — no input crashes or hangs the tool.

  Every data-reachable `unwrap`/`expect`/`panic!`/`unreachable!` site of the validators is an
  explicit `Except PanicSite` outcome of the model (never a totalising default), so "does not
  crash" is a statement about the model:
  * `no_panic_nonstave`: in the four non-stave check modes the per-link validator returns a result
    for *every* packet list (arbitrary bytes) — in particular the `ihw().unwrap()` site is
    unreachable (`IhwInv`: a data word is only ever processed after an IHW has been stored, because
    the state machine starts and restarts in the IHW state);
  * `panic_only_invalid_layer`: in stave mode the only possible abnormal outcome is the
    `panic!("Invalid layer number")` of `Stave::from_feeid` for a FEE ID with layer 7 (recorded as
    a known finding); every other site (lane data outside a frame, empty chip list, fatal lane
    number ≥ 9 — repaired by `fix:` commits) cannot occur;
  * `scan_steps_bound`: the scanner delivers at most `input.length / 64` packets — each loop
    iteration consumes at least one 64-byte header (this is also the termination argument Lean
    checked for the well-founded `scanLoop` / `filterLoop`), so the work is linear in the input;
  * `alpide_zero_is_data_long`: the `unreachable_unchecked` for APE padding cannot be reached (byte
    0x00 is classified as DATA LONG before the exact-match table is consulted);
  * exit status in {0, 1, N}: C16 `exit_in_range`.
  Partial: memory errors inside the `unsafe` payload read / `to_byte_slice`, allocator aborts, real
  elapsed time and thread start-up are outside the model; the oracle runs the release binary on
  random bytes and structure-aware mutations in all modes (thorough tier: also an
  AddressSanitizer build) with a wall-clock bound.
-/
import FastPasta.Model.Cli
namespace FastPasta
namespace C04

/-- a data word is only processed after an IHW was stored -/
def IhwInv (s : CdpSt) : Prop := s.ihw.isSome = true ∨ s.fsm = .initialIhw

/-- closing a frame can only fail for want of the barrel (set from the FEE ID at the first packet) -/
theorem processFrame_err (cfg : CheckCfg) (s : CdpSt) (e : PanicSite) (h : processFrame cfg s = .error e) :
    e = .invalidLayer ∧ s.barrel = none := by
  unfold processFrame at h
  simp only at h
  split at h
  · cases h
  · split at h
    · cases h
    · split at h
      · rename_i hb
        simp only [Except.error.injEq] at h
        exact ⟨h.symm, hb⟩
      · cases h

/-- fields of the validator state that no word handler ever clears -/
structure Keeps (s s' : CdpSt) : Prop where
  ihw : s.ihw.isSome = true → s'.ihw.isSome = true
  barrel : s'.barrel = s.barrel
  fsm : s'.fsm = s.fsm

theorem processFrame_keeps (cfg : CheckCfg) (s s' : CdpSt) (ms : List Msg) (h : processFrame cfg s = .ok (s', ms)) : Keeps s s' := by
  unfold processFrame at h
  simp only at h
  split at h
  · simp only [Except.ok.injEq, Prod.mk.injEq] at h; obtain ⟨rfl, _⟩ := h; exact ⟨id, rfl, rfl⟩
  · split at h
    · simp only [Except.ok.injEq, Prod.mk.injEq] at h; obtain ⟨rfl, _⟩ := h; exact ⟨id, rfl, rfl⟩
    · split at h
      · cases h
      · simp only [Except.ok.injEq, Prod.mk.injEq] at h; obtain ⟨rfl, _⟩ := h; exact ⟨id, rfl, rfl⟩

theorem preData_err (cfg : CheckCfg) (s : CdpSt) (w : Bytes) (e : PanicSite) (h : preData cfg s w = .error e) :
    (e = .ihwMissing ∧ s.ihw = none) ∨ (e = .invalidLayer ∧ s.barrel = none ∧ cfg.stave = true) := by
  unfold preData at h
  simp only at h
  split at h
  · split at h <;> cases h
  · split at h
    · cases h
    · split at h
      · rename_i hi
        simp only [Except.error.injEq] at h
        exact Or.inl ⟨h.symm, hi⟩
      · split at h
        · cases h
        · rename_i hst
          have hst' : cfg.stave = true := by simpa using hst
          split at h
          · cases h
          · rename_i hb
            simp only [Except.error.injEq] at h
            exact Or.inr ⟨h.symm, hb, hst'⟩
          · cases h

theorem preData_keeps (cfg : CheckCfg) (s s' : CdpSt) (w : Bytes) (ms : List Msg) (h : preData cfg s w = .ok (s', ms)) : Keeps s s' := by
  unfold preData at h
  simp only at h
  split at h
  · split at h <;> (simp only [Except.ok.injEq, Prod.mk.injEq] at h; obtain ⟨rfl, _⟩ := h; exact ⟨id, rfl, rfl⟩)
  · split at h
    · simp only [Except.ok.injEq, Prod.mk.injEq] at h; obtain ⟨rfl, _⟩ := h; exact ⟨id, rfl, rfl⟩
    · split at h
      · cases h
      · split at h
        · simp only [Except.ok.injEq, Prod.mk.injEq] at h; obtain ⟨rfl, _⟩ := h; exact ⟨id, rfl, rfl⟩
        · split at h
          · simp only [Except.ok.injEq, Prod.mk.injEq] at h; obtain ⟨rfl, _⟩ := h; exact ⟨id, rfl, rfl⟩
          · cases h
          · simp only [Except.ok.injEq, Prod.mk.injEq] at h; obtain ⟨rfl, _⟩ := h; exact ⟨id, rfl, rfl⟩

theorem preTdh_keeps (cfg : CheckCfg) (s : CdpSt) (w : Bytes) : Keeps s (preTdh cfg s w).1 := by
  unfold preTdh; simp only; split <;> exact ⟨id, rfl, rfl⟩

/-- one word: under `IhwInv` and with the barrel known in stave mode, no panic; the invariant and
    the barrel are preserved -/
theorem checkWord_safe (cfg : CheckCfg) (s : CdpSt) (w : Bytes) (hi : IhwInv s)
    (hb : cfg.stave = true → s.barrel.isSome = true) :
    ∃ s' ms, checkWord cfg s w = .ok (s', ms) ∧ IhwInv s' ∧ s'.barrel = s.barrel := by
  rcases hadv : fsmAdvance s.fsm w with ⟨st', cls⟩
  -- in the initial state the word is an IHW
  have hcls : s.ihw.isSome = true ∨ cls = .ihw := by
    rcases hi with h | h
    · exact Or.inl h
    · right
      have : fsmAdvance .initialIhw w = (FsmSt.tdhByWasIhw, WordClass.ihw) := rfl
      rw [h, this] at hadv
      exact (Prod.mk.inj hadv).2.symm
  simp only [checkWord, hadv]
  generalize hs1 : ({ s with wordCount := s.wordCount + 1, fsm := st' } : CdpSt) = s1
  have h1i : s.ihw.isSome = true → s1.ihw.isSome = true := by subst hs1; exact id
  have h1b : s1.barrel = s.barrel := by subst hs1; rfl
  have hb1 : cfg.stave = true → s1.barrel.isSome = true := fun h => h1b ▸ hb h
  have dataCase : s.ihw.isSome = true → ∃ s' ms, preData cfg s1 w = .ok (s', ms) ∧ IhwInv s' ∧ s'.barrel = s.barrel := by
    intro hsome
    cases hp : preData cfg s1 w with
    | error e =>
      rcases preData_err cfg s1 w e hp with ⟨_, hn⟩ | ⟨_, hn⟩
      · have := h1i hsome; simp [hn] at this
      · have := hb1 hn.2
        simp [hn.1] at this
    | ok r =>
      obtain ⟨s2, m2⟩ := r
      have hk := preData_keeps cfg s1 s2 w m2 hp
      exact ⟨s2, m2, rfl, Or.inl (hk.ihw (h1i hsome)), by rw [hk.barrel, h1b]⟩
  cases cls with
  | ihw => exact ⟨_, _, rfl, Or.inl (by simp [preIhw]), by simp [preIhw, h1b]⟩
  | ihwCont => exact ⟨_, _, rfl, Or.inl (by simp [preIhw]), by simp [preIhw, h1b]⟩
  | tdh =>
    rcases hcls with h | h
    · have hk := preTdh_keeps cfg s1 w
      exact ⟨_, _, rfl, Or.inl (hk.ihw (h1i h)), by rw [hk.barrel, h1b]⟩
    · cases h
  | tdhCont =>
    rcases hcls with h | h
    · have hk := preTdh_keeps cfg s1 w
      exact ⟨_, _, rfl, Or.inl (hk.ihw (h1i h)), by rw [hk.barrel, h1b]⟩
    · cases h
  | tdhAfterPacketDone =>
    rcases hcls with h | h
    · have hk := preTdh_keeps cfg s1 w
      exact ⟨_, _, rfl, Or.inl (hk.ihw (h1i h)), by rw [hk.barrel, h1b]⟩
    · cases h
  | errTdhOrDdw0 =>
    rcases hcls with h | h
    · have hk := preTdh_keeps cfg s1 w
      exact ⟨_, _, rfl, Or.inl (hk.ihw (h1i h)), by rw [hk.barrel, h1b]⟩
    · cases h
  | ddw0 =>
    rcases hcls with h | h
    · exact ⟨_, _, rfl, Or.inl (by simpa [preDdw0] using h1i h), by simp [preDdw0, h1b]⟩
    · cases h
  | errDdw0OrTdhIhw =>
    rcases hcls with h | h
    · exact ⟨_, _, rfl, Or.inl (by simpa [preDdw0] using h1i h), by simp [preDdw0, h1b]⟩
    · cases h
  | dataWord =>
    rcases hcls with h | h
    · exact dataCase h
    · cases h
  | cdw =>
    rcases hcls with h | h
    · exact dataCase h
    · cases h
  | errDwOrTdtCdw =>
    rcases hcls with h | h
    · obtain ⟨s2, m2, hp, hi2, hb2⟩ := dataCase h
      exact ⟨s2, mkErr s1 "E991" w :: m2, by simp [hp], hi2, hb2⟩
    · cases h
  | tdt =>
    rcases hcls with h | h
    · unfold preTdt
      simp only
      split
      · cases hpf : processFrame cfg { s1 with tdt := some w } with
        | error e =>
          have := (processFrame_err cfg _ e hpf).2
          rename_i hst
          have hst' : cfg.stave = true := by
            simp only [Bool.and_eq_true] at hst; exact hst.1
          have hbs := hb1 hst'
          simp only at this
          simp [this] at hbs
        | ok r =>
          obtain ⟨s2, m2⟩ := r
          have hk := processFrame_keeps cfg _ s2 m2 hpf
          exact ⟨s2, _, rfl, Or.inl (hk.ihw (by simpa using h1i h)), by rw [hk.barrel]; exact h1b⟩
      · exact ⟨_, _, rfl, Or.inl (by simpa using h1i h), h1b⟩
    · cases h

theorem checkWords_safe (cfg : CheckCfg) (ws : List Bytes) : ∀ (s : CdpSt), IhwInv s →
    (cfg.stave = true → s.barrel.isSome = true) →
    ∃ s' ms, checkWords cfg s ws = .ok (s', ms) ∧ IhwInv s' ∧ s'.barrel = s.barrel := by
  induction ws with
  | nil => intro s hi _; exact ⟨s, [], rfl, hi, rfl⟩
  | cons w ws ih =>
    intro s hi hb
    obtain ⟨s1, m1, h1, hi1, hb1⟩ := checkWord_safe cfg s w hi hb
    obtain ⟨s2, m2, h2, hi2, hb2⟩ := ih s1 hi1 (fun h => hb1 ▸ hb h)
    exact ⟨s2, m1 ++ m2, by simp [checkWords, h1, h2], hi2, by rw [hb2, hb1]⟩

theorem setCurrentRdh_safe (cfg : CheckCfg) (s : CdpSt) (off : Nat) (r : Rdh) (hi : IhwInv s)
    (hb : cfg.stave = true → s.barrel.isSome = true ∨ (barrelOfFee r.feeId).isSome = true) :
    ∃ s0, setCurrentRdh cfg s off r = .ok s0 ∧ IhwInv s0 ∧ (cfg.stave = true → s0.barrel.isSome = true) := by
  unfold setCurrentRdh
  simp only
  by_cases hst : cfg.stave = true
  · cases hbar : s.barrel with
    | some b =>
      simp only [hst, hbar, Option.isNone_some, Bool.and_false, Bool.false_eq_true, ↓reduceIte]
      exact ⟨_, rfl, by rcases hi with h | h; exact Or.inl h; exact Or.inr h, fun _ => by simp [hbar]⟩
    | none =>
      have hfee : (barrelOfFee r.feeId).isSome = true := by
        rcases hb hst with h | h
        · simp [hbar] at h
        · exact h
      cases hbf : barrelOfFee r.feeId with
      | none => simp [hbf] at hfee
      | some b =>
        simp only [hst, hbar, Option.isNone_none, Bool.and_self, ↓reduceIte]
        exact ⟨_, rfl, by rcases hi with h | h; exact Or.inl h; exact Or.inr h, fun _ => rfl⟩
  · have hst' : cfg.stave = false := by simpa using hst
    simp only [hst', Bool.false_and, Bool.false_eq_true, ↓reduceIte]
    exact ⟨_, rfl, by rcases hi with h | h; exact Or.inl h; exact Or.inr h, fun h => by simp [hst'] at h⟩

/-- one packet's payload: the only abnormal outcome is the invalid-layer panic when the barrel of
    a stave-mode validator is determined from a FEE ID of layer 7 -/
theorem payloadChecks_safe (cfg : CheckCfg) (s : CdpSt) (off : Nat) (r : Rdh) (p : Bytes) (hi : IhwInv s)
    (hb : cfg.stave = true → s.barrel.isSome = true ∨ (barrelOfFee r.feeId).isSome = true) :
    ∃ s' ms, payloadChecks cfg s off r p = .ok (s', ms) ∧ IhwInv s' ∧ (cfg.stave = true → s'.barrel.isSome = true) := by
  obtain ⟨s0, h0, hi0, hb0⟩ := setCurrentRdh_safe cfg s off r hi hb
  unfold payloadChecks
  simp only [h0]
  cases cutPayload p with
  | none => exact ⟨_, _, rfl, Or.inr rfl, hb0⟩
  | some ws =>
    obtain ⟨s', ms, h, hi', hb'⟩ := checkWords_safe cfg ws s0 hi0 hb0
    exact ⟨s', ms, h, hi', fun hst => hb' ▸ hb0 hst⟩

/-- the link validator never panics on packets whose FEE-ID layer is 0..6 (in the non-stave modes:
    on any packets at all) -/
theorem linkRun_safe (cfg : CheckCfg) (ps : List Packet)
    (hlayer : cfg.stave = true → ∀ p ∈ ps, (barrelOfFee p.rdh.feeId).isSome = true) :
    ∀ (s : LinkSt), IhwInv s.cdp → (cfg.stave = true → s.cdp.barrel.isSome = true ∨ True) →
      ∃ r, linkRun cfg s ps = .ok r := by
  induction ps with
  | nil => intro s _ _; exact ⟨_, rfl⟩
  | cons p ps ih =>
    intro s hi _
    have hstep : ∃ s1 m1, linkStep cfg s p = .ok (s1, m1) ∧ IhwInv s1.cdp := by
      unfold linkStep
      simp only
      split
      · obtain ⟨c', m3, h3, hi3, _⟩ := payloadChecks_safe cfg s.cdp p.offset p.rdh p.payload hi
          (fun hst => Or.inr (hlayer hst p (by simp)))
        rw [h3]
        exact ⟨_, _, rfl, hi3⟩
      · exact ⟨_, _, rfl, hi⟩
    obtain ⟨s1, m1, h1, hi1⟩ := hstep
    obtain ⟨r, hr⟩ := ih (fun hst q hq => hlayer hst q (by simp [hq])) s1 hi1 (fun _ => Or.inr trivial)
    obtain ⟨s2, m2⟩ := r
    exact ⟨(s2, m1 ++ m2), by simp [linkRun, h1, hr]⟩

/-- **C04 (validators, non-stave modes)**: for every packet list — arbitrary header and payload
    bytes — the validator of `check sanity|all [its]` terminates normally -/
theorem no_panic_nonstave (cfg : CheckCfg) (hst : cfg.stave = false) (ps : List Packet) :
    ∃ r, linkRun cfg (LinkSt.init cfg) ps = .ok r :=
  linkRun_safe cfg ps (fun h => by simp [hst] at h) (LinkSt.init cfg) (Or.inr rfl) (fun _ => Or.inr trivial)

/-- **C04 (stave mode)**: the only abnormal outcome is `Stave::from_feeid`'s panic for layer 7 -/
theorem no_panic_stave_valid_layers (cfg : CheckCfg) (ps : List Packet)
    (hl : ∀ p ∈ ps, p.rdh.feeId / 4096 % 8 ≤ 6) : ∃ r, linkRun cfg (LinkSt.init cfg) ps = .ok r := by
  apply linkRun_safe cfg ps _ (LinkSt.init cfg) (Or.inr rfl) (fun _ => Or.inr trivial)
  intro _ p hp
  have := hl p hp
  unfold barrelOfFee barrelOfFee.feeLayer
  simp only
  by_cases h2 : p.rdh.feeId / 4096 % 8 ≤ 2
  · simp [h2]
  · by_cases h4 : p.rdh.feeId / 4096 % 8 ≤ 4
    · simp [h2, h4]
    · simp [h2, h4, this]

/-! ### the dispatcher: one validator per id, none of them panics -/

theorem linkStep_safe (cfg : CheckCfg) (s : LinkSt) (p : Packet) (hi : IhwInv s.cdp)
    (hl : cfg.stave = true → (barrelOfFee p.rdh.feeId).isSome = true) :
    ∃ s1 m1, linkStep cfg s p = .ok (s1, m1) ∧ IhwInv s1.cdp := by
  unfold linkStep
  simp only
  split
  · obtain ⟨c', m3, h3, hi3, _⟩ := payloadChecks_safe cfg s.cdp p.offset p.rdh p.payload hi (fun hst => Or.inr (hl hst))
    rw [h3]
    exact ⟨_, _, rfl, hi3⟩
  · exact ⟨_, _, rfl, hi⟩

def AllIhwInv (d : DispSt) : Prop := ∀ x ∈ d, IhwInv x.2.1.cdp

theorem upd_safe (cfg : CheckCfg) (p : Packet) (id : Nat)
    (hl : cfg.stave = true → (barrelOfFee p.rdh.feeId).isSome = true) :
    ∀ d, AllIhwInv d → ∃ d', dispStep.upd cfg p id d = .ok d' ∧ AllIhwInv d' := by
  intro d
  induction d with
  | nil =>
    intro _
    obtain ⟨s1, m1, h1, hi1⟩ := linkStep_safe cfg (LinkSt.init cfg) p (Or.inr rfl) hl
    refine ⟨[(id, s1, m1)], by simp [dispStep.upd, h1], ?_⟩
    intro x hx
    simp only [List.mem_singleton] at hx
    subst hx; exact hi1
  | cons y ys ih =>
    intro hall
    obtain ⟨i, s, ms⟩ := y
    simp only [dispStep.upd]
    split
    · obtain ⟨s1, m1, h1, hi1⟩ := linkStep_safe cfg s p (hall (i, s, ms) (by simp)) hl
      refine ⟨(i, s1, ms ++ m1) :: ys, by simp [h1], ?_⟩
      intro x hx
      simp only [List.mem_cons] at hx
      rcases hx with rfl | hx
      · exact hi1
      · exact hall x (by simp [hx])
    · obtain ⟨d', hd', hall'⟩ := ih (fun x hx => hall x (by simp [hx]))
      refine ⟨(i, s, ms) :: d', by simp [hd'], ?_⟩
      intro x hx
      simp only [List.mem_cons] at hx
      rcases hx with rfl | hx
      · exact hall _ (by simp)
      · exact hall' x hx

/-- **C04 (all validators of a run)**: the dispatcher with its validators — one per link, or per
    FEE ID in stave mode — returns normally for every packet list, arbitrary contents, any
    interleaving; in stave mode provided no FEE ID has layer 7 (the known finding) -/
theorem runValidators_safe (cfg : CheckCfg) (ps : List Packet)
    (hlayer : cfg.stave = true → ∀ p ∈ ps, (barrelOfFee p.rdh.feeId).isSome = true) :
    ∀ d, AllIhwInv d → ∃ d', runValidators cfg d ps = .ok d' := by
  induction ps with
  | nil => intro d _; exact ⟨d, rfl⟩
  | cons p ps ih =>
    intro d hall
    obtain ⟨d1, h1, hall1⟩ := upd_safe cfg p (dispatchId cfg p.rdh) (fun hst => hlayer hst p (by simp)) d hall
    obtain ⟨d2, h2⟩ := ih (fun hst q hq => hlayer hst q (by simp [hq])) d1 hall1
    exact ⟨d2, by simp [runValidators, dispStep, h1, h2]⟩

theorem no_panic_all_validators_nonstave (cfg : CheckCfg) (hst : cfg.stave = false) (ps : List Packet) :
    ∃ d, runValidators cfg [] ps = .ok d :=
  runValidators_safe cfg ps (fun h => by simp [hst] at h) [] (fun x hx => by simp at hx)

/-! ### linear work: every delivered packet consumes at least its 64-byte header -/


theorem filterLoop_consumes (src : Src) (t : Filter) (s : ScanSt) (acc : List InMsg) :
    ∀ r, (filterLoop src t s acc).2.2 = .ok r → (filterLoop src t s acc).1.rest.length + 64 ≤ s.rest.length := by
  fun_induction filterLoop src t s acc with
  | case1 s acc h => intro r hr; simp at hr
  | case2 s acc h r s1 hoff => intro r' hr; simp at hr
  | case3 s acc h r s1 hoff s2 m hm =>
    intro r' _
    simp only [s2, s1, ScanSt.seeRdh, List.length_drop]
    omega
  | case4 s acc h r s1 hoff s2 m hm s3 hseek => intro r' hr; simp at hr
  | case5 s acc h r s1 hoff s2 m hm s3 hseek ih =>
    intro r' hr
    have := ih r' hr
    have h3 : s3.rest.length ≤ s.rest.length - 64 := by
      simp only [s3, seekNext, s2, ScanSt.seeRdh, s1, List.length_drop]; omega
    omega

theorem loadRdh_consumes (cfg : ScanCfg) (s : ScanSt) :
    ∀ r, (loadRdh cfg s).2.2 = .ok r → (loadRdh cfg s).1.rest.length + 64 ≤ s.rest.length := by
  intro r hr
  unfold loadRdh at hr ⊢
  by_cases hlen : s.rest.length < 64
  · simp [hlen] at hr
  · simp only [hlen, ↓reduceIte] at hr ⊢
    by_cases hoff : offsetOk (decodeRdh (s.rest.take 64)) = true
    · simp only [hoff, Bool.not_true, Bool.false_eq_true, ↓reduceIte] at hr ⊢
      cases hf : cfg.filter with
      | none => simp only [ScanSt.seeRdh, List.length_drop]; omega
      | some t =>
        simp only [hf] at hr ⊢
        by_cases hm : t.matches (decodeRdh (s.rest.take 64)) = true
        · simp only [hm, ↓reduceIte, ScanSt.seeRdh, List.length_drop]; omega
        · simp only [hm, Bool.false_eq_true, ↓reduceIte] at hr ⊢
          by_cases hs : seekOk cfg.src (ScanSt.seeRdh { s with rest := s.rest.drop 64 } (decodeRdh (s.rest.take 64)))
              (decodeRdh (s.rest.take 64)).offsetNext = true
          · simp only [hs, Bool.not_true, Bool.false_eq_true, ↓reduceIte] at hr ⊢
            generalize hfl : filterLoop cfg.src t _ [] = fl at hr ⊢
            obtain ⟨s3, m2, res⟩ := fl
            cases res with
            | error e => simp at hr
            | ok r' =>
              have := filterLoop_consumes cfg.src t _ [] r' (by rw [hfl])
              rw [hfl] at this
              simp only [seekNext, ScanSt.seeRdh, List.length_drop] at this ⊢
              omega
          · simp only [hs, Bool.not_false, ↓reduceIte] at hr
            simp at hr
    · simp only [hoff, Bool.not_false, ↓reduceIte] at hr
      simp at hr

theorem loadCdp_consumes (cfg : ScanCfg) (s : ScanSt) :
    ∀ p, (loadCdp cfg s).2.2 = .ok p → (loadCdp cfg s).1.rest.length + 64 ≤ s.rest.length := by
  intro p hp
  have h := loadRdh_consumes cfg s
  unfold loadCdp at hp ⊢
  generalize loadRdh cfg s = lr at h hp ⊢
  obtain ⟨s1, m, res⟩ := lr
  cases res with
  | error e => simp at hp
  | ok r =>
    have h1 := h r rfl
    simp only at h1 ⊢
    split
    · simp only [seekNext, List.length_drop]; omega
    · split
      · simp only [List.length_nil]; omega
      · simp only [List.length_drop]; omega

/-- the scan loop delivers at most one packet per 64 input bytes -/
theorem scanLoop_bound (cfg : ScanCfg) : ∀ (n : Nat) (s : ScanSt), s.rest.length ≤ n → ∀ pk ms,
    (scanLoop cfg s pk ms).packets.length * 64 ≤ pk.length * 64 + s.rest.length := by
  intro n
  induction n with
  | zero =>
    intro s hs pk ms
    rw [scanLoop]
    split
    · simp
    · rename_i s1 m p heq
      have := loadCdp_consumes cfg s p (by rw [heq])
      rw [heq] at this
      simp only at this
      omega
  | succ n ih =>
    intro s hs pk ms
    rw [scanLoop]
    split
    · simp
    · rename_i s1 m p heq
      have hc := loadCdp_consumes cfg s p (by rw [heq])
      rw [heq] at hc
      simp only at hc
      split
      · have := ih s1 (by omega) (pk ++ [p]) (ms ++ m)
        simp only [List.length_append, List.length_singleton] at this
        omega
      · simp only [List.length_append, List.length_singleton]; omega

/-- **linear work**: at most `input.length / 64` packets are delivered, whatever the input -/
theorem scan_steps_bound (cfg : ScanCfg) (input : Bytes) :
    (scanAll cfg input).packets.length * 64 ≤ input.length := by
  have := scanLoop_bound cfg input.length { rest := input } (Nat.le_refl _) [] []
  simpa [scanAll] using this

/-- byte 0x00 is DATA LONG for the word table: the `unreachable_unchecked` arm for APE padding in
    the lane decoder cannot be reached -/
theorem alpide_zero_is_data_long : alpideWord 0 = .dataLong := by decide

/-- every byte is classified (the decoder's table is total) and a classification as an APE needs
    a byte ≥ 0xF2 -/
theorem alpide_ape_range : ∀ b : Fin 256, (alpideWord b.val = .apeWarn ∨ alpideWord b.val = .apeFatal) → 0xF2 ≤ b.val := by
  decide +kernel

end C04
end FastPasta
