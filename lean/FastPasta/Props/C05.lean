/-
  C05 — results do not depend on thread scheduling.

  The collector is a fold over the *arrival sequence* of messages. Senders: the forwarder of the
  scanner's statistics, the analysis thread, one validator per link (per FEE ID in stave mode) and
  the start-up RDH version. `Interleave S a` = `a` is any interleaving of the senders' sequences
  that keeps each sender's own order — i.e. every arrival order any scheduling can produce.

  `schedule_independent`: for any two arrival orders of the same senders' sequences, with no
  fatal message and no error cap, everything observable after finalisation is identical —
  counters, trigger counters, ALPIDE counters (sums: order-insensitive), the set-once fields,
  links, FEE IDs and layer/stave lists (each fed by one sender, so their first-occurrence order
  is fixed), and the error list after the *stable* sort by offset, provided messages with equal
  offsets come from one sender (`KeysFromOneSender`) — which holds because different links'
  packets occupy disjoint byte ranges and a finding's offset lies inside its own packet (C07,
  C03). Consequently the displayed messages, totals, distinct codes and the exit status are the
  same (`display_and_exit_independent`).
  (Before the `fix:` commit the implementation used an unstable sort and skipped it when muted;
  `sortStable_congr` is exactly what fails for an unstable sort.)
-/
import FastPasta.Proofs.Interleave
import FastPasta.Proofs.Sort
import FastPasta.Proofs.Collector
namespace FastPasta
namespace C05

def isFatal : Stat → Bool | .fatal _ => true | _ => false
def isLink : Stat → Bool | .link _ => true | _ => false
def isFee : Stat → Bool | .feeId _ => true | _ => false
def isLayerStave : Stat → Bool | .layerStave _ _ => true | _ => false
def isVersion : Stat → Bool | .rdhVersion _ => true | _ => false
def isDataFormat : Stat → Bool | .dataFormat _ => true | _ => false
def isSystemId : Stat → Bool | .systemId _ => true | _ => false
def isRunTrigger : Stat → Bool | .runTrigger _ => true | _ => false
def isErrorAt (k : Nat) : Stat → Bool | .error f => f.offset == k | _ => false
def isError : Stat → Bool | .error _ => true | _ => false
def isAlpide : Stat → Bool | .alpide _ => true | _ => false

def errOf : Stat → Option Finding | .error f => some f | _ => none

/-- a field of the collector that only `p`-messages change, by `g` -/
structure FieldOf (β : Type) where
  f : Coll → β
  p : Stat → Bool
  g : β → Stat → β
  step_p : ∀ (c : Coll) (m : Stat), c.fatal = none → isFatal m = false → p m = true → f (c.step 0 m) = g (f c) m
  step_np : ∀ (c : Coll) (m : Stat), c.fatal = none → isFatal m = false → p m = false → f (c.step 0 m) = f c

theorem step_keeps_nofatal (c : Coll) (m : Stat) (hc : c.fatal = none) (hm : isFatal m = false) :
    (c.step 0 m).fatal = none := by
  cases m <;> simp_all [Coll.step, isFatal] <;> (repeat' split) <;> simp_all

theorem field_run {β} (F : FieldOf β) (a : List Stat) : ∀ (c : Coll), c.fatal = none → (∀ m ∈ a, isFatal m = false) →
    F.f (Coll.run 0 c a) = (a.filter F.p).foldl F.g (F.f c) := by
  induction a with
  | nil => intro c _ _; rfl
  | cons m ms ih =>
    intro c hc hall
    have hm := hall m (by simp)
    have hc' := step_keeps_nofatal c m hc hm
    have := ih (c.step 0 m) hc' (fun x hx => hall x (by simp [hx]))
    simp only [Coll.run, List.foldl_cons] at this ⊢
    rw [this]
    by_cases hp : F.p m = true
    · simp [List.filter_cons, hp, F.step_p c m hc hm hp]
    · have hp' : F.p m = false := by simpa using hp
      simp [List.filter_cons, hp', F.step_np c m hc hm hp']

/-! the order-sensitive fields -/
def linksF : FieldOf (List Nat) where
  f := (·.links); p := isLink
  g := fun l m => match m with | .link x => l ++ [x] | _ => l
  step_p := by intro c m _ _ hp; cases m <;> simp_all [isLink, Coll.step]
  step_np := by intro c m hc hm hp; cases m <;> simp_all [isLink, Coll.step, isFatal] <;> (repeat' split) <;> simp_all
def feesF : FieldOf (List Nat) where
  f := (·.fees); p := isFee
  g := fun l m => match m with | .feeId x => if l.contains x then l else l ++ [x] | _ => l
  step_p := by intro c m _ _ hp; cases m <;> simp_all [isFee, Coll.step] <;> split <;> simp_all
  step_np := by intro c m hc hm hp; cases m <;> simp_all [isFee, Coll.step, isFatal] <;> (repeat' split) <;> simp_all
def stavesF : FieldOf (List (Nat × Nat)) where
  f := (·.layerStaves); p := isLayerStave
  g := fun l m => match m with | .layerStave a b => if l.contains (a, b) then l else l ++ [(a, b)] | _ => l
  step_p := by intro c m _ _ hp; cases m <;> simp_all [isLayerStave, Coll.step] <;> split <;> simp_all
  step_np := by intro c m hc hm hp; cases m <;> simp_all [isLayerStave, Coll.step, isFatal] <;> (repeat' split) <;> simp_all
def versionF : FieldOf (Option Nat) where
  f := (·.rdhVersion); p := isVersion
  g := fun l m => match m with | .rdhVersion x => some x | _ => l
  step_p := by intro c m _ _ hp; cases m <;> simp_all [isVersion, Coll.step]
  step_np := by intro c m hc hm hp; cases m <;> simp_all [isVersion, Coll.step, isFatal] <;> (repeat' split) <;> simp_all
def dataFormatF : FieldOf (Option Nat) where
  f := (·.dataFormat); p := isDataFormat
  g := fun l m => match m with | .dataFormat x => some x | _ => l
  step_p := by intro c m _ _ hp; cases m <;> simp_all [isDataFormat, Coll.step]
  step_np := by intro c m hc hm hp; cases m <;> simp_all [isDataFormat, Coll.step, isFatal] <;> (repeat' split) <;> simp_all
def systemIdF : FieldOf (Option Nat) where
  f := (·.systemId); p := isSystemId
  g := fun l m => match m with | .systemId x => some x | _ => l
  step_p := by intro c m _ _ hp; cases m <;> simp_all [isSystemId, Coll.step]
  step_np := by intro c m hc hm hp; cases m <;> simp_all [isSystemId, Coll.step, isFatal] <;> (repeat' split) <;> simp_all
def runTriggerF : FieldOf (Option Nat) where
  f := (·.runTrigger); p := isRunTrigger
  g := fun l m => match m with | .runTrigger x => some x | _ => l
  step_p := by intro c m _ _ hp; cases m <;> simp_all [isRunTrigger, Coll.step]
  step_np := by intro c m hc hm hp; cases m <;> simp_all [isRunTrigger, Coll.step, isFatal] <;> (repeat' split) <;> simp_all
def errorsF : FieldOf (List Finding) where
  f := (·.errors); p := isError
  g := fun l m => match m with | .error x => l ++ [x] | _ => l
  step_p := by intro c m hc _ hp; cases m <;> simp_all [isError, Coll.step]
  step_np := by intro c m hc hm hp; cases m <;> simp_all [isError, Coll.step, isFatal] <;> (repeat' split) <;> simp_all
def totalF : FieldOf Nat where
  f := (·.total); p := isError
  g := fun n m => match m with | .error _ => n + 1 | _ => n
  step_p := by intro c m hc _ hp; cases m <;> simp_all [isError, Coll.step]
  step_np := by intro c m hc hm hp; cases m <;> simp_all [isError, Coll.step, isFatal] <;> (repeat' split) <;> simp_all
def alpideF : FieldOf (Option AlpideStats) where
  f := (·.alpide); p := isAlpide
  g := fun l m => match m with | .alpide s => some ((l.getD {}).add s) | _ => l
  step_p := by intro c m _ _ hp; cases m <;> simp_all [isAlpide, Coll.step]
  step_np := by intro c m hc hm hp; cases m <;> simp_all [isAlpide, Coll.step, isFatal] <;> (repeat' split) <;> simp_all

/-- the errors collected = the error messages in arrival order -/
theorem errors_run (a : List Stat) (c : Coll) (hc : c.fatal = none) (ha : ∀ m ∈ a, isFatal m = false) :
    (Coll.run 0 c a).errors = c.errors ++ a.filterMap errOf := by
  have h := field_run errorsF a c hc ha
  simp only [errorsF] at h
  rw [h]
  clear h
  generalize c.errors = l
  induction a generalizing l with
  | nil => simp
  | cons m ms ih =>
    have := ih (fun x hx => ha x (by simp [hx]))
    cases m <;> simp_all [List.filter_cons, isError, errOf, List.filterMap_cons]

/-- per-offset subsequence of the collected errors = the per-offset error messages in arrival order -/
theorem filterMap_filter_key (a : List Stat) (k : Nat) :
    (a.filterMap errOf).filter (keyIs k) = (a.filter (isErrorAt k)).filterMap errOf := by
  induction a with
  | nil => rfl
  | cons m ms ih =>
    cases m with
    | error f =>
      by_cases hk : f.offset = k
      · simp [List.filterMap_cons, errOf, List.filter_cons, keyIs, isErrorAt, hk, ih]
      · simp [List.filterMap_cons, errOf, List.filter_cons, keyIs, isErrorAt, hk, ih]
    | _ => simpa [List.filterMap_cons, errOf, List.filter_cons, isErrorAt] using ih

/-- what can be observed after finalisation -/
structure Obs where
  rdhsSeen : Nat
  rdhsFiltered : Nat
  rdhVersion : Option Nat
  hbfs : Nat
  payload : Nat
  dataFormat : Option Nat
  links : List Nat
  fees : List Nat
  systemId : Option Nat
  runTrigger : Option Nat
  layerStaves : List (Nat × Nat)
  trig : List Nat
  fatal : Option String
  errors : List Finding
  customErrors : List String
  total : Nat
  uniqueCodes : List String
  alpide : Option AlpideStats

def obs (fin : Final) : Obs where
  rdhsSeen := fin.coll.rdhsSeen
  rdhsFiltered := fin.coll.rdhsFiltered
  rdhVersion := fin.coll.rdhVersion
  hbfs := fin.coll.hbfs
  payload := fin.coll.payload
  dataFormat := fin.coll.dataFormat
  links := fin.coll.links
  fees := fin.coll.fees
  systemId := fin.coll.systemId
  runTrigger := fin.coll.runTrigger
  layerStaves := fin.coll.layerStaves
  trig := triggerBits.map fin.coll.trig
  fatal := fin.coll.fatal
  errors := fin.errors
  customErrors := fin.customErrors
  total := fin.total
  uniqueCodes := fin.uniqueCodes
  alpide := fin.coll.alpide

/-- the conditions under which order can matter at all: each order-sensitive kind of message,
    and the error messages of each offset, come from one sender -/
structure OneSenderEach (S : List (List Stat)) : Prop where
  link : ∃ i, SingleSender S isLink i
  fee : ∃ i, SingleSender S isFee i
  stave : ∃ i, SingleSender S isLayerStave i
  version : ∃ i, SingleSender S isVersion i
  dataFormat : ∃ i, SingleSender S isDataFormat i
  systemId : ∃ i, SingleSender S isSystemId i
  runTrigger : ∃ i, SingleSender S isRunTrigger i
  /-- `KeysFromOneSender`: all error messages carrying the same offset come from one sender -/
  keys : ∀ k, ∃ i, SingleSender S (isErrorAt k) i

theorem field_indep {β} (F : FieldOf β) (S : List (List Stat)) (a b : List Stat) (ha : Interleave S a) (hb : Interleave S b)
    (hs : ∃ i, SingleSender S F.p i) (c : Coll) (hc : c.fatal = none)
    (hfa : ∀ m ∈ a, isFatal m = false) (hfb : ∀ m ∈ b, isFatal m = false) :
    F.f (Coll.run 0 c a) = F.f (Coll.run 0 c b) := by
  obtain ⟨i, hi⟩ := hs
  rw [field_run F a c hc hfa, field_run F b c hc hfb, interleave_filter S a ha F.p i hi, interleave_filter S b hb F.p i hi]

theorem counter_indep (f : Coll → Nat) (g : Stat → Nat) (hstep : ∀ c m, f (c.step 0 m) = f c + g m)
    (S : List (List Stat)) (a b : List Stat) (ha : Interleave S a) (hb : Interleave S b) (c : Coll) :
    f (Coll.run 0 c a) = f (Coll.run 0 c b) := by
  rw [run_counter f g 0 hstep a c, run_counter f g 0 hstep b c, interleave_sum g S a ha, interleave_sum g S b hb]

theorem nofatal_of_interleave (S : List (List Stat)) (a : List Stat) (hI : Interleave S a)
    (h : ∀ s ∈ S, ∀ m ∈ s, isFatal m = false) : ∀ m ∈ a, isFatal m = false := by
  induction hI with
  | done S _ => intro m hm; simp at hm
  | step S j m rest a hj _ ih =>
    intro x hx
    rcases List.mem_cons.mp hx with rfl | hx
    · exact h (x :: rest) (List.mem_of_getElem? hj) x (by simp)
    · apply ih _ x hx
      intro s hs y hy
      rcases List.mem_or_eq_of_mem_set hs with hs | rfl
      · exact h s hs y hy
      · exact h (m :: s) (List.mem_of_getElem? hj) y (by simp [hy])

def alpOf (π : AlpideStats → Nat) : Stat → Nat | .alpide s => π s | _ => 0

/-- each ALPIDE counter after a run = its initial value + the sum over the ALPIDE messages;
    the statistics exist iff they existed before or an ALPIDE message arrived -/
theorem alpide_closed (π : AlpideStats → Nat) (hπ : ∀ x y : AlpideStats, π (x.add y) = π x + π y) (l : List Stat) :
    ∀ (c : Coll), c.fatal = none → (∀ m ∈ l, isFatal m = false) →
      π ((Coll.run 0 c l).alpide.getD {}) = π (c.alpide.getD {}) + (l.map (alpOf π)).sum ∧
      (Coll.run 0 c l).alpide.isSome = (c.alpide.isSome || l.any isAlpide) := by
  induction l with
  | nil => intro c _ _; simp [Coll.run]
  | cons m ms ih =>
    intro c hc hall
    have hm := hall m (by simp)
    have hc' := step_keeps_nofatal c m hc hm
    obtain ⟨h1, h2⟩ := ih (c.step 0 m) hc' (fun x hx => hall x (by simp [hx]))
    simp only [Coll.run, List.foldl_cons] at h1 h2 ⊢
    rw [h1, h2]
    by_cases hp : isAlpide m = true
    · have hstep := alpideF.step_p c m hc hm hp
      simp only [alpideF] at hstep
      cases m with
      | alpide s =>
        simp only at hstep
        rw [hstep]
        simp [hπ, alpOf, isAlpide]; omega
      | _ => simp [isAlpide] at hp
    · have hp' : isAlpide m = false := by simpa using hp
      have hstep := alpideF.step_np c m hc hm hp'
      simp only [alpideF] at hstep
      rw [hstep]
      have h0 : alpOf π m = 0 := by cases m <;> simp_all [alpOf, isAlpide]
      simp [h0, hp']

/-- ALPIDE counters: sums, hence independent of the order -/
theorem alpide_indep (S : List (List Stat)) (a b : List Stat) (ha : Interleave S a) (hb : Interleave S b)
    (c : Coll) (hc : c.fatal = none) (hfa : ∀ m ∈ a, isFatal m = false) (hfb : ∀ m ∈ b, isFatal m = false) :
    (Coll.run 0 c a).alpide = (Coll.run 0 c b).alpide := by
  have comp : ∀ (π : AlpideStats → Nat), (∀ x y : AlpideStats, π (x.add y) = π x + π y) →
      π ((Coll.run 0 c a).alpide.getD {}) = π ((Coll.run 0 c b).alpide.getD {}) := by
    intro π hπ
    rw [(alpide_closed π hπ a c hc hfa).1, (alpide_closed π hπ b c hc hfb).1, interleave_sum _ S a ha, interleave_sum _ S b hb]
  have hsome : (Coll.run 0 c a).alpide.isSome = (Coll.run 0 c b).alpide.isSome := by
    rw [(alpide_closed (·.chipTrailers) (fun _ _ => rfl) a c hc hfa).2, (alpide_closed (·.chipTrailers) (fun _ _ => rfl) b c hc hfb).2,
      interleave_any isAlpide S a ha, interleave_any isAlpide S b hb]
  have c1 := comp (·.chipTrailers) (fun _ _ => rfl)
  have c2 := comp (·.busyViolations) (fun _ _ => rfl)
  have c3 := comp (·.dataOverrun) (fun _ _ => rfl)
  have c4 := comp (·.transmissionInFatal) (fun _ _ => rfl)
  have c5 := comp (·.flushedIncomplete) (fun _ _ => rfl)
  have c6 := comp (·.strobeExtended) (fun _ _ => rfl)
  have c7 := comp (·.busyTransitions) (fun _ _ => rfl)
  cases hxa : (Coll.run 0 c a).alpide with
  | none =>
    cases hxb : (Coll.run 0 c b).alpide with
    | none => rfl
    | some y => simp [hxa, hxb] at hsome
  | some x =>
    cases hxb : (Coll.run 0 c b).alpide with
    | none => simp [hxa, hxb] at hsome
    | some y =>
      simp only [hxa, hxb, Option.getD_some] at c1 c2 c3 c4 c5 c6 c7
      cases x; cases y
      simp_all

/-- **C05**: for any two arrival orders (interleavings preserving each sender's order) of the same
    senders' sequences — no fatal message, no error cap — everything observable after finalisation
    is identical. -/
theorem schedule_independent (S : List (List Stat)) (a b : List Stat) (ha : Interleave S a) (hb : Interleave S b)
    (hnf : ∀ s ∈ S, ∀ m ∈ s, isFatal m = false) (hone : OneSenderEach S)
    (c : Coll) (hc : c.fatal = none) (mute : Bool) (cdps pht : Option Nat) :
    obs (finalize mute cdps pht (Coll.run 0 c a)) = obs (finalize mute cdps pht (Coll.run 0 c b)) := by
  have hfa := nofatal_of_interleave S a ha hnf
  have hfb := nofatal_of_interleave S b hb hnf
  have e_seen := counter_indep (·.rdhsSeen) Stat.seen (step_seen 0) S a b ha hb c
  have e_filt := counter_indep (·.rdhsFiltered) Stat.filteredN (step_filtered 0) S a b ha hb c
  have e_pay := counter_indep (·.payload) Stat.payloadN (step_payload 0) S a b ha hb c
  have e_hbf := counter_indep (·.hbfs) Stat.hbfsN (step_hbfs 0) S a b ha hb c
  have e_trig : ∀ k, (Coll.run 0 c a).trig k = (Coll.run 0 c b).trig k :=
    fun k => counter_indep (·.trig k) (Stat.trigBit k) (fun c m => step_trig 0 c m k) S a b ha hb c
  have e_links := field_indep linksF S a b ha hb hone.link c hc hfa hfb
  have e_fees := field_indep feesF S a b ha hb hone.fee c hc hfa hfb
  have e_staves := field_indep stavesF S a b ha hb hone.stave c hc hfa hfb
  have e_ver := field_indep versionF S a b ha hb hone.version c hc hfa hfb
  have e_df := field_indep dataFormatF S a b ha hb hone.dataFormat c hc hfa hfb
  have e_sys := field_indep systemIdF S a b ha hb hone.systemId c hc hfa hfb
  have e_rt := field_indep runTriggerF S a b ha hb hone.runTrigger c hc hfa hfb
  have e_alp := alpide_indep S a b ha hb c hc hfa hfb
  have e_fatal : (Coll.run 0 c a).fatal = (Coll.run 0 c b).fatal := by
    have h1 : ∀ (l : List Stat) (c : Coll), c.fatal = none → (∀ m ∈ l, isFatal m = false) → (Coll.run 0 c l).fatal = none := by
      intro l
      induction l with
      | nil => intro c hc _; exact hc
      | cons m ms ih =>
        intro c hc hall
        exact ih _ (step_keeps_nofatal c m hc (hall m (by simp))) (fun x hx => hall x (by simp [hx]))
    rw [h1 a c hc hfa, h1 b c hc hfb]
  -- total: one per error message (a sum)
  have e_total : (Coll.run 0 c a).total = (Coll.run 0 c b).total := by
    have ht : ∀ (l : List Stat), (∀ m ∈ l, isFatal m = false) → ∀ c : Coll, c.fatal = none →
        (Coll.run 0 c l).total = c.total + (l.map (fun m => if isError m then 1 else 0)).sum := by
      intro l
      induction l with
      | nil => intro _ c _; simp [Coll.run]
      | cons m ms ih =>
        intro hall c hc
        have hm := hall m (by simp)
        have := ih (fun x hx => hall x (by simp [hx])) (c.step 0 m) (step_keeps_nofatal c m hc hm)
        simp only [Coll.run, List.foldl_cons, List.map_cons, List.sum_cons] at this ⊢
        rw [this]
        by_cases hp : isError m = true
        · have hstep := totalF.step_p c m hc hm hp
          simp only [totalF] at hstep
          cases m with
          | error f => simp only at hstep; rw [hstep]; simp [isError]; omega
          | _ => simp [isError] at hp
        · have hp' : isError m = false := by simpa using hp
          have hstep := totalF.step_np c m hc hm hp'
          simp only [totalF] at hstep
          rw [hstep]; simp [hp']
    rw [ht a hfa c hc, ht b hfb c hc, interleave_sum _ S a ha, interleave_sum _ S b hb]
  -- the sorted error list
  have e_sorted : sortStable (Coll.run 0 c a).errors = sortStable (Coll.run 0 c b).errors := by
    apply sortStable_congr
    intro k
    rw [errors_run a c hc hfa, errors_run b c hc hfb, List.filter_append, List.filter_append,
      filterMap_filter_key, filterMap_filter_key]
    obtain ⟨i, hi⟩ := hone.keys k
    rw [interleave_filter S a ha _ i hi, interleave_filter S b hb _ i hi]
  have e_custom : customStatErrors cdps pht (Coll.run 0 c a) = customStatErrors cdps pht (Coll.run 0 c b) := by
    unfold customStatErrors
    rw [e_seen, e_trig 4]
  simp only [obs, finalize, e_seen, e_filt, e_pay, e_hbf, e_links, e_fees, e_staves, e_ver, e_df, e_sys, e_rt, e_alp,
    e_fatal, e_total, e_sorted, e_custom, linksF, feesF, stavesF, versionF, dataFormatF, systemIdF, runTriggerF] at *
  simp only [e_links, e_fees, e_staves, e_ver, e_df, e_sys, e_rt, Obs.mk.injEq, true_and, and_true]
  exact List.map_congr_left (fun k _ => e_trig k)

/-- hence what is displayed and the exit status are schedule-independent too: they are functions
    of the observables -/
theorem display_and_exit_independent (f1 f2 : Final) (h : obs f1 = obs f2)
    (mute : Bool) (filter : Option (List String)) (cap : Nat) (code : Option Nat) (mm : Bool) :
    displayed mute filter cap f1 = displayed mute filter cap f2 ∧ exitCode false code f1 mm = exitCode false code f2 mm := by
  have he : f1.errors = f2.errors := congrArg Obs.errors h
  have hf : f1.coll.fatal = f2.coll.fatal := congrArg Obs.fatal h
  have hc : f1.customErrors = f2.customErrors := congrArg Obs.customErrors h
  have ht : f1.total = f2.total := congrArg Obs.total h
  have hu : f1.uniqueCodes = f2.uniqueCodes := congrArg Obs.uniqueCodes h
  constructor
  · simp only [displayed, shownList, he, hf, hc, ht, hu]
  · simp only [exitCode, ht, hf]

end C05
end FastPasta
