/-
  C02 — every documented violation is detected with its code and location.

  Detection lemmas, one per rule family, valid in *every* state of the validator (so in
  particular in the state reached after any conforming prefix): a word or header that violates
  the rule yields a finding with the rule's code, located at that word's / header's offset.
  * RDH sanity rules: `rdh_sanity_fault_detected` (via C10 `sanity_iff`: any violation of the
    documented bit-level rule list ⇒ [E10] at the RDH offset);
  * RDH running rules: `rdh_running_fault_detected` (flag of the running checker ⇒ [E11] at the RDH
    offset; C10 `running_iff` says the flag is raised exactly on violations) and
    `sanity_mode_no_e11` (`check sanity` never reports [E11]);
  * status-word sanity rules: `ihw/tdh/tdt/ddw0_fault_detected` (via C11: any violation of the
    bit-level rule of the word type the state machine expects ⇒ [E30]/[E40]/[E50]/[E60] at the word);
  * state-dependent rules: [E110], [E111], [E12], [E42], [E444], [E41] at the word;
  * padding limit: C12 `overpadded_reported_and_reset`.
  * faults behind a conforming prefix (non-stave ITS modes), located at the word's byte offset:
    `ihw_fault_after_conforming_prefix`, `tdh_fault_after_conforming_prefix`,
    `ddw0_fault_after_conforming_prefix` — after ANY link prefix that follows the protocol grammar
    (C01 `conforming_its_run_to`: the validator has reported nothing and stands where the grammar
    stands), a packet whose payload starts with a bad IHW, whose second word is a bad TDH, or a
    stop page with a bad DDW0 / wrong stop bit / page 0 is reported with [E30] / [E40], [E42],
    [E444] / [E60], [E110], [E111] at offset packet + 64 (+ one slot).
  Partial (`…_partial`): for faults deeper inside a page (third word onwards: data words, TDT,
  later TDHs) the classification premise of the per-rule lemmas is not yet derived from the
  grammar by a theorem; those positions are covered by the fault-catalogue oracle on the real
  binary and by exact model/implementation agreement on every faulted stream.
-/
import FastPasta.Props.C10
import FastPasta.Props.C11
import FastPasta.Props.C01
import FastPasta.Props.C07
namespace FastPasta
namespace C02

/-- RDH sanity: any header violating the documented rule list is reported with [E10] at its own
    offset, in every check mode -/
theorem rdh_sanity_fault_detected (cfg : CheckCfg) (s : LinkSt) (off : Nat) (bs payload : Bytes) (hlen : bs.length = 64)
    (hbad : ¬ C10.RdhSaneSpec (s.expectId.getD (decodeRdh bs).headerId) cfg.itsChecks (leNat bs))
    (s' : LinkSt) (ms : List Msg)
    (h : linkStep cfg s { offset := off, rdh := decodeRdh bs, payload := payload } = .ok (s', ms)) :
    mkErrNoWord off "E10" ∈ ms := by
  have hb : rdhSanityBad (s.expectId.getD (decodeRdh bs).headerId) (if cfg.itsChecks then some 32 else none) (decodeRdh bs) = true := by
    cases hc : rdhSanityBad (s.expectId.getD (decodeRdh bs).headerId) (if cfg.itsChecks then some 32 else none) (decodeRdh bs) with
    | true => rfl
    | false => exact absurd ((C10.sanity_iff bs hlen _ cfg.itsChecks).mp hc) hbad
  unfold linkStep at h
  simp only [hb, ↓reduceIte] at h
  split at h
  · split at h
    · cases h
    · simp only [Except.ok.injEq, Prod.mk.injEq] at h
      obtain ⟨_, rfl⟩ := h
      simp
  · simp only [Except.ok.injEq, Prod.mk.injEq] at h
    obtain ⟨_, rfl⟩ := h
    simp

/-- RDH running: when the running checker flags the header ([C10] `running_iff`: exactly when a
    running rule is violated), `check all` reports [E11] at the header's own offset -/
theorem rdh_running_fault_detected (cfg : CheckCfg) (hrun : cfg.running = true) (s : LinkSt) (p : Packet)
    (hflag : (runningStep s.run p.rdh).2 = true) (s' : LinkSt) (ms : List Msg)
    (h : linkStep cfg s p = .ok (s', ms)) : mkErrNoWord p.offset "E11" ∈ ms := by
  unfold linkStep at h
  simp only [hrun, ↓reduceIte, hflag] at h
  split at h
  · split at h
    · cases h
    · simp only [Except.ok.injEq, Prod.mk.injEq] at h
      obtain ⟨_, rfl⟩ := h
      simp
  · simp only [Except.ok.injEq, Prod.mk.injEq] at h
    obtain ⟨_, rfl⟩ := h
    simp

/-- a purely stateful RDH violation is not reported by `check sanity` -/
theorem sanity_mode_no_e11 (cfg : CheckCfg) (hrun : cfg.running = false) (hits : cfg.itsChecks = false)
    (s : LinkSt) (p : Packet) (s' : LinkSt) (ms : List Msg) (h : linkStep cfg s p = .ok (s', ms)) :
    ∀ m ∈ ms, m = mkErrNoWord p.offset "E10" := by
  unfold linkStep at h
  simp only [hrun, hits, Bool.false_eq_true, ↓reduceIte, Bool.false_and, List.append_nil,
    Except.ok.injEq, Prod.mk.injEq] at h
  obtain ⟨_, rfl⟩ := h
  intro m hm
  split at hm
  · simpa using hm
  · simp at hm

/-! ### status words: violation of the bit-level rule ⇒ the type's sanity code at the word -/

/-- the state handed to the word handlers -/
def stepped (s : CdpSt) (w : Bytes) : CdpSt := { s with wordCount := s.wordCount + 1, fsm := (fsmAdvance s.fsm w).1 }

theorem ihw_fault_detected (cfg : CheckCfg) (s : CdpSt) (w : Bytes) (hlen : w.length = 10)
    (hcls : (fsmAdvance s.fsm w).2 = .ihw ∨ (fsmAdvance s.fsm w).2 = .ihwCont)
    (hbad : ¬ C11.IhwSpec (leNat w)) (s' : CdpSt) (ms : List Msg) (h : checkWord cfg s w = .ok (s', ms)) :
    mkErr (stepped s w) "E30" w ∈ ms := by
  have hs : ihwSane w = false := by
    cases hc : ihwSane w with
    | false => rfl
    | true => exact absurd ((C11.ihw_sane_iff w hlen).mp hc) hbad
  rcases hadv : fsmAdvance s.fsm w with ⟨st', cls⟩
  rw [hadv] at hcls
  simp only [stepped, hadv]
  rcases hcls with hcls | hcls <;> subst hcls <;>
  · simp only [checkWord, hadv, preIhw, hs, Bool.false_eq_true, ↓reduceIte, Except.ok.injEq, Prod.mk.injEq] at h
    obtain ⟨_, rfl⟩ := h
    simp

theorem tdt_fault_detected (cfg : CheckCfg) (s : CdpSt) (w : Bytes) (hlen : w.length = 10)
    (hcls : (fsmAdvance s.fsm w).2 = .tdt)
    (hbad : ¬ C11.TdtSpec (leNat w)) (s' : CdpSt) (ms : List Msg) (h : checkWord cfg s w = .ok (s', ms)) :
    mkErr (stepped s w) "E50" w ∈ ms := by
  have hs : tdtSane w = false := by
    cases hc : tdtSane w with
    | false => rfl
    | true => exact absurd ((C11.tdt_sane_iff w hlen).mp hc) hbad
  rcases hadv : fsmAdvance s.fsm w with ⟨st', cls⟩
  rw [hadv] at hcls
  subst hcls
  simp only [stepped, hadv]
  simp only [checkWord, hadv, preTdt, hs, Bool.false_eq_true, ↓reduceIte] at h
  split at h
  · split at h
    · cases h
    · simp only [Except.ok.injEq, Prod.mk.injEq] at h
      obtain ⟨_, rfl⟩ := h
      simp
  · simp only [Except.ok.injEq, Prod.mk.injEq] at h
    obtain ⟨_, rfl⟩ := h
    simp

theorem ddw0_fault_detected (cfg : CheckCfg) (s : CdpSt) (w : Bytes) (hlen : w.length = 10)
    (hcls : (fsmAdvance s.fsm w).2 = .ddw0)
    (hbad : ¬ C11.Ddw0Spec (leNat w)) (s' : CdpSt) (ms : List Msg) (h : checkWord cfg s w = .ok (s', ms)) :
    mkErr (stepped s w) "E60" w ∈ ms := by
  have hs : ddw0Sane w = false := by
    cases hc : ddw0Sane w with
    | false => rfl
    | true => exact absurd ((C11.ddw0_sane_iff w hlen).mp hc) hbad
  rcases hadv : fsmAdvance s.fsm w with ⟨st', cls⟩
  rw [hadv] at hcls
  subst hcls
  simp only [stepped, hadv]
  simp only [checkWord, hadv, preDdw0, hs, Bool.false_eq_true, ↓reduceIte, Except.ok.injEq, Prod.mk.injEq] at h
  obtain ⟨_, rfl⟩ := h
  simp

theorem tdh_fault_detected (cfg : CheckCfg) (s : CdpSt) (w : Bytes) (hlen : w.length = 10)
    (hcls : (fsmAdvance s.fsm w).2 = .tdh ∨ (fsmAdvance s.fsm w).2 = .tdhCont ∨ (fsmAdvance s.fsm w).2 = .tdhAfterPacketDone)
    (hbad : ¬ C11.TdhSpec (leNat w)) (s' : CdpSt) (ms : List Msg) (h : checkWord cfg s w = .ok (s', ms)) :
    mkErr (stepped s w) "E40" w ∈ ms := by
  have hs : tdhSane w = false := by
    cases hc : tdhSane w with
    | false => rfl
    | true => exact absurd ((C11.tdh_sane_iff w hlen).mp hc) hbad
  rcases hadv : fsmAdvance s.fsm w with ⟨st', cls⟩
  rw [hadv] at hcls
  simp only [stepped, hadv]
  have hpre : ∀ t : CdpSt, (preTdh cfg t w).2 = [mkErr t "E40" w] := by
    intro t; unfold preTdh; simp only [hs, Bool.false_eq_true, ↓reduceIte]; split <;> rfl
  rcases hcls with hcls | hcls | hcls <;> subst hcls <;>
  · simp only [checkWord, hadv, Except.ok.injEq, Prod.mk.injEq] at h
    obtain ⟨_, rfl⟩ := h
    simp [hpre]

/-! ### state-dependent rules (`check all`) -/

theorem ddw0_needs_stop_bit (cfg : CheckCfg) (hrun : cfg.running = true) (s : CdpSt) (w : Bytes)
    (hcls : (fsmAdvance s.fsm w).2 = .ddw0) (hstop : s.rdh.stopBit ≠ 1)
    (s' : CdpSt) (ms : List Msg) (h : checkWord cfg s w = .ok (s', ms)) :
    mkErr (stepped s w) "E110" w ∈ ms := by
  rcases hadv : fsmAdvance s.fsm w with ⟨st', cls⟩
  rw [hadv] at hcls; subst hcls
  simp only [stepped, hadv]
  simp only [checkWord, hadv, preDdw0, hrun, Bool.not_true, Bool.false_eq_true, ↓reduceIte, Except.ok.injEq, Prod.mk.injEq] at h
  obtain ⟨_, rfl⟩ := h
  have : (s.rdh.stopBit != 1) = true := by simp [hstop]
  simp [this]

theorem ddw0_needs_page_gt_0 (cfg : CheckCfg) (hrun : cfg.running = true) (s : CdpSt) (w : Bytes)
    (hcls : (fsmAdvance s.fsm w).2 = .ddw0) (hpage : s.rdh.pagesCounter = 0)
    (s' : CdpSt) (ms : List Msg) (h : checkWord cfg s w = .ok (s', ms)) :
    mkErr (stepped s w) "E111" w ∈ ms := by
  rcases hadv : fsmAdvance s.fsm w with ⟨st', cls⟩
  rw [hadv] at hcls; subst hcls
  simp only [stepped, hadv]
  simp only [checkWord, hadv, preDdw0, hrun, Bool.not_true, Bool.false_eq_true, ↓reduceIte, Except.ok.injEq, Prod.mk.injEq] at h
  obtain ⟨_, rfl⟩ := h
  simp [hpage]

theorem ihw_needs_stop_0 (cfg : CheckCfg) (hrun : cfg.running = true) (s : CdpSt) (w : Bytes)
    (hcls : (fsmAdvance s.fsm w).2 = .ihw) (hstop : s.rdh.stopBit ≠ 0)
    (s' : CdpSt) (ms : List Msg) (h : checkWord cfg s w = .ok (s', ms)) :
    mkErr (stepped s w) "E12" w ∈ ms := by
  rcases hadv : fsmAdvance s.fsm w with ⟨st', cls⟩
  rw [hadv] at hcls; subst hcls
  simp only [stepped, hadv]
  simp only [checkWord, hadv, hrun, Bool.true_and, Except.ok.injEq, Prod.mk.injEq] at h
  obtain ⟨_, rfl⟩ := h
  have : ((preIhw { s with wordCount := s.wordCount + 1, fsm := st' } w).1.rdh.stopBit != 0) = true := by
    simp [preIhw, hstop]
  simp only [this, ↓reduceIte, List.mem_append, List.mem_singleton]
  right; rfl

theorem tdh_after_ihw_rules (cfg : CheckCfg) (hrun : cfg.running = true) (s : CdpSt) (w : Bytes)
    (hcls : (fsmAdvance s.fsm w).2 = .tdh) (s' : CdpSt) (ms : List Msg) (h : checkWord cfg s w = .ok (s', ms)) :
    (tdhContinuation w ≠ 0 → mkErr (stepped s w) "E42" w ∈ ms) ∧
    (tdhOrbit w ≠ s.rdh.orbit → mkErr (stepped s w) "E444" w ∈ ms) := by
  rcases hadv : fsmAdvance s.fsm w with ⟨st', cls⟩
  rw [hadv] at hcls; subst hcls
  simp only [stepped, hadv]
  simp only [checkWord, hadv, hrun, ↓reduceIte, Except.ok.injEq, Prod.mk.injEq] at h
  obtain ⟨_, rfl⟩ := h
  have hr : (preTdh cfg { s with wordCount := s.wordCount + 1, fsm := st' } w).1.rdh = s.rdh := by
    unfold preTdh; simp only; split <;> rfl
  have hwp : ∀ c, mkErr (preTdh cfg { s with wordCount := s.wordCount + 1, fsm := st' } w).1 c w =
      mkErr { s with wordCount := s.wordCount + 1, fsm := st' } c w := by
    intro c; unfold preTdh; simp only; split <;> rfl
  constructor
  · intro hc
    have : (tdhContinuation w != 0) = true := by simp [hc]
    simp [tdhNoContinuationChecks, this, hwp]
  · intro ho
    have : (tdhOrbit w != s.rdh.orbit) = true := by simp [ho]
    simp [tdhNoContinuationChecks, hr, this, hwp]

theorem tdh_continuation_rule (cfg : CheckCfg) (hrun : cfg.running = true) (s : CdpSt) (w : Bytes)
    (hcls : (fsmAdvance s.fsm w).2 = .tdhCont) (hc : tdhContinuation w ≠ 1)
    (s' : CdpSt) (ms : List Msg) (h : checkWord cfg s w = .ok (s', ms)) :
    mkErr (stepped s w) "E41" w ∈ ms := by
  rcases hadv : fsmAdvance s.fsm w with ⟨st', cls⟩
  rw [hadv] at hcls; subst hcls
  simp only [stepped, hadv]
  simp only [checkWord, hadv, hrun, ↓reduceIte, Except.ok.injEq, Prod.mk.injEq] at h
  obtain ⟨_, rfl⟩ := h
  have hwp : ∀ c, mkErr (preTdh cfg { s with wordCount := s.wordCount + 1, fsm := st' } w).1 c w =
      mkErr { s with wordCount := s.wordCount + 1, fsm := st' } c w := by
    intro c; unfold preTdh; simp only; split <;> rfl
  have : (tdhContinuation w != 1) = true := by simp [hc]
  simp [tdhContinuationChecks, this, hwp]

/-! ### faults behind a conforming prefix -/
open Proto C01

/-- what the link validator does with the first word of a packet's payload (non-stave ITS modes) -/
theorem first_word (cfg : CheckCfg) (hits : cfg.itsChecks = true) (hst : cfg.stave = false)
    (s : LinkSt) (p : Packet) (w : Bytes) (rest : List Bytes)
    (hne : p.payload.isEmpty = false) (hcut : cutPayload p.payload = some (w :: rest))
    (sf : LinkSt) (ms : List Msg) (h : linkStep cfg s p = .ok (sf, ms)) :
    ∃ sA mA, checkWord cfg (startCdp s.cdp p.offset p.rdh) w = .ok (sA, mA) ∧ (∀ m ∈ mA, m ∈ ms) ∧
      ∃ sB mB, checkWords cfg sA rest = .ok (sB, mB) ∧ (∀ m ∈ mB, m ∈ ms) := by
  unfold linkStep at h
  simp only [hits, hne, Bool.not_false, Bool.and_self, ↓reduceIte] at h
  have hs0 : setCurrentRdh cfg s.cdp p.offset p.rdh = .ok (startCdp s.cdp p.offset p.rdh) := by
    unfold setCurrentRdh startCdp; simp [hst]
  unfold payloadChecks at h
  simp only [hs0, hcut, checkWords] at h
  cases hA : checkWord cfg (startCdp s.cdp p.offset p.rdh) w with
  | error e => simp [hA] at h
  | ok rA =>
    obtain ⟨sA, mA⟩ := rA
    simp only [hA] at h
    cases hB : checkWords cfg sA rest with
    | error e => simp [hB] at h
    | ok rB =>
      obtain ⟨sB, mB⟩ := rB
      simp only [hB, Except.ok.injEq, Prod.mk.injEq] at h
      obtain ⟨_, rfl⟩ := h
      exact ⟨sA, mA, rfl, fun m hm => by simp [hm], sB, mB, hB, fun m hm => by simp [hm]⟩

/-- offsets of the first and second word of a packet -/
theorem first_word_pos (c : CdpSt) (off : Nat) (r : Rdh) (w : Bytes) :
    (stepped (startCdp c off r) w).wordPos = off + 64 := by
  simp [stepped, startCdp, CdpSt.wordPos]

/-- **IHW position**: after any conforming link prefix, a packet whose first payload word is taken
    as the page's IHW (always, except after a closed packet, where only the IHW identifier is)
    and violates the documented IHW rule is reported with [E30] at the word's offset -/
theorem ihw_fault_after_conforming_prefix (cfg : CheckCfg) (hits : cfg.itsChecks = true) (hst : cfg.stave = false)
    (htp : cfg.triggerPeriod = none) (hver : cfg.customRdhVersion = none)
    (id0 : Nat) (xs : List PktSpec) (done' : List Rdh) (st' : LSt)
    (hc : ConformingLinkTo cfg id0 [] {} xs done' st')
    (p : Packet) (w : Bytes) (rest : List Bytes)
    (hne : p.payload.isEmpty = false) (hcut : cutPayload p.payload = some (w :: rest)) (hlen : w.length = 10)
    (hpos : st'.bw = .closed → wordId w = ID_IHW)
    (hbad : ¬ C11.IhwSpec (leNat w))
    (sf : LinkSt) (ms : List Msg)
    (h : linkRun cfg (LinkSt.init cfg) (xs.map PktSpec.packet ++ [p]) = .ok (sf, ms)) :
    Msg.error { offset := p.offset + 64, code := "E30", word := some w } ∈ ms := by
  obtain ⟨s1, hrun, _, hrel⟩ := conforming_its_run_to cfg hits hst htp id0 xs [] (LinkSt.init cfg) {} done' st'
    ⟨by simp [LinkSt.init, hver], fun _ => C10.init_inv⟩ ⟨Or.inl rfl, fun _ => rfl⟩ hc
  rw [linkRun_snoc cfg _ p _ s1 [] hrun] at h
  cases hstep : linkStep cfg s1 p with
  | error e => simp [hstep] at h
  | ok r2 =>
    obtain ⟨s2, m2⟩ := r2
    simp only [hstep, List.nil_append, Except.ok.injEq, Prod.mk.injEq] at h
    obtain ⟨_, rfl⟩ := h
    obtain ⟨sA, mA, hA, hsub, _⟩ := first_word cfg hits hst s1 p w rest hne hcut s2 m2 hstep
    have hfsm : (startCdp s1.cdp p.offset p.rdh).fsm = s1.cdp.fsm := rfl
    have hcls : (fsmAdvance (startCdp s1.cdp p.offset p.rdh).fsm w).2 = .ihw ∨
        (fsmAdvance (startCdp s1.cdp p.offset p.rdh).fsm w).2 = .ihwCont := by
      rw [hfsm]
      have hf := hrel.fsm
      have hne1 : (ID_IHW == ID_TDH) = false := by decide
      cases hbw : st'.bw with
      | fresh =>
        rw [hbw] at hf
        rcases hf with hf | hf <;> (left; simp [fsmAdvance, fsmStep, hf])
      | closed =>
        rw [hbw] at hf
        have hid := hpos hbw
        rcases hf with hf | hf <;> (left; simp [fsmAdvance, fsmStep, hf, hid, hne1])
      | open_ o =>
        rw [hbw] at hf
        right; simp [fsmAdvance, fsmStep, hf.1]
    have := ihw_fault_detected cfg _ w hlen hcls hbad sA mA hA
    have hm := hsub _ this
    simpa [mkErr, first_word_pos] using hm

/-- the state after the word in the IHW position of a page -/
theorem ihw_pos_next (cfg : CheckCfg) (s : CdpSt) (w : Bytes) (sA : CdpSt) (mA : List Msg)
    (h : checkWord cfg s w = .ok (sA, mA)) :
    ((InFresh s.fsm ∨ (InChoice s.fsm ∧ wordId w = ID_IHW)) → sA.fsm = .tdhByWasIhw ∧ sA.rdh = s.rdh) ∧
    (s.fsm = .cIhwByTdtFalse → sA.fsm = .cTdhByNext ∧ sA.rdh = s.rdh ∧ sA.tdh = s.tdh) := by
  have hne1 : (ID_IHW == ID_TDH) = false := by decide
  constructor
  · intro hf
    have hadv : fsmAdvance s.fsm w = (.tdhByWasIhw, .ihw) := by
      rcases hf with (hf | hf) | ⟨hf | hf, hid⟩
      · simp [fsmAdvance, fsmStep, hf]
      · simp [fsmAdvance, fsmStep, hf]
      · simp [fsmAdvance, fsmStep, hf, hid, hne1]
      · simp [fsmAdvance, fsmStep, hf, hid, hne1]
    simp only [checkWord, hadv, preIhw, Except.ok.injEq, Prod.mk.injEq] at h
    obtain ⟨rfl, _⟩ := h
    exact ⟨rfl, rfl⟩
  · intro hf
    have hadv : fsmAdvance s.fsm w = (.cTdhByNext, .ihwCont) := by simp [fsmAdvance, fsmStep, hf]
    simp only [checkWord, hadv, preIhw, Except.ok.injEq, Prod.mk.injEq] at h
    obtain ⟨rfl, _⟩ := h
    exact ⟨rfl, rfl, rfl⟩

/-- **TDH position**: after any conforming link prefix, in a packet that starts with a word in the
    IHW position, the second word is taken as the TDH; if it violates the documented TDH rule it is
    reported with [E40] at its own offset (packet + 64 + one slot); with the stateful checks on, a
    wrong continuation bit gives [E42] (new packet) / [E41] (continued packet) and a wrong orbit
    [E444], at the same offset -/
theorem tdh_fault_after_conforming_prefix (cfg : CheckCfg) (hits : cfg.itsChecks = true) (hst : cfg.stave = false)
    (htp : cfg.triggerPeriod = none) (hver : cfg.customRdhVersion = none)
    (id0 : Nat) (xs : List PktSpec) (done' : List Rdh) (st' : LSt)
    (hc : ConformingLinkTo cfg id0 [] {} xs done' st')
    (p : Packet) (w0 w1 : Bytes) (rest : List Bytes)
    (hne : p.payload.isEmpty = false) (hcut : cutPayload p.payload = some (w0 :: w1 :: rest)) (hlen : w1.length = 10)
    (hpos : st'.bw = .closed → wordId w0 = ID_IHW)
    (sf : LinkSt) (ms : List Msg)
    (h : linkRun cfg (LinkSt.init cfg) (xs.map PktSpec.packet ++ [p]) = .ok (sf, ms)) :
    let at1 := p.offset + 64 + C07.slotOf p.rdh
    (¬ C11.TdhSpec (leNat w1) → Msg.error { offset := at1, code := "E40", word := some w1 } ∈ ms) ∧
    (cfg.running = true → (∀ o, st'.bw ≠ .open_ o) →
      (tdhContinuation w1 ≠ 0 → Msg.error { offset := at1, code := "E42", word := some w1 } ∈ ms) ∧
      (tdhOrbit w1 ≠ p.rdh.orbit → Msg.error { offset := at1, code := "E444", word := some w1 } ∈ ms)) ∧
    (cfg.running = true → (∃ o, st'.bw = .open_ o) →
      tdhContinuation w1 ≠ 1 → Msg.error { offset := at1, code := "E41", word := some w1 } ∈ ms) := by
  obtain ⟨s1, hrun, _, hrel⟩ := conforming_its_run_to cfg hits hst htp id0 xs [] (LinkSt.init cfg) {} done' st'
    ⟨by simp [LinkSt.init, hver], fun _ => C10.init_inv⟩ ⟨Or.inl rfl, fun _ => rfl⟩ hc
  rw [linkRun_snoc cfg _ p _ s1 [] hrun] at h
  cases hstep : linkStep cfg s1 p with
  | error e => simp [hstep] at h
  | ok r2 =>
    obtain ⟨s2, m2⟩ := r2
    simp only [hstep, List.nil_append, Except.ok.injEq, Prod.mk.injEq] at h
    obtain ⟨_, rfl⟩ := h
    obtain ⟨sA, mA, hA, _, sB, mB, hB, hsubB⟩ := first_word cfg hits hst s1 p w0 (w1 :: rest) hne hcut s2 m2 hstep
    -- second word
    simp only [checkWords] at hB
    cases hW : checkWord cfg sA w1 with
    | error e => simp [hW] at hB
    | ok rW =>
      obtain ⟨sW, mW⟩ := rW
      simp only [hW] at hB
      cases hR : checkWords cfg sW rest with
      | error e => simp [hR] at hB
      | ok rR =>
        obtain ⟨sR, mR⟩ := rR
        simp only [hR, Except.ok.injEq, Prod.mk.injEq] at hB
        obtain ⟨_, rfl⟩ := hB
        have hsub : ∀ m ∈ mW, m ∈ m2 := fun m hm => hsubB m (by simp [hm])
        -- tracker after the first word
        obtain ⟨_, _, hpp, hsl, hwc⟩ := C07.checkWord_ok (fun _ => True) cfg (startCdp s1.cdp p.offset p.rdh) w0 trivial
          (fun _ _ => trivial) sA mA hA
        have hposA : (stepped sA w1).wordPos = p.offset + 64 + C07.slotOf p.rdh := by
          simp only [stepped, CdpSt.wordPos, hpp, hsl, hwc, startCdp, C07.slotOf]
          simp
        obtain ⟨hnx1, hnx2⟩ := ihw_pos_next cfg (startCdp s1.cdp p.offset p.rdh) w0 sA mA hA
        have hfsm0 : (startCdp s1.cdp p.offset p.rdh).fsm = s1.cdp.fsm := rfl
        have hrdh0 : (startCdp s1.cdp p.offset p.rdh).rdh = p.rdh := rfl
        have hf := hrel.fsm
        simp only
        refine ⟨?_, ?_, ?_⟩
        · intro hbad
          have hcls : (fsmAdvance sA.fsm w1).2 = .tdh ∨ (fsmAdvance sA.fsm w1).2 = .tdhCont ∨
              (fsmAdvance sA.fsm w1).2 = .tdhAfterPacketDone := by
            cases hbw : st'.bw with
            | fresh =>
              rw [hbw] at hf
              have := (hnx1 (Or.inl (by rw [hfsm0]; exact hf))).1
              left; simp [fsmAdvance, fsmStep, this]
            | closed =>
              rw [hbw] at hf
              have := (hnx1 (Or.inr ⟨by rw [hfsm0]; exact hf, hpos hbw⟩)).1
              left; simp [fsmAdvance, fsmStep, this]
            | open_ o =>
              rw [hbw] at hf
              have := (hnx2 (by rw [hfsm0]; exact hf.1)).1
              right; left; simp [fsmAdvance, fsmStep, this]
          have := hsub _ (tdh_fault_detected cfg sA w1 hlen hcls hbad sW mW hW)
          simpa [mkErr, hposA] using this
        · intro hrn hno
          have hA' : sA.fsm = .tdhByWasIhw ∧ sA.rdh = p.rdh := by
            cases hbw : st'.bw with
            | fresh =>
              rw [hbw] at hf
              have := hnx1 (Or.inl (by rw [hfsm0]; exact hf))
              exact ⟨this.1, by rw [this.2, hrdh0]⟩
            | closed =>
              rw [hbw] at hf
              have := hnx1 (Or.inr ⟨by rw [hfsm0]; exact hf, hpos hbw⟩)
              exact ⟨this.1, by rw [this.2, hrdh0]⟩
            | open_ o => exact absurd hbw (hno o)
          have hcls : (fsmAdvance sA.fsm w1).2 = .tdh := by simp [fsmAdvance, fsmStep, hA'.1]
          obtain ⟨r1, r2⟩ := tdh_after_ihw_rules cfg hrn sA w1 hcls sW mW hW
          constructor
          · intro hc1
            have := hsub _ (r1 hc1)
            simpa [mkErr, hposA] using this
          · intro ho
            have := hsub _ (r2 (by rw [hA'.2]; exact ho))
            simpa [mkErr, hposA] using this
        · intro hrn ⟨o, hbw⟩ hc1
          rw [hbw] at hf
          have := (hnx2 (by rw [hfsm0]; exact hf.1)).1
          have hcls : (fsmAdvance sA.fsm w1).2 = .tdhCont := by simp [fsmAdvance, fsmStep, this]
          have := hsub _ (tdh_continuation_rule cfg hrn sA w1 hcls hc1 sW mW hW)
          simpa [mkErr, hposA] using this

/-- **DDW0 position**: after any conforming link prefix that ends with a closed packet, a packet
    whose first word carries the DDW0 identifier is taken as the stop page's DDW0: a violation of the
    documented DDW0 rule gives [E60]; with the stateful checks on, an RDH stop bit other than 1 gives
    [E110] and page counter 0 gives [E111] — all at the word's offset packet + 64 -/
theorem ddw0_fault_after_conforming_prefix (cfg : CheckCfg) (hits : cfg.itsChecks = true) (hst : cfg.stave = false)
    (htp : cfg.triggerPeriod = none) (hver : cfg.customRdhVersion = none)
    (id0 : Nat) (xs : List PktSpec) (done' : List Rdh) (st' : LSt)
    (hc : ConformingLinkTo cfg id0 [] {} xs done' st') (hclosed : st'.bw = .closed)
    (p : Packet) (w : Bytes) (rest : List Bytes)
    (hne : p.payload.isEmpty = false) (hcut : cutPayload p.payload = some (w :: rest)) (hlen : w.length = 10)
    (hid : wordId w = ID_DDW0)
    (sf : LinkSt) (ms : List Msg)
    (h : linkRun cfg (LinkSt.init cfg) (xs.map PktSpec.packet ++ [p]) = .ok (sf, ms)) :
    (¬ C11.Ddw0Spec (leNat w) → Msg.error { offset := p.offset + 64, code := "E60", word := some w } ∈ ms) ∧
    (cfg.running = true → p.rdh.stopBit ≠ 1 → Msg.error { offset := p.offset + 64, code := "E110", word := some w } ∈ ms) ∧
    (cfg.running = true → p.rdh.pagesCounter = 0 → Msg.error { offset := p.offset + 64, code := "E111", word := some w } ∈ ms) := by
  obtain ⟨s1, hrun, _, hrel⟩ := conforming_its_run_to cfg hits hst htp id0 xs [] (LinkSt.init cfg) {} done' st'
    ⟨by simp [LinkSt.init, hver], fun _ => C10.init_inv⟩ ⟨Or.inl rfl, fun _ => rfl⟩ hc
  rw [linkRun_snoc cfg _ p _ s1 [] hrun] at h
  cases hstep : linkStep cfg s1 p with
  | error e => simp [hstep] at h
  | ok r2 =>
    obtain ⟨s2, m2⟩ := r2
    simp only [hstep, List.nil_append, Except.ok.injEq, Prod.mk.injEq] at h
    obtain ⟨_, rfl⟩ := h
    obtain ⟨sA, mA, hA, hsub, _⟩ := first_word cfg hits hst s1 p w rest hne hcut s2 m2 hstep
    have hf := hrel.fsm
    rw [hclosed] at hf
    have h1 : (ID_DDW0 == ID_TDH) = false := by decide
    have h2 : (ID_DDW0 == ID_IHW) = false := by decide
    have hcls : (fsmAdvance (startCdp s1.cdp p.offset p.rdh).fsm w).2 = .ddw0 := by
      have hfsm0 : (startCdp s1.cdp p.offset p.rdh).fsm = s1.cdp.fsm := rfl
      rw [hfsm0]
      rcases hf with hf | hf <;> simp [fsmAdvance, fsmStep, hf, hid, h1, h2]
    refine ⟨?_, ?_, ?_⟩
    · intro hbad
      have := hsub _ (ddw0_fault_detected cfg _ w hlen hcls hbad sA mA hA)
      simpa [mkErr, first_word_pos] using this
    · intro hrn hstop
      have := hsub _ (ddw0_needs_stop_bit cfg hrn _ w hcls (by simpa [startCdp] using hstop) sA mA hA)
      simpa [mkErr, first_word_pos] using this
    · intro hrn hpage
      have := hsub _ (ddw0_needs_page_gt_0 cfg hrn _ w hcls (by simpa [startCdp] using hpage) sA mA hA)
      simpa [mkErr, first_word_pos] using this

end C02
end FastPasta
