/-
  C02 — every documented violation is detected with its code and location.

  Detection lemmas, one per rule family, valid in *every* state of the validator (so in
  particular in the state reached after any conforming prefix): a word or header that violates
  the rule yields a finding with the rule's code, located at that word's / header's offset.
  * RDH sanity rules: `rdh_sanity_fault_detected` (via C10 `sanity_iff`: any violation of the
    documented bit-level rule list ⇒ [E10] at the RDH offset);
  * RDH running rules: `rdh_running_fault_detected` (flag of the running checker ⇒ [E11] at the RDH
    offset; C10 `running_iff` says the flag is raised exactly on violations) and
    `sanity_mode_no_e11` (`check sanity` never reports [E11]);
  * status-word sanity rules: `ihw/tdh/tdt/ddw0_fault_detected` (via C11: any violation of the
    bit-level rule of the word type the state machine expects ⇒ [E30]/[E40]/[E50]/[E60] at the word);
  * state-dependent rules: [E110], [E111], [E12], [E42], [E444], [E41] at the word;
  * padding limit: C12 `overpadded_reported_and_reset`.
  * faults behind a conforming prefix (non-stave ITS modes), located at the word's byte offset:
    `ihw_fault_after_conforming_prefix`, `tdh_fault_after_conforming_prefix`,
    `ddw0_fault_after_conforming_prefix` — after ANY link prefix that follows the protocol grammar
    (C01 `conforming_its_run_to`: the validator has reported nothing and stands where the grammar
    stands), a packet whose payload starts with a bad IHW, whose second word is a bad TDH, or a
    stop page with a bad DDW0 / wrong stop bit / page 0 is reported with [E30] / [E40], [E42],
    [E444] / [E60], [E110], [E111] at offset packet + 64 (+ one slot).
  Partial (`…_partial`): for faults deeper inside a page (third word onwards: data words, TDT,
  later TDHs) the classification premise of the per-rule lemmas is not yet derived from the
  grammar by a theorem; those positions are covered by the fault-catalogue oracle on the real
  binary and by exact model/implementation agreement on every faulted stream.
-/
import FastPasta.Props.C10
import FastPasta.Props.C11
import FastPasta.Props.C01
import FastPasta.Props.C07
import FastPasta.Proofs.StateSrcTie
import FastPasta.Proofs.LinkSrcTie
import FastPasta.Proofs.PayloadSrcTie
import FastPasta.Props.C04
namespace FastPasta
namespace C02

/-- RDH sanity: any header violating the documented rule list is reported with [E10] at its own
    offset, in every check mode -/
theorem rdh_sanity_fault_detected (cfg : CheckCfg) (s : LinkSt) (off : Nat) (bs payload : Bytes) (hlen : bs.length = 64)
    (hbad : ¬ C10.RdhSaneSpec (s.expectId.getD (decodeRdh bs).headerId) cfg.itsChecks (leNat bs))
    (s' : LinkSt) (ms : List Msg)
    (h : linkStep cfg s { offset := off, rdh := decodeRdh bs, payload := payload } = .ok (s', ms)) :
    mkErrNoWord off "E10" ∈ ms := by
  have hb : rdhSanityBad (s.expectId.getD (decodeRdh bs).headerId) (if cfg.itsChecks then some 32 else none) (decodeRdh bs) = true := by
    cases hc : rdhSanityBad (s.expectId.getD (decodeRdh bs).headerId) (if cfg.itsChecks then some 32 else none) (decodeRdh bs) with
    | true => rfl
    | false => exact absurd ((C10.sanity_iff bs hlen _ cfg.itsChecks).mp hc) hbad
  unfold linkStep at h
  simp only [hb, ↓reduceIte] at h
  split at h
  · split at h
    · cases h
    · simp only [Except.ok.injEq, Prod.mk.injEq] at h
      obtain ⟨_, rfl⟩ := h
      simp
  · simp only [Except.ok.injEq, Prod.mk.injEq] at h
    obtain ⟨_, rfl⟩ := h
    simp

/-- RDH running: when the running checker flags the header ([C10] `running_iff`: exactly when a
    running rule is violated), `check all` reports [E11] at the header's own offset -/
theorem rdh_running_fault_detected (cfg : CheckCfg) (hrun : cfg.running = true) (s : LinkSt) (p : Packet)
    (hflag : (runningStep s.run p.rdh).2 = true) (s' : LinkSt) (ms : List Msg)
    (h : linkStep cfg s p = .ok (s', ms)) : mkErrNoWord p.offset "E11" ∈ ms := by
  unfold linkStep at h
  simp only [hrun, ↓reduceIte, hflag] at h
  split at h
  · split at h
    · cases h
    · simp only [Except.ok.injEq, Prod.mk.injEq] at h
      obtain ⟨_, rfl⟩ := h
      simp
  · simp only [Except.ok.injEq, Prod.mk.injEq] at h
    obtain ⟨_, rfl⟩ := h
    simp

/-- a purely stateful RDH violation is not reported by `check sanity` -/
theorem sanity_mode_no_e11 (cfg : CheckCfg) (hrun : cfg.running = false) (hits : cfg.itsChecks = false)
    (s : LinkSt) (p : Packet) (s' : LinkSt) (ms : List Msg) (h : linkStep cfg s p = .ok (s', ms)) :
    ∀ m ∈ ms, m = mkErrNoWord p.offset "E10" := by
  unfold linkStep at h
  simp only [hrun, hits, Bool.false_eq_true, ↓reduceIte, Bool.false_and, List.append_nil,
    Except.ok.injEq, Prod.mk.injEq] at h
  obtain ⟨_, rfl⟩ := h
  intro m hm
  split at hm
  · simpa using hm
  · simp at hm

/-! ### status words: violation of the bit-level rule ⇒ the type's sanity code at the word -/

/-- the state handed to the word handlers -/
def stepped (s : CdpSt) (w : Bytes) : CdpSt := { s with wordCount := s.wordCount + 1, fsm := (fsmAdvance s.fsm w).1 }

theorem ihw_fault_detected (cfg : CheckCfg) (s : CdpSt) (w : Bytes) (hlen : w.length = 10)
    (hcls : (fsmAdvance s.fsm w).2 = .ihw ∨ (fsmAdvance s.fsm w).2 = .ihwCont)
    (hbad : ¬ C11.IhwSpec (leNat w)) (s' : CdpSt) (ms : List Msg) (h : checkWord cfg s w = .ok (s', ms)) :
    mkErr (stepped s w) "E30" w ∈ ms := by
  have hs : ihwSane w = false := by
    cases hc : ihwSane w with
    | false => rfl
    | true => exact absurd ((C11.ihw_sane_iff w hlen).mp hc) hbad
  rcases hadv : fsmAdvance s.fsm w with ⟨st', cls⟩
  rw [hadv] at hcls
  simp only [stepped, hadv]
  rcases hcls with hcls | hcls <;> subst hcls <;>
  · simp only [checkWord, hadv, preIhw, hs, Bool.false_eq_true, ↓reduceIte, Except.ok.injEq, Prod.mk.injEq] at h
    obtain ⟨_, rfl⟩ := h
    simp

theorem tdt_fault_detected (cfg : CheckCfg) (s : CdpSt) (w : Bytes) (hlen : w.length = 10)
    (hcls : (fsmAdvance s.fsm w).2 = .tdt)
    (hbad : ¬ C11.TdtSpec (leNat w)) (s' : CdpSt) (ms : List Msg) (h : checkWord cfg s w = .ok (s', ms)) :
    mkErr (stepped s w) "E50" w ∈ ms := by
  have hs : tdtSane w = false := by
    cases hc : tdtSane w with
    | false => rfl
    | true => exact absurd ((C11.tdt_sane_iff w hlen).mp hc) hbad
  rcases hadv : fsmAdvance s.fsm w with ⟨st', cls⟩
  rw [hadv] at hcls
  subst hcls
  simp only [stepped, hadv]
  simp only [checkWord, hadv, preTdt, hs, Bool.false_eq_true, ↓reduceIte] at h
  split at h
  · split at h
    · cases h
    · simp only [Except.ok.injEq, Prod.mk.injEq] at h
      obtain ⟨_, rfl⟩ := h
      simp
  · simp only [Except.ok.injEq, Prod.mk.injEq] at h
    obtain ⟨_, rfl⟩ := h
    simp

theorem ddw0_fault_detected (cfg : CheckCfg) (s : CdpSt) (w : Bytes) (hlen : w.length = 10)
    (hcls : (fsmAdvance s.fsm w).2 = .ddw0)
    (hbad : ¬ C11.Ddw0Spec (leNat w)) (s' : CdpSt) (ms : List Msg) (h : checkWord cfg s w = .ok (s', ms)) :
    mkErr (stepped s w) "E60" w ∈ ms := by
  have hs : ddw0Sane w = false := by
    cases hc : ddw0Sane w with
    | false => rfl
    | true => exact absurd ((C11.ddw0_sane_iff w hlen).mp hc) hbad
  rcases hadv : fsmAdvance s.fsm w with ⟨st', cls⟩
  rw [hadv] at hcls
  subst hcls
  simp only [stepped, hadv]
  simp only [checkWord, hadv, preDdw0, hs, Bool.false_eq_true, ↓reduceIte, Except.ok.injEq, Prod.mk.injEq] at h
  obtain ⟨_, rfl⟩ := h
  simp

theorem tdh_fault_detected (cfg : CheckCfg) (s : CdpSt) (w : Bytes) (hlen : w.length = 10)
    (hcls : (fsmAdvance s.fsm w).2 = .tdh ∨ (fsmAdvance s.fsm w).2 = .tdhCont ∨ (fsmAdvance s.fsm w).2 = .tdhAfterPacketDone)
    (hbad : ¬ C11.TdhSpec (leNat w)) (s' : CdpSt) (ms : List Msg) (h : checkWord cfg s w = .ok (s', ms)) :
    mkErr (stepped s w) "E40" w ∈ ms := by
  have hs : tdhSane w = false := by
    cases hc : tdhSane w with
    | false => rfl
    | true => exact absurd ((C11.tdh_sane_iff w hlen).mp hc) hbad
  rcases hadv : fsmAdvance s.fsm w with ⟨st', cls⟩
  rw [hadv] at hcls
  simp only [stepped, hadv]
  have hpre : ∀ t : CdpSt, (preTdh cfg t w).2 = [mkErr t "E40" w] := by
    intro t; unfold preTdh; simp only [hs, Bool.false_eq_true, ↓reduceIte]; split <;> rfl
  rcases hcls with hcls | hcls | hcls <;> subst hcls <;>
  · simp only [checkWord, hadv, Except.ok.injEq, Prod.mk.injEq] at h
    obtain ⟨_, rfl⟩ := h
    simp [hpre]

/-! ### state-dependent rules (`check all`) -/

theorem ddw0_needs_stop_bit (cfg : CheckCfg) (hrun : cfg.running = true) (s : CdpSt) (w : Bytes)
    (hcls : (fsmAdvance s.fsm w).2 = .ddw0) (hstop : s.rdh.stopBit ≠ 1)
    (s' : CdpSt) (ms : List Msg) (h : checkWord cfg s w = .ok (s', ms)) :
    mkErr (stepped s w) "E110" w ∈ ms := by
  rcases hadv : fsmAdvance s.fsm w with ⟨st', cls⟩
  rw [hadv] at hcls; subst hcls
  simp only [stepped, hadv]
  simp only [checkWord, hadv, preDdw0, hrun, Bool.not_true, Bool.false_eq_true, ↓reduceIte, Except.ok.injEq, Prod.mk.injEq] at h
  obtain ⟨_, rfl⟩ := h
  have : (s.rdh.stopBit != 1) = true := by simp [hstop]
  simp [this]

theorem ddw0_needs_page_gt_0 (cfg : CheckCfg) (hrun : cfg.running = true) (s : CdpSt) (w : Bytes)
    (hcls : (fsmAdvance s.fsm w).2 = .ddw0) (hpage : s.rdh.pagesCounter = 0)
    (s' : CdpSt) (ms : List Msg) (h : checkWord cfg s w = .ok (s', ms)) :
    mkErr (stepped s w) "E111" w ∈ ms := by
  rcases hadv : fsmAdvance s.fsm w with ⟨st', cls⟩
  rw [hadv] at hcls; subst hcls
  simp only [stepped, hadv]
  simp only [checkWord, hadv, preDdw0, hrun, Bool.not_true, Bool.false_eq_true, ↓reduceIte, Except.ok.injEq, Prod.mk.injEq] at h
  obtain ⟨_, rfl⟩ := h
  simp [hpage]

theorem ihw_needs_stop_0 (cfg : CheckCfg) (hrun : cfg.running = true) (s : CdpSt) (w : Bytes)
    (hcls : (fsmAdvance s.fsm w).2 = .ihw) (hstop : s.rdh.stopBit ≠ 0)
    (s' : CdpSt) (ms : List Msg) (h : checkWord cfg s w = .ok (s', ms)) :
    mkErr (stepped s w) "E12" w ∈ ms := by
  rcases hadv : fsmAdvance s.fsm w with ⟨st', cls⟩
  rw [hadv] at hcls; subst hcls
  simp only [stepped, hadv]
  simp only [checkWord, hadv, hrun, Bool.true_and, Except.ok.injEq, Prod.mk.injEq] at h
  obtain ⟨_, rfl⟩ := h
  have : ((preIhw { s with wordCount := s.wordCount + 1, fsm := st' } w).1.rdh.stopBit != 0) = true := by
    simp [preIhw, hstop]
  simp only [this, ↓reduceIte, List.mem_append, List.mem_singleton]
  right; rfl

theorem tdh_after_ihw_rules (cfg : CheckCfg) (hrun : cfg.running = true) (s : CdpSt) (w : Bytes)
    (hcls : (fsmAdvance s.fsm w).2 = .tdh) (s' : CdpSt) (ms : List Msg) (h : checkWord cfg s w = .ok (s', ms)) :
    (tdhContinuation w ≠ 0 → mkErr (stepped s w) "E42" w ∈ ms) ∧
    (tdhOrbit w ≠ s.rdh.orbit → mkErr (stepped s w) "E444" w ∈ ms) := by
  rcases hadv : fsmAdvance s.fsm w with ⟨st', cls⟩
  rw [hadv] at hcls; subst hcls
  simp only [stepped, hadv]
  simp only [checkWord, hadv, hrun, ↓reduceIte, Except.ok.injEq, Prod.mk.injEq] at h
  obtain ⟨_, rfl⟩ := h
  have hr : (preTdh cfg { s with wordCount := s.wordCount + 1, fsm := st' } w).1.rdh = s.rdh := by
    unfold preTdh; simp only; split <;> rfl
  have hwp : ∀ c, mkErr (preTdh cfg { s with wordCount := s.wordCount + 1, fsm := st' } w).1 c w =
      mkErr { s with wordCount := s.wordCount + 1, fsm := st' } c w := by
    intro c; unfold preTdh; simp only; split <;> rfl
  constructor
  · intro hc
    have : (tdhContinuation w != 0) = true := by simp [hc]
    simp [tdhNoContinuationChecks, this, hwp]
  · intro ho
    have : (tdhOrbit w != s.rdh.orbit) = true := by simp [ho]
    simp [tdhNoContinuationChecks, hr, this, hwp]

theorem tdh_continuation_rule (cfg : CheckCfg) (hrun : cfg.running = true) (s : CdpSt) (w : Bytes)
    (hcls : (fsmAdvance s.fsm w).2 = .tdhCont) (hc : tdhContinuation w ≠ 1)
    (s' : CdpSt) (ms : List Msg) (h : checkWord cfg s w = .ok (s', ms)) :
    mkErr (stepped s w) "E41" w ∈ ms := by
  rcases hadv : fsmAdvance s.fsm w with ⟨st', cls⟩
  rw [hadv] at hcls; subst hcls
  simp only [stepped, hadv]
  simp only [checkWord, hadv, hrun, ↓reduceIte, Except.ok.injEq, Prod.mk.injEq] at h
  obtain ⟨_, rfl⟩ := h
  have hwp : ∀ c, mkErr (preTdh cfg { s with wordCount := s.wordCount + 1, fsm := st' } w).1 c w =
      mkErr { s with wordCount := s.wordCount + 1, fsm := st' } c w := by
    intro c; unfold preTdh; simp only; split <;> rfl
  have : (tdhContinuation w != 1) = true := by simp [hc]
  simp [tdhContinuationChecks, this, hwp]

/-! ### faults behind a conforming prefix -/
open Proto C01

/-- what the link validator does with the first word of a packet's payload (non-stave ITS modes) -/
theorem first_word (cfg : CheckCfg) (hits : cfg.itsChecks = true) (hst : cfg.stave = false)
    (s : LinkSt) (p : Packet) (w : Bytes) (rest : List Bytes)
    (hne : p.payload.isEmpty = false) (hcut : cutPayload p.payload = some (w :: rest))
    (sf : LinkSt) (ms : List Msg) (h : linkStep cfg s p = .ok (sf, ms)) :
    ∃ sA mA, checkWord cfg (startCdp s.cdp p.offset p.rdh) w = .ok (sA, mA) ∧ (∀ m ∈ mA, m ∈ ms) ∧
      ∃ sB mB, checkWords cfg sA rest = .ok (sB, mB) ∧ (∀ m ∈ mB, m ∈ ms) := by
  unfold linkStep at h
  simp only [hits, hne, Bool.not_false, Bool.and_self, ↓reduceIte] at h
  have hs0 : setCurrentRdh cfg s.cdp p.offset p.rdh = .ok (startCdp s.cdp p.offset p.rdh) := by
    unfold setCurrentRdh startCdp; simp [hst]
  unfold payloadChecks at h
  simp only [hs0, hcut, checkWords] at h
  cases hA : checkWord cfg (startCdp s.cdp p.offset p.rdh) w with
  | error e => simp [hA] at h
  | ok rA =>
    obtain ⟨sA, mA⟩ := rA
    simp only [hA] at h
    cases hB : checkWords cfg sA rest with
    | error e => simp [hB] at h
    | ok rB =>
      obtain ⟨sB, mB⟩ := rB
      simp only [hB, Except.ok.injEq, Prod.mk.injEq] at h
      obtain ⟨_, rfl⟩ := h
      exact ⟨sA, mA, rfl, fun m hm => by simp [hm], sB, mB, hB, fun m hm => by simp [hm]⟩

/-- offsets of the first and second word of a packet -/
theorem first_word_pos (c : CdpSt) (off : Nat) (r : Rdh) (w : Bytes) :
    (stepped (startCdp c off r) w).wordPos = off + 64 := by
  simp [stepped, startCdp, CdpSt.wordPos]

/-- **IHW position**: after any conforming link prefix, a packet whose first payload word is taken
    as the page's IHW (always, except after a closed packet, where only the IHW identifier is)
    and violates the documented IHW rule is reported with [E30] at the word's offset -/
theorem ihw_fault_after_conforming_prefix (cfg : CheckCfg) (hits : cfg.itsChecks = true) (hst : cfg.stave = false)
    (htp : cfg.triggerPeriod = none) (hver : cfg.customRdhVersion = none)
    (id0 : Nat) (xs : List PktSpec) (done' : List Rdh) (st' : LSt)
    (hc : ConformingLinkTo cfg id0 [] {} xs done' st')
    (p : Packet) (w : Bytes) (rest : List Bytes)
    (hne : p.payload.isEmpty = false) (hcut : cutPayload p.payload = some (w :: rest)) (hlen : w.length = 10)
    (hpos : st'.bw = .closed → wordId w = ID_IHW)
    (hbad : ¬ C11.IhwSpec (leNat w))
    (sf : LinkSt) (ms : List Msg)
    (h : linkRun cfg (LinkSt.init cfg) (xs.map PktSpec.packet ++ [p]) = .ok (sf, ms)) :
    Msg.error { offset := p.offset + 64, code := "E30", word := some w } ∈ ms := by
  obtain ⟨s1, hrun, _, hrel⟩ := conforming_its_run_to cfg hits hst htp id0 xs [] (LinkSt.init cfg) {} done' st'
    ⟨by simp [LinkSt.init, hver], fun _ => C10.init_inv⟩ ⟨Or.inl rfl, fun _ => rfl⟩ hc
  rw [linkRun_snoc cfg _ p _ s1 [] hrun] at h
  cases hstep : linkStep cfg s1 p with
  | error e => simp [hstep] at h
  | ok r2 =>
    obtain ⟨s2, m2⟩ := r2
    simp only [hstep, List.nil_append, Except.ok.injEq, Prod.mk.injEq] at h
    obtain ⟨_, rfl⟩ := h
    obtain ⟨sA, mA, hA, hsub, _⟩ := first_word cfg hits hst s1 p w rest hne hcut s2 m2 hstep
    have hfsm : (startCdp s1.cdp p.offset p.rdh).fsm = s1.cdp.fsm := rfl
    have hcls : (fsmAdvance (startCdp s1.cdp p.offset p.rdh).fsm w).2 = .ihw ∨
        (fsmAdvance (startCdp s1.cdp p.offset p.rdh).fsm w).2 = .ihwCont := by
      rw [hfsm]
      have hf := hrel.fsm
      have hne1 : (ID_IHW == ID_TDH) = false := by decide
      cases hbw : st'.bw with
      | fresh =>
        rw [hbw] at hf
        rcases hf with hf | hf <;> (left; simp [fsmAdvance, fsmStep, hf])
      | closed =>
        rw [hbw] at hf
        have hid := hpos hbw
        rcases hf with hf | hf <;> (left; simp [fsmAdvance, fsmStep, hf, hid, hne1])
      | open_ o =>
        rw [hbw] at hf
        right; simp [fsmAdvance, fsmStep, hf.1]
    have := ihw_fault_detected cfg _ w hlen hcls hbad sA mA hA
    have hm := hsub _ this
    simpa [mkErr, first_word_pos] using hm

/-- the state after the word in the IHW position of a page -/
theorem ihw_pos_next (cfg : CheckCfg) (s : CdpSt) (w : Bytes) (sA : CdpSt) (mA : List Msg)
    (h : checkWord cfg s w = .ok (sA, mA)) :
    ((InFresh s.fsm ∨ (InChoice s.fsm ∧ wordId w = ID_IHW)) → sA.fsm = .tdhByWasIhw ∧ sA.rdh = s.rdh) ∧
    (s.fsm = .cIhwByTdtFalse → sA.fsm = .cTdhByNext ∧ sA.rdh = s.rdh ∧ sA.tdh = s.tdh) := by
  have hne1 : (ID_IHW == ID_TDH) = false := by decide
  constructor
  · intro hf
    have hadv : fsmAdvance s.fsm w = (.tdhByWasIhw, .ihw) := by
      rcases hf with (hf | hf) | ⟨hf | hf, hid⟩
      · simp [fsmAdvance, fsmStep, hf]
      · simp [fsmAdvance, fsmStep, hf]
      · simp [fsmAdvance, fsmStep, hf, hid, hne1]
      · simp [fsmAdvance, fsmStep, hf, hid, hne1]
    simp only [checkWord, hadv, preIhw, Except.ok.injEq, Prod.mk.injEq] at h
    obtain ⟨rfl, _⟩ := h
    exact ⟨rfl, rfl⟩
  · intro hf
    have hadv : fsmAdvance s.fsm w = (.cTdhByNext, .ihwCont) := by simp [fsmAdvance, fsmStep, hf]
    simp only [checkWord, hadv, preIhw, Except.ok.injEq, Prod.mk.injEq] at h
    obtain ⟨rfl, _⟩ := h
    exact ⟨rfl, rfl, rfl⟩

/-- **TDH position**: after any conforming link prefix, in a packet that starts with a word in the
    IHW position, the second word is taken as the TDH; if it violates the documented TDH rule it is
    reported with [E40] at its own offset (packet + 64 + one slot); with the stateful checks on, a
    wrong continuation bit gives [E42] (new packet) / [E41] (continued packet) and a wrong orbit
    [E444], at the same offset -/
theorem tdh_fault_after_conforming_prefix (cfg : CheckCfg) (hits : cfg.itsChecks = true) (hst : cfg.stave = false)
    (htp : cfg.triggerPeriod = none) (hver : cfg.customRdhVersion = none)
    (id0 : Nat) (xs : List PktSpec) (done' : List Rdh) (st' : LSt)
    (hc : ConformingLinkTo cfg id0 [] {} xs done' st')
    (p : Packet) (w0 w1 : Bytes) (rest : List Bytes)
    (hne : p.payload.isEmpty = false) (hcut : cutPayload p.payload = some (w0 :: w1 :: rest)) (hlen : w1.length = 10)
    (hpos : st'.bw = .closed → wordId w0 = ID_IHW)
    (sf : LinkSt) (ms : List Msg)
    (h : linkRun cfg (LinkSt.init cfg) (xs.map PktSpec.packet ++ [p]) = .ok (sf, ms)) :
    let at1 := p.offset + 64 + C07.slotOf p.rdh
    (¬ C11.TdhSpec (leNat w1) → Msg.error { offset := at1, code := "E40", word := some w1 } ∈ ms) ∧
    (cfg.running = true → (∀ o, st'.bw ≠ .open_ o) →
      (tdhContinuation w1 ≠ 0 → Msg.error { offset := at1, code := "E42", word := some w1 } ∈ ms) ∧
      (tdhOrbit w1 ≠ p.rdh.orbit → Msg.error { offset := at1, code := "E444", word := some w1 } ∈ ms)) ∧
    (cfg.running = true → (∃ o, st'.bw = .open_ o) →
      tdhContinuation w1 ≠ 1 → Msg.error { offset := at1, code := "E41", word := some w1 } ∈ ms) := by
  obtain ⟨s1, hrun, _, hrel⟩ := conforming_its_run_to cfg hits hst htp id0 xs [] (LinkSt.init cfg) {} done' st'
    ⟨by simp [LinkSt.init, hver], fun _ => C10.init_inv⟩ ⟨Or.inl rfl, fun _ => rfl⟩ hc
  rw [linkRun_snoc cfg _ p _ s1 [] hrun] at h
  cases hstep : linkStep cfg s1 p with
  | error e => simp [hstep] at h
  | ok r2 =>
    obtain ⟨s2, m2⟩ := r2
    simp only [hstep, List.nil_append, Except.ok.injEq, Prod.mk.injEq] at h
    obtain ⟨_, rfl⟩ := h
    obtain ⟨sA, mA, hA, _, sB, mB, hB, hsubB⟩ := first_word cfg hits hst s1 p w0 (w1 :: rest) hne hcut s2 m2 hstep
    -- second word
    simp only [checkWords] at hB
    cases hW : checkWord cfg sA w1 with
    | error e => simp [hW] at hB
    | ok rW =>
      obtain ⟨sW, mW⟩ := rW
      simp only [hW] at hB
      cases hR : checkWords cfg sW rest with
      | error e => simp [hR] at hB
      | ok rR =>
        obtain ⟨sR, mR⟩ := rR
        simp only [hR, Except.ok.injEq, Prod.mk.injEq] at hB
        obtain ⟨_, rfl⟩ := hB
        have hsub : ∀ m ∈ mW, m ∈ m2 := fun m hm => hsubB m (by simp [hm])
        -- tracker after the first word
        obtain ⟨_, _, hpp, hsl, hwc⟩ := C07.checkWord_ok (fun _ => True) cfg (startCdp s1.cdp p.offset p.rdh) w0 trivial
          (fun _ _ => trivial) sA mA hA
        have hposA : (stepped sA w1).wordPos = p.offset + 64 + C07.slotOf p.rdh := by
          simp only [stepped, CdpSt.wordPos, hpp, hsl, hwc, startCdp, C07.slotOf]
          simp
        obtain ⟨hnx1, hnx2⟩ := ihw_pos_next cfg (startCdp s1.cdp p.offset p.rdh) w0 sA mA hA
        have hfsm0 : (startCdp s1.cdp p.offset p.rdh).fsm = s1.cdp.fsm := rfl
        have hrdh0 : (startCdp s1.cdp p.offset p.rdh).rdh = p.rdh := rfl
        have hf := hrel.fsm
        simp only
        refine ⟨?_, ?_, ?_⟩
        · intro hbad
          have hcls : (fsmAdvance sA.fsm w1).2 = .tdh ∨ (fsmAdvance sA.fsm w1).2 = .tdhCont ∨
              (fsmAdvance sA.fsm w1).2 = .tdhAfterPacketDone := by
            cases hbw : st'.bw with
            | fresh =>
              rw [hbw] at hf
              have := (hnx1 (Or.inl (by rw [hfsm0]; exact hf))).1
              left; simp [fsmAdvance, fsmStep, this]
            | closed =>
              rw [hbw] at hf
              have := (hnx1 (Or.inr ⟨by rw [hfsm0]; exact hf, hpos hbw⟩)).1
              left; simp [fsmAdvance, fsmStep, this]
            | open_ o =>
              rw [hbw] at hf
              have := (hnx2 (by rw [hfsm0]; exact hf.1)).1
              right; left; simp [fsmAdvance, fsmStep, this]
          have := hsub _ (tdh_fault_detected cfg sA w1 hlen hcls hbad sW mW hW)
          simpa [mkErr, hposA] using this
        · intro hrn hno
          have hA' : sA.fsm = .tdhByWasIhw ∧ sA.rdh = p.rdh := by
            cases hbw : st'.bw with
            | fresh =>
              rw [hbw] at hf
              have := hnx1 (Or.inl (by rw [hfsm0]; exact hf))
              exact ⟨this.1, by rw [this.2, hrdh0]⟩
            | closed =>
              rw [hbw] at hf
              have := hnx1 (Or.inr ⟨by rw [hfsm0]; exact hf, hpos hbw⟩)
              exact ⟨this.1, by rw [this.2, hrdh0]⟩
            | open_ o => exact absurd hbw (hno o)
          have hcls : (fsmAdvance sA.fsm w1).2 = .tdh := by simp [fsmAdvance, fsmStep, hA'.1]
          obtain ⟨r1, r2⟩ := tdh_after_ihw_rules cfg hrn sA w1 hcls sW mW hW
          constructor
          · intro hc1
            have := hsub _ (r1 hc1)
            simpa [mkErr, hposA] using this
          · intro ho
            have := hsub _ (r2 (by rw [hA'.2]; exact ho))
            simpa [mkErr, hposA] using this
        · intro hrn ⟨o, hbw⟩ hc1
          rw [hbw] at hf
          have := (hnx2 (by rw [hfsm0]; exact hf.1)).1
          have hcls : (fsmAdvance sA.fsm w1).2 = .tdhCont := by simp [fsmAdvance, fsmStep, this]
          have := hsub _ (tdh_continuation_rule cfg hrn sA w1 hcls hc1 sW mW hW)
          simpa [mkErr, hposA] using this

/-- **DDW0 position**: after any conforming link prefix that ends with a closed packet, a packet
    whose first word carries the DDW0 identifier is taken as the stop page's DDW0: a violation of the
    documented DDW0 rule gives [E60]; with the stateful checks on, an RDH stop bit other than 1 gives
    [E110] and page counter 0 gives [E111] — all at the word's offset packet + 64 -/
theorem ddw0_fault_after_conforming_prefix (cfg : CheckCfg) (hits : cfg.itsChecks = true) (hst : cfg.stave = false)
    (htp : cfg.triggerPeriod = none) (hver : cfg.customRdhVersion = none)
    (id0 : Nat) (xs : List PktSpec) (done' : List Rdh) (st' : LSt)
    (hc : ConformingLinkTo cfg id0 [] {} xs done' st') (hclosed : st'.bw = .closed)
    (p : Packet) (w : Bytes) (rest : List Bytes)
    (hne : p.payload.isEmpty = false) (hcut : cutPayload p.payload = some (w :: rest)) (hlen : w.length = 10)
    (hid : wordId w = ID_DDW0)
    (sf : LinkSt) (ms : List Msg)
    (h : linkRun cfg (LinkSt.init cfg) (xs.map PktSpec.packet ++ [p]) = .ok (sf, ms)) :
    (¬ C11.Ddw0Spec (leNat w) → Msg.error { offset := p.offset + 64, code := "E60", word := some w } ∈ ms) ∧
    (cfg.running = true → p.rdh.stopBit ≠ 1 → Msg.error { offset := p.offset + 64, code := "E110", word := some w } ∈ ms) ∧
    (cfg.running = true → p.rdh.pagesCounter = 0 → Msg.error { offset := p.offset + 64, code := "E111", word := some w } ∈ ms) := by
  obtain ⟨s1, hrun, _, hrel⟩ := conforming_its_run_to cfg hits hst htp id0 xs [] (LinkSt.init cfg) {} done' st'
    ⟨by simp [LinkSt.init, hver], fun _ => C10.init_inv⟩ ⟨Or.inl rfl, fun _ => rfl⟩ hc
  rw [linkRun_snoc cfg _ p _ s1 [] hrun] at h
  cases hstep : linkStep cfg s1 p with
  | error e => simp [hstep] at h
  | ok r2 =>
    obtain ⟨s2, m2⟩ := r2
    simp only [hstep, List.nil_append, Except.ok.injEq, Prod.mk.injEq] at h
    obtain ⟨_, rfl⟩ := h
    obtain ⟨sA, mA, hA, hsub, _⟩ := first_word cfg hits hst s1 p w rest hne hcut s2 m2 hstep
    have hf := hrel.fsm
    rw [hclosed] at hf
    have h1 : (ID_DDW0 == ID_TDH) = false := by decide
    have h2 : (ID_DDW0 == ID_IHW) = false := by decide
    have hcls : (fsmAdvance (startCdp s1.cdp p.offset p.rdh).fsm w).2 = .ddw0 := by
      have hfsm0 : (startCdp s1.cdp p.offset p.rdh).fsm = s1.cdp.fsm := rfl
      rw [hfsm0]
      rcases hf with hf | hf <;> simp [fsmAdvance, fsmStep, hf, hid, h1, h2]
    refine ⟨?_, ?_, ?_⟩
    · intro hbad
      have := hsub _ (ddw0_fault_detected cfg _ w hlen hcls hbad sA mA hA)
      simpa [mkErr, first_word_pos] using this
    · intro hrn hstop
      have := hsub _ (ddw0_needs_stop_bit cfg hrn _ w hcls (by simpa [startCdp] using hstop) sA mA hA)
      simpa [mkErr, first_word_pos] using this
    · intro hrn hpage
      have := hsub _ (ddw0_needs_page_gt_0 cfg hrn _ w hcls (by simpa [startCdp] using hpage) sA mA hA)
      simpa [mkErr, first_word_pos] using this

/-! ### faults at any depth of a payload -/

/-- the classification of a word depends only on its identifier and the two flag bits the state
    machine looks at -/
theorem same_shape_same_class (st : FsmSt) (w o : Bytes) (hid : wordId w = wordId o)
    (hnd : tdhNoData w = tdhNoData o) (hpd : tdtPacketDone w = tdtPacketDone o) :
    fsmAdvance st w = fsmAdvance st o := by
  simp [fsmAdvance, hid, hnd, hpd]

/-- splitting a word run at a word -/
theorem checkWords_split (cfg : CheckCfg) (a : List Bytes) (w : Bytes) (b : List Bytes) (s sf : CdpSt) (ms : List Msg)
    (h : checkWords cfg s (a ++ w :: b) = .ok (sf, ms)) :
    ∃ sK mK sW mW mR, checkWords cfg s a = .ok (sK, mK) ∧ checkWord cfg sK w = .ok (sW, mW) ∧
      checkWords cfg sW b = .ok (sf, mR) ∧ ms = mK ++ (mW ++ mR) := by
  rw [checkWords_append] at h
  cases hA : checkWords cfg s a with
  | error e => simp [hA] at h
  | ok rA =>
    obtain ⟨sK, mK⟩ := rA
    simp only [hA, checkWords] at h
    cases hW : checkWord cfg sK w with
    | error e => simp [hW] at h
    | ok rW =>
      obtain ⟨sW, mW⟩ := rW
      simp only [hW] at h
      cases hR : checkWords cfg sW b with
      | error e => simp [hR] at h
      | ok rR =>
        obtain ⟨sR, mR⟩ := rR
        simp only [hR, Except.ok.injEq, Prod.mk.injEq] at h
        obtain ⟨rfl, rfl⟩ := h
        exact ⟨sK, mK, sW, mW, mR, rfl, hW, hR, rfl⟩

/-- the tracker after a run of words -/
theorem checkWords_tracker (cfg : CheckCfg) (ws : List Bytes) : ∀ (s s' : CdpSt) (ms : List Msg),
    checkWords cfg s ws = .ok (s', ms) →
    s'.payloadPos = s.payloadPos ∧ s'.slot = s.slot ∧ s'.wordCount = s.wordCount + ws.length := by
  induction ws with
  | nil =>
    intro s s' ms h
    simp only [checkWords, Except.ok.injEq, Prod.mk.injEq] at h
    obtain ⟨rfl, _⟩ := h
    simp
  | cons w ws ih =>
    intro s s' ms h
    simp only [checkWords] at h
    cases h1 : checkWord cfg s w with
    | error e => simp [h1] at h
    | ok r1 =>
      obtain ⟨s1, m1⟩ := r1
      simp only [h1] at h
      cases h2 : checkWords cfg s1 ws with
      | error e => simp [h2] at h
      | ok r2 =>
        obtain ⟨s2, m2⟩ := r2
        simp only [h2, Except.ok.injEq, Prod.mk.injEq] at h
        obtain ⟨rfl, _⟩ := h
        obtain ⟨_, _, e1, e2, e3⟩ := C07.checkWord_ok (fun _ => True) cfg s w trivial (fun _ _ => trivial) s1 m1 h1
        obtain ⟨f1, f2, f3⟩ := ih s1 s2 m2 h2
        refine ⟨by rw [f1, e1], by rw [f2, e2], by rw [f3, e3]; simp; omega⟩


/-- what a word that is processed without any message must be, by the class the state machine
    gave it (contrapositive of the per-rule detection lemmas and of [C09] `ambiguity_reported`) -/
theorem quiet_class (cfg : CheckCfg) (s : CdpSt) (o : Bytes) (hlen : o.length = 10) (s' : CdpSt)
    (h : checkWord cfg s o = .ok (s', [])) :
    match (fsmAdvance s.fsm o).2 with
    | .ihw | .ihwCont => ihwSane o = true
    | .tdh | .tdhCont | .tdhAfterPacketDone => tdhSane o = true
    | .tdt => tdtSane o = true
    | .ddw0 => ddw0Sane o = true
    | .cdw | .dataWord => True
    | _ => False := by
  have hI : ((fsmAdvance s.fsm o).2 = .ihw ∨ (fsmAdvance s.fsm o).2 = .ihwCont) → ihwSane o = true := by
    intro hc
    cases hb : ihwSane o with
    | true => rfl
    | false =>
      have := ihw_fault_detected cfg s o hlen hc (fun hs => by rw [(C11.ihw_sane_iff o hlen).mpr hs] at hb; cases hb) s' [] h
      simp at this
  have hT : ((fsmAdvance s.fsm o).2 = .tdh ∨ (fsmAdvance s.fsm o).2 = .tdhCont ∨ (fsmAdvance s.fsm o).2 = .tdhAfterPacketDone) →
      tdhSane o = true := by
    intro hc
    cases hb : tdhSane o with
    | true => rfl
    | false =>
      have := tdh_fault_detected cfg s o hlen hc (fun hs => by rw [(C11.tdh_sane_iff o hlen).mpr hs] at hb; cases hb) s' [] h
      simp at this
  have hD : (fsmAdvance s.fsm o).2 = .tdt → tdtSane o = true := by
    intro hc
    cases hb : tdtSane o with
    | true => rfl
    | false =>
      have := tdt_fault_detected cfg s o hlen hc (fun hs => by rw [(C11.tdt_sane_iff o hlen).mpr hs] at hb; cases hb) s' [] h
      simp at this
  have hW : (fsmAdvance s.fsm o).2 = .ddw0 → ddw0Sane o = true := by
    intro hc
    cases hb : ddw0Sane o with
    | true => rfl
    | false =>
      have := ddw0_fault_detected cfg s o hlen hc (fun hs => by rw [(C11.ddw0_sane_iff o hlen).mpr hs] at hb; cases hb) s' [] h
      simp at this
  have hE : C09.classKind (fsmAdvance s.fsm o).2 = none → False := by
    intro hc
    have := C09.ambiguity_reported cfg s o hc
    rw [h] at this
    obtain ⟨f, hf, _⟩ := this
    simp at hf
  cases hcls : (fsmAdvance s.fsm o).2 <;> simp only [] <;> first
    | exact hI (by simp [hcls]) | exact hT (by simp [hcls]) | exact hD hcls | exact hW hcls
    | trivial | exact hE (by simp [hcls, C09.classKind])


theorem tdtSane_id (w : Bytes) (h : tdtSane w = true) : wordId w = ID_TDT := by
  simp only [tdtSane, Bool.and_eq_true, beq_iff_eq] at h; exact h.1
theorem ddw0Sane_id (w : Bytes) (h : ddw0Sane w = true) : wordId w = ID_DDW0 := by
  simp only [ddw0Sane, Bool.and_eq_true, beq_iff_eq] at h; exact h.1.1

theorem class_data_id (st : FsmSt) (id : Nat) (nd pd : Bool) (h : (fsmStep st id nd pd).2 = .dataWord) :
    isFsmDataId id = true := by
  cases st <;> simp only [fsmStep] at h <;> (repeat' split at h) <;> simp_all
theorem class_cdw_id (st : FsmSt) (id : Nat) (nd pd : Bool) (h : (fsmStep st id nd pd).2 = .cdw) :
    id = ID_CDW := by
  cases st <;> simp only [fsmStep] at h <;> (repeat' split at h) <;> simp_all

/-- the kind of a status-word identifier -/
inductive StatusKind | ihw | tdh | tdt | ddw0
  deriving DecidableEq, Repr

def StatusKind.id : StatusKind → Nat
  | .ihw => ID_IHW | .tdh => ID_TDH | .tdt => ID_TDT | .ddw0 => ID_DDW0
def StatusKind.code : StatusKind → String
  | .ihw => "E30" | .tdh => "E40" | .tdt => "E50" | .ddw0 => "E60"
/-- the documented bit-level rule of the word type (the right-hand sides of [C11]) -/
def StatusKind.Spec : StatusKind → Nat → Prop
  | .ihw => C11.IhwSpec | .tdh => C11.TdhSpec | .tdt => C11.TdtSpec | .ddw0 => C11.Ddw0Spec
def StatusKind.classes : StatusKind → List WordClass
  | .ihw => [.ihw, .ihwCont] | .tdh => [.tdh, .tdhCont, .tdhAfterPacketDone] | .tdt => [.tdt] | .ddw0 => [.ddw0]

/-- a word carrying a status-word identifier that is processed without any message was taken as
    that status word -/
theorem quiet_status_class (cfg : CheckCfg) (s : CdpSt) (o : Bytes) (hlen : o.length = 10) (s' : CdpSt)
    (h : checkWord cfg s o = .ok (s', [])) (k : StatusKind) (hid : wordId o = k.id) :
    (fsmAdvance s.fsm o).2 ∈ k.classes := by
  have hq := quiet_class cfg s o hlen s' h
  have hdata : (fsmAdvance s.fsm o).2 = .dataWord → isFsmDataId (wordId o) = true := class_data_id _ _ _ _
  have hcdw : (fsmAdvance s.fsm o).2 = .cdw → wordId o = ID_CDW := class_cdw_id _ _ _ _
  cases hcls : (fsmAdvance s.fsm o).2 <;> rw [hcls] at hq <;> simp only [] at hq
  all_goals first
    | (have := ihwSane_id o hq; cases k <;> simp_all [StatusKind.id, StatusKind.classes, ID_IHW, ID_TDH, ID_TDT, ID_DDW0]; done)
    | (have := tdhSane_id o hq; cases k <;> simp_all [StatusKind.id, StatusKind.classes, ID_IHW, ID_TDH, ID_TDT, ID_DDW0]; done)
    | (have := tdtSane_id o hq; cases k <;> simp_all [StatusKind.id, StatusKind.classes, ID_IHW, ID_TDH, ID_TDT, ID_DDW0]; done)
    | (have := ddw0Sane_id o hq; cases k <;> simp_all [StatusKind.id, StatusKind.classes, ID_IHW, ID_TDH, ID_TDT, ID_DDW0]; done)
    | (have := hdata hcls; cases k <;> simp_all [StatusKind.id, isFsmDataId, inRange, ID_IHW, ID_TDH, ID_TDT, ID_DDW0]; done)
    | (have := hcdw hcls; cases k <;> simp_all [StatusKind.id, ID_CDW, ID_IHW, ID_TDH, ID_TDT, ID_DDW0]; done)
    | exact hq.elim


/-- the four per-type detection lemmas as one: in *every* validator state, a word that the state
    machine takes as status word `k` and that violates `k`'s documented rule yields `k`'s sanity
    code at the word -/
theorem status_fault_detected (k : StatusKind) (cfg : CheckCfg) (s : CdpSt) (w : Bytes) (hlen : w.length = 10)
    (hcls : (fsmAdvance s.fsm w).2 ∈ k.classes) (hbad : ¬ k.Spec (leNat w))
    (s' : CdpSt) (ms : List Msg) (h : checkWord cfg s w = .ok (s', ms)) :
    mkErr (stepped s w) k.code w ∈ ms := by
  cases k <;> simp only [StatusKind.classes, List.mem_cons, List.not_mem_nil, or_false] at hcls
  · exact ihw_fault_detected cfg s w hlen hcls hbad s' ms h
  · exact tdh_fault_detected cfg s w hlen hcls hbad s' ms h
  · exact tdt_fault_detected cfg s w hlen hcls hbad s' ms h
  · exact ddw0_fault_detected cfg s w hlen hcls hbad s' ms h

/-- what the link validator does with the payload words of a packet (non-stave ITS modes) -/
theorem linkStep_words (cfg : CheckCfg) (hits : cfg.itsChecks = true) (hst : cfg.stave = false)
    (s : LinkSt) (p : Packet) (ws : List Bytes)
    (hne : p.payload.isEmpty = false) (hcut : cutPayload p.payload = some ws)
    (sf : LinkSt) (ms : List Msg) (h : linkStep cfg s p = .ok (sf, ms)) :
    ∃ sB mB, checkWords cfg (startCdp s.cdp p.offset p.rdh) ws = .ok (sB, mB) ∧ (∀ m ∈ mB, m ∈ ms) := by
  unfold linkStep at h
  simp only [hits, hne, Bool.not_false, Bool.and_self, ↓reduceIte] at h
  have hs0 : setCurrentRdh cfg s.cdp p.offset p.rdh = .ok (startCdp s.cdp p.offset p.rdh) := by
    unfold setCurrentRdh startCdp; simp [hst]
  unfold payloadChecks at h
  simp only [hs0, hcut] at h
  cases hB : checkWords cfg (startCdp s.cdp p.offset p.rdh) ws with
  | error e => simp [hB] at h
  | ok rB =>
    obtain ⟨sB, mB⟩ := rB
    simp only [hB, Except.ok.injEq, Prod.mk.injEq] at h
    obtain ⟨_, rfl⟩ := h
    exact ⟨sB, mB, rfl, fun m hm => by simp [hm]⟩

theorem conformingLinkTo_append (cfg : CheckCfg) (id0 : Nat) (xs ys : List PktSpec) :
    ∀ (done : List Rdh) (st : LSt) (done' : List Rdh) (st' : LSt),
      ConformingLinkTo cfg id0 done st (xs ++ ys) done' st' →
      ∃ d1 s1, ConformingLinkTo cfg id0 done st xs d1 s1 ∧ ConformingLinkTo cfg id0 d1 s1 ys done' st' := by
  induction xs with
  | nil => intro done st done' st' h; exact ⟨done, st, ⟨rfl, rfl⟩, h⟩
  | cons x xs ih =>
    intro done st done' st' h
    obtain ⟨h1, h2, h3, h4, h5, h6, h7, st1, h8, h9⟩ := h
    obtain ⟨d1, s1, ha, hb⟩ := ih _ _ _ _ h9
    exact ⟨d1, s1, ⟨h1, h2, h3, h4, h5, h6, h7, st1, h8, ha⟩, hb⟩

/-- **a status word at any depth of a payload.**  Take any conforming link prefix `xs` and a
    packet `x0` that continues it conformingly; let `o` be the word at index `pre.length` of its
    payload. Replace the packet by one with the same header whose payload has the same words before
    that index and there a word `w` with the same identifier and the same two state-machine flag
    bits (TDH `no_data`, TDT `packet_done`) as `o` — whatever follows. If `o` is an IHW / TDH / TDT /
    DDW0 and `w` violates that word type's documented rule, the run reports the type's sanity code
    [E30]/[E40]/[E50]/[E60] at exactly the word's offset `packet + 64 + index × slot`, quoting `w`.
    No assumption on how deep in the page the word sits. -/
theorem status_fault_at_any_depth (cfg : CheckCfg) (hits : cfg.itsChecks = true) (hst : cfg.stave = false)
    (htp : cfg.triggerPeriod = none) (hver : cfg.customRdhVersion = none)
    (id0 : Nat) (xs : List PktSpec) (x0 : PktSpec) (done' : List Rdh) (st' : LSt)
    (hc : ConformingLinkTo cfg id0 [] {} (xs ++ [x0]) done' st')
    (pre : List Bytes) (o : Bytes) (post : List Bytes) (hw0 : x0.pl.words = pre ++ o :: post)
    (p : Packet) (hoff : p.offset = x0.offset) (hrdh : p.rdh = decodeRdh x0.hdr)
    (w : Bytes) (post' : List Bytes)
    (hne : p.payload.isEmpty = false) (hcut : cutPayload p.payload = some (pre ++ w :: post')) (hlen : w.length = 10)
    (hid : wordId w = wordId o) (hnd : tdhNoData w = tdhNoData o) (hpd : tdtPacketDone w = tdtPacketDone o)
    (k : StatusKind) (hk : wordId o = k.id) (hbad : ¬ k.Spec (leNat w))
    (sf : LinkSt) (ms : List Msg)
    (h : linkRun cfg (LinkSt.init cfg) (xs.map PktSpec.packet ++ [p]) = .ok (sf, ms)) :
    Msg.error { offset := p.offset + 64 + pre.length * C07.slotOf p.rdh, code := k.code, word := some w } ∈ ms := by
  obtain ⟨d1, g1, hcx, hc0⟩ := conformingLinkTo_append cfg id0 xs [x0] [] {} done' st' hc
  obtain ⟨s1, hrun, hinv, hrel⟩ := conforming_its_run_to cfg hits hst htp id0 xs [] (LinkSt.init cfg) {} d1 g1
    ⟨by simp [LinkSt.init, hver], fun _ => C10.init_inv⟩ ⟨Or.inl rfl, fun _ => rfl⟩ hcx
  obtain ⟨h1, h2, h3, h4, h5, h6, _, g2, h8, _⟩ := hc0
  -- the unaltered packet is processed without any message
  obtain ⟨s2, hstep0, _, _⟩ := conforming_its_step cfg hits hst htp id0 d1 s1 g1 g2 hinv hrel x0 h1 h2 h3 h4 h5 h6 h8
  have hwl := payload_words cfg.running _ g1 g2 x0.pl h8
  have hcut0 : cutPayload x0.packet.payload = some (pre ++ o :: post) := by
    have := cut_payload cfg.running _ g1 g2 x0.pl h8 x0.fmt0 x0.pad h6
    rw [hw0] at this
    simpa [PktSpec.packet, PktSpec.payloadBytes, hw0] using this
  have holen : o.length = 10 := (hwl o (by simp [hw0])).1
  have hne0 : x0.packet.payload.isEmpty = false := by
    cases hpre : pre with
    | nil => exact enc_nonempty x0 o post (by simp [hw0, hpre]) holen
    | cons a as => exact enc_nonempty x0 a (as ++ o :: post) (by simp [hw0, hpre]) (hwl a (by simp [hw0, hpre])).1
  obtain ⟨sB, mB, hB, hsubB⟩ := linkStep_words cfg hits hst s1 x0.packet _ hne0 hcut0 s2 [] hstep0
  have hmB : mB = [] := by
    cases mB with
    | nil => rfl
    | cons m _ => exact absurd (hsubB m (by simp)) (by simp)
  subst hmB
  obtain ⟨sK, mK, sW, mW, mR, hK, hO, _, hnil⟩ := checkWords_split cfg pre o post _ sB [] hB
  obtain ⟨hmK, hmWR⟩ := List.append_eq_nil_iff.mp hnil.symm
  obtain ⟨hmW, _⟩ := List.append_eq_nil_iff.mp hmWR
  subst hmK; subst hmW
  -- the altered packet
  rw [linkRun_snoc cfg _ p _ s1 [] hrun] at h
  cases hstep : linkStep cfg s1 p with
  | error e => simp [hstep] at h
  | ok r2 =>
    obtain ⟨s2', m2⟩ := r2
    simp only [hstep, List.nil_append, Except.ok.injEq, Prod.mk.injEq] at h
    obtain ⟨_, rfl⟩ := h
    obtain ⟨sB', mB', hB', hsub⟩ := linkStep_words cfg hits hst s1 p _ hne hcut s2' m2 hstep
    obtain ⟨sK', mK', sW', mW', mR', hK', hW', _, hms⟩ := checkWords_split cfg pre w post' _ sB' mB' hB'
    have hstart : startCdp s1.cdp p.offset p.rdh = startCdp s1.cdp x0.packet.offset x0.packet.rdh := by
      simp [PktSpec.packet, hoff, hrdh]
    rw [hstart, hK] at hK'
    simp only [Except.ok.injEq, Prod.mk.injEq] at hK'
    obtain ⟨rfl, _⟩ := hK'
    -- same class as the original word, which was taken as status word `k`
    have hcls := quiet_status_class cfg sK o holen sW hO k hk
    rw [← same_shape_same_class sK.fsm w o hid hnd hpd] at hcls
    have hmem := status_fault_detected k cfg sK w hlen hcls hbad sW' mW' hW'
    have hin : mkErr (stepped sK w) k.code w ∈ m2 := hsub _ (by rw [hms]; simp [hmem])
    obtain ⟨t1, t2, t3⟩ := checkWords_tracker cfg pre _ sK [] hK
    have hpos : (stepped sK w).wordPos = p.offset + 64 + pre.length * C07.slotOf p.rdh := by
      simp only [stepped, CdpSt.wordPos, t1, t2, t3, startCdp, C07.slotOf, PktSpec.packet, hoff, hrdh]
      simp
    simpa [mkErr, hpos] using hin


theorem class_tdt_id (st : FsmSt) (id : Nat) (nd pd : Bool) (h : (fsmStep st id nd pd).2 = .tdt) :
    id = ID_TDT := by
  cases st <;> simp only [fsmStep] at h <;> (repeat' split at h) <;> simp_all
theorem class_ddw0_id (st : FsmSt) (id : Nat) (nd pd : Bool) (h : (fsmStep st id nd pd).2 = .ddw0) :
    id = ID_DDW0 := by
  cases st <;> simp only [fsmStep] at h <;> (repeat' split at h) <;> simp_all

/-- an identifier that belongs to no ITS word type -/
def UnknownId (id : Nat) : Prop :=
  id ≠ ID_IHW ∧ id ≠ ID_TDH ∧ id ≠ ID_TDT ∧ id ≠ ID_DDW0 ∧ id ≠ ID_CDW ∧ isFsmDataId id = false

/-- in *every* validator state a word whose identifier belongs to no word type is reported at the
    word itself: as the expected word's sanity error where the state machine has a single successor
    ([E30], [E40]), as an unrecognised-ID error in the choice and data states ([E990]/[E991]/[E992]) -/
theorem stepped_pos (s : CdpSt) (w : Bytes) : (stepped s w).wordPos = s.payloadPos + s.wordCount * s.slot := by
  simp [stepped, CdpSt.wordPos]

theorem unknown_id_never_silent (cfg : CheckCfg) (s : CdpSt) (w : Bytes) (hlen : w.length = 10)
    (hunk : UnknownId (wordId w)) (s' : CdpSt) (ms : List Msg) (h : checkWord cfg s w = .ok (s', ms)) :
    ∃ f, Msg.error f ∈ ms ∧ f.offset = s.payloadPos + s.wordCount * s.slot ∧ f.word = some w ∧
      f.code ∈ ["E30", "E40", "E990", "E991", "E992"] := by
  obtain ⟨u1, u2, u3, u4, u5, u6⟩ := hunk
  have mk : ∀ code, code ∈ ["E30", "E40", "E990", "E991", "E992"] → mkErr (stepped s w) code w ∈ ms →
      ∃ f, Msg.error f ∈ ms ∧ f.offset = s.payloadPos + s.wordCount * s.slot ∧ f.word = some w ∧
        f.code ∈ ["E30", "E40", "E990", "E991", "E992"] :=
    fun code hc hm => ⟨_, hm, stepped_pos s w, rfl, hc⟩
  cases hcls : (fsmAdvance s.fsm w).2
  case ihw =>
    refine mk "E30" (by simp) (ihw_fault_detected cfg s w hlen (Or.inl hcls) ?_ s' ms h)
    intro hs; exact u1 (ihwSane_id w ((C11.ihw_sane_iff w hlen).mpr hs))
  case ihwCont =>
    refine mk "E30" (by simp) (ihw_fault_detected cfg s w hlen (Or.inr hcls) ?_ s' ms h)
    intro hs; exact u1 (ihwSane_id w ((C11.ihw_sane_iff w hlen).mpr hs))
  case tdh =>
    refine mk "E40" (by simp) (tdh_fault_detected cfg s w hlen (Or.inl hcls) ?_ s' ms h)
    intro hs; exact u2 (tdhSane_id w ((C11.tdh_sane_iff w hlen).mpr hs))
  case tdhCont =>
    refine mk "E40" (by simp) (tdh_fault_detected cfg s w hlen (Or.inr (Or.inl hcls)) ?_ s' ms h)
    intro hs; exact u2 (tdhSane_id w ((C11.tdh_sane_iff w hlen).mpr hs))
  case tdhAfterPacketDone =>
    refine mk "E40" (by simp) (tdh_fault_detected cfg s w hlen (Or.inr (Or.inr hcls)) ?_ s' ms h)
    intro hs; exact u2 (tdhSane_id w ((C11.tdh_sane_iff w hlen).mpr hs))
  case tdt => exact absurd (class_tdt_id _ _ _ _ hcls) u3
  case ddw0 => exact absurd (class_ddw0_id _ _ _ _ hcls) u4
  case cdw => exact absurd (class_cdw_id _ _ _ _ hcls) u5
  case dataWord => have := class_data_id _ _ _ _ hcls; rw [u6] at this; cases this
  all_goals
    have hamb := C09.ambiguity_reported cfg s w (by simp [hcls, C09.classKind])
    rw [h] at hamb
    obtain ⟨f, hf, hoff, hword, hcode⟩ := hamb
    exact ⟨f, hf, hoff, hword, by rcases hcode with hc | hc | hc <;> simp [hc]⟩

/-- **an unknown identifier anywhere.**  For *any* link history `ps` (conforming or not) and any
    packet whose payload is cut into `pre ++ w :: post`: if `w`'s identifier belongs to no word type,
    the run reports an error quoting `w` at exactly `packet + 64 + pre.length × slot` — never silently
    accepted, whatever the state the words before it left the validator in -/
theorem unknown_id_reported_anywhere (cfg : CheckCfg) (hits : cfg.itsChecks = true) (hst : cfg.stave = false)
    (s0 : LinkSt) (ps : List Packet) (p : Packet) (pre : List Bytes) (w : Bytes) (post : List Bytes)
    (hne : p.payload.isEmpty = false) (hcut : cutPayload p.payload = some (pre ++ w :: post)) (hlen : w.length = 10)
    (hunk : UnknownId (wordId w)) (sf : LinkSt) (ms : List Msg)
    (h : linkRun cfg s0 (ps ++ [p]) = .ok (sf, ms)) :
    ∃ f, Msg.error f ∈ ms ∧ f.offset = p.offset + 64 + pre.length * C07.slotOf p.rdh ∧ f.word = some w ∧
      f.code ∈ ["E30", "E40", "E990", "E991", "E992"] := by
  rw [linkRun_append] at h
  cases hps : linkRun cfg s0 ps with
  | error e => simp [hps] at h
  | ok r1 =>
    obtain ⟨s1, m1⟩ := r1
    simp only [hps, linkRun] at h
    cases hstep : linkStep cfg s1 p with
    | error e => simp [hstep] at h
    | ok r2 =>
      obtain ⟨s2, m2⟩ := r2
      simp only [hstep, List.append_nil, Except.ok.injEq, Prod.mk.injEq] at h
      obtain ⟨_, rfl⟩ := h
      obtain ⟨sB, mB, hB, hsub⟩ := linkStep_words cfg hits hst s1 p _ hne hcut s2 m2 hstep
      obtain ⟨sK, mK, sW, mW, mR, hK, hW, _, hms⟩ := checkWords_split cfg pre w post _ sB mB hB
      obtain ⟨f, hf, hoff, hword, hcode⟩ := unknown_id_never_silent cfg sK w hlen hunk sW mW hW
      obtain ⟨t1, t2, t3⟩ := checkWords_tracker cfg pre _ sK mK hK
      refine ⟨f, ?_, ?_, hword, hcode⟩
      · exact List.mem_append_right _ (hsub _ (by rw [hms]; simp [hf]))
      · rw [hoff, t1, t2, t3]; simp [startCdp, C07.slotOf]


/-- only a word taken as IHW changes the stored IHW -/
theorem checkWord_ihw (cfg : CheckCfg) (s : CdpSt) (w : Bytes) (s' : CdpSt) (ms : List Msg)
    (h : checkWord cfg s w = .ok (s', ms)) :
    s'.ihw = if (fsmAdvance s.fsm w).2 = .ihw ∨ (fsmAdvance s.fsm w).2 = .ihwCont then some w else s.ihw := by
  rcases hadv : fsmAdvance s.fsm w with ⟨st', cls⟩
  have hpd : ∀ (t t' : CdpSt) (m : List Msg), preData cfg t w = .ok (t', m) → t'.ihw = t.ihw := by
    intro t t' m hp
    unfold preData at hp
    simp only at hp
    repeat' split at hp
    all_goals first
      | cases hp; done
      | (simp only [Except.ok.injEq, Prod.mk.injEq] at hp; obtain ⟨rfl, _⟩ := hp; rfl)
  have hpt : ∀ t : CdpSt, (preTdh cfg t w).1.ihw = t.ihw := by
    intro t; unfold preTdh; simp only; split <;> rfl
  have hpf : ∀ (t t' : CdpSt) (m : List Msg), processFrame cfg t = .ok (t', m) → t'.ihw = t.ihw := by
    intro t t' m hp
    unfold processFrame at hp
    simp only at hp
    repeat' split at hp
    all_goals first
      | cases hp; done
      | (simp only [Except.ok.injEq, Prod.mk.injEq] at hp; obtain ⟨rfl, _⟩ := hp; rfl)
  cases cls <;> simp only [checkWord, hadv] at h <;> simp only [reduceCtorEq, or_self, or_false, or_true, ↓reduceIte]
  case ihw => simp only [preIhw, Except.ok.injEq, Prod.mk.injEq] at h; obtain ⟨rfl, _⟩ := h; rfl
  case ihwCont => simp only [preIhw, Except.ok.injEq, Prod.mk.injEq] at h; obtain ⟨rfl, _⟩ := h; rfl
  case tdh => simp only [Except.ok.injEq, Prod.mk.injEq] at h; obtain ⟨rfl, _⟩ := h; have := hpt { s with wordCount := s.wordCount + 1, fsm := st' }; exact this
  case tdhCont => simp only [Except.ok.injEq, Prod.mk.injEq] at h; obtain ⟨rfl, _⟩ := h; have := hpt { s with wordCount := s.wordCount + 1, fsm := st' }; exact this
  case tdhAfterPacketDone => simp only [Except.ok.injEq, Prod.mk.injEq] at h; obtain ⟨rfl, _⟩ := h; have := hpt { s with wordCount := s.wordCount + 1, fsm := st' }; exact this
  case errTdhOrDdw0 => simp only [Except.ok.injEq, Prod.mk.injEq] at h; obtain ⟨rfl, _⟩ := h; have := hpt { s with wordCount := s.wordCount + 1, fsm := st' }; exact this
  case cdw => have := hpd _ _ _ h; exact this
  case dataWord => have := hpd _ _ _ h; exact this
  case ddw0 => simp only [preDdw0, Except.ok.injEq, Prod.mk.injEq] at h; obtain ⟨rfl, _⟩ := h; rfl
  case errDdw0OrTdhIhw => simp only [preDdw0, Except.ok.injEq, Prod.mk.injEq] at h; obtain ⟨rfl, _⟩ := h; rfl
  case errDwOrTdtCdw =>
    split at h
    · cases h
    · rename_i t' m hp
      simp only [Except.ok.injEq, Prod.mk.injEq] at h; obtain ⟨rfl, _⟩ := h; have := hpd _ _ _ hp; exact this
  case tdt =>
    unfold preTdt at h
    simp only at h
    split at h
    · split at h
      · cases h
      · rename_i t' m hp
        simp only [Except.ok.injEq, Prod.mk.injEq] at h; obtain ⟨rfl, _⟩ := h; have := hpf _ _ _ hp; exact this
    · simp only [Except.ok.injEq, Prod.mk.injEq] at h; obtain ⟨rfl, _⟩ := h; rfl


/-- the data-word branch of the validator emits exactly the codes of [C11]'s `dataWordCodes`
    (the function `data_reported_iff` is about), each quoting the word at its offset -/
theorem preData_codes (cfg : CheckCfg) (hst : cfg.stave = false) (s : CdpSt) (w i : Bytes)
    (hi : s.ihw = some i) (hncdw : wordId w ≠ ID_CDW) :
    preData cfg s w = .ok ({ s with startOfData := false },
      (dataWordCodes cfg.running (ihwActiveLanes i) w).map (fun c => mkErr s c w)) := by
  unfold preData dataWordCodes
  have hne : (wordId w == ID_CDW) = false := by simpa using hncdw
  simp only [hne, Bool.and_false, Bool.false_eq_true, ↓reduceIte, hi, hst, Bool.not_false]
  by_cases hv : isValidDataId (wordId w) = true <;>
  by_cases hr : cfg.running = true <;>
  by_cases h1 : wordId w / 32 = 1 <;>
  by_cases h2 : wordId w / 32 = 2 <;>
  by_cases ha : laneActive (ibLane (wordId w)) (ihwActiveLanes i) = true <;>
  by_cases hb : laneActive (obLane (wordId w)) (ihwActiveLanes i) = true <;>
  by_cases hc : obConnectorInput (wordId w) > 6 <;>
  simp [hv, hr, h1, h2, ha, hb, hc] <;> omega


/-- the IHW governing a position of a payload: the last word before it that carries the IHW
    identifier (in a page of the protocol grammar: the page's first word), else what was stored -/
def governingIhw (init : Option Bytes) (pre : List Bytes) : Option Bytes :=
  pre.foldl (fun acc w => if wordId w = ID_IHW then some w else acc) init

/-- a word processed without any message is taken as IHW exactly when it carries the IHW identifier -/
theorem quiet_ihw_class_iff (cfg : CheckCfg) (s : CdpSt) (o : Bytes) (hlen : o.length = 10) (s' : CdpSt)
    (h : checkWord cfg s o = .ok (s', [])) :
    ((fsmAdvance s.fsm o).2 = .ihw ∨ (fsmAdvance s.fsm o).2 = .ihwCont) ↔ wordId o = ID_IHW := by
  constructor
  · intro hc
    have hq := quiet_class cfg s o hlen s' h
    rcases hc with hc | hc <;> rw [hc] at hq <;> exact ihwSane_id o hq
  · intro hid
    have := quiet_status_class cfg s o hlen s' h .ihw hid
    simpa [StatusKind.classes] using this

theorem quiet_governing_ihw (cfg : CheckCfg) (pre : List Bytes) : ∀ (s sK : CdpSt),
    (∀ w ∈ pre, w.length = 10) → checkWords cfg s pre = .ok (sK, []) → sK.ihw = governingIhw s.ihw pre := by
  induction pre with
  | nil =>
    intro s sK _ h
    simp only [checkWords, Except.ok.injEq, Prod.mk.injEq] at h
    obtain ⟨rfl, _⟩ := h
    rfl
  | cons w ws ih =>
    intro s sK hl h
    simp only [checkWords] at h
    cases h1 : checkWord cfg s w with
    | error e => simp [h1] at h
    | ok r1 =>
      obtain ⟨s1, m1⟩ := r1
      simp only [h1] at h
      cases h2 : checkWords cfg s1 ws with
      | error e => simp [h2] at h
      | ok r2 =>
        obtain ⟨s2, m2⟩ := r2
        simp only [h2, Except.ok.injEq, Prod.mk.injEq] at h
        obtain ⟨rfl, hm⟩ := h
        obtain ⟨hm1, hm2⟩ := List.append_eq_nil_iff.mp hm
        subst hm1; subst hm2
        have hw := checkWord_ihw cfg s w s1 [] h1
        have hiff := quiet_ihw_class_iff cfg s w (hl w (by simp)) s1 h1
        rw [ih s1 s2 (fun x hx => hl x (by simp [hx])) h2, hw]
        simp only [governingIhw, List.foldl_cons]
        by_cases hid : wordId w = ID_IHW
        · simp [hid, hiff.mpr hid]
        · have : ¬ ((fsmAdvance s.fsm w).2 = .ihw ∨ (fsmAdvance s.fsm w).2 = .ihwCont) := fun hc => hid (hiff.mp hc)
          simp [hid, this]

/-- a data identifier processed without any message was taken as a data word, in a data-phase state -/
theorem quiet_data_class (cfg : CheckCfg) (s : CdpSt) (o : Bytes) (hlen : o.length = 10) (s' : CdpSt)
    (h : checkWord cfg s o = .ok (s', [])) (hid : isFsmDataId (wordId o) = true) :
    (fsmAdvance s.fsm o).2 = .dataWord := by
  have hq := quiet_class cfg s o hlen s' h
  have hcdw : (fsmAdvance s.fsm o).2 = .cdw → wordId o = ID_CDW := class_cdw_id _ _ _ _
  cases hcls : (fsmAdvance s.fsm o).2 <;> rw [hcls] at hq <;> simp only [] at hq
  all_goals first
    | rfl
    | (have := ihwSane_id o hq; rw [this] at hid; simp [isFsmDataId, inRange, ID_IHW] at hid; done)
    | (have := tdhSane_id o hq; rw [this] at hid; simp [isFsmDataId, inRange, ID_TDH] at hid; done)
    | (have := tdtSane_id o hq; rw [this] at hid; simp [isFsmDataId, inRange, ID_TDT] at hid; done)
    | (have := ddw0Sane_id o hq; rw [this] at hid; simp [isFsmDataId, inRange, ID_DDW0] at hid; done)
    | (have := hcdw hcls; rw [this] at hid; simp [isFsmDataId, inRange, ID_CDW] at hid; done)
    | exact hq.elim

/-- in a state where one data identifier is taken as a data word, every data identifier is -/
theorem data_class_any_id (st : FsmSt) (id id' : Nat) (nd pd nd' pd' : Bool)
    (h : (fsmStep st id nd pd).2 = .dataWord) (hid' : isFsmDataId id' = true) :
    (fsmStep st id' nd' pd').2 = .dataWord := by
  cases st <;> simp only [fsmStep] at h ⊢ <;> first | (simp_all; done) | (exfalso; by_cases a : (id == ID_TDH) = true <;> by_cases b : nd = true <;> by_cases c : (id == ID_IHW) = true <;> by_cases d : (id == ID_DDW0) = true <;> simp [a, b, c, d] at h)


/-- **a data word at any depth of a payload.**  Same setting as `status_fault_at_any_depth`, with
    the stateful checks on (`check all`): where a conforming packet has a data word `o`, put any
    word `w` carrying a data identifier of the state machine's ranges. Then *exactly* the codes that
    [C11]'s `dataWordCodes` assigns to `w` under the governing IHW — [E70] invalid identifier,
    [E71]/[E72] lane not active, [E73] connector input 7; by `C11.data_reported_iff` none iff `w`
    satisfies the documented data-word rule — are reported at the word's offset, quoting `w` -/
theorem data_fault_at_any_depth (cfg : CheckCfg) (hits : cfg.itsChecks = true) (hst : cfg.stave = false)
    (htp : cfg.triggerPeriod = none) (hver : cfg.customRdhVersion = none)
    (id0 : Nat) (xs : List PktSpec) (x0 : PktSpec) (done' : List Rdh) (st' : LSt)
    (hc : ConformingLinkTo cfg id0 [] {} (xs ++ [x0]) done' st')
    (pre : List Bytes) (o : Bytes) (post : List Bytes) (hw0 : x0.pl.words = pre ++ o :: post)
    (p : Packet) (hoff : p.offset = x0.offset) (hrdh : p.rdh = decodeRdh x0.hdr)
    (w : Bytes) (post' : List Bytes)
    (hne : p.payload.isEmpty = false) (hcut : cutPayload p.payload = some (pre ++ w :: post'))
    (hido : isFsmDataId (wordId o) = true) (hidw : isFsmDataId (wordId w) = true)
    (i : Bytes) (hgov : governingIhw none pre = some i)
    (sf : LinkSt) (ms : List Msg)
    (h : linkRun cfg (LinkSt.init cfg) (xs.map PktSpec.packet ++ [p]) = .ok (sf, ms)) :
    ∀ code ∈ dataWordCodes cfg.running (ihwActiveLanes i) w,
      Msg.error { offset := p.offset + 64 + pre.length * C07.slotOf p.rdh, code := code, word := some w } ∈ ms := by
  obtain ⟨d1, g1, hcx, hc0⟩ := conformingLinkTo_append cfg id0 xs [x0] [] {} done' st' hc
  obtain ⟨s1, hrun, hinv, hrel⟩ := conforming_its_run_to cfg hits hst htp id0 xs [] (LinkSt.init cfg) {} d1 g1
    ⟨by simp [LinkSt.init, hver], fun _ => C10.init_inv⟩ ⟨Or.inl rfl, fun _ => rfl⟩ hcx
  obtain ⟨h1, h2, h3, h4, h5, h6, _, g2, h8, _⟩ := hc0
  obtain ⟨s2, hstep0, _, _⟩ := conforming_its_step cfg hits hst htp id0 d1 s1 g1 g2 hinv hrel x0 h1 h2 h3 h4 h5 h6 h8
  have hwl := payload_words cfg.running _ g1 g2 x0.pl h8
  have hcut0 : cutPayload x0.packet.payload = some (pre ++ o :: post) := by
    have := cut_payload cfg.running _ g1 g2 x0.pl h8 x0.fmt0 x0.pad h6
    rw [hw0] at this
    simpa [PktSpec.packet, PktSpec.payloadBytes, hw0] using this
  have holen : o.length = 10 := (hwl o (by simp [hw0])).1
  have hprelen : ∀ a ∈ pre, a.length = 10 := fun a ha => (hwl a (by simp [hw0, ha])).1
  have hne0 : x0.packet.payload.isEmpty = false := by
    cases hpre : pre with
    | nil => exact enc_nonempty x0 o post (by simp [hw0, hpre]) holen
    | cons a as => exact enc_nonempty x0 a (as ++ o :: post) (by simp [hw0, hpre]) (hwl a (by simp [hw0, hpre])).1
  obtain ⟨sB, mB, hB, hsubB⟩ := linkStep_words cfg hits hst s1 x0.packet _ hne0 hcut0 s2 [] hstep0
  have hmB : mB = [] := by
    cases mB with
    | nil => rfl
    | cons m _ => exact absurd (hsubB m (by simp)) (by simp)
  subst hmB
  obtain ⟨sK, mK, sW, mW, mR, hK, hO, _, hnil⟩ := checkWords_split cfg pre o post _ sB [] hB
  obtain ⟨hmK, hmWR⟩ := List.append_eq_nil_iff.mp hnil.symm
  obtain ⟨hmW, _⟩ := List.append_eq_nil_iff.mp hmWR
  subst hmK; subst hmW
  rw [linkRun_snoc cfg _ p _ s1 [] hrun] at h
  cases hstep : linkStep cfg s1 p with
  | error e => simp [hstep] at h
  | ok r2 =>
    obtain ⟨s2', m2⟩ := r2
    simp only [hstep, List.nil_append, Except.ok.injEq, Prod.mk.injEq] at h
    obtain ⟨_, rfl⟩ := h
    obtain ⟨sB', mB', hB', hsub⟩ := linkStep_words cfg hits hst s1 p _ hne hcut s2' m2 hstep
    obtain ⟨sK', mK', sW', mW', mR', hK', hW', _, hms⟩ := checkWords_split cfg pre w post' _ sB' mB' hB'
    have hstart : startCdp s1.cdp p.offset p.rdh = startCdp s1.cdp x0.packet.offset x0.packet.rdh := by
      simp [PktSpec.packet, hoff, hrdh]
    rw [hstart, hK] at hK'
    simp only [Except.ok.injEq, Prod.mk.injEq] at hK'
    obtain ⟨rfl, _⟩ := hK'
    -- the governing IHW is what the validator has stored
    have hihw : sK.ihw = some i := by
      have := quiet_governing_ihw cfg pre _ sK hprelen hK
      -- the stored IHW before the packet is overwritten by the IHW found in `pre`
      have hfold : ∀ (l : List Bytes) (a b : Option Bytes), governingIhw a l = some i → governingIhw none l = some i →
          governingIhw b l = some i := by
        intro l
        induction l with
        | nil => intro a b _ h2; simp [governingIhw] at h2
        | cons x l ihl =>
          intro a b h1 h2
          simp only [governingIhw, List.foldl_cons] at h1 h2 ⊢
          by_cases hx : wordId x = ID_IHW
          · simp only [hx, ↓reduceIte] at h2 ⊢; exact h2
          · simp only [hx, ↓reduceIte] at h1 h2 ⊢; exact ihl _ _ h2 h2
      rw [this]; exact hfold pre none _ hgov hgov
    -- the original data word was taken as a data word, hence so is `w`
    have hcls0 := quiet_data_class cfg sK o holen sW hO hido
    have hcls : (fsmAdvance sK.fsm w).2 = .dataWord := data_class_any_id _ _ _ _ _ _ _ hcls0 hidw
    have hncdw : wordId w ≠ ID_CDW := by
      intro hcd; rw [hcd] at hidw; simp [isFsmDataId, inRange, ID_CDW] at hidw
    rcases hadv : fsmAdvance sK.fsm w with ⟨stw, cls⟩
    rw [hadv] at hcls
    simp only at hcls; subst hcls
    simp only [checkWord, hadv] at hW'
    rw [preData_codes cfg hst _ w i (by exact hihw) hncdw] at hW'
    simp only [Except.ok.injEq, Prod.mk.injEq] at hW'
    obtain ⟨_, rfl⟩ := hW'
    obtain ⟨t1, t2, t3⟩ := checkWords_tracker cfg pre _ sK [] hK
    intro code hcode
    have hin := hsub (mkErr { sK with wordCount := sK.wordCount + 1, fsm := stw } code w)
      (by rw [hms]; simp only [List.mem_append, List.mem_map]; exact Or.inr (Or.inl ⟨code, hcode, rfl⟩))
    have hpos : ({ sK with wordCount := sK.wordCount + 1, fsm := stw } : CdpSt).wordPos = p.offset + 64 + pre.length * C07.slotOf p.rdh := by
      simp only [CdpSt.wordPos, t1, t2, t3, startCdp, C07.slotOf, PktSpec.packet, hoff, hrdh]
      simp
    simpa [mkErr, hpos] using hin


/-! ### non-vacuity of the any-depth theorems (kernel-evaluated) -/
namespace ExDepth
open C01.Ex
/-- the TDT closing the first packet of `page0` sits at word index 5, behind IHW, TDH, CDW and two data words -/
example : page0.words = [ihw, tdh, cdw, data, data] ++ tdtDone :: [C01.Ex.tdhNoData, tdhOpen, data, tdtOpen] := by decide
example : wordId tdtDone = StatusKind.tdt.id := by decide
example : governingIhw none [ihw, tdh, cdw, data, data] = some ihw := by decide
/-- a TDT with the same identifier and packet_done bit but reserved bit 66 set violates the TDT rule -/
def badTdt : Bytes := [0, 0, 0, 0, 0, 0, 0, 0, 5, 0xF0]
example : wordId badTdt = wordId tdtDone ∧ tdhNoData badTdt = tdhNoData tdtDone ∧ tdtPacketDone badTdt = tdtPacketDone tdtDone := by decide
example : ¬ StatusKind.tdt.Spec (leNat badTdt) := fun h => by
  have := (C11.tdt_sane_iff badTdt (by decide)).mpr h
  revert this; decide
/-- a data word of lane 8 under an IHW with lanes 0..13 active is fine, lane 20 (id 0x54) is not -/
example : dataWordCodes true (ihwActiveLanes ihw) [0, 0, 0, 0, 0, 0, 0, 0, 0, 0x54] = ["E71"] := by decide
example : UnknownId 0x13 := by unfold UnknownId; decide
end ExDepth

/-! ### state-dependent TDH rules behind a conforming prefix (E440 at any depth; E441..E445, E44 in the TDH position) -/

/-- the state machine's successor is what `checkWord` stores; the packet's RDH is never changed by a word -/
theorem checkWord_fsm_rdh (cfg : CheckCfg) (s : CdpSt) (w : Bytes) (s' : CdpSt) (ms : List Msg)
    (h : checkWord cfg s w = .ok (s', ms)) : s'.fsm = (fsmAdvance s.fsm w).1 ∧ s'.rdh = s.rdh := by
  rcases hadv : fsmAdvance s.fsm w with ⟨st', cls⟩
  have hpd : ∀ (t t' : CdpSt) (m : List Msg), preData cfg t w = .ok (t', m) → t'.fsm = t.fsm ∧ t'.rdh = t.rdh := by
    intro t t' m hp
    unfold preData at hp
    simp only at hp
    repeat' split at hp
    all_goals first
      | cases hp; done
      | (simp only [Except.ok.injEq, Prod.mk.injEq] at hp; obtain ⟨rfl, _⟩ := hp; exact ⟨rfl, rfl⟩)
  have hpt : ∀ t : CdpSt, (preTdh cfg t w).1.fsm = t.fsm ∧ (preTdh cfg t w).1.rdh = t.rdh := by
    intro t; unfold preTdh; simp only; split <;> exact ⟨rfl, rfl⟩
  have hpf : ∀ (t t' : CdpSt) (m : List Msg), processFrame cfg t = .ok (t', m) → t'.fsm = t.fsm ∧ t'.rdh = t.rdh := by
    intro t t' m hp
    unfold processFrame at hp
    simp only at hp
    repeat' split at hp
    all_goals first
      | cases hp; done
      | (simp only [Except.ok.injEq, Prod.mk.injEq] at hp; obtain ⟨rfl, _⟩ := hp; exact ⟨rfl, rfl⟩)
  cases cls <;> simp only [checkWord, hadv] at h
  case ihw => simp only [preIhw, Except.ok.injEq, Prod.mk.injEq] at h; obtain ⟨rfl, _⟩ := h; exact ⟨rfl, rfl⟩
  case ihwCont => simp only [preIhw, Except.ok.injEq, Prod.mk.injEq] at h; obtain ⟨rfl, _⟩ := h; exact ⟨rfl, rfl⟩
  case tdh => simp only [Except.ok.injEq, Prod.mk.injEq] at h; obtain ⟨rfl, _⟩ := h; have := hpt { s with wordCount := s.wordCount + 1, fsm := st' }; exact this
  case tdhCont => simp only [Except.ok.injEq, Prod.mk.injEq] at h; obtain ⟨rfl, _⟩ := h; have := hpt { s with wordCount := s.wordCount + 1, fsm := st' }; exact this
  case tdhAfterPacketDone => simp only [Except.ok.injEq, Prod.mk.injEq] at h; obtain ⟨rfl, _⟩ := h; have := hpt { s with wordCount := s.wordCount + 1, fsm := st' }; exact this
  case errTdhOrDdw0 => simp only [Except.ok.injEq, Prod.mk.injEq] at h; obtain ⟨rfl, _⟩ := h; have := hpt { s with wordCount := s.wordCount + 1, fsm := st' }; exact this
  case cdw => have := hpd _ _ _ h; exact this
  case dataWord => have := hpd _ _ _ h; exact this
  case ddw0 => simp only [preDdw0, Except.ok.injEq, Prod.mk.injEq] at h; obtain ⟨rfl, _⟩ := h; exact ⟨rfl, rfl⟩
  case errDdw0OrTdhIhw => simp only [preDdw0, Except.ok.injEq, Prod.mk.injEq] at h; obtain ⟨rfl, _⟩ := h; exact ⟨rfl, rfl⟩
  case errDwOrTdtCdw =>
    split at h
    · cases h
    · rename_i t' m hp
      simp only [Except.ok.injEq, Prod.mk.injEq] at h; obtain ⟨rfl, _⟩ := h; have := hpd _ _ _ hp; exact this
  case tdt =>
    unfold preTdt at h
    simp only at h
    split at h
    · split at h
      · cases h
      · rename_i t' m hp
        simp only [Except.ok.injEq, Prod.mk.injEq] at h; obtain ⟨rfl, _⟩ := h; have := hpf _ _ _ hp; exact this
    · simp only [Except.ok.injEq, Prod.mk.injEq] at h; obtain ⟨rfl, _⟩ := h; exact ⟨rfl, rfl⟩

/-- only a word taken as TDH changes the stored TDH -/
theorem checkWord_tdh (cfg : CheckCfg) (s : CdpSt) (w : Bytes) (s' : CdpSt) (ms : List Msg)
    (h : checkWord cfg s w = .ok (s', ms)) :
    s'.tdh = if (fsmAdvance s.fsm w).2 ∈ [WordClass.tdh, .tdhCont, .tdhAfterPacketDone, .errTdhOrDdw0] then some w else s.tdh := by
  rcases hadv : fsmAdvance s.fsm w with ⟨st', cls⟩
  have hpd : ∀ (t t' : CdpSt) (m : List Msg), preData cfg t w = .ok (t', m) → t'.tdh = t.tdh := by
    intro t t' m hp
    unfold preData at hp
    simp only at hp
    repeat' split at hp
    all_goals first
      | cases hp; done
      | (simp only [Except.ok.injEq, Prod.mk.injEq] at hp; obtain ⟨rfl, _⟩ := hp; rfl)
  have hpt : ∀ t : CdpSt, (preTdh cfg t w).1.tdh = some w := by
    intro t; unfold preTdh replaceTdh; simp only; split <;> rfl
  have hpf : ∀ (t t' : CdpSt) (m : List Msg), processFrame cfg t = .ok (t', m) → t'.tdh = t.tdh := by
    intro t t' m hp
    unfold processFrame at hp
    simp only at hp
    repeat' split at hp
    all_goals first
      | cases hp; done
      | (simp only [Except.ok.injEq, Prod.mk.injEq] at hp; obtain ⟨rfl, _⟩ := hp; rfl)
  cases cls <;> simp only [checkWord, hadv] at h <;> simp only [List.mem_cons, List.not_mem_nil, reduceCtorEq, or_self, or_false, or_true, false_or, ↓reduceIte]
  case ihw => simp only [preIhw, Except.ok.injEq, Prod.mk.injEq] at h; obtain ⟨rfl, _⟩ := h; rfl
  case ihwCont => simp only [preIhw, Except.ok.injEq, Prod.mk.injEq] at h; obtain ⟨rfl, _⟩ := h; rfl
  case tdh => simp only [Except.ok.injEq, Prod.mk.injEq] at h; obtain ⟨rfl, _⟩ := h; exact hpt _
  case tdhCont => simp only [Except.ok.injEq, Prod.mk.injEq] at h; obtain ⟨rfl, _⟩ := h; exact hpt _
  case tdhAfterPacketDone => simp only [Except.ok.injEq, Prod.mk.injEq] at h; obtain ⟨rfl, _⟩ := h; exact hpt _
  case errTdhOrDdw0 => simp only [Except.ok.injEq, Prod.mk.injEq] at h; obtain ⟨rfl, _⟩ := h; exact hpt _
  case cdw => have := hpd _ _ _ h; exact this
  case dataWord => have := hpd _ _ _ h; exact this
  case ddw0 => simp only [preDdw0, Except.ok.injEq, Prod.mk.injEq] at h; obtain ⟨rfl, _⟩ := h; rfl
  case errDdw0OrTdhIhw => simp only [preDdw0, Except.ok.injEq, Prod.mk.injEq] at h; obtain ⟨rfl, _⟩ := h; rfl
  case errDwOrTdtCdw =>
    split at h
    · cases h
    · rename_i t' m hp
      simp only [Except.ok.injEq, Prod.mk.injEq] at h; obtain ⟨rfl, _⟩ := h; have := hpd _ _ _ hp; exact this
  case tdt =>
    unfold preTdt at h
    simp only at h
    split at h
    · split at h
      · cases h
      · rename_i t' m hp
        simp only [Except.ok.injEq, Prod.mk.injEq] at h; obtain ⟨rfl, _⟩ := h; have := hpf _ _ _ hp; exact this
    · simp only [Except.ok.injEq, Prod.mk.injEq] at h; obtain ⟨rfl, _⟩ := h; rfl


/-- common skeleton of the any-depth theorems: the state `sK` in which the word at index
    `pre.length` is examined is the same for the conforming packet and for the altered one; the
    original word is processed there without a message; the altered word's messages are part of
    the run's messages and sit at `packet + 64 + index × slot` -/
theorem depth_setup (cfg : CheckCfg) (hits : cfg.itsChecks = true) (hst : cfg.stave = false)
    (htp : cfg.triggerPeriod = none) (hver : cfg.customRdhVersion = none)
    (id0 : Nat) (xs : List PktSpec) (x0 : PktSpec) (done' : List Rdh) (st' : LSt)
    (hc : ConformingLinkTo cfg id0 [] {} (xs ++ [x0]) done' st')
    (pre : List Bytes) (o : Bytes) (post : List Bytes) (hw0 : x0.pl.words = pre ++ o :: post)
    (p : Packet) (hoff : p.offset = x0.offset) (hrdh : p.rdh = decodeRdh x0.hdr)
    (w : Bytes) (post' : List Bytes)
    (hne : p.payload.isEmpty = false) (hcut : cutPayload p.payload = some (pre ++ w :: post'))
    (sf : LinkSt) (ms : List Msg)
    (h : linkRun cfg (LinkSt.init cfg) (xs.map PktSpec.packet ++ [p]) = .ok (sf, ms)) :
    ∃ (c0 : CdpSt) (sK sW sW' : CdpSt) (mW' : List Msg),
      checkWords cfg (startCdp c0 p.offset p.rdh) pre = .ok (sK, []) ∧
      checkWord cfg sK o = .ok (sW, []) ∧ checkWord cfg sK w = .ok (sW', mW') ∧ (∀ m ∈ mW', m ∈ ms) ∧
      o.length = 10 ∧ (∀ a ∈ pre, a.length = 10) ∧
      (stepped sK w).wordPos = p.offset + 64 + pre.length * C07.slotOf p.rdh ∧
      (c0.fsm = .cIhwByTdtFalse → ∃ oT, c0.tdh = some oT) ∧
      (∃ d1 g1, ConformingLinkTo cfg id0 [] {} xs d1 g1 ∧ (cfg.running = true → c0.cdw = g1.cdw)) := by
  obtain ⟨d1, g1, hcx, hc0⟩ := conformingLinkTo_append cfg id0 xs [x0] [] {} done' st' hc
  obtain ⟨s1, hrun, hinv, hrel⟩ := conforming_its_run_to cfg hits hst htp id0 xs [] (LinkSt.init cfg) {} d1 g1
    ⟨by simp [LinkSt.init, hver], fun _ => C10.init_inv⟩ ⟨Or.inl rfl, fun _ => rfl⟩ hcx
  obtain ⟨h1, h2, h3, h4, h5, h6, _, g2, h8, _⟩ := hc0
  obtain ⟨s2, hstep0, _, _⟩ := conforming_its_step cfg hits hst htp id0 d1 s1 g1 g2 hinv hrel x0 h1 h2 h3 h4 h5 h6 h8
  have hwl := payload_words cfg.running _ g1 g2 x0.pl h8
  have hcut0 : cutPayload x0.packet.payload = some (pre ++ o :: post) := by
    have := cut_payload cfg.running _ g1 g2 x0.pl h8 x0.fmt0 x0.pad h6
    rw [hw0] at this
    simpa [PktSpec.packet, PktSpec.payloadBytes, hw0] using this
  have holen : o.length = 10 := (hwl o (by simp [hw0])).1
  have hprelen : ∀ a ∈ pre, a.length = 10 := fun a ha => (hwl a (by simp [hw0, ha])).1
  have hne0 : x0.packet.payload.isEmpty = false := by
    cases hpre : pre with
    | nil => exact enc_nonempty x0 o post (by simp [hw0, hpre]) holen
    | cons a as => exact enc_nonempty x0 a (as ++ o :: post) (by simp [hw0, hpre]) (hwl a (by simp [hw0, hpre])).1
  obtain ⟨sB, mB, hB, hsubB⟩ := linkStep_words cfg hits hst s1 x0.packet _ hne0 hcut0 s2 [] hstep0
  have hmB : mB = [] := by
    cases mB with
    | nil => rfl
    | cons m _ => exact absurd (hsubB m (by simp)) (by simp)
  subst hmB
  obtain ⟨sK, mK, sW, mW, mR, hK, hO, _, hnil⟩ := checkWords_split cfg pre o post _ sB [] hB
  obtain ⟨hmK, hmWR⟩ := List.append_eq_nil_iff.mp hnil.symm
  obtain ⟨hmW, _⟩ := List.append_eq_nil_iff.mp hmWR
  subst hmK; subst hmW
  rw [linkRun_snoc cfg _ p _ s1 [] hrun] at h
  cases hstep : linkStep cfg s1 p with
  | error e => simp [hstep] at h
  | ok r2 =>
    obtain ⟨s2', m2⟩ := r2
    simp only [hstep, List.nil_append, Except.ok.injEq, Prod.mk.injEq] at h
    obtain ⟨_, rfl⟩ := h
    obtain ⟨sB', mB', hB', hsub⟩ := linkStep_words cfg hits hst s1 p _ hne hcut s2' m2 hstep
    obtain ⟨sK', mK', sW', mW', mR', hK', hW', _, hms⟩ := checkWords_split cfg pre w post' _ sB' mB' hB'
    have hstart : startCdp s1.cdp p.offset p.rdh = startCdp s1.cdp x0.packet.offset x0.packet.rdh := by
      simp [PktSpec.packet, hoff, hrdh]
    rw [hstart, hK] at hK'
    simp only [Except.ok.injEq, Prod.mk.injEq] at hK'
    obtain ⟨rfl, _⟩ := hK'
    obtain ⟨t1, t2, t3⟩ := checkWords_tracker cfg pre _ sK [] hK
    refine ⟨s1.cdp, sK, sW, sW', mW', by rw [hstart]; exact hK, hO, hW', ?_, holen, hprelen, ?_, ?_, ⟨d1, g1, hcx, hrel.cdw⟩⟩
    · intro m hm; exact hsub m (by rw [hms]; simp [hm])
    · simp only [stepped, CdpSt.wordPos, t1, t2, t3, startCdp, C07.slotOf, PktSpec.packet, hoff, hrdh]
      simp
    · intro hf
      have hfsm := hrel.fsm
      cases hbw : g1.bw with
      | fresh => rw [hbw] at hfsm; rcases hfsm with h | h <;> rw [h] at hf <;> cases hf
      | closed => rw [hbw] at hfsm; rcases hfsm with h | h <;> rw [h] at hf <;> cases hf
      | open_ oT => rw [hbw] at hfsm; exact ⟨oT, hfsm.2⟩


theorem checkWords_rdh (cfg : CheckCfg) (ws : List Bytes) : ∀ (s s' : CdpSt) (ms : List Msg),
    checkWords cfg s ws = .ok (s', ms) → s'.rdh = s.rdh := by
  induction ws with
  | nil => intro s s' ms h; simp only [checkWords, Except.ok.injEq, Prod.mk.injEq] at h; obtain ⟨rfl, _⟩ := h; rfl
  | cons w ws ih =>
    intro s s' ms h
    simp only [checkWords] at h
    cases h1 : checkWord cfg s w with
    | error e => simp [h1] at h
    | ok r1 =>
      obtain ⟨s1, m1⟩ := r1
      simp only [h1] at h
      cases h2 : checkWords cfg s1 ws with
      | error e => simp [h2] at h
      | ok r2 =>
        obtain ⟨s2, m2⟩ := r2
        simp only [h2, Except.ok.injEq, Prod.mk.injEq] at h
        obtain ⟨rfl, _⟩ := h
        rw [ih s1 s2 m2 h2, (checkWord_fsm_rdh cfg s w s1 m1 h1).2]

/-- the TDH a later TDH of the payload is compared with: the last word before it that carries the
    TDH identifier, else the link's stored TDH (the open packet's TDH on a continuation page) -/
def governingTdh (init : Option Bytes) (pre : List Bytes) : Option Bytes :=
  pre.foldl (fun acc w => if wordId w = ID_TDH then some w else acc) init

theorem quiet_tdh_class_iff (cfg : CheckCfg) (s : CdpSt) (o : Bytes) (hlen : o.length = 10) (s' : CdpSt)
    (h : checkWord cfg s o = .ok (s', [])) :
    (fsmAdvance s.fsm o).2 ∈ [WordClass.tdh, .tdhCont, .tdhAfterPacketDone, .errTdhOrDdw0] ↔ wordId o = ID_TDH := by
  have hq := quiet_class cfg s o hlen s' h
  constructor
  · intro hc
    simp only [List.mem_cons, List.not_mem_nil, or_false] at hc
    rcases hc with hc | hc | hc | hc <;> rw [hc] at hq
    · exact tdhSane_id o hq
    · exact tdhSane_id o hq
    · exact tdhSane_id o hq
    · exact hq.elim
  · intro hid
    have := quiet_status_class cfg s o hlen s' h .tdh hid
    simp only [StatusKind.classes, List.mem_cons, List.not_mem_nil, or_false] at this
    simp only [List.mem_cons, List.not_mem_nil, or_false]
    rcases this with h1 | h1 | h1 <;> simp [h1]

theorem quiet_governing_tdh (cfg : CheckCfg) (pre : List Bytes) : ∀ (s sK : CdpSt),
    (∀ w ∈ pre, w.length = 10) → checkWords cfg s pre = .ok (sK, []) → sK.tdh = governingTdh s.tdh pre := by
  induction pre with
  | nil =>
    intro s sK _ h
    simp only [checkWords, Except.ok.injEq, Prod.mk.injEq] at h
    obtain ⟨rfl, _⟩ := h
    rfl
  | cons w ws ih =>
    intro s sK hl h
    simp only [checkWords] at h
    cases h1 : checkWord cfg s w with
    | error e => simp [h1] at h
    | ok r1 =>
      obtain ⟨s1, m1⟩ := r1
      simp only [h1] at h
      cases h2 : checkWords cfg s1 ws with
      | error e => simp [h2] at h
      | ok r2 =>
        obtain ⟨s2, m2⟩ := r2
        simp only [h2, Except.ok.injEq, Prod.mk.injEq] at h
        obtain ⟨rfl, hm⟩ := h
        obtain ⟨hm1, hm2⟩ := List.append_eq_nil_iff.mp hm
        subst hm1; subst hm2
        have hw := checkWord_tdh cfg s w s1 [] h1
        have hiff := quiet_tdh_class_iff cfg s w (hl w (by simp)) s1 h1
        rw [ih s1 s2 (fun x hx => hl x (by simp [hx])) h2, hw]
        simp only [governingTdh, List.foldl_cons]
        by_cases hid : wordId w = ID_TDH
        · simp [hid, hiff.mpr hid]
        · have : ¬ ((fsmAdvance s.fsm w).2 ∈ [WordClass.tdh, .tdhCont, .tdhAfterPacketDone, .errTdhOrDdw0]) := fun hc => hid (hiff.mp hc)
          simp [hid, this]

/-! in-state rules (valid in every validator state) -/

theorem mkErr_preTdh (cfg : CheckCfg) (t : CdpSt) (w : Bytes) (c : String) :
    mkErr (preTdh cfg t w).1 c w = mkErr t c w := by
  unfold preTdh; simp only; split <;> rfl

theorem tdh_first_copies (cfg : CheckCfg) (hrun : cfg.running = true) (s : CdpSt) (w : Bytes)
    (hcls : (fsmAdvance s.fsm w).2 = .tdh) (hpage : s.rdh.pagesCounter = 0)
    (htrig : tdhInternal w = 1 ∨ s.rdh.isPht = true)
    (s' : CdpSt) (ms : List Msg) (h : checkWord cfg s w = .ok (s', ms)) :
    (tdhBc w ≠ s.rdh.bc → mkErr (stepped s w) "E445" w ∈ ms) ∧
    (s.rdh.triggerType % 4096 ≠ tdhTriggerType w → mkErr (stepped s w) "E44" w ∈ ms) := by
  rcases hadv : fsmAdvance s.fsm w with ⟨st', cls⟩
  rw [hadv] at hcls; subst hcls
  simp only [stepped, hadv]
  simp only [checkWord, hadv, hrun, ↓reduceIte, Except.ok.injEq, Prod.mk.injEq] at h
  obtain ⟨_, rfl⟩ := h
  have hr : (preTdh cfg { s with wordCount := s.wordCount + 1, fsm := st' } w).1.rdh = s.rdh := by
    unfold preTdh; simp only; split <;> rfl
  have hcond : ((s.rdh.pagesCounter == 0) && (tdhInternal w == 1 || s.rdh.isPht)) = true := by
    rcases htrig with ht | ht <;> simp [hpage, ht]
  constructor
  · intro hb
    have : (tdhBc w != s.rdh.bc) = true := by simp [hb]
    simp [tdhNoContinuationChecks, hr, hcond, this, mkErr_preTdh]
  · intro ht
    have : (s.rdh.triggerType % 4096 != tdhTriggerType w) = true := by simp [ht]
    simp [tdhNoContinuationChecks, hr, hcond, this, mkErr_preTdh]

theorem tdh_bc_decreasing (cfg : CheckCfg) (hrun : cfg.running = true) (s : CdpSt) (w prev : Bytes)
    (hcls : (fsmAdvance s.fsm w).2 = .tdhAfterPacketDone) (hprev : s.tdh = some prev) (hbc : tdhBc w < tdhBc prev)
    (s' : CdpSt) (ms : List Msg) (h : checkWord cfg s w = .ok (s', ms)) :
    mkErr (stepped s w) "E440" w ∈ ms := by
  rcases hadv : fsmAdvance s.fsm w with ⟨st', cls⟩
  rw [hadv] at hcls; subst hcls
  simp only [stepped, hadv]
  simp only [checkWord, hadv, hrun, Bool.not_true, Bool.false_eq_true, ↓reduceIte, Except.ok.injEq, Prod.mk.injEq] at h
  obtain ⟨_, rfl⟩ := h
  have hp : (preTdh cfg { s with wordCount := s.wordCount + 1, fsm := st' } w).1.prevTdh = some prev := by
    unfold preTdh replaceTdh; simp only; split <;> exact hprev
  simp [hp, hbc, mkErr_preTdh]

theorem tdh_cont_copies (cfg : CheckCfg) (hrun : cfg.running = true) (s : CdpSt) (w prev : Bytes)
    (hcls : (fsmAdvance s.fsm w).2 = .tdhCont) (hprev : s.tdh = some prev)
    (s' : CdpSt) (ms : List Msg) (h : checkWord cfg s w = .ok (s', ms)) :
    (tdhBc w ≠ tdhBc prev → mkErr (stepped s w) "E441" w ∈ ms) ∧
    (tdhOrbit w ≠ tdhOrbit prev → mkErr (stepped s w) "E442" w ∈ ms) ∧
    (tdhTriggerType w ≠ tdhTriggerType prev → mkErr (stepped s w) "E443" w ∈ ms) := by
  rcases hadv : fsmAdvance s.fsm w with ⟨st', cls⟩
  rw [hadv] at hcls; subst hcls
  simp only [stepped, hadv]
  simp only [checkWord, hadv, hrun, ↓reduceIte, Except.ok.injEq, Prod.mk.injEq] at h
  obtain ⟨_, rfl⟩ := h
  have hp : (preTdh cfg { s with wordCount := s.wordCount + 1, fsm := st' } w).1.prevTdh = some prev := by
    unfold preTdh replaceTdh; simp only; split <;> exact hprev
  refine ⟨?_, ?_, ?_⟩
  · intro hb
    have : (tdhBc w != tdhBc prev) = true := by simp [hb]
    simp [tdhContinuationChecks, hp, this, mkErr_preTdh]
  · intro hb
    have : (tdhOrbit w != tdhOrbit prev) = true := by simp [hb]
    simp [tdhContinuationChecks, hp, this, mkErr_preTdh]
  · intro hb
    have : (tdhTriggerType w != tdhTriggerType prev) = true := by simp [hb]
    simp [tdhContinuationChecks, hp, this, mkErr_preTdh]


/-! state-machine facts used to place the TDH classes -/
theorem class_tdh_state (st : FsmSt) (id : Nat) (nd pd : Bool) :
    ((fsmStep st id nd pd).2 = .tdh → st = .tdhByWasIhw) ∧ ((fsmStep st id nd pd).2 = .tdhCont → st = .cTdhByNext) := by
  cases st <;> constructor <;> intro h <;> (try rfl) <;> simp only [fsmStep] at h <;> (repeat' split at h) <;> simp_all

theorem next_after_tdt_tdh (st : FsmSt) (id : Nat) (nd pd : Bool)
    (h : (fsmStep st id nd pd).2 ∈ [WordClass.tdt, .tdh, .tdhCont, .tdhAfterPacketDone]) :
    (fsmStep st id nd pd).1 ≠ .tdhByWasIhw ∧ (fsmStep st id nd pd).1 ≠ .cTdhByNext := by
  cases st <;> simp only [fsmStep] at h ⊢ <;> (repeat' split) <;> simp_all

theorem next_after_ihw (st : FsmSt) (id : Nat) (nd pd : Bool) :
    ((fsmStep st id nd pd).2 = .ihw → (fsmStep st id nd pd).1 = .tdhByWasIhw) ∧
    ((fsmStep st id nd pd).2 = .ihwCont → (fsmStep st id nd pd).1 = .cTdhByNext ∧ st = .cIhwByTdtFalse) := by
  cases st <;> simp only [fsmStep] <;> constructor <;> intro h <;> first | (simp; done) | (revert h; (repeat' split) <;> simp)

theorem tdh_id_class_in (st : FsmSt) (nd pd : Bool) :
    (st = .tdhByWasIhw → (fsmStep st ID_TDH nd pd).2 = .tdh) ∧ (st = .cTdhByNext → (fsmStep st ID_TDH nd pd).2 = .tdhCont) := by
  constructor <;> intro h <;> subst h <;> simp [fsmStep]


/-- **bunch-counter order at any depth** (`check all`): in a conforming packet take a TDH `o` that
    is not the first word after the IHW (the word before it is a TDT or a TDH: a closed packet or a
    trigger without data precedes it). Replace it by a TDH `w` (same identifier and flag bits) whose
    bunch counter is *below* that of the previous TDH of the payload: [E440] at the word's offset. -/
theorem tdh_bc_order_at_any_depth (cfg : CheckCfg) (hits : cfg.itsChecks = true) (hst : cfg.stave = false)
    (htp : cfg.triggerPeriod = none) (hver : cfg.customRdhVersion = none) (hrun : cfg.running = true)
    (id0 : Nat) (xs : List PktSpec) (x0 : PktSpec) (done' : List Rdh) (st' : LSt)
    (hc : ConformingLinkTo cfg id0 [] {} (xs ++ [x0]) done' st')
    (pre0 : List Bytes) (l o : Bytes) (post : List Bytes) (hw0 : x0.pl.words = (pre0 ++ [l]) ++ o :: post)
    (hl : wordId l = ID_TDT ∨ wordId l = ID_TDH) (hk : wordId o = ID_TDH)
    (p : Packet) (hoff : p.offset = x0.offset) (hrdh : p.rdh = decodeRdh x0.hdr)
    (w : Bytes) (post' : List Bytes)
    (hne : p.payload.isEmpty = false) (hcut : cutPayload p.payload = some ((pre0 ++ [l]) ++ w :: post'))
    (hid : wordId w = wordId o) (hnd : tdhNoData w = tdhNoData o) (hpd : tdtPacketDone w = tdtPacketDone o)
    (prev : Bytes) (hprev : governingTdh none (pre0 ++ [l]) = some prev) (hbc : tdhBc w < tdhBc prev)
    (sf : LinkSt) (ms : List Msg)
    (h : linkRun cfg (LinkSt.init cfg) (xs.map PktSpec.packet ++ [p]) = .ok (sf, ms)) :
    Msg.error { offset := p.offset + 64 + (pre0.length + 1) * C07.slotOf p.rdh, code := "E440", word := some w } ∈ ms := by
  obtain ⟨c0, sK, sW, sW', mW', hK, hO, hW', hsub, holen, hprelen, hpos, _⟩ :=
    depth_setup cfg hits hst htp hver id0 xs x0 done' st' hc (pre0 ++ [l]) o post hw0 p hoff hrdh w post' hne hcut sf ms h
  -- the state after the word before `o`
  rw [checkWords_append] at hK
  cases hA : checkWords cfg (startCdp c0 p.offset p.rdh) pre0 with
  | error e => simp [hA] at hK
  | ok rA =>
    obtain ⟨sA, mA⟩ := rA
    simp only [hA, checkWords] at hK
    cases hL : checkWord cfg sA l with
    | error e => simp [hL] at hK
    | ok rL =>
      obtain ⟨sL, mL⟩ := rL
      simp only [hL, Except.ok.injEq, Prod.mk.injEq] at hK
      obtain ⟨rfl, hm⟩ := hK
      obtain ⟨hmA, hmL⟩ := List.append_eq_nil_iff.mp hm
      simp only [List.append_nil] at hmL
      subst hmA; subst hmL
      have hllen : l.length = 10 := hprelen l (by simp)
      have hlcls : (fsmAdvance sA.fsm l).2 ∈ [WordClass.tdt, .tdh, .tdhCont, .tdhAfterPacketDone] := by
        rcases hl with hl | hl
        · have := quiet_status_class cfg sA l hllen sL hL .tdt hl
          simp only [StatusKind.classes, List.mem_cons, List.not_mem_nil, or_false] at this
          simp [this]
        · have := quiet_status_class cfg sA l hllen sL hL .tdh hl
          simp only [StatusKind.classes, List.mem_cons, List.not_mem_nil, or_false] at this
          rcases this with h1 | h1 | h1 <;> simp [h1]
      have hnext := next_after_tdt_tdh sA.fsm (wordId l) (tdhNoData l == 1) (tdtPacketDone l) hlcls
      have hfsm : sL.fsm = (fsmAdvance sA.fsm l).1 := (checkWord_fsm_rdh cfg sA l sL [] hL).1
      -- hence `o` (a quiet TDH) was taken as TDH-after-packet-done, and so is `w`
      have hocls := quiet_status_class cfg sL o holen sW hO .tdh hk
      simp only [StatusKind.classes, List.mem_cons, List.not_mem_nil, or_false] at hocls
      have hcls0 : (fsmAdvance sL.fsm o).2 = .tdhAfterPacketDone := by
        rcases hocls with h1 | h1 | h1
        · have := (class_tdh_state sL.fsm _ _ _).1 h1; rw [hfsm] at this; exact absurd this hnext.1
        · have := (class_tdh_state sL.fsm _ _ _).2 h1; rw [hfsm] at this; exact absurd this hnext.2
        · exact h1
      have hcls : (fsmAdvance sL.fsm w).2 = .tdhAfterPacketDone := by
        rw [same_shape_same_class sL.fsm w o hid hnd hpd]; exact hcls0
      have hK2 : checkWords cfg (startCdp c0 p.offset p.rdh) (pre0 ++ [l]) = .ok (sL, []) := by
        rw [checkWords_append, hA]; simp [checkWords, hL]
      have htdh : sL.tdh = some prev := by
        have := quiet_governing_tdh cfg (pre0 ++ [l]) _ sL hprelen hK2
        have hfold : ∀ (ls : List Bytes) (a : Option Bytes), governingTdh none ls = some prev → governingTdh a ls = some prev := by
          intro ls
          induction ls with
          | nil => intro a h2; simp [governingTdh] at h2
          | cons x ls ihl =>
            intro a h2
            simp only [governingTdh, List.foldl_cons] at h2 ⊢
            by_cases hx : wordId x = ID_TDH
            · simp only [hx, ↓reduceIte] at h2 ⊢; exact h2
            · simp only [hx, ↓reduceIte] at h2 ⊢; exact ihl _ h2
        rw [this]; exact hfold _ _ hprev
      have hin := hsub _ (tdh_bc_decreasing cfg hrun sL w prev hcls htdh hbc sW' mW' hW')
      have hlen' : (pre0 ++ [l]).length = pre0.length + 1 := by simp
      rw [hlen'] at hpos
      simpa [mkErr, hpos] using hin


/-- the state in which the word after the page's IHW is examined -/
theorem after_first_ihw (cfg : CheckCfg) (c0 : CdpSt) (off : Nat) (r : Rdh) (i : Bytes) (hi : wordId i = ID_IHW)
    (hilen : i.length = 10) (sK : CdpSt) (hK : checkWords cfg (startCdp c0 off r) [i] = .ok (sK, [])) :
    sK.rdh = r ∧ sK.tdh = c0.tdh ∧
    (sK.fsm = .tdhByWasIhw ∨ (sK.fsm = .cTdhByNext ∧ c0.fsm = .cIhwByTdtFalse)) := by
  simp only [checkWords] at hK
  cases hI : checkWord cfg (startCdp c0 off r) i with
  | error e => simp [hI] at hK
  | ok rI =>
    obtain ⟨sI, mI⟩ := rI
    simp only [hI, List.append_nil, Except.ok.injEq, Prod.mk.injEq] at hK
    obtain ⟨rfl, rfl⟩ := hK
    obtain ⟨hf, hr⟩ := checkWord_fsm_rdh cfg _ i sI [] hI
    have hcls := (quiet_ihw_class_iff cfg _ i hilen sI hI).mpr hi
    have ht := checkWord_tdh cfg _ i sI [] hI
    have hnot : ¬ ((fsmAdvance (startCdp c0 off r).fsm i).2 ∈ [WordClass.tdh, .tdhCont, .tdhAfterPacketDone, .errTdhOrDdw0]) := by
      rcases hcls with h1 | h1 <;> simp [h1]
    simp only [hnot, ↓reduceIte] at ht
    refine ⟨by rw [hr]; rfl, by rw [ht]; rfl, ?_⟩
    rcases hcls with h1 | h1
    · left; rw [hf]; exact (next_after_ihw _ _ _ _).1 h1
    · right; rw [hf]; exact (next_after_ihw _ _ _ _).2 h1

/-- **first TDH of page 0: copies of the RDH** (`check all`): the TDH directly after the IHW that
    opens a new packet (continuation bit 0) on page 0 of an internally or physics triggered HBF,
    replaced by a TDH whose bunch counter / trigger bits differ from the RDH's: [E445] / [E44] -/
theorem tdh_first_copies_after_conforming_prefix (cfg : CheckCfg) (hits : cfg.itsChecks = true) (hst : cfg.stave = false)
    (htp : cfg.triggerPeriod = none) (hver : cfg.customRdhVersion = none) (hrun : cfg.running = true)
    (id0 : Nat) (xs : List PktSpec) (x0 : PktSpec) (done' : List Rdh) (st' : LSt)
    (hc : ConformingLinkTo cfg id0 [] {} (xs ++ [x0]) done' st')
    (i o : Bytes) (post : List Bytes) (hw0 : x0.pl.words = [i] ++ o :: post)
    (hi : wordId i = ID_IHW) (hk : wordId o = ID_TDH) (hoc : tdhContinuation o = 0)
    (p : Packet) (hoff : p.offset = x0.offset) (hrdh : p.rdh = decodeRdh x0.hdr)
    (w : Bytes) (post' : List Bytes)
    (hne : p.payload.isEmpty = false) (hcut : cutPayload p.payload = some ([i] ++ w :: post'))
    (hid : wordId w = wordId o) (hnd : tdhNoData w = tdhNoData o) (hpd : tdtPacketDone w = tdtPacketDone o)
    (hpage : p.rdh.pagesCounter = 0) (htrig : tdhInternal w = 1 ∨ p.rdh.isPht = true)
    (sf : LinkSt) (ms : List Msg)
    (h : linkRun cfg (LinkSt.init cfg) (xs.map PktSpec.packet ++ [p]) = .ok (sf, ms)) :
    let at1 := p.offset + 64 + C07.slotOf p.rdh
    (tdhBc w ≠ p.rdh.bc → Msg.error { offset := at1, code := "E445", word := some w } ∈ ms) ∧
    (p.rdh.triggerType % 4096 ≠ tdhTriggerType w → Msg.error { offset := at1, code := "E44", word := some w } ∈ ms) := by
  obtain ⟨c0, sK, sW, sW', mW', hK, hO, hW', hsub, holen, hprelen, hpos, _⟩ :=
    depth_setup cfg hits hst htp hver id0 xs x0 done' st' hc [i] o post hw0 p hoff hrdh w post' hne hcut sf ms h
  obtain ⟨hr, _, hfsm⟩ := after_first_ihw cfg c0 p.offset p.rdh i hi (hprelen i (by simp)) sK hK
  -- a quiet TDH with continuation 0 under the stateful checks is not a continuation TDH
  have hcls0 : (fsmAdvance sK.fsm o).2 = .tdh := by
    rcases hfsm with h1 | ⟨h1, _⟩
    · have := (tdh_id_class_in sK.fsm (tdhNoData o == 1) (tdtPacketDone o)).1 h1
      simpa [fsmAdvance, hk] using this
    · have hc2 := (tdh_id_class_in sK.fsm (tdhNoData o == 1) (tdtPacketDone o)).2 h1
      have hc3 : (fsmAdvance sK.fsm o).2 = .tdhCont := by simpa [fsmAdvance, hk] using hc2
      have := tdh_continuation_rule cfg hrun sK o hc3 (by rw [hoc]; decide) sW [] hO
      simp at this
  have hcls : (fsmAdvance sK.fsm w).2 = .tdh := by rw [same_shape_same_class sK.fsm w o hid hnd hpd]; exact hcls0
  obtain ⟨r1, r2⟩ := tdh_first_copies cfg hrun sK w hcls (by rw [hr]; exact hpage) (by rw [hr]; exact htrig) sW' mW' hW'
  have hpos' : (stepped sK w).wordPos = p.offset + 64 + C07.slotOf p.rdh := by simpa using hpos
  simp only
  constructor
  · intro hb
    have := hsub _ (r1 (by rw [hr]; exact hb))
    simpa [mkErr, hpos'] using this
  · intro hb
    have := hsub _ (r2 (by rw [hr]; exact hb))
    simpa [mkErr, hpos'] using this

/-- in-state: a continuation TDH processed without a message copies the open packet's TDH -/
theorem cont_quiet_copies (cfg : CheckCfg) (hrun : cfg.running = true) (s : CdpSt) (o prev : Bytes)
    (hcls : (fsmAdvance s.fsm o).2 = .tdhCont) (hprev : s.tdh = some prev) (s' : CdpSt)
    (h : checkWord cfg s o = .ok (s', [])) :
    tdhBc o = tdhBc prev ∧ tdhOrbit o = tdhOrbit prev ∧ tdhTriggerType o = tdhTriggerType prev := by
  obtain ⟨r1, r2, r3⟩ := tdh_cont_copies cfg hrun s o prev hcls hprev s' [] h
  refine ⟨?_, ?_, ?_⟩
  · cases hd : decide (tdhBc o = tdhBc prev) with
    | true => exact of_decide_eq_true hd
    | false => have := r1 (of_decide_eq_false hd); simp at this
  · cases hd : decide (tdhOrbit o = tdhOrbit prev) with
    | true => exact of_decide_eq_true hd
    | false => have := r2 (of_decide_eq_false hd); simp at this
  · cases hd : decide (tdhTriggerType o = tdhTriggerType prev) with
    | true => exact of_decide_eq_true hd
    | false => have := r3 (of_decide_eq_false hd); simp at this

/-- **continuation TDH: copies of the open packet's TDH** (`check all`): the TDH directly after
    the IHW of a page that continues an open packet (continuation bit 1), replaced by a TDH whose
    bunch counter / orbit / trigger bits differ from the conforming original — which carries those
    of the packet's opening TDH — gives [E441] / [E442] / [E443] at its offset -/
theorem tdh_cont_copies_after_conforming_prefix (cfg : CheckCfg) (hits : cfg.itsChecks = true) (hst : cfg.stave = false)
    (htp : cfg.triggerPeriod = none) (hver : cfg.customRdhVersion = none) (hrun : cfg.running = true)
    (id0 : Nat) (xs : List PktSpec) (x0 : PktSpec) (done' : List Rdh) (st' : LSt)
    (hc : ConformingLinkTo cfg id0 [] {} (xs ++ [x0]) done' st')
    (i o : Bytes) (post : List Bytes) (hw0 : x0.pl.words = [i] ++ o :: post)
    (hi : wordId i = ID_IHW) (hk : wordId o = ID_TDH) (hoc : tdhContinuation o = 1)
    (p : Packet) (hoff : p.offset = x0.offset) (hrdh : p.rdh = decodeRdh x0.hdr)
    (w : Bytes) (post' : List Bytes)
    (hne : p.payload.isEmpty = false) (hcut : cutPayload p.payload = some ([i] ++ w :: post'))
    (hid : wordId w = wordId o) (hnd : tdhNoData w = tdhNoData o) (hpd : tdtPacketDone w = tdtPacketDone o)
    (sf : LinkSt) (ms : List Msg)
    (h : linkRun cfg (LinkSt.init cfg) (xs.map PktSpec.packet ++ [p]) = .ok (sf, ms)) :
    let at1 := p.offset + 64 + C07.slotOf p.rdh
    (tdhBc w ≠ tdhBc o → Msg.error { offset := at1, code := "E441", word := some w } ∈ ms) ∧
    (tdhOrbit w ≠ tdhOrbit o → Msg.error { offset := at1, code := "E442", word := some w } ∈ ms) ∧
    (tdhTriggerType w ≠ tdhTriggerType o → Msg.error { offset := at1, code := "E443", word := some w } ∈ ms) := by
  obtain ⟨c0, sK, sW, sW', mW', hK, hO, hW', hsub, holen, hprelen, hpos, hopen, _⟩ :=
    depth_setup cfg hits hst htp hver id0 xs x0 done' st' hc [i] o post hw0 p hoff hrdh w post' hne hcut sf ms h
  obtain ⟨hr, htdh, hfsm⟩ := after_first_ihw cfg c0 p.offset p.rdh i hi (hprelen i (by simp)) sK hK
  -- a quiet TDH with continuation 1 under the stateful checks is a continuation TDH
  have hst2 : sK.fsm = .cTdhByNext ∧ c0.fsm = .cIhwByTdtFalse := by
    rcases hfsm with h1 | h1
    · have hc2 := (tdh_id_class_in sK.fsm (tdhNoData o == 1) (tdtPacketDone o)).1 h1
      have hc3 : (fsmAdvance sK.fsm o).2 = .tdh := by simpa [fsmAdvance, hk] using hc2
      have := (tdh_after_ihw_rules cfg hrun sK o hc3 sW [] hO).1 (by rw [hoc]; decide)
      simp at this
    · exact h1
  have hcls0 : (fsmAdvance sK.fsm o).2 = .tdhCont := by
    have := (tdh_id_class_in sK.fsm (tdhNoData o == 1) (tdtPacketDone o)).2 hst2.1
    simpa [fsmAdvance, hk] using this
  have hcls : (fsmAdvance sK.fsm w).2 = .tdhCont := by rw [same_shape_same_class sK.fsm w o hid hnd hpd]; exact hcls0
  obtain ⟨oT, hoT⟩ := hopen hst2.2
  have hprev : sK.tdh = some oT := by rw [htdh]; exact hoT
  obtain ⟨q1, q2, q3⟩ := cont_quiet_copies cfg hrun sK o oT hcls0 hprev sW hO
  obtain ⟨r1, r2, r3⟩ := tdh_cont_copies cfg hrun sK w oT hcls hprev sW' mW' hW'
  have hpos' : (stepped sK w).wordPos = p.offset + 64 + C07.slotOf p.rdh := by simpa using hpos
  simp only
  refine ⟨?_, ?_, ?_⟩
  · intro hb
    have := hsub _ (r1 (by rw [← q1]; exact hb))
    simpa [mkErr, hpos'] using this
  · intro hb
    have := hsub _ (r2 (by rw [← q2]; exact hb))
    simpa [mkErr, hpos'] using this
  · intro hb
    have := hsub _ (r3 (by rw [← q3]; exact hb))
    simpa [mkErr, hpos'] using this


namespace ExDepth
open C01.Ex
/-- in `page0` the no-data TDH (BC 9) at word index 6 follows the TDT that closes the first packet, whose TDH has BC 5 -/
example : page0.words = ([ihw, tdh, cdw, data, data] ++ [tdtDone]) ++ C01.Ex.tdhNoData :: [tdhOpen, data, tdtOpen] := by decide
example : governingTdh none ([ihw, tdh, cdw, data, data] ++ [tdtDone]) = some tdh := by decide
example : wordId tdtDone = ID_TDT ∧ wordId C01.Ex.tdhNoData = ID_TDH ∧ tdhBc tdh = 5 ∧ tdhBc C01.Ex.tdhNoData = 9 := by decide
/-- the same TDH with BC 3 (< 5): same identifier and flags -/
def lowBcTdh : Bytes := [0x10, 0x20, 0x03, 0x00, 7, 0, 0, 0, 0, 0xE8]
example : wordId lowBcTdh = wordId C01.Ex.tdhNoData ∧ tdhNoData lowBcTdh = tdhNoData C01.Ex.tdhNoData ∧
    tdtPacketDone lowBcTdh = tdtPacketDone C01.Ex.tdhNoData ∧ tdhBc lowBcTdh < tdhBc tdh := by decide
/-- `page1` starts with IHW + the continuation TDH of the open packet -/
example : page1.words = [ihw] ++ tdhCont :: [data, data, tdtDone, tdhOpen, tdtDone] ∧ tdhContinuation tdhCont = 1 ∧ tdhContinuation tdh = 0 := by decide
end ExDepth


/-! ### the calibration-word index rule [E81] behind a conforming prefix -/

/-- a word taken as IHW or TDH leaves the stored CDW and the start-of-data flag alone -/
theorem checkWord_keeps_cdw (cfg : CheckCfg) (s : CdpSt) (w : Bytes) (s' : CdpSt) (ms : List Msg)
    (h : checkWord cfg s w = .ok (s', ms))
    (hcls : (fsmAdvance s.fsm w).2 ∈ [WordClass.ihw, .ihwCont, .tdh, .tdhCont, .tdhAfterPacketDone]) :
    s'.cdw = s.cdw ∧ s'.startOfData = s.startOfData := by
  rcases hadv : fsmAdvance s.fsm w with ⟨st', cls⟩
  rw [hadv] at hcls
  have hpt : ∀ t : CdpSt, (preTdh cfg t w).1.cdw = t.cdw ∧ (preTdh cfg t w).1.startOfData = t.startOfData := by
    intro t; unfold preTdh replaceTdh; simp only; split <;> exact ⟨rfl, rfl⟩
  cases cls <;> simp only [checkWord, hadv] at h <;> simp only [List.mem_cons, List.not_mem_nil, reduceCtorEq, or_self, or_false] at hcls
  case ihw => simp only [preIhw, Except.ok.injEq, Prod.mk.injEq] at h; obtain ⟨rfl, _⟩ := h; exact ⟨rfl, rfl⟩
  case ihwCont => simp only [preIhw, Except.ok.injEq, Prod.mk.injEq] at h; obtain ⟨rfl, _⟩ := h; exact ⟨rfl, rfl⟩
  case tdh => simp only [Except.ok.injEq, Prod.mk.injEq] at h; obtain ⟨rfl, _⟩ := h; exact hpt _
  case tdhCont => simp only [Except.ok.injEq, Prod.mk.injEq] at h; obtain ⟨rfl, _⟩ := h; exact hpt _
  case tdhAfterPacketDone => simp only [Except.ok.injEq, Prod.mk.injEq] at h; obtain ⟨rfl, _⟩ := h; exact hpt _


/-- a calibration word processed without a message was taken as a CDW -/
theorem quiet_cdw_class (cfg : CheckCfg) (s : CdpSt) (o : Bytes) (hlen : o.length = 10) (s' : CdpSt)
    (h : checkWord cfg s o = .ok (s', [])) (hid : wordId o = ID_CDW) :
    (fsmAdvance s.fsm o).2 = .cdw := by
  have hq := quiet_class cfg s o hlen s' h
  have hdata : (fsmAdvance s.fsm o).2 = .dataWord → isFsmDataId (wordId o) = true := class_data_id _ _ _ _
  cases hcls : (fsmAdvance s.fsm o).2 <;> rw [hcls] at hq <;> simp only [] at hq
  all_goals first
    | rfl
    | (have := ihwSane_id o hq; rw [this] at hid; simp [ID_IHW, ID_CDW] at hid; done)
    | (have := tdhSane_id o hq; rw [this] at hid; simp [ID_TDH, ID_CDW] at hid; done)
    | (have := tdtSane_id o hq; rw [this] at hid; simp [ID_TDT, ID_CDW] at hid; done)
    | (have := ddw0Sane_id o hq; rw [this] at hid; simp [ID_DDW0, ID_CDW] at hid; done)
    | (have := hdata hcls; rw [hid] at this; simp [isFsmDataId, inRange, ID_CDW] at this; done)
    | exact hq.elim


/-- **the calibration-word index rule behind any conforming prefix** (`check all`): in a conforming packet whose first data-phase
    word (index 2, after IHW and TDH) is a CDW, replace that CDW by a CDW whose index is not 0 and whose user fields differ from
    the last CDW `prev` the link has sent in the conforming packets before — `[E81]` is reported at that word's offset, quoting it -/
theorem cdw_index_rule_after_conforming_prefix (cfg : CheckCfg) (hits : cfg.itsChecks = true) (hst : cfg.stave = false)
    (htp : cfg.triggerPeriod = none) (hver : cfg.customRdhVersion = none) (hrun : cfg.running = true)
    (id0 : Nat) (xs : List PktSpec) (x0 : PktSpec) (done' : List Rdh) (st' : LSt)
    (hc : ConformingLinkTo cfg id0 [] {} (xs ++ [x0]) done' st')
    (i t o : Bytes) (post : List Bytes) (hw0 : x0.pl.words = [i, t] ++ o :: post)
    (hi : wordId i = ID_IHW) (ht : wordId t = ID_TDH) (ho : wordId o = ID_CDW)
    (p : Packet) (hoff : p.offset = x0.offset) (hrdh : p.rdh = decodeRdh x0.hdr)
    (w : Bytes) (post' : List Bytes)
    (hne : p.payload.isEmpty = false) (hcut : cutPayload p.payload = some ([i, t] ++ w :: post'))
    (hid : wordId w = ID_CDW) (hnd : tdhNoData w = tdhNoData o) (hpd : tdtPacketDone w = tdtPacketDone o)
    (prev : Bytes) (hprev : ∀ d1 g1, ConformingLinkTo cfg id0 [] {} xs d1 g1 → g1.cdw = some prev)
    (huf : cdwUserFields prev ≠ cdwUserFields w) (hidx : cdwIndex w ≠ 0)
    (sf : LinkSt) (ms : List Msg)
    (h : linkRun cfg (LinkSt.init cfg) (xs.map PktSpec.packet ++ [p]) = .ok (sf, ms)) :
    Msg.error { offset := p.offset + 64 + 2 * C07.slotOf p.rdh, code := "E81", word := some w } ∈ ms := by
  obtain ⟨c0, sK, sW, sW', mW', hK, hO, hW', hsub, holen, hprelen, hpos, _, d1, g1, hcx, hcdw⟩ :=
    depth_setup cfg hits hst htp hver id0 xs x0 done' st' hc [i, t] o post hw0 p hoff hrdh w post' hne hcut sf ms h
  -- the two words in front (IHW, TDH) were processed without a message: they keep the stored CDW and the start-of-data flag
  simp only [checkWords] at hK
  cases h1 : checkWord cfg (startCdp c0 p.offset p.rdh) i with
  | error e => simp [h1] at hK
  | ok r1 =>
    obtain ⟨s1, m1⟩ := r1
    simp only [h1] at hK
    cases h2 : checkWord cfg s1 t with
    | error e => simp [h2] at hK
    | ok r2 =>
      obtain ⟨s2, m2⟩ := r2
      simp only [h2, List.append_nil, Except.ok.injEq, Prod.mk.injEq] at hK
      obtain ⟨rfl, hm⟩ := hK
      obtain ⟨hm1, hm2⟩ := List.append_eq_nil_iff.mp hm
      subst hm1; subst hm2
      have hc1 : (fsmAdvance (startCdp c0 p.offset p.rdh).fsm i).2 ∈ [WordClass.ihw, .ihwCont, .tdh, .tdhCont, .tdhAfterPacketDone] := by
        rcases (quiet_ihw_class_iff cfg _ i (hprelen i (by simp)) s1 h1).mpr hi with hh | hh <;> simp [hh]
      have hc2 : (fsmAdvance s1.fsm t).2 ∈ [WordClass.ihw, .ihwCont, .tdh, .tdhCont, .tdhAfterPacketDone] := by
        have hq2 := quiet_class cfg _ t (hprelen t (by simp)) s2 h2
        have hm := (quiet_tdh_class_iff cfg _ t (hprelen t (by simp)) s2 h2).mpr ht
        simp only [List.mem_cons, List.not_mem_nil, or_false] at hm
        rcases hm with hh | hh | hh | hh
        · simp [hh]
        · simp [hh]
        · simp [hh]
        · rw [hh] at hq2; exact hq2.elim
      obtain ⟨k1c, k1s⟩ := checkWord_keeps_cdw cfg _ i s1 [] h1 hc1
      obtain ⟨k2c, k2s⟩ := checkWord_keeps_cdw cfg _ t s2 [] h2 hc2
      have hsod : s2.startOfData = true := by rw [k2s, k1s]; rfl
      have hcdwK : s2.cdw = some prev := by
        rw [k2c, k1c]
        show c0.cdw = some prev
        rw [hcdw hrun]; exact hprev d1 g1 hcx
      -- the conforming CDW was taken as a CDW; the replacement has the same identifier and flag bits
      have hclso := quiet_cdw_class cfg s2 o holen sW hO ho
      have hclsw : (fsmAdvance s2.fsm w).2 = .cdw := by
        rw [same_shape_same_class s2.fsm w o (by rw [hid, ho]) hnd hpd]; exact hclso
      have hbad : (cdwUserFields prev != cdwUserFields w && cdwIndex w != 0) = true := by simp [huf, hidx]
      have hmem : mkErr (stepped s2 w) "E81" w ∈ mW' := by
        rcases hadv : fsmAdvance s2.fsm w with ⟨st', cls⟩
        rw [hadv] at hclsw
        simp only at hclsw
        subst hclsw
        have hst' : (stepped s2 w) = { s2 with wordCount := s2.wordCount + 1, fsm := st' } := by simp [stepped, hadv]
        simp only [checkWord, hadv, preData, hsod, hid, beq_self_eq_true, Bool.and_self, if_true, hrun, Bool.not_true,
          Bool.false_eq_true, if_false, hcdwK, hbad] at hW'
        simp only [Except.ok.injEq, Prod.mk.injEq] at hW'
        obtain ⟨_, rfl⟩ := hW'
        rw [hst']; simp [mkErr, CdpSt.wordPos]
      have := hsub _ hmem
      simpa [mkErr, hpos] using this



/-! ### tie by translation: the per-word handlers of `CdpRunningValidator` (cdp_running.rs → `Spec/LinkSrcGen.lean`) -/
/-- whenever the source validator `v` stands for the model state `s` (`SrcTie.Abs`: same running flag, same current word position,
    same header, same stored IHW / TDHs / TDT / DDW0 / CDW), each translated handler leaves it standing for the model's next state and
    has sent exactly the model's messages — same code, the tracker's word position, quoting the word:
    `preprocess_ihw` = `preIhw` ([E30]); `preprocess_ddw0` with `check_rdh_at_ddw0` = `preDdw0` ([E60], [E110], [E111] only with the
    stateful checks on); `process_cdw` = the calibration-word branch of `preData` ([E81] iff a CDW was stored, the user fields differ
    and the index is not 0; nothing and no store without the stateful checks); `check_rdh_at_initial_ihw` ([E12]),
    `check_tdh_no_continuation` ([E42]/[E444]/[E445]/[E44]), `check_tdh_continuation` ([E41]/[E441]/[E442]/[E443]) and
    `check_tdh_by_was_tdt_packet_done_true` ([E440]) = the model's lists for the TDH just stored -/
theorem word_handlers_src (cfg : CheckCfg) (v : SrcLink.CdpRunningValidator) (s : CdpSt) (c : SrcRdh.RdhCru) (w : Bytes)
    (h : SrcTie.Abs cfg v s c) :
    (SrcTie.Abs cfg (v.preprocess_ihw w).2 (preIhw s w).1 c ∧
      SrcTie.outMsgs (v.preprocess_ihw w).2.f_out = SrcTie.outMsgs v.f_out ++ (preIhw s w).2) ∧
    (SrcTie.Abs cfg (v.preprocess_ddw0 w).2 (preDdw0 cfg s w).1 c ∧
      SrcTie.outMsgs (v.preprocess_ddw0 w).2.f_out = SrcTie.outMsgs v.f_out ++ (preDdw0 cfg s w).2) ∧
    (SrcTie.Abs cfg (v.process_cdw w).2 (SrcTie.cdwStep cfg s w).1 c ∧
      SrcTie.outMsgs (v.process_cdw w).2.f_out = SrcTie.outMsgs v.f_out ++ (SrcTie.cdwStep cfg s w).2 ∧
      ((s.startOfData && wordId w == ID_CDW) = true →
        preData cfg s w = .ok ({ (SrcTie.cdwStep cfg s w).1 with startOfData := false }, (SrcTie.cdwStep cfg s w).2))) ∧
    (SrcTie.Abs cfg (v.check_rdh_at_initial_ihw w).2 s c ∧
      SrcTie.outMsgs (v.check_rdh_at_initial_ihw w).2.f_out =
        SrcTie.outMsgs v.f_out ++ (if s.rdh.stopBit != 0 then [mkErr s "E12" w] else [])) ∧
    (s.tdh = some w →
      (SrcTie.Abs cfg (v.check_tdh_no_continuation w).2 s c ∧
        SrcTie.outMsgs (v.check_tdh_no_continuation w).2.f_out = SrcTie.outMsgs v.f_out ++ tdhNoContinuationChecks s w) ∧
      (SrcTie.Abs cfg (v.check_tdh_continuation w).2 s c ∧
        SrcTie.outMsgs (v.check_tdh_continuation w).2.f_out = SrcTie.outMsgs v.f_out ++ tdhContinuationChecks s w) ∧
      (SrcTie.Abs cfg (v.check_tdh_by_was_tdt_packet_done_true w).2 s c ∧
        SrcTie.outMsgs (v.check_tdh_by_was_tdt_packet_done_true w).2.f_out = SrcTie.outMsgs v.f_out ++
          (match s.prevTdh with | some prev => if tdhBc prev > tdhBc w then [mkErr s "E440" w] else [] | none => []))) :=
  ⟨SrcTie.preprocess_ihw_eq cfg v s c w h, SrcTie.preprocess_ddw0_eq cfg v s c w h,
   ⟨(SrcTie.process_cdw_eq cfg v s c w h).1, (SrcTie.process_cdw_eq cfg v s c w h).2, SrcTie.preData_cdw cfg s w⟩,
   SrcTie.check_rdh_at_initial_ihw_eq cfg v s c w h,
   fun hcur => ⟨SrcTie.check_tdh_no_continuation_eq cfg v s c w h hcur, SrcTie.check_tdh_continuation_eq cfg v s c w h hcur,
     SrcTie.check_tdh_after_packet_done_eq cfg v s c w h hcur⟩⟩

/-- the remaining handlers, in every configuration without the readout-frame validator (`cfg.stave = false`: `check sanity`, `check all`,
    `check all its`; the translation is specialised to `readout_frame_validator = None`): `preprocess_tdh` = `preTdh` ([E40], the TDH buffer
    update of C20 `pairing`), `preprocess_tdt` = `preTdt` ([E50]), `preprocess_data_word` (with `process_cdw`, `process_ib_data_word`,
    `process_ob_data_word`, `set_data_seen`) = `preData` whenever the model does not stop at its panic site (no IHW stored) — [E70], [E72],
    [E71], [E73], [E81] — and `check_tdh_trigger_interval` = `tdhTriggerInterval` ([E45], sent without a word dump) -/
theorem word_handlers_nonstave_src (cfg : CheckCfg) (v : SrcLink.CdpRunningValidator) (s : CdpSt) (c : SrcRdh.RdhCru) (w : Bytes)
    (h : SrcTie.Abs cfg v s c) (hst : cfg.stave = false) :
    (SrcTie.Abs cfg (v.preprocess_tdh w).2 (preTdh cfg s w).1 c ∧
      SrcTie.outMsgs (v.preprocess_tdh w).2.f_out = SrcTie.outMsgs v.f_out ++ (preTdh cfg s w).2) ∧
    (∃ s' ms, preTdt cfg s w = .ok (s', ms) ∧ SrcTie.Abs cfg (v.preprocess_tdt w).2 s' c ∧
      SrcTie.outMsgs (v.preprocess_tdt w).2.f_out = SrcTie.outMsgs v.f_out ++ ms) ∧
    (∀ s' ms, preData cfg s w = .ok (s', ms) → SrcTie.Abs cfg (v.preprocess_data_word w).2 s' c ∧
      SrcTie.outMsgs (v.preprocess_data_word w).2.f_out = SrcTie.outMsgs v.f_out ++ ms) ∧
    ((s.tdh.isSome = true ∨ s.prevInternalTdh = none) → SrcTie.Abs cfg (v.check_tdh_trigger_interval w).2 s c ∧
      SrcTie.outMsgs (v.check_tdh_trigger_interval w).2.f_out = SrcTie.outMsgs v.f_out ++ tdhTriggerInterval cfg s) :=
  ⟨SrcTie.preprocess_tdh_eq cfg v s c w h hst, SrcTie.preprocess_tdt_eq cfg v s c w h hst,
   fun s' ms hok => SrcTie.preprocess_data_word_eq cfg v s c w h hst s' ms hok,
   fun hc => SrcTie.check_tdh_trigger_interval_eq cfg v s c w h hc⟩

/-- **the per-word validator of the source is the model's `checkWord`** (every configuration without the readout-frame validator:
    `check sanity`, `check all`, `check all its`): for every word and every pair of related states (`SrcTie.AbsW`: configuration,
    state machine, tracker fields, header, stored status words) in which the model does not stop at a panic site, the source's
    `CdpRunningValidator::check` — counting the word, `ItsPayloadFsmContinuous::advance` as translated for C09, the dispatch on its
    answer, the handlers and state-dependent checks — leaves states related again and has sent exactly the model's messages
    (code, offset, quoted word). Bounds: fewer than 65535 words counted (`u16`), addresses below 2^64. -/
theorem check_word_src (cfg : CheckCfg) (v : SrcLink.CdpRunningValidator) (s : CdpSt) (c : SrcRdh.RdhCru) (w : Bytes)
    (h : SrcTie.AbsW cfg v s c) (hst : cfg.stave = false) (h2 : s.wordCount + 1 < 65536) (hb : s.payloadPos + 65536 * 16 < 2^64)
    (s' : CdpSt) (ms : List Msg) (hok : checkWord cfg s w = .ok (s', ms)) :
    SrcTie.AbsW cfg (v.check w).2 s' c ∧ SrcTie.outMsgs (v.check w).2.f_out = SrcTie.outMsgs v.f_out ++ ms :=
  SrcTie.check_eq cfg v s c w h hst h2 hb s' ms hok

/-- ... and so for every list of words (the loop of `do_payload_checks` over the 10-byte words cut by `preprocess_payload`, C12) -/
theorem check_words_src (cfg : CheckCfg) (c : SrcRdh.RdhCru) (hst : cfg.stave = false) (ws : List Bytes) :
    ∀ (v : SrcLink.CdpRunningValidator) (s s' : CdpSt) (ms : List Msg), SrcTie.AbsW cfg v s c →
    s.wordCount + ws.length < 65536 → s.payloadPos + 65536 * 16 < 2^64 → checkWords cfg s ws = .ok (s', ms) →
    SrcTie.AbsW cfg (ws.foldl (fun v w => (v.check w).2) v) s' c ∧
    SrcTie.outMsgs (ws.foldl (fun v w => (v.check w).2) v).f_out = SrcTie.outMsgs v.f_out ++ ms := by
  induction ws with
  | nil =>
    intro v s s' ms h _ _ hok
    simp only [checkWords, Except.ok.injEq, Prod.mk.injEq] at hok
    obtain ⟨rfl, rfl⟩ := hok
    exact ⟨h, by simp⟩
  | cons w ws ih =>
    intro v s s' ms h hl hb hok
    simp only [List.length_cons] at hl
    simp only [checkWords] at hok
    cases h1 : checkWord cfg s w with
    | error p => rw [h1] at hok; cases hok
    | ok r1 =>
      obtain ⟨s1, m1⟩ := r1
      rw [h1] at hok
      simp only at hok
      cases h2 : checkWords cfg s1 ws with
      | error p => rw [h2] at hok; cases hok
      | ok r2 =>
        obtain ⟨s2, m2⟩ := r2
        rw [h2] at hok
        simp only [Except.ok.injEq, Prod.mk.injEq] at hok
        obtain ⟨rfl, rfl⟩ := hok
        obtain ⟨a1, o1⟩ := SrcTie.check_eq cfg v s c w h hst (by omega) hb s1 m1 h1
        obtain ⟨tp, _, tc⟩ := checkWords_tracker cfg [w] s s1 (m1 ++ []) (by simp [checkWords, h1])
        obtain ⟨a2, o2⟩ := ih (v.check w).2 s1 s2 m2 a1 (by simp at tc; omega) (by rw [tp]; exact hb) h2
        exact ⟨a2, by rw [List.foldl_cons, o2, o1, List.append_assoc]⟩

/-- **a whole payload**: from any related packet-independent state (`SrcTie.AbsR`: a fresh validator, or the state the previous packet of
    the link left), `set_current_rdh(rdh, offset)` followed by `check` on every word of the cut payload is the model's
    `payloadChecks` — same final state, same messages. (The padding-error branch of `do_payload_checks` sends on the channel directly
    and resets the state machine; it is not translated.) -/
theorem payload_src (cfg : CheckCfg) (v : SrcLink.CdpRunningValidator) (s : CdpSt) (c : SrcRdh.RdhCru) (off : Nat) (payload : Bytes)
    (ws : List Bytes) (h : SrcTie.AbsR cfg v s) (hst : cfg.stave = false) (hcut : cutPayload payload = some ws)
    (hlen : ws.length < 65536) (hoff : off + 64 + 65536 * 16 < 2^64)
    (s' : CdpSt) (ms : List Msg) (hok : payloadChecks cfg s off (SrcTie.toModel c) payload = .ok (s', ms)) :
    SrcTie.AbsW cfg (ws.foldl (fun v w => (v.check w).2) (v.set_current_rdh c off).2) s' c ∧
    SrcTie.outMsgs (ws.foldl (fun v w => (v.check w).2) (v.set_current_rdh c off).2).f_out = SrcTie.outMsgs v.f_out ++ ms := by
  obtain ⟨hset, hW⟩ := SrcTie.set_current_rdh_eq cfg v s c off h hst (by omega)
  simp only [payloadChecks, hset, hcut] at hok
  have hout : (v.set_current_rdh c off).2.f_out = v.f_out := rfl
  rw [← hout]
  exact check_words_src cfg c hst ws _ _ s' ms hW (by simp [SrcTie.startPkt]; omega) (by simp [SrcTie.startPkt]; omega) hok

/-- the padding error of the source carries no `[E..]` code -/
theorem preprocess_err_codes (p : Bytes) (e : Rs.Str) (h : SrcPayload.preprocess_payload p = .err e) : e.codes = [] := by
  simp only [SrcPayload.preprocess_payload, SrcPayload.extract_payload_ff_padding] at h
  split at h
  · rename_i heq
    split at heq
    · cases heq; cases h; rfl
    · cases heq
  · cases h

/-- **`do_payload_checks` = `payloadChecks`** (its/lib.rs, translated with the rest of `linkval.json`), both branches: a payload that
    can be cut — `set_current_rdh`, then `check` on the first 10 bytes of every chunk `preprocess_payload` (C12) returns — and a payload
    with more than 15 trailing 0xFF bytes — one message without code at the packet's offset, the state machine reset to its initial
    state. From any related packet-independent state (`SrcTie.AbsR`), to a related one, with exactly the model's messages. -/
theorem do_payload_checks_src (cfg : CheckCfg) (v : SrcLink.CdpRunningValidator) (s : CdpSt) (c : SrcRdh.RdhCru) (off : Nat) (payload : Bytes)
    (h : SrcTie.AbsR cfg v s) (hst : cfg.stave = false) (hp : payload.length < 2^64) (hoff : off + 64 + 65536 * 16 < 2^64)
    (hlen : ∀ ws, cutPayload payload = some ws → ws.length < 65536)
    (s' : CdpSt) (ms : List Msg) (hok : payloadChecks cfg s off (SrcTie.toModel c) payload = .ok (s', ms)) :
    SrcTie.AbsR cfg (SrcLink.do_payload_checks (c, payload, off) v) s' ∧
    SrcTie.outMsgs (SrcLink.do_payload_checks (c, payload, off) v).f_out = SrcTie.outMsgs v.f_out ++ ms := by
  obtain ⟨hset, hW⟩ := SrcTie.set_current_rdh_eq cfg v s c off h hst (by omega)
  have hcut := SrcTie.preprocess_eq payload hp
  have hout : (v.set_current_rdh c off).2.f_out = v.f_out := rfl
  simp only [SrcLink.do_payload_checks]
  cases hr : SrcPayload.preprocess_payload payload with
  | err e =>
    rw [hr] at hcut
    simp only [payloadChecks, hset, hcut, Except.ok.injEq, Prod.mk.injEq] at hok
    obtain ⟨rfl, rfl⟩ := hok
    have hc := preprocess_err_codes payload e hr
    simp only [Rs.Res.isErr_err, if_true, Rs.Res.errStr_err, SrcLink.CdpRunningValidator.reset_fsm, SrcLink.CdpRunningValidator.report_at]
    have hR := hW.toAbsR
    refine ⟨⟨hR.running, hR.period, C09.initial_eq_src.symm, hR.ihw, hR.tdhs, hR.tdt, hR.ddw0, hR.cdw⟩, ?_⟩
    simp [SrcTie.outMsgs, SrcTie.reportMsgs, hout, hc, mkErrNoWord, SrcTie.codeStr, Rs.Str.app, Rs.Str.lit]
  | ok cs =>
    rw [hr] at hcut
    simp only [payloadChecks, hset, hcut] at hok
    simp only [Rs.Res.isErr_ok, Bool.false_eq_true, if_false, Rs.Res.unwrapD_ok]
    have hfold : List.foldl (fun v w => (SrcLink.CdpRunningValidator.check v (w.take 10)).2) (v.set_current_rdh c off).2 cs =
        List.foldl (fun v w => (SrcLink.CdpRunningValidator.check v w).2) (v.set_current_rdh c off).2 (cs.map (·.take 10)) := by
      rw [List.foldl_map]
    rw [hfold, ← hout]
    have hl := hlen _ hcut
    obtain ⟨a, o⟩ := check_words_src cfg c hst (cs.map (·.take 10)) _ _ s' ms hW (by simp [SrcTie.startPkt] at hl ⊢; omega)
      (by simp [SrcTie.startPkt]; omega) hok
    exact ⟨a.toAbsR, o⟩

/-- **one packet through a link validator** (`LinkValidator::do_checks`, non-stave configurations): the model's `linkStep` is the source's
    `do_rdh_checks` followed — when an ITS target is given and the payload is not empty — by `do_payload_checks`; the messages of the step
    are those of the header part followed by those of the payload part, and the validator states stay related (header-id learnt, running
    checker, payload validator). Both parts are translated from the source on every run; what this theorem takes from a reading of
    `do_checks` is only their sequential composition (the target `match`, the `!payload.is_empty()` guard, one shared channel). -/
theorem link_step_src (cfg : CheckCfg) (hst : cfg.stave = false) (lv : SrcLinkRdh.LinkValidator) (cv : SrcLink.CdpRunningValidator)
    (s : LinkSt) (c : SrcRdh.RdhCru) (off : Nat) (payload : Bytes)
    (hrun : lv.f_running_checks = cfg.running)
    (hsan : lv.f_rdh_sanity_validator = SrcTie.mkValidator s.expectId (if cfg.itsChecks then some 32 else none))
    (habs : SrcTie.runAbs lv.f_rdh_running_validator = s.run) (hwf : SrcTie.RunWf lv.f_rdh_running_validator)
    (hfee : c.f_rdh0.f_fee_id.f_0 < 65536) (hcd : c.f_cruid_dw.f_0 < 65536)
    (hcv : SrcTie.AbsR cfg cv s.cdp) (hp : payload.length < 2^64) (hoff : off + 64 + 65536 * 16 < 2^64)
    (hlen : ∀ ws, cutPayload payload = some ws → ws.length < 65536)
    (s' : LinkSt) (ms : List Msg) (hok : linkStep cfg s { offset := off, rdh := SrcTie.toModel c, payload := payload } = .ok (s', ms)) :
    ∃ mA mB, ms = mA ++ mB ∧
      SrcTie.outMsgs (lv.do_rdh_checks c off).2.f_out = SrcTie.outMsgs lv.f_out ++ mA ∧
      (lv.do_rdh_checks c off).2.f_rdh_sanity_validator = SrcTie.mkValidator s'.expectId (if cfg.itsChecks then some 32 else none) ∧
      SrcTie.runAbs (lv.do_rdh_checks c off).2.f_rdh_running_validator = s'.run ∧
      SrcTie.RunWf (lv.do_rdh_checks c off).2.f_rdh_running_validator ∧
      SrcTie.AbsR cfg (if cfg.itsChecks && !payload.isEmpty then SrcLink.do_payload_checks (c, payload, off) cv else cv) s'.cdp ∧
      SrcTie.outMsgs (if cfg.itsChecks && !payload.isEmpty then SrcLink.do_payload_checks (c, payload, off) cv else cv).f_out =
        SrcTie.outMsgs cv.f_out ++ mB := by
  obtain ⟨h1, h2, h3, h4⟩ := C10.link_rdh_checks_src cfg lv s c off _ hrun hsan habs hwf hfee hcd
  unfold linkStep at hok
  simp only at hok
  by_cases hits : (cfg.itsChecks && !payload.isEmpty) = true
  · simp only [hits, if_true] at hok ⊢
    cases hpc : payloadChecks cfg s.cdp off (SrcTie.toModel c) payload with
    | error e => rw [hpc] at hok; cases hok
    | ok r =>
      obtain ⟨cdp', m3⟩ := r
      rw [hpc] at hok
      simp only [Except.ok.injEq, Prod.mk.injEq] at hok
      obtain ⟨rfl, rfl⟩ := hok
      obtain ⟨a, o⟩ := do_payload_checks_src cfg cv s.cdp c off payload hcv hst hp hoff hlen cdp' m3 hpc
      refine ⟨_, m3, rfl, ?_, h1, ?_, h3, a, o⟩
      · rw [h4]; cases hr : cfg.running <;> simp [List.append_assoc]
      · rw [h2]; split <;> rfl
  · simp only [hits, Bool.false_eq_true, if_false, Except.ok.injEq, Prod.mk.injEq] at hok ⊢
    obtain ⟨rfl, rfl⟩ := hok
    refine ⟨_, [], (List.append_nil _).symm, ?_, h1, ?_, h3, hcv, (List.append_nil _).symm⟩
    · rw [h4]; cases hr : cfg.running <;> simp [List.append_assoc]
    · rw [h2]; split <;> rfl

/-! ### a whole link history -/
/-- one packet through the two translated parts, on ONE message list (the two validators hold clones of the same channel and run in the same
    thread, one after the other): the composition that `LinkValidator::do_checks` performs, written out by hand -/
def srcLinkStep (cfg : CheckCfg) (st : SrcLinkRdh.LinkValidator × SrcLink.CdpRunningValidator) (p : SrcRdh.RdhCru × Nat × Bytes) :
    SrcLinkRdh.LinkValidator × SrcLink.CdpRunningValidator :=
  let lv1 := (st.1.do_rdh_checks p.1 p.2.1).2
  let cv0 := { st.2 with f_out := lv1.f_out }
  let cv1 := if cfg.itsChecks && !p.2.2.isEmpty then SrcLink.do_payload_checks (p.1, p.2.2, p.2.1) cv0 else cv0
  ({ lv1 with f_out := cv1.f_out }, cv1)

/-- source validators standing for a model link state -/
structure LinkRel (cfg : CheckCfg) (st : SrcLinkRdh.LinkValidator × SrcLink.CdpRunningValidator) (s : LinkSt) : Prop where
  run : st.1.f_running_checks = cfg.running
  san : st.1.f_rdh_sanity_validator = SrcTie.mkValidator s.expectId (if cfg.itsChecks then some 32 else none)
  abs : SrcTie.runAbs st.1.f_rdh_running_validator = s.run
  wf : SrcTie.RunWf st.1.f_rdh_running_validator
  cdp : SrcTie.AbsR cfg st.2 s.cdp

/-- what the theorems need of a packet: header fields as loaded (16-bit FEE ID and CRU/DW word), sizes and offsets below the `u16` word
    counter and the 64-bit address space -/
def PacketOk (p : SrcRdh.RdhCru × Nat × Bytes) : Prop :=
  p.1.f_rdh0.f_fee_id.f_0 < 65536 ∧ p.1.f_cruid_dw.f_0 < 65536 ∧ p.2.2.length < 2^64 ∧ p.2.1 + 64 + 65536 * 16 < 2^64 ∧
  ∀ ws, cutPayload p.2.2 = some ws → ws.length < 65536

def toPacket (p : SrcRdh.RdhCru × Nat × Bytes) : Packet := { offset := p.2.1, rdh := SrcTie.toModel p.1, payload := p.2.2 }

theorem absR_out (cfg : CheckCfg) (v : SrcLink.CdpRunningValidator) (s : CdpSt) (o : List Rs.Report) (h : SrcTie.AbsR cfg v s) :
    SrcTie.AbsR cfg { v with f_out := o } s := ⟨h.running, h.period, h.fsm, h.ihw, h.tdhs, h.tdt, h.ddw0, h.cdw⟩

theorem src_link_step (cfg : CheckCfg) (hst : cfg.stave = false) (st : SrcLinkRdh.LinkValidator × SrcLink.CdpRunningValidator) (s : LinkSt)
    (p : SrcRdh.RdhCru × Nat × Bytes) (hr : LinkRel cfg st s) (hp : PacketOk p)
    (s' : LinkSt) (ms : List Msg) (hok : linkStep cfg s (toPacket p) = .ok (s', ms)) :
    LinkRel cfg (srcLinkStep cfg st p) s' ∧
    SrcTie.outMsgs (srcLinkStep cfg st p).1.f_out = SrcTie.outMsgs st.1.f_out ++ ms ∧
    (srcLinkStep cfg st p).2.f_out = (srcLinkStep cfg st p).1.f_out := by
  obtain ⟨lv, cv⟩ := st
  obtain ⟨c, off, payload⟩ := p
  obtain ⟨hfee, hcd, hpl, hoff, hlen⟩ := hp
  have hcv0 := absR_out cfg cv s.cdp (lv.do_rdh_checks c off).2.f_out hr.cdp
  obtain ⟨mA, mB, rfl, oA, hsan', habs', hwf', hcdp', oB⟩ :=
    link_step_src cfg hst lv { cv with f_out := (lv.do_rdh_checks c off).2.f_out } s c off payload hr.run hr.san hr.abs hr.wf hfee hcd hcv0
      hpl hoff hlen s' _ hok
  have hrun' : (lv.do_rdh_checks c off).2.f_running_checks = cfg.running :=
    (SrcTie.do_rdh_checks_eq cfg lv s c off _ hr.run hr.san hr.abs hr.wf hfee hcd).1
  refine ⟨⟨hrun', hsan', habs', hwf', hcdp'⟩, ?_, rfl⟩
  simp only [srcLinkStep]
  rw [oB, oA, List.append_assoc]

/-- **a whole link history, model = translated source** (non-stave configurations): for every sequence of packets of one link, from
    related states, whenever the model's `linkRun` does not stop at a panic site, folding the source's per-packet step over the sequence
    leaves related states and has sent exactly the model's messages, in the model's order. Every theorem of C01, C02, C07, C09–C12
    about `linkRun` is thereby a statement about these source functions. -/
theorem link_run_src (cfg : CheckCfg) (hst : cfg.stave = false) (ps : List (SrcRdh.RdhCru × Nat × Bytes)) :
    ∀ (st : SrcLinkRdh.LinkValidator × SrcLink.CdpRunningValidator) (s s' : LinkSt) (ms : List Msg), LinkRel cfg st s →
    (∀ p ∈ ps, PacketOk p) → linkRun cfg s (ps.map toPacket) = .ok (s', ms) →
    LinkRel cfg (ps.foldl (srcLinkStep cfg) st) s' ∧
    SrcTie.outMsgs (ps.foldl (srcLinkStep cfg) st).1.f_out = SrcTie.outMsgs st.1.f_out ++ ms := by
  induction ps with
  | nil =>
    intro st s s' ms hr _ hok
    simp only [List.map_nil, linkRun, Except.ok.injEq, Prod.mk.injEq] at hok
    obtain ⟨rfl, rfl⟩ := hok
    exact ⟨hr, by simp⟩
  | cons p ps ih =>
    intro st s s' ms hr hpk hok
    simp only [List.map_cons, linkRun] at hok
    cases h1 : linkStep cfg s (toPacket p) with
    | error e => rw [h1] at hok; cases hok
    | ok r1 =>
      obtain ⟨s1, m1⟩ := r1
      rw [h1] at hok
      simp only at hok
      cases h2 : linkRun cfg s1 (ps.map toPacket) with
      | error e => rw [h2] at hok; cases hok
      | ok r2 =>
        obtain ⟨s2, m2⟩ := r2
        rw [h2] at hok
        simp only [Except.ok.injEq, Prod.mk.injEq] at hok
        obtain ⟨rfl, rfl⟩ := hok
        obtain ⟨r1', o1, _⟩ := src_link_step cfg hst st s p hr (hpk p (by simp)) s1 m1 h1
        obtain ⟨r2', o2⟩ := ih (srcLinkStep cfg st p) s1 s2 m2 r1' (fun q hq => hpk q (by simp [hq])) h2
        exact ⟨r2', by rw [List.foldl_cons, o2, o1, List.append_assoc]⟩

/-- ... and from the initial state the hypothesis "the model does not stop at a panic site" is a theorem (C04 `linkRun_safe`: in the
    non-stave modes `linkRun` succeeds on ANY packet list), so for every packet sequence of a link the fold of the translated source
    step is related to the model's result — in particular every `Option::unwrap` / `Result::unwrap` the translated functions contain
    (`Rs.unwrapD`, `Rs.Res.unwrapD`) is taken on its `Some` / `Ok` side along the whole run -/
theorem link_run_src_total (cfg : CheckCfg) (hst : cfg.stave = false) (ps : List (SrcRdh.RdhCru × Nat × Bytes))
    (st : SrcLinkRdh.LinkValidator × SrcLink.CdpRunningValidator) (hr : LinkRel cfg st (LinkSt.init cfg)) (hpk : ∀ p ∈ ps, PacketOk p) :
    ∃ s' ms, linkRun cfg (LinkSt.init cfg) (ps.map toPacket) = .ok (s', ms) ∧
      LinkRel cfg (ps.foldl (srcLinkStep cfg) st) s' ∧
      SrcTie.outMsgs (ps.foldl (srcLinkStep cfg) st).1.f_out = SrcTie.outMsgs st.1.f_out ++ ms := by
  obtain ⟨⟨s', ms⟩, hok⟩ := C04.linkRun_safe cfg (ps.map toPacket) (by intro h; rw [hst] at h; cases h) (LinkSt.init cfg)
    (Or.inr rfl) (fun _ => Or.inr trivial)
  exact ⟨s', ms, hok, link_run_src cfg hst ps st _ s' ms hr hpk hok⟩

/-- non-vacuity of `PacketOk`: a header-only packet at offset 0, and a packet with a one-word payload -/
example : PacketOk (default, 0, []) := ⟨by decide, by decide, by decide, by decide, fun ws h => by
  have h0 : cutPayload [] = some [] := by
    simp [cutPayload, ffRun, chunksExact_short 10 ([] : Bytes) (by decide), chunksExact_short 16 ([] : Bytes) (by decide)]
  rw [h0] at h; cases h; decide⟩

/-- the hypotheses of `link_run_src` are met at the start: freshly constructed validators (`RdhCruSanityValidator::new_from_config` as tied
    in C10 `validator_for_config_src`, `RdhCruRunningChecker::new`, a `CdpRunningValidator` with the default state machine and an empty
    status-word container) stand for the model's initial link state -/
theorem link_rel_init (cfg : CheckCfg) (tr : SrcState.CdpTracker) (rv : SrcState.ItsRdhValidator) :
    LinkRel cfg
      ({ f_running_checks := cfg.running, f_out := [], f_rdh_running_validator := SrcRdh.RdhCruRunningChecker.new,
         f_rdh_sanity_validator := SrcTie.mkValidator cfg.customRdhVersion (if cfg.itsChecks then some 32 else none) },
       { f_running_checks_enabled := cfg.running, f_trigger_period := cfg.triggerPeriod, f_its_state_machine := SrcFsm.initial,
         f_tracker := tr, f_rdh_validator := rv, f_status_words := SrcState.StatusWordContainer.new_const, f_out := [] })
      (LinkSt.init cfg) :=
  ⟨rfl, rfl, SrcTie.run_new.1, SrcTie.run_new.2, SrcTie.absR_init cfg tr rv⟩

/-- non-vacuity: a freshly built source validator stands for the model's state at the first word of a packet -/
example : SrcTie.Abs { running := true }
    { f_running_checks_enabled := true, f_tracker := { f_payload_mem_pos := 64, f_gbt_word_counter := 1, f_gbt_word_padding_size_bytes := 0, f_is_start_of_data := true },
      f_rdh_validator := SrcState.ItsRdhValidator.new default, f_status_words := SrcState.StatusWordContainer.new_const, f_out := [], f_trigger_period := none, f_its_state_machine := .initialIhw }
    { payloadPos := 64, wordCount := 1, slot := 10, rdh := SrcTie.toModel default } default :=
  ⟨rfl, rfl, rfl, by decide, rfl, rfl, rfl, rfl, rfl, rfl, rfl⟩


/-! ### tie by translation: the state-dependent rule checks are the source's (`Spec/StateSrcGen.lean`) -/
/-- the code lists the model emits for a TDH after an IHW (E42/E444/E445/E44), for a continuation TDH (E41/E441/E442/E443), for a
    DDW0 (E110/E111) and for an initial IHW (E12) are exactly the `[E..]` codes in the messages of the source's
    `TdhValidator::check_tdh_no_continuation`, `check_continuation`, `ItsRdhValidator::check_at_ddw0`, `check_at_initial_ihw`
    on the same word and header; E440 is `check_after_tdt_packet_done_true` on the source's TDH buffer -/
theorem stateful_checks_src (s : CdpSt) (w : Bytes) (c : SrcRdh.RdhCru) (hc : SrcTie.toModel c = s.rdh) :
    tdhNoContinuationChecks s w =
      (SrcState.TdhValidator.check_tdh_no_continuation (SrcTie.tdhOf w) c).errStr.codes.map (fun k => mkErr s (SrcTie.codeStr k) w) ∧
    tdhContinuationChecks s w =
      (SrcState.TdhValidator.check_continuation (SrcTie.tdhOf w) (s.prevTdh.map SrcTie.tdhOf)).errStr.codes.map (fun k => mkErr s (SrcTie.codeStr k) w) ∧
    ((if s.rdh.stopBit != 1 then [mkErr s "E110" w] else []) ++ (if s.rdh.pagesCounter == 0 then [mkErr s "E111" w] else [])) =
      (SrcState.ItsRdhValidator.check_at_ddw0 (SrcState.ItsRdhValidator.new c)).errStr.codes.map (fun k => mkErr s (SrcTie.codeStr k) w) ∧
    (if s.rdh.stopBit != 0 then [mkErr s "E12" w] else []) =
      (SrcState.ItsRdhValidator.check_at_initial_ihw (SrcState.ItsRdhValidator.new c)).errStr.codes.map (fun k => mkErr s (SrcTie.codeStr k) w) :=
  ⟨SrcTie.no_continuation_eq s w c hc, SrcTie.continuation_eq s w, SrcTie.ddw0_rdh_eq s w c hc, SrcTie.ihw_rdh_eq s w c hc⟩

theorem bc_order_src (cur prev prevInt : Option Bytes) (w : Bytes) (hcur : cur = some w) (c : SrcState.StatusWordContainer)
    (hc : c.f_tdhs = SrcTie.bufOf cur prev prevInt) :
    (SrcState.TdhValidator.check_after_tdt_packet_done_true c).isErr =
      (match prev with | some p => decide (tdhBc p > tdhBc w) | none => false) :=
  SrcTie.after_packet_done_eq cur prev prevInt w hcur c hc

end C02
end FastPasta
