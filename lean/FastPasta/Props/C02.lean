/-
  C02 — every documented violation is detected with its code and location.

  Detection lemmas, one per rule family, valid in *every* state of the validator (so in
  particular in the state reached after any conforming prefix): a word or header that violates
  the rule yields a finding with the rule's code, located at that word's / header's offset.
  * RDH sanity rules: `rdh_sanity_fault_detected` (via C10 `sanity_iff`: any violation of the
    documented bit-level rule list ⇒ [E10] at the RDH offset);
  * RDH running rules: `rdh_running_fault_detected` (flag of the running checker ⇒ [E11] at the RDH
    offset; C10 `running_iff` says the flag is raised exactly on violations) and
    `sanity_mode_no_e11` (`check sanity` never reports [E11]);
  * status-word sanity rules: `ihw/tdh/tdt/ddw0_fault_detected` (via C11: any violation of the
    bit-level rule of the word type the state machine expects ⇒ [E30]/[E40]/[E50]/[E60] at the word);
  * state-dependent rules: [E110], [E111], [E12], [E42], [E444], [E41] at the word;
  * padding limit: C12 `overpadded_reported_and_reset`.
  Partial (`…_partial`): that the state reached after a conforming prefix *is* the state in which
  the faulted word is classified as its own type (the `LinkInv` induction of DESIGN §5.1) is not
  yet a theorem; it is covered by the fault-catalogue oracle on the real binary and by exact
  model/implementation agreement on every faulted stream.
-/
import FastPasta.Props.C10
import FastPasta.Props.C11
namespace FastPasta
namespace C02

/-- RDH sanity: any header violating the documented rule list is reported with [E10] at its own
    offset, in every check mode -/
theorem rdh_sanity_fault_detected (cfg : CheckCfg) (s : LinkSt) (off : Nat) (bs payload : Bytes) (hlen : bs.length = 64)
    (hbad : ¬ C10.RdhSaneSpec (s.expectId.getD (decodeRdh bs).headerId) cfg.itsChecks (leNat bs))
    (s' : LinkSt) (ms : List Msg)
    (h : linkStep cfg s { offset := off, rdh := decodeRdh bs, payload := payload } = .ok (s', ms)) :
    mkErrNoWord off "E10" ∈ ms := by
  have hb : rdhSanityBad (s.expectId.getD (decodeRdh bs).headerId) (if cfg.itsChecks then some 32 else none) (decodeRdh bs) = true := by
    cases hc : rdhSanityBad (s.expectId.getD (decodeRdh bs).headerId) (if cfg.itsChecks then some 32 else none) (decodeRdh bs) with
    | true => rfl
    | false => exact absurd ((C10.sanity_iff bs hlen _ cfg.itsChecks).mp hc) hbad
  unfold linkStep at h
  simp only [hb, ↓reduceIte] at h
  split at h
  · split at h
    · cases h
    · simp only [Except.ok.injEq, Prod.mk.injEq] at h
      obtain ⟨_, rfl⟩ := h
      simp
  · simp only [Except.ok.injEq, Prod.mk.injEq] at h
    obtain ⟨_, rfl⟩ := h
    simp

/-- RDH running: when the running checker flags the header ([C10] `running_iff`: exactly when a
    running rule is violated), `check all` reports [E11] at the header's own offset -/
theorem rdh_running_fault_detected (cfg : CheckCfg) (hrun : cfg.running = true) (s : LinkSt) (p : Packet)
    (hflag : (runningStep s.run p.rdh).2 = true) (s' : LinkSt) (ms : List Msg)
    (h : linkStep cfg s p = .ok (s', ms)) : mkErrNoWord p.offset "E11" ∈ ms := by
  unfold linkStep at h
  simp only [hrun, ↓reduceIte, hflag] at h
  split at h
  · split at h
    · cases h
    · simp only [Except.ok.injEq, Prod.mk.injEq] at h
      obtain ⟨_, rfl⟩ := h
      simp
  · simp only [Except.ok.injEq, Prod.mk.injEq] at h
    obtain ⟨_, rfl⟩ := h
    simp

/-- a purely stateful RDH violation is not reported by `check sanity` -/
theorem sanity_mode_no_e11 (cfg : CheckCfg) (hrun : cfg.running = false) (hits : cfg.itsChecks = false)
    (s : LinkSt) (p : Packet) (s' : LinkSt) (ms : List Msg) (h : linkStep cfg s p = .ok (s', ms)) :
    ∀ m ∈ ms, m = mkErrNoWord p.offset "E10" := by
  unfold linkStep at h
  simp only [hrun, hits, Bool.false_eq_true, ↓reduceIte, Bool.false_and, List.append_nil,
    Except.ok.injEq, Prod.mk.injEq] at h
  obtain ⟨_, rfl⟩ := h
  intro m hm
  split at hm
  · simpa using hm
  · simp at hm

/-! ### status words: violation of the bit-level rule ⇒ the type's sanity code at the word -/

/-- the state handed to the word handlers -/
def stepped (s : CdpSt) (w : Bytes) : CdpSt := { s with wordCount := s.wordCount + 1, fsm := (fsmAdvance s.fsm w).1 }

theorem ihw_fault_detected (cfg : CheckCfg) (s : CdpSt) (w : Bytes) (hlen : w.length = 10)
    (hcls : (fsmAdvance s.fsm w).2 = .ihw ∨ (fsmAdvance s.fsm w).2 = .ihwCont)
    (hbad : ¬ C11.IhwSpec (leNat w)) (s' : CdpSt) (ms : List Msg) (h : checkWord cfg s w = .ok (s', ms)) :
    mkErr (stepped s w) "E30" w ∈ ms := by
  have hs : ihwSane w = false := by
    cases hc : ihwSane w with
    | false => rfl
    | true => exact absurd ((C11.ihw_sane_iff w hlen).mp hc) hbad
  rcases hadv : fsmAdvance s.fsm w with ⟨st', cls⟩
  rw [hadv] at hcls
  simp only [stepped, hadv]
  rcases hcls with hcls | hcls <;> subst hcls <;>
  · simp only [checkWord, hadv, preIhw, hs, Bool.false_eq_true, ↓reduceIte, Except.ok.injEq, Prod.mk.injEq] at h
    obtain ⟨_, rfl⟩ := h
    simp

theorem tdt_fault_detected (cfg : CheckCfg) (s : CdpSt) (w : Bytes) (hlen : w.length = 10)
    (hcls : (fsmAdvance s.fsm w).2 = .tdt)
    (hbad : ¬ C11.TdtSpec (leNat w)) (s' : CdpSt) (ms : List Msg) (h : checkWord cfg s w = .ok (s', ms)) :
    mkErr (stepped s w) "E50" w ∈ ms := by
  have hs : tdtSane w = false := by
    cases hc : tdtSane w with
    | false => rfl
    | true => exact absurd ((C11.tdt_sane_iff w hlen).mp hc) hbad
  rcases hadv : fsmAdvance s.fsm w with ⟨st', cls⟩
  rw [hadv] at hcls
  subst hcls
  simp only [stepped, hadv]
  simp only [checkWord, hadv, preTdt, hs, Bool.false_eq_true, ↓reduceIte] at h
  split at h
  · split at h
    · cases h
    · simp only [Except.ok.injEq, Prod.mk.injEq] at h
      obtain ⟨_, rfl⟩ := h
      simp
  · simp only [Except.ok.injEq, Prod.mk.injEq] at h
    obtain ⟨_, rfl⟩ := h
    simp

theorem ddw0_fault_detected (cfg : CheckCfg) (s : CdpSt) (w : Bytes) (hlen : w.length = 10)
    (hcls : (fsmAdvance s.fsm w).2 = .ddw0)
    (hbad : ¬ C11.Ddw0Spec (leNat w)) (s' : CdpSt) (ms : List Msg) (h : checkWord cfg s w = .ok (s', ms)) :
    mkErr (stepped s w) "E60" w ∈ ms := by
  have hs : ddw0Sane w = false := by
    cases hc : ddw0Sane w with
    | false => rfl
    | true => exact absurd ((C11.ddw0_sane_iff w hlen).mp hc) hbad
  rcases hadv : fsmAdvance s.fsm w with ⟨st', cls⟩
  rw [hadv] at hcls
  subst hcls
  simp only [stepped, hadv]
  simp only [checkWord, hadv, preDdw0, hs, Bool.false_eq_true, ↓reduceIte, Except.ok.injEq, Prod.mk.injEq] at h
  obtain ⟨_, rfl⟩ := h
  simp

theorem tdh_fault_detected (cfg : CheckCfg) (s : CdpSt) (w : Bytes) (hlen : w.length = 10)
    (hcls : (fsmAdvance s.fsm w).2 = .tdh ∨ (fsmAdvance s.fsm w).2 = .tdhCont ∨ (fsmAdvance s.fsm w).2 = .tdhAfterPacketDone)
    (hbad : ¬ C11.TdhSpec (leNat w)) (s' : CdpSt) (ms : List Msg) (h : checkWord cfg s w = .ok (s', ms)) :
    mkErr (stepped s w) "E40" w ∈ ms := by
  have hs : tdhSane w = false := by
    cases hc : tdhSane w with
    | false => rfl
    | true => exact absurd ((C11.tdh_sane_iff w hlen).mp hc) hbad
  rcases hadv : fsmAdvance s.fsm w with ⟨st', cls⟩
  rw [hadv] at hcls
  simp only [stepped, hadv]
  have hpre : ∀ t : CdpSt, (preTdh cfg t w).2 = [mkErr t "E40" w] := by
    intro t; unfold preTdh; simp only [hs, Bool.false_eq_true, ↓reduceIte]; split <;> rfl
  rcases hcls with hcls | hcls | hcls <;> subst hcls <;>
  · simp only [checkWord, hadv, Except.ok.injEq, Prod.mk.injEq] at h
    obtain ⟨_, rfl⟩ := h
    simp [hpre]

/-! ### state-dependent rules (`check all`) -/

theorem ddw0_needs_stop_bit (cfg : CheckCfg) (hrun : cfg.running = true) (s : CdpSt) (w : Bytes)
    (hcls : (fsmAdvance s.fsm w).2 = .ddw0) (hstop : s.rdh.stopBit ≠ 1)
    (s' : CdpSt) (ms : List Msg) (h : checkWord cfg s w = .ok (s', ms)) :
    mkErr (stepped s w) "E110" w ∈ ms := by
  rcases hadv : fsmAdvance s.fsm w with ⟨st', cls⟩
  rw [hadv] at hcls; subst hcls
  simp only [stepped, hadv]
  simp only [checkWord, hadv, preDdw0, hrun, Bool.not_true, Bool.false_eq_true, ↓reduceIte, Except.ok.injEq, Prod.mk.injEq] at h
  obtain ⟨_, rfl⟩ := h
  have : (s.rdh.stopBit != 1) = true := by simp [hstop]
  simp [this]

theorem ddw0_needs_page_gt_0 (cfg : CheckCfg) (hrun : cfg.running = true) (s : CdpSt) (w : Bytes)
    (hcls : (fsmAdvance s.fsm w).2 = .ddw0) (hpage : s.rdh.pagesCounter = 0)
    (s' : CdpSt) (ms : List Msg) (h : checkWord cfg s w = .ok (s', ms)) :
    mkErr (stepped s w) "E111" w ∈ ms := by
  rcases hadv : fsmAdvance s.fsm w with ⟨st', cls⟩
  rw [hadv] at hcls; subst hcls
  simp only [stepped, hadv]
  simp only [checkWord, hadv, preDdw0, hrun, Bool.not_true, Bool.false_eq_true, ↓reduceIte, Except.ok.injEq, Prod.mk.injEq] at h
  obtain ⟨_, rfl⟩ := h
  simp [hpage]

theorem ihw_needs_stop_0 (cfg : CheckCfg) (hrun : cfg.running = true) (s : CdpSt) (w : Bytes)
    (hcls : (fsmAdvance s.fsm w).2 = .ihw) (hstop : s.rdh.stopBit ≠ 0)
    (s' : CdpSt) (ms : List Msg) (h : checkWord cfg s w = .ok (s', ms)) :
    mkErr (stepped s w) "E12" w ∈ ms := by
  rcases hadv : fsmAdvance s.fsm w with ⟨st', cls⟩
  rw [hadv] at hcls; subst hcls
  simp only [stepped, hadv]
  simp only [checkWord, hadv, hrun, Bool.true_and, Except.ok.injEq, Prod.mk.injEq] at h
  obtain ⟨_, rfl⟩ := h
  have : ((preIhw { s with wordCount := s.wordCount + 1, fsm := st' } w).1.rdh.stopBit != 0) = true := by
    simp [preIhw, hstop]
  simp only [this, ↓reduceIte, List.mem_append, List.mem_singleton]
  right; rfl

theorem tdh_after_ihw_rules (cfg : CheckCfg) (hrun : cfg.running = true) (s : CdpSt) (w : Bytes)
    (hcls : (fsmAdvance s.fsm w).2 = .tdh) (s' : CdpSt) (ms : List Msg) (h : checkWord cfg s w = .ok (s', ms)) :
    (tdhContinuation w ≠ 0 → mkErr (stepped s w) "E42" w ∈ ms) ∧
    (tdhOrbit w ≠ s.rdh.orbit → mkErr (stepped s w) "E444" w ∈ ms) := by
  rcases hadv : fsmAdvance s.fsm w with ⟨st', cls⟩
  rw [hadv] at hcls; subst hcls
  simp only [stepped, hadv]
  simp only [checkWord, hadv, hrun, ↓reduceIte, Except.ok.injEq, Prod.mk.injEq] at h
  obtain ⟨_, rfl⟩ := h
  have hr : (preTdh cfg { s with wordCount := s.wordCount + 1, fsm := st' } w).1.rdh = s.rdh := by
    unfold preTdh; simp only; split <;> rfl
  have hwp : ∀ c, mkErr (preTdh cfg { s with wordCount := s.wordCount + 1, fsm := st' } w).1 c w =
      mkErr { s with wordCount := s.wordCount + 1, fsm := st' } c w := by
    intro c; unfold preTdh; simp only; split <;> rfl
  constructor
  · intro hc
    have : (tdhContinuation w != 0) = true := by simp [hc]
    simp [tdhNoContinuationChecks, this, hwp]
  · intro ho
    have : (tdhOrbit w != s.rdh.orbit) = true := by simp [ho]
    simp [tdhNoContinuationChecks, hr, this, hwp]

theorem tdh_continuation_rule (cfg : CheckCfg) (hrun : cfg.running = true) (s : CdpSt) (w : Bytes)
    (hcls : (fsmAdvance s.fsm w).2 = .tdhCont) (hc : tdhContinuation w ≠ 1)
    (s' : CdpSt) (ms : List Msg) (h : checkWord cfg s w = .ok (s', ms)) :
    mkErr (stepped s w) "E41" w ∈ ms := by
  rcases hadv : fsmAdvance s.fsm w with ⟨st', cls⟩
  rw [hadv] at hcls; subst hcls
  simp only [stepped, hadv]
  simp only [checkWord, hadv, hrun, ↓reduceIte, Except.ok.injEq, Prod.mk.injEq] at h
  obtain ⟨_, rfl⟩ := h
  have hwp : ∀ c, mkErr (preTdh cfg { s with wordCount := s.wordCount + 1, fsm := st' } w).1 c w =
      mkErr { s with wordCount := s.wordCount + 1, fsm := st' } c w := by
    intro c; unfold preTdh; simp only; split <;> rfl
  have : (tdhContinuation w != 1) = true := by simp [hc]
  simp [tdhContinuationChecks, this, hwp]

end C02
end FastPasta
