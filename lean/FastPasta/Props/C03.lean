/-
  C03 — scanning follows the RDH chain exactly in every input mode.

  Specification side: a well-framed input is the concatenation of raw packets (64 header bytes +
  payload) whose header's offset-to-next equals its memory size equals 64 + payload length
  (≤ 10064). `chain` is the prefix-sum offset chain; `expected` keeps the packets whose header
  matches the filter, each with its own true offset, the independently decoded header and its
  payload bytes (or none when payloads are skipped).
  `scan_exact`: for every well-framed packet list (any length — batch boundaries included — any
  header values, payload sizes), every filter, payloads loaded or skipped, file or pipe, the
  scanner delivers exactly `expected`.
-/
import FastPasta.Model.Scanner
import FastPasta.Proofs.Bits
import FastPasta.Proofs.ScanSrcTie
namespace FastPasta
namespace C03

structure RawPkt where
  hdr : Bytes
  payload : Bytes

def RawPkt.bytes (p : RawPkt) : Bytes := p.hdr ++ p.payload
def RawPkt.size (p : RawPkt) : Nat := 64 + p.payload.length
def RawPkt.rdh (p : RawPkt) : Rdh := decodeRdh p.hdr

structure WF (p : RawPkt) : Prop where
  hlen : p.hdr.length = 64
  off : p.rdh.offsetNext = p.size
  mem : p.rdh.memSize = p.size
  small : p.payload.length ≤ 10000

def bytesOf (ps : List RawPkt) : Bytes := ps.flatMap RawPkt.bytes

/-- prefix-sum chain of true offsets -/
def chain (o : Nat) : List RawPkt → List (Nat × RawPkt)
  | [] => []
  | p :: ps => (o, p) :: chain (o + p.size) ps

def mkPacket (skip : Bool) (x : Nat × RawPkt) : Packet :=
  { offset := x.1, rdh := x.2.rdh, payload := if skip then [] else x.2.payload }

/-- what the scanner must deliver -/
def expected (cfg : ScanCfg) (o : Nat) (ps : List RawPkt) : List Packet :=
  ((chain o ps).filter (fun x => filterMatches cfg.filter x.2.rdh)).map (mkPacket cfg.skipPayload)

/-- first matching packet from offset `o`: its offset, the packet, the packets after it -/
def firstMatch (f : Option Filter) (o : Nat) : List RawPkt → Option (Nat × RawPkt × List RawPkt)
  | [] => none
  | p :: ps => if filterMatches f p.rdh then some (o, p, ps) else firstMatch f (o + p.size) ps

theorem expected_unfold (cfg : ScanCfg) (o : Nat) (ps : List RawPkt) :
    expected cfg o ps = match firstMatch cfg.filter o ps with
      | none => []
      | some (o', p, post) => mkPacket cfg.skipPayload (o', p) :: expected cfg (o' + p.size) post := by
  induction ps generalizing o with
  | nil => simp [expected, chain, firstMatch]
  | cons p ps ih =>
    by_cases hm : filterMatches cfg.filter p.rdh = true
    · simp [expected, chain, firstMatch, hm]
    · have := ih (o + p.size)
      simp only [expected] at this
      simp [expected, chain, firstMatch, hm, this]

theorem firstMatch_post_len (f : Option Filter) (o : Nat) (ps : List RawPkt) :
    ∀ o' p post, firstMatch f o ps = some (o', p, post) → post.length < ps.length := by
  induction ps generalizing o with
  | nil => intro o' p post h; simp [firstMatch] at h
  | cons q qs ih =>
    intro o' p post h
    simp only [firstMatch] at h
    split at h
    · simp only [Option.some.injEq, Prod.mk.injEq] at h
      obtain ⟨_, _, rfl⟩ := h
      simp
    · have := ih _ o' p post h
      simp only [List.length_cons]; omega

theorem bytesOf_cons (p : RawPkt) (ps : List RawPkt) :
    bytesOf (p :: ps) = p.hdr ++ (p.payload ++ bytesOf ps) := by
  simp [bytesOf, RawPkt.bytes]

theorem payloadSize_eq (p : RawPkt) (h : WF p) : p.rdh.payloadSize = p.payload.length := by
  unfold Rdh.payloadSize
  rw [h.mem]; unfold RawPkt.size
  have := h.small
  omega

theorem offsetOk_of_wf (p : RawPkt) (h : WF p) : offsetOk p.rdh = true := by
  unfold offsetOk
  rw [h.off]; unfold RawPkt.size
  have := h.small
  simp only [Bool.and_eq_true, decide_eq_true_eq]
  omega

/-- reading a well-framed header off the front of the input -/
theorem take_hdr (p : RawPkt) (h : WF p) (tail : Bytes) :
    (p.hdr ++ tail).take 64 = p.hdr ∧ (p.hdr ++ tail).drop 64 = tail ∧ ¬ (p.hdr ++ tail).length < 64 := by
  have := h.hlen
  refine ⟨?_, ?_, ?_⟩
  · rw [← this, List.take_left']; rfl
  · rw [← this, List.drop_left']; rfl
  · simp only [List.length_append]; omega

/-- the filter skip loop on a well-framed input: stops at the first matching packet, positioned
    at that packet's own offset, with the input positioned at its payload -/
theorem filterLoop_spec (src : Src) (t : Filter) (ps : List RawPkt) (hwf : ∀ p ∈ ps, WF p)
    (tail : Bytes) (htail : tail.length < 64) :
    ∀ (s : ScanSt) (acc : List InMsg), s.rest = bytesOf ps ++ tail →
      match firstMatch (some t) s.pos ps with
      | none => (filterLoop src t s acc).2.2 = .error .eof
      | some (o', p, post) =>
        (filterLoop src t s acc).2.2 = .ok p.rdh ∧
        (filterLoop src t s acc).1.rest = p.payload ++ (bytesOf post ++ tail) ∧
        (filterLoop src t s acc).1.pos = o' := by
  induction ps with
  | nil =>
    intro s acc hs
    simp only [bytesOf, List.flatMap_nil, List.nil_append] at hs
    rw [filterLoop]
    simp [firstMatch, hs, htail]
  | cons p ps ih =>
    intro s acc hs
    have hp := hwf p (by simp)
    rw [bytesOf_cons, List.append_assoc, List.append_assoc] at hs
    obtain ⟨ht, hd, hl⟩ := take_hdr p hp (p.payload ++ (bytesOf ps ++ tail))
    rw [filterLoop]
    simp only [hs, hl, ↓reduceDIte, ht, hd]
    have hok := offsetOk_of_wf p hp
    simp only [RawPkt.rdh] at hok
    simp only [hok, Bool.not_true, Bool.false_eq_true, ↓reduceIte]
    by_cases hm : t.matches (decodeRdh p.hdr) = true
    · simp [firstMatch, filterMatches, RawPkt.rdh, hm, ScanSt.seeRdh]
    · have hoff : (decodeRdh p.hdr).offsetNext = 64 + p.payload.length := hp.off
      have hseek : seekOk src (ScanSt.seeRdh { s with rest := p.payload ++ (bytesOf ps ++ tail) } (decodeRdh p.hdr))
          (decodeRdh p.hdr).offsetNext = true := by
        cases src <;> simp [seekOk, ScanSt.seeRdh, hoff]
      simp only [hm, Bool.false_eq_true, ↓reduceIte, hseek, Bool.not_true]
      have hrest : (seekNext (ScanSt.seeRdh { s with rest := p.payload ++ (bytesOf ps ++ tail) } (decodeRdh p.hdr))
          (decodeRdh p.hdr).offsetNext).rest = bytesOf ps ++ tail := by
        simp [seekNext, ScanSt.seeRdh, hoff]
      have hpos : (seekNext (ScanSt.seeRdh { s with rest := p.payload ++ (bytesOf ps ++ tail) } (decodeRdh p.hdr))
          (decodeRdh p.hdr).offsetNext).pos = s.pos + p.size := by
        simp [seekNext, ScanSt.seeRdh, hoff, RawPkt.size]
      have := ih (fun q hq => hwf q (by simp [hq])) _ (acc ++ ScanSt.seeMsgs { s with rest := p.payload ++ (bytesOf ps ++ tail) } (decodeRdh p.hdr)) hrest
      rw [hpos] at this
      simp only [firstMatch, filterMatches, RawPkt.rdh, hm, Bool.false_eq_true, ↓reduceIte]
      exact this


theorem firstMatch_bytes_len (f : Option Filter) (ps : List RawPkt) (hwf : ∀ p ∈ ps, WF p) :
    ∀ o o' p post, firstMatch f o ps = some (o', p, post) →
      (bytesOf post).length + 64 ≤ (bytesOf ps).length := by
  induction ps with
  | nil => intro o o' p post h; simp [firstMatch] at h
  | cons q qs ih =>
    intro o o' p post h
    have hq := (hwf q (by simp)).hlen
    simp only [firstMatch] at h
    rw [bytesOf_cons]
    simp only [List.length_append, hq]
    split at h
    · simp only [Option.some.injEq, Prod.mk.injEq] at h
      obtain ⟨_, _, rfl⟩ := h
      omega
    · have := ih (fun x hx => hwf x (by simp [hx])) _ o' p post h
      omega

theorem loadRdh_spec (cfg : ScanCfg) (ps : List RawPkt) (hwf : ∀ p ∈ ps, WF p)
    (tail : Bytes) (htail : tail.length < 64)
    (s : ScanSt) (hs : s.rest = bytesOf ps ++ tail) :
    match firstMatch cfg.filter s.pos ps with
    | none => (loadRdh cfg s).2.2 = .error .eof
    | some (o', p, post) =>
      (loadRdh cfg s).2.2 = .ok p.rdh ∧
      (loadRdh cfg s).1.rest = p.payload ++ (bytesOf post ++ tail) ∧
      (loadRdh cfg s).1.pos = o' := by
  cases ps with
  | nil =>
    simp only [bytesOf, List.flatMap_nil, List.nil_append] at hs
    simp [firstMatch, loadRdh, hs, htail]
  | cons p ps =>
    have hp := hwf p (by simp)
    rw [bytesOf_cons, List.append_assoc, List.append_assoc] at hs
    obtain ⟨ht, hd, hl⟩ := take_hdr p hp (p.payload ++ (bytesOf ps ++ tail))
    have hok := offsetOk_of_wf p hp
    simp only [RawPkt.rdh] at hok
    have hoff : (decodeRdh p.hdr).offsetNext = 64 + p.payload.length := hp.off
    unfold loadRdh
    simp only [hs, hl, ↓reduceIte, ht, hd, hok, Bool.not_true, Bool.false_eq_true]
    cases hf : cfg.filter with
    | none => simp [firstMatch, filterMatches, RawPkt.rdh, ScanSt.seeRdh]
    | some t =>
      by_cases hm : t.matches (decodeRdh p.hdr) = true
      · simp [firstMatch, filterMatches, RawPkt.rdh, hm, ScanSt.seeRdh]
      · have hseek : seekOk cfg.src (ScanSt.seeRdh { s with rest := p.payload ++ (bytesOf ps ++ tail) } (decodeRdh p.hdr))
            (decodeRdh p.hdr).offsetNext = true := by
          cases cfg.src <;> simp [seekOk, ScanSt.seeRdh, hoff]
        have hrest : (seekNext (ScanSt.seeRdh { s with rest := p.payload ++ (bytesOf ps ++ tail) } (decodeRdh p.hdr))
            (decodeRdh p.hdr).offsetNext).rest = bytesOf ps ++ tail := by
          simp [seekNext, ScanSt.seeRdh, hoff]
        have hpos : (seekNext (ScanSt.seeRdh { s with rest := p.payload ++ (bytesOf ps ++ tail) } (decodeRdh p.hdr))
            (decodeRdh p.hdr).offsetNext).pos = s.pos + p.size := by
          simp [seekNext, ScanSt.seeRdh, hoff, RawPkt.size]
        have hfl := filterLoop_spec cfg.src t ps (fun q hq => hwf q (by simp [hq])) tail htail _ [] hrest
        rw [hpos] at hfl
        simp only [hm, Bool.false_eq_true, ↓reduceIte, hseek, Bool.not_true]
        simp only [firstMatch, filterMatches, RawPkt.rdh, hm, Bool.false_eq_true, ↓reduceIte]
        generalize hfm : firstMatch (some t) (s.pos + p.size) ps = fm at hfl
        cases fm with
        | none =>
          simp only at hfl ⊢
          generalize filterLoop cfg.src t _ [] = r at hfl
          obtain ⟨s3, m2, res⟩ := r
          simp only at hfl
          subst hfl
          rfl
        | some x =>
          obtain ⟨o', q, post⟩ := x
          simp only at hfl ⊢
          generalize filterLoop cfg.src t _ [] = r at hfl
          obtain ⟨s3, m2, res⟩ := r
          simp only at hfl
          obtain ⟨h1, h2, h3⟩ := hfl
          subst h1
          exact ⟨rfl, h2, h3⟩

theorem loadCdp_spec (cfg : ScanCfg) (ps : List RawPkt) (hwf : ∀ p ∈ ps, WF p)
    (tail : Bytes) (htail : tail.length < 64)
    (s : ScanSt) (hs : s.rest = bytesOf ps ++ tail) :
    match firstMatch cfg.filter s.pos ps with
    | none => ∃ e, (loadCdp cfg s).2.2 = .error e ∧ e = .eof
    | some (o', p, post) =>
      (loadCdp cfg s).2.2 = .ok (mkPacket cfg.skipPayload (o', p)) ∧
      (loadCdp cfg s).1.rest = bytesOf post ++ tail ∧
      (loadCdp cfg s).1.pos = o' + p.size := by
  have h := loadRdh_spec cfg ps hwf tail htail s hs
  generalize hfm : firstMatch cfg.filter s.pos ps = fm at h
  unfold loadCdp
  generalize loadRdh cfg s = r at h
  obtain ⟨s1, m, res⟩ := r
  cases fm with
  | none =>
    simp only at h
    subst h
    exact ⟨.eof, rfl, rfl⟩
  | some x =>
    obtain ⟨o', p, post⟩ := x
    simp only at h
    obtain ⟨h1, h2, h3⟩ := h
    subst h1
    have hp : WF p := by
      -- p is a member of ps
      have : ∀ (l : List RawPkt) o, firstMatch cfg.filter o l = some (o', p, post) → p ∈ l := by
        intro l
        induction l with
        | nil => intro o h; simp [firstMatch] at h
        | cons q qs ih =>
          intro o h
          simp only [firstMatch] at h
          split at h
          · simp only [Option.some.injEq, Prod.mk.injEq] at h
            simp [h.2.1]
          · exact List.mem_cons_of_mem _ (ih _ h)
      exact hwf p (this ps _ hfm)
    have hoff : p.rdh.offsetNext = 64 + p.payload.length := hp.off
    have hsz := payloadSize_eq p hp
    simp only
    by_cases hskip : cfg.skipPayload = true
    · have hseek : seekOk cfg.src s1 p.rdh.offsetNext = true := by
        cases cfg.src <;> simp [seekOk, h2, hoff]
      simp [hskip, hseek, seekNext, h2, h3, hoff, mkPacket, RawPkt.size]
    · have hlen : ¬ (p.payload.length + ((bytesOf post).length + tail.length) < p.payload.length) := by omega
      simp [hskip, h2, h3, hsz, mkPacket, RawPkt.size, hoff, hlen]

/-- the scan loop delivers exactly the expected packets, from any reached position -/
theorem scanLoop_spec (cfg : ScanCfg) (tail : Bytes) (htail : tail.length < 64) :
    ∀ (n : Nat) (ps : List RawPkt), ps.length ≤ n →
    (∀ p ∈ ps, WF p) → ∀ (s : ScanSt) (pk : List Packet) (ms : List InMsg), s.rest = bytesOf ps ++ tail →
      (scanLoop cfg s pk ms).packets = pk ++ expected cfg s.pos ps ∧
      (scanLoop cfg s pk ms).endedBy = .eof := by
  intro n
  induction n with
  | zero =>
    intro ps hlen hwf s pk ms hs
    have : ps = [] := List.eq_nil_of_length_eq_zero (by omega)
    subst this
    have h := loadCdp_spec cfg [] hwf tail htail s hs
    simp only [firstMatch] at h
    obtain ⟨e, he, rfl⟩ := h
    rw [scanLoop]
    generalize hl : loadCdp cfg s = r at he
    obtain ⟨s1, m, res⟩ := r
    simp only at he
    subst he
    simp [expected, chain]
  | succ n ih =>
    intro ps hlen hwf s pk ms hs
    have h := loadCdp_spec cfg ps hwf tail htail s hs
    rw [expected_unfold]
    generalize hfm : firstMatch cfg.filter s.pos ps = fm at h
    rw [scanLoop]
    generalize hl : loadCdp cfg s = r at h
    obtain ⟨s1, m, res⟩ := r
    cases fm with
    | none =>
      simp only at h
      obtain ⟨e, he, rfl⟩ := h
      subst he
      simp
    | some x =>
      obtain ⟨o', p, post⟩ := x
      simp only at h
      obtain ⟨h1, h2, h3⟩ := h
      subst h1
      have hlt := firstMatch_bytes_len cfg.filter ps hwf s.pos o' p post hfm
      have hguard : s1.rest.length < s.rest.length := by
        rw [h2, hs]; simp only [List.length_append]; omega
      simp only [hguard, ↓reduceIte]
      have hpl := firstMatch_post_len cfg.filter s.pos ps o' p post hfm
      have hwf' : ∀ q ∈ post, WF q := by
        have : ∀ (l : List RawPkt) o, firstMatch cfg.filter o l = some (o', p, post) → ∀ q ∈ post, q ∈ l := by
          intro l
          induction l with
          | nil => intro o h; simp [firstMatch] at h
          | cons a as ih2 =>
            intro o h q hq
            simp only [firstMatch] at h
            split at h
            · simp only [Option.some.injEq, Prod.mk.injEq] at h
              obtain ⟨_, _, rfl⟩ := h
              exact List.mem_cons_of_mem _ hq
            · exact List.mem_cons_of_mem _ (ih2 _ h q hq)
        intro q hq
        exact hwf q (this ps _ hfm q hq)
      have := ih post (by omega) hwf' s1 (pk ++ [mkPacket cfg.skipPayload (o', p)]) (ms ++ m) h2
      rw [h3] at this
      simp only [this.1, this.2, List.append_assoc, List.singleton_append, and_self]

/-- **C03**: for every well-framed input the scanner visits exactly the RDHs at the chained
    offsets, once each and in order, each with its true offset, its decoded header and exactly
    its payload bytes — for every filter, payloads loaded or skipped, file or pipe, and any packet
    count (the reader's batching is invisible). -/
theorem scan_exact (cfg : ScanCfg) (ps : List RawPkt) (hwf : ∀ p ∈ ps, WF p) :
    (scanAll cfg (bytesOf ps)).packets = expected cfg 0 ps := by
  have h := scanLoop_spec cfg [] (by simp) ps.length ps (Nat.le_refl _) hwf { rest := bytesOf ps } [] []
    (by simp)
  unfold scanAll
  simp only [h.1]
  simp

/-- **prefix form (used by C18)**: if the input ends inside an RDH (fewer than 64 trailing bytes
    after the last complete packet), exactly the complete packets are delivered — each with the
    same offset, header and payload as in the untruncated input -/
theorem scan_complete_prefix (cfg : ScanCfg) (ps : List RawPkt) (hwf : ∀ p ∈ ps, WF p)
    (tail : Bytes) (htail : tail.length < 64) :
    (scanAll cfg (bytesOf ps ++ tail)).packets = expected cfg 0 ps := by
  have h := scanLoop_spec cfg tail htail ps.length ps (Nat.le_refl _) hwf { rest := bytesOf ps ++ tail } [] [] rfl
  unfold scanAll
  simp only [h.1]
  simp

/-- file and pipe deliver the same packets on well-framed input -/
theorem scan_src_irrelevant (f : Option Filter) (skip : Bool) (ps : List RawPkt) (hwf : ∀ p ∈ ps, WF p) :
    (scanAll { filter := f, skipPayload := skip, src := .file } (bytesOf ps)).packets =
    (scanAll { filter := f, skipPayload := skip, src := .pipe } (bytesOf ps)).packets := by
  rw [scan_exact _ ps hwf, scan_exact _ ps hwf]
  rfl

/-- the header round trip: re-serialising a decoded header gives back the 64 bytes -/
theorem natLe_leNat (bs : Bytes) : natLe bs.length (leNat bs) = bs := by
  induction bs with
  | nil => rfl
  | cons b bs ih =>
    have hb := b.toNat_lt
    simp only [List.length_cons, natLe, leNat]
    have h1 : (b.toNat + 256 * leNat bs) % 256 = b.toNat := by omega
    have h2 : (b.toNat + 256 * leNat bs) / 256 = leNat bs := by omega
    rw [h1, h2, ih]
    simp


theorem slice_length (bs : Bytes) (i n : Nat) (h : i + n ≤ bs.length) : (slice bs i n).length = n := by
  unfold slice; simp only [List.length_take, List.length_drop]; omega

theorem natLe_leField (bs : Bytes) (i n : Nat) (h : i + n ≤ bs.length) :
    natLe n (leField bs i n) = slice bs i n := by
  have := natLe_leNat (slice bs i n)
  rw [slice_length bs i n h] at this
  exact this

theorem slice_append_drop (bs : Bytes) (i n : Nat) : slice bs i n ++ bs.drop (i + n) = bs.drop i := by
  unfold slice
  rw [← List.drop_drop, List.take_append_drop]

/-- `to_byte_slice ∘ from_buf = id` on 64-byte headers: the filtered output re-serialises a
    parsed header to exactly the bytes it was parsed from -/
theorem encode_decode (bs : Bytes) (h : bs.length = 64) : encodeRdh (decodeRdh bs) = bs := by
  unfold encodeRdh decodeRdh
  have n := fun i k (hh : i + k ≤ 64) => natLe_leField bs i k (by omega)
  simp only [n 0 1 (by omega), n 1 1 (by omega), n 2 2 (by omega), n 4 1 (by omega), n 5 1 (by omega),
    n 6 2 (by omega), n 8 2 (by omega), n 10 2 (by omega), n 12 1 (by omega), n 13 1 (by omega),
    n 14 2 (by omega), n 16 4 (by omega), n 20 4 (by omega), n 24 8 (by omega), n 32 4 (by omega),
    n 36 2 (by omega), n 38 1 (by omega), n 39 1 (by omega), n 40 8 (by omega), n 48 4 (by omega),
    n 52 2 (by omega), n 54 2 (by omega), n 56 8 (by omega), List.append_assoc]
  have hlast : slice bs 56 8 = bs.drop 56 := by
    unfold slice
    rw [List.take_of_length_le]
    simp only [List.length_drop]; omega
  rw [hlast]
  have e := slice_append_drop bs
  rw [e 54 2, e 52 2, e 48 4, e 40 8, e 39 1, e 38 1, e 36 2, e 32 4, e 24 8, e 20 4, e 16 4, e 14 2,
    e 13 1, e 12 1, e 10 2, e 8 2, e 6 2, e 5 1, e 4 1, e 2 2, e 1 1, e 0 1]
  rfl

/-! ### tie by translation: the filter predicate and the position tracker are the source's
    (`Spec/ScanSrcGen.lean`, translated from `input_scanner.rs`, `config/filter.rs`, `mem_pos_tracker.rs` on this run) -/
/-- which headers a `--filter-link` / `--filter-fee` / `--filter-its-stave` option selects: for every header and target the
    source's `is_rdh_filter_target` is the `Filter.matches` the theorems above are about (layer/stave mask included) -/
theorem filter_src (c : SrcRdh.RdhCru) (t : SrcScan.FilterTarget) :
    SrcScan.is_rdh_filter_target c t = filterMatches (some (ScanSrcTie.toFilter t)) (SrcTie.toModel c) :=
  ScanSrcTie.filter_target_eq c t

/-- the offsets the tool attaches to packets come from `MemPosTracker`: when the tracker's address is the model's `pos`,
    a seek over an accepted offset (`64 ≤ off`) leaves the address at the model's new `pos`, and asks the reader to skip exactly the
    bytes the model drops; likewise for `update_mem_address`. (No wrap-around: input below 2^64 bytes.) -/
theorem tracker_src (t : SrcScan.MemPosTracker) (s : ScanSt) (off : Nat) (h64 : 64 ≤ off) (hoff : off < 2^16)
    (hsz : t.f_rdh_cru_size_bytes = 64) (hp : t.current_mem_address = s.pos) (hpos : s.pos + off < 2^64) :
    (t.next off).2.current_mem_address = (seekNext s off).pos ∧
    (seekNext s off).rest = s.rest.drop ((t.next off).1).toNat ∧
    (t.update_mem_address off).2.current_mem_address = s.pos + off ∧
    SrcScan.MemPosTracker.new.current_mem_address = ({ rest := s.rest } : ScanSt).pos := by
  have hp' : t.f_memory_address_bytes = s.pos := hp
  obtain ⟨h0, _, h1, h2, _, h3, _⟩ := ScanSrcTie.tracker_eq t off h64 hoff hsz (by omega)
  refine ⟨by rw [h2, hp]; rfl, by rw [h1]; rfl, by rw [h3, hp], h0⟩

/-! ### non-vacuity -/
def exHdr (off : Nat) (link : UInt8) : Bytes :=
  [7, 0x40, 12, 0, 0, 32, 0, 0] ++ natLe 2 off ++ natLe 2 off ++ [link, 0, 0, 0] ++ List.replicate 48 0
example : WF ⟨exHdr 80 3, List.replicate 16 0xAA⟩ := by
  constructor <;> decide

end C03
end FastPasta
