/-
  C12 — payloads are cut into words correctly; padding is never a word.

  Specification side: the two documented payload layouts, written as encoders —
  format 2: the 10-byte words back to back, then `pad ≤ 15` bytes of 0xFF;
  format 0: every word in a 16-byte slot, followed by six bytes of 0x00.
  Theorems: the cutter inverts both encoders for every word list (any length, any contents,
  under the conditions the layouts themselves impose), so every word is produced exactly once,
  in order, and no padding byte is part of a word; a payload ending in more than 15 bytes of
  0xFF is reported once at the RDH offset, none of its bytes is examined, and the protocol
  state machine is back in its initial state.
-/
import FastPasta.Model.Cdp
import FastPasta.Proofs.PayloadSrcTie
import FastPasta.Proofs.Chunks
namespace FastPasta
namespace C12

def encFormat2 (words : List Bytes) (pad : Nat) : Bytes := words.flatten ++ List.replicate pad 0xFF
def encFormat0 (words : List Bytes) : Bytes := (words.map (· ++ List.replicate 6 0x00)).flatten

/-- last byte of the last word is not 0xFF (it is the word's ID; 0xFF is not an ITS word ID) -/
def LastIdNotFF (words : List Bytes) : Prop :=
  words = [] ∨ ∃ b, words.flatten.getLast? = some b ∧ b ≠ 0xFF

theorem cut_format2 (words : List Bytes) (pad : Nat)
    (hlen : ∀ w ∈ words, w.length = 10) (hpad : pad ≤ 15) (hlast : LastIdNotFF words)
    (hfmt : detectV0 (encFormat2 words pad) = false) :
    cutPayload (encFormat2 words pad) = some words := by
  have hff : ffRun (encFormat2 words pad) = pad := by
    unfold encFormat2
    apply ffRun_append_replicate
    rcases hlast with rfl | h
    · left; rfl
    · right; exact h
  unfold cutPayload
  simp only [hff, hfmt, Bool.false_eq_true, ↓reduceIte]
  have h15 : ¬ pad > 15 := by omega
  simp only [h15, ↓reduceIte]
  by_cases h9 : pad > 9
  · simp only [h9, ↓reduceIte]
    have : (encFormat2 words pad).take ((encFormat2 words pad).length - pad) = words.flatten ++ [] := by
      unfold encFormat2
      simp [List.take_append]
    rw [this, chunksExact_flatten 10 (by omega) words [] hlen (by simp)]
  · simp only [h9, ↓reduceIte]
    unfold encFormat2
    rw [chunksExact_flatten 10 (by omega) words _ hlen (by simp; omega)]

theorem encFormat0_getLast (words : List Bytes) (hne : words ≠ []) :
    (encFormat0 words).getLast? = some 0x00 := by
  induction words with
  | nil => exact absurd rfl hne
  | cons w ws ih =>
    unfold encFormat0 at *
    simp only [List.map_cons, List.flatten_cons]
    by_cases hws : ws = []
    · subst hws
      simp [List.getLast?_append, List.replicate]
    · rw [List.getLast?_append, ih hws]
      rfl

theorem ffRun_encFormat0 (words : List Bytes) (hne : words ≠ []) : ffRun (encFormat0 words) = 0 := by
  have h := ffRun_append_replicate (encFormat0 words) 0
    (Or.inr ⟨0x00, encFormat0_getLast words hne, by decide⟩)
  simpa using h

theorem detectV0_encFormat0 (w : Bytes) (ws : List Bytes) (hw : w.length = 10) :
    detectV0 (encFormat0 (w :: ws)) = true := by
  unfold detectV0 encFormat0
  simp only [List.map_cons, List.flatten_cons, List.append_assoc]
  rw [← hw, List.drop_left']
  · simp [List.replicate, List.take, List.takeWhile]
  · rfl

theorem cut_format0 (words : List Bytes) (hne : words ≠ []) (hlen : ∀ w ∈ words, w.length = 10) :
    cutPayload (encFormat0 words) = some words := by
  obtain ⟨w, ws, rfl⟩ := List.exists_cons_of_ne_nil hne
  have hw : w.length = 10 := hlen w (by simp)
  unfold cutPayload
  simp only [ffRun_encFormat0 (w :: ws) hne, detectV0_encFormat0 w ws hw, ↓reduceIte]
  have h0 : ¬ (0 > 15) := by omega
  simp only [h0, ↓reduceIte, Option.some.injEq]
  have hs : ∀ x ∈ (w :: ws).map (· ++ List.replicate 6 (0x00 : UInt8)), x.length = 16 := by
    intro x hx
    simp only [List.mem_map] at hx
    obtain ⟨y, hy, rfl⟩ := hx
    simp [hlen y hy]
  have := chunksExact_flatten 16 (by omega) _ [] hs (by simp)
  simp only [List.append_nil] at this
  unfold encFormat0
  rw [this, List.map_map]
  have : ∀ y ∈ (w :: ws), ((fun x => List.take 10 x) ∘ fun x => x ++ List.replicate 6 (0x00 : UInt8)) y = y := by
    intro y hy
    simp only [Function.comp]
    rw [← hlen y hy, List.take_left']
    rfl
  rw [List.map_congr_left this, List.map_id']

/-- more than 15 trailing 0xFF bytes: the cutter refuses the payload … -/
theorem cut_overpadded (p : Bytes) (h : ffRun p > 15) : cutPayload p = none := by
  unfold cutPayload; simp [h]

/-- … and the validator reports exactly one (code-less) payload error at the RDH offset, checks
    no word, and leaves the state machine in its initial state, so the next packet is judged from
    the initial state. -/
theorem overpadded_reported_and_reset (cfg : CheckCfg) (s : CdpSt) (off : Nat) (r : Rdh) (p : Bytes)
    (h : ffRun p > 15) (s0 : CdpSt) (h0 : setCurrentRdh cfg s off r = .ok s0) :
    ∃ s', payloadChecks cfg s off r p = .ok (s', [mkErrNoWord off "PAYLOAD"]) ∧ s'.fsm = .initialIhw := by
  unfold payloadChecks
  simp only [h0, cut_overpadded p h]
  exact ⟨_, rfl, rfl⟩

/-- every word the validator examines is an element of the cutter's output, in order: by
    definition `payloadChecks` folds `checkWord` over `cutPayload p`, starting from the tracker
    state `set_current_rdh` produces (word counter 0, payload position = packet offset + 64, slot
    from the header's data format) -/
theorem words_examined_are_cut (cfg : CheckCfg) (s : CdpSt) (off : Nat) (r : Rdh) (p : Bytes)
    (ws : List Bytes) (hc : cutPayload p = some ws) (s0 : CdpSt) (h0 : setCurrentRdh cfg s off r = .ok s0) :
    payloadChecks cfg s off r p = checkWords cfg s0 ws ∧
    s0.payloadPos = off + 64 ∧ s0.wordCount = 0 ∧ s0.slot = (if r.dataFormat == 0 then 16 else 10) := by
  refine ⟨by unfold payloadChecks; simp only [h0, hc], ?_⟩
  unfold setCurrentRdh at h0
  simp only at h0
  split at h0
  · split at h0
    · cases h0
    · simp only [Except.ok.injEq] at h0; subst h0; exact ⟨rfl, rfl, rfl⟩
  · simp only [Except.ok.injEq] at h0; subst h0; exact ⟨rfl, rfl, rfl⟩

/-- every chunk the cutter produces has exactly 10 bytes (so the word accessors are in range) -/
theorem cut_words_len10_v2 (p : Bytes) (ws : List Bytes) (hv : detectV0 p = false)
    (hc : cutPayload p = some ws) : ∀ w ∈ ws, w.length = 10 := by
  have key : ∀ (l : Bytes), ∀ w ∈ chunksExact 10 l, w.length = 10 := by
    intro l
    induction l using chunksExact.induct (n := 10) with
    | case1 l h =>
      intro w hw
      rw [chunksExact] at hw
      simp only [h, ↓reduceDIte] at hw
      cases hw
    | case2 l h ih =>
      intro w hw
      rw [chunksExact] at hw
      simp only [h, ↓reduceDIte, List.mem_cons] at hw
      rcases hw with rfl | hw
      · simp only [List.length_take]; omega
      · exact ih w hw
  unfold cutPayload at hc
  simp only [hv, Bool.false_eq_true, ↓reduceIte] at hc
  split at hc
  · simp at hc
  · split at hc <;> (simp only [Option.some.injEq] at hc; subst hc; exact key _)

/-! ### non-vacuity: the hypotheses are met by concrete payloads -/
example : cutPayload (encFormat2 [[0,0,0,0,0,0,0,0,0,0xE0],[3,0,0,0,1,0,0,0,0,0xE8]] 12)
    = some [[0,0,0,0,0,0,0,0,0,0xE0],[3,0,0,0,1,0,0,0,0,0xE8]] :=
  cut_format2 _ 12 (by decide) (by decide) (Or.inr ⟨0xE8, by decide, by decide⟩) (by decide)
example : cutPayload (encFormat0 [[0,0,0,0,0,0,0,0,0,0xE0],[3,0,0,0,1,0,0,0,0,0xE8]])
    = some [[0,0,0,0,0,0,0,0,0,0xE0],[3,0,0,0,1,0,0,0,0,0xE8]] :=
  cut_format0 _ (by decide) (by decide)
example : cutPayload (List.replicate 16 0xFF) = none := cut_overpadded _ (by decide)


/-! ### tie by translation: `cutPayload` is the source's `preprocess_payload` (translated on this run by `tools/rs2lean.py`
    into `Spec/PayloadSrcGen.lean`; proof in `Proofs/PayloadSrcTie.lean`), so every theorem of this file about `cutPayload`
    is a theorem about the source text as it is now -/
theorem preprocess_src_eq (p : Bytes) (hp : p.length < 2^64) :
    cutPayload p = (match SrcPayload.preprocess_payload p with | .err _ => none | .ok cs => some (cs.map (·.take 10))) :=
  SrcTie.preprocess_eq p hp

/-- the over-padding error of the source is raised exactly for more than 15 trailing bytes of 0xFF -/
theorem preprocess_src_err_iff (p : Bytes) (hp : p.length < 2^64) :
    (SrcPayload.preprocess_payload p).isErr = true ↔ ffRun p > 15 := by
  have h := SrcTie.preprocess_eq p hp
  unfold cutPayload at h
  cases hr : SrcPayload.preprocess_payload p with
  | ok cs =>
    rw [hr] at h
    by_cases h15 : ffRun p > 15
    · simp [h15] at h
    · simp [h15, Rs.Res.isErr]
  | err e =>
    rw [hr] at h
    by_cases h15 : ffRun p > 15
    · simp [h15, Rs.Res.isErr]
    · simp only [h15, if_false] at h
      split at h <;> (try split at h) <;> simp at h

end C12
end FastPasta
