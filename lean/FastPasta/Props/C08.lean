/-
  C08 — filtered output is exact, lossless and partitions the input.
  Corollaries of `C03.scan_exact` and the header round trip `C03.encode_decode`:
  the bytes written are, byte for byte, the concatenation in input order of all and only the
  packets whose header matches the filter; an output is well-framed; filtering it again
  reproduces it; the outputs over all values of a key (link / FEE ID) partition the input.
-/
import FastPasta.Props.C03
import FastPasta.Model.Cli
namespace FastPasta
namespace C08
open C03

/-- what the writer thread writes: every delivered packet re-serialised (`to_byte_slice`) followed
    by its payload, in delivery order (buffer flush points do not change the concatenation) -/
def writerOutput (f : Filter) (src : Src) (input : Bytes) : Bytes :=
  (scanAll { filter := some f, skipPayload := false, src := src } input).packets.flatMap encodePacket

theorem chain_filter_map_snd (m : RawPkt → Bool) (o : Nat) (ps : List RawPkt) :
    ((chain o ps).filter (fun x => m x.2)).map (·.2) = ps.filter m := by
  induction ps generalizing o with
  | nil => rfl
  | cons p ps ih =>
    simp only [chain, List.filter_cons]
    split <;> simp [ih]

theorem flatMap_congr' {α β} (l : List α) (f g : α → List β) (h : ∀ x ∈ l, f x = g x) :
    l.flatMap f = l.flatMap g := by
  induction l with
  | nil => rfl
  | cons a as ih =>
    simp only [List.flatMap_cons]
    rw [h a (by simp), ih (fun x hx => h x (by simp [hx]))]

theorem sum_map_zero (ks : List Nat) : (ks.map (fun _ => 0)).sum = 0 := by
  induction ks with
  | nil => rfl
  | cons a as ih => simp [ih]

theorem writer_exact (f : Filter) (src : Src) (ps : List RawPkt) (hwf : ∀ p ∈ ps, WF p) :
    writerOutput f src (bytesOf ps) = bytesOf (ps.filter (fun p => f.matches p.rdh)) := by
  unfold writerOutput
  rw [scan_exact _ ps hwf]
  unfold expected bytesOf
  simp only [filterMatches]
  rw [← chain_filter_map_snd (fun p => f.matches p.rdh) 0 ps]
  rw [List.flatMap_map, List.flatMap_map]
  apply flatMap_congr'
  intro x hx
  have hmem : x.2 ∈ ps := by
    have : ∀ (o : Nat) (l : List RawPkt) (y : Nat × RawPkt), y ∈ chain o l → y.2 ∈ l := by
      intro o l
      induction l generalizing o with
      | nil => intro y hy; simp [chain] at hy
      | cons q qs ih =>
        intro y hy
        simp only [chain, List.mem_cons] at hy
        rcases hy with rfl | hy
        · simp
        · exact List.mem_cons_of_mem _ (ih _ y hy)
    exact this 0 ps x (List.mem_filter.mp hx).1
  have hx2 := hwf x.2 hmem
  simp [encodePacket, mkPacket, RawPkt.rdh, RawPkt.bytes, encode_decode x.2.hdr hx2.hlen]

/-- file and pipe, any source: same bytes -/
theorem writer_src_irrelevant (f : Filter) (ps : List RawPkt) (hwf : ∀ p ∈ ps, WF p) :
    writerOutput f .file (bytesOf ps) = writerOutput f .pipe (bytesOf ps) := by
  rw [writer_exact f .file ps hwf, writer_exact f .pipe ps hwf]

/-- an output is well-framed (it is `bytesOf` of well-framed packets) … -/
theorem output_well_framed (f : Filter) (ps : List RawPkt) (hwf : ∀ p ∈ ps, WF p) :
    ∀ p ∈ ps.filter (fun p => f.matches p.rdh), WF p :=
  fun p hp => hwf p (List.mem_filter.mp hp).1

/-- … and filtering it again with the same filter reproduces it -/
theorem idempotent (f : Filter) (src : Src) (ps : List RawPkt) (hwf : ∀ p ∈ ps, WF p) :
    writerOutput f src (writerOutput f src (bytesOf ps)) = writerOutput f src (bytesOf ps) := by
  rw [writer_exact f src ps hwf, writer_exact f src _ (output_well_framed f ps hwf), List.filter_filter]
  simp

/-- partition by a key (link id, FEE ID): every packet is in the output of exactly its own key
    value, and the outputs of the distinct key values together have exactly the input's packets -/
theorem partition_membership (key : RawPkt → Nat) (ps : List RawPkt) (p : RawPkt) (hp : p ∈ ps) (k : Nat) :
    p ∈ ps.filter (fun q => key q == k) ↔ k = key p := by
  simp only [List.mem_filter, hp, true_and, beq_iff_eq]
  exact eq_comm

theorem partition_count (key : RawPkt → Nat) (ps : List RawPkt) (ks : List Nat) (hnd : ks.Nodup)
    (hall : ∀ p ∈ ps, key p ∈ ks) :
    (ks.map (fun k => (ps.filter (fun q => key q == k)).length)).sum = ps.length := by
  induction ps with
  | nil => simpa using sum_map_zero ks
  | cons p ps ih =>
    have hk : key p ∈ ks := hall p (by simp)
    have ih' := ih (fun q hq => hall q (by simp [hq]))
    have : ∀ k ∈ ks, ((p :: ps).filter (fun q => key q == k)).length =
        (ps.filter (fun q => key q == k)).length + (if k = key p then 1 else 0) := by
      intro k _
      simp only [List.filter_cons]
      by_cases h : key p = k
      · simp [h]
      · have : ¬ k = key p := fun c => h c.symm
        simp [h, this]
    rw [List.map_congr_left this]
    have hsum : ∀ (l : List Nat) (g : Nat → Nat), l.Nodup → key p ∈ l →
        (l.map (fun k => g k + (if k = key p then 1 else 0))).sum = (l.map g).sum + 1 := by
      intro l g
      induction l with
      | nil => intro _ h; simp at h
      | cons a as iha =>
        intro hnd hmem
        simp only [List.nodup_cons] at hnd
        simp only [List.map_cons, List.sum_cons]
        by_cases ha : a = key p
        · subst ha
          have : (as.map (fun k => g k + (if k = key p then 1 else 0))) = as.map g := by
            apply List.map_congr_left
            intro k hk
            have : k ≠ key p := fun c => hnd.1 (c ▸ hk)
            simp [this]
          rw [this]; simp; omega
        · have hmem' : key p ∈ as := by
            rcases List.mem_cons.mp hmem with h | h
            · exact absurd h.symm ha
            · exact h
          rw [iha hnd.2 hmem']
          simp [ha]; omega
    rw [hsum ks _ hnd hk, ih']
    simp

/-- the link-id key -/
theorem link_filter_is_key (l : Nat) (p : RawPkt) :
    (Filter.link l).matches p.rdh = (p.rdh.linkId == l) := rfl

/-! ### non-vacuity: a two-link input split by link -/
example : (C03.bytesOf ([⟨exHdr 80 3, List.replicate 16 0xAA⟩, ⟨exHdr 64 5, []⟩].filter
    (fun p => (Filter.link 5).matches p.rdh))).length = 64 := by decide

end C08
end FastPasta
