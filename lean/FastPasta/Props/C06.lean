/-
  C06 — each link is validated as if it were alone.

  `dispatch_partition`: for every packet list (any interleaving of any number of links, conforming
  or corrupted) the messages the dispatcher's validator for id `i` produces equal the messages of
  one sequential pass of a fresh validator over exactly the packets of id `i`, in their order.
  Corollaries: `interleave_invariant` (two packet lists with the same per-id subsequences give the
  same per-id findings), `other_links_irrelevant` (changing, adding or removing packets of other ids
  — e.g. corrupting another link — cannot add or remove a finding of id `i`).
  The offsets in the findings are those the packets carry; relocation between a full file, an
  extracted file and a filtered run is the offset map of C03 (`scan_exact`: a packet is delivered
  with the same header and payload and its own offset under every filter).
-/
import FastPasta.Model.Dispatch
import FastPasta.Proofs.Link
namespace FastPasta
namespace C06

/-- the sequential single-validator pass -/
def alone (cfg : CheckCfg) (ps : List Packet) : Except PanicSite (List Msg) :=
  match linkRun cfg (LinkSt.init cfg) ps with
  | .error e => .error e
  | .ok (_, m) => .ok m

def ofId (cfg : CheckCfg) (i : Nat) (ps : List Packet) : List Packet :=
  ps.filter (fun p => dispatchId cfg p.rdh == i)

/-- what the dispatcher holds for id `i` (the first entry with that id) -/
def entry (d : DispSt) (i : Nat) : Option (Nat × LinkSt × List Msg) := d.find? (·.1 == i)

/-- invariant of the dispatcher state after the packet list `done`: the entry of every id holds
    exactly the state and messages of a sequential pass of a fresh validator over that id's own
    packets; an id without packets has no entry -/
def Inv (cfg : CheckCfg) (done : List Packet) (d : DispSt) : Prop :=
  ∀ i, match entry d i with
    | none => ofId cfg i done = []
    | some x => linkRun cfg (LinkSt.init cfg) (ofId cfg i done) = .ok (x.2.1, x.2.2)

theorem ofId_snoc (cfg : CheckCfg) (i : Nat) (ps : List Packet) (p : Packet) :
    ofId cfg i (ps ++ [p]) = if dispatchId cfg p.rdh == i then ofId cfg i ps ++ [p] else ofId cfg i ps := by
  unfold ofId
  rw [List.filter_append]
  by_cases h : (dispatchId cfg p.rdh == i) = true <;> simp [h]

/-- one dispatch step touches only the entry of the packet's own id … -/
theorem upd_other (cfg : CheckCfg) (p : Packet) (id : Nat) (j : Nat) (hj : j ≠ id) :
    ∀ (d d' : DispSt), dispStep.upd cfg p id d = .ok d' → entry d' j = entry d j := by
  intro d
  induction d with
  | nil =>
    intro d' h
    simp only [dispStep.upd] at h
    cases hs : linkStep cfg (LinkSt.init cfg) p with
    | error e => simp [hs] at h
    | ok r =>
      obtain ⟨s, m⟩ := r
      simp only [hs, Except.ok.injEq] at h
      subst h
      have : (id == j) = false := by simp [Ne.symm hj]
      simp [entry, this]
  | cons y ys ih =>
    obtain ⟨i, s, ms⟩ := y
    intro d' h
    simp only [dispStep.upd] at h
    by_cases hi : (i == id) = true
    · simp only [hi, ↓reduceIte] at h
      cases hs : linkStep cfg s p with
      | error e => simp [hs] at h
      | ok r =>
        obtain ⟨s', m⟩ := r
        simp only [hs, Except.ok.injEq] at h
        subst h
        have hij : (i == j) = false := by
          have : i = id := by simpa using hi
          simp [this, Ne.symm hj]
        simp [entry, List.find?_cons, hij]
    · simp only [hi, Bool.false_eq_true, ↓reduceIte] at h
      cases hu : dispStep.upd cfg p id ys with
      | error e => simp [hu] at h
      | ok rest' =>
        simp only [hu, Except.ok.injEq] at h
        subst h
        have := ih rest' hu
        simp only [entry, List.find?_cons] at this ⊢
        split
        · rfl
        · exact this

/-- … and advances that entry by one `linkStep` (creating it from the initial state if absent) -/
theorem upd_own (cfg : CheckCfg) (p : Packet) (id : Nat) :
    ∀ (d d' : DispSt), dispStep.upd cfg p id d = .ok d' →
      ∃ s' m, entry d' id = some (id, s', (match entry d id with | some x => x.2.2 | none => []) ++ m) ∧
        linkStep cfg (match entry d id with | some x => x.2.1 | none => LinkSt.init cfg) p = .ok (s', m) := by
  intro d
  induction d with
  | nil =>
    intro d' h
    simp only [dispStep.upd] at h
    cases hs : linkStep cfg (LinkSt.init cfg) p with
    | error e => simp [hs] at h
    | ok r =>
      obtain ⟨s, m⟩ := r
      simp only [hs, Except.ok.injEq] at h
      subst h
      exact ⟨s, m, by simp [entry], by simp [entry, hs]⟩
  | cons y ys ih =>
    obtain ⟨i, s, ms⟩ := y
    intro d' h
    simp only [dispStep.upd] at h
    by_cases hi : (i == id) = true
    · have hi' : i = id := by simpa using hi
      simp only [hi, ↓reduceIte] at h
      cases hs : linkStep cfg s p with
      | error e => simp [hs] at h
      | ok r =>
        obtain ⟨s', m⟩ := r
        simp only [hs, Except.ok.injEq] at h
        subst h
        subst hi'
        exact ⟨s', m, by simp [entry], by simp [entry, hs]⟩
    · simp only [hi, Bool.false_eq_true, ↓reduceIte] at h
      cases hu : dispStep.upd cfg p id ys with
      | error e => simp [hu] at h
      | ok rest' =>
        simp only [hu, Except.ok.injEq] at h
        subst h
        obtain ⟨s', m, h1, h2⟩ := ih rest' hu
        refine ⟨s', m, ?_, ?_⟩
        · simp only [entry, List.find?_cons, hi] at h1 ⊢
          exact h1
        · simp only [entry, List.find?_cons, hi] at h2 ⊢
          exact h2

theorem step_inv (cfg : CheckCfg) (done : List Packet) (p : Packet) (d d' : DispSt)
    (hinv : Inv cfg done d) (h : dispStep cfg d p = .ok d') : Inv cfg (done ++ [p]) d' := by
  unfold dispStep at h
  intro j
  by_cases hj : j = dispatchId cfg p.rdh
  · subst hj
    obtain ⟨s', m, h1, h2⟩ := upd_own cfg p _ d d' h
    have h0 := hinv (dispatchId cfg p.rdh)
    rw [h1]
    simp only [ofId_snoc, beq_self_eq_true, ↓reduceIte]
    cases he : entry d (dispatchId cfg p.rdh) with
    | none =>
      simp only [he] at h0 h2 ⊢
      simp only [h0, List.nil_append, linkRun, h2, List.append_nil]
    | some x =>
      simp only [he] at h0 h2 ⊢
      rw [linkRun_snoc cfg _ p _ x.2.1 x.2.2 h0, h2]
  · rw [upd_other cfg p _ j hj d d' h]
    have h0 := hinv j
    have : (dispatchId cfg p.rdh == j) = false := by simp [Ne.symm hj]
    simp only [ofId_snoc, this, Bool.false_eq_true, ↓reduceIte]
    exact h0

theorem run_inv (cfg : CheckCfg) (ps : List Packet) : ∀ (done : List Packet) (d d' : DispSt),
    Inv cfg done d → runValidators cfg d ps = .ok d' → Inv cfg (done ++ ps) d' := by
  induction ps with
  | nil =>
    intro done d d' hinv h
    simp only [runValidators, Except.ok.injEq] at h
    subst h
    simpa using hinv
  | cons p ps ih =>
    intro done d d' hinv h
    simp only [runValidators] at h
    cases h1 : dispStep cfg d p with
    | error e => simp [h1] at h
    | ok d1 =>
      simp only [h1] at h
      have := ih (done ++ [p]) d1 d' (step_inv cfg done p d d1 hinv h1) h
      simpa [List.append_assoc] using this

/-- **C06 — dispatch partition**: after any packet list (any interleaving, any contents) the
    messages of the validator owning id `i` are exactly the messages of one sequential pass of a
    fresh validator over the packets of id `i` alone. -/
theorem dispatch_partition (cfg : CheckCfg) (ps : List Packet) (d : DispSt)
    (h : runValidators cfg [] ps = .ok d) (i : Nat) :
    alone cfg (ofId cfg i ps) = .ok (d.msgsOf i) := by
  have hinv : Inv cfg [] [] := by intro j; simp [entry, ofId]
  have := run_inv cfg ps [] [] d hinv h i
  simp only [List.nil_append] at this
  unfold alone DispSt.msgsOf
  unfold entry at this
  cases he : d.find? (·.1 == i) with
  | none =>
    simp only [he] at this
    simp [this, linkRun]
  | some x =>
    obtain ⟨a, s, ms⟩ := x
    simp only [he] at this
    simp [this]

/-- two packet lists (e.g. two different interleavings, or the full file and a file with other
    links removed or corrupted) in which id `i` has the same packet subsequence give id `i` the
    same findings -/
theorem interleave_invariant (cfg : CheckCfg) (ps qs : List Packet) (dp dq : DispSt)
    (hp : runValidators cfg [] ps = .ok dp) (hq : runValidators cfg [] qs = .ok dq)
    (i : Nat) (hsame : ofId cfg i ps = ofId cfg i qs) : dp.msgsOf i = dq.msgsOf i := by
  have h1 := dispatch_partition cfg ps dp hp i
  have h2 := dispatch_partition cfg qs dq hq i
  rw [hsame, h2] at h1
  simpa using h1.symm

/-- corruption (or any change) confined to packets of other ids never adds or removes a finding
    of id `i` -/
theorem other_links_irrelevant (cfg : CheckCfg) (ps qs : List Packet) (dp dq : DispSt)
    (hp : runValidators cfg [] ps = .ok dp) (hq : runValidators cfg [] qs = .ok dq) (i : Nat)
    (hsame : ps.filter (fun p => dispatchId cfg p.rdh == i) = qs.filter (fun p => dispatchId cfg p.rdh == i)) :
    dp.msgsOf i = dq.msgsOf i :=
  interleave_invariant cfg ps qs dp dq hp hq i hsame

end C06
end FastPasta
