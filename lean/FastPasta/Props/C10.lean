/-
  C10 — RDH sanity and running checks implement the documented rules exactly.

  Sanity: the specification `RdhSaneSpec` is the documented rule list (doc/checks_list.md,
  "RDH sanity check" and the ITS system-id rule) written over *bit ranges of the 512-bit header
  value* `H = leNat bs` (RDH v6/v7 layout). Three places where documentation and shipped
  behaviour / regression tests disagree are resolved as the code and its tests do, and stated
  here: BC valid iff ≤ 0xdeb; the detector-field reserved bits are 23:12 (v1.21.0); the
  trigger type must be non-zero and have no spare bit 26:15 set.
  `sanity_iff` holds for all 2^512 headers.

  Running: `expectedPage` is a closed form over the history (number of stop-0 headers since the
  last stop-1 header), not a fold of the checker's state. `running_iff` is by induction over the
  history with the invariant that the checker's state encodes exactly that closed form.
-/
import FastPasta.Proofs.LinkRdhSrcTie
import FastPasta.Model.Cdp
import FastPasta.Proofs.Bits
import FastPasta.Proofs.RdhSrcTie
namespace FastPasta
namespace C10

/-- bits `hi:lo` of `v` -/
def bits (v hi lo : Nat) : Nat := v / 2 ^ lo % 2 ^ (hi + 1 - lo)

/-- the documented sanity rules, over bit positions of the 512-bit header -/
def RdhSaneSpec (expectId : Nat) (its : Bool) (H : Nat) : Prop :=
  -- RDH0
  bits H 7 0 = expectId ∧                    -- header id = first header id seen
  bits H 15 8 = 0x40 ∧                       -- header size
  bits H 21 16 ≤ 47 ∧                        -- FEE ID: stave number
  bits H 23 22 = 0 ∧ bits H 27 26 = 0 ∧ bits H 31 31 = 0 ∧   -- FEE ID reserved
  bits H 30 28 ≤ 6 ∧                         -- FEE ID: layer
  bits H 39 32 = 0 ∧                         -- priority bit
  (its = true → bits H 47 40 = 32) ∧         -- system id (ITS targets)
  bits H 63 48 = 0 ∧                         -- reserved
  -- dw, data format
  bits H 127 124 ≤ 1 ∧
  bits H 199 192 ≤ 2 ∧
  -- RDH1
  bits H 139 128 ≤ 0xdeb ∧ bits H 159 140 = 0 ∧
  -- RDH2
  bits H 287 256 ≠ 0 ∧ bits H 282 271 = 0 ∧ bits H 311 304 ≤ 1 ∧ bits H 319 312 = 0 ∧
  -- RDH3
  bits H 407 396 = 0 ∧ bits H 447 432 = 0

theorem sanity_iff (bs : Bytes) (h : bs.length = 64) (expectId : Nat) (its : Bool) :
    rdhSanityBad expectId (if its then some 32 else none) (decodeRdh bs) = false ↔
      RdhSaneSpec expectId its (leNat bs) := by
  have f := fun i n (hh : i + n ≤ 64) => leField_eq bs i n (by omega)
  generalize hH : leNat bs = H at f
  -- sub-ranges of a little-endian field are bit ranges of the whole header (linear arithmetic)
  have a1 : H / 256 ^ 0 % 256 ^ 1 = H / 2 ^ 0 % 2 ^ 8 := by omega
  have a2 : H / 256 ^ 1 % 256 ^ 1 = H / 2 ^ 8 % 2 ^ 8 := by omega
  have a3 : H / 256 ^ 2 % 256 ^ 2 / 32768 % 2 = H / 2 ^ 31 % 2 ^ 1 := by omega
  have a4 : H / 256 ^ 2 % 256 ^ 2 / 1024 % 4 = H / 2 ^ 26 % 2 ^ 2 := by omega
  have a5 : H / 256 ^ 2 % 256 ^ 2 / 64 % 4 = H / 2 ^ 22 % 2 ^ 2 := by omega
  have a6 : H / 256 ^ 2 % 256 ^ 2 % 64 = H / 2 ^ 16 % 2 ^ 6 := by omega
  have a7 : H / 256 ^ 2 % 256 ^ 2 / 4096 % 8 = H / 2 ^ 28 % 2 ^ 3 := by omega
  have a8 : H / 256 ^ 4 % 256 ^ 1 = H / 2 ^ 32 % 2 ^ 8 := by omega
  have a9 : H / 256 ^ 5 % 256 ^ 1 = H / 2 ^ 40 % 2 ^ 8 := by omega
  have a10 : H / 256 ^ 6 % 256 ^ 2 = H / 2 ^ 48 % 2 ^ 16 := by omega
  have b1 : H / 256 ^ 16 % 256 ^ 4 / 4096 = H / 2 ^ 140 % 2 ^ 20 := by omega
  have b2 : H / 256 ^ 16 % 256 ^ 4 % 4096 = H / 2 ^ 128 % 2 ^ 12 := by omega
  have c1 : H / 256 ^ 39 % 256 ^ 1 = H / 2 ^ 312 % 2 ^ 8 := by omega
  have c2 : H / 256 ^ 38 % 256 ^ 1 = H / 2 ^ 304 % 2 ^ 8 := by omega
  have c3 : H / 256 ^ 32 % 256 ^ 4 = H / 2 ^ 256 % 2 ^ 32 := by omega
  have c4 : H / 2 ^ 256 % 2 ^ 32 / 2 ^ 15 % 2 ^ 12 = H / 2 ^ 271 % 2 ^ 12 := by omega
  have d1 : H / 256 ^ 54 % 256 ^ 2 = H / 2 ^ 432 % 2 ^ 16 := by omega
  have d2 : H / 256 ^ 48 % 256 ^ 4 / 2 ^ 12 % 2 ^ 12 = H / 2 ^ 396 % 2 ^ 12 := by omega
  have g1 : H / 256 ^ 14 % 256 ^ 2 / 4096 = H / 2 ^ 124 % 2 ^ 4 := by omega
  have g2 : H / 256 ^ 24 % 256 ^ 8 % 256 = H / 2 ^ 192 % 2 ^ 8 := by omega
  have h0 : rdh0Bad expectId (if its then some 32 else none) (decodeRdh bs) = false ↔
      (bits H 7 0 = expectId ∧ bits H 15 8 = 0x40 ∧ bits H 21 16 ≤ 47 ∧ bits H 23 22 = 0 ∧
       bits H 27 26 = 0 ∧ bits H 31 31 = 0 ∧ bits H 30 28 ≤ 6 ∧ bits H 39 32 = 0 ∧
       (its = true → bits H 47 40 = 32) ∧ bits H 63 48 = 0) := by
    unfold rdh0Bad feeIdBad bits
    simp only [decodeRdh, f 0 1 (by omega), f 1 1 (by omega), f 2 2 (by omega), f 4 1 (by omega),
      f 5 1 (by omega), f 6 2 (by omega)]
    cases its <;>
    simp only [Bool.or_eq_false_iff, bne_eq_false_iff_eq, decide_eq_false_iff_not,
      Nat.not_lt, Bool.false_eq_true, ↓reduceIte, false_implies, true_implies,
      Nat.reduceAdd, Nat.reduceSub, a1, a2, a3, a4, a5, a6, a7, a8, a9, a10] <;>
    (constructor <;> intro h <;> simp_all)
  have h1 : rdh1Bad (decodeRdh bs) = false ↔ (bits H 139 128 ≤ 0xdeb ∧ bits H 159 140 = 0) := by
    unfold rdh1Bad bits
    simp only [decodeRdh, Rdh.rdh1Reserved, Rdh.bc, f 16 4 (by omega)]
    simp only [Bool.or_eq_false_iff, bne_eq_false_iff_eq, decide_eq_false_iff_not, Nat.not_lt,
      Nat.reduceAdd, Nat.reduceSub, b1, b2]
    constructor <;> intro h <;> simp_all
  have h2 : rdh2Bad (decodeRdh bs) = false ↔
      (bits H 287 256 ≠ 0 ∧ bits H 282 271 = 0 ∧ bits H 311 304 ≤ 1 ∧ bits H 319 312 = 0) := by
    unfold rdh2Bad bits
    simp only [decodeRdh, f 32 4 (by omega), f 38 1 (by omega), f 39 1 (by omega)]
    simp only [Bool.or_eq_false_iff, bne_eq_false_iff_eq, decide_eq_false_iff_not, Nat.not_lt,
      beq_eq_false_iff_ne, ne_eq, Nat.reduceAdd, Nat.reduceSub, c1, c2, c3, c4]
    constructor <;> intro h <;> simp_all
  have h3 : rdh3Bad (decodeRdh bs) = false ↔ (bits H 407 396 = 0 ∧ bits H 447 432 = 0) := by
    unfold rdh3Bad bits
    simp only [decodeRdh, f 48 4 (by omega), f 54 2 (by omega)]
    simp only [Bool.or_eq_false_iff, bne_eq_false_iff_eq, Nat.reduceAdd, Nat.reduceSub, d1, d2]
    constructor <;> intro h <;> simp_all
  have h4 : (decide ((decodeRdh bs).dw > 1) = false) ↔ bits H 127 124 ≤ 1 := by
    unfold bits
    simp only [decodeRdh, Rdh.dw, f 14 2 (by omega), decide_eq_false_iff_not, Nat.not_lt,
      Nat.reduceAdd, Nat.reduceSub, g1]
  have h5 : (decide ((decodeRdh bs).dataFormat > 2) = false) ↔ bits H 199 192 ≤ 2 := by
    unfold bits
    simp only [decodeRdh, Rdh.dataFormat, f 24 8 (by omega), decide_eq_false_iff_not, Nat.not_lt,
      Nat.reduceAdd, Nat.reduceSub, g2]
  unfold rdhSanityBad RdhSaneSpec
  simp only [Bool.or_eq_false_iff, h0, h1, h2, h3, h4, h5]
  constructor
  · rintro ⟨⟨⟨⟨⟨⟨a1, a2, a3, a4, a5, a6, a7, a8, a9, a10⟩, b1, b2⟩, c1, c2, c3, c4⟩, d1, d2⟩, e⟩, g⟩
    exact ⟨a1, a2, a3, a4, a5, a6, a7, a8, a9, a10, e, g, b1, b2, c1, c2, c3, c4, d1, d2⟩
  · rintro ⟨a1, a2, a3, a4, a5, a6, a7, a8, a9, a10, e, g, b1, b2, c1, c2, c3, c4, d1, d2⟩
    exact ⟨⟨⟨⟨⟨⟨a1, a2, a3, a4, a5, a6, a7, a8, a9, a10⟩, b1, b2⟩, c1, c2, c3, c4⟩, d1, d2⟩, e⟩, g⟩

/-- the sanity verdict ignores every bit outside the ranges the rules name: e.g. the 56
    reserved bits after the data format, the two 64-bit reserved words, orbit, packet counter,
    link id, CRU id, offset/memory size, page counter and the par bit. Stated for the 56+64+64
    reserved bits: flipping any of them leaves the verdict unchanged. -/
theorem sanity_ignores_reserved (r : Rdh) (e : Nat) (sys : Option Nat) (x y z : Nat) :
    rdhSanityBad e sys { r with dataFormatReserved := r.dataFormatReserved % 256 + 256 * x,
                                reserved1 := y, reserved2 := z } = rdhSanityBad e sys r := by
  unfold rdhSanityBad rdh0Bad rdh1Bad rdh2Bad rdh3Bad Rdh.dataFormat Rdh.dw Rdh.rdh1Reserved Rdh.bc
  simp only
  have : (r.dataFormatReserved % 256 + 256 * x) % 256 = r.dataFormatReserved % 256 := by omega
  rw [this]

/-! ### running checks -/

/-- headers after the last stop-1 header -/
def afterLastStop (p : List Rdh) : List Rdh := (p.reverse.takeWhile (·.stopBit != 1)).reverse
/-- closed form: number of stop-0 headers since the last stop-1 header (headers whose stop bit is
    neither 0 nor 1 are reported themselves and do not count) -/
def expectedPage (p : List Rdh) : Nat := (afterLastStop p).countP (·.stopBit == 0)

/-- consistency with the previous header `l` of the link (if any): the orbit changes after a
    stop; on pages other than 0 orbit, trigger type and FEE ID are those of the previous header -/
def LastOk : Option Rdh → Rdh → Prop
  | none, _ => True
  | some l, r => ¬ (l.stopBit = 1 ∧ l.orbit = r.orbit) ∧
      (r.pagesCounter ≠ 0 → r.orbit = l.orbit ∧ r.triggerType = l.triggerType ∧ r.feeId = l.feeId)

instance : (o : Option Rdh) → (r : Rdh) → Decidable (LastOk o r)
  | none, _ => isTrue trivial
  | some l, r => inferInstanceAs (Decidable (¬ (l.stopBit = 1 ∧ l.orbit = r.orbit) ∧
      (r.pagesCounter ≠ 0 → r.orbit = l.orbit ∧ r.triggerType = l.triggerType ∧ r.feeId = l.feeId)))

/-- the documented running rules for header `r` given the headers `p` before it on the link -/
def RunningSpec (p : List Rdh) (r : Rdh) : Prop :=
  r.stopBit ≤ 1 ∧ r.pagesCounter = expectedPage p % 65536 ∧ LastOk p.getLast? r

instance (p : List Rdh) (r : Rdh) : Decidable (RunningSpec p r) :=
  inferInstanceAs (Decidable (_ ∧ _ ∧ _))

theorem expectedPage_snoc (p : List Rdh) (r : Rdh) :
    expectedPage (p ++ [r]) =
      if r.stopBit == 1 then 0 else if r.stopBit == 0 then expectedPage p + 1 else expectedPage p := by
  unfold expectedPage afterLastStop
  simp only [List.reverse_append, List.reverse_cons, List.reverse_nil, List.nil_append,
    List.singleton_append, List.takeWhile_cons]
  by_cases h1 : r.stopBit = 1
  · simp [h1]
  · by_cases h0 : r.stopBit = 0
    · simp [h1, h0, List.countP_append]
    · simp [h1, h0, List.countP_append]

/-- flags produced by the checker for `rest` from state `s` -/
def runFlags (s : RunSt) : List Rdh → List Bool
  | [] => []
  | r :: rs => (runningStep s r).2 :: runFlags (runningStep s r).1 rs

/-- the specification's flags for `rest` given the prefix `p` -/
def specFlags (p : List Rdh) : List Rdh → List Bool
  | [] => []
  | r :: rs => (!decide (RunningSpec p r)) :: specFlags (p ++ [r]) rs

/-- the state encodes the closed form -/
structure Inv (p : List Rdh) (s : RunSt) : Prop where
  expect : s.expectPage = expectedPage p % 65536
  last : s.last = p.getLast?
  seen : s.seen = min p.length 2
  inc : s.increment = 1

theorem flag_iff (stop page E lo ro lt rt lf rf lstop : Nat) :
    (((if stop == 0 then ((E+1)%65536, page != E) else if stop == 1 then (0, page != E) else (E, true)).2
        || (lstop == 1 && lo == ro)) || (page != 0 && (ro != lo || rt != lt || rf != lf))) = true ↔
    ¬ (stop ≤ 1 ∧ page = E ∧ ¬(lstop = 1 ∧ lo = ro) ∧ (page ≠ 0 → ro = lo ∧ rt = lt ∧ rf = lf)) := by
  by_cases h0 : stop = 0
  · subst h0
    simp only [beq_self_eq_true, ↓reduceIte, Bool.or_eq_true, Bool.and_eq_true, bne_iff_ne, beq_iff_eq, ne_eq]
    omega
  · by_cases h1 : stop = 1
    · subst h1
      simp only [Nat.reduceBEq, Bool.false_eq_true, ↓reduceIte, beq_self_eq_true, Bool.or_eq_true, Bool.and_eq_true, bne_iff_ne, beq_iff_eq, ne_eq]
      omega
    · have e0 : (stop == 0) = false := by simp [h0]
      have e1 : (stop == 1) = false := by simp [h1]
      simp only [e0, e1, Bool.false_eq_true, ↓reduceIte, Bool.true_or, true_iff]
      omega
theorem flag_iff_none (stop page E : Nat) :
    (((if stop == 0 then ((E+1)%65536, page != E) else if stop == 1 then (0, page != E) else (E, true)).2
        || false) || (page != 0 && false)) = true ↔
    ¬ (stop ≤ 1 ∧ page = E ∧ True) := by
  by_cases h0 : stop = 0
  · subst h0; simp
  · by_cases h1 : stop = 1
    · subst h1; simp
    · have e0 : (stop == 0) = false := by simp [h0]
      have e1 : (stop == 1) = false := by simp [h1]
      simp only [e0, e1, Bool.false_eq_true, ↓reduceIte, Bool.true_or, true_iff]
      omega

theorem step_inv (p : List Rdh) (s : RunSt) (r : Rdh) (hinv : Inv p s)
    (hsec : p.length = 1 → r.pagesCounter = 1) :
    Inv (p ++ [r]) (runningStep s r).1 ∧ ((runningStep s r).2 = true ↔ ¬ RunningSpec p r) := by
  have hincr : (if s.seen == 1 then r.pagesCounter else s.increment) = 1 := by
    by_cases h1 : p.length = 1
    · have : s.seen = 1 := by rw [hinv.seen, h1]; rfl
      simp [this, hsec h1]
    · have : ¬ s.seen = 1 := by rw [hinv.seen]; omega
      simp [this, hinv.inc]
  constructor
  · refine ⟨?_, ?_, ?_, ?_⟩
    · rw [expectedPage_snoc]
      unfold runningStep
      simp only [hincr, hinv.expect]
      by_cases hs0 : r.stopBit = 0
      · simp [hs0]
      · by_cases hs1 : r.stopBit = 1
        · simp [hs1]
        · simp [hs0, hs1]
    · simp [runningStep, List.getLast?_append]
    · simp only [runningStep, List.length_append, List.length_singleton, hinv.seen]
      split <;> omega
    · simp only [runningStep, hincr]
  · unfold runningStep RunningSpec
    simp only [hincr, hinv.expect, hinv.last]
    generalize p.getLast? = o
    rcases o with _ | l
    · simp only [LastOk]
      exact flag_iff_none r.stopBit r.pagesCounter (expectedPage p % 65536)
    · simp only [LastOk]
      exact flag_iff r.stopBit r.pagesCounter (expectedPage p % 65536) l.orbit r.orbit l.triggerType
        r.triggerType l.feeId r.feeId l.stopBit

/-- `StartsAtHbf`: the second header of the link carries page counter 1 (so the learnt page
    increment is 1) — the property's own premise. -/
def SecondPageIsOne (h : List Rdh) : Prop := ∀ r, h[1]? = some r → r.pagesCounter = 1

theorem run_spec (rest : List Rdh) : ∀ (p : List Rdh) (s : RunSt), Inv p s →
    SecondPageIsOne (p ++ rest) → runFlags s rest = specFlags p rest := by
  induction rest with
  | nil => intros; rfl
  | cons r rs ih =>
    intro p s hinv hsec
    have hsec1 : p.length = 1 → r.pagesCounter = 1 := by
      intro h1
      apply hsec r
      rw [List.getElem?_append_right (by omega)]
      simp [h1]
    obtain ⟨hinv', hflag⟩ := step_inv p s r hinv hsec1
    have hflag' : (runningStep s r).2 = !decide (RunningSpec p r) := by
      by_cases hsp : RunningSpec p r
      · have : ¬ (runningStep s r).2 = true := fun hc => (hflag.mp hc) hsp
        simp [hsp, this]
      · simp [hsp, hflag.mpr hsp]
    simp only [runFlags, specFlags, hflag']
    rw [ih (p ++ [r]) _ hinv' (by simpa using hsec)]

theorem init_inv : Inv [] ({} : RunSt) := ⟨rfl, rfl, rfl, rfl⟩

/-- **Running checks are exact**: for every history `h` of RDHs of one link whose second header
    carries page counter 1, the i-th header is reported with [E11] iff it violates the documented
    running rules given the headers before it. -/
theorem running_iff (h : List Rdh) (hs : SecondPageIsOne h) :
    runFlags {} h = specFlags [] h :=
  run_spec h [] {} init_inv (by simpa using hs)

/-! ### non-vacuity -/
example : SecondPageIsOne [{ (default : Rdh) with pagesCounter := 0 }, { (default : Rdh) with pagesCounter := 1 }] := by
  intro r h; simp at h; subst h; rfl
example : RunningSpec [] { (default : Rdh) with pagesCounter := 0 } := by decide
example : ¬ RunningSpec [] { (default : Rdh) with pagesCounter := 3 } := by decide


/-! ### the same statement about the functions TRANSLATED FROM THE RUST SOURCE on this run
    (`Spec/RdhSrcGen.lean`, generated by `tools/rs2lean.py` from `rdh0..3.rs`, `rdh_cru.rs`, `validators/rdh.rs`, `words/its.rs`;
    `Proofs/RdhSrcTie.lean` proves loader = `decodeRdh` and `sanity_check` = `rdhSanityBad`) -/
open SrcRdh in
/-- for all 2^512 headers: the source's `RdhCruSanityValidator::sanity_check`, in the state the source's constructors build
    (`new`, `with_specialization(ITS)`, `specialize(ITS)`) with any learnt header id, on the header the source's loader builds from
    the 64 bytes, is `Ok` exactly when the documented rule list holds; an `Err` carries `[E10]`; afterwards the validator expects
    the learnt header id -/
theorem sanity_src_iff (bs : Bytes) (h : bs.length = 64) (hid : Option Nat) (its : Bool) :
    ∃ c, SrcTie.loadRdh bs = .ok c ∧
      ((RdhCruSanityValidator.sanity_check (SrcTie.mkValidator hid (if its then some 32 else none)) c).1.isErr = false ↔
        RdhSaneSpec (hid.getD (decodeRdh bs).headerId) its (leNat bs)) ∧
      ((RdhCruSanityValidator.sanity_check (SrcTie.mkValidator hid (if its then some 32 else none)) c).1.isErr = true →
        ∃ cs, (RdhCruSanityValidator.sanity_check (SrcTie.mkValidator hid (if its then some 32 else none)) c).1.errStr.codes = 10 :: cs) ∧
      (RdhCruSanityValidator.sanity_check (SrcTie.mkValidator hid (if its then some 32 else none)) c).2 =
        SrcTie.mkValidator (some (hid.getD (decodeRdh bs).headerId)) (if its then some 32 else none) := by
  obtain ⟨c, hc, _, he, hcode, hst⟩ := SrcTie.sanity_check_bytes hid (if its then some 32 else none) bs
  exact ⟨c, hc, by rw [he]; exact sanity_iff bs h _ its, hcode, hst⟩

/-- the validator states of the source's constructors -/
theorem validator_states_src :
    SrcRdh.RdhCruSanityValidator.new = SrcTie.mkValidator none none ∧
    SrcRdh.RdhCruSanityValidator.with_specialization .ITS = SrcTie.mkValidator none (some 32) ∧
    (∀ h s, (SrcRdh.RdhCruSanityValidator.specialize (SrcTie.mkValidator h s) .ITS).2 = SrcTie.mkValidator h (some 32)) :=
  ⟨SrcTie.new_eq, SrcTie.with_its_eq, SrcTie.specialize_eq⟩

/-- the source's loader and accessors are the model's `decodeRdh` and field functions -/
theorem loader_src (bs : Bytes) : ∃ c, SrcTie.loadRdh bs = .ok c ∧ SrcTie.toModel c = decodeRdh bs ∧
    c.payload_size = (decodeRdh bs).payloadSize ∧ c.cru_id = (decodeRdh bs).cruId ∧ c.link_id = (decodeRdh bs).linkId ∧
    c.fee_id = (decodeRdh bs).feeId ∧ c.version = (decodeRdh bs).headerId ∧ c.stop_bit = (decodeRdh bs).stopBit ∧
    c.pages_counter = (decodeRdh bs).pagesCounter ∧ c.trigger_type = (decodeRdh bs).triggerType ∧
    c.offset_to_next = (decodeRdh bs).offsetNext ∧ c.dw = (decodeRdh bs).dw ∧ c.data_format = (decodeRdh bs).dataFormat := by
  obtain ⟨c, hc, hm⟩ := SrcTie.load_eq_decode bs
  have hcd : c.f_cruid_dw.f_0 < 65536 := by
    have : c.f_cruid_dw.f_0 = (decodeRdh bs).cruidDw := by rw [← hm]; rfl
    rw [this]; exact SrcTie.leField_lt bs 14 2
  have := SrcTie.accessors_eq c hcd
  rw [hm] at this
  exact ⟨c, hc, hm, this⟩


/-- the source's running checker run over a header sequence: the `[E11]` flags it raises -/
def srcRunFlags (v : SrcRdh.RdhCruRunningChecker) : List SrcRdh.RdhCru → List Bool
  | [] => []
  | c :: cs => (SrcRdh.RdhCruRunningChecker.check v c).1.isErr :: srcRunFlags (SrcRdh.RdhCruRunningChecker.check v c).2 cs

theorem srcRunFlags_eq (cs : List SrcRdh.RdhCru) : ∀ (v : SrcRdh.RdhCruRunningChecker), SrcTie.RunWf v →
    srcRunFlags v cs = runFlags (SrcTie.runAbs v) (cs.map SrcTie.toModel) := by
  induction cs with
  | nil => intros; rfl
  | cons c cs ih =>
    intro v hw
    obtain ⟨h1, h2, h3, _⟩ := SrcTie.running_check_eq v c hw
    simp only [srcRunFlags, List.map_cons, runFlags, h3, ih _ h2, h1]

/-- **the source's `RdhCruRunningChecker`, started by `new()` and run over ANY sequence of headers of a link whose second
    header carries page counter 1, reports `[E11]` for the i-th header iff that header violates the documented running
    rules given the headers before it** (translated source `Spec/RdhSrcGen.lean` ↔ closed-form specification) -/
theorem running_src_iff (cs : List SrcRdh.RdhCru) (hs : SecondPageIsOne (cs.map SrcTie.toModel)) :
    srcRunFlags SrcRdh.RdhCruRunningChecker.new cs = specFlags [] (cs.map SrcTie.toModel) := by
  rw [srcRunFlags_eq cs _ SrcTie.run_new.2, SrcTie.run_new.1]
  exact running_iff _ hs

/-- an `[E11]` result of the source carries that code -/
theorem running_src_code (v : SrcRdh.RdhCruRunningChecker) (c : SrcRdh.RdhCru) (hw : SrcTie.RunWf v)
    (h : (SrcRdh.RdhCruRunningChecker.check v c).1.isErr = true) :
    ∃ rest, (SrcRdh.RdhCruRunningChecker.check v c).1.errStr.codes = 11 :: rest :=
  (SrcTie.running_check_eq v c hw).2.2.2 h


/-- **which validator a command line gets** (`RdhCruSanityValidator::new_from_config`, translated with the configuration object
    abstracted to the three things it is asked: are custom checks enabled, the configured `rdh_version`, the target system):
    the header id is pre-set exactly when custom checks are enabled and configure one, the ITS system-id rule is active exactly
    when a target system is given — independently of each other. Together with `sanity_src_iff` this is the documented rule list
    "relative to the first header version seen [or the configured one], plus the ITS system ID when an ITS target is selected". -/
theorem validator_for_config_src (cfg : SrcRdh.CfgAbs) :
    SrcRdh.RdhCruSanityValidator.new_from_config cfg =
      SrcTie.mkValidator (if cfg.customEnabled then cfg.rdhVersion else none) (if cfg.target.isSome then some 32 else none) :=
  SrcTie.new_from_config_eq cfg


/-! ### tie by translation: which RDH checks a link validator runs, in which order, and where it reports
    (`LinkValidator::do_rdh_checks`, link_validator.rs → `Spec/LinkRdhSrcGen.lean`, translated on this run) -/
/-- for every header and every related validator state: the sanity validator runs first and learns the header id; the running checker
    runs only under `check all`; a failure of either is reported exactly once, at the packet's offset, `[E10]` before `[E11]` —
    the `m1`, `m2`, `expectId`, `run` part of the model's `linkStep`, on which `sanity_iff` / `running_iff` and the C02 theorems rest -/
theorem link_rdh_checks_src (cfg : CheckCfg) (v : SrcLinkRdh.LinkValidator) (s : LinkSt) (c : SrcRdh.RdhCru) (off : Nat) (sysId : Option Nat)
    (hrun : v.f_running_checks = cfg.running) (hsan : v.f_rdh_sanity_validator = SrcTie.mkValidator s.expectId sysId)
    (habs : SrcTie.runAbs v.f_rdh_running_validator = s.run) (hwf : SrcTie.RunWf v.f_rdh_running_validator)
    (hfee : c.f_rdh0.f_fee_id.f_0 < 65536) (hcd : c.f_cruid_dw.f_0 < 65536) :
    (v.do_rdh_checks c off).2.f_rdh_sanity_validator = SrcTie.mkValidator (some (s.expectId.getD (SrcTie.toModel c).headerId)) sysId ∧
    SrcTie.runAbs (v.do_rdh_checks c off).2.f_rdh_running_validator =
      (if cfg.running then (runningStep s.run (SrcTie.toModel c)).1 else s.run) ∧
    SrcTie.RunWf (v.do_rdh_checks c off).2.f_rdh_running_validator ∧
    SrcTie.outMsgs (v.do_rdh_checks c off).2.f_out = SrcTie.outMsgs v.f_out ++
      (if rdhSanityBad (s.expectId.getD (SrcTie.toModel c).headerId) sysId (SrcTie.toModel c) then [mkErrNoWord off "E10"] else []) ++
      (if (if cfg.running then (runningStep s.run (SrcTie.toModel c)).2 else false) then [mkErrNoWord off "E11"] else []) :=
  (SrcTie.do_rdh_checks_eq cfg v s c off sysId hrun hsan habs hwf hfee hcd).2

end C10
end FastPasta
