/-
  C11 — word-level sanity predicates are exact for all 80-bit values.

  The model (`Model.Words`) computes on bytes exactly as the code does (little-endian field
  reads, masks, shifts). The specification side below is stated over the *80-bit value*
  `W = leNat w` of the word and bit ranges of it, as the ITS data format documents them
  (doc/checks_list.md): identifier = bits 79:72; IHW reserved 71:28; TDH reserved 71:64, 31:28,
  15 and the trigger rule on bits 11:0 / 12; TDT reserved 71:68, 66, 60:56; DDW0 reserved 66,
  64, 63:56 and index 71:68 = 0. Every theorem quantifies over all 2^80 values.
-/
import FastPasta.Model.Words
import FastPasta.Proofs.Basic
import FastPasta.Proofs.WordsSrcTie
namespace FastPasta
namespace C11

/-- bits `hi:lo` of `v` -/
def bits (v hi lo : Nat) : Nat := v / 2 ^ lo % 2 ^ (hi + 1 - lo)

def IhwSpec (W : Nat) : Prop := bits W 79 72 = 0xE0 ∧ bits W 71 28 = 0
def TdhSpec (W : Nat) : Prop :=
  bits W 79 72 = 0xE8 ∧ bits W 71 64 = 0 ∧ bits W 31 28 = 0 ∧ bits W 15 15 = 0 ∧
  (bits W 11 0 ≠ 0 ∨ bits W 12 12 ≠ 0)
def TdtSpec (W : Nat) : Prop :=
  bits W 79 72 = 0xF0 ∧ bits W 71 68 = 0 ∧ bits W 66 66 = 0 ∧ bits W 60 56 = 0
def Ddw0Spec (W : Nat) : Prop :=
  bits W 79 72 = 0xE4 ∧ bits W 66 66 = 0 ∧ bits W 64 64 = 0 ∧ bits W 63 56 = 0 ∧ bits W 71 68 = 0

theorem ihw_sane_iff (w : Bytes) (h : w.length = 10) : ihwSane w = true ↔ IhwSpec (leNat w) := by
  obtain ⟨b0,b1,b2,b3,b4,b5,b6,b7,b8,b9, rfl⟩ := list10 w h
  have := b0.toNat_lt; have := b1.toNat_lt; have := b2.toNat_lt; have := b3.toNat_lt
  have := b4.toNat_lt; have := b5.toNat_lt; have := b6.toNat_lt; have := b7.toNat_lt
  have := b8.toNat_lt; have := b9.toNat_lt
  simp only [ihwSane, ihwReservedZero, wordId, ID_IHW, bAt, leField, slice, leNat, List.getD,
    List.drop, List.take, List.getElem?_cons_succ, List.getElem?_cons_zero, Option.getD,
    Bool.and_eq_true, beq_iff_eq, IhwSpec, bits]
  omega

theorem tdh_sane_iff (w : Bytes) (h : w.length = 10) : tdhSane w = true ↔ TdhSpec (leNat w) := by
  obtain ⟨b0,b1,b2,b3,b4,b5,b6,b7,b8,b9, rfl⟩ := list10 w h
  have := b0.toNat_lt; have := b1.toNat_lt; have := b2.toNat_lt; have := b3.toNat_lt
  have := b4.toNat_lt; have := b5.toNat_lt; have := b6.toNat_lt; have := b7.toNat_lt
  have := b8.toNat_lt; have := b9.toNat_lt
  simp only [tdhSane, tdhReservedZero, tdhReserved0, tdhReserved1, tdhReserved2, tdhTriggerType,
    tdhInternal, tdhW0, wordId, ID_TDH, bAt, leField, slice, leNat, List.getD,
    List.drop, List.take, List.getElem?_cons_succ, List.getElem?_cons_zero, Option.getD,
    Bool.and_eq_true, beq_iff_eq, Bool.not_eq_true', Bool.and_eq_false_iff, beq_eq_false_iff_ne,
    ne_eq, TdhSpec, bits]
  omega

theorem tdt_sane_iff (w : Bytes) (h : w.length = 10) : tdtSane w = true ↔ TdtSpec (leNat w) := by
  obtain ⟨b0,b1,b2,b3,b4,b5,b6,b7,b8,b9, rfl⟩ := list10 w h
  have := b0.toNat_lt; have := b1.toNat_lt; have := b2.toNat_lt; have := b3.toNat_lt
  have := b4.toNat_lt; have := b5.toNat_lt; have := b6.toNat_lt; have := b7.toNat_lt
  have := b8.toNat_lt; have := b9.toNat_lt
  simp only [tdtSane, tdtReservedZero, wordId, ID_TDT, bAt, leField, slice, leNat, List.getD,
    List.drop, List.take, List.getElem?_cons_succ, List.getElem?_cons_zero, Option.getD,
    Bool.and_eq_true, beq_iff_eq, TdtSpec, bits]
  omega

theorem ddw0_sane_iff (w : Bytes) (h : w.length = 10) : ddw0Sane w = true ↔ Ddw0Spec (leNat w) := by
  obtain ⟨b0,b1,b2,b3,b4,b5,b6,b7,b8,b9, rfl⟩ := list10 w h
  have := b0.toNat_lt; have := b1.toNat_lt; have := b2.toNat_lt; have := b3.toNat_lt
  have := b4.toNat_lt; have := b5.toNat_lt; have := b6.toNat_lt; have := b7.toNat_lt
  have := b8.toNat_lt; have := b9.toNat_lt
  simp only [ddw0Sane, ddw0ReservedZero, ddw0Index, wordId, ID_DDW0, bAt, leField, slice, leNat,
    List.getD, List.drop, List.take, List.getElem?_cons_succ, List.getElem?_cons_zero,
    Option.getD, Bool.and_eq_true, beq_iff_eq, Ddw0Spec, bits]
  omega

/-! ### data words

  Specification of the ID byte (ITS data format): bits 7:5 = 001 inner barrel with lane = bits 4:0
  (valid lanes 0..8); bits 7:5 = 010 outer barrel with connector = bits 4:3 and connector input =
  bits 2:0 (valid inputs 0..6; middle layers use inputs 3..6 of connectors 0,2 and 0..3 of
  connectors 1,3, all contained in the outer-layer ranges). Lane of an outer-barrel word =
  7·connector + input. -/

def validIdSpec (id : Nat) : Prop :=
  (id / 32 = 1 ∧ id % 32 ≤ 8) ∨ (id / 32 = 2 ∧ id % 8 ≤ 6)
instance (id : Nat) : Decidable (validIdSpec id) := by unfold validIdSpec; infer_instance
def obLaneSpec (id : Nat) : Nat := 7 * (id / 8 % 4) + id % 8
def activeSpec (lane lanes : Nat) : Prop := lanes / 2 ^ lane % 2 = 1

/-- what the property says must be reported for a word handled as a data word, with running
    (state-dependent) checks enabled -/
def ReportedSpec (id lanes : Nat) : Prop :=
  ¬ validIdSpec id ∨ (id / 32 = 1 ∧ ¬ activeSpec (id % 32) lanes) ∨
  (id / 32 = 2 ∧ (¬ activeSpec (obLaneSpec id) lanes ∨ id % 8 > 6))

theorem valid_id_iff : ∀ id : Fin 256, isValidDataId id.val = true ↔ validIdSpec id.val := by
  decide +kernel

/-- the ID set accepted by the state machine as "data word" is exactly the valid ID set -/
theorem fsm_data_id_eq : ∀ id : Fin 256, isFsmDataId id.val = isValidDataId id.val := by
  decide +kernel

/-- for valid outer-barrel IDs the code's lane arithmetic is the documented lane -/
theorem ob_lane_eq : ∀ id : Fin 256, id.val / 32 = 2 → id.val % 8 ≤ 6 → obLane id.val = obLaneSpec id.val := by
  decide +kernel

theorem data_reported_iff (w : Bytes) (h : w.length = 10) (lanes : Nat) :
    dataWordCodes true lanes w ≠ [] ↔ ReportedSpec (wordId w) lanes := by
  have hid : wordId w < 256 := by
    obtain ⟨b0,b1,b2,b3,b4,b5,b6,b7,b8,b9, rfl⟩ := list10 w h
    have := b9.toNat_lt
    simp only [wordId, bAt, List.getD, List.getElem?_cons_succ, List.getElem?_cons_zero, Option.getD]
    omega
  generalize hw : wordId w = id at hid
  have hv := valid_id_iff ⟨id, hid⟩
  have hl := ob_lane_eq ⟨id, hid⟩
  simp only at hv hl
  unfold dataWordCodes ReportedSpec
  simp only [hw]
  by_cases hvalid : isValidDataId id = true
  · have hs := hv.mp hvalid
    rcases hs with ⟨h1, h2⟩ | ⟨h1, h2⟩
    · have e1 : (id / 32 == 1) = true := by simp [h1]
      have hmod : id % 32 % 32 = id % 32 := by omega
      simp [hvalid, e1, h1, laneActive, ibLane, activeSpec, validIdSpec, h2, hmod]
    · have e1 : (id / 32 == 1) = false := by simp [h1]
      have e2 : (id / 32 == 2) = true := by simp [h1]
      have hlane := hl h1 h2
      have hlt : obLaneSpec id < 32 := by unfold obLaneSpec; omega
      have hmod : obLaneSpec id % 32 = obLaneSpec id := Nat.mod_eq_of_lt hlt
      have hc : ¬ (obConnectorInput id > 6) := by unfold obConnectorInput; omega
      simp [hvalid, e1, e2, h1, laneActive, activeSpec, validIdSpec, h2, hlane, hmod, hc, obConnectorInput]
      omega
  · have hs : ¬ validIdSpec id := fun c => hvalid (hv.mpr c)
    simp [hvalid, hs]

/-- with `check sanity` only the ID rule is applied -/
theorem data_reported_sanity_iff (w : Bytes) (lanes : Nat) :
    dataWordCodes false lanes w ≠ [] ↔ isValidDataId (wordId w) = false := by
  unfold dataWordCodes
  by_cases hvalid : isValidDataId (wordId w) = true <;> simp [hvalid]

/-! ### the same statements about the functions TRANSLATED FROM THE RUST SOURCE on this run
    (`Spec/WordsSrcGen.lean`, generated by `tools/rs2lean.py`; `Proofs/WordsSrcTie.lean` proves model = source) -/
open SrcWords in
/-- `IhwValidator::sanity_check(Ihw::from_buf(w))` is `Ok` exactly on the documented bit pattern — all 2^80 values -/
theorem ihw_src_check_iff (w : Bytes) (h : w.length = 10) :
    ∃ t, Ihw.from_buf w = .ok t ∧ ((IhwValidator.sanity_check t).isErr = false ↔ IhwSpec (leNat w)) := by
  obtain ⟨t, ht, he⟩ := SrcTie.ihw_sane_eq w
  refine ⟨t, ht, ?_⟩; rw [he, ← ihw_sane_iff w h]; cases ihwSane w <;> simp
open SrcWords in
theorem tdh_src_check_iff (w : Bytes) (h : w.length = 10) :
    ∃ t, Tdh.from_buf w = .ok t ∧ ((TdhValidator.sanity_check t).isErr = false ↔ TdhSpec (leNat w)) := by
  obtain ⟨t, ht, he⟩ := SrcTie.tdh_sane_eq w
  refine ⟨t, ht, ?_⟩; rw [he, ← tdh_sane_iff w h]; cases tdhSane w <;> simp
open SrcWords in
theorem tdt_src_check_iff (w : Bytes) (h : w.length = 10) :
    ∃ t, Tdt.from_buf w = .ok t ∧ ((TdtValidator.sanity_check t).isErr = false ↔ TdtSpec (leNat w)) := by
  obtain ⟨t, ht, he⟩ := SrcTie.tdt_sane_eq w
  refine ⟨t, ht, ?_⟩; rw [he, ← tdt_sane_iff w h]; cases tdtSane w <;> simp
open SrcWords in
theorem ddw0_src_check_iff (w : Bytes) (h : w.length = 10) :
    ∃ t, Ddw0.from_buf w = .ok t ∧ ((Ddw0Validator.sanity_check t).isErr = false ↔ Ddw0Spec (leNat w)) := by
  obtain ⟨t, ht, he⟩ := SrcTie.ddw0_sane_eq w
  refine ⟨t, ht, ?_⟩; rw [he, ← ddw0_sane_iff w h]; cases ddw0Sane w <;> simp

open SrcWords in
/-- the three data-word validators of the source: identifier table, `[E72]`, `[E71]`/`[E73]` -/
theorem data_src_checks (w : Bytes) (lanes : Nat) :
    ((DataWordSanityChecker.check_any w).isErr = !isValidDataId (wordId w)) ∧
    ((IbDataWordValidator.check w lanes).errStr.codes = if laneActive (ibLane (wordId w)) lanes then [] else [72]) ∧
    ((ObDataWordValidator.check w lanes).errStr.codes =
      (if laneActive (obLane (wordId w)) lanes then [] else [71]) ++ (if obConnectorInput (wordId w) > 6 then [73] else [])) :=
  ⟨SrcTie.check_any_eq w, SrcTie.ib_check_eq w lanes, SrcTie.ob_check_eq w lanes⟩

/-- the accessors the state-dependent checks read are the source's (`from_buf` + field methods) -/
theorem accessors_src (w : Bytes) :
    (∃ t, SrcWords.Ihw.from_buf w = .ok t ∧ t.active_lanes = ihwActiveLanes w) ∧
    (∃ t, SrcWords.Tdh.from_buf w = .ok t ∧ t.trigger_type = tdhTriggerType w ∧ t.internal_trigger = tdhInternal w ∧
      t.no_data = tdhNoData w ∧ t.continuation = tdhContinuation w ∧ t.trigger_bc = tdhBc w ∧ t.trigger_orbit = tdhOrbit w) ∧
    (∃ t, SrcWords.Tdt.from_buf w = .ok t ∧ t.packet_done = tdtPacketDone w) ∧
    (∃ t, SrcWords.Cdw.from_buf w = .ok t ∧ t.calibration_user_fields = cdwUserFields w ∧ t.calibration_word_index = cdwIndex w) :=
  ⟨SrcTie.ihw_active_lanes_eq w, SrcTie.tdh_fields_eq w, SrcTie.tdt_packet_done_field_eq w, SrcTie.cdw_fields_eq w⟩

/-- lane mapping and lane-activity test of the source (release-profile shift masking included) -/
theorem lanes_src (id lane lanes : Nat) (h : id < 256) :
    SrcWords.ob_data_word_id_to_lane id = obLane id ∧ SrcWords.ib_data_word_id_to_lane id = ibLane id ∧
    SrcWords.ob_data_word_id_to_input_number_connector id = obConnectorInput id ∧
    SrcWords.is_lane_active lane lanes = laneActive lane lanes :=
  ⟨SrcTie.ob_lane_eq id h, SrcTie.ib_lane_eq id, SrcTie.ob_connector_eq id, SrcTie.is_lane_active_eq lane lanes⟩

/-! ### non-vacuity: concrete words on both sides of each predicate -/
example : ihwSane [0xFF,0x3F,0,0,0,0,0,0,0,0xE0] = true := by decide
example : ihwSane [0xFF,0x3F,0,0x10,0,0,0,0,0,0xE0] = false := by decide
example : tdhSane [0x03,0x10,0,0,1,0,0,0,0,0xE8] = true := by decide
example : tdhSane [0x00,0x00,0,0,1,0,0,0,0,0xE8] = false := by decide
example : tdtSane [0,0,0,0,0,0,0,0xE0,0x0B,0xF0] = true := by decide
example : tdtSane [0,0,0,0,0,0,0,0,0x04,0xF0] = false := by decide
example : ddw0Sane [1,2,3,4,5,6,7,0,0x0A,0xE4] = true := by decide
example : ddw0Sane [0,0,0,0,0,0,0,0,0x10,0xE4] = false := by decide
example : dataWordCodes true 0x7 [0,0,0,0,0,0,0,0,0,0x21] = [] := by decide
example : dataWordCodes true 0x5 [0,0,0,0,0,0,0,0,0,0x21] = ["E72"] := by decide

end C11
end FastPasta
