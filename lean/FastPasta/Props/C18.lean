/-
  C18 — input truncated at any byte: the intact prefix is still analysed identically.

  * `scan_complete_prefix` (C03): when the input ends inside an RDH or exactly at a packet
    boundary, the scanner delivers exactly the complete packets, each with the offset, header and
    payload it has in the untruncated input (every filter, file and pipe, payloads loaded or skipped).
  * `linkRun_append`, `runValidators_append`, `validator_msgs_grow`: causality — what a validator
    has reported after a prefix of its packets is a prefix of what it reports after more packets;
    findings for packets before the cut therefore cannot depend on anything after the cut.
  * `truncated_findings_are_prefix`: combined statement for the model of a check run.
  * `scan_truncated_in_payload`, `truncated_in_payload_findings_are_prefix`: the cut inside a
    payload — the complete packets are delivered exactly as in the untruncated input, the
    truncated packet is delivered last (iff its header matches the filter) with its true offset,
    its header and an empty payload, and every validator's findings for the complete packets are
    a prefix of what it reports on the truncated input.
  Together with `scan_complete_prefix` (cut inside an RDH or at a packet boundary) every cut
  position of a well-framed input is covered.
-/
import FastPasta.Props.C03
import FastPasta.Proofs.ScanTail
import FastPasta.Model.Cli
import FastPasta.Proofs.Link
namespace FastPasta
namespace C18
open C03

/-- the findings of one link for a prefix of its packets are a prefix of its findings for more
    packets (findings are emitted while a packet is processed and never retracted) -/
theorem link_findings_prefix (cfg : CheckCfg) (s : LinkSt) (ps qs : List Packet)
    (sf : LinkSt) (m : List Msg) (h : linkRun cfg s (ps ++ qs) = .ok (sf, m)) :
    ∃ s1 m1 m2, linkRun cfg s ps = .ok (s1, m1) ∧ m = m1 ++ m2 := by
  rw [linkRun_append] at h
  cases h1 : linkRun cfg s ps with
  | error e => simp [h1] at h
  | ok r =>
    obtain ⟨s1, m1⟩ := r
    simp only [h1] at h
    cases h2 : linkRun cfg s1 qs with
    | error e => simp [h2] at h
    | ok r2 =>
      obtain ⟨s2, m2⟩ := r2
      simp only [h2, Except.ok.injEq, Prod.mk.injEq] at h
      exact ⟨s1, m1, m2, rfl, h.2.symm⟩

theorem runValidators_append (cfg : CheckCfg) (ps qs : List Packet) : ∀ (d : DispSt),
    runValidators cfg d (ps ++ qs) =
      match runValidators cfg d ps with
      | .error e => .error e
      | .ok d1 => runValidators cfg d1 qs := by
  induction ps with
  | nil => intro d; rfl
  | cons p ps ih =>
    intro d
    simp only [List.cons_append, runValidators]
    cases dispStep cfg d p with
    | error e => rfl
    | ok d1 => exact ih d1

/-- one dispatch step only appends to the message list of the validator owning the packet and
    leaves every other validator's list untouched -/
theorem dispStep_msgs_grow (cfg : CheckCfg) (p : Packet) : ∀ (d d' : DispSt),
    dispStep cfg d p = .ok d' → ∀ id, ∃ extra, d'.msgsOf id = d.msgsOf id ++ extra := by
  intro d
  unfold dispStep
  induction d with
  | nil =>
    intro d' h id
    simp only [dispStep.upd] at h
    cases hs : linkStep cfg (LinkSt.init cfg) p with
    | error e => simp [hs] at h
    | ok r =>
      obtain ⟨s, m⟩ := r
      simp only [hs, Except.ok.injEq] at h
      subst h
      by_cases hid : dispatchId cfg p.rdh = id
      · exact ⟨m, by simp [DispSt.msgsOf, hid]⟩
      · exact ⟨[], by simp [DispSt.msgsOf, hid]⟩
  | cons x xs ih =>
    obtain ⟨i, s, ms⟩ := x
    intro d' h id
    simp only [dispStep.upd] at h
    by_cases hi : (i == dispatchId cfg p.rdh) = true
    · simp only [hi, ↓reduceIte] at h
      cases hs : linkStep cfg s p with
      | error e => simp [hs] at h
      | ok r =>
        obtain ⟨s', m⟩ := r
        simp only [hs, Except.ok.injEq] at h
        subst h
        by_cases hid : (i == id) = true
        · exact ⟨m, by simp [DispSt.msgsOf, hid]⟩
        · exact ⟨[], by simp [DispSt.msgsOf, hid]⟩
    · simp only [hi, Bool.false_eq_true, ↓reduceIte] at h
      cases hu : dispStep.upd cfg p (dispatchId cfg p.rdh) xs with
      | error e => simp [hu] at h
      | ok rest' =>
        simp only [hu, Except.ok.injEq] at h
        subst h
        obtain ⟨extra, he⟩ := ih rest' hu id
        by_cases hid : (i == id) = true
        · exact ⟨[], by simp [DispSt.msgsOf, hid]⟩
        · refine ⟨extra, ?_⟩
          simp only [DispSt.msgsOf, List.find?_cons, hid] at he ⊢
          exact he

/-- **causality for the whole dispatcher**: after more packets every validator has reported what
    it had reported before, followed by more -/
theorem validator_msgs_grow (cfg : CheckCfg) (qs : List Packet) : ∀ (d d' : DispSt),
    runValidators cfg d qs = .ok d' → ∀ id, ∃ extra, d'.msgsOf id = d.msgsOf id ++ extra := by
  induction qs with
  | nil =>
    intro d d' h id
    simp only [runValidators, Except.ok.injEq] at h
    subst h
    exact ⟨[], by simp⟩
  | cons q qs ih =>
    intro d d' h id
    simp only [runValidators] at h
    cases h1 : dispStep cfg d q with
    | error e => simp [h1] at h
    | ok d1 =>
      simp only [h1] at h
      obtain ⟨e1, he1⟩ := dispStep_msgs_grow cfg q d d1 h1 id
      obtain ⟨e2, he2⟩ := ih d1 d' h id
      exact ⟨e1 ++ e2, by rw [he2, he1, List.append_assoc]⟩

/-- **C18 (model of a check run), cut inside an RDH or at a packet boundary**: the packets
    analysed from the truncated input are exactly the complete packets, and every validator's
    findings on the truncated input are a prefix of its findings on the whole input; in
    particular all findings of the truncated run concern complete packets and are identical to
    the untruncated run's findings for those packets. -/
theorem truncated_findings_are_prefix (cfg : CheckCfg) (sc : ScanCfg) (ps qs : List RawPkt)
    (hwf : ∀ p ∈ ps ++ qs, WF p) (tail : Bytes) (htail : tail.length < 64)
    (dFull : DispSt)
    (hfull : runValidators cfg [] (scanAll sc (bytesOf (ps ++ qs))).packets = .ok dFull) :
    ∃ dCut, runValidators cfg [] (scanAll sc (bytesOf ps ++ tail)).packets = .ok dCut ∧
      ∀ id, ∃ extra, dFull.msgsOf id = dCut.msgsOf id ++ extra := by
  have hps : ∀ p ∈ ps, WF p := fun p hp => hwf p (by simp [hp])
  rw [scan_complete_prefix sc ps hps tail htail]
  rw [scan_exact sc (ps ++ qs) hwf] at hfull
  -- expected of an append = expected of the prefix ++ expected of the rest (shifted offsets)
  have hsplit : ∀ (o : Nat) (l : List RawPkt), ∃ o', expected sc o (l ++ qs) = expected sc o l ++ expected sc o' qs := by
    intro o l
    induction l generalizing o with
    | nil => exact ⟨o, by simp [expected, chain]⟩
    | cons a as ih =>
      obtain ⟨o', h⟩ := ih (o + a.size)
      refine ⟨o', ?_⟩
      simp only [expected] at h ⊢
      simp only [List.cons_append, chain, List.filter_cons]
      split <;> simp [h]
  obtain ⟨o', hexp⟩ := hsplit 0 ps
  rw [hexp, runValidators_append] at hfull
  cases hcut : runValidators cfg [] (expected sc 0 ps) with
  | error e => simp [hcut] at hfull
  | ok dCut =>
    simp only [hcut] at hfull
    exact ⟨dCut, rfl, validator_msgs_grow cfg _ dCut dFull hfull⟩

/-- **C18, cut inside a payload (scanner)**: the complete packets exactly as in the untruncated
    input, then the truncated packet — iff its header matches the filter — with its true offset,
    its header and an empty payload; every filter, file and pipe, payloads loaded or skipped -/
theorem scan_truncated_in_payload (cfg : ScanCfg) (ps : List RawPkt) (hwf : ∀ p ∈ ps, WF p)
    (q : RawPkt) (n : Nat) (hq : WFH q n) (part : Bytes) (hpart : part.length < n) :
    (scanAll cfg (bytesOf ps ++ (q.hdr ++ part))).packets =
      expected cfg 0 ps ++ (if filterMatches cfg.filter q.rdh then [truncPacket (totalSize ps) q] else []) := by
  have h := scanLoop_tail cfg q n hq part hpart ps.length ps (Nat.le_refl _) hwf
    { rest := bytesOf ps ++ (q.hdr ++ part) } [] [] rfl
  unfold scanAll
  simp only [h]
  simp

/-- **C18, cut inside a payload (check run)**: what every validator reports for the complete
    packets alone is a prefix of what it reports on the truncated input, whose only additional
    packet is the truncated one -/
theorem truncated_in_payload_findings_are_prefix (cfg : CheckCfg) (sc : ScanCfg) (ps : List RawPkt)
    (hwf : ∀ p ∈ ps, WF p) (q : RawPkt) (n : Nat) (hq : WFH q n) (part : Bytes) (hpart : part.length < n)
    (dCut : DispSt) (hcut : runValidators cfg [] (scanAll sc (bytesOf ps ++ (q.hdr ++ part))).packets = .ok dCut) :
    ∃ dPre, runValidators cfg [] (scanAll sc (bytesOf ps)).packets = .ok dPre ∧
      ∀ id, ∃ extra, dCut.msgsOf id = dPre.msgsOf id ++ extra := by
  rw [scan_truncated_in_payload sc ps hwf q n hq part hpart, runValidators_append] at hcut
  rw [scan_exact sc ps hwf]
  cases hpre : runValidators cfg [] (expected sc 0 ps) with
  | error e => simp [hpre] at hcut
  | ok dPre =>
    simp only [hpre] at hcut
    exact ⟨dPre, rfl, validator_msgs_grow cfg _ dPre dCut hcut⟩

end C18
end FastPasta
