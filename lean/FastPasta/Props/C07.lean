/-
  C07 — reported offsets and quoted bytes are truthful.

  For every word the validator examines — whatever its contents and whatever the state — every
  finding emitted while processing it either
    * quotes the ten bytes of exactly that word and carries exactly that word's offset
      `packet offset + 64 + index × slot` (slot from the header's data format), or
    * carries no word dump and is located at that word's offset, or at the start offset of the
      readout frame being closed — which is itself the offset of an earlier examined word (the
      frame's opening TDH).
  RDH-level findings ([E10], [E11], the padding error) are located at the packet's own offset
  (`linkStep`). Together with C03 (`scan_exact`: the packet offset is the true file offset and
  the payload is exactly the file's bytes, under every filter) this gives the property for the
  whole run. The proviso "payload layout agrees with the header's data format" is what makes
  `index × slot` the position of chunk `index` in the file (C12).
-/
import FastPasta.Model.Cdp
import FastPasta.Proofs.StateSrcTie
namespace FastPasta
namespace C07

/-- `P` = "is the offset of a word examined so far (this one included)" -/
def MsgOk (P : Nat → Prop) (pos : Nat) (w : Bytes) : Msg → Prop
  | .alpideStats _ => True
  | .error f => P f.offset ∧ ∀ w', f.word = some w' → (w' = w ∧ f.offset = pos)

def FrameInv (P : Nat → Prop) (s : CdpSt) : Prop := ∀ f, s.frame = some f → P f.start

theorem ok_mkErr (P : Nat → Prop) (s : CdpSt) (c : String) (w : Bytes) (hp : P s.wordPos) :
    MsgOk P s.wordPos w (mkErr s c w) := by
  simp [MsgOk, mkErr, hp]

theorem ok_noWord (P : Nat → Prop) (pos off : Nat) (c : String) (w : Bytes) (hp : P off) :
    MsgOk P pos w (mkErrNoWord off c) := by
  simp [MsgOk, mkErrNoWord, hp]

theorem ok_frame (P : Nat → Prop) (pos off : Nat) (c : String) (fee : Nat) (n : List String) (w : Bytes) (hp : P off) :
    MsgOk P pos w (mkErrFrame off c fee n) := by
  simp [MsgOk, mkErrFrame, hp]

/-- helper: all messages of an if-built singleton list are ok -/
theorem ok_ite (P : Nat → Prop) (pos : Nat) (w : Bytes) (c : Prop) [Decidable c] (m : Msg) (hm : MsgOk P pos w m) :
    ∀ x ∈ (if c then [m] else []), MsgOk P pos w x := by
  intro x hx; split at hx
  · simp only [List.mem_singleton] at hx; subst hx; exact hm
  · simp at hx

theorem ok_ite' (P : Nat → Prop) (pos : Nat) (w : Bytes) (c : Prop) [Decidable c] (m : Msg) (hm : MsgOk P pos w m) :
    ∀ x ∈ (if c then [] else [m]), MsgOk P pos w x := by
  intro x hx; split at hx
  · simp at hx
  · simp only [List.mem_singleton] at hx; subst hx; exact hm

theorem ok_append (P : Nat → Prop) (pos : Nat) (w : Bytes) (a b : List Msg)
    (ha : ∀ x ∈ a, MsgOk P pos w x) (hb : ∀ x ∈ b, MsgOk P pos w x) : ∀ x ∈ a ++ b, MsgOk P pos w x := by
  intro x hx; rcases List.mem_append.mp hx with h | h
  · exact ha x h
  · exact hb x h

theorem ok_nil (P : Nat → Prop) (pos : Nat) (w : Bytes) : ∀ x ∈ ([] : List Msg), MsgOk P pos w x := by
  intro x hx; simp at hx

theorem wordPos_replaceTdh (s : CdpSt) (w : Bytes) : (replaceTdh s w).wordPos = s.wordPos := rfl

theorem preTdh_ok (P : Nat → Prop) (cfg : CheckCfg) (s : CdpSt) (w : Bytes) (hp : P s.wordPos) (hf : FrameInv P s) :
    (∀ x ∈ (preTdh cfg s w).2, MsgOk P s.wordPos w x) ∧ FrameInv P (preTdh cfg s w).1 ∧
    (preTdh cfg s w).1.wordPos = s.wordPos := by
  by_cases hs : tdhSane w = true <;>
  by_cases hc : (cfg.stave && !(replaceTdh s w).inFrame && tdhContinuation w == 0) = true <;>
  simp only [preTdh, hs, hc, ↓reduceIte, Bool.false_eq_true] <;>
  refine ⟨?_, ?_, rfl⟩
  · exact ok_nil P _ w
  · intro f hf'; simp only [Option.some.injEq] at hf'; subst hf'; exact hp
  · exact ok_nil P _ w
  · intro f hf'; exact hf f hf'
  · intro x hx; simp only [List.mem_singleton] at hx; subst hx; exact ok_mkErr P s _ w hp
  · intro f hf'; simp only [Option.some.injEq] at hf'; subst hf'; exact hp
  · intro x hx; simp only [List.mem_singleton] at hx; subst hx; exact ok_mkErr P s _ w hp
  · intro f hf'; exact hf f hf'

theorem processFrame_ok (P : Nat → Prop) (cfg : CheckCfg) (s : CdpSt) (w : Bytes) (hp : P s.wordPos) (hf : FrameInv P s)
    (s' : CdpSt) (ms : List Msg) (h : processFrame cfg s = .ok (s', ms)) :
    (∀ x ∈ ms, MsgOk P s.wordPos w x) ∧ FrameInv P s' ∧ s'.wordPos = s.wordPos := by
  unfold processFrame at h
  simp only at h
  cases hfr : s.frame with
  | none =>
    simp only [hfr, Except.ok.injEq, Prod.mk.injEq] at h
    obtain ⟨rfl, rfl⟩ := h
    refine ⟨?_, ?_, rfl⟩
    · intro x hx
      simp only [List.mem_singleton] at hx; subst hx
      exact ok_noWord P _ _ _ w hp
    · intro f hf'; simp [hfr] at hf'
  | some f =>
    have hpf : P f.start := hf f hfr
    simp only [hfr] at h
    split at h
    · simp only [Except.ok.injEq, Prod.mk.injEq] at h
      obtain ⟨rfl, rfl⟩ := h
      refine ⟨?_, ?_, rfl⟩
      · intro x hx
        simp only [List.mem_singleton] at hx; subst hx
        exact ok_frame P _ _ _ _ _ w hpf
      · intro g hg; simp at hg
    · split at h
      · cases h
      · simp only [Except.ok.injEq, Prod.mk.injEq] at h
        obtain ⟨rfl, rfl⟩ := h
        refine ⟨?_, ?_, rfl⟩
        · apply ok_append
          · apply ok_append
            · exact ok_ite' P _ w _ _ (ok_frame P _ _ _ _ _ w hpf)
            · intro x hx; simp only [List.mem_singleton] at hx; subst hx; trivial
          · exact ok_ite' P _ w _ _ (ok_frame P _ _ _ _ _ w hpf)
        · intro g hg; simp at hg

theorem preTdt_ok (P : Nat → Prop) (cfg : CheckCfg) (s : CdpSt) (w : Bytes) (hp : P s.wordPos) (hf : FrameInv P s)
    (s' : CdpSt) (ms : List Msg) (h : preTdt cfg s w = .ok (s', ms)) :
    (∀ x ∈ ms, MsgOk P s.wordPos w x) ∧ FrameInv P s' ∧ s'.wordPos = s.wordPos := by
  unfold preTdt at h
  simp only at h
  have hm : ∀ x ∈ (if tdtSane w = true then [] else [mkErr s "E50" w]), MsgOk P s.wordPos w x :=
    ok_ite' P _ w _ _ (ok_mkErr P s _ w hp)
  by_cases hc : (cfg.stave && tdtPacketDone w) = true
  · simp only [hc, ↓reduceIte] at h
    cases hpf : processFrame cfg { s with tdt := some w } with
    | error e => simp [hpf] at h
    | ok r =>
      obtain ⟨s2, m2⟩ := r
      simp only [hpf, Except.ok.injEq, Prod.mk.injEq] at h
      obtain ⟨rfl, rfl⟩ := h
      have := processFrame_ok P cfg { s with tdt := some w } w hp (fun f hf' => hf f hf') s2 m2 hpf
      exact ⟨ok_append P _ w _ _ hm this.1, this.2.1, this.2.2⟩
  · simp only [hc, Bool.false_eq_true, ↓reduceIte, Except.ok.injEq, Prod.mk.injEq] at h
    obtain ⟨rfl, rfl⟩ := h
    exact ⟨hm, fun f hf' => hf f hf', rfl⟩

theorem preIhw_ok (P : Nat → Prop) (s : CdpSt) (w : Bytes) (hp : P s.wordPos) (hf : FrameInv P s) :
    (∀ x ∈ (preIhw s w).2, MsgOk P s.wordPos w x) ∧ FrameInv P (preIhw s w).1 ∧ (preIhw s w).1.wordPos = s.wordPos := by
  unfold preIhw
  exact ⟨ok_ite' P _ w _ _ (ok_mkErr P s _ w hp), fun f hf' => hf f hf', rfl⟩

theorem preDdw0_ok (P : Nat → Prop) (cfg : CheckCfg) (s : CdpSt) (w : Bytes) (hp : P s.wordPos) (hf : FrameInv P s) :
    (∀ x ∈ (preDdw0 cfg s w).2, MsgOk P s.wordPos w x) ∧ FrameInv P (preDdw0 cfg s w).1 ∧ (preDdw0 cfg s w).1.wordPos = s.wordPos := by
  unfold preDdw0
  refine ⟨?_, fun f hf' => hf f hf', rfl⟩
  apply ok_append
  · exact ok_ite' P _ w _ _ (ok_mkErr P s _ w hp)
  · split
    · exact ok_nil P _ w
    · apply ok_append
      · exact ok_ite P _ w _ _ (ok_mkErr P s _ w hp)
      · exact ok_ite P _ w _ _ (ok_mkErr P s _ w hp)

theorem preData_ok (P : Nat → Prop) (cfg : CheckCfg) (s : CdpSt) (w : Bytes) (hp : P s.wordPos) (hf : FrameInv P s)
    (s' : CdpSt) (ms : List Msg) (h : preData cfg s w = .ok (s', ms)) :
    (∀ x ∈ ms, MsgOk P s.wordPos w x) ∧ FrameInv P s' ∧ s'.wordPos = s.wordPos := by
  unfold preData at h
  simp only at h
  split at h
  · -- CDW
    split at h
    · simp only [Except.ok.injEq, Prod.mk.injEq] at h
      obtain ⟨rfl, rfl⟩ := h
      exact ⟨ok_nil P _ w, fun f hf' => hf f hf', rfl⟩
    · simp only [Except.ok.injEq, Prod.mk.injEq] at h
      obtain ⟨rfl, rfl⟩ := h
      exact ⟨ok_ite P _ w _ _ (ok_mkErr P s _ w hp), fun f hf' => hf f hf', rfl⟩
  · have hm1 : ∀ x ∈ (if isValidDataId (wordId w) = true then [] else [mkErr s "E70" w]), MsgOk P s.wordPos w x :=
      ok_ite' P _ w _ _ (ok_mkErr P s _ w hp)
    split at h
    · simp only [Except.ok.injEq, Prod.mk.injEq] at h
      obtain ⟨rfl, rfl⟩ := h
      exact ⟨hm1, fun f hf' => hf f hf', rfl⟩
    · split at h
      · cases h
      · rename_i ihw _
        have hm2 : ∀ x ∈ (if (wordId w / 32 == 1) = true then
              (if laneActive (ibLane (wordId w)) (ihwActiveLanes ihw) = true then [] else [mkErr s "E72" w])
            else (if laneActive (obLane (wordId w)) (ihwActiveLanes ihw) = true then [] else [mkErr s "E71" w]) ++
              (if obConnectorInput (wordId w) > 6 then [mkErr s "E73" w] else [])), MsgOk P s.wordPos w x := by
          split
          · exact ok_ite' P _ w _ _ (ok_mkErr P s _ w hp)
          · apply ok_append
            · exact ok_ite' P _ w _ _ (ok_mkErr P s _ w hp)
            · exact ok_ite P _ w _ _ (ok_mkErr P s _ w hp)
        split at h
        · simp only [Except.ok.injEq, Prod.mk.injEq] at h
          obtain ⟨rfl, rfl⟩ := h
          exact ⟨ok_append P _ w _ _ hm1 hm2, fun f hf' => hf f hf', rfl⟩
        · split at h
          · simp only [Except.ok.injEq, Prod.mk.injEq] at h
            obtain ⟨rfl, rfl⟩ := h
            exact ⟨ok_append P _ w _ _ hm1 hm2, fun f hf' => hf f hf', rfl⟩
          · cases h
          · rename_i fr _ hfr _
            simp only [Except.ok.injEq, Prod.mk.injEq] at h
            obtain ⟨rfl, rfl⟩ := h
            refine ⟨ok_append P _ w _ _ hm1 hm2, ?_, rfl⟩
            intro g hg
            simp only [Option.some.injEq] at hg
            subst hg
            exact hf fr hfr

theorem preData_fields (cfg : CheckCfg) (s : CdpSt) (w : Bytes) (s' : CdpSt) (ms : List Msg)
    (h : preData cfg s w = .ok (s', ms)) :
    s'.payloadPos = s.payloadPos ∧ s'.slot = s.slot ∧ s'.wordCount = s.wordCount := by
  unfold preData at h
  simp only at h
  split at h
  · split at h <;> (simp only [Except.ok.injEq, Prod.mk.injEq] at h; obtain ⟨rfl, _⟩ := h; exact ⟨rfl, rfl, rfl⟩)
  · split at h
    · simp only [Except.ok.injEq, Prod.mk.injEq] at h; obtain ⟨rfl, _⟩ := h; exact ⟨rfl, rfl, rfl⟩
    · split at h
      · cases h
      · split at h
        · simp only [Except.ok.injEq, Prod.mk.injEq] at h; obtain ⟨rfl, _⟩ := h; exact ⟨rfl, rfl, rfl⟩
        · split at h
          · simp only [Except.ok.injEq, Prod.mk.injEq] at h; obtain ⟨rfl, _⟩ := h; exact ⟨rfl, rfl, rfl⟩
          · cases h
          · simp only [Except.ok.injEq, Prod.mk.injEq] at h; obtain ⟨rfl, _⟩ := h; exact ⟨rfl, rfl, rfl⟩

theorem tdhInterval_ok (P : Nat → Prop) (cfg : CheckCfg) (s : CdpSt) (w : Bytes) (hp : P s.wordPos) :
    ∀ x ∈ tdhTriggerInterval cfg s, MsgOk P s.wordPos w x := by
  unfold tdhTriggerInterval
  split
  · exact ok_ite P _ w _ _ (ok_noWord P _ _ _ w hp)
  · exact ok_nil P _ w

theorem tdhNoCont_ok (P : Nat → Prop) (s : CdpSt) (w : Bytes) (hp : P s.wordPos) :
    ∀ x ∈ tdhNoContinuationChecks s w, MsgOk P s.wordPos w x := by
  unfold tdhNoContinuationChecks
  apply ok_append
  · apply ok_append
    · exact ok_ite P _ w _ _ (ok_mkErr P s _ w hp)
    · exact ok_ite P _ w _ _ (ok_mkErr P s _ w hp)
  · split
    · apply ok_append
      · exact ok_ite P _ w _ _ (ok_mkErr P s _ w hp)
      · exact ok_ite P _ w _ _ (ok_mkErr P s _ w hp)
    · exact ok_nil P _ w

theorem tdhCont_ok (P : Nat → Prop) (s : CdpSt) (w : Bytes) (hp : P s.wordPos) :
    ∀ x ∈ tdhContinuationChecks s w, MsgOk P s.wordPos w x := by
  unfold tdhContinuationChecks
  apply ok_append
  · exact ok_ite P _ w _ _ (ok_mkErr P s _ w hp)
  · split
    · apply ok_append
      · apply ok_append
        · exact ok_ite P _ w _ _ (ok_mkErr P s _ w hp)
        · exact ok_ite P _ w _ _ (ok_mkErr P s _ w hp)
      · exact ok_ite P _ w _ _ (ok_mkErr P s _ w hp)
    · exact ok_nil P _ w


/-- offset of the word about to be examined -/
def nextPos (s : CdpSt) : Nat := s.payloadPos + s.wordCount * s.slot

/-- **one word**: every finding emitted while the word is processed is truthful -/
theorem checkWord_ok (P : Nat → Prop) (cfg : CheckCfg) (s : CdpSt) (w : Bytes) (hp : P (nextPos s)) (hf : FrameInv P s)
    (s' : CdpSt) (ms : List Msg) (h : checkWord cfg s w = .ok (s', ms)) :
    (∀ x ∈ ms, MsgOk P (nextPos s) w x) ∧ FrameInv P s' ∧
    s'.payloadPos = s.payloadPos ∧ s'.slot = s.slot ∧ s'.wordCount = s.wordCount + 1 := by
  rcases hadv : fsmAdvance s.fsm w with ⟨st', cls⟩
  simp only [checkWord, hadv] at h
  -- the state handed to the helpers: word counter incremented, new FSM state
  generalize hs1 : ({ s with wordCount := s.wordCount + 1, fsm := st' } : CdpSt) = s1 at h
  have hpos : s1.wordPos = nextPos s := by subst hs1; simp [CdpSt.wordPos, nextPos]
  have hp1 : P s1.wordPos := hpos ▸ hp
  have hf1 : FrameInv P s1 := by subst hs1; exact fun f hf' => hf f hf'
  have hpp : s1.payloadPos = s.payloadPos ∧ s1.slot = s.slot ∧ s1.wordCount = s.wordCount + 1 := by subst hs1; exact ⟨rfl, rfl, rfl⟩
  have fields : ∀ t : CdpSt, t.wordPos = s1.wordPos → t.payloadPos = s1.payloadPos → t.slot = s1.slot → t.wordCount = s1.wordCount →
      t.payloadPos = s.payloadPos ∧ t.slot = s.slot ∧ t.wordCount = s.wordCount + 1 := by
    intro t _ a b c; rw [a, b, c]; exact hpp
  rw [← hpos]
  cases cls <;> simp only at h
  · -- ihw
    simp only [Except.ok.injEq, Prod.mk.injEq] at h
    obtain ⟨rfl, rfl⟩ := h
    have := preIhw_ok P s1 w hp1 hf1
    refine ⟨ok_append P _ w _ _ this.1 ?_, this.2.1, ?_⟩
    · split
      · intro x hx; simp only [List.mem_singleton] at hx; subst hx
        have : (preIhw s1 w).1.wordPos = s1.wordPos := rfl
        rw [← this]; exact ok_mkErr P _ _ w (by rw [this]; exact hp1)
      · exact ok_nil P _ w
    · exact hpp
  · -- ihwCont
    simp only [Except.ok.injEq, Prod.mk.injEq] at h
    obtain ⟨rfl, rfl⟩ := h
    have := preIhw_ok P s1 w hp1 hf1
    exact ⟨this.1, this.2.1, hpp⟩
  · -- tdh
    simp only [Except.ok.injEq, Prod.mk.injEq] at h
    obtain ⟨rfl, rfl⟩ := h
    have := preTdh_ok P cfg s1 w hp1 hf1
    have hw2 : (preTdh cfg s1 w).1.wordPos = s1.wordPos := this.2.2
    refine ⟨ok_append P _ w _ _ this.1 ?_, this.2.1, ?_⟩
    · split
      · rw [← hw2]
        exact ok_append P _ w _ _ (tdhNoCont_ok P _ w (hw2 ▸ hp1)) (tdhInterval_ok P cfg _ w (hw2 ▸ hp1))
      · exact ok_nil P _ w
    · unfold preTdh; simp only; split <;> exact hpp
  · -- tdhCont
    simp only [Except.ok.injEq, Prod.mk.injEq] at h
    obtain ⟨rfl, rfl⟩ := h
    have := preTdh_ok P cfg s1 w hp1 hf1
    have hw2 : (preTdh cfg s1 w).1.wordPos = s1.wordPos := this.2.2
    refine ⟨ok_append P _ w _ _ this.1 ?_, this.2.1, ?_⟩
    · split
      · rw [← hw2]; exact tdhCont_ok P _ w (hw2 ▸ hp1)
      · exact ok_nil P _ w
    · unfold preTdh; simp only; split <;> exact hpp
  · -- tdhAfterPacketDone
    simp only [Except.ok.injEq, Prod.mk.injEq] at h
    obtain ⟨rfl, rfl⟩ := h
    have := preTdh_ok P cfg s1 w hp1 hf1
    have hw2 : (preTdh cfg s1 w).1.wordPos = s1.wordPos := this.2.2
    refine ⟨ok_append P _ w _ _ this.1 ?_, this.2.1, ?_⟩
    · split
      · exact ok_nil P _ w
      · rw [← hw2]
        apply ok_append
        · split
          · exact ok_ite P _ w _ _ (ok_mkErr P _ _ w (hw2 ▸ hp1))
          · exact ok_nil P _ w
        · exact tdhInterval_ok P cfg _ w (hw2 ▸ hp1)
    · unfold preTdh; simp only; split <;> exact hpp
  · -- tdt
    have := preTdt_ok P cfg s1 w hp1 hf1 s' ms h
    refine ⟨this.1, this.2.1, ?_⟩
    -- preTdt changes neither tracker field
    have hk : s'.payloadPos = s1.payloadPos ∧ s'.slot = s1.slot ∧ s'.wordCount = s1.wordCount := by
      unfold preTdt at h
      simp only at h
      split at h
      · cases hpf : processFrame cfg { s1 with tdt := some w } with
        | error e => simp [hpf] at h
        | ok r =>
          obtain ⟨s2, m2⟩ := r
          simp only [hpf, Except.ok.injEq, Prod.mk.injEq] at h
          obtain ⟨rfl, _⟩ := h
          unfold processFrame at hpf
          simp only at hpf
          split at hpf
          · simp only [Except.ok.injEq, Prod.mk.injEq] at hpf; obtain ⟨rfl, _⟩ := hpf; exact ⟨rfl, rfl, rfl⟩
          · split at hpf
            · simp only [Except.ok.injEq, Prod.mk.injEq] at hpf; obtain ⟨rfl, _⟩ := hpf; exact ⟨rfl, rfl, rfl⟩
            · split at hpf
              · cases hpf
              · simp only [Except.ok.injEq, Prod.mk.injEq] at hpf; obtain ⟨rfl, _⟩ := hpf; exact ⟨rfl, rfl, rfl⟩
      · simp only [Except.ok.injEq, Prod.mk.injEq] at h; obtain ⟨rfl, _⟩ := h; exact ⟨rfl, rfl, rfl⟩
    rw [hk.1, hk.2.1, hk.2.2]; exact hpp
  · -- cdw
    have := preData_ok P cfg s1 w hp1 hf1 s' ms h
    refine ⟨this.1, this.2.1, ?_⟩
    have hk := preData_fields cfg s1 w s' ms h
    rw [hk.1, hk.2.1, hk.2.2]; exact hpp
  · -- dataWord
    have := preData_ok P cfg s1 w hp1 hf1 s' ms h
    refine ⟨this.1, this.2.1, ?_⟩
    have hk := preData_fields cfg s1 w s' ms h
    rw [hk.1, hk.2.1, hk.2.2]; exact hpp
  · -- ddw0
    simp only [Except.ok.injEq, Prod.mk.injEq] at h
    obtain ⟨rfl, rfl⟩ := h
    have := preDdw0_ok P cfg s1 w hp1 hf1
    exact ⟨this.1, this.2.1, hpp⟩
  · -- errTdhOrDdw0
    simp only [Except.ok.injEq, Prod.mk.injEq] at h
    obtain ⟨rfl, rfl⟩ := h
    have := preTdh_ok P cfg s1 w hp1 hf1
    refine ⟨?_, this.2.1, ?_⟩
    · intro x hx
      simp only [List.mem_cons] at hx
      rcases hx with rfl | hx
      · exact ok_mkErr P s1 _ w hp1
      · exact this.1 x hx
    · unfold preTdh; simp only; split <;> exact hpp
  · -- errDwOrTdtCdw
    cases hpd : preData cfg s1 w with
    | error e => simp [hpd] at h
    | ok r =>
      obtain ⟨s2, m2⟩ := r
      simp only [hpd, Except.ok.injEq, Prod.mk.injEq] at h
      obtain ⟨rfl, rfl⟩ := h
      have := preData_ok P cfg s1 w hp1 hf1 s2 m2 hpd
      refine ⟨?_, this.2.1, ?_⟩
      · intro x hx
        simp only [List.mem_cons] at hx
        rcases hx with rfl | hx
        · exact ok_mkErr P s1 _ w hp1
        · exact this.1 x hx
      · have hk := preData_fields cfg s1 w s2 m2 hpd
        rw [hk.1, hk.2.1, hk.2.2]; exact hpp
  · -- errDdw0OrTdhIhw
    simp only [Except.ok.injEq, Prod.mk.injEq] at h
    obtain ⟨rfl, rfl⟩ := h
    have := preDdw0_ok P cfg s1 w hp1 hf1
    refine ⟨?_, this.2.1, hpp⟩
    intro x hx
    simp only [List.mem_cons] at hx
    rcases hx with rfl | hx
    · exact ok_mkErr P s1 _ w hp1
    · exact this.1 x hx


/-- a finding is located at word `k` of the word list `ws` that starts at tracker position
    (`base`, `slot`), quoting that word if it quotes any; or at an offset already known (`P`) -/
def AtWords (P : Nat → Prop) (base slot : Nat) (ws : List Bytes) (m : Msg) : Prop :=
  ∃ k w, ws[k]? = some w ∧ MsgOk P (base + k * slot) w m

theorem checkWords_ok (P : Nat → Prop) (cfg : CheckCfg) (ws : List Bytes) : ∀ (s : CdpSt),
    (∀ k, k < ws.length → P (s.payloadPos + (s.wordCount + k) * s.slot)) → FrameInv P s →
    ∀ s' ms, checkWords cfg s ws = .ok (s', ms) →
      (∀ x ∈ ms, AtWords P (s.payloadPos + s.wordCount * s.slot) s.slot ws x) ∧ FrameInv P s' := by
  induction ws with
  | nil =>
    intro s _ hf s' ms h
    simp only [checkWords, Except.ok.injEq, Prod.mk.injEq] at h
    obtain ⟨rfl, rfl⟩ := h
    exact ⟨fun x hx => by simp at hx, hf⟩
  | cons w ws ih =>
    intro s hP hf s' ms h
    simp only [checkWords] at h
    cases h1 : checkWord cfg s w with
    | error e => simp [h1] at h
    | ok r1 =>
      obtain ⟨s1, m1⟩ := r1
      simp only [h1] at h
      cases h2 : checkWords cfg s1 ws with
      | error e => simp [h2] at h
      | ok r2 =>
        obtain ⟨s2, m2⟩ := r2
        simp only [h2, Except.ok.injEq, Prod.mk.injEq] at h
        obtain ⟨rfl, rfl⟩ := h
        have hp0 : P (nextPos s) := by
          have := hP 0 (by simp)
          simpa [nextPos] using this
        obtain ⟨hm1, hf1, e1, e2, e3⟩ := checkWord_ok P cfg s w hp0 hf s1 m1 h1
        have hP1 : ∀ k, k < ws.length → P (s1.payloadPos + (s1.wordCount + k) * s1.slot) := by
          intro k hk
          rw [e1, e2, e3]
          have := hP (k + 1) (by simp; omega)
          have e : s.wordCount + (k + 1) = s.wordCount + 1 + k := by omega
          rw [e] at this; exact this
        obtain ⟨hm2, hf2⟩ := ih s1 hP1 hf1 s2 m2 h2
        refine ⟨?_, hf2⟩
        intro x hx
        rcases List.mem_append.mp hx with hx | hx
        · exact ⟨0, w, by simp, by simpa [nextPos] using hm1 x hx⟩
        · obtain ⟨k, w', hk, hok⟩ := hm2 x hx
          refine ⟨k + 1, w', by simpa using hk, ?_⟩
          rw [e1, e2, e3] at hok
          have e : s.payloadPos + (s.wordCount + 1) * s.slot + k * s.slot = s.payloadPos + s.wordCount * s.slot + (k + 1) * s.slot := by
            rw [Nat.add_mul, Nat.add_mul]; omega
          rw [e] at hok; exact hok

/-- slot size the offsets are computed with: from the header's data format -/
def slotOf (r : Rdh) : Nat := if r.dataFormat == 0 then 16 else 10

/-- **one packet**: the padding error is located at the packet offset; every other finding is at
    a word of this packet's cut payload (quoting that word if it quotes any) or at a known earlier
    offset (the opening TDH of the frame being closed) -/
theorem payloadChecks_ok (P : Nat → Prop) (cfg : CheckCfg) (s : CdpSt) (off : Nat) (r : Rdh) (payload : Bytes)
    (hoff : P off)
    (hP : ∀ ws, cutPayload payload = some ws → ∀ k, k < ws.length → P (off + 64 + k * slotOf r))
    (hf : FrameInv P s) (s' : CdpSt) (ms : List Msg) (h : payloadChecks cfg s off r payload = .ok (s', ms)) :
    (∀ x ∈ ms, (x = mkErrNoWord off "PAYLOAD" ∧ cutPayload payload = none) ∨
       ∃ ws, cutPayload payload = some ws ∧ AtWords P (off + 64) (slotOf r) ws x) ∧ FrameInv P s' := by
  unfold payloadChecks at h
  cases hs0 : setCurrentRdh cfg s off r with
  | error e => simp [hs0] at h
  | ok s0 =>
    simp only [hs0] at h
    -- s0 differs from the re-initialised tracker state at most in `barrel`
    have hs0' : s0.payloadPos = off + 64 ∧ s0.wordCount = 0 ∧ s0.slot = slotOf r ∧ FrameInv P s0 := by
      unfold setCurrentRdh at hs0
      simp only at hs0
      split at hs0
      · split at hs0
        · cases hs0
        · simp only [Except.ok.injEq] at hs0; subst hs0; exact ⟨rfl, rfl, rfl, fun f hf' => hf f hf'⟩
      · simp only [Except.ok.injEq] at hs0; subst hs0; exact ⟨rfl, rfl, rfl, fun f hf' => hf f hf'⟩
    obtain ⟨a1, a2, a3, a4⟩ := hs0'
    cases hc : cutPayload payload with
    | none =>
      simp only [hc, Except.ok.injEq, Prod.mk.injEq] at h
      obtain ⟨rfl, rfl⟩ := h
      refine ⟨?_, fun f hf' => a4 f hf'⟩
      intro x hx
      simp only [List.mem_singleton] at hx
      exact Or.inl ⟨hx, rfl⟩
    | some ws =>
      simp only [hc] at h
      have hP' : ∀ k, k < ws.length → P (s0.payloadPos + (s0.wordCount + k) * s0.slot) := by
        intro k hk; rw [a1, a2, a3]; simpa using hP ws hc k hk
      obtain ⟨hm, hf'⟩ := checkWords_ok P cfg ws s0 hP' a4 s' ms h
      refine ⟨?_, hf'⟩
      intro x hx
      refine Or.inr ⟨ws, rfl, ?_⟩
      have := hm x hx
      rw [a1, a2, a3] at this
      simpa using this

/-- word positions of a packet: `offset + 64 + k × slot` for the `k`-th chunk of its payload -/
def IsWordPos (p : Packet) (o : Nat) : Prop :=
  ∃ ws k, cutPayload p.payload = some ws ∧ k < ws.length ∧ o = p.offset + 64 + k * slotOf p.rdh

/-- offsets that exist in a packet list: RDH starts and payload word starts -/
def Known (ps : List Packet) (o : Nat) : Prop := ∃ p ∈ ps, o = p.offset ∨ IsWordPos p o

/-- what "truthful" means for one finding of a run over the packets `ps` -/
def Truthful (ps : List Packet) : Msg → Prop
  | .alpideStats _ => True
  | .error f => Known ps f.offset ∧
      ∀ w', f.word = some w' → ∃ p ∈ ps, ∃ ws k, cutPayload p.payload = some ws ∧ ws[k]? = some w' ∧
        f.offset = p.offset + 64 + k * slotOf p.rdh

theorem linkStep_ok (cfg : CheckCfg) (all : List Packet) (p : Packet) (hp : p ∈ all) (s : LinkSt)
    (hf : FrameInv (Known all) s.cdp) (s' : LinkSt) (ms : List Msg) (h : linkStep cfg s p = .ok (s', ms)) :
    (∀ x ∈ ms, Truthful all x) ∧ FrameInv (Known all) s'.cdp := by
  unfold linkStep at h
  simp only at h
  have hk : Known all p.offset := ⟨p, hp, Or.inl rfl⟩
  have h10 : ∀ b : Bool, ∀ x ∈ (if b = true then [mkErrNoWord p.offset "E10"] else []), Truthful all x := by
    intro b x hx; split at hx
    · simp only [List.mem_singleton] at hx; subst hx; exact ⟨hk, by simp [mkErrNoWord]⟩
    · simp at hx
  have h11 : ∀ b : Bool, ∀ x ∈ (if b = true then [mkErrNoWord p.offset "E11"] else []), Truthful all x := by
    intro b x hx; split at hx
    · simp only [List.mem_singleton] at hx; subst hx; exact ⟨hk, by simp [mkErrNoWord]⟩
    · simp at hx
  split at h
  · split at h
    · cases h
    · rename_i cdp' m3 hpc
      simp only [Except.ok.injEq, Prod.mk.injEq] at h
      obtain ⟨rfl, rfl⟩ := h
      have hP : ∀ ws, cutPayload p.payload = some ws → ∀ k, k < ws.length → Known all (p.offset + 64 + k * slotOf p.rdh) :=
        fun ws hws k hk' => ⟨p, hp, Or.inr ⟨ws, k, hws, hk', rfl⟩⟩
      obtain ⟨hm, hf'⟩ := payloadChecks_ok (Known all) cfg s.cdp p.offset p.rdh p.payload hk hP hf cdp' m3 hpc
      refine ⟨?_, hf'⟩
      intro x hx
      rcases List.mem_append.mp hx with hx | hx
      · rcases List.mem_append.mp hx with hx | hx
        · exact h10 _ x hx
        · exact h11 _ x hx
      · rcases hm x hx with ⟨rfl, _⟩ | ⟨ws, hws, k, w, hkw, hok⟩
        · exact ⟨hk, by simp [mkErrNoWord]⟩
        · cases x with
          | alpideStats _ => trivial
          | error f =>
            obtain ⟨hP1, hq⟩ := hok
            refine ⟨hP1, ?_⟩
            intro w' hw'
            obtain ⟨rfl, hoff⟩ := hq w' hw'
            exact ⟨p, hp, ws, k, hws, hkw, hoff⟩
  · simp only [Except.ok.injEq, Prod.mk.injEq] at h
    obtain ⟨rfl, rfl⟩ := h
    refine ⟨?_, hf⟩
    intro x hx
    rcases List.mem_append.mp hx with hx | hx
    · exact h10 _ x hx
    · exact h11 _ x hx

/-- **C07 for one link**: every finding of a sequential pass over the packets `ps` of a link —
    arbitrary header and payload contents — is truthful: located at an RDH start or a payload
    word start of one of these packets, and a quoted word is exactly the word cut from the
    payload at that offset. -/
theorem finding_truthful (cfg : CheckCfg) (all : List Packet) : ∀ (ps : List Packet), (∀ p ∈ ps, p ∈ all) →
    ∀ (s : LinkSt), FrameInv (Known all) s.cdp → ∀ s' ms, linkRun cfg s ps = .ok (s', ms) →
      (∀ x ∈ ms, Truthful all x) ∧ FrameInv (Known all) s'.cdp := by
  intro ps
  induction ps with
  | nil =>
    intro _ s hf s' ms h
    simp only [linkRun, Except.ok.injEq, Prod.mk.injEq] at h
    obtain ⟨rfl, rfl⟩ := h
    exact ⟨fun x hx => by simp at hx, hf⟩
  | cons p ps ih =>
    intro hall s hf s' ms h
    simp only [linkRun] at h
    cases h1 : linkStep cfg s p with
    | error e => simp [h1] at h
    | ok r1 =>
      obtain ⟨s1, m1⟩ := r1
      simp only [h1] at h
      cases h2 : linkRun cfg s1 ps with
      | error e => simp [h2] at h
      | ok r2 =>
        obtain ⟨s2, m2⟩ := r2
        simp only [h2, Except.ok.injEq, Prod.mk.injEq] at h
        obtain ⟨rfl, rfl⟩ := h
        obtain ⟨hm1, hf1⟩ := linkStep_ok cfg all p (hall p (by simp)) s hf s1 m1 h1
        obtain ⟨hm2, hf2⟩ := ih (fun q hq => hall q (by simp [hq])) s1 hf1 s2 m2 h2
        exact ⟨fun x hx => (List.mem_append.mp hx).elim (hm1 x) (hm2 x), hf2⟩

theorem finding_truthful_init (cfg : CheckCfg) (ps : List Packet) (s' : LinkSt) (ms : List Msg)
    (h : linkRun cfg (LinkSt.init cfg) ps = .ok (s', ms)) : ∀ x ∈ ms, Truthful ps x :=
  (finding_truthful cfg ps ps (fun _ hp => hp) (LinkSt.init cfg) (fun f hf => by simp [LinkSt.init] at hf) s' ms h).1


/-! ### tie by translation: the offset carried by every word-level message is computed by the source's own `CdpTracker`
    (`Spec/StateSrcGen.lean`, translated from `cdp_running/cdp_tracker.rs` on this run) -/
/-- the model's tracker fields read off the source's tracker -/
def trackerAbs (tr : SrcState.CdpTracker) (s : CdpSt) : Prop :=
  s.payloadPos = tr.f_payload_mem_pos ∧ s.wordCount = tr.f_gbt_word_counter ∧ s.slot = 10 + tr.f_gbt_word_padding_size_bytes ∧
  s.startOfData = tr.f_is_start_of_data

/-- a new packet: `CdpTracker::new(rdh, offset)` is the tracker part of `setCurrentRdh` (payload at offset + 64, no word yet,
    slot 16 for data format 0 and 10 otherwise — from the RDH's data format, whatever the payload looks like) -/
theorem tracker_new_src (c : SrcRdh.RdhCru) (off : Nat) (h : off + 64 < 2^64) (s : CdpSt) :
    trackerAbs (SrcState.CdpTracker.new c off)
      { s with payloadPos := off + 64, wordCount := 0, slot := if (SrcTie.toModel c).dataFormat == 0 then 16 else 10, startOfData := true } := by
  obtain ⟨h1, h2, h3, h4⟩ := SrcTie.tracker_new c off h
  exact ⟨h1.symm, h2.symm, h3.symm, h4.symm⟩

/-- **`CdpTracker::current_word_mem_pos` = `CdpSt.wordPos`** = payload start + (words counted − 1) × slot, for every tracker
    state that has counted between 1 and 65535 words of a payload below the 2^64 address range -/
theorem word_pos_src (tr : SrcState.CdpTracker) (s : CdpSt) (ha : trackerAbs tr s) (h1 : 1 ≤ s.wordCount) (h2 : s.wordCount < 65536)
    (hp : tr.f_gbt_word_padding_size_bytes ≤ 6) (hb : s.payloadPos + 65536 * 16 < 2^64) :
    tr.current_word_mem_pos = s.wordPos := by
  obtain ⟨a1, a2, a3, _⟩ := ha
  rw [SrcTie.tracker_word_pos tr (by omega) (by omega) hp (by omega)]
  unfold CdpSt.wordPos
  rw [a1, a2, a3]

/-- counting a word and the "start of data" flag -/
theorem tracker_step_src (tr : SrcState.CdpTracker) (s : CdpSt) (ha : trackerAbs tr s) (h : s.wordCount + 1 < 65536) :
    trackerAbs (tr.incr_word_count).2 { s with wordCount := s.wordCount + 1 } ∧
    trackerAbs (tr.set_data_seen).2 { s with startOfData := false } ∧ tr.start_of_data = s.startOfData := by
  obtain ⟨a1, a2, a3, a4⟩ := ha
  have hi := SrcTie.tracker_incr tr (by omega)
  refine ⟨?_, ?_, a4.symm⟩
  · rw [hi]; exact ⟨a1, by simp [a2], a3, a4⟩
  · exact ⟨a1, a2, a3, rfl⟩

end C07
end FastPasta
