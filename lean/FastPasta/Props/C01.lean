/-
  C01 — conforming data is accepted by every check mode (no false alarms).

  PARTIAL. Proved here, for every conforming input of any length:
  * `conforming_rdhs_accepted`: in the two target-less modes (`check sanity`, `check all`) a link
    whose headers all satisfy the documented sanity rule list and running rules (second page
    counter 1, i.e. the link starts at an HBF start) produces no message at all — by induction
    over the link's packets with the C10 invariant of the running checker. Together with C06
    (`dispatch_partition`) this gives zero findings for any interleaving of any number of links.
  * `conforming_words_never_ambiguous`: a payload word sequence the documented diagram accepts
    is never classified as one of the ambiguity errors (no [E990]/[E991]/[E992]) — from the C09
    refinement theorem; and by C11 a word satisfying its type's bit-level rule passes that type's
    sanity check (no [E30]/[E40]/[E50]/[E60]/[E70]).
  Not yet a theorem (decided by the conforming-stream oracle on the real binary in all five
  modes × mute and -E × file/pipe, and by exact model/implementation agreement): the state-dependent
  ITS rules and the ALPIDE frame rules on conforming streams (the `LinkInv` induction of
  DESIGN §5.1).
-/
import FastPasta.Props.C09
import FastPasta.Props.C10
namespace FastPasta
namespace C01

def mkPkt (x : Nat × Bytes) : Packet := { offset := x.1, rdh := decodeRdh x.2, payload := [] }

/-- invariant of the link validator after the headers `done` -/
structure LInv (cfg : CheckCfg) (id0 : Nat) (done : List Rdh) (s : LinkSt) : Prop where
  eid : s.expectId = if done = [] then none else some id0
  run : cfg.running = true → C10.Inv done s.run

theorem conforming_step (cfg : CheckCfg) (hits : cfg.itsChecks = false) (id0 : Nat) (done : List Rdh) (s : LinkSt)
    (hinv : LInv cfg id0 done s)
    (x : Nat × Bytes) (hlen : x.2.length = 64)
    (hid : done = [] → (decodeRdh x.2).headerId = id0)
    (hsane : C10.RdhSaneSpec id0 false (leNat x.2))
    (hrun : cfg.running = true → C10.RunningSpec done (decodeRdh x.2))
    (hsec : done.length = 1 → (decodeRdh x.2).pagesCounter = 1) :
    ∃ s', linkStep cfg s (mkPkt x) = .ok (s', []) ∧ LInv cfg id0 (done ++ [decodeRdh x.2]) s' := by
  have hexp : s.expectId.getD (decodeRdh x.2).headerId = id0 := by
    by_cases hd : done = []
    · simp [hinv.eid, hd, hid hd]
    · simp [hinv.eid, hd]
  have hgood : rdhSanityBad id0 none (decodeRdh x.2) = false :=
    (C10.sanity_iff x.2 hlen id0 false).mpr hsane
  unfold linkStep mkPkt
  simp only [hexp, hits, Bool.false_eq_true, ↓reduceIte, hgood, Bool.false_and, List.nil_append]
  by_cases hr : cfg.running = true
  · obtain ⟨hinv', hflag⟩ := C10.step_inv done s.run (decodeRdh x.2) (hinv.run hr) hsec
    have hnoflag : (runningStep s.run (decodeRdh x.2)).2 = false := by
      cases hc : (runningStep s.run (decodeRdh x.2)).2 with
      | false => rfl
      | true => exact absurd (hrun hr) (hflag.mp hc)
    simp only [hr, ↓reduceIte, hnoflag, Bool.false_eq_true]
    exact ⟨_, rfl, ⟨by simp, fun _ => hinv'⟩⟩
  · simp only [hr, Bool.false_eq_true, ↓reduceIte]
    exact ⟨_, rfl, ⟨by simp, fun h => absurd h hr⟩⟩

/-- the headers of one link, as (offset, 64 bytes) -/
abbrev Hdrs := List (Nat × Bytes)

/-- every header satisfies the documented sanity rule list (relative to the link's first header
    id) and, in `check all`, the documented running rules given the headers before it -/
def ConformingRdhs (cfg : CheckCfg) (id0 : Nat) (done : List Rdh) : Hdrs → Prop
  | [] => True
  | x :: xs =>
    x.2.length = 64 ∧ (done = [] → (decodeRdh x.2).headerId = id0) ∧
    C10.RdhSaneSpec id0 false (leNat x.2) ∧
    (cfg.running = true → C10.RunningSpec done (decodeRdh x.2)) ∧
    (done.length = 1 → (decodeRdh x.2).pagesCounter = 1) ∧
    ConformingRdhs cfg id0 (done ++ [decodeRdh x.2]) xs

theorem conforming_run (cfg : CheckCfg) (hits : cfg.itsChecks = false) (id0 : Nat) (hs : Hdrs) :
    ∀ (done : List Rdh) (s : LinkSt), LInv cfg id0 done s → ConformingRdhs cfg id0 done hs →
      ∃ s', linkRun cfg s (hs.map mkPkt) = .ok (s', []) := by
  induction hs with
  | nil => intro done s _ _; exact ⟨s, rfl⟩
  | cons x xs ih =>
    intro done s hinv hc
    obtain ⟨h1, h2, h3, h4, h5, h6⟩ := hc
    obtain ⟨s1, hstep, hinv1⟩ := conforming_step cfg hits id0 done s hinv x h1 h2 h3 h4 h5
    obtain ⟨s2, hrest⟩ := ih _ s1 hinv1 h6
    exact ⟨s2, by simp [linkRun, hstep, hrest]⟩

/-- **C01 (RDH level, target-less modes)**: a link whose headers conform produces no message in
    `check sanity` and `check all`, however many packets it has. -/
theorem conforming_rdhs_accepted (cfg : CheckCfg) (hits : cfg.itsChecks = false) (hver : cfg.customRdhVersion = none)
    (id0 : Nat) (hs : Hdrs) (hc : ConformingRdhs cfg id0 [] hs) :
    ∃ s', linkRun cfg (LinkSt.init cfg) (hs.map mkPkt) = .ok (s', []) :=
  conforming_run cfg hits id0 hs [] (LinkSt.init cfg)
    ⟨by simp [LinkSt.init, hver], fun _ => C10.init_inv⟩ hc

/-- **C01 (word classification)**: a word sequence accepted by the documented diagram is never
    classified as an ambiguity error, so no [E990]/[E991]/[E992] is reported for it -/
theorem conforming_words_never_ambiguous (ws : List (Nat × Bool × Bool)) (hws : ∀ w ∈ ws, w.1 < 256)
    (c' : DCfg) (ks : List Kind) (hacc : C09.diagRun diagStart ws = some (c', ks)) :
    ∀ cls ∈ (C09.fsmRun .initialIhw ws).2, C09.classKind cls ≠ none := by
  have h := (C09.fsm_refines_diagram ws hws .initialIhw diagStart C09.start_related c' ks hacc).1
  intro cls hcls hnone
  have : C09.classKind cls ∈ (C09.fsmRun .initialIhw ws).2.map C09.classKind := List.mem_map_of_mem hcls
  rw [h, hnone] at this
  simp at this

end C01
end FastPasta
