/-
  C01 — conforming data is accepted by every check mode (no false alarms).

  Proved here, for every conforming input of any length:
  * `conforming_rdhs_accepted`: in the two target-less modes (`check sanity`, `check all`) a link
    whose headers all satisfy the documented sanity rule list and running rules (second page
    counter 1, i.e. the link starts at an HBF start) produces no message at all — by induction
    over the link's packets with the C10 invariant of the running checker.
  * `conforming_its_accepted` / `conforming_stream_accepted`: in `check sanity its` and
    `check all its` a link that follows the protocol grammar of `Spec.Protocol` (pages of IHW +
    trigger segments with data words, CDW at payload start, no-data TDHs, packets continued over
    pages, stop pages with DDW0; data format 0 or 2 with 0..15 bytes of padding; RDH rule lists
    with the ITS system id) produces no message — a simulation between the grammar and the
    validator (`Proofs.ItsConforming`: one lemma per word kind, `segs_sim`, `payload_sim`), the
    cutter theorem of C12 with its side conditions *proved* from the grammar (`cut_payload`), and the
    C10 invariant for the headers. With C06 (`dispatch_partition`) and the distinctness of
    dispatcher ids this is lifted to any number of links interleaved in any order.
  * `conforming_words_never_ambiguous`: a payload word sequence the documented diagram accepts
    is never classified as one of the ambiguity errors (no [E990]/[E991]/[E992]).
  * `conforming_stave_accepted` / `conforming_stave_stream_accepted`: in `check all its-stave` a FEE
    ID's packets that follow the protocol grammar and whose readout frames follow the frame grammar
    of `Spec.ProtocolStave` (lane set of the barrel; per lane a well-formed ALPIDE event sequence
    with arbitrary hit content, no chip id twice, one common bunch counter; inner barrel: one chip
    per lane, chip id = lane) produce ALPIDE statistics messages only, never an error
    (`Proofs.StaveConforming`, `Proofs.StaveFrame`, with C13 `decode_encode`).
  * `conforming_input_clean`, `conforming_input_clean_stave`: the whole run — scanner (C03), all
    validators without panic (C04), collector, display, exit status — ends with zero errors, no
    fatal error, nothing displayed and exit status 0, also with `-E`, any filter, file or pipe.
  * `conforming_words_never_ambiguous`: a payload word sequence the documented diagram accepts
    is never classified as one of the ambiguity errors (no [E990]/[E991]/[E992]).
  What the theorems quantify over is the Lean grammar; that the streams of the conforming-stream
  oracle (real binary, five modes × mute and -E × file/pipe) are inside that grammar is checked on
  every run by the driver request `conf` (non-stave part of the grammar).
-/
import FastPasta.Props.C09
import FastPasta.Props.C10
import FastPasta.Proofs.ItsConforming
import FastPasta.Props.C06
import FastPasta.Props.C04
import FastPasta.Proofs.ScanCount
import FastPasta.Proofs.StaveConforming
namespace FastPasta
namespace C01

def mkPkt (x : Nat × Bytes) : Packet := { offset := x.1, rdh := decodeRdh x.2, payload := [] }

/-- invariant of the link validator after the headers `done` -/
structure LInv (cfg : CheckCfg) (id0 : Nat) (done : List Rdh) (s : LinkSt) : Prop where
  eid : s.expectId = if done = [] then none else some id0
  run : cfg.running = true → C10.Inv done s.run

theorem conforming_step (cfg : CheckCfg) (hits : cfg.itsChecks = false) (id0 : Nat) (done : List Rdh) (s : LinkSt)
    (hinv : LInv cfg id0 done s)
    (x : Nat × Bytes) (hlen : x.2.length = 64)
    (hid : done = [] → (decodeRdh x.2).headerId = id0)
    (hsane : C10.RdhSaneSpec id0 false (leNat x.2))
    (hrun : cfg.running = true → C10.RunningSpec done (decodeRdh x.2))
    (hsec : done.length = 1 → (decodeRdh x.2).pagesCounter = 1) :
    ∃ s', linkStep cfg s (mkPkt x) = .ok (s', []) ∧ LInv cfg id0 (done ++ [decodeRdh x.2]) s' := by
  have hexp : s.expectId.getD (decodeRdh x.2).headerId = id0 := by
    by_cases hd : done = []
    · simp [hinv.eid, hd, hid hd]
    · simp [hinv.eid, hd]
  have hgood : rdhSanityBad id0 none (decodeRdh x.2) = false :=
    (C10.sanity_iff x.2 hlen id0 false).mpr hsane
  unfold linkStep mkPkt
  simp only [hexp, hits, Bool.false_eq_true, ↓reduceIte, hgood, Bool.false_and, List.nil_append]
  by_cases hr : cfg.running = true
  · obtain ⟨hinv', hflag⟩ := C10.step_inv done s.run (decodeRdh x.2) (hinv.run hr) hsec
    have hnoflag : (runningStep s.run (decodeRdh x.2)).2 = false := by
      cases hc : (runningStep s.run (decodeRdh x.2)).2 with
      | false => rfl
      | true => exact absurd (hrun hr) (hflag.mp hc)
    simp only [hr, ↓reduceIte, hnoflag, Bool.false_eq_true]
    exact ⟨_, rfl, ⟨by simp, fun _ => hinv'⟩⟩
  · simp only [hr, Bool.false_eq_true, ↓reduceIte]
    exact ⟨_, rfl, ⟨by simp, fun h => absurd h hr⟩⟩

/-- the headers of one link, as (offset, 64 bytes) -/
abbrev Hdrs := List (Nat × Bytes)

/-- every header satisfies the documented sanity rule list (relative to the link's first header
    id) and, in `check all`, the documented running rules given the headers before it -/
def ConformingRdhs (cfg : CheckCfg) (id0 : Nat) (done : List Rdh) : Hdrs → Prop
  | [] => True
  | x :: xs =>
    x.2.length = 64 ∧ (done = [] → (decodeRdh x.2).headerId = id0) ∧
    C10.RdhSaneSpec id0 false (leNat x.2) ∧
    (cfg.running = true → C10.RunningSpec done (decodeRdh x.2)) ∧
    (done.length = 1 → (decodeRdh x.2).pagesCounter = 1) ∧
    ConformingRdhs cfg id0 (done ++ [decodeRdh x.2]) xs

theorem conforming_run (cfg : CheckCfg) (hits : cfg.itsChecks = false) (id0 : Nat) (hs : Hdrs) :
    ∀ (done : List Rdh) (s : LinkSt), LInv cfg id0 done s → ConformingRdhs cfg id0 done hs →
      ∃ s', linkRun cfg s (hs.map mkPkt) = .ok (s', []) := by
  induction hs with
  | nil => intro done s _ _; exact ⟨s, rfl⟩
  | cons x xs ih =>
    intro done s hinv hc
    obtain ⟨h1, h2, h3, h4, h5, h6⟩ := hc
    obtain ⟨s1, hstep, hinv1⟩ := conforming_step cfg hits id0 done s hinv x h1 h2 h3 h4 h5
    obtain ⟨s2, hrest⟩ := ih _ s1 hinv1 h6
    exact ⟨s2, by simp [linkRun, hstep, hrest]⟩

/-- **C01 (RDH level, target-less modes)**: a link whose headers conform produces no message in
    `check sanity` and `check all`, however many packets it has. -/
theorem conforming_rdhs_accepted (cfg : CheckCfg) (hits : cfg.itsChecks = false) (hver : cfg.customRdhVersion = none)
    (id0 : Nat) (hs : Hdrs) (hc : ConformingRdhs cfg id0 [] hs) :
    ∃ s', linkRun cfg (LinkSt.init cfg) (hs.map mkPkt) = .ok (s', []) :=
  conforming_run cfg hits id0 hs [] (LinkSt.init cfg)
    ⟨by simp [LinkSt.init, hver], fun _ => C10.init_inv⟩ hc

/-- **C01 (word classification)**: a word sequence accepted by the documented diagram is never
    classified as an ambiguity error, so no [E990]/[E991]/[E992] is reported for it -/
theorem conforming_words_never_ambiguous (ws : List (Nat × Bool × Bool)) (hws : ∀ w ∈ ws, w.1 < 256)
    (c' : DCfg) (ks : List Kind) (hacc : C09.diagRun diagStart ws = some (c', ks)) :
    ∀ cls ∈ (C09.fsmRun .initialIhw ws).2, C09.classKind cls ≠ none := by
  have h := (C09.fsm_refines_diagram ws hws .initialIhw diagStart C09.start_related c' ks hacc).1
  intro cls hcls hnone
  have : C09.classKind cls ∈ (C09.fsmRun .initialIhw ws).2.map C09.classKind := List.mem_map_of_mem hcls
  rw [h, hnone] at this
  simp at this

/-! ### ITS level: a link that follows the protocol grammar (Spec.Protocol) -/
open Proto

/-- one packet of a link as the grammar describes it: header bytes, the payload as grammar
    object, and its byte layout (16-byte slots of data format 0, or 10-byte words followed by
    `pad` bytes of 0xFF of data format 2) -/
structure PktSpec where
  offset : Nat
  hdr : Bytes
  pl : Payload
  fmt0 : Bool
  pad : Nat

def PktSpec.payloadBytes (x : PktSpec) : Bytes :=
  if x.fmt0 then C12.encFormat0 x.pl.words else C12.encFormat2 x.pl.words x.pad

def PktSpec.packet (x : PktSpec) : Packet :=
  { offset := x.offset, rdh := decodeRdh x.hdr, payload := x.payloadBytes }

/-- a link conforms: every header satisfies the documented RDH rule lists (ITS system id
    required), every payload is accepted by the protocol grammar from where the link stands, the
    layout agrees with the header's data format and the padding is at most 15 bytes -/
def ConformingLink (cfg : CheckCfg) (id0 : Nat) : List Rdh → LSt → List PktSpec → Prop
  | _, _, [] => True
  | done, st, x :: xs =>
    x.hdr.length = 64 ∧ (done = [] → (decodeRdh x.hdr).headerId = id0) ∧
    C10.RdhSaneSpec id0 true (leNat x.hdr) ∧
    (cfg.running = true → C10.RunningSpec done (decodeRdh x.hdr)) ∧
    (done.length = 1 → (decodeRdh x.hdr).pagesCounter = 1) ∧
    x.pad ≤ 15 ∧ (x.fmt0 = true ↔ (decodeRdh x.hdr).dataFormat = 0) ∧
    ∃ st', payloadOk cfg.running (decodeRdh x.hdr) st x.pl = some st' ∧
      ConformingLink cfg id0 (done ++ [decodeRdh x.hdr]) st' xs

theorem enc_nonempty (x : PktSpec) (w : Bytes) (ws : List Bytes) (hw : x.pl.words = w :: ws) (hlen : w.length = 10) :
    x.payloadBytes.isEmpty = false := by
  unfold PktSpec.payloadBytes
  obtain ⟨b0,b1,b2,b3,b4,b5,b6,b7,b8,b9, rfl⟩ := list10 w hlen
  cases x.fmt0 <;> simp [hw, C12.encFormat0, C12.encFormat2]

/-- the validator state after `set_current_rdh` in the non-stave modes -/
def startCdp (c : CdpSt) (off : Nat) (r : Rdh) : CdpSt :=
  { c with payloadPos := off + 64, wordCount := 0, slot := (if r.dataFormat == 0 then 16 else 10), startOfData := true, rdh := r }

theorem conforming_its_step (cfg : CheckCfg) (hits : cfg.itsChecks = true) (hst : cfg.stave = false)
    (htp : cfg.triggerPeriod = none) (id0 : Nat) (done : List Rdh) (s : LinkSt) (st st' : LSt)
    (hinv : LInv cfg id0 done s) (hrel : EndRel cfg.running st.bw st.cdw s.cdp)
    (x : PktSpec) (hlen : x.hdr.length = 64)
    (hid : done = [] → (decodeRdh x.hdr).headerId = id0)
    (hsane : C10.RdhSaneSpec id0 true (leNat x.hdr))
    (hrun : cfg.running = true → C10.RunningSpec done (decodeRdh x.hdr))
    (hsec : done.length = 1 → (decodeRdh x.hdr).pagesCounter = 1)
    (hpad : x.pad ≤ 15)
    (hpl : payloadOk cfg.running (decodeRdh x.hdr) st x.pl = some st') :
    ∃ s', linkStep cfg s x.packet = .ok (s', []) ∧ LInv cfg id0 (done ++ [decodeRdh x.hdr]) s' ∧
      EndRel cfg.running st'.bw st'.cdw s'.cdp := by
  have hexp : s.expectId.getD (decodeRdh x.hdr).headerId = id0 := by
    by_cases hd : done = []
    · simp [hinv.eid, hd, hid hd]
    · simp [hinv.eid, hd]
  have hgood : rdhSanityBad id0 (some 32) (decodeRdh x.hdr) = false :=
    (C10.sanity_iff x.hdr hlen id0 true).mpr hsane
  -- the payload
  have hw := payload_words cfg.running _ st st' x.pl hpl
  have hne : ∃ w ws, x.pl.words = w :: ws := by
    cases hpw : x.pl.words with
    | nil => cases hx : x.pl <;> simp [hx, Payload.words, Page.words] at hpw
    | cons w ws => exact ⟨w, ws, rfl⟩
  obtain ⟨w, ws, hwds⟩ := hne
  have hnonempty := enc_nonempty x w ws hwds (hw w (by simp [hwds])).1
  have hcut := cut_payload cfg.running _ st st' x.pl hpl x.fmt0 x.pad hpad
  have hs0 : setCurrentRdh cfg s.cdp x.offset (decodeRdh x.hdr) = .ok (startCdp s.cdp x.offset (decodeRdh x.hdr)) := by
    unfold setCurrentRdh startCdp; simp [hst]
  obtain ⟨cdp', hq, hend⟩ := payload_sim cfg hst htp (decodeRdh x.hdr) st st' x.pl (startCdp s.cdp x.offset (decodeRdh x.hdr))
    ⟨hrel.fsm, hrel.cdw⟩ rfl rfl hpl
  have hpc : payloadChecks cfg s.cdp x.offset (decodeRdh x.hdr) x.payloadBytes = .ok (cdp', []) := by
    unfold payloadChecks
    simp only [hs0]
    unfold PktSpec.payloadBytes
    simp only [hcut]
    exact hq
  unfold linkStep PktSpec.packet
  simp only [hexp, hits, ↓reduceIte, hgood, Bool.false_eq_true, List.nil_append, hnonempty, Bool.not_false, Bool.and_self, hpc]
  by_cases hr : cfg.running = true
  · obtain ⟨hinv', hflag⟩ := C10.step_inv done s.run (decodeRdh x.hdr) (hinv.run hr) hsec
    have hnoflag : (runningStep s.run (decodeRdh x.hdr)).2 = false := by
      cases hc : (runningStep s.run (decodeRdh x.hdr)).2 with
      | false => rfl
      | true => exact absurd (hrun hr) (hflag.mp hc)
    simp only [hr, ↓reduceIte, hnoflag, Bool.false_eq_true, List.nil_append]
    exact ⟨_, rfl, ⟨by simp, fun _ => hinv'⟩, by rw [hr] at hend; exact hend⟩
  · have hr' : cfg.running = false := by simpa using hr
    simp only [hr', Bool.false_eq_true, ↓reduceIte, List.nil_append]
    exact ⟨_, rfl, ⟨by simp, fun h => absurd h hr⟩, by rw [hr'] at hend; exact hend⟩

/-- `ConformingLink` with the place where the link stands afterwards made explicit
    (headers seen, grammar state) — used to state what happens to the *next* packet (C02) -/
def ConformingLinkTo (cfg : CheckCfg) (id0 : Nat) : List Rdh → LSt → List PktSpec → List Rdh → LSt → Prop
  | done, st, [], done', st' => done' = done ∧ st' = st
  | done, st, x :: xs, done', st' =>
    x.hdr.length = 64 ∧ (done = [] → (decodeRdh x.hdr).headerId = id0) ∧
    C10.RdhSaneSpec id0 true (leNat x.hdr) ∧
    (cfg.running = true → C10.RunningSpec done (decodeRdh x.hdr)) ∧
    (done.length = 1 → (decodeRdh x.hdr).pagesCounter = 1) ∧
    x.pad ≤ 15 ∧ (x.fmt0 = true ↔ (decodeRdh x.hdr).dataFormat = 0) ∧
    ∃ st1, payloadOk cfg.running (decodeRdh x.hdr) st x.pl = some st1 ∧
      ConformingLinkTo cfg id0 (done ++ [decodeRdh x.hdr]) st1 xs done' st'

theorem conformingLink_to (cfg : CheckCfg) (id0 : Nat) (xs : List PktSpec) : ∀ done st,
    ConformingLink cfg id0 done st xs → ∃ done' st', ConformingLinkTo cfg id0 done st xs done' st' := by
  induction xs with
  | nil => intro done st _; exact ⟨done, st, rfl, rfl⟩
  | cons x xs ih =>
    intro done st hc
    obtain ⟨h1, h2, h3, h4, h5, h6, h7, st1, h8, h9⟩ := hc
    obtain ⟨done', st', h⟩ := ih _ _ h9
    exact ⟨done', st', h1, h2, h3, h4, h5, h6, h7, st1, h8, h⟩

/-- after a conforming link prefix the validator has reported nothing and stands exactly where the
    grammar stands -/
theorem conforming_its_run_to (cfg : CheckCfg) (hits : cfg.itsChecks = true) (hst : cfg.stave = false)
    (htp : cfg.triggerPeriod = none) (id0 : Nat) (xs : List PktSpec) :
    ∀ (done : List Rdh) (s : LinkSt) (st : LSt) (done' : List Rdh) (st' : LSt),
      LInv cfg id0 done s → EndRel cfg.running st.bw st.cdw s.cdp →
      ConformingLinkTo cfg id0 done st xs done' st' →
      ∃ s', linkRun cfg s (xs.map PktSpec.packet) = .ok (s', []) ∧ LInv cfg id0 done' s' ∧
        EndRel cfg.running st'.bw st'.cdw s'.cdp := by
  induction xs with
  | nil =>
    intro done s st done' st' hinv hrel hc
    obtain ⟨rfl, rfl⟩ := hc
    exact ⟨s, rfl, hinv, hrel⟩
  | cons x xs ih =>
    intro done s st done' st' hinv hrel hc
    obtain ⟨h1, h2, h3, h4, h5, h6, _, st1, h8, h9⟩ := hc
    obtain ⟨s1, hstep, hinv1, hrel1⟩ := conforming_its_step cfg hits hst htp id0 done s st st1 hinv hrel x h1 h2 h3 h4 h5 h6 h8
    obtain ⟨s2, hrest, hinv2, hrel2⟩ := ih _ s1 st1 done' st' hinv1 hrel1 h9
    exact ⟨s2, by simp [linkRun, hstep, hrest], hinv2, hrel2⟩

theorem conforming_its_run (cfg : CheckCfg) (hits : cfg.itsChecks = true) (hst : cfg.stave = false)
    (htp : cfg.triggerPeriod = none) (id0 : Nat) (xs : List PktSpec)
    (done : List Rdh) (s : LinkSt) (st : LSt) (hinv : LInv cfg id0 done s) (hrel : EndRel cfg.running st.bw st.cdw s.cdp)
    (hc : ConformingLink cfg id0 done st xs) :
    ∃ s', linkRun cfg s (xs.map PktSpec.packet) = .ok (s', []) := by
  obtain ⟨done', st', hto⟩ := conformingLink_to cfg id0 xs done st hc
  obtain ⟨s', h, _, _⟩ := conforming_its_run_to cfg hits hst htp id0 xs done s st done' st' hinv hrel hto
  exact ⟨s', h⟩

/-- **C01 (ITS level, `check sanity its` and `check all its`)**: a link whose headers satisfy the
    documented RDH rules and whose payloads follow the protocol grammar — pages of IHW and trigger
    segments with data words, CDWs, no-data TDHs, packets continued over pages, stop pages with
    DDW0, in data format 0 or 2 with 0..15 bytes of padding — produces no message at all,
    however many packets it has. With C06 (`dispatch_partition`) this holds for any number of
    links interleaved in any order. -/
theorem conforming_its_accepted (cfg : CheckCfg) (hits : cfg.itsChecks = true) (hst : cfg.stave = false)
    (htp : cfg.triggerPeriod = none) (hver : cfg.customRdhVersion = none)
    (id0 : Nat) (xs : List PktSpec) (hc : ConformingLink cfg id0 [] {} xs) :
    ∃ s', linkRun cfg (LinkSt.init cfg) (xs.map PktSpec.packet) = .ok (s', []) :=
  conforming_its_run cfg hits hst htp id0 xs [] (LinkSt.init cfg) {}
    ⟨by simp [LinkSt.init, hver], fun _ => C10.init_inv⟩
    ⟨Or.inl rfl, fun _ => rfl⟩ hc

/-! ### any number of links, interleaved in any order -/

theorem upd_ids (cfg : CheckCfg) (p : Packet) (id : Nat) : ∀ (d d' : DispSt),
    dispStep.upd cfg p id d = .ok d' →
    d'.map (·.1) = d.map (·.1) ∨ (d'.map (·.1) = d.map (·.1) ++ [id] ∧ id ∉ d.map (·.1)) := by
  intro d
  induction d with
  | nil =>
    intro d' h
    simp only [dispStep.upd] at h
    split at h
    · cases h
    · simp only [Except.ok.injEq] at h; subst h; right; simp
  | cons x xs ih =>
    intro d' h
    obtain ⟨i, s, ms⟩ := x
    simp only [dispStep.upd] at h
    split at h
    · split at h
      · cases h
      · simp only [Except.ok.injEq] at h; subst h; left; rfl
    · rename_i hne
      split at h
      · cases h
      · rename_i rest' hr
        simp only [Except.ok.injEq] at h; subst h
        rcases ih rest' hr with h1 | ⟨h1, h2⟩
        · left; simp [h1]
        · right
          refine ⟨by simp [h1], ?_⟩
          simp only [List.map_cons, List.mem_cons, not_or]
          exact ⟨fun e => hne (by simp [e]), h2⟩

theorem run_ids_nodup (cfg : CheckCfg) (ps : List Packet) : ∀ (d d' : DispSt),
    (d.map (·.1)).Nodup → runValidators cfg d ps = .ok d' → (d'.map (·.1)).Nodup := by
  induction ps with
  | nil => intro d d' hn h; simp only [runValidators, Except.ok.injEq] at h; subst h; exact hn
  | cons p ps ih =>
    intro d d' hn h
    simp only [runValidators] at h
    cases h1 : dispStep cfg d p with
    | error e => simp [h1] at h
    | ok d1 =>
      simp only [h1] at h
      apply ih d1 d' _ h
      unfold dispStep at h1
      rcases upd_ids cfg p _ d d1 h1 with e | ⟨e, hnot⟩
      · rw [e]; exact hn
      · rw [e, List.nodup_append]
        exact ⟨hn, by simp, by intro a ha b hb; simp only [List.mem_singleton] at hb; subst hb; intro e2; subst e2; exact hnot ha⟩

theorem find_of_nodup (d : DispSt) (hn : (d.map (·.1)).Nodup) (x : Nat × LinkSt × List Msg) (hx : x ∈ d) :
    d.find? (·.1 == x.1) = some x := by
  induction d with
  | nil => simp at hx
  | cons y ys ih =>
    simp only [List.map_cons, List.nodup_cons] at hn
    simp only [List.mem_cons] at hx
    rcases hx with rfl | hx
    · simp
    · have hne : ¬ y.1 = x.1 := by
        intro e
        exact hn.1 (by rw [e]; exact List.mem_map_of_mem hx)
      have hb : (y.1 == x.1) = false := by simpa using hne
      simp only [List.find?_cons, hb]
      exact ih hn.2 hx

/-- **C01 (ITS level, whole input)**: if the packets of every link, taken in their own order out of
    an arbitrarily interleaved packet list, form a conforming link, then `check sanity its` /
    `check all its` produce no message for the whole input — any number of links, any
    interleaving, any number of packets. -/
theorem conforming_stream_accepted (cfg : CheckCfg) (hits : cfg.itsChecks = true) (hst : cfg.stave = false)
    (htp : cfg.triggerPeriod = none) (hver : cfg.customRdhVersion = none) (ps : List Packet)
    (hconf : ∀ i, ∃ (id0 : Nat) (xs : List PktSpec), C06.ofId cfg i ps = xs.map PktSpec.packet ∧ ConformingLink cfg id0 [] {} xs)
    (d : DispSt) (h : runValidators cfg [] ps = .ok d) : d.allMsgs = [] := by
  have hn := run_ids_nodup cfg ps [] d (by simp) h
  unfold DispSt.allMsgs
  rw [List.flatMap_eq_nil_iff]
  intro x hx
  have hpart := C06.dispatch_partition cfg ps d h x.1
  obtain ⟨id0, xs, hof, hc⟩ := hconf x.1
  obtain ⟨s', hrun⟩ := conforming_its_accepted cfg hits hst htp hver id0 xs hc
  unfold C06.alone at hpart
  rw [hof, hrun] at hpart
  simp only [Except.ok.injEq] at hpart
  unfold DispSt.msgsOf at hpart
  rw [find_of_nodup d hn x hx] at hpart
  exact hpart.symm

/-! ### stave level (`check all its-stave`): grammar + frame grammar ⇒ only statistics, no error -/

/-- a link (one FEE ID) conforms at stave level: as `ConformingLink`, and every readout frame
    satisfies the frame grammar of `Spec.ProtocolStave` for the barrel of the link's FEE ID -/
def ConformingStaveLink (cfg : CheckCfg) (id0 : Nat) (barrel : Barrel) : List Rdh → LSt → FSt → List PktSpec → Prop
  | _, _, _, [] => True
  | done, st, fst, x :: xs =>
    x.hdr.length = 64 ∧ (done = [] → (decodeRdh x.hdr).headerId = id0) ∧
    C10.RdhSaneSpec id0 true (leNat x.hdr) ∧
    (cfg.running = true → C10.RunningSpec done (decodeRdh x.hdr)) ∧
    (done.length = 1 → (decodeRdh x.hdr).pagesCounter = 1) ∧
    x.pad ≤ 15 ∧ (x.fmt0 = true ↔ (decodeRdh x.hdr).dataFormat = 0) ∧
    barrelOfFee (decodeRdh x.hdr).feeId = some barrel ∧
    ∃ st' fst', payloadOk cfg.running (decodeRdh x.hdr) st x.pl = some st' ∧
      payloadFrames barrel cfg.running st fst x.pl fst' ∧
      ConformingStaveLink cfg id0 barrel (done ++ [decodeRdh x.hdr]) st' fst' xs

/-- frame bookkeeping of a link validator between packets: the barrel is not yet known before the
    first packet -/
structure FrameRelL (barrel : Barrel) (fst : FSt) (s : CdpSt) : Prop where
  barrel : s.barrel = none ∨ s.barrel = some barrel
  fatal : s.fatalLanes = none
  frame : match fst with
    | none => s.frame = none ∧ s.inFrame = false
    | some dws => s.inFrame = true ∧ ∃ st, s.frame = some { start := st, lanes := frameLanes dws }

/-- the validator state after `set_current_rdh` in stave mode -/
def startCdpStave (c : CdpSt) (off : Nat) (r : Rdh) (barrel : Barrel) : CdpSt :=
  { c with payloadPos := off + 64, wordCount := 0, slot := (if r.dataFormat == 0 then 16 else 10), startOfData := true, rdh := r, barrel := some barrel }

theorem conforming_stave_step (cfg : CheckCfg) (hits : cfg.itsChecks = true) (hc : SCfg cfg)
    (id0 : Nat) (barrel : Barrel) (done : List Rdh) (s : LinkSt) (st st' : LSt) (fst fst' : FSt)
    (hinv : LInv cfg id0 done s) (hrel : EndRel cfg.running st.bw st.cdw s.cdp) (hfrel : FrameRelL barrel fst s.cdp)
    (x : PktSpec) (hlen : x.hdr.length = 64)
    (hid : done = [] → (decodeRdh x.hdr).headerId = id0)
    (hsane : C10.RdhSaneSpec id0 true (leNat x.hdr))
    (hrun : cfg.running = true → C10.RunningSpec done (decodeRdh x.hdr))
    (hsec : done.length = 1 → (decodeRdh x.hdr).pagesCounter = 1)
    (hpad : x.pad ≤ 15) (hbar : barrelOfFee (decodeRdh x.hdr).feeId = some barrel)
    (hpl : payloadOk cfg.running (decodeRdh x.hdr) st x.pl = some st')
    (hfr : payloadFrames barrel cfg.running st fst x.pl fst') :
    ∃ s' ms, linkStep cfg s x.packet = .ok (s', ms) ∧ OnlyStats ms ∧ LInv cfg id0 (done ++ [decodeRdh x.hdr]) s' ∧
      EndRel cfg.running st'.bw st'.cdw s'.cdp ∧ FrameRelL barrel fst' s'.cdp := by
  have hexp : s.expectId.getD (decodeRdh x.hdr).headerId = id0 := by
    by_cases hd : done = []
    · simp [hinv.eid, hd, hid hd]
    · simp [hinv.eid, hd]
  have hgood : rdhSanityBad id0 (some 32) (decodeRdh x.hdr) = false :=
    (C10.sanity_iff x.hdr hlen id0 true).mpr hsane
  have hw := payload_words cfg.running _ st st' x.pl hpl
  have hne : ∃ w ws, x.pl.words = w :: ws := by
    cases hpw : x.pl.words with
    | nil => cases hx : x.pl <;> simp [hx, Payload.words, Page.words] at hpw
    | cons w ws => exact ⟨w, ws, rfl⟩
  obtain ⟨w, ws, hwds⟩ := hne
  have hnonempty := enc_nonempty x w ws hwds (hw w (by simp [hwds])).1
  have hcut := cut_payload cfg.running _ st st' x.pl hpl x.fmt0 x.pad hpad
  have hs0 : setCurrentRdh cfg s.cdp x.offset (decodeRdh x.hdr) = .ok (startCdpStave s.cdp x.offset (decodeRdh x.hdr) barrel) := by
    unfold setCurrentRdh startCdpStave
    rcases hfrel.barrel with hb | hb
    · simp [hc.stave, hb, hbar]
    · simp [hc.stave, hb]
  obtain ⟨cdp', hq, hend, hfre⟩ := spayload_sim cfg hc barrel (decodeRdh x.hdr) st st' fst fst' x.pl
    (startCdpStave s.cdp x.offset (decodeRdh x.hdr) barrel)
    ⟨hrel.fsm, hrel.cdw⟩ ⟨rfl, hfrel.fatal, hfrel.frame⟩ rfl rfl hpl hfr
  obtain ⟨m3, hq, hos⟩ := hq
  have hpc : payloadChecks cfg s.cdp x.offset (decodeRdh x.hdr) x.payloadBytes = .ok (cdp', m3) := by
    unfold payloadChecks
    simp only [hs0]
    unfold PktSpec.payloadBytes
    simp only [hcut]
    exact hq
  have hfre' : FrameRelL barrel fst' cdp' := ⟨Or.inr hfre.barrel, hfre.fatal, hfre.frame⟩
  unfold linkStep PktSpec.packet
  simp only [hexp, hits, ↓reduceIte, hgood, Bool.false_eq_true, List.nil_append, hnonempty, Bool.not_false, Bool.and_self, hpc]
  have hr := hc.running
  obtain ⟨hinv', hflag⟩ := C10.step_inv done s.run (decodeRdh x.hdr) (hinv.run hr) hsec
  have hnoflag : (runningStep s.run (decodeRdh x.hdr)).2 = false := by
    cases hcc : (runningStep s.run (decodeRdh x.hdr)).2 with
    | false => rfl
    | true => exact absurd (hrun hr) (hflag.mp hcc)
  simp only [hr, ↓reduceIte, hnoflag, Bool.false_eq_true, List.nil_append]
  exact ⟨_, _, rfl, hos, ⟨by simp, fun _ => hinv'⟩, by rw [hr] at hend; exact hend, hfre'⟩

theorem conforming_stave_run (cfg : CheckCfg) (hits : cfg.itsChecks = true) (hc : SCfg cfg)
    (id0 : Nat) (barrel : Barrel) (xs : List PktSpec) :
    ∀ (done : List Rdh) (s : LinkSt) (st : LSt) (fst : FSt), LInv cfg id0 done s →
      EndRel cfg.running st.bw st.cdw s.cdp → FrameRelL barrel fst s.cdp →
      ConformingStaveLink cfg id0 barrel done st fst xs →
      ∃ s' ms, linkRun cfg s (xs.map PktSpec.packet) = .ok (s', ms) ∧ OnlyStats ms := by
  induction xs with
  | nil => intro done s st fst _ _ _ _; exact ⟨s, [], rfl, OnlyStats.nil⟩
  | cons x xs ih =>
    intro done s st fst hinv hrel hfrel hcn
    obtain ⟨h1, h2, h3, h4, h5, h6, _, h7, st', fst', h8, h9, h10⟩ := hcn
    obtain ⟨s1, m1, hstep, hos1, hinv1, hrel1, hfrel1⟩ :=
      conforming_stave_step cfg hits hc id0 barrel done s st st' fst fst' hinv hrel hfrel x h1 h2 h3 h4 h5 h6 h7 h8 h9
    obtain ⟨s2, m2, hrest, hos2⟩ := ih _ s1 st' fst' hinv1 hrel1 hfrel1 h10
    exact ⟨s2, m1 ++ m2, by simp [linkRun, hstep, hrest], hos1.append hos2⟩

/-- **C01 (stave level, `check all its-stave`)**: a FEE ID's packets that follow the protocol
    grammar and whose readout frames follow the frame grammar (lane set of the barrel, well-formed
    ALPIDE lane data with arbitrary hit content, one chip per inner-barrel lane with chip id =
    lane, a common bunch counter) produce ALPIDE statistics messages only — never an error. -/
theorem conforming_stave_accepted (cfg : CheckCfg) (hits : cfg.itsChecks = true) (hc : SCfg cfg)
    (hver : cfg.customRdhVersion = none) (id0 : Nat) (barrel : Barrel) (xs : List PktSpec)
    (hcn : ConformingStaveLink cfg id0 barrel [] {} none xs) :
    ∃ s' ms, linkRun cfg (LinkSt.init cfg) (xs.map PktSpec.packet) = .ok (s', ms) ∧ OnlyStats ms :=
  conforming_stave_run cfg hits hc id0 barrel xs [] (LinkSt.init cfg) {} none
    ⟨by simp [LinkSt.init, hver], fun _ => C10.init_inv⟩
    ⟨Or.inl rfl, fun _ => rfl⟩ ⟨Or.inl rfl, rfl, rfl, rfl⟩ hcn

/-- … for any number of FEE IDs interleaved in any order -/
theorem conforming_stave_stream_accepted (cfg : CheckCfg) (hits : cfg.itsChecks = true) (hc : SCfg cfg)
    (hver : cfg.customRdhVersion = none) (ps : List Packet)
    (hconf : ∀ i, ∃ (id0 : Nat) (barrel : Barrel) (xs : List PktSpec),
      C06.ofId cfg i ps = xs.map PktSpec.packet ∧ ConformingStaveLink cfg id0 barrel [] {} none xs)
    (d : DispSt) (h : runValidators cfg [] ps = .ok d) : OnlyStats d.allMsgs := by
  have hn := run_ids_nodup cfg ps [] d (by simp) h
  intro m hm
  unfold DispSt.allMsgs at hm
  simp only [List.mem_flatMap] at hm
  obtain ⟨x, hx, hmx⟩ := hm
  have hpart := C06.dispatch_partition cfg ps d h x.1
  obtain ⟨id0, barrel, xs, hof, hcn⟩ := hconf x.1
  obtain ⟨s', ms, hrun, hos⟩ := conforming_stave_accepted cfg hits hc hver id0 barrel xs hcn
  unfold C06.alone at hpart
  rw [hof, hrun] at hpart
  simp only [Except.ok.injEq] at hpart
  unfold DispSt.msgsOf at hpart
  rw [find_of_nodup d hn x hx] at hpart
  simp only at hpart
  rw [← hpart] at hmx
  exact hos m hmx

/-! ### the whole run: no error, nothing displayed, exit status 0 -/

/-- statistics that are neither an error nor fatal -/
def _root_.FastPasta.Stat.quiet : Stat → Bool
  | .error _ | .fatal _ => false
  | _ => true

theorem step_quiet (cap : Nat) (c : Coll) (m : Stat) (h : m.quiet = true) :
    (c.step cap m).total = c.total ∧ (c.step cap m).fatal = c.fatal ∧ (c.step cap m).errors = c.errors := by
  cases m <;> simp [Stat.quiet] at h <;> simp [Coll.step] <;> (repeat' split) <;> simp

theorem run_quiet (cap : Nat) (ms : List Stat) (h : ∀ m ∈ ms, m.quiet = true) : ∀ c : Coll,
    (Coll.run cap c ms).total = c.total ∧ (Coll.run cap c ms).fatal = c.fatal ∧ (Coll.run cap c ms).errors = c.errors := by
  induction ms with
  | nil => intro c; exact ⟨rfl, rfl, rfl⟩
  | cons m ms ih =>
    intro c
    obtain ⟨a1, a2, a3⟩ := step_quiet cap c m (h m (by simp))
    obtain ⟨b1, b2, b3⟩ := ih (fun x hx => h x (by simp [hx])) (c.step cap m)
    simp only [Coll.run, List.foldl_cons] at b1 b2 b3 ⊢
    exact ⟨b1.trans a1, b2.trans a2, b3.trans a3⟩

theorem analysis_quiet (pk : List Packet)
    (hsys : ∀ q qs, pk = q :: qs → validSystemIds.contains q.rdh.systemId = true) :
    ∀ m ∈ analysisMsgs pk, m.quiet = true := by
  intro m hm
  unfold analysisMsgs at hm
  split at hm
  · simp at hm
  · rename_i p0 rest
    have hv := hsys p0 rest rfl
    simp only [List.mem_flatMap] at hm
    obtain ⟨b, _, hm⟩ := hm
    unfold analysisBatch at hm
    simp only [hv, ↓reduceIte, List.mem_append, List.mem_flatMap, List.mem_singleton] at hm
    rcases hm with ⟨p, _, hm⟩ | rfl
    · rcases hm with rfl | hm
      · rfl
      · split at hm
        · simp only [List.mem_singleton] at hm; subst hm; rfl
        · simp at hm
    · rfl

theorem scan_stats_quiet (ms : List InMsg) (h : C03.AllBenign (fun v => validSystemIds.contains v) ms) :
    ∀ m ∈ ms.flatMap inMsgToStat, m.quiet = true := by
  intro m hm
  simp only [List.mem_flatMap] at hm
  obtain ⟨x, hx, hm⟩ := hm
  have hb := h x hx
  cases x <;> simp only [InMsg.benign] at hb <;> simp only [inMsgToStat, List.mem_singleton] at hm
  all_goals first
    | (subst hm; rfl)
    | (simp only [hb, ↓reduceIte, List.mem_singleton] at hm; subst hm; rfl)
    | (simp at hb)

/-- the run-level glue: if the validators of a check run return normally and emit no error, then a
    well-framed input with known system ids that passes the start-up gate ends with zero errors,
    no fatal error, nothing displayed and exit status 0 -/
theorem run_clean_of_quiet_validators (o : Opts) (hcmd : o.isCheck = true)
    (hcd : o.customCdps = none) (hph : o.customPht = none)
    (ps : List C03.RawPkt) (hwf : ∀ p ∈ ps, C03.WF p)
    (hlen : ¬ (C03.bytesOf ps).length < 8) (hgate : initGateBad (C03.bytesOf ps) = false)
    (hsys : ∀ p ∈ ps, validSystemIds.contains p.rdh.systemId = true)
    (d : DispSt) (hd : runValidators o.checkCfg [] (C03.expected o.scanCfg 0 ps) = .ok d)
    (hvq : ∀ m ∈ d.allMsgs.map msgToStat, m.quiet = true) :
    ∃ out, run o (C03.bytesOf ps) = .ok out ∧ out.initErr = false ∧ out.fin.total = 0 ∧
      out.fin.coll.fatal = none ∧ out.fin.errors = [] ∧ out.shown = [] ∧ out.exit = 0 := by
  have hpk : (scanAll o.scanCfg (C03.bytesOf ps)).packets = C03.expected o.scanCfg 0 ps := C03.scan_exact o.scanCfg ps hwf
  have hben := C03.scanLoop_benign (fun v => validSystemIds.contains v) o.scanCfg [] (by simp) ps.length ps (Nat.le_refl _) hwf hsys
    { rest := C03.bytesOf ps } [] [] (by simp) C03.AllBenign.nil
  have hdel : ∀ q qs, C03.expected o.scanCfg 0 ps = q :: qs → validSystemIds.contains q.rdh.systemId = true := by
    intro q qs he
    have hq : q ∈ C03.expected o.scanCfg 0 ps := by rw [he]; simp
    simp only [C03.expected, List.mem_map, List.mem_filter] at hq
    obtain ⟨x, ⟨hx, _⟩, rfl⟩ := hq
    have : x.2 ∈ ps := by
      have key : ∀ (l : List C03.RawPkt) o', x ∈ C03.chain o' l → x.2 ∈ l := by
        intro l
        induction l with
        | nil => intro o' h; simp [C03.chain] at h
        | cons a as ih =>
          intro o' h
          simp only [C03.chain, List.mem_cons] at h
          rcases h with rfl | h
          · simp
          · exact List.mem_cons_of_mem _ (ih _ h)
      exact key ps 0 hx
    exact hsys _ this
  have hinit : (decide ((C03.bytesOf ps).length < 8) || initGateBad (C03.bytesOf ps)) = false := by simp [hlen, hgate]
  have hview : o.isView = false := by
    simp only [Opts.isCheck, Bool.or_eq_true, beq_iff_eq] at hcmd
    rcases hcmd with h | h <;> simp [Opts.isView, h]
  have hrun : ∃ out, run o (C03.bytesOf ps) = .ok out ∧ out.initErr = false ∧
      out.fin = finalize o.mute o.customCdps o.customPht
        (Coll.run o.cap (if (o.isCheck && o.target == Target.itsStave) = true then { alpide := some {} } else {})
          ([Stat.rdhVersion (bAt (C03.bytesOf ps) 0)] ++ analysisMsgs (C03.expected o.scanCfg 0 ps) ++
            d.allMsgs.map msgToStat ++ (scanAll o.scanCfg (C03.bytesOf ps)).msgs.flatMap inMsgToStat)) ∧
      out.shown = displayed o.mute o.codeFilter o.cap out.fin ∧
      out.exit = exitCode false o.anyErrCode out.fin false := by
    unfold run
    simp only [hinit, Bool.false_eq_true, ↓reduceIte, hcmd, hpk, hd, Bool.true_or, hview]
    exact ⟨_, rfl, rfl, rfl, rfl, rfl⟩
  obtain ⟨out, hout, hie, hfin, hshown, hexit⟩ := hrun
  refine ⟨out, hout, hie, ?_⟩
  have hq : ∀ m ∈ [Stat.rdhVersion (bAt (C03.bytesOf ps) 0)] ++ analysisMsgs (C03.expected o.scanCfg 0 ps) ++
      d.allMsgs.map msgToStat ++ (scanAll o.scanCfg (C03.bytesOf ps)).msgs.flatMap inMsgToStat, m.quiet = true := by
    intro m hm
    simp only [List.mem_append, List.mem_singleton] at hm
    rcases hm with ((rfl | hm) | hm) | hm
    · rfl
    · exact analysis_quiet _ hdel m hm
    · exact hvq m hm
    · simp only [scanAll, List.flatMap_append, List.mem_append] at hm
      rcases hm with hm | hm
      · exact scan_stats_quiet _ hben m hm
      · simp only [List.flatMap_cons, List.flatMap_nil, inMsgToStat, List.append_nil, List.cons_append, List.nil_append,
          List.mem_cons, List.not_mem_nil, or_false] at hm
        rcases hm with rfl | rfl | rfl <;> rfl
  obtain ⟨t1, t2, t3⟩ := run_quiet o.cap _ hq
    (if (o.isCheck && o.target == Target.itsStave) = true then { alpide := some {} } else {})
  have htot0 : (if (o.isCheck && o.target == Target.itsStave) = true then ({ alpide := some {} } : Coll) else {}).total = 0 := by split <;> rfl
  have hfat0 : (if (o.isCheck && o.target == Target.itsStave) = true then ({ alpide := some {} } : Coll) else {}).fatal = none := by split <;> rfl
  have herr0 : (if (o.isCheck && o.target == Target.itsStave) = true then ({ alpide := some {} } : Coll) else {}).errors = [] := by split <;> rfl
  rw [htot0] at t1; rw [hfat0] at t2; rw [herr0] at t3
  have hcustom : ∀ c, customStatErrors o.customCdps o.customPht c = [] := by
    intro c; simp [customStatErrors, hcd, hph]
  have h1 : out.fin.total = 0 := by rw [hfin]; simp only [finalize, hcustom, List.length_nil, Nat.add_zero]; exact t1
  have h2 : out.fin.coll.fatal = none := by rw [hfin]; simp only [finalize]; exact t2
  have h3 : out.fin.errors = [] := by rw [hfin]; simp only [finalize, t3]; rfl
  refine ⟨h1, h2, h3, ?_, ?_⟩
  · rw [hshown]; simp [displayed, h1]
  · rw [hexit]; simp only [exitCode, Bool.false_eq_true, ↓reduceIte, h1, h2]
    cases o.anyErrCode <;> simp

/-- **C01 (whole run, `check sanity its` / `check all its`)**: a well-framed input that passes the
    start-up gate, whose packets carry known system ids and whose links (the packets delivered
    for each link id, in their own order) each follow the protocol grammar, is processed without
    panic, with zero errors, no fatal error, nothing to display, and exit status 0 — also when an
    any-errors exit code is configured, with or without a filter, muted or not, from file or pipe. -/
theorem conforming_input_clean (o : Opts) (hcmd : o.isCheck = true) (htgt : o.target = .its)
    (htp : o.triggerPeriod = none) (hver : o.customRdhVersion = none)
    (hcd : o.customCdps = none) (hph : o.customPht = none)
    (ps : List C03.RawPkt) (hwf : ∀ p ∈ ps, C03.WF p)
    (hlen : ¬ (C03.bytesOf ps).length < 8) (hgate : initGateBad (C03.bytesOf ps) = false)
    (hsys : ∀ p ∈ ps, validSystemIds.contains p.rdh.systemId = true)
    (hconf : ∀ i, ∃ (id0 : Nat) (xs : List PktSpec),
      C06.ofId o.checkCfg i (C03.expected o.scanCfg 0 ps) = xs.map PktSpec.packet ∧ ConformingLink o.checkCfg id0 [] {} xs) :
    ∃ out, run o (C03.bytesOf ps) = .ok out ∧ out.initErr = false ∧ out.fin.total = 0 ∧
      out.fin.coll.fatal = none ∧ out.fin.errors = [] ∧ out.shown = [] ∧ out.exit = 0 := by
  have hits : o.checkCfg.itsChecks = true := by simp [Opts.checkCfg, CheckCfg.itsChecks, htgt]
  have hst : o.checkCfg.stave = false := by simp [Opts.checkCfg, CheckCfg.stave, htgt]
  obtain ⟨d, hd⟩ := C04.no_panic_all_validators_nonstave o.checkCfg hst (C03.expected o.scanCfg 0 ps)
  have hmsgs : d.allMsgs = [] :=
    conforming_stream_accepted o.checkCfg hits hst (by simp [Opts.checkCfg, htp]) (by simp [Opts.checkCfg, hver]) _ hconf d hd
  exact run_clean_of_quiet_validators o hcmd hcd hph ps hwf hlen hgate hsys d hd (by simp [hmsgs])

/-- **C01 (whole run, `check sanity` / `check all` without a target)**: the same for the two
    target-less modes, where only the RDH rule lists apply -/
theorem conforming_input_clean_plain (o : Opts) (hcmd : o.isCheck = true) (htgt : o.target = .none)
    (hver : o.customRdhVersion = none) (hcd : o.customCdps = none) (hph : o.customPht = none)
    (ps : List C03.RawPkt) (hwf : ∀ p ∈ ps, C03.WF p)
    (hlen : ¬ (C03.bytesOf ps).length < 8) (hgate : initGateBad (C03.bytesOf ps) = false)
    (hsys : ∀ p ∈ ps, validSystemIds.contains p.rdh.systemId = true)
    (hconf : ∀ i, ∃ (id0 : Nat) (hs : Hdrs),
      C06.ofId o.checkCfg i (C03.expected o.scanCfg 0 ps) = hs.map mkPkt ∧ ConformingRdhs o.checkCfg id0 [] hs) :
    ∃ out, run o (C03.bytesOf ps) = .ok out ∧ out.initErr = false ∧ out.fin.total = 0 ∧
      out.fin.coll.fatal = none ∧ out.fin.errors = [] ∧ out.shown = [] ∧ out.exit = 0 := by
  have hits : o.checkCfg.itsChecks = false := by simp [Opts.checkCfg, CheckCfg.itsChecks, htgt]
  have hst : o.checkCfg.stave = false := by simp [Opts.checkCfg, CheckCfg.stave, htgt]
  obtain ⟨d, hd⟩ := C04.no_panic_all_validators_nonstave o.checkCfg hst (C03.expected o.scanCfg 0 ps)
  have hn := run_ids_nodup o.checkCfg _ [] d (by simp) hd
  have hmsgs : d.allMsgs = [] := by
    unfold DispSt.allMsgs
    rw [List.flatMap_eq_nil_iff]
    intro x hx
    have hpart := C06.dispatch_partition o.checkCfg _ d hd x.1
    obtain ⟨id0, hs, hof, hc⟩ := hconf x.1
    obtain ⟨s', hrun⟩ := conforming_rdhs_accepted o.checkCfg hits (by simp [Opts.checkCfg, hver]) id0 hs hc
    unfold C06.alone at hpart
    rw [hof, hrun] at hpart
    simp only [Except.ok.injEq] at hpart
    unfold DispSt.msgsOf at hpart
    rw [find_of_nodup d hn x hx] at hpart
    exact hpart.symm
  exact run_clean_of_quiet_validators o hcmd hcd hph ps hwf hlen hgate hsys d hd (by simp [hmsgs])

/-- **C01 (whole run, `check all its-stave`)**: the same for the stave-level checks, for inputs
    whose FEE IDs all have a valid layer and whose per-FEE-ID packet sequences follow the protocol
    grammar and the frame grammar (no custom ALPIDE checks configured) -/
theorem conforming_input_clean_stave (o : Opts) (hcmd : o.cmd = .checkAll) (htgt : o.target = .itsStave)
    (htp : o.triggerPeriod = none) (hver : o.customRdhVersion = none)
    (hcd : o.customCdps = none) (hph : o.customPht = none) (halp : o.alpide = {})
    (ps : List C03.RawPkt) (hwf : ∀ p ∈ ps, C03.WF p)
    (hlen : ¬ (C03.bytesOf ps).length < 8) (hgate : initGateBad (C03.bytesOf ps) = false)
    (hsys : ∀ p ∈ ps, validSystemIds.contains p.rdh.systemId = true)
    (hlayer : ∀ p ∈ C03.expected o.scanCfg 0 ps, (barrelOfFee p.rdh.feeId).isSome = true)
    (hconf : ∀ i, ∃ (id0 : Nat) (barrel : Barrel) (xs : List PktSpec),
      C06.ofId o.checkCfg i (C03.expected o.scanCfg 0 ps) = xs.map PktSpec.packet ∧
      ConformingStaveLink o.checkCfg id0 barrel [] {} none xs) :
    ∃ out, run o (C03.bytesOf ps) = .ok out ∧ out.initErr = false ∧ out.fin.total = 0 ∧
      out.fin.coll.fatal = none ∧ out.fin.errors = [] ∧ out.shown = [] ∧ out.exit = 0 := by
  have hcheck : o.isCheck = true := by simp [Opts.isCheck, hcmd]
  have hits : o.checkCfg.itsChecks = true := by simp [Opts.checkCfg, CheckCfg.itsChecks, htgt]
  have hc : SCfg o.checkCfg :=
    ⟨by simp [Opts.checkCfg, CheckCfg.stave, htgt], by simp [Opts.checkCfg, hcmd], by simp [Opts.checkCfg, htp], by simp [Opts.checkCfg, halp]⟩
  obtain ⟨d, hd⟩ := C04.runValidators_safe o.checkCfg (C03.expected o.scanCfg 0 ps) (fun _ => hlayer) [] (fun x hx => by simp at hx)
  have hos := conforming_stave_stream_accepted o.checkCfg hits hc (by simp [Opts.checkCfg, hver]) _ hconf d hd
  refine run_clean_of_quiet_validators o hcheck hcd hph ps hwf hlen hgate hsys d hd ?_
  intro m hm
  simp only [List.mem_map] at hm
  obtain ⟨x, hx, rfl⟩ := hm
  have := hos x hx
  cases x with
  | error f => simp [Msg.isStats] at this
  | alpideStats st => rfl

/-! ### non-vacuity: concrete payloads the grammar accepts (kernel-evaluated) -/
namespace Ex
/-- an inner-barrel frame: lanes 0, 1, 2, each one chip (id = lane) with bunch counter 0x2A and an
    empty trailer, zero-filled to the 9 data bytes of its data word -/
def laneWord (lane : UInt8) : Bytes := [0xA0 + lane, 0x2A, 0xB0, 0, 0, 0, 0, 0, 0, 0x20 + lane]
example : FrameOk .inner [laneWord 0, laneWord 1, laneWord 2] := by
  have hfs : frameLanes [laneWord 0, laneWord 1, laneWord 2] =
      [(0x20, [0xA0, 0x2A, 0xB0, 0, 0, 0, 0, 0, 0]), (0x21, [0xA1, 0x2A, 0xB0, 0, 0, 0, 0, 0, 0]), (0x22, [0xA2, 0x2A, 0xB0, 0, 0, 0, 0, 0, 0])] := by decide
  refine ⟨by rw [hfs]; simp [lanesOfBarrel, sortNat, List.mergeSort, ibLane], 0x2A, ?_⟩
  intro f hf
  rw [hfs] at hf
  simp only [List.mem_cons, List.not_mem_nil, or_false] at hf
  rcases hf with rfl | rfl | rfl
  · exact ⟨[.chip 0 0x2A 0 [], .idle 6], by decide, by intro e he; simp at he; rcases he with rfl | rfl <;> simp [Event.Valid], by decide, by decide, by decide, fun _ => by decide⟩
  · exact ⟨[.chip 1 0x2A 0 [], .idle 6], by decide, by intro e he; simp at he; rcases he with rfl | rfl <;> simp [Event.Valid], by decide, by decide, by decide, fun _ => by decide⟩
  · exact ⟨[.chip 2 0x2A 0 [], .idle 6], by decide, by intro e he; simp at he; rcases he with rfl | rfl <;> simp [Event.Valid], by decide, by decide, by decide, fun _ => by decide⟩

def r0 : Rdh := { (default : Rdh) with orbit := 7, bcReserved := 5, triggerType := 0x10, pagesCounter := 0, stopBit := 0 }
def r1 : Rdh := { r0 with pagesCounter := 1 }
def rStop : Rdh := { r0 with pagesCounter := 2, stopBit := 1 }
def ihw : Bytes := [0xFF, 0x3F, 0, 0, 0, 0, 0, 0, 0, 0xE0]
def tdh : Bytes := [0x10, 0x00, 0x05, 0x00, 7, 0, 0, 0, 0, 0xE8]          -- PhT, BC 5, orbit 7
def tdhNoData : Bytes := [0x10, 0x20, 0x09, 0x00, 7, 0, 0, 0, 0, 0xE8]    -- no_data, BC 9
def tdhOpen : Bytes := [0x10, 0x00, 0x0B, 0x00, 7, 0, 0, 0, 0, 0xE8]      -- BC 11
def tdhCont : Bytes := [0x10, 0x40, 0x0B, 0x00, 7, 0, 0, 0, 0, 0xE8]      -- continuation of tdhOpen
def data : Bytes := [1, 2, 3, 4, 5, 6, 7, 8, 9, 0x22]
def cdw : Bytes := [1, 2, 3, 4, 5, 6, 0, 0, 0, 0xF8]
def tdtDone : Bytes := [0, 0, 0, 0, 0, 0, 0, 0, 1, 0xF0]
def tdtOpen : Bytes := [0, 0, 0, 0, 0, 0, 0, 0, 0, 0xF0]
def ddw0 : Bytes := [0, 0, 0, 0, 0, 0, 0, 0, 0, 0xE4]
/-- page 0: IHW, a closed packet starting with a CDW, a no-data TDH, and a packet left open -/
def page0 : Payload := .page { ihw := ihw, segs :=
  [{ tdh := tdh, body := some ([cdw, data, data], tdtDone) }, { tdh := tdhNoData, body := none },
   { tdh := tdhOpen, body := some ([data], tdtOpen) }] }
/-- page 1: IHW, the continuation of the open packet, then a closed one -/
def page1 : Payload := .page { ihw := ihw, segs :=
  [{ tdh := tdhCont, body := some ([data, data], tdtDone) }, { tdh := tdhOpen, body := some ([], tdtDone) }] }

example : payloadOk true r0 {} page0 = some { bw := .open_ tdhOpen, cdw := some cdw } := by decide
example : payloadOk true r1 { bw := .open_ tdhOpen, cdw := some cdw } page1 = some { bw := .closed, cdw := some cdw } := by decide
example : payloadOk true rStop { bw := .closed, cdw := some cdw } (.stop ddw0) = some { bw := .fresh, cdw := some cdw } := by decide
-- and the grammar rejects a page that starts a new packet while one is open
example : payloadOk true r1 { bw := .open_ tdhOpen, cdw := none } page0 = none := by decide
end Ex

end C01
end FastPasta
