/-
  C15 — statistics files round-trip and detect any drift.

  `validate_complete`: the comparison succeeds iff *every* statistic the run collects equals the
  file's — all of rdh_stats (10 fields), its_stats, the 20 trigger counters, all 6 fields of
  error_stats, and the 7 ALPIDE counters when the run collects them. So no collected statistic is
  missing from the comparison and none is compared spuriously. `validate_refl`: a file equal to
  what the run collected is accepted. `drift_sets_exit`: any mismatch makes a run with an
  any-errors code N exit with N. With C05 (same input and options ⇒ same statistics, whatever the
  schedule) a file written by a run is accepted by a later run.
  Serialisation (serde_json / toml) is external: assumed `parse (print s) = s` on this type and
  exercised by the round-trip correspondence on the real binary.
-/
import FastPasta.Proofs.StatsSrcTie
import FastPasta.Model.StatsCompare
import FastPasta.Model.Collector
namespace FastPasta
namespace C15

theorem mism_nil {α} [DecidableEq α] (n : String) (a b : α) : mism n a b = [] ↔ a = b := by
  unfold mism; by_cases h : a = b <;> simp [h]

theorem mismCounters_nil (names : List String) : ∀ (a b : List Nat), a.length = names.length → b.length = names.length →
    (mismCounters names a b = [] ↔ a = b) := by
  induction names with
  | nil =>
    intro a b ha hb
    have : a = [] := List.eq_nil_of_length_eq_zero ha
    have : b = [] := List.eq_nil_of_length_eq_zero hb
    subst_vars; simp [mismCounters]
  | cons n ns ih =>
    intro a b ha hb
    cases a with
    | nil => simp at ha
    | cons x xs =>
      cases b with
      | nil => simp at hb
      | cons y ys =>
        simp only [List.length_cons, Nat.add_right_cancel_iff] at ha hb
        simp only [mismCounters, List.append_eq_nil_iff, mism_nil, ih xs ys ha hb, List.cons.injEq]

/-- the statistics the run collects agree with the file's -/
def CollectedEq (mine other : StatsRec) : Prop :=
  mine.rdhsSeen = other.rdhsSeen ∧ mine.rdhsFiltered = other.rdhsFiltered ∧ mine.rdhVersion = other.rdhVersion ∧
  mine.hbfsSeen = other.hbfsSeen ∧ mine.payloadSize = other.payloadSize ∧ mine.dataFormat = other.dataFormat ∧
  mine.links = other.links ∧ mine.feeId = other.feeId ∧ mine.systemId = other.systemId ∧
  mine.runTriggerType = other.runTriggerType ∧ mine.layerStavesSeen = other.layerStavesSeen ∧ mine.trig = other.trig ∧
  mine.fatalError = other.fatalError ∧ mine.reportedErrors = other.reportedErrors ∧
  mine.customChecksStatsErrors = other.customChecksStatsErrors ∧ mine.totalErrors = other.totalErrors ∧
  mine.uniqueErrorCodes = other.uniqueErrorCodes ∧ mine.stavesWithErrors = other.stavesWithErrors ∧
  (mine.alpide.isSome = true → mine.alpide = other.alpide)

/-- well-formed records: 20 trigger counters, 7 ALPIDE counters -/
def WF (s : StatsRec) : Prop := s.trig.length = 20 ∧ ∀ a, s.alpide = some a → a.length = 7

theorem validate_complete (mine other : StatsRec) (hm : WF mine) (ho : WF other) :
    validateOther mine other = [] ↔ CollectedEq mine other := by
  have ht := mismCounters_nil triggerNames mine.trig other.trig (by simpa [triggerNames] using hm.1) (by simpa [triggerNames] using ho.1)
  unfold validateOther CollectedEq
  simp only [List.append_eq_nil_iff, mism_nil, ht]
  have hal : alpideMism mine.alpide other.alpide = [] ↔ (mine.alpide.isSome = true → mine.alpide = other.alpide) := by
    cases hma : mine.alpide with
    | none => simp [alpideMism]
    | some a =>
      cases hoa : other.alpide with
      | none => simp [alpideMism]
      | some b =>
        have := mismCounters_nil alpideNames a b (by simpa [alpideNames] using hm.2 a hma) (by simpa [alpideNames] using ho.2 b hoa)
        simp [alpideMism, this]
  rw [hal]
  constructor
  · rintro ⟨⟨⟨⟨⟨⟨⟨⟨⟨⟨⟨⟨⟨⟨⟨⟨⟨⟨a, b⟩, c⟩, d⟩, e⟩, f⟩, g⟩, h⟩, i⟩, j⟩, k⟩, l⟩, m⟩, n⟩, o⟩, p⟩, q⟩, r⟩, s⟩
    exact ⟨c, d, e, f, g, h, i, j, k, l, a, b, m, n, o, p, q, r, s⟩
  · rintro ⟨c, d, e, f, g, h, i, j, k, l, a, b, m, n, o, p, q, r, s⟩
    exact ⟨⟨⟨⟨⟨⟨⟨⟨⟨⟨⟨⟨⟨⟨⟨⟨⟨⟨a, b⟩, c⟩, d⟩, e⟩, f⟩, g⟩, h⟩, i⟩, j⟩, k⟩, l⟩, m⟩, n⟩, o⟩, p⟩, q⟩, r⟩, s⟩

/-- a file that holds exactly what the run collected is accepted -/
theorem validate_refl (s : StatsRec) (h : WF s) : validateOther s s = [] :=
  (validate_complete s s h h).mpr ⟨rfl, rfl, rfl, rfl, rfl, rfl, rfl, rfl, rfl, rfl, rfl, rfl, rfl, rfl, rfl, rfl, rfl, rfl, fun _ => rfl⟩

/-- any drift in a collected statistic is reported … -/
theorem drift_detected (mine other : StatsRec) (hm : WF mine) (ho : WF other) (h : ¬ CollectedEq mine other) :
    validateOther mine other ≠ [] :=
  fun hc => h ((validate_complete mine other hm ho).mp hc)

/-- … and a reported mismatch makes a run with an any-errors code exit with that code -/
theorem drift_sets_exit (n : Nat) (fin : Final) : exitCode false (some n) fin true = n := by
  simp [exitCode]

/-! ### non-vacuity -/
def exRec : StatsRec :=
  { rdhsSeen := 10, rdhsFiltered := 0, rdhVersion := some 7, hbfsSeen := 5, payloadSize := 560, dataFormat := some 0,
    links := [8], feeId := [524], systemId := some "ITS", runTriggerType := some (27139, "SOC  "),
    layerStavesSeen := [(0, 12)], trig := List.replicate 20 0, fatalError := none, reportedErrors := [],
    customChecksStatsErrors := [], totalErrors := 0, uniqueErrorCodes := [], stavesWithErrors := some [], alpide := none }
example : WF exRec := by constructor <;> simp [exRec]
example : validateOther exRec { exRec with hbfsSeen := 6 } = ["hbfs_seen"] := by decide

/-! ### tie by translation: WHICH statistics are compared is read from the source on every run (`tools/stats2lean.py` →
    `Spec/StatsSrcGen.lean`: the struct declarations, the copies `Self { f: other.f, .. }`, the `validate_fields!` field lists, the
    sub-struct calls and the macro itself, each required to have exactly the expected shape) -/
/-- the leaves `validate_other_stats` compares in the source are the leaves `validateOther` compares (so `validate_complete` /
    `drift_detected` speak about every statistic the source compares), each exactly once, and no declared field of any statistics
    struct is missing from its comparison -/
theorem compared_fields_src :
    SrcStats.order.Perm comparedLeafNames ∧ SrcStats.order.Nodup ∧
    (∀ f ∈ SrcStats.RdhStats.fields, f ∈ SrcStats.RdhStats.compared ∨ f ∈ SrcStats.RdhStats.subs) ∧
    (∀ f ∈ SrcStats.TriggerStats.fields, f ∈ SrcStats.TriggerStats.compared) ∧
    (∀ f ∈ SrcStats.ItsStats.fields, f ∈ SrcStats.ItsStats.compared) ∧
    (∀ f ∈ SrcStats.ErrorStats.fields, f ∈ SrcStats.ErrorStats.compared) ∧
    (∀ f ∈ SrcStats.ReadoutFlags.fields, f ∈ SrcStats.ReadoutFlags.compared) :=
  ⟨StatsSrcTie.order_eq.2.2.2.2.2.2, StatsSrcTie.order_nodup, StatsSrcTie.every_field_compared.1, StatsSrcTie.every_field_compared.2.1,
   StatsSrcTie.every_field_compared.2.2.1, StatsSrcTie.every_field_compared.2.2.2.1, StatsSrcTie.every_field_compared.2.2.2.2.1⟩

end C15
end FastPasta
