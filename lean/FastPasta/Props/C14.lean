/-
  C14 — statistics equal ground truth computed from the input.

  Ground truth is given in closed form over the list of packets the scanner delivers (which by
  C03 `scan_exact` is the filtered chain of the input): heartbeat frames = number of delivered
  packets with stop bit 1; trigger counter of bit k = number of delivered packets with bit k set.
  The collector's counters are "sum over the messages" whatever their arrival order
  (`Proofs.Collector`), the analysis thread's per-batch messages sum to the closed forms for any
  number of batches, and no other sender contributes to these counters.
  Partial (`…_partial`): the scanner-side counters (RDHs visited / matching, payload bytes, link
  and FEE-ID lists) are tied to ground truth by the correspondence check and the model-free oracle
  (independent chain walk), not yet by a theorem.
-/
import FastPasta.Model.Cli
import FastPasta.Proofs.Collector
namespace FastPasta
namespace C14

theorem sum_append (a b : List Nat) : (a ++ b).sum = a.sum + b.sum := by
  induction a with
  | nil => simp
  | cons x xs ih => simp [ih]; omega

theorem sum_flatMap {α} (l : List α) (f : α → List Nat) : (l.flatMap f).sum = (l.map (fun x => (f x).sum)).sum := by
  induction l with
  | nil => rfl
  | cons a as ih => simp [List.flatMap_cons, sum_append, ih]

theorem sum_zero_of_all {α} (l : List α) (g : α → Nat) (h : ∀ x ∈ l, g x = 0) : (l.map g).sum = 0 := by
  induction l with
  | nil => rfl
  | cons a as ih =>
    simp only [List.map_cons, List.sum_cons, h a (by simp), ih (fun x hx => h x (by simp [hx]))]

theorem chunks_flatten (n : Nat) (hn : 0 < n) (l : List Packet) :
    (analysisMsgs.chunksExact' n l).flatten = l := by
  induction l using analysisMsgs.chunksExact'.induct (n := n) with
  | case1 l h =>
    rw [analysisMsgs.chunksExact']
    rcases h with h | h
    · omega
    · simp [h]
  | case2 l h ih =>
    rw [analysisMsgs.chunksExact']
    simp only [h, ↓reduceDIte, List.flatten_cons, ih, List.take_append_drop]

def hbfCount (pk : List Packet) : Nat := (pk.filter (·.rdh.stopBit == 1)).length
def trigCount (k : Nat) (pk : List Packet) : Nat := (pk.map (fun p => p.rdh.triggerType / 2^k % 2)).sum

theorem hbfCount_append (a b : List Packet) : hbfCount (a ++ b) = hbfCount a + hbfCount b := by
  simp [hbfCount, List.filter_append]
theorem trigCount_append (k : Nat) (a b : List Packet) : trigCount k (a ++ b) = trigCount k a + trigCount k b := by
  simp [trigCount, sum_append]

theorem batch_hbfs (sys : Nat) (hsys : validSystemIds.contains sys = true) (b : List Packet) :
    ((analysisBatch sys b).map Stat.hbfsN).sum = hbfCount b := by
  unfold analysisBatch
  simp only [hsys, ↓reduceIte, List.map_append, sum_append, List.map_cons, List.map_nil,
    List.sum_cons, List.sum_nil, Stat.hbfsN, hbfCount]
  have : ((b.flatMap fun p => [Stat.triggerType p.rdh.triggerType] ++
      (if sys == 32 then [Stat.layerStave p.rdh.layer p.rdh.stave] else [])).map Stat.hbfsN).sum = 0 := by
    apply sum_zero_of_all
    intro x hx
    simp only [List.mem_flatMap, List.mem_append, List.mem_singleton] at hx
    obtain ⟨p, _, hx⟩ := hx
    rcases hx with rfl | hx
    · rfl
    · split at hx
      · simp only [List.mem_singleton] at hx; subst hx; rfl
      · simp at hx
  omega

theorem batch_trig (sys : Nat) (hsys : validSystemIds.contains sys = true) (k : Nat) (b : List Packet) :
    ((analysisBatch sys b).map (Stat.trigBit k)).sum = trigCount k b := by
  unfold analysisBatch
  simp only [hsys, ↓reduceIte, List.map_append, sum_append, List.map_cons, List.map_nil,
    List.sum_cons, List.sum_nil, Stat.trigBit, trigCount, Nat.add_zero]
  induction b with
  | nil => rfl
  | cons p ps ih =>
    simp only [List.flatMap_cons, List.map_append, sum_append, List.map_cons, List.map_nil,
      List.sum_cons, List.sum_nil, Stat.trigBit, ih]
    split <;> simp [Stat.trigBit]

theorem analysis_sum (g : Stat → Nat) (cnt : List Packet → Nat)
    (happ : ∀ a b, cnt (a ++ b) = cnt a + cnt b) (hnil : cnt [] = 0)
    (sys : Nat) (hb : ∀ b, ((analysisBatch sys b).map g).sum = cnt b) (n : Nat) (hn : 0 < n) (l : List Packet) :
    (((analysisMsgs.chunksExact' n l).flatMap (analysisBatch sys)).map g).sum = cnt l := by
  induction l using analysisMsgs.chunksExact'.induct (n := n) with
  | case1 l h =>
    rw [analysisMsgs.chunksExact']
    rcases h with h | h
    · omega
    · simp [h, hnil]
  | case2 l h ih =>
    rw [analysisMsgs.chunksExact']
    simp only [h, ↓reduceDIte, List.flatMap_cons, List.map_append, sum_append, hb, ih]
    rw [← happ, List.take_append_drop]

/-- heartbeat frames reported by the analysis thread over all batches = number of analysed
    packets with stop bit 1 (any number of packets, any batch boundaries) -/
theorem analysis_hbfs (p0 : Packet) (ps : List Packet)
    (hsys : validSystemIds.contains p0.rdh.systemId = true) :
    ((analysisMsgs (p0 :: ps)).map Stat.hbfsN).sum = hbfCount (p0 :: ps) := by
  unfold analysisMsgs
  exact analysis_sum Stat.hbfsN hbfCount hbfCount_append rfl _ (batch_hbfs _ hsys) BATCH (by decide) _

/-- per-bit trigger counters over all batches = number of analysed packets with that bit set -/
theorem analysis_trig (k : Nat) (p0 : Packet) (ps : List Packet)
    (hsys : validSystemIds.contains p0.rdh.systemId = true) :
    ((analysisMsgs (p0 :: ps)).map (Stat.trigBit k)).sum = trigCount k (p0 :: ps) := by
  unfold analysisMsgs
  exact analysis_sum (Stat.trigBit k) (trigCount k) (trigCount_append k) rfl _ (batch_trig _ hsys k) BATCH (by decide) _

/-- no other sender contributes to the heartbeat-frame and trigger counters -/
theorem scanner_msgs_no_hbf_trig (ms : List InMsg) (k : Nat) :
    ((ms.flatMap inMsgToStat).map Stat.hbfsN).sum = 0 ∧ ((ms.flatMap inMsgToStat).map (Stat.trigBit k)).sum = 0 := by
  constructor <;>
  · apply sum_zero_of_all
    intro x hx
    simp only [List.mem_flatMap] at hx
    obtain ⟨m, _, hx⟩ := hx
    cases m <;> simp only [inMsgToStat, List.mem_singleton] at hx <;>
      first
        | (subst hx; rfl)
        | (split at hx <;> simp only [List.mem_singleton] at hx <;> subst hx <;> rfl)

theorem validator_msgs_no_hbf_trig (ms : List Msg) (k : Nat) :
    ((ms.map msgToStat).map Stat.hbfsN).sum = 0 ∧ ((ms.map msgToStat).map (Stat.trigBit k)).sum = 0 := by
  constructor <;>
  · apply sum_zero_of_all
    intro x hx
    simp only [List.mem_map] at hx
    obtain ⟨m, _, rfl⟩ := hx
    cases m <;> rfl

/-- **C14 (analysed statistics)**: in a check or view run whose first delivered packet carries a
    known system id, the reported heartbeat-frame count and every per-bit trigger counter equal
    the closed-form counts over the delivered packets. -/
theorem run_hbfs_trig (o : Opts) (input : Bytes) (out : Outcome) (h : run o input = .ok out)
    (hinit : out.initErr = false) (han : (o.isCheck || o.isView) = true)
    (p0 : Packet) (ps : List Packet) (hpk : (scanAll o.scanCfg input).packets = p0 :: ps)
    (hsys : validSystemIds.contains p0.rdh.systemId = true) :
    out.fin.coll.hbfs = hbfCount (p0 :: ps) ∧ ∀ k, out.fin.coll.trig k = trigCount k (p0 :: ps) := by
  unfold run at h
  split at h
  · simp only [Except.ok.injEq] at h; subst h; simp at hinit
  · simp only [han, ↓reduceIte, hpk] at h
    split at h
    · cases h
    · rename_i vStats hv
      simp only [Except.ok.injEq] at h
      subst h
      simp only [finalize]
      have hvs : ∃ ms : List Msg, vStats = ms.map msgToStat := by
        split at hv
        · split at hv
          · cases hv
          · simp only [Except.ok.injEq] at hv; exact ⟨_, hv.symm⟩
        · simp only [Except.ok.injEq] at hv; exact ⟨[], by simp [← hv]⟩
      obtain ⟨vm, rfl⟩ := hvs
      constructor
      · rw [run_hbfs]
        simp only [List.map_append, sum_append, analysis_hbfs p0 ps hsys,
          (scanner_msgs_no_hbf_trig _ 0).1, (validator_msgs_no_hbf_trig vm 0).1]
        split <;> simp [Stat.hbfsN]
      · intro k
        rw [run_trig]
        simp only [List.map_append, sum_append, analysis_trig k p0 ps hsys,
          (scanner_msgs_no_hbf_trig _ k).2, (validator_msgs_no_hbf_trig vm k).2]
        split <;> simp [Stat.trigBit]

end C14
end FastPasta
