/-
  C14 — statistics equal ground truth computed from the input.

  Ground truth is given in closed form over the list of packets the scanner delivers (which by
  C03 `scan_exact` is the filtered chain of the input): heartbeat frames = number of delivered
  packets with stop bit 1; trigger counter of bit k = number of delivered packets with bit k set.
  The collector's counters are "sum over the messages" whatever their arrival order
  (`Proofs.Collector`), the analysis thread's per-batch messages sum to the closed forms for any
  number of batches, and no other sender contributes to these counters.
  `run_scanner_stats`: for every well-framed input the scanner-side statistics equal their closed
  forms over the packet list: RDHs seen = number of packets of the input (also the skipped ones),
  RDHs filtered = number of packets matching the filter, payload = sum of the matching packets'
  payload sizes, links = sorted first-occurrence list of link ids of all packets, FEE IDs =
  first-occurrence list — for every filter, file or pipe, payload loaded or skipped, any length.
  Not covered by a theorem: the report's derived strings (layout), and the set-once fields
  (run trigger type, data format, system id: first header) which are tied by correspondence.
-/
import FastPasta.Proofs.ReaderStatsSrcTie
import FastPasta.Model.Cli
import FastPasta.Proofs.Collector
import FastPasta.Proofs.ScanCount
import FastPasta.Proofs.ScanSetOnce
import FastPasta.Proofs.TrigSrcTie
namespace FastPasta
namespace C14

theorem sum_append (a b : List Nat) : (a ++ b).sum = a.sum + b.sum := by
  induction a with
  | nil => simp
  | cons x xs ih => simp [ih]; omega

theorem sum_flatMap {α} (l : List α) (f : α → List Nat) : (l.flatMap f).sum = (l.map (fun x => (f x).sum)).sum := by
  induction l with
  | nil => rfl
  | cons a as ih => simp [List.flatMap_cons, sum_append, ih]

theorem sum_zero_of_all {α} (l : List α) (g : α → Nat) (h : ∀ x ∈ l, g x = 0) : (l.map g).sum = 0 := by
  induction l with
  | nil => rfl
  | cons a as ih =>
    simp only [List.map_cons, List.sum_cons, h a (by simp), ih (fun x hx => h x (by simp [hx]))]

theorem chunks_flatten (n : Nat) (hn : 0 < n) (l : List Packet) :
    (analysisMsgs.chunksExact' n l).flatten = l := by
  induction l using analysisMsgs.chunksExact'.induct (n := n) with
  | case1 l h =>
    rw [analysisMsgs.chunksExact']
    rcases h with h | h
    · omega
    · simp [h]
  | case2 l h ih =>
    rw [analysisMsgs.chunksExact']
    simp only [h, ↓reduceDIte, List.flatten_cons, ih, List.take_append_drop]

def hbfCount (pk : List Packet) : Nat := (pk.filter (·.rdh.stopBit == 1)).length
def trigCount (k : Nat) (pk : List Packet) : Nat := (pk.map (fun p => p.rdh.triggerType / 2^k % 2)).sum

theorem hbfCount_append (a b : List Packet) : hbfCount (a ++ b) = hbfCount a + hbfCount b := by
  simp [hbfCount, List.filter_append]
theorem trigCount_append (k : Nat) (a b : List Packet) : trigCount k (a ++ b) = trigCount k a + trigCount k b := by
  simp [trigCount, sum_append]

theorem batch_hbfs (sys : Nat) (hsys : validSystemIds.contains sys = true) (b : List Packet) :
    ((analysisBatch sys b).map Stat.hbfsN).sum = hbfCount b := by
  unfold analysisBatch
  simp only [hsys, ↓reduceIte, List.map_append, sum_append, List.map_cons, List.map_nil,
    List.sum_cons, List.sum_nil, Stat.hbfsN, hbfCount]
  have : ((b.flatMap fun p => [Stat.triggerType p.rdh.triggerType] ++
      (if sys == 32 then [Stat.layerStave p.rdh.layer p.rdh.stave] else [])).map Stat.hbfsN).sum = 0 := by
    apply sum_zero_of_all
    intro x hx
    simp only [List.mem_flatMap, List.mem_append, List.mem_singleton] at hx
    obtain ⟨p, _, hx⟩ := hx
    rcases hx with rfl | hx
    · rfl
    · split at hx
      · simp only [List.mem_singleton] at hx; subst hx; rfl
      · simp at hx
  omega

theorem batch_trig (sys : Nat) (hsys : validSystemIds.contains sys = true) (k : Nat) (b : List Packet) :
    ((analysisBatch sys b).map (Stat.trigBit k)).sum = trigCount k b := by
  unfold analysisBatch
  simp only [hsys, ↓reduceIte, List.map_append, sum_append, List.map_cons, List.map_nil,
    List.sum_cons, List.sum_nil, Stat.trigBit, trigCount, Nat.add_zero]
  induction b with
  | nil => rfl
  | cons p ps ih =>
    simp only [List.flatMap_cons, List.map_append, sum_append, List.map_cons, List.map_nil,
      List.sum_cons, List.sum_nil, Stat.trigBit, ih]
    split <;> simp [Stat.trigBit]

theorem analysis_sum (g : Stat → Nat) (cnt : List Packet → Nat)
    (happ : ∀ a b, cnt (a ++ b) = cnt a + cnt b) (hnil : cnt [] = 0)
    (sys : Nat) (hb : ∀ b, ((analysisBatch sys b).map g).sum = cnt b) (n : Nat) (hn : 0 < n) (l : List Packet) :
    (((analysisMsgs.chunksExact' n l).flatMap (analysisBatch sys)).map g).sum = cnt l := by
  induction l using analysisMsgs.chunksExact'.induct (n := n) with
  | case1 l h =>
    rw [analysisMsgs.chunksExact']
    rcases h with h | h
    · omega
    · simp [h, hnil]
  | case2 l h ih =>
    rw [analysisMsgs.chunksExact']
    simp only [h, ↓reduceDIte, List.flatMap_cons, List.map_append, sum_append, hb, ih]
    rw [← happ, List.take_append_drop]

/-- heartbeat frames reported by the analysis thread over all batches = number of analysed
    packets with stop bit 1 (any number of packets, any batch boundaries) -/
theorem analysis_hbfs (p0 : Packet) (ps : List Packet)
    (hsys : validSystemIds.contains p0.rdh.systemId = true) :
    ((analysisMsgs (p0 :: ps)).map Stat.hbfsN).sum = hbfCount (p0 :: ps) := by
  unfold analysisMsgs
  exact analysis_sum Stat.hbfsN hbfCount hbfCount_append rfl _ (batch_hbfs _ hsys) BATCH (by decide) _

/-- per-bit trigger counters over all batches = number of analysed packets with that bit set -/
theorem analysis_trig (k : Nat) (p0 : Packet) (ps : List Packet)
    (hsys : validSystemIds.contains p0.rdh.systemId = true) :
    ((analysisMsgs (p0 :: ps)).map (Stat.trigBit k)).sum = trigCount k (p0 :: ps) := by
  unfold analysisMsgs
  exact analysis_sum (Stat.trigBit k) (trigCount k) (trigCount_append k) rfl _ (batch_trig _ hsys k) BATCH (by decide) _

/-- no other sender contributes to the heartbeat-frame and trigger counters -/
theorem scanner_msgs_no_hbf_trig (ms : List InMsg) (k : Nat) :
    ((ms.flatMap inMsgToStat).map Stat.hbfsN).sum = 0 ∧ ((ms.flatMap inMsgToStat).map (Stat.trigBit k)).sum = 0 := by
  constructor <;>
  · apply sum_zero_of_all
    intro x hx
    simp only [List.mem_flatMap] at hx
    obtain ⟨m, _, hx⟩ := hx
    cases m <;> simp only [inMsgToStat, List.mem_singleton] at hx <;>
      first
        | (subst hx; rfl)
        | (split at hx <;> simp only [List.mem_singleton] at hx <;> subst hx <;> rfl)

theorem validator_msgs_no_hbf_trig (ms : List Msg) (k : Nat) :
    ((ms.map msgToStat).map Stat.hbfsN).sum = 0 ∧ ((ms.map msgToStat).map (Stat.trigBit k)).sum = 0 := by
  constructor <;>
  · apply sum_zero_of_all
    intro x hx
    simp only [List.mem_map] at hx
    obtain ⟨m, _, rfl⟩ := hx
    cases m <;> rfl

/-- **C14 (analysed statistics)**: in a check or view run whose first delivered packet carries a
    known system id, the reported heartbeat-frame count and every per-bit trigger counter equal
    the closed-form counts over the delivered packets. -/
theorem run_hbfs_trig (o : Opts) (input : Bytes) (out : Outcome) (h : run o input = .ok out)
    (hinit : out.initErr = false) (han : (o.isCheck || o.isView) = true)
    (p0 : Packet) (ps : List Packet) (hpk : (scanAll o.scanCfg input).packets = p0 :: ps)
    (hsys : validSystemIds.contains p0.rdh.systemId = true) :
    out.fin.coll.hbfs = hbfCount (p0 :: ps) ∧ ∀ k, out.fin.coll.trig k = trigCount k (p0 :: ps) := by
  unfold run at h
  split at h
  · simp only [Except.ok.injEq] at h; subst h; simp at hinit
  · simp only [han, ↓reduceIte, hpk] at h
    split at h
    · cases h
    · rename_i vStats hv
      simp only [Except.ok.injEq] at h
      subst h
      simp only [finalize]
      have hvs : ∃ ms : List Msg, vStats = ms.map msgToStat := by
        split at hv
        · split at hv
          · cases hv
          · simp only [Except.ok.injEq] at hv; exact ⟨_, hv.symm⟩
        · simp only [Except.ok.injEq] at hv; exact ⟨[], by simp [← hv]⟩
      obtain ⟨vm, rfl⟩ := hvs
      constructor
      · rw [run_hbfs]
        simp only [List.map_append, sum_append, analysis_hbfs p0 ps hsys,
          (scanner_msgs_no_hbf_trig _ 0).1, (validator_msgs_no_hbf_trig vm 0).1]
        split <;> simp [Stat.hbfsN]
      · intro k
        rw [run_trig]
        simp only [List.map_append, sum_append, analysis_trig k p0 ps hsys,
          (scanner_msgs_no_hbf_trig _ k).2, (validator_msgs_no_hbf_trig vm k).2]
        split <;> simp [Stat.trigBit]

/-! ### scanner-side statistics -/
open C03

def _root_.FastPasta.Stat.linkOf : Stat → Option Nat | .link l => some l | _ => none
def _root_.FastPasta.Stat.feeOf : Stat → Option Nat | .feeId f => some f | _ => none

/-- a statistic the scanner-side fields ignore -/
def _root_.FastPasta.Stat.scannerFree : Stat → Bool
  | .rdhSeen _ | .rdhFiltered _ | .payloadSize _ | .link _ | .feeId _ => false
  | _ => true

theorem step_links (cap : Nat) (c : Coll) (m : Stat) : (c.step cap m).links = c.links ++ (Stat.linkOf m).toList := by
  cases m <;> simp [Coll.step, Stat.linkOf] <;> (repeat' split) <;> simp
theorem step_fees (cap : Nat) (c : Coll) (m : Stat) :
    (c.step cap m).fees = (Stat.feeOf m).toList.foldl addNew c.fees := by
  cases m <;> simp [Coll.step, Stat.feeOf, addNew] <;> (repeat' split) <;> simp_all

theorem run_links (cap : Nat) (ms : List Stat) : ∀ c : Coll, (Coll.run cap c ms).links = c.links ++ ms.filterMap Stat.linkOf := by
  induction ms with
  | nil => intro c; simp [Coll.run]
  | cons m ms ih =>
    intro c
    simp only [Coll.run, List.foldl_cons] at ih ⊢
    rw [ih, step_links]
    cases h : Stat.linkOf m <;> simp [List.filterMap_cons, h]

theorem run_fees (cap : Nat) (ms : List Stat) : ∀ c : Coll, (Coll.run cap c ms).fees = (ms.filterMap Stat.feeOf).foldl addNew c.fees := by
  induction ms with
  | nil => intro c; simp [Coll.run]
  | cons m ms ih =>
    intro c
    simp only [Coll.run, List.foldl_cons] at ih ⊢
    rw [ih, step_fees]
    cases h : Stat.feeOf m <;> simp [List.filterMap_cons, h]

structure Silent (ms : List Stat) : Prop where
  seen : (ms.map Stat.seen).sum = 0
  filtered : (ms.map Stat.filteredN).sum = 0
  payload : (ms.map Stat.payloadN).sum = 0
  links : ms.filterMap Stat.linkOf = []
  fees : ms.filterMap Stat.feeOf = []

theorem silent_of_free (ms : List Stat) (h : ∀ m ∈ ms, m.scannerFree = true) : Silent ms := by
  induction ms with
  | nil => exact ⟨rfl, rfl, rfl, rfl, rfl⟩
  | cons m ms ih =>
    have hm := h m (by simp)
    obtain ⟨i1, i2, i3, i4, i5⟩ := ih (fun x hx => h x (by simp [hx]))
    cases m <;> first
      | exact ⟨by simpa [Stat.seen] using i1, by simpa [Stat.filteredN] using i2, by simpa [Stat.payloadN] using i3,
               by simpa [List.filterMap_cons, Stat.linkOf] using i4, by simpa [List.filterMap_cons, Stat.feeOf] using i5⟩
      | (exfalso; simp [Stat.scannerFree] at hm)

theorem Silent.append {a b : List Stat} (ha : Silent a) (hb : Silent b) : Silent (a ++ b) :=
  ⟨by simp [sum_append, ha.seen, hb.seen], by simp [sum_append, ha.filtered, hb.filtered],
   by simp [sum_append, ha.payload, hb.payload], by simp [ha.links, hb.links], by simp [ha.fees, hb.fees]⟩

theorem analysisBatch_free (sys : Nat) (b : List Packet) : ∀ m ∈ analysisBatch sys b, m.scannerFree = true := by
  intro m hm
  unfold analysisBatch at hm
  split at hm
  · simp only [List.mem_append, List.mem_flatMap, List.mem_singleton] at hm
    rcases hm with ⟨p, _, hm⟩ | rfl
    · rcases hm with rfl | hm
      · rfl
      · split at hm
        · simp only [List.mem_singleton] at hm; subst hm; rfl
        · simp at hm
    · rfl
  · split at hm
    · simp only [List.mem_singleton] at hm; subst hm; rfl
    · simp only [List.mem_cons, List.not_mem_nil, or_false] at hm
      rcases hm with rfl | rfl | rfl <;> rfl

theorem analysisMsgs_free (pk : List Packet) : ∀ m ∈ analysisMsgs pk, m.scannerFree = true := by
  intro m hm
  unfold analysisMsgs at hm
  split at hm
  · simp at hm
  · simp only [List.mem_flatMap] at hm
    obtain ⟨b, _, hm⟩ := hm
    exact analysisBatch_free _ b m hm

theorem validator_free (ms : List Msg) : ∀ m ∈ ms.map msgToStat, m.scannerFree = true := by
  intro m hm
  simp only [List.mem_map] at hm
  obtain ⟨x, _, rfl⟩ := hm
  cases x <;> rfl

/-- what the scanner's non-counter messages contribute -/
theorem plain_stats (ms : List InMsg) (h : AllPlain ms) :
    ((ms.flatMap inMsgToStat).map Stat.seen).sum = 0 ∧ ((ms.flatMap inMsgToStat).map Stat.filteredN).sum = 0 ∧
    ((ms.flatMap inMsgToStat).map Stat.payloadN).sum = 0 ∧
    (ms.flatMap inMsgToStat).filterMap Stat.linkOf = ms.filterMap C03.linkOf ∧
    (ms.flatMap inMsgToStat).filterMap Stat.feeOf = ms.filterMap C03.feeOf := by
  induction ms with
  | nil => exact ⟨rfl, rfl, rfl, rfl, rfl⟩
  | cons m ms ih =>
    have hm := h m (by simp)
    obtain ⟨i1, i2, i3, i4, i5⟩ := ih (fun x hx => h x (by simp [hx]))
    simp only [List.flatMap_cons, List.map_append, sum_append, List.filterMap_append, i1, i2, i3, i4, i5]
    cases m <;> first
      | (exfalso; simp [InMsg.plain] at hm; done)
      | (simp [List.filterMap_cons, inMsgToStat, Stat.seen, Stat.filteredN, Stat.payloadN, Stat.linkOf, Stat.feeOf, C03.linkOf, C03.feeOf]; done)
      | (simp only [inMsgToStat]; split <;>
          simp [List.filterMap_cons, Stat.seen, Stat.filteredN, Stat.payloadN, Stat.linkOf, Stat.feeOf, C03.linkOf, C03.feeOf])

theorem addNew_nodup (a : List Nat) (l : List Nat) (h : (a ++ l).Nodup) : l.foldl addNew a = a ++ l := by
  induction l generalizing a with
  | nil => simp
  | cons x xs ih =>
    have hx : x ∉ a := by
      intro hxa
      have := List.nodup_append.mp h
      exact this.2.2 x hxa x (by simp) rfl
    have h' : ((a ++ [x]) ++ xs).Nodup := by simpa using h
    simp only [List.foldl_cons, addNew, List.contains_iff_mem, hx, ↓reduceIte]
    rw [ih _ h']; simp

theorem addNew_keeps_nodup (a : List Nat) (x : Nat) (h : a.Nodup) : (addNew a x).Nodup := by
  unfold addNew
  split
  · exact h
  · rename_i hx
    simp only [List.contains_iff_mem] at hx
    rw [List.nodup_append]
    exact ⟨h, by simp, by intro y hy z hz; simp only [List.mem_singleton] at hz; subst hz; intro e; subst e; exact hx hy⟩

theorem foldl_addNew_nodup (l : List Nat) : ∀ a : List Nat, a.Nodup → (l.foldl addNew a).Nodup := by
  induction l with
  | nil => intro a h; exact h
  | cons x xs ih => intro a h; exact ih _ (addNew_keeps_nodup a x h)

/-- shape of a run that passed the start-up gate and did not panic -/
theorem run_form (o : Opts) (input : Bytes) (out : Outcome) (h : run o input = .ok out) (hinit : out.initErr = false) :
    ∃ vm : List Msg, out.fin = finalize o.mute o.customCdps o.customPht
      (Coll.run o.cap (if o.isCheck && o.target == .itsStave then { alpide := some {} } else {})
        ([Stat.rdhVersion (bAt input 0)] ++
          (if o.isCheck || o.isView then analysisMsgs (scanAll o.scanCfg input).packets else []) ++
          vm.map msgToStat ++ (scanAll o.scanCfg input).msgs.flatMap inMsgToStat)) := by
  unfold run at h
  split at h
  · simp only [Except.ok.injEq] at h; subst h; simp at hinit
  · by_cases hc : o.isCheck = true
    · simp only [hc, ↓reduceIte] at h
      cases hrv : runValidators o.checkCfg [] (scanAll o.scanCfg input).packets with
      | error e => simp [hrv] at h
      | ok d =>
        simp only [hrv, Except.ok.injEq] at h
        subst h
        exact ⟨d.allMsgs, by simp [hc]⟩
    · simp only [hc, Bool.false_eq_true, ↓reduceIte, Except.ok.injEq] at h
      subst h
      exact ⟨[], by simp [hc]⟩

/-- **C14 (scanner-side statistics)**: on every well-framed input that passes the start-up gate,
    for every command, filter, source and payload mode, the reported numbers of RDHs seen and
    filtered, the payload byte count, the link list and the FEE-ID list equal the closed forms
    over the packet list of the input. -/
theorem run_scanner_stats (o : Opts) (ps : List RawPkt) (hwf : ∀ p ∈ ps, WF p)
    (out : Outcome) (h : run o (bytesOf ps) = .ok out) (hinit : out.initErr = false) :
    out.fin.coll.rdhsSeen = ps.length ∧
    out.fin.coll.rdhsFiltered = (if o.filter.isSome then (matched o.filter ps).length else 0) ∧
    out.fin.coll.payload = payloadSum (matched o.filter ps) ∧
    out.fin.coll.links = sortNat (linksFrom [] ps) ∧
    out.fin.coll.fees = feesFrom [] ps := by
  have hcnt := scanLoop_counts o.scanCfg [] (by simp) ps.length ps (Nat.le_refl _) hwf { rest := bytesOf ps } [] [] (by simp)
  have hpl := scanLoop_plain o.scanCfg { rest := bytesOf ps } [] [] AllPlain.nil
  have hann := scanLoop_announced o.scanCfg { rest := bytesOf ps } [] [] [] [] ⟨rfl, rfl⟩
  simp only at hcnt
  obtain ⟨c1, c2, c3, c4, c5⟩ := hcnt
  simp only [Nat.zero_add] at c1 c2 c3
  obtain ⟨vm, hfin⟩ := run_form o (bytesOf ps) out h hinit
  rw [hfin]
  simp only [finalize]
  · · have hvs : Silent (vm.map msgToStat) := silent_of_free _ (validator_free _)
      have has : Silent (if (o.isCheck || o.isView) = true then analysisMsgs (scanAll o.scanCfg (bytesOf ps)).packets else []) := by
        split
        · exact silent_of_free _ (analysisMsgs_free _)
        · exact silent_of_free _ (by simp)
      have hver : Silent [Stat.rdhVersion (bAt (bytesOf ps) 0)] := silent_of_free _ (by simp [Stat.scannerFree])
      have hpre := (hver.append has).append hvs
      obtain ⟨p1, p2, p3, p4, p5⟩ := plain_stats _ hpl
      have hsc : (scanAll o.scanCfg (bytesOf ps)).msgs =
          (scanLoop o.scanCfg { rest := bytesOf ps } [] []).msgs ++
            [.rdhSeen ps.length, .rdhFiltered (if o.filter.isSome then (matched o.filter ps).length else 0),
             .payloadSize (payloadSum (matched o.filter ps))] := by
        simp only [scanAll, c1, c2, c3]; rfl
      refine ⟨?_, ?_, ?_, ?_, ?_⟩
      · rw [run_seen, List.map_append, sum_append, hpre.seen, hsc, List.flatMap_append, List.map_append, sum_append, p1]
        split <;> simp [inMsgToStat, Stat.seen]
      · rw [run_filtered, List.map_append, sum_append, hpre.filtered, hsc, List.flatMap_append, List.map_append, sum_append, p2]
        split <;> simp [inMsgToStat, Stat.filteredN]
      · rw [run_payload, List.map_append, sum_append, hpre.payload, hsc, List.flatMap_append, List.map_append, sum_append, p3]
        split <;> simp [inMsgToStat, Stat.payloadN]
      · rw [run_links, List.filterMap_append, hpre.links, hsc, List.flatMap_append, List.filterMap_append, p4]
        have := hann.links
        simp only [List.nil_append] at this
        rw [this, c4]
        split <;> simp [List.filterMap_cons, inMsgToStat, Stat.linkOf]
      · rw [run_fees, List.filterMap_append, hpre.fees, hsc, List.flatMap_append, List.filterMap_append, p5]
        have := hann.fees
        simp only [List.nil_append] at this
        rw [this, c5]
        have hnd : (feesFrom [] ps).Nodup := foldl_addNew_nodup _ [] List.nodup_nil
        have := addNew_nodup [] (feesFrom [] ps) (by simpa using hnd)
        split <;> simp [List.filterMap_cons, inMsgToStat, Stat.feeOf, this]

/-! ### set-once attributes and error totals -/
open C03

def _root_.FastPasta.Stat.runTriggerOf : Stat → Option Nat | .runTrigger t => some t | _ => none
def _root_.FastPasta.Stat.dataFormatOf : Stat → Option Nat | .dataFormat t => some t | _ => none
def _root_.FastPasta.Stat.systemIdOf : Stat → Option Nat | .systemId t => some t | _ => none
def _root_.FastPasta.Stat.rdhVersionOf : Stat → Option Nat | .rdhVersion t => some t | _ => none

/-- last write wins -/
def lastOr (l : List Nat) (d : Option Nat) : Option Nat := l.foldl (fun _ x => some x) d

theorem step_runTrigger (cap : Nat) (c : Coll) (m : Stat) :
    (c.step cap m).runTrigger = (match m.runTriggerOf with | some t => some t | none => c.runTrigger) := by
  cases m <;> simp only [Coll.step, Stat.runTriggerOf] <;> (repeat' split) <;> rfl
theorem step_dataFormat (cap : Nat) (c : Coll) (m : Stat) :
    (c.step cap m).dataFormat = (match m.dataFormatOf with | some t => some t | none => c.dataFormat) := by
  cases m <;> simp only [Coll.step, Stat.dataFormatOf] <;> (repeat' split) <;> rfl
theorem step_systemId (cap : Nat) (c : Coll) (m : Stat) :
    (c.step cap m).systemId = (match m.systemIdOf with | some t => some t | none => c.systemId) := by
  cases m <;> simp only [Coll.step, Stat.systemIdOf] <;> (repeat' split) <;> rfl
theorem step_rdhVersion (cap : Nat) (c : Coll) (m : Stat) :
    (c.step cap m).rdhVersion = (match m.rdhVersionOf with | some t => some t | none => c.rdhVersion) := by
  cases m <;> simp only [Coll.step, Stat.rdhVersionOf] <;> (repeat' split) <;> rfl

theorem run_field (proj : Coll → Option Nat) (f : Stat → Option Nat) (cap : Nat)
    (hstep : ∀ c m, proj (c.step cap m) = (match f m with | some t => some t | none => proj c)) (ms : List Stat) :
    ∀ c : Coll, proj (Coll.run cap c ms) = lastOr (ms.filterMap f) (proj c) := by
  induction ms with
  | nil => intro c; rfl
  | cons m ms ih =>
    intro c
    simp only [Coll.run, List.foldl_cons] at ih ⊢
    rw [ih (c.step cap m), hstep]
    cases hf : f m <;> simp [List.filterMap_cons, hf, lastOr]


/-- a statistic that does not touch the four run-wide attributes -/
def _root_.FastPasta.Stat.attrFree (m : Stat) : Bool :=
  m.runTriggerOf.isNone && m.dataFormatOf.isNone && m.systemIdOf.isNone && m.rdhVersionOf.isNone

theorem filterMap_free {α : Type} (f : Stat → Option α) (ms : List Stat) (h : ∀ m ∈ ms, f m = none) : ms.filterMap f = [] := by
  induction ms with
  | nil => rfl
  | cons m ms ih => simp [List.filterMap_cons, h m (by simp), ih (fun x hx => h x (by simp [hx]))]

theorem analysisBatch_attrFree (sys : Nat) (b : List Packet) : ∀ m ∈ analysisBatch sys b, m.attrFree = true := by
  intro m hm
  unfold analysisBatch at hm
  split at hm
  · simp only [List.mem_append, List.mem_flatMap, List.mem_singleton] at hm
    rcases hm with ⟨p, _, hm⟩ | rfl
    · rcases hm with rfl | hm
      · rfl
      · split at hm
        · simp only [List.mem_singleton] at hm; subst hm; rfl
        · simp at hm
    · rfl
  · split at hm
    · simp only [List.mem_singleton] at hm; subst hm; rfl
    · simp only [List.mem_cons, List.not_mem_nil, or_false] at hm
      rcases hm with rfl | rfl | rfl <;> rfl

theorem analysisMsgs_attrFree (pk : List Packet) : ∀ m ∈ analysisMsgs pk, m.attrFree = true := by
  intro m hm
  unfold analysisMsgs at hm
  split at hm
  · simp at hm
  · simp only [List.mem_flatMap] at hm
    obtain ⟨b, _, hm⟩ := hm
    exact analysisBatch_attrFree _ b m hm

theorem validator_attrFree (ms : List Msg) : ∀ m ∈ ms.map msgToStat, m.attrFree = true := by
  intro m hm
  simp only [List.mem_map] at hm
  obtain ⟨x, _, rfl⟩ := hm
  cases x <;> rfl

theorem attrFree_none {m : Stat} (h : m.attrFree = true) :
    m.runTriggerOf = none ∧ m.dataFormatOf = none ∧ m.systemIdOf = none ∧ m.rdhVersionOf = none := by
  simp only [Stat.attrFree, Bool.and_eq_true, Option.isNone_iff_eq_none] at h
  exact ⟨h.1.1.1, h.1.1.2, h.1.2, h.2⟩

/-- only the three announced attributes of the scanner's messages reach the attribute fields -/
theorem scanner_attr_filter (f : Stat → Option Nat)
    (hf : ∀ m : InMsg, m.setOnce = false → ∀ x ∈ inMsgToStat m, f x = none) (ms : List InMsg) :
    (ms.flatMap inMsgToStat).filterMap f = ((ms.filter InMsg.setOnce).flatMap inMsgToStat).filterMap f := by
  induction ms with
  | nil => rfl
  | cons m ms ih =>
    simp only [List.flatMap_cons, List.filterMap_append, ih]
    cases hs : m.setOnce with
    | true => simp [List.filter_cons, hs, List.filterMap_append]
    | false => simp [List.filter_cons, hs, filterMap_free f _ (hf m hs)]

theorem inMsg_noattr (m : InMsg) (hs : m.setOnce = false) : ∀ x ∈ inMsgToStat m, x.attrFree = true := by
  intro x hx
  cases m <;> simp only [InMsg.setOnce, reduceCtorEq] at hs <;> simp only [inMsgToStat, List.mem_singleton] at hx <;> subst hx <;> rfl


/-- **C14 (set-once attributes)**: for every input of at least one header that passes the start-up
    gate — any contents, framing, command, filter, source — the reported run trigger type, data
    format and RDH version are those of the *first header of the input* (the first 64 bytes), and so
    is the system ID when it is one of the known detector IDs (otherwise a fatal message is issued
    instead). They are announced exactly once, so no later header can change them. -/
theorem run_set_once (o : Opts) (input : Bytes) (hlen : 64 ≤ input.length)
    (out : Outcome) (h : run o input = .ok out) (hinit : out.initErr = false) :
    let r0 := decodeRdh (input.take 64)
    out.fin.coll.runTrigger = some r0.triggerType ∧
    out.fin.coll.dataFormat = some r0.dataFormat ∧
    out.fin.coll.rdhVersion = some (bAt input 0) ∧
    out.fin.coll.systemId = (if validSystemIds.contains r0.systemId then some r0.systemId else none) := by
  obtain ⟨vm, hfin⟩ := run_form o input out h hinit
  rw [hfin]
  simp only [finalize]
  have hA : ∀ m ∈ (if (o.isCheck || o.isView) = true then analysisMsgs (scanAll o.scanCfg input).packets else []), m.attrFree = true := by
    intro m hm; split at hm
    · exact analysisMsgs_attrFree _ m hm
    · simp at hm
  have hV := validator_attrFree vm
  have hS := scanAll_setOnce o.scanCfg input
  simp only [hlen, ↓reduceIte] at hS
  generalize hc0 : (if (o.isCheck && o.target == Target.itsStave) = true then ({ alpide := some {} } : Coll) else {}) = c0
  have hc0f : c0.runTrigger = none ∧ c0.dataFormat = none ∧ c0.rdhVersion = none ∧ c0.systemId = none := by
    subst hc0; split <;> exact ⟨rfl, rfl, rfl, rfl⟩
  -- the filterMap of each attribute over the whole arrival list
  have key : ∀ (f : Stat → Option Nat), (∀ m : Stat, m.attrFree = true → f m = none) →
      ([Stat.rdhVersion (bAt input 0)] ++
        (if (o.isCheck || o.isView) = true then analysisMsgs (scanAll o.scanCfg input).packets else []) ++
        vm.map msgToStat ++ (scanAll o.scanCfg input).msgs.flatMap inMsgToStat).filterMap f =
      (f (Stat.rdhVersion (bAt input 0))).toList ++
        ((firstAttrs (decodeRdh (input.take 64))).flatMap inMsgToStat).filterMap f := by
    intro f hf
    rw [List.filterMap_append, List.filterMap_append, List.filterMap_append]
    rw [filterMap_free f _ (fun m hm => hf m (hA m hm)), filterMap_free f _ (fun m hm => hf m (hV m hm))]
    rw [scanner_attr_filter f (fun m hs x hx => hf x (inMsg_noattr m hs x hx)), hS]
    cases hv : f (Stat.rdhVersion (bAt input 0)) <;> simp [List.filterMap_cons, hv]
  have e1 := fun ms => run_field Coll.runTrigger Stat.runTriggerOf o.cap (step_runTrigger o.cap) ms c0
  have e2 := fun ms => run_field Coll.dataFormat Stat.dataFormatOf o.cap (step_dataFormat o.cap) ms c0
  have e3 := fun ms => run_field Coll.rdhVersion Stat.rdhVersionOf o.cap (step_rdhVersion o.cap) ms c0
  have e4 := fun ms => run_field Coll.systemId Stat.systemIdOf o.cap (step_systemId o.cap) ms c0
  refine ⟨?_, ?_, ?_, ?_⟩
  · rw [e1, key Stat.runTriggerOf (fun m hm => (attrFree_none hm).1), hc0f.1]
    simp only [firstAttrs, List.flatMap_cons, List.flatMap_nil, inMsgToStat]
    split <;> simp [Stat.runTriggerOf, lastOr, List.filterMap_cons]
  · rw [e2, key Stat.dataFormatOf (fun m hm => (attrFree_none hm).2.1), hc0f.2.1]
    simp only [firstAttrs, List.flatMap_cons, List.flatMap_nil, inMsgToStat]
    split <;> simp [Stat.dataFormatOf, lastOr, List.filterMap_cons]
  · rw [e3, key Stat.rdhVersionOf (fun m hm => (attrFree_none hm).2.2.2), hc0f.2.2.1]
    simp only [firstAttrs, List.flatMap_cons, List.flatMap_nil, inMsgToStat]
    split <;> simp [Stat.rdhVersionOf, lastOr, List.filterMap_cons]
  · rw [e4, key Stat.systemIdOf (fun m hm => (attrFree_none hm).2.2.1), hc0f.2.2.2]
    simp only [firstAttrs, List.flatMap_cons, List.flatMap_nil, inMsgToStat]
    split <;> simp [Stat.systemIdOf, lastOr, List.filterMap_cons]


def _root_.FastPasta.Stat.errOf : Stat → Option Finding | .error f => some f | _ => none

theorem step_fatal_none (cap : Nat) (c : Coll) (m : Stat) (h : (c.step cap m).fatal = none) : c.fatal = none := by
  cases m <;> simp only [Coll.step] at h <;> (repeat' split at h) <;> simp_all

theorem run_fatal_none (cap : Nat) (ms : List Stat) : ∀ c : Coll, (Coll.run cap c ms).fatal = none → c.fatal = none := by
  induction ms with
  | nil => intro c h; exact h
  | cons m ms ih => intro c h; exact step_fatal_none cap c m (ih _ h)

theorem step_errors (cap : Nat) (c : Coll) (m : Stat) (hc : c.fatal = none) :
    (c.step cap m).errors = c.errors ++ m.errOf.toList ∧ (c.step cap m).total = c.total + m.errOf.toList.length := by
  cases m <;> simp only [Coll.step, Stat.errOf, hc] <;> (repeat' split) <;> simp_all

/-- **error accounting**: when no fatal message was issued, the collector holds exactly the error
    messages that were sent, in arrival order, and the total is their number -/
theorem run_errors_nofatal (cap : Nat) (ms : List Stat) : ∀ c : Coll, (Coll.run cap c ms).fatal = none →
    (Coll.run cap c ms).errors = c.errors ++ ms.filterMap Stat.errOf ∧
    (Coll.run cap c ms).total = c.total + (ms.filterMap Stat.errOf).length := by
  induction ms with
  | nil => intro c _; simp [Coll.run]
  | cons m ms ih =>
    intro c h
    have h' : (Coll.run cap (c.step cap m) ms).fatal = none := h
    have hc := step_fatal_none cap c m (run_fatal_none cap ms _ h')
    obtain ⟨e1, e2⟩ := step_errors cap c m hc
    obtain ⟨i1, i2⟩ := ih _ h'
    have : Coll.run cap c (m :: ms) = Coll.run cap (c.step cap m) ms := rfl
    rw [this, i1, i2, e1, e2]
    cases hm : m.errOf <;> simp [List.filterMap_cons, hm] <;> omega

theorem analysisBatch_noerr (sys : Nat) (b : List Packet) : ∀ m ∈ analysisBatch sys b, m.errOf = none := by
  intro m hm
  unfold analysisBatch at hm
  split at hm
  · simp only [List.mem_append, List.mem_flatMap, List.mem_singleton] at hm
    rcases hm with ⟨p, _, hm⟩ | rfl
    · rcases hm with rfl | hm
      · rfl
      · split at hm
        · simp only [List.mem_singleton] at hm; subst hm; rfl
        · simp at hm
    · rfl
  · split at hm
    · simp only [List.mem_singleton] at hm; subst hm; rfl
    · simp only [List.mem_cons, List.not_mem_nil, or_false] at hm
      rcases hm with rfl | rfl | rfl <;> rfl

theorem analysisMsgs_noerr (pk : List Packet) : ∀ m ∈ analysisMsgs pk, m.errOf = none := by
  intro m hm
  unfold analysisMsgs at hm
  split at hm
  · simp at hm
  · simp only [List.mem_flatMap] at hm
    obtain ⟨b, _, hm⟩ := hm
    exact analysisBatch_noerr _ b m hm

/-- **C14 (error totals)**: in a run without fatal message the reported error total is the number
    of findings the validators emitted plus the scanner's [E100]/[E101] messages plus the failed
    custom checks; the stored error list is those findings sorted stably by offset -/
theorem run_error_total (o : Opts) (input : Bytes) (out : Outcome) (h : run o input = .ok out) (hinit : out.initErr = false)
    (hnf : out.fin.coll.fatal = none) :
    ∃ vm : List Msg,
      let findings := (vm.map msgToStat).filterMap Stat.errOf ++ ((scanAll o.scanCfg input).msgs.flatMap inMsgToStat).filterMap Stat.errOf
      out.fin.errors = sortStable findings ∧
      out.fin.total = findings.length + out.fin.customErrors.length := by
  obtain ⟨vm, hfin⟩ := run_form o input out h hinit
  refine ⟨vm, ?_⟩
  rw [hfin] at hnf ⊢
  simp only [finalize] at hnf ⊢
  obtain ⟨e1, e2⟩ := run_errors_nofatal o.cap _ _ hnf
  have hA : (if (o.isCheck || o.isView) = true then analysisMsgs (scanAll o.scanCfg input).packets else []).filterMap Stat.errOf = [] := by
    apply filterMap_free
    intro m hm
    split at hm
    · exact analysisMsgs_noerr _ m hm
    · simp at hm
  have hc0 : ∀ c0 : Coll, c0 = (if (o.isCheck && o.target == Target.itsStave) = true then ({ alpide := some {} } : Coll) else {}) →
      c0.errors = [] ∧ c0.total = 0 := by
    intro c0 hc; subst hc; split <;> exact ⟨rfl, rfl⟩
  obtain ⟨z1, z2⟩ := hc0 _ rfl
  rw [e1, e2, z1, z2]
  simp only [List.filterMap_append, hA, List.nil_append, List.append_nil, List.filterMap_cons, Stat.errOf, List.filterMap_nil, Nat.zero_add]
  exact ⟨trivial, trivial⟩


/-! ### tie by translation: the per-bit trigger-type counters are the source's `TriggerStats::collect_stats`
    (`Spec/TrigSrcGen.lean`, translated from `stats_collector/trigger_stats.rs` on this run) -/
/-- if the source's 20 named counters hold the model's counts for the bits of `triggerBits` (all below 2^32 − 1), they still do after
    one more trigger type has been collected by both: which bit each named counter looks at, and the increment by exactly that bit -/
theorem trigger_counters_src (v : SrcTrig.TriggerStats) (c : Coll) (cap t : Nat)
    (h : SrcTie.trigCounters v = triggerBits.map c.trig) (hb : ∀ k ∈ triggerBits, c.trig k + 1 < 2^32) :
    SrcTie.trigCounters (v.collect_stats t).2 = triggerBits.map (Coll.step cap c (.triggerType t)).trig := by
  rw [SrcTie.collect_stats_eq, h]
  simp only [Coll.step, triggerBits, List.map_cons, List.map_nil, List.zipWith_cons_cons, List.zipWith_nil_right, List.cons.injEq, and_true]
  have hk : ∀ k ∈ triggerBits, (c.trig k + t / 2 ^ k % 2) % 2 ^ 32 = c.trig k + t / 2 ^ k % 2 := by
    intro k hk
    have := hb k hk
    have : t / 2 ^ k % 2 < 2 := Nat.mod_lt _ (by omega)
    exact Nat.mod_eq_of_lt (by omega)
  simp only [triggerBits, List.mem_cons, List.not_mem_nil, or_false, forall_eq_or_imp, forall_eq] at hk
  obtain ⟨h0, h1, h2, h3, h4, h5, h6, h7, h8, h9, h10, h11, h12, h13, h14, h27, h28, h29, h30, h31⟩ := hk
  exact ⟨h0, h1, h2, h3, h4, h5, h6, h7, h8, h9, h10, h11, h12, h13, h14, h27, h28, h29, h30, h31⟩


/-! ### tie by translation: the reader's statistics bookkeeping (`alice_protocol_reader/src/stats.rs` → `Spec/ReaderStatsSrcGen.lean`,
    translated on this run, the channel taken as a value) -/
/-- nothing is lost between the reader's accumulators and the messages it sends: links and FEE IDs are announced at their first
    occurrence exactly as `ScanSt.seeRdh` / `seeMsgs` do; for the payload sum and the two header counters, (values already sent) +
    (accumulator) grows by exactly what is added — for ANY accumulator value below 2^32, i.e. also across the `u32` boundary, where
    the payload sum used to wrap (F14); `flush_stats` sends the three accumulators -/
theorem reader_counters_src (st : SrcReaderStats.Stats) (s : ScanSt) (r : Rdh) (n : Nat)
    (hl : st.f_unique_links_observed = s.links) (hf : st.f_unique_feeids_observed = s.fees)
    (hacc : st.f_payload_size_seen < 2^32) (hn : n < 2^32) (hs : st.f_rdhs_seen < 2^32 - 1) (hfi : st.f_rdhs_filtered < 2^32 - 1) :
    (st.try_add_link r.linkId).2.f_unique_links_observed = (if s.links.contains r.linkId then s.links else s.links ++ [r.linkId]) ∧
    (st.try_add_fee_id r.feeId).2.f_unique_feeids_observed = (if s.fees.contains r.feeId then s.fees else s.fees ++ [r.feeId]) ∧
    (SrcTie.sent "PayloadSize" (st.add_payload_size n).2.f_out + (st.add_payload_size n).2.f_payload_size_seen =
      SrcTie.sent "PayloadSize" st.f_out + st.f_payload_size_seen + n ∧ (st.add_payload_size n).2.f_payload_size_seen < 2^32) ∧
    (SrcTie.sent "RDHSeen" (st.rdh_seen).2.f_out + (st.rdh_seen).2.f_rdhs_seen = SrcTie.sent "RDHSeen" st.f_out + st.f_rdhs_seen + 1 ∧
      (st.rdh_seen).2.f_rdhs_seen < 2^32 - 1) ∧
    (SrcTie.sent "RDHFiltered" (st.rdh_filtered).2.f_out + (st.rdh_filtered).2.f_rdhs_filtered =
      SrcTie.sent "RDHFiltered" st.f_out + st.f_rdhs_filtered + 1 ∧ (st.rdh_filtered).2.f_rdhs_filtered < 2^32 - 1) ∧
    (st.flush_stats).2.f_out = st.f_out ++ [Rs.Stat.mk "RDHSeen" st.f_rdhs_seen, Rs.Stat.mk "RDHFiltered" st.f_rdhs_filtered,
      Rs.Stat.mk "PayloadSize" st.f_payload_size_seen] :=
  ⟨by rw [(SrcTie.try_add_link_eq st r.linkId).1, hl], by rw [(SrcTie.try_add_fee_id_eq st r.feeId).1, hf],
   SrcTie.add_payload_size_sum st n hacc hn, SrcTie.rdh_seen_sum st hs, SrcTie.rdh_filtered_sum st hfi, SrcTie.flush_stats_eq st⟩

end C14
end FastPasta
