/-
  C17 — early stop is orderly.

  Over the thread/channel protocol model `Model.Threads` (any number of batches, any channel
  capacities ≥ 1, the stop flag raised by the environment at *any* moment — signal, fatal error,
  error cap):
  * `no_deadlock`: in every reachable state that is not "all threads finished" some thread can take
    a step — a blocked bounded send always has a live receiver that can progress, or all receivers
    are gone and the send fails;
  * `step_decreases` / `terminates_within`: every program step strictly decreases a natural-number
    measure that environment steps leave unchanged, so every execution reaches "all done" after at
    most `measure(init)` program steps, whenever and however often the stop flag is raised;
  * `writer_whole_packets`: the filtered output written up to any stop point is a concatenation of
    whole encoded packets of a prefix of the matching packets (the writer only ever appends whole
    batches and flushes whole (RDH, payload) pairs).
  Partial: OS signal delivery, the second-signal `process::exit`, partial `write` system calls and
  panics inside library calls on EPIPE are outside the model; the oracle delivers SIGINT/SIGTERM at
  random instants, closes stdout after random byte counts, plants fatal errors and error caps, and
  measures time to exit, exit status, panic text and the framing of the partial output file.
-/
import FastPasta.Model.Threads
import FastPasta.Model.Cli
namespace FastPasta
namespace C17

theorem init_inv (c : TCfg) (n : Nat) : TInv c (TState.init n) := by
  constructor <;> simp [TState.init]

theorem step_inv (c : TCfg) (s s' : TState) (h : TStep c s s') (hi : TInv c s) : TInv c s' := by
  obtain ⟨h1, h2, h3, h4, h4', h5, h6, h7, h8⟩ := hi
  cases h <;> constructor <;> simp_all

theorem env_inv (c : TCfg) (s s' : TState) (h : EnvStep s s') (hi : TInv c s) : TInv c s' := by
  obtain ⟨h1, h2, h3, h4, h4', h5, h6, h7, h8⟩ := hi
  cases h; constructor <;> simp_all

/-- every program step strictly decreases the measure -/
theorem step_decreases (c : TCfg) (s s' : TState) (h : TStep c s s') : s'.measure < s.measure := by
  cases h <;> simp_all [TState.measure, b2n] <;> omega

/-- raising the stop flag does not change the measure -/
theorem env_measure (s s' : TState) (h : EnvStep s s') : s'.measure = s.measure := by
  cases h; rfl

/-- **no deadlock**: in a reachable state where some thread is still running, some thread can step -/
theorem no_deadlock (c : TCfg) (hcap : c.cap > 0) (hvcap : c.vcap > 0) (s : TState) (hi : TInv c s)
    (hnd : s.allDone = false) : ∃ s', TStep c s s' := by
  obtain ⟨h1, h2, h3, h4, h4', h5, h6, h7, h8⟩ := hi
  -- 1. a validator with queued work can always process it
  by_cases hvw : s.vAlive = true ∧ s.vq > 0
  · exact ⟨_, TStep.vProc s hvw.1 hvw.2⟩
  have hvq0 : s.vAlive = true → s.vq = 0 := fun hv => by
    rcases Nat.eq_zero_or_pos s.vq with h | h
    · exact h
    · exact absurd ⟨hv, h⟩ hvw
  -- 2. a consumer holding a batch can hand it to a validator (its queue is empty, capacity ≥ 1)
  by_cases hh : s.holding = true
  · have hl := h2 hh
    have hv := (h3 hl).2.2
    exact ⟨_, TStep.aDispatch s hl hh (by rw [hvq0 hv]; exact hvcap)⟩
  have hh' : s.holding = false := by simpa using hh
  -- the consumer side, when it is not holding anything
  have consumer : s.aAlive = true → (s.stop = true ∨ s.q > 0 ∨ s.rAlive = false) → ∃ s', TStep c s s' := by
    intro ha hcond
    by_cases hl : s.aLoop = true
    · by_cases hs : s.stop = true
      · exact ⟨_, TStep.aEnd s hl hh' (Or.inl hs)⟩
      · by_cases hq : s.q > 0
        · exact ⟨_, TStep.aRecv s hl hh' (by simpa using hs) hq⟩
        · rcases hcond with h | h | h
          · exact absurd h hs
          · exact absurd h hq
          · exact ⟨_, TStep.aEnd s hl hh' (Or.inr ⟨by omega, h⟩)⟩
    · have hl' : s.aLoop = false := by simpa using hl
      by_cases hv : s.vAlive = true
      · exact ⟨_, TStep.vEnd s hv (h4' hl') (hvq0 hv)⟩
      · exact ⟨_, TStep.aExit s ha hl' (by simpa using hv)⟩
  by_cases hr : s.rAlive = true
  · by_cases hp : s.pending = true
    · by_cases ha : s.aAlive = true
      · by_cases hq : s.q < c.cap
        · exact ⟨_, TStep.rSend s hr hp ha hq⟩
        · exact consumer ha (Or.inr (Or.inl (by omega)))
      · exact ⟨_, TStep.rSendFail s hr hp (by simpa using ha)⟩
    · have hp' : s.pending = false := by simpa using hp
      by_cases hs : s.stop = true
      · exact ⟨_, TStep.rEnd s hr hp' (Or.inl hs)⟩
      · by_cases hin : s.input > 0
        · exact ⟨_, TStep.rRead s hr (by simpa using hs) hp' hin⟩
        · exact ⟨_, TStep.rEnd s hr hp' (Or.inr (by omega))⟩
  · have hr' : s.rAlive = false := by simpa using hr
    by_cases hf : s.fAlive = true
    · exact ⟨_, TStep.fEnd s hf hr'⟩
    · by_cases ha : s.aAlive = true
      · exact consumer ha (Or.inr (Or.inr hr'))
      · have ha' : s.aAlive = false := by simpa using ha
        have hv' : s.vAlive = false := (h6 ha').2
        by_cases hc : s.cAlive = true
        · exact ⟨_, TStep.cEnd s hc hr' ha' hv' (by simpa using hf)⟩
        · exfalso
          simp [TState.allDone, hr', ha', hv', hf, hc] at hnd

/-- executions: program steps interleaved with environment steps (the stop flag may be raised
    at any moment, any number of times) -/
inductive Exec (c : TCfg) : TState → Nat → TState → Prop
  | refl (s) : Exec c s 0 s
  | prog (s s' s'' n) : TStep c s s' → Exec c s' n s'' → Exec c s (n + 1) s''
  | env (s s' s'' n) : EnvStep s s' → Exec c s' n s'' → Exec c s n s''

/-- **bounded termination**: however the stop flag is raised, an execution contains at most
    `measure` program steps -/
theorem terminates_within (c : TCfg) (s s' : TState) (n : Nat) (h : Exec c s n s') : n + s'.measure ≤ s.measure := by
  induction h with
  | refl s => simp
  | prog s s1 s2 n hstep _ ih => have := step_decreases c s s1 hstep; omega
  | env s s1 s2 n henv _ ih => have := env_measure s s1 henv; omega

/-- reachable states satisfy the invariant -/
theorem exec_inv (c : TCfg) (s s' : TState) (n : Nat) (h : Exec c s n s') (hi : TInv c s) : TInv c s' := by
  induction h with
  | refl s => exact hi
  | prog s s1 s2 n hstep _ ih => exact ih (step_inv c s s1 hstep hi)
  | env s s1 s2 n henv _ ih => exact ih (env_inv c s s1 henv hi)

/-- **orderly stop**: from the initial state, after any execution (with the stop flag raised at any
    moments) the system is either finished or some thread can still step, and it can take at most
    `6·batches + 6` program steps in total -/
theorem orderly_stop (c : TCfg) (hcap : c.cap > 0) (hvcap : c.vcap > 0) (batches n : Nat) (s : TState)
    (h : Exec c (TState.init batches) n s) :
    (s.allDone = true ∨ ∃ s', TStep c s s') ∧ n ≤ 6 * batches + 6 := by
  constructor
  · by_cases hd : s.allDone = true
    · exact Or.inl hd
    · exact Or.inr (no_deadlock c hcap hvcap s (exec_inv c _ s n h (init_inv c batches)) (by simpa using hd))
  · have := terminates_within c _ s n h
    simp [TState.init, TState.measure, b2n] at this
    omega

/-! ### the hypothesis behind `rSendFail`, made explicit: every clone of the data receiver other than
    the consumer's is dropped.  If some other thread keeps one (e.g. `process()` holding
    `reader_data_recv` in one of its `match` arms until it has joined the reader), a blocked send never
    fails, and the model shows the deadlock — so the property needs that every arm drops its clone,
    which is what the full-queue scenarios of the C17 check exercise for every option combination. -/

/-- program steps when a receiver clone outlives the consumer: as `TStep`, but a blocked send is
    never released by disconnection -/
def LeakStep (c : TCfg) (s s' : TState) : Prop :=
  TStep c s s' ∧ ¬ (s.rAlive = true ∧ s.pending = true ∧ s.aAlive = false)

/-- a reachable state of the leaking variant in which nothing can move and not every thread is done
    (capacity 1: one batch queued, the reader holds the next, the stop flag made the consumer leave) -/
def stuck : TState :=
  { input := 0, stop := true, pending := true, rAlive := true, q := 1, holding := false, aLoop := false,
    aAlive := false, vq := 0, vClosed := true, vAlive := false, fAlive := true, cAlive := true }

theorem leaked_receiver_deadlocks :
    -- reachable from the initial state with two batches by steps that are also steps of the leaking variant …
    (∃ n, Exec ⟨1, 1⟩ (TState.init 2) n stuck) ∧
    -- … not finished, and no step of the leaking variant is enabled
    stuck.allDone = false ∧ ¬ ∃ s', LeakStep ⟨1, 1⟩ stuck s' := by
  refine ⟨⟨6, ?_⟩, by decide, ?_⟩
  · -- read, send, read, (stop), consumer leaves, validators end, consumer exits
    have h : ∃ s, Exec ⟨1, 1⟩ (TState.init 2) 6 s ∧ s = stuck :=
      ⟨_, .prog _ _ _ _ (TStep.rRead _ rfl rfl rfl (by decide))
          (.prog _ _ _ _ (TStep.rSend _ rfl rfl rfl (by decide))
            (.prog _ _ _ _ (TStep.rRead _ rfl rfl rfl (by decide))
              (.env _ _ _ _ (EnvStep.raiseStop _)
                (.prog _ _ _ _ (TStep.aEnd _ rfl rfl (Or.inl rfl))
                  (.prog _ _ _ _ (TStep.vEnd _ rfl rfl rfl)
                    (.prog _ _ _ _ (TStep.aExit _ rfl rfl rfl) (.refl _))))))), by decide⟩
    obtain ⟨s, hs, rfl⟩ := h
    exact hs
  · rintro ⟨s', hstep, hno⟩
    cases hstep <;> simp_all [stuck]

/-- with the clone dropped (the model of the code as it is) the same state is *not* stuck: the send
    fails and the reader ends -/
example : ∃ s', TStep ⟨1, 1⟩ stuck s' := ⟨_, TStep.rSendFail _ rfl rfl rfl⟩


/-! ### the filtered output consists of whole packets at every stop point -/

/-- the writer thread: receives batches; on a raised stop flag it leaves before pushing the batch
    it just received; what it pushed is flushed as whole (RDH, payload) pairs -/
def writerOutput (batches : List (List Packet)) (stopAfter : Nat) : Bytes :=
  ((batches.take stopAfter).flatten).flatMap encodePacket

theorem writer_whole_packets (batches : List (List Packet)) (stopAfter : Nat) :
    ∃ k, writerOutput batches stopAfter = (batches.flatten.take k).flatMap encodePacket := by
  refine ⟨((batches.take stopAfter).flatten).length, ?_⟩
  unfold writerOutput
  congr 1
  have h : batches.flatten = (batches.take stopAfter).flatten ++ (batches.drop stopAfter).flatten := by
    rw [← List.flatten_append, List.take_append_drop]
  rw [h, List.take_left']
  rfl

end C17
end FastPasta
