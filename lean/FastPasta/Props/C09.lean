/-
  C09 — ITS payload words are classified as the documented state machine says.

  `fsm_refines_diagram`: a simulation between the implementation's states and the documented
  diagram's configurations: from related states, every word that is legal in the diagram is
  classified as the diagram's word type and the successors are related; lifted to all finite
  word sequences by induction. `illegal_never_silent`: a word that is not legal in the diagram
  configuration is either classified as one of the three ambiguity errors (reported as
  E990/E991/E992 at that word) or handed to the sanity check of a word type whose identifier
  differs from the word's (reported as E30/E40 at that word). Finite core by kernel evaluation
  over 11 states × diagram configurations × 256 identifiers × both flags.
-/
import FastPasta.Model.Fsm
import FastPasta.Model.Cdp
import FastPasta.Spec.Diagram
import FastPasta.Proofs.FsmTable
import FastPasta.Proofs.FsmSrcTie
import FastPasta.Proofs.WordsSrcTie
namespace FastPasta
namespace C09
open DiagramGen

/-- **Refinement (one step)**: legal words are classified as the diagram's word type and the
    successor states are related. -/
theorem fsm_refines_diagram_step (s : FsmSt) (c : DCfg) (id : Nat) (hid : id < 256) (nd pd : Bool)
    (hR : R s c = true) (c' : DCfg) (hlegal : diagStep c id nd pd = some c') :
    classKind (fsmStep s id nd pd).2 = some (kindOfId id) ∧ R (fsmStep s id nd pd).1 c' = true := by
  have h := step_ok s c id hid nd pd
  unfold stepOk at h
  simp only [hR, Bool.not_true, Bool.false_or, hlegal, Bool.and_eq_true, beq_iff_eq] at h
  exact h

/-- **Illegal words are never silently accepted**: if the diagram has no transition for the
    word, the implementation classifies it as an ambiguity error (E990/E991/E992) or as a word
    type whose identifier it does not carry (so that type's sanity check reports E30/E40). -/
theorem illegal_never_silent (s : FsmSt) (c : DCfg) (id : Nat) (hid : id < 256) (nd pd : Bool)
    (hR : R s c = true) (hillegal : diagStep c id nd pd = none) :
    let cls := (fsmStep s id nd pd).2
    classKind cls = none ∨ (classKind cls = some .ihw ∧ id ≠ ID_IHW) ∨ (classKind cls = some .tdh ∧ id ≠ ID_TDH) := by
  have h := step_ok s c id hid nd pd
  unfold stepOk at h
  simp only [hR, Bool.not_true, Bool.false_or, hillegal] at h
  generalize (fsmStep s id nd pd).2 = cls at h
  cases cls <;> simp_all [classKind]

/-! ### lifting to word sequences -/

def fsmRun (s : FsmSt) : List (Nat × Bool × Bool) → FsmSt × List WordClass
  | [] => (s, [])
  | (id, nd, pd) :: ws =>
    let (s1, c) := fsmStep s id nd pd
    let (s2, cs) := fsmRun s1 ws
    (s2, c :: cs)

def diagRun (c : DCfg) : List (Nat × Bool × Bool) → Option (DCfg × List Kind)
  | [] => some (c, [])
  | (id, nd, pd) :: ws =>
    match diagStep c id nd pd with
    | none => none
    | some c1 =>
      match diagRun c1 ws with
      | none => none
      | some (c2, ks) => some (c2, kindOfId id :: ks)

/-- **Refinement (all finite word sequences)**: if the documented diagram accepts the sequence,
    the implementation classifies every word as the diagram's word type and ends in a related
    state. -/
theorem fsm_refines_diagram (ws : List (Nat × Bool × Bool)) (hws : ∀ w ∈ ws, w.1 < 256) :
    ∀ (s : FsmSt) (c : DCfg), R s c = true → ∀ c' ks, diagRun c ws = some (c', ks) →
      (fsmRun s ws).2.map classKind = ks.map some ∧ R (fsmRun s ws).1 c' = true := by
  induction ws with
  | nil =>
    intro s c hR c' ks h
    simp only [diagRun, Option.some.injEq, Prod.mk.injEq] at h
    obtain ⟨rfl, rfl⟩ := h
    simp [fsmRun, hR]
  | cons w ws ih =>
    obtain ⟨id, nd, pd⟩ := w
    intro s c hR c' ks h
    have hid : id < 256 := hws (id, nd, pd) (by simp)
    simp only [diagRun] at h
    cases h1 : diagStep c id nd pd with
    | none => simp [h1] at h
    | some c1 =>
      simp only [h1] at h
      cases h2 : diagRun c1 ws with
      | none => simp [h2] at h
      | some r =>
        obtain ⟨c2, ks'⟩ := r
        simp only [h2, Option.some.injEq, Prod.mk.injEq] at h
        obtain ⟨rfl, rfl⟩ := h
        have hstep := fsm_refines_diagram_step s c id hid nd pd hR c1 h1
        have := ih (fun w hw => hws w (by simp [hw])) (fsmStep s id nd pd).1 c1 hstep.2 c2 ks' h2
        simp only [fsmRun, List.map_cons, hstep.1, this.1, this.2, and_self]

/-- the start states are related -/
theorem start_related : R .initialIhw diagStart = true := by decide

/-! ### every implementation state is reachable, every edge is taken -/

/-- each of the 11 states is reached from the initial state by a word sequence the diagram accepts -/
theorem reachable_states : ∀ s ∈ FsmSt.all, ∃ ws : List (Nat × Bool × Bool),
    (fsmRun .initialIhw ws).1 = s ∧ (diagRun diagStart ws).isSome = true := by
  intro s hs
  simp only [FsmSt.all, List.mem_cons, List.not_mem_nil, or_false] at hs
  rcases hs with rfl | rfl | rfl | rfl | rfl | rfl | rfl | rfl | rfl | rfl | rfl
  · exact ⟨[], by decide⟩
  · exact ⟨[(0xE0, false, false)], by decide⟩
  · exact ⟨[(0xE0, false, false), (0xE8, true, false)], by decide⟩
  · exact ⟨[(0xE0, false, false), (0xE8, false, false)], by decide⟩
  · exact ⟨[(0xE0, false, false), (0xE8, false, false), (0x20, false, false)], by decide⟩
  · exact ⟨[(0xE0, false, false), (0xE8, false, false), (0xF0, false, false)], by decide⟩
  · exact ⟨[(0xE0, false, false), (0xE8, false, false), (0xF0, false, false), (0xE0, false, false)], by decide⟩
  · exact ⟨[(0xE0, false, false), (0xE8, false, false), (0xF0, false, false), (0xE0, false, false),
            (0xE8, false, false)], by decide⟩
  · exact ⟨[(0xE0, false, false), (0xE8, false, false), (0xF0, false, false), (0xE0, false, false),
            (0xE8, false, false), (0x20, false, false)], by decide⟩
  · exact ⟨[(0xE0, false, false), (0xE8, false, false), (0xF0, false, true)], by decide⟩
  · exact ⟨[(0xE0, false, false), (0xE8, true, false), (0xE4, false, false)], by decide⟩

/-! ### the ambiguity errors and ID mismatches are reported at the word (link to `checkWord`) -/

/-- whatever the state, a word classified as an ambiguity error yields the E99x finding at that
    word's offset (packet offset + 64 + index × slot), quoting the word -/
theorem ambiguity_reported (cfg : CheckCfg) (s : CdpSt) (w : Bytes)
    (hcls : classKind (fsmAdvance s.fsm w).2 = none) :
    match checkWord cfg s w with
    | .ok (_, ms) => ∃ f, Msg.error f ∈ ms ∧ f.offset = s.payloadPos + s.wordCount * s.slot ∧
        f.word = some w ∧ (f.code = "E990" ∨ f.code = "E991" ∨ f.code = "E992")
    | .error _ => True := by
  rcases hadv : fsmAdvance s.fsm w with ⟨st', cls⟩
  rw [hadv] at hcls
  cases cls <;> simp only [classKind, reduceCtorEq] at hcls
  · -- errTdhOrDdw0
    simp only [checkWord, hadv]
    exact ⟨_, List.mem_cons_self, by simp [CdpSt.wordPos], rfl, Or.inl rfl⟩
  · -- errDwOrTdtCdw
    simp only [checkWord, hadv]
    cases hp : preData cfg { s with wordCount := s.wordCount + 1, fsm := st' } w with
    | error e => trivial
    | ok r =>
      obtain ⟨s', m⟩ := r
      exact ⟨_, List.mem_cons_self, by simp [CdpSt.wordPos], rfl, Or.inr (Or.inl rfl)⟩
  · -- errDdw0OrTdhIhw
    simp only [checkWord, hadv]
    exact ⟨_, List.mem_cons_self, by simp [CdpSt.wordPos], rfl, Or.inr (Or.inr rfl)⟩

/-- **model = translated source, including the two flag bits**: the word-level step of the model is the source's `advance`
    applied to the identifier byte and to the source's own `tdh_no_data` / `tdt_packet_done` predicates
    (`Spec/WordsSrcGen.lean`, translated from `status_words/util.rs` on this run) -/
theorem fsmAdvance_eq_src_flags (s : FsmSt) (w : Bytes) :
    fsmAdvance s w = SrcFsm.step s (wordId w) (SrcWords.tdh_no_data w) (SrcWords.tdt_packet_done w) := by
  rw [SrcTie.tdh_no_data_eq, SrcTie.tdt_packet_done_eq]; exact fsmAdvance_eq_src s w

end C09
end FastPasta
