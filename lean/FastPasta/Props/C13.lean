/-
  C13 — stave-level ALPIDE frame checks are exact and ignore hit content.

  `decode_encode`: for every lane produced by the independent encoder (any chips, bunch counters,
  readout flags, any number of regions, arbitrary short/long hit words, BUSY words, idle bytes) the
  byte-wise decoder recovers exactly the chip list and the readout-flag counters — by induction
  over the event list with the invariant "nothing pending at event boundaries"
  (`skip = 0 ∧ ¬ next_is_bc ∧ ¬ header_seen`); this is where a hit byte mistaken for a chip header
  would break the proof. `hits_irrelevant`: lanes with the same skeleton give the same decoded
  state, hence the same verdict and statistics. `lane_count_iff`: the lane-count / grouping rule.
-/
import FastPasta.Spec.AlpideEnc
import FastPasta.Proofs.AlpStatsSrcTie
import FastPasta.Model.Cdp
import FastPasta.Proofs.AlpideSrcTie
namespace FastPasta
namespace C13

def decodeFrom (d : LaneDec) (bs : Bytes) : LaneDec := bs.foldl (fun d b => d.step b.toNat) d

theorem decodeFrom_append (d : LaneDec) (a b : Bytes) : decodeFrom d (a ++ b) = decodeFrom (decodeFrom d a) b := by
  simp [decodeFrom, List.foldl_append]

/-- nothing pending -/
def Quiet (d : LaneDec) : Prop := d.skip = 0 ∧ d.nextIsBc = false ∧ d.headerSeen = false
/-- inside a chip frame, nothing pending -/
def InChip (d : LaneDec) : Prop := d.skip = 0 ∧ d.nextIsBc = false ∧ d.headerSeen = true

theorem ofNat_toNat (n : Nat) (h : n < 256) : (UInt8.ofNat n).toNat = n := by
  simp [UInt8.toNat_ofNat, Nat.mod_eq_of_lt h]

theorem hit_skipped (d : LaneDec) (hd : InChip d) (h : Hit) (hv : h.Valid) : decodeFrom d h.bytes = d := by
  obtain ⟨h1, h2, h3⟩ := hd
  cases h with
  | short b0 b1 =>
    have hb := b0.toNat_lt
    simp only [Hit.Valid] at hv
    have hw : alpideWord b0.toNat = .dataShort := by simp [alpideWord, hv]
    have hz : ¬ b0.toNat = 0 := by omega
    simp [decodeFrom, Hit.bytes, LaneDec.step, h1, h2, h3, hw]
    cases d; simp_all
  | long b0 b1 b2 =>
    simp only [Hit.Valid] at hv
    have hw : alpideWord b0.toNat = .dataLong := by
      have : ¬ b0.toNat / 64 = 1 := by omega
      simp [alpideWord, hv]
    simp [decodeFrom, Hit.bytes, LaneDec.step, h1, h2, h3, hw]
    cases d; simp_all

theorem hits_skipped (d : LaneDec) (hd : InChip d) (hs : List Hit) (hv : ∀ h ∈ hs, h.Valid) :
    decodeFrom d (hs.flatMap Hit.bytes) = d := by
  induction hs with
  | nil => rfl
  | cons h hs ih =>
    simp only [List.flatMap_cons, decodeFrom_append]
    rw [hit_skipped d hd h (hv h (by simp))]
    exact ih (fun x hx => hv x (by simp [hx]))

theorem region_skipped (d : LaneDec) (hd : InChip d) (r : Region) (hid : r.id < 32) (hv : ∀ h ∈ r.hits, h.Valid) :
    decodeFrom d r.bytes = d := by
  obtain ⟨h1, h2, h3⟩ := hd
  have hn : (UInt8.ofNat (0xC0 + r.id)).toNat = 0xC0 + r.id := ofNat_toNat _ (by omega)
  have hw : alpideWord (0xC0 + r.id) = .regionHeader := by
    have a1 : ¬ (0xC0 + r.id) / 64 = 1 := by omega
    have a2 : ¬ (0xC0 + r.id) / 64 = 0 := by omega
    have a3 : (0xC0 + r.id) / 32 = 6 := by omega
    simp [alpideWord, a1, a2, a3]
  have hstep : d.step (0xC0 + r.id) = d := by
    simp [LaneDec.step, h1, h2, h3, hw]
    cases d; simp_all
  unfold Region.bytes
  rw [show UInt8.ofNat (0xC0 + r.id) :: r.hits.flatMap Hit.bytes = [UInt8.ofNat (0xC0 + r.id)] ++ r.hits.flatMap Hit.bytes from rfl,
    decodeFrom_append]
  have : decodeFrom d [UInt8.ofNat (0xC0 + r.id)] = d := by
    simp only [decodeFrom, List.foldl_cons, List.foldl_nil, hn, hstep]
  rw [this]
  exact hits_skipped d ⟨h1, h2, h3⟩ r.hits hv

theorem regions_skipped (d : LaneDec) (hd : InChip d) (rs : List Region)
    (hv : ∀ r ∈ rs, r.id < 32 ∧ ∀ h ∈ r.hits, h.Valid) : decodeFrom d (rs.flatMap Region.bytes) = d := by
  induction rs with
  | nil => rfl
  | cons r rs ih =>
    simp only [List.flatMap_cons, decodeFrom_append]
    rw [region_skipped d hd r (hv r (by simp)).1 (hv r (by simp)).2]
    exact ih (fun x hx => hv x (by simp [hx]))

theorem idle_skipped (d : LaneDec) (hd : Quiet d) (n : Nat) : decodeFrom d (List.replicate n 0x00) = d := by
  obtain ⟨h1, h2, h3⟩ := hd
  induction n with
  | zero => rfl
  | succ n ih =>
    simp only [List.replicate_succ, decodeFrom, List.foldl_cons]
    have : d.step (0x00 : UInt8).toNat = d := by simp [LaneDec.step, h1, h2, h3]
    rw [this]; exact ih

/-- one event: from a quiet state the decoder ends in the quiet state the event *means* -/
theorem event_decoded (d : LaneDec) (hd : Quiet d) (e : Event) (hv : e.Valid) :
    decodeFrom d e.bytes = e.apply d ∧ Quiet (e.apply d) := by
  obtain ⟨h1, h2, h3⟩ := hd
  cases e with
  | idle n => exact ⟨idle_skipped d ⟨h1, h2, h3⟩ n, h1, h2, h3⟩
  | busyOn =>
    refine ⟨?_, h1, h2, h3⟩
    simp [decodeFrom, Event.bytes, Event.apply, LaneDec.step, h1, h2, h3, alpideWord]
  | busyOff =>
    refine ⟨?_, h1, h2, h3⟩
    simp [decodeFrom, Event.bytes, Event.apply, LaneDec.step, h1, h2, h3, alpideWord]
  | empty id bc =>
    simp only [Event.Valid] at hv
    have hn : (UInt8.ofNat (0xE0 + id)).toNat = 0xE0 + id := ofNat_toNat _ (by omega)
    have hw : alpideWord (0xE0 + id) = .chipEmptyFrame := by
      have a1 : ¬ (0xE0 + id) / 64 = 1 := by omega
      have a2 : ¬ (0xE0 + id) / 64 = 0 := by omega
      have a3 : ¬ (0xE0 + id) / 32 = 6 := by omega
      have a4 : (0xE0 + id) / 16 = 0xE := by omega
      simp [alpideWord, a1, a2, a3, a4]
    have hz : ¬ (0xE0 + id = 0) := by omega
    have hmod : (0xE0 + id) % 16 = id := by omega
    simp only [decodeFrom, Event.bytes, List.foldl_cons, List.foldl_nil, hn, Event.apply]
    by_cases hc : d.chips.any (·.1 == id) = true
    · simp [LaneDec.step, h1, h2, h3, hw, hz, hmod, hc, Quiet]
    · simp [LaneDec.step, h1, h2, h3, hw, hz, hmod, hc, Quiet]
  | chip id bc flags regions =>
    simp only [Event.Valid] at hv
    obtain ⟨hid, hfl, hreg⟩ := hv
    have hn : (UInt8.ofNat (0xA0 + id)).toNat = 0xA0 + id := ofNat_toNat _ (by omega)
    have hnt : (UInt8.ofNat (0xB0 + flags)).toNat = 0xB0 + flags := ofNat_toNat _ (by omega)
    have hw : alpideWord (0xA0 + id) = .chipHeader := by
      have a1 : ¬ (0xA0 + id) / 64 = 1 := by omega
      have a2 : ¬ (0xA0 + id) / 64 = 0 := by omega
      have a3 : ¬ (0xA0 + id) / 32 = 6 := by omega
      have a4 : ¬ (0xA0 + id) / 16 = 0xE := by omega
      have a5 : (0xA0 + id) / 16 = 0xA := by omega
      simp [alpideWord, a1, a2, a3, a4, a5]
    have hwt : alpideWord (0xB0 + flags) = .chipTrailer := by
      have a1 : ¬ (0xB0 + flags) / 64 = 1 := by omega
      have a2 : ¬ (0xB0 + flags) / 64 = 0 := by omega
      have a3 : ¬ (0xB0 + flags) / 32 = 6 := by omega
      have a4 : ¬ (0xB0 + flags) / 16 = 0xE := by omega
      have a5 : ¬ (0xB0 + flags) / 16 = 0xA := by omega
      have a6 : (0xB0 + flags) / 16 = 0xB := by omega
      simp [alpideWord, a1, a2, a3, a4, a5, a6]
    have hz : ¬ (0xA0 + id = 0) := by omega
    have hmod : (0xA0 + id) % 16 = id := by omega
    simp only [Event.bytes, decodeFrom_append]
    -- header + bunch counter byte
    have hhead : decodeFrom d [UInt8.ofNat (0xA0 + id), bc] =
        (if d.chips.any (·.1 == id) then { d with bcErr := true, lastChip := id, headerSeen := true }
         else { d with chips := d.chips ++ [(id, bc.toNat)], lastChip := id, headerSeen := true }) := by
      simp only [decodeFrom, List.foldl_cons, List.foldl_nil, hn]
      by_cases hc : d.chips.any (·.1 == id) = true
      · simp [LaneDec.step, h1, h2, h3, hw, hz, hmod, hc]
      · simp [LaneDec.step, h1, h2, h3, hw, hz, hmod, hc]
    rw [hhead]
    have key : ∀ d' : LaneDec, InChip d' →
        decodeFrom (decodeFrom d' (regions.flatMap Region.bytes)) [UInt8.ofNat (0xB0 + flags)] =
          { d' with headerSeen := false, stats := d'.stats.logTrailer (0xB0 + flags) } := by
      intro d' hd'
      rw [regions_skipped d' hd' regions hreg]
      obtain ⟨k1, k2, k3⟩ := hd'
      simp only [decodeFrom, List.foldl_cons, List.foldl_nil, hnt]
      simp [LaneDec.step, k1, k2, hwt]
    by_cases hc : d.chips.any (·.1 == id) = true
    · simp only [hc, ↓reduceIte]
      have hin : InChip { d with bcErr := true, lastChip := id, headerSeen := true } := ⟨h1, h2, rfl⟩
      rw [key _ hin]
      simp [Event.apply, hc, Quiet, h1, h2, h3]
    · simp only [hc, Bool.false_eq_true, ↓reduceIte]
      have hin : InChip { d with chips := d.chips ++ [(id, bc.toNat)], lastChip := id, headerSeen := true } := ⟨h1, h2, rfl⟩
      rw [key _ hin]
      simp [Event.apply, hc, Quiet, h1, h2, h3]

/-- **decode ∘ encode**: the decoder recovers exactly the meaning of every encoded lane -/
theorem decode_encode_from (evs : List Event) : ∀ (d : LaneDec), Quiet d → (∀ e ∈ evs, e.Valid) →
    decodeFrom d (encodeLane evs) = evs.foldl Event.apply d ∧ Quiet (evs.foldl Event.apply d) := by
  induction evs with
  | nil => intro d hd _; exact ⟨rfl, hd⟩
  | cons e es ih =>
    intro d hd hv
    obtain ⟨h1, h2⟩ := event_decoded d hd e (hv e (by simp))
    simp only [encodeLane, List.flatMap_cons, decodeFrom_append, h1, List.foldl_cons]
    exact ih _ h2 (fun x hx => hv x (by simp [hx]))

theorem decode_encode (evs : List Event) (hv : ∀ e ∈ evs, e.Valid) :
    decodeLane (encodeLane evs) = evs.foldl Event.apply {} :=
  (decode_encode_from evs {} ⟨rfl, rfl, rfl⟩ hv).1

/-- lanes with the same skeleton, event by event -/
def sameSkel : List Event → List Event → Prop
  | [], [] => True
  | x :: xs, y :: ys => x.sameSkeleton y ∧ sameSkel xs ys
  | _, _ => False

/-- the meaning of a lane depends only on its skeleton … -/
theorem apply_skeleton : ∀ (a b : List Event), sameSkel a b →
    ∀ d, a.foldl Event.apply d = b.foldl Event.apply d
  | [], [], _ => fun _ => rfl
  | x :: xs, y :: ys, h => by
    intro d
    obtain ⟨hab, hrest⟩ := h
    simp only [List.foldl_cons]
    have : x.apply d = y.apply d := by
      cases x <;> cases y <;> simp only [Event.sameSkeleton] at hab
      · obtain ⟨rfl, rfl, rfl⟩ := hab; rfl
      · obtain ⟨rfl, rfl⟩ := hab; rfl
      all_goals rfl
    rw [this]; exact apply_skeleton xs ys hrest _
  | [], _ :: _, h => by simp [sameSkel] at h
  | _ :: _, [], h => by simp [sameSkel] at h

/-- … **hence verdict and statistics do not depend on pixel-hit content**: two lanes with the
    same skeleton decode to the same state (chips, flags counters, fatal/error marks), so every
    check computed from it — `laneVerdict`, `checkAlpideFrame`, the statistics — is the same -/
theorem hits_irrelevant (a b : List Event) (ha : ∀ e ∈ a, e.Valid) (hb : ∀ e ∈ b, e.Valid)
    (h : sameSkel a b) :
    decodeLane (encodeLane a) = decodeLane (encodeLane b) := by
  rw [decode_encode a ha, decode_encode b hb, apply_skeleton a b h]

/-- lane-count rule for the outer barrels (no lane has announced a fatal state): exactly 8
    (middle) / 14 (outer) lanes -/
theorem lane_count_iff_ml (fs : LaneFrames) :
    frameLanesValid .middle fs none = decide (fs.length = 8) := by
  unfold frameLanesValid expectedLanes
  by_cases h : fs.length = 8 <;> simp [h]
theorem lane_count_iff_ol (fs : LaneFrames) :
    frameLanesValid .outer fs none = decide (fs.length = 14) := by
  unfold frameLanesValid expectedLanes
  by_cases h : fs.length = 14 <;> simp [h]

/-- inner barrel, no fatal lanes: 3 lanes forming one of the fixed groups -/
theorem lane_count_iff_ib (fs : LaneFrames) :
    frameLanesValid .inner fs none = (decide (fs.length = 3) &&
      (sortNat (fs.map (fun f => ibLane f.1)) == [0, 1, 2] || sortNat (fs.map (fun f => ibLane f.1)) == [3, 4, 5] ||
       sortNat (fs.map (fun f => ibLane f.1)) == [6, 7, 8])) := by
  unfold frameLanesValid expectedLanes
  by_cases h : fs.length = 3
  · simp [h]
  · simp [h]

/-! ### non-vacuity: a chip frame with arbitrary hits, a BUSY word, idle bytes and an empty frame -/
example : (decodeLane (encodeLane [.chip 3 0x55 4 [⟨7, [.short 0x5A 0xA0, .long 0x3F 0xB0 0x7F, .short 0x40 0xE0]⟩],
    .busyOn, .idle 2, .empty 4 0x55])).chips = [(3, 0x55), (4, 0x55)] := by decide

/-! ### the frame verdict in closed form -/

/-- verdict of every lane of a frame, with its lane number -/
def verdicts (cfg : AlpideCfg) (barrel : Barrel) (fs : LaneFrames) : List (Nat × LaneVerdict) :=
  fs.map (fun f => (laneNumber barrel f.1, laneVerdict cfg barrel (laneNumber barrel f.1) (decodeLane f.2)))

def isErr : LaneVerdict → Bool | .error _ => true | _ => false
def fatalLanesOf (vs : List (Nat × LaneVerdict)) : List Nat :=
  vs.filterMap (fun v => match v.2 with | .fatal => some v.1 | _ => none)
def validBcsOf (vs : List (Nat × LaneVerdict)) : List (Nat × Nat) :=
  vs.filterMap (fun v => match v.2 with | .valid bc => some (v.1, bc) | _ => none)

theorem errCount_cons (v : Nat × LaneVerdict) (vs : List (Nat × LaneVerdict)) :
    ((v :: vs).filter (fun v => isErr v.2)).length = (if isErr v.2 then 1 else 0) + (vs.filter (fun v => isErr v.2)).length := by
  simp only [List.filter_cons]
  split <;> simp <;> omega
theorem validBcsOf_cons (v : Nat × LaneVerdict) (vs : List (Nat × LaneVerdict)) :
    validBcsOf (v :: vs) = (match v.2 with | .valid bc => [(v.1, bc)] | _ => []) ++ validBcsOf vs := by
  obtain ⟨n, vd⟩ := v
  cases vd <;> simp [validBcsOf, List.filterMap_cons]
theorem fatalLanesOf_cons (v : Nat × LaneVerdict) (vs : List (Nat × LaneVerdict)) :
    fatalLanesOf (v :: vs) = (match v.2 with | .fatal => [v.1] | _ => []) ++ fatalLanesOf vs := by
  obtain ⟨n, vd⟩ := v
  cases vd <;> simp [fatalLanesOf, List.filterMap_cons]
theorem verdicts_cons (cfg : AlpideCfg) (barrel : Barrel) (id : Nat) (data : Bytes) (fs : LaneFrames) :
    verdicts cfg barrel ((id, data) :: fs) =
      (laneNumber barrel id, laneVerdict cfg barrel (laneNumber barrel id) (decodeLane data)) :: verdicts cfg barrel fs := rfl

theorem go_spec (cfg : AlpideCfg) (barrel : Barrel) (fs : LaneFrames) :
    ∀ (errIds : List Nat) (nErr : Nat) (codes : List String) (st : AlpideStats) (fatal : List Nat) (valid : List (Nat × Nat)),
      (checkAlpideFrame.go cfg barrel fs errIds nErr codes st fatal valid).laneErrorCount =
        nErr + ((verdicts cfg barrel fs).filter (fun v => isErr v.2)).length +
          (if (dedupNat ((valid ++ validBcsOf (verdicts cfg barrel fs)).map (·.2))).length > 1 then 1 else 0) ∧
      (checkAlpideFrame.go cfg barrel fs errIds nErr codes st fatal valid).newFatal =
        fatal ++ fatalLanesOf (verdicts cfg barrel fs) := by
  induction fs with
  | nil =>
    intro errIds nErr codes st fatal valid
    have hv : verdicts cfg barrel [] = [] := rfl
    have h1 : validBcsOf [] = [] := rfl
    have h2 : fatalLanesOf [] = [] := rfl
    simp only [checkAlpideFrame.go, hv, h1, h2, List.filter_nil, List.length_nil, Nat.add_zero, List.append_nil]
    split <;> simp
  | cons f fs ih =>
    intro errIds nErr codes st fatal valid
    obtain ⟨id, data⟩ := f
    rw [verdicts_cons, errCount_cons, validBcsOf_cons, fatalLanesOf_cons]
    simp only [checkAlpideFrame.go]
    cases hv : laneVerdict cfg barrel (laneNumber barrel id) (decodeLane data) with
    | error cs =>
      obtain ⟨h1, h2⟩ := ih (errIds ++ [laneNumber barrel id]) (nErr + 1) (codes ++ cs) (st.add (decodeLane data).stats) fatal valid
      simp only [h1, h2, isErr, ↓reduceIte, List.nil_append]
      exact ⟨by omega, trivial⟩
    | fatal =>
      obtain ⟨h1, h2⟩ := ih errIds nErr codes (st.add (decodeLane data).stats) (fatal ++ [laneNumber barrel id]) valid
      simp only [h1, h2, isErr, Bool.false_eq_true, ↓reduceIte, List.nil_append, Nat.zero_add, List.append_assoc, List.singleton_append]
      exact ⟨trivial, trivial⟩
    | valid bc =>
      obtain ⟨h1, h2⟩ := ih errIds nErr codes (st.add (decodeLane data).stats) fatal (valid ++ [(laneNumber barrel id, bc)])
      simp only [h1, h2, isErr, Bool.false_eq_true, ↓reduceIte, List.nil_append, Nat.zero_add, List.append_assoc, List.singleton_append]
      exact ⟨trivial, trivial⟩

/-- **C13 (frame verdict, exact)**: the number of lane-error messages of a frame is the number of
    lanes with an error verdict, plus one iff the error-free lanes do not all carry the same bunch
    counter; the lanes newly marked fatal are exactly the lanes with a fatal verdict — whatever
    the pixel-hit content (`hits_irrelevant`) -/
theorem frame_verdict_exact (cfg : AlpideCfg) (barrel : Barrel) (fs : LaneFrames) :
    (checkAlpideFrame cfg barrel fs).laneErrorCount =
      ((verdicts cfg barrel fs).filter (fun v => isErr v.2)).length +
        (if (dedupNat ((validBcsOf (verdicts cfg barrel fs)).map (·.2))).length > 1 then 1 else 0) ∧
    (checkAlpideFrame cfg barrel fs).newFatal = fatalLanesOf (verdicts cfg barrel fs) := by
  have := go_spec cfg barrel fs [] 0 [] {} [] []
  simpa [checkAlpideFrame] using this


/-- tie by translation (`Spec/AlpStatsSrcGen.lean`, from `stats_collector/its_stats/alpide_stats.rs` on this run): the readout-flag
    counters the property speaks about are the source's own — what `log_readout_flags` does with a chip-trailer byte is
    `AlpideStats.logTrailer` (trailers seen; busy violation 0xB8, data overrun 0xBC, transmission in fatal 0xBE as exact values,
    otherwise the three flag bits), and the collector's `sum` is `AlpideStats.add`; both below the `u32` wrap -/
theorem readout_flags_src (a : SrcAlpStats.AlpideStats) (b : Nat) (hs : SrcTie.StatsSmall (SrcTie.statsOf a)) :
    SrcTie.statsOf (a.log_readout_flags b).2 = (SrcTie.statsOf a).logTrailer b :=
  SrcTie.log_flags_eq a b hs

end C13
end FastPasta
