/-
  C16 — exit status and error accounting follow the documented contract.

  * `exit_contract`: case analysis of the exit status of a run that got past option parsing:
    1 for a failed initialisation (unreadable / unrecognisable input), otherwise N iff an
    any-errors code N is configured and an error, a fatal input error, a custom-check failure or a
    statistics mismatch was recorded, otherwise 0.
  * `code_filter_exact`: the character-level `-w` matcher accepts a rendered message
    `<prefix without '['>[E<code>]<rest>` for a filter entry iff the entry *equals* the code —
    also when one is a prefix of the other — so exactly the messages with the listed codes are
    shown; messages without a code (fatal text, padding error) are never shown under `-w`.
  * `total_eq_shown`, `mute_only_display`, `cap_bound`: the display options change only what is
    displayed, never the total; without display options every counted error is shown.
  * `rejected_before_output` is structural in the implementation (`init_config` returns before any
    thread, reader or output file exists); the model mirrors it by `Opts.valid` being checked
    before `run`. Tied by the CLI oracle (no output or statistics file after a rejected command line).
-/
import FastPasta.Model.Cli
import FastPasta.Model.ErrPrinter
namespace FastPasta
namespace C16

/-- something was reported -/
def Reported (fin : Final) (mismatch : Bool) : Prop :=
  fin.total > 0 ∨ fin.coll.fatal.isSome = true ∨ mismatch = true

theorem exit_contract (initErr : Bool) (code : Option Nat) (fin : Final) (mismatch : Bool) :
    (initErr = true → exitCode initErr code fin mismatch = 1) ∧
    (initErr = false → ∀ n, code = some n → Reported fin mismatch → exitCode initErr code fin mismatch = n) ∧
    (initErr = false → ∀ n, code = some n → ¬ Reported fin mismatch → exitCode initErr code fin mismatch = 0) ∧
    (initErr = false → code = none → exitCode initErr code fin mismatch = 0) := by
  unfold exitCode Reported
  refine ⟨?_, ?_, ?_, ?_⟩
  · intro h; simp [h]
  · intro h n hc hr
    simp only [h, Bool.false_eq_true, ↓reduceIte, hc]
    rcases hr with hr | hr | hr <;> simp [hr]
  · intro h n hc hr
    simp only [h, Bool.false_eq_true, ↓reduceIte, hc]
    simp only [not_or] at hr
    obtain ⟨h1, h2, h3⟩ := hr
    have h1' : ¬ fin.total > 0 := h1
    simp [h1', h2, h3]
  · intro h hc; simp [h, hc]

/-- the exit status is one of 0, 1 or the configured any-errors code -/
theorem exit_in_range (initErr : Bool) (code : Option Nat) (fin : Final) (mismatch : Bool) :
    exitCode initErr code fin mismatch = 0 ∨ exitCode initErr code fin mismatch = 1 ∨
    code = some (exitCode initErr code fin mismatch) := by
  unfold exitCode
  cases initErr with
  | true => simp
  | false =>
    cases code with
    | none => simp
    | some n =>
      simp only [Bool.false_eq_true, ↓reduceIte]
      split
      · right; right; rfl
      · left; rfl

/-- a run of the model: initialisation failure ⇒ 1; otherwise the contract above with the final
    collector state -/
theorem run_exit (o : Opts) (input : Bytes) (out : Outcome) (h : run o input = .ok out) :
    (out.initErr = true ∧ out.exit = 1) ∨ (out.initErr = false ∧ out.exit = exitCode false o.anyErrCode out.fin false) := by
  unfold run at h
  split at h
  · simp only [Except.ok.injEq] at h; subst h; exact Or.inl ⟨rfl, rfl⟩
  · simp only at h
    generalize (if o.isCheck = true then
        match runValidators o.checkCfg [] (scanAll o.scanCfg input).packets with
        | Except.error e => Except.error e
        | Except.ok d => Except.ok (List.map msgToStat d.allMsgs)
      else Except.ok []) = vres at h
    cases vres with
    | error e => cases h
    | ok v => simp only [Except.ok.injEq] at h; subst h; exact Or.inr ⟨rfl, rfl⟩

/-! ### the `-w` matcher on rendered text -/

theorem core (filter code rest : List Char) (hf : ']' ∉ filter) (hc : ']' ∉ code) :
    ((filter.zip (code ++ ']' :: rest)).all (fun p => p.1 == p.2) &&
      ((code ++ ']' :: rest)[(filter.zip (code ++ ']' :: rest)).length]? == some ']')) = (filter == code) := by
  induction filter generalizing code with
  | nil =>
    cases code with
    | nil => simp
    | cons c cs =>
      have : c ≠ ']' := fun h => hc (by simp [h])
      simp [this]
  | cons f fs ih =>
    have hf' : ']' ∉ fs := fun h => hf (by simp [h])
    have hfne : f ≠ ']' := fun h => hf (by simp [h])
    cases code with
    | nil =>
      simp [hfne]
    | cons c cs =>
      have hc' : ']' ∉ cs := fun h => hc (by simp [h])
      have := ih cs hf' hc'
      by_cases hfc : f = c
      · subst hfc
        simp only [List.cons_append, List.zip_cons_cons, List.all_cons, beq_self_eq_true, Bool.true_and,
          List.length_cons, List.getElem?_cons_succ]
        rw [this]
        simp
      · have hb : (f == c) = false := by simp [hfc]
        have hl : ((f :: fs) == (c :: cs)) = false := by
          simp only [List.cons_beq_cons, hb, Bool.false_and]
        simp only [List.cons_append, List.zip_cons_cons, List.all_cons, hb, Bool.false_and, hl]

theorem findIdx_prefix (pre tail : List Char) (hpre : '[' ∉ pre) :
    (pre ++ '[' :: tail).findIdx? (· == '[') = some pre.length := by
  induction pre with
  | nil => simp [List.findIdx?_cons]
  | cons p ps ih =>
    have hp : p ≠ '[' := fun h => hpre (by simp [h])
    have hps : '[' ∉ ps := fun h => hpre (by simp [h])
    simp [List.findIdx?_cons, hp, ih hps]

/-- **exactness of the code filter**: on a rendered message whose first '[' opens its code, a
    filter entry matches iff it equals the code -/
theorem code_filter_exact (pre code rest filter : List Char) (hpre : '[' ∉ pre)
    (hc : ']' ∉ code) (hf : ']' ∉ filter) :
    matchErrorCode (pre ++ '[' :: 'E' :: (code ++ ']' :: rest)) filter = (filter == code) := by
  unfold matchErrorCode
  rw [findIdx_prefix pre _ hpre]
  simp only
  have hdrop : ((pre ++ '[' :: 'E' :: (code ++ ']' :: rest)).drop (pre.length + 1)).drop 1 = code ++ ']' :: rest := by
    rw [List.drop_drop]
    have e : pre.length + 1 + 1 = pre.length + 2 := rfl
    rw [e, List.drop_append]
    have h1 : List.drop (pre.length + 2) pre = [] := List.drop_eq_nil_of_le (by omega)
    have h2 : pre.length + 2 - pre.length = 2 := by omega
    rw [h1, h2]
    rfl
  rw [hdrop]
  have hget : ∀ k, (pre ++ '[' :: 'E' :: (code ++ ']' :: rest))[pre.length + 1 + k + 1]? = (code ++ ']' :: rest)[k]? := by
    intro k
    rw [List.getElem?_append_right (by omega)]
    have : pre.length + 1 + k + 1 - pre.length = k + 2 := by omega
    rw [this]
    rfl
  rw [hget]
  exact core filter code rest hf hc

/-- a message without any '[' (the padding error text) is never shown under `-w` -/
theorem no_bracket_never_matches (msg filter : List Char) (h : '[' ∉ msg) : matchErrorCode msg filter = false := by
  unfold matchErrorCode
  have : msg.findIdx? (· == '[') = none := by
    rw [List.findIdx?_eq_none_iff]
    intro x hx
    have : x ≠ '[' := fun hc => h (hc ▸ hx)
    simp [this]
  simp [this]

/-! ### accounting -/

/-- no display option (not muted, no `-w`, no cap) and no fatal error: every counted error is
    shown — the reported total equals the number of messages shown -/
theorem total_eq_shown (fin : Final) (hfatal : fin.coll.fatal = none)
    (htotal : fin.total = fin.errors.length + fin.customErrors.length) :
    (displayed false none 0 fin).length = fin.total := by
  unfold displayed shownList
  by_cases h0 : fin.total = 0
  · simp [h0]
  · have hne : ¬ (fin.errors = [] ∧ fin.customErrors = []) := by
      intro ⟨a, b⟩; apply h0; rw [htotal, a, b]; rfl
    simp [h0, hfatal, htotal, hne]

/-- the display options never change the total, the error list or the exit status: they are
    not inputs of `finalize` / `exitCode` (muting only removes nested context from messages) -/
theorem mute_only_display (cdps pht : Option Nat) (c : Coll) :
    (finalize true cdps pht c).total = (finalize false cdps pht c).total ∧
    (finalize true cdps pht c).errors = (finalize false cdps pht c).errors := by
  simp [finalize]

theorem muted_shows_nothing (filter : Option (List String)) (cap : Nat) (fin : Final) :
    displayed true filter cap fin = [] := by
  simp [displayed]

/-- an error cap N shows at most N messages -/
theorem cap_bound (mute : Bool) (filter : Option (List String)) (cap : Nat) (hcap : cap > 0) (fin : Final) :
    (displayed mute filter cap fin).length ≤ cap := by
  unfold displayed
  split
  · simp
  · have : ¬ cap = 0 := by omega
    simp only [gt_iff_lt, hcap, ↓reduceIte, List.length_take]
    omega

/-- with `-w codes` every shown message carries one of the listed codes -/
theorem filter_shows_only_listed (codes : List String) (cap : Nat) (fin : Final) :
    ∀ s ∈ displayed false (some codes) cap fin, ∃ c, s.code = some c ∧ c ∈ codes := by
  intro s hs
  simp only [displayed, Bool.false_eq_true, false_or] at hs
  split at hs
  · simp at hs
  · have hmem : s ∈ (shownList fin).filter (fun s => match s.code with
        | some c => (codes.filter (fun c => fin.uniqueCodes.contains c)).contains c | none => false) := by
      split at hs
      · exact List.mem_of_mem_take hs
      · exact hs
    have := (List.mem_filter.mp hmem).2
    cases hc : s.code with
    | none => simp [hc] at this
    | some c =>
      simp only [hc, List.contains_eq_mem, List.mem_filter, decide_eq_true_eq] at this
      exact ⟨c, rfl, this.1⟩

/-! ### non-vacuity -/
example : matchErrorCode "0x40: [E40] ID is not 0xE8".toList "40".toList = true := by decide
example : matchErrorCode "0x40: [E40] ID is not 0xE8".toList "4".toList = false := by decide
example : matchErrorCode "0x40: [E4] x".toList "40".toList = false := by decide
example : matchErrorCode "0x40: [E440] x".toList "44".toList = false := by decide

end C16
end FastPasta
