/-
  C20 — user-configured checks are enforced exactly.

  * count checks on the collected statistics: [E9001] iff RDHs visited ≠ configured, [E9002] iff
    physics-trigger count ≠ configured; nothing when no value is configured;
  * RDH version: with a configured version the sanity check additionally demands header id =
    configured, otherwise the first header's id — and nothing else changes;
  * outer-barrel chip count / order: [E9004] iff the lane's chip count differs from the configured
    count; when the count passes, [E9005] iff the chip-id sequence is none of the configured
    orders; inner-barrel lanes keep the built-in rule (one chip whose id is the lane);
  * trigger period: for bunch crossings ≤ 3563 the period the code computes (with wrap-around
    across the orbit) is (cur − prev) mod 3564, so [E45] is reported iff that differs from P; and
    the TDH it is compared against is exactly the latest earlier TDH with the internal-trigger
    bit, for every TDH sequence (continuation TDHs included).
-/
import FastPasta.Proofs.CustomSrcTie
import FastPasta.Model.Collector
import FastPasta.Proofs.StateSrcTie
import FastPasta.Proofs.LaneSrcTie
namespace FastPasta
namespace C20

theorem cdps_iff (n : Nat) (pht : Option Nat) (c : Coll) :
    "E9001" ∈ customStatErrors (some n) pht c ↔ c.rdhsSeen ≠ n := by
  unfold customStatErrors
  cases pht with
  | none => by_cases h : c.rdhsSeen = n <;> simp [h]
  | some k => by_cases h : c.rdhsSeen = n <;> by_cases h2 : c.trig 4 = k <;> simp [h, h2]

theorem pht_iff (cdps : Option Nat) (n : Nat) (c : Coll) :
    "E9002" ∈ customStatErrors cdps (some n) c ↔ c.trig 4 ≠ n := by
  unfold customStatErrors
  cases cdps with
  | none => by_cases h : c.trig 4 = n <;> simp [h]
  | some k => by_cases h : c.trig 4 = n <;> by_cases h2 : c.rdhsSeen = k <;> simp [h, h2]

theorem absent_is_silent (c : Coll) : customStatErrors none none c = [] := rfl

theorem finalize_default (mute : Bool) (c : Coll) :
    (finalize mute none none c).customErrors = [] ∧ (finalize mute none none c).total = c.total := by
  simp [finalize, customStatErrors]

/-- configured RDH version `v`: the header is reported iff its id differs from `v` or it violates
    any of the other sanity rules (which do not involve the version) -/
theorem rdh_version_iff (v : Nat) (sys : Option Nat) (r : Rdh) :
    rdhSanityBad v sys r = true ↔ (r.headerId ≠ v ∨ rdhSanityBad r.headerId sys r = true) := by
  unfold rdhSanityBad rdh0Bad
  by_cases h : r.headerId = v
  · subst h; simp
  · simp [h]

/-- period computed by the code in `u16` arithmetic = distance modulo the orbit length -/
theorem period_eq (cur prev : Nat) (hc : cur ≤ 3563) (hp : prev ≤ 3563) :
    detectedPeriod cur prev = (cur + 3564 - prev) % 3564 := by
  unfold detectedPeriod
  split <;> omega

theorem period_iff (cfg : CheckCfg) (s : CdpSt) (P : Nat) (prev cur : Bytes)
    (hcfg : cfg.triggerPeriod = some P) (hprev : s.prevInternalTdh = some prev) (hcur : s.tdh = some cur)
    (hint : tdhInternal cur = 1) (hc : tdhBc cur ≤ 3563) (hp : tdhBc prev ≤ 3563) :
    tdhTriggerInterval cfg s ≠ [] ↔ (tdhBc cur + 3564 - tdhBc prev) % 3564 ≠ P := by
  unfold tdhTriggerInterval
  simp only [hcfg, hprev, hcur, hint, period_eq _ _ hc hp]
  by_cases h : (tdhBc cur + 3564 - tdhBc prev) % 3564 = P <;> simp [h]

/-- no configured period: never an [E45] -/
theorem no_period_silent (cfg : CheckCfg) (s : CdpSt) (h : cfg.triggerPeriod = none) :
    tdhTriggerInterval cfg s = [] := by
  unfold tdhTriggerInterval; simp [h]

/-- pairing: the TDH an internal-trigger TDH is compared with is the latest *earlier* TDH carrying
    the internal-trigger bit: `latestInternal` scans the earlier TDHs from the oldest to the newest
    and keeps the last one with the bit set -/
def latestInternal (init : Option Bytes) (earlier : List Bytes) : Option Bytes :=
  earlier.foldl (fun acc w => if tdhInternal w == 1 then some w else acc) init

theorem pairing (ws : List Bytes) : ∀ (s : CdpSt) (w : Bytes),
    ((ws ++ [w]).foldl replaceTdh s).prevInternalTdh = latestInternal s.prevInternalTdh (s.tdh.toList ++ ws) ∧
    ((ws ++ [w]).foldl replaceTdh s).tdh = some w := by
  induction ws with
  | nil =>
    intro s w
    cases h : s.tdh with
    | none => simp [replaceTdh, h, latestInternal]
    | some t => by_cases hi : tdhInternal t = 1 <;> simp [replaceTdh, h, latestInternal, hi]
  | cons a as ih =>
    intro s w
    simp only [List.cons_append, List.foldl_cons]
    obtain ⟨h1, h2⟩ := ih (replaceTdh s a) w
    refine ⟨?_, h2⟩
    rw [h1]
    cases h : s.tdh with
    | none => simp [replaceTdh, h, latestInternal]
    | some t => by_cases hi : tdhInternal t = 1 <;> simp [replaceTdh, h, latestInternal, hi]

/-! ### chip count / order -/

theorem e9004_iff (cfg : AlpideCfg) (b : Barrel) (lane : Nat) (d : LaneDec) :
    "E9004" ∈ laneCodes cfg b lane d ↔ countBad cfg b d = true := by
  unfold laneCodes
  by_cases h : countBad cfg b d = true
  · simp [h]
  · simp only [h, Bool.false_eq_true, ↓reduceIte, List.mem_append, iff_false, not_or]
    refine ⟨⟨?_, ?_⟩, ?_⟩ <;> (split <;> simp)

theorem e9005_iff (cfg : AlpideCfg) (b : Barrel) (lane : Nat) (d : LaneDec) :
    "E9005" ∈ laneCodes cfg b lane d ↔ (countBad cfg b d = false ∧ orderBad cfg b lane d = true) := by
  unfold laneCodes
  by_cases h : countBad cfg b d = true
  · simp only [h, ↓reduceIte, List.mem_append, Bool.true_eq_false, false_and, iff_false, not_or]
    refine ⟨⟨?_, ?_⟩, by simp⟩ <;> (split <;> simp)
  · by_cases h2 : orderBad cfg b lane d = true
    · simp [h, h2]
    · simp only [h, h2, Bool.false_eq_true, ↓reduceIte, List.mem_append, and_false, iff_false, not_or]
      refine ⟨⟨?_, ?_⟩, by simp⟩ <;> (split <;> simp)

/-- outer barrel, configured chip count `n`: [E9004] iff the lane's chip count differs from `n` -/
theorem chip_count_iff (cfg : AlpideCfg) (n : Nat) (hcfg : cfg.chipCountOb = some n) (b : Barrel) (hb : b ≠ .inner)
    (lane : Nat) (d : LaneDec) : "E9004" ∈ laneCodes cfg b lane d ↔ d.chips.length ≠ n := by
  rw [e9004_iff]
  cases b with
  | inner => exact absurd rfl hb
  | middle | outer => simp [countBad, hcfg]

/-- outer barrel, configured orders: when the count passes, [E9005] iff the chip-id sequence is
    none of the configured orders -/
theorem chip_order_iff (cfg : AlpideCfg) (os : List (List Nat)) (hcfg : cfg.chipOrdersOb = some os) (b : Barrel) (hb : b ≠ .inner)
    (lane : Nat) (d : LaneDec) (hcount : countBad cfg b d = false) :
    "E9005" ∈ laneCodes cfg b lane d ↔ d.chips.map (·.1) ∉ os := by
  rw [e9005_iff]
  cases b with
  | inner => exact absurd rfl hb
  | middle | outer => simp [hcount, orderBad, hcfg]

/-- inner-barrel lanes keep the built-in rule whatever is configured: one chip, chip id = lane -/
theorem inner_builtin (cfg : AlpideCfg) (lane : Nat) (d : LaneDec) :
    ("E9004" ∈ laneCodes cfg .inner lane d ↔ d.chips.length ≠ 1) ∧
    (d.chips.length = 1 → ("E9005" ∈ laneCodes cfg .inner lane d ↔ (d.chips.map (·.1)).head? ≠ some lane)) := by
  constructor
  · rw [e9004_iff]; simp [countBad]
  · intro h1
    rw [e9005_iff]; simp [countBad, orderBad, h1]

/-- nothing configured for the outer barrel: neither [E9004] nor [E9005] on a middle/outer lane -/
theorem ob_unconfigured_silent (b : Barrel) (hb : b ≠ .inner) (lane : Nat) (d : LaneDec) :
    "E9004" ∉ laneCodes {} b lane d ∧ "E9005" ∉ laneCodes {} b lane d := by
  rw [e9004_iff, e9005_iff]
  cases b with
  | inner => exact absurd rfl hb
  | middle | outer => simp [countBad, orderBad]

/-! ### non-vacuity -/
example : detectedPeriod 5 3560 = 9 := by decide
example : (5 + 3564 - 3560) % 3564 = 9 := by decide


/-! ### tie by translation (`Spec/StateSrcGen.lean`): the period check and the "previous internal-trigger TDH" bookkeeping are
    the source's `TdhValidator::check_trigger_interval` / `matches_trigger_interval` and `TdhBuffer::replace` -/
/-- for bunch crossings inside an orbit: the source's `check_trigger_interval` fails (with `[E45]`) exactly when the distance
    modulo 3564 differs from the configured period -/
theorem period_src_iff (cur prev : Bytes) (P : Nat) (hc : tdhBc cur ≤ 3563) (hp : tdhBc prev ≤ 3563) :
    ((SrcState.TdhValidator.check_trigger_interval (SrcTie.tdhOf cur) (SrcTie.tdhOf prev) P).isErr = true ↔
      (tdhBc cur + 3564 - tdhBc prev) % 3564 ≠ P) ∧
    ((SrcState.TdhValidator.check_trigger_interval (SrcTie.tdhOf cur) (SrcTie.tdhOf prev) P).isErr = true →
      (SrcState.TdhValidator.check_trigger_interval (SrcTie.tdhOf cur) (SrcTie.tdhOf prev) P).errStr.codes = [45]) := by
  obtain ⟨h1, h2⟩ := SrcTie.trigger_interval_eq cur prev P
  refine ⟨?_, h2⟩
  rw [h1, period_eq _ _ hc hp]
  simp

/-- the source's TDH buffer after `replace` holds the model's (current, previous, previous-internal) triple -/
theorem tdh_buffer_src (s : CdpSt) (w : Bytes) :
    (SrcState.TdhBuffer.replace (SrcTie.bufOf s.tdh s.prevTdh s.prevInternalTdh) (SrcTie.tdhOf w)).2 =
      SrcTie.bufOf (replaceTdh s w).tdh (replaceTdh s w).prevTdh (replaceTdh s w).prevInternalTdh :=
  SrcTie.tdh_replace_eq s w


/-- tie by translation (`Spec/LaneSrcGen.lean`): the configured chip count and chip orders are enforced by the source's own
    `check_chip_count` / `check_chip_id_order` exactly as `countBad` / `orderBad` say (the order check is evaluated when the count
    check passed, as in `do_lane_alpide_checks`) — so `chip_count_iff` / `chip_order_iff` / `inner_builtin` above are statements about
    the source text as it is now -/
theorem chip_checks_src (cfg : AlpideCfg) (barrel : Barrel) (laneNumber : Nat) (d : LaneDec) :
    (SrcLane.LaneAlpideFrameAnalyzer.check_chip_count (SrcTie.analyzerOf cfg barrel laneNumber d)).isErr = countBad cfg barrel d ∧
    (countBad cfg barrel d = false →
      (SrcLane.LaneAlpideFrameAnalyzer.check_chip_id_order (SrcTie.analyzerOf cfg barrel laneNumber d)).isErr = orderBad cfg barrel laneNumber d) :=
  ⟨SrcTie.chip_count_eq cfg barrel laneNumber d, SrcTie.chip_order_eq cfg barrel laneNumber d⟩


/-! ### tie by translation: the statistics-level custom checks are the source's `validate_custom_stats`
    (stats/stats_validation.rs → `Spec/CustomSrcGen.lean`, translated on this run) -/
/-- for every configuration of the two keys and every collector state: the source's error list carries `[E9001]` / `[E9002]` exactly as
    `customStatErrors` does (`cdps_iff`, `pht_iff`, `absent_is_silent` are thereby statements about the source function), and it returns
    `Err` exactly when that list is not empty -/
theorem custom_stats_src (a : SrcCustom.CustomAbs) (r : SrcCustom.RdhStats) (c : Coll)
    (h1 : r.f_rdhs_seen = c.rdhsSeen) (h2 : r.f_trigger_stats.f_pht = c.trig 4) :
    (SrcCustom.validate_custom_stats a r).errStr.codes.map SrcTie.custCode = customStatErrors a.cdps a.triggersPht c ∧
    ((SrcCustom.validate_custom_stats a r).isErr = !(customStatErrors a.cdps a.triggersPht c).isEmpty) :=
  SrcTie.validate_custom_eq a r c h1 h2

end C20
end FastPasta
