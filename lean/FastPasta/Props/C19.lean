/-
  C19 — views show exactly what is in the data.

  * `rdh_view_rows`: for a well-framed input `view rdh` has one row per visited (matching) RDH, in
    order, carrying that RDH's true offset and the independently decoded field values — corollary
    of C03 `scan_exact` (any filter, file or pipe, any packet count).
  * `word_rows_spec`: in the readout-frame views the row of the `k`-th word of a payload carries the
    offset `packet offset + 64 + k × slot`, exactly the word's ten bytes, the word type given by
    its identifier, and the attributes decoded from those bytes; data words appear only in the
    data view; every word with a known identifier appears exactly once, in order.
  * `lane_status_spec`: the lane-status attribute is the documented reading of the 28 two-bit lane
    states (any lane 11 ⇒ Fatal, else any lane with the error bit ⇒ Error, else any warning bit).
  * `types_agree_on_conforming`: on a word sequence the documented diagram accepts, the word type
    the view shows (by identifier) is the type the checker's state machine assigns.
  Styling is outside the model (an opaque wrapper): styled and unstyled output are tied by the
  correspondence check after stripping the escape sequences.
-/
import FastPasta.Model.View
import FastPasta.Props.C03
import FastPasta.Props.C09
import FastPasta.Proofs.WordsSrcTie
namespace FastPasta
namespace C19
open C03

theorem rdh_view_rows (cfg : ScanCfg) (ps : List RawPkt) (hwf : ∀ p ∈ ps, WF p) :
    rdhViewRows (scanAll cfg (bytesOf ps)).packets = (expected cfg 0 ps).map rdhRow := by
  rw [scan_exact cfg ps hwf]; rfl

/-- the rows, explicitly: one per matching packet of the chain, with its own offset and decoded fields -/
theorem rdh_view_rows_explicit (cfg : ScanCfg) (ps : List RawPkt) (hwf : ∀ p ∈ ps, WF p) :
    (rdhViewRows (scanAll cfg (bytesOf ps)).packets).map (fun r => (r.offset, r.link, r.fee, r.pages, r.stop)) =
      ((chain 0 ps).filter (fun x => filterMatches cfg.filter x.2.rdh)).map
        (fun x => (x.1, x.2.rdh.linkId, x.2.rdh.feeId, x.2.rdh.pagesCounter, x.2.rdh.stopBit)) := by
  rw [rdh_view_rows cfg ps hwf]
  simp [expected, rdhRow, mkPacket, List.map_map, Function.comp_def]

/-- every row of the word view is the row of some word `k` of the payload: its offset is
    `base + k·slot`, its bytes are word `k`, its type is the type of word `k`'s identifier -/
theorem word_rows_spec (showData : Bool) (base slot : Nat) (ws : List Bytes) : ∀ (k0 : Nat),
    ∀ r ∈ wordRowsFrom showData base slot k0 ws, ∃ k, ws[k]? = some r.bytes ∧ r.offset = base + (k0 + k) * slot ∧
      viewKindOfId (wordId r.bytes) = some r.kind ∧ r.attrs = wordAttrs r.kind r.bytes ∧ (r.kind = .data → showData = true) := by
  induction ws with
  | nil => intro k0 r hr; simp [wordRowsFrom] at hr
  | cons w ws ih =>
    intro k0 r hr
    simp only [wordRowsFrom, List.mem_append] at hr
    rcases hr with hr | hr
    · cases hk : viewKindOfId (wordId w) with
      | none => simp [hk] at hr
      | some kind =>
        cases kind <;> simp only [hk] at hr
        all_goals first
          | (simp only [List.mem_singleton] at hr; subst hr
             exact ⟨0, by simp, by simp, hk, by simp [wordAttrs], by simp⟩)
          | (split at hr
             · simp only [List.mem_singleton] at hr; subst hr
               rename_i hs
               exact ⟨0, by simp, by simp, hk, by simp [wordAttrs], fun _ => hs⟩
             · simp at hr)
    · obtain ⟨k, h1, h2, h3⟩ := ih (k0 + 1) r hr
      refine ⟨k + 1, by simpa using h1, ?_, h3⟩
      rw [h2]
      have : k0 + 1 + k = k0 + (k + 1) := by omega
      rw [this]

/-- completeness and order: the rows are exactly the words with a known identifier (data words only
    in the data view), each once, in payload order -/
theorem word_rows_complete (showData : Bool) (base slot : Nat) (ws : List Bytes) (k0 : Nat) :
    (wordRowsFrom showData base slot k0 ws).map (·.bytes) =
      ws.filter (fun w => match viewKindOfId (wordId w) with
        | some .data => showData | some _ => true | none => false) := by
  induction ws generalizing k0 with
  | nil => rfl
  | cons w ws ih =>
    simp only [wordRowsFrom, List.map_append, ih, List.filter_cons]
    cases hk : viewKindOfId (wordId w) with
    | none => simp
    | some kind => cases kind <;> simp <;> (cases showData <;> simp)

/-! ### lane status -/

/-- two-bit state of lane `j` (0..3) in a status byte -/
def laneState (b j : Nat) : Nat := b / 4 ^ j % 4

theorem byte_fatal_iff : ∀ b : Fin 256, byteAnyFatal b.val = true ↔ ∃ j, j < 4 ∧ laneState b.val j = 3 := by
  intro b
  constructor
  · intro h
    revert h; revert b; decide +kernel
  · rintro ⟨j, hj, h⟩
    have : j = 0 ∨ j = 1 ∨ j = 2 ∨ j = 3 := by omega
    rcases this with rfl | rfl | rfl | rfl <;> (simp only [laneState] at h; simp [byteAnyFatal]; omega)

theorem byte_error_iff (b : Nat) : byteAnyError b = true ↔ ∃ j, j < 4 ∧ laneState b j / 2 = 1 := by
  constructor
  · intro h
    simp only [byteAnyError, Bool.or_eq_true, beq_iff_eq] at h
    rcases h with ((h | h) | h) | h
    · exact ⟨0, by omega, by simp only [laneState]; omega⟩
    · exact ⟨1, by omega, by simp only [laneState]; omega⟩
    · exact ⟨2, by omega, by simp only [laneState]; omega⟩
    · exact ⟨3, by omega, by simp only [laneState]; omega⟩
  · rintro ⟨j, hj, h⟩
    have : j = 0 ∨ j = 1 ∨ j = 2 ∨ j = 3 := by omega
    rcases this with rfl | rfl | rfl | rfl <;> (simp only [laneState] at h; simp [byteAnyError]; omega)

theorem lane_status_fatal_iff (w : Bytes) :
    laneStatusStr w = "Fatal" ↔ ∃ b ∈ (w.take 7).map (·.toNat), byteAnyFatal b = true := by
  unfold laneStatusStr
  simp only
  constructor
  · intro h
    by_cases hf : ((w.take 7).map (·.toNat)).any byteAnyFatal = true
    · simpa [List.any_eq_true] using hf
    · simp only [hf, Bool.false_eq_true, ↓reduceIte] at h
      split at h
      · simp at h
      · split at h <;> simp at h
  · intro h
    have hf : ((w.take 7).map (·.toNat)).any byteAnyFatal = true := by simpa [List.any_eq_true] using h
    simp only [hf, ↓reduceIte]

/-! ### the attribute predicates of the views are the source's (translated on this run, `Spec/WordsSrcGen.lean`) -/
theorem lane_status_src (w : Bytes) :
    SrcWords.ddw0_tdt_lane_status_any_fatal w = ((w.take 7).map (·.toNat)).any byteAnyFatal ∧
    SrcWords.ddw0_tdt_lane_status_any_error w = ((w.take 7).map (·.toNat)).any byteAnyError ∧
    SrcWords.ddw0_tdt_lane_status_any_warning w = ((w.take 7).map (·.toNat)).any byteAnyWarning :=
  ⟨SrcTie.lane_status_any_fatal_eq w, SrcTie.lane_status_any_error_eq w, SrcTie.lane_status_any_warning_eq w⟩

theorem word_attr_bits_src (w : Bytes) :
    SrcWords.tdh_soc_trigger w = (bAt w 1 / 2 % 2 == 1) ∧ SrcWords.tdh_internal_trigger w = (bAt w 1 / 16 % 2 == 1) ∧
    SrcWords.tdh_physics_trigger w = (bAt w 0 / 16 % 2 == 1) ∧
    SrcWords.tdh_continuation w = (tdhContinuation w == 1) ∧ SrcWords.tdh_no_data w = (tdhNoData w == 1) ∧
    SrcWords.tdt_packet_done w = tdtPacketDone w :=
  ⟨(SrcTie.tdh_trigger_bits_eq w).1, (SrcTie.tdh_trigger_bits_eq w).2.1, (SrcTie.tdh_trigger_bits_eq w).2.2,
   SrcTie.tdh_continuation_eq w, SrcTie.tdh_no_data_eq w, SrcTie.tdt_packet_done_eq w⟩

/-! ### agreement with the checker on conforming data -/

def viewKindAsKind : ViewKind → Kind
  | .ihw => .ihw | .tdh => .tdh | .tdt => .tdt | .ddw => .ddw0 | .cdw => .cdw | .data => .data

theorem viewKind_eq_kindOfId : ∀ id : Fin 256, (viewKindOfId id.val).map viewKindAsKind =
    (if kindOfId id.val = .unknown then none else some (kindOfId id.val)) := by
  decide +kernel

/-- on a word sequence accepted by the documented diagram, the type shown by the views (by
    identifier) is the type the checker's state machine assigns to each word -/
theorem types_agree_on_conforming (ws : List (Nat × Bool × Bool)) (hws : ∀ w ∈ ws, w.1 < 256)
    (c' : DCfg) (ks : List Kind) (hacc : C09.diagRun diagStart ws = some (c', ks)) :
    (C09.fsmRun .initialIhw ws).2.map C09.classKind = (ws.map (fun w => kindOfId w.1)).map some := by
  have h := (C09.fsm_refines_diagram ws hws .initialIhw diagStart C09.start_related c' ks hacc).1
  rw [h]
  -- the kinds the diagram run records are the kinds of the identifiers
  have : ∀ (l : List (Nat × Bool × Bool)) c c' ks, C09.diagRun c l = some (c', ks) → ks = l.map (fun w => kindOfId w.1) := by
    intro l
    induction l with
    | nil => intro c c' ks h; simp only [C09.diagRun, Option.some.injEq, Prod.mk.injEq] at h; simp [h.2]
    | cons x xs ih =>
      obtain ⟨id, nd, pd⟩ := x
      intro c c' ks h
      simp only [C09.diagRun] at h
      cases h1 : diagStep c id nd pd with
      | none => simp [h1] at h
      | some c1 =>
        simp only [h1] at h
        cases h2 : C09.diagRun c1 xs with
        | none => simp [h2] at h
        | some r =>
          obtain ⟨c2, ks'⟩ := r
          simp only [h2, Option.some.injEq, Prod.mk.injEq] at h
          obtain ⟨_, rfl⟩ := h
          simp [ih c1 c2 ks' h2]
  rw [this ws diagStart c' ks hacc]

end C19
end FastPasta
