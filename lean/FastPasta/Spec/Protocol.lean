/-
  Spec.Protocol — the ITS readout protocol of one link as a *grammar* of payloads, written from the
  documentation (doc/checks_list.md, doc/ITS_payload_fsm_continuous_mode.puml, README error
  families), independent of the validator's state machine:

    link      ::= hbf*
    hbf       ::= page+ stop-page            -- the page before the stop page ends with a closed packet
    page      ::= IHW segment+               -- RDH stop bit 0
    stop-page ::= DDW0                       -- RDH stop bit 1, page counter ≠ 0
    segment   ::= TDH(no_data)                                   -- trigger without data
                | TDH data-phase TDT(packet_done = 1)            -- closed packet
                | TDH data-phase TDT(packet_done = 0)            -- open packet: last segment of its page;
                                                                 --   the next page is IHW TDH(continuation) …
    data-phase ::= [CDW] data-word*          -- a CDW only as the first data-phase word of a payload

  with the documented side conditions (orbit/BC/trigger copies, continuation bits, reserved bits,
  active lanes, connector numbers, non-decreasing BCs within a page, CDW index rule).
  Everything is executable (`Bool` / `Option`), so generated streams can be checked against it.
-/
import FastPasta.Model.Cdp
namespace FastPasta
namespace Proto

/-- one trigger segment: the TDH and, unless it is a no-data TDH, the data-phase words and the TDT -/
structure Seg where
  tdh : Bytes
  body : Option (List Bytes × Bytes)
  deriving Repr, Inhabited

def Seg.words (g : Seg) : List Bytes :=
  g.tdh :: (match g.body with | none => [] | some (d, t) => d ++ [t])

/-- which TDH the grammar expects next within a page -/
inductive Expect
  | first                 -- directly after the page's IHW, new packet
  | cont (o : Bytes)      -- directly after the IHW of a page that continues the open packet of TDH `o`
  | next (prev : Bytes)   -- after a closed packet or a no-data TDH whose TDH was `prev`
  deriving Repr, Inhabited

/-- where a link stands between two payloads -/
inductive Between
  | fresh                 -- start of the link, or after a stop page
  | closed                -- the last page ended with a closed packet / no-data TDH
  | open_ (o : Bytes)     -- the last page ended inside the packet opened by TDH `o`
  deriving Repr, Inhabited, DecidableEq

/-- per-payload data-phase bookkeeping: no data-phase word yet; last CDW of the link -/
structure PSt where
  sod : Bool
  cdw : Option Bytes
  deriving Repr, Inhabited

/-- data word: valid identifier; with the stateful rules on, its lane is active in the page's IHW
    and (outer barrels) the connector input number is at most 6 -/
def dataOk (running : Bool) (lanes : Nat) (w : Bytes) : Bool :=
  w.length == 10 && isValidDataId (wordId w) &&
  (!running ||
    (if wordId w / 32 == 1 then laneActive (ibLane (wordId w)) lanes
     else laneActive (obLane (wordId w)) lanes && obConnectorInput (wordId w) ≤ 6))

/-- calibration data word: index 0 or unchanged user fields with respect to the previous CDW -/
def cdwOk (running : Bool) (prev : Option Bytes) (w : Bytes) : Bool :=
  w.length == 10 && wordId w == ID_CDW &&
  (!running || match prev with
    | none => true
    | some p => cdwUserFields p == cdwUserFields w || cdwIndex w == 0)

def dataPhaseOk (running : Bool) (lanes : Nat) : PSt → List Bytes → Option PSt
  | st, [] => some st
  | st, w :: ws =>
    if st.sod && wordId w == ID_CDW then
      if cdwOk running st.cdw w then dataPhaseOk running lanes { sod := false, cdw := some w } ws else none
    else if dataOk running lanes w then dataPhaseOk running lanes { st with sod := false } ws else none

/-- TDH opening a packet directly after the IHW: continuation 0, the RDH's orbit; on page 0 of an
    internally or physics triggered HBF also the RDH's BC and trigger bits -/
def tdhFirstOk (r : Rdh) (w : Bytes) : Bool :=
  w.length == 10 && tdhSane w && tdhContinuation w == 0 && tdhOrbit w == r.orbit &&
  (!(r.pagesCounter == 0 && (tdhInternal w == 1 || r.isPht)) ||
    (tdhBc w == r.bc && r.triggerType % 4096 == tdhTriggerType w))

/-- later TDH of the same page: continuation 0, the RDH's orbit, BC not before the previous TDH -/
def tdhNextOk (r : Rdh) (prev w : Bytes) : Bool :=
  w.length == 10 && tdhSane w && tdhContinuation w == 0 && tdhOrbit w == r.orbit && tdhBc prev ≤ tdhBc w

/-- TDH continuing the open packet of TDH `o`: continuation 1, same BC, orbit and trigger bits -/
def tdhContOk (o w : Bytes) : Bool :=
  w.length == 10 && tdhSane w && tdhContinuation w == 1 && tdhNoData w == 0 &&
  tdhBc w == tdhBc o && tdhOrbit w == tdhOrbit o && tdhTriggerType w == tdhTriggerType o

/-- the rule for the TDH of the next segment -/
def Expect.tdhOk (r : Rdh) : Expect → Bytes → Bool
  | .first, w => tdhFirstOk r w
  | .cont o, w => tdhContOk o w
  | .next p, w => tdhNextOk r p w

def Expect.isCont : Expect → Bool
  | .cont _ => true
  | _ => false

def segsOk (running : Bool) (r : Rdh) (lanes : Nat) : Expect → PSt → List Seg → Option (Between × PSt)
  | e, st, [] => (match e with | .next _ => some (.closed, st) | _ => none)
  | e, st, g :: gs =>
    if !e.tdhOk r g.tdh then none else
    match g.body with
    | none =>
      -- a trigger without data; a continuation always carries data
      if e.isCont || tdhNoData g.tdh != 1 then none else segsOk running r lanes (.next g.tdh) st gs
    | some (d, t) =>
      if tdhNoData g.tdh != 0 then none else
      match dataPhaseOk running lanes st d with
      | none => none
      | some st' =>
        if !(t.length == 10 && tdtSane t) then none else
        if tdtPacketDone t then segsOk running r lanes (.next g.tdh) st' gs
        else (match gs with | [] => some (.open_ g.tdh, st') | _ => none)

structure Page where
  ihw : Bytes
  segs : List Seg
  deriving Repr, Inhabited

def Page.words (p : Page) : List Bytes := p.ihw :: p.segs.flatMap Seg.words

inductive Payload
  | page (p : Page)
  | stop (ddw0 : Bytes)
  deriving Repr, Inhabited

def Payload.words : Payload → List Bytes
  | .page p => p.words
  | .stop d => [d]

/-- state of the link grammar between two payloads -/
structure LSt where
  bw : Between := .fresh
  cdw : Option Bytes := none
  deriving Repr, Inhabited, DecidableEq

/-- the TDH expected after the IHW of the next page -/
def Between.expect : Between → Expect
  | .open_ o => .cont o
  | _ => .first

/-- one payload conforms, given the RDH of its packet and where the link stands -/
def payloadOk (running : Bool) (r : Rdh) (st : LSt) : Payload → Option LSt
  | .stop d =>
    (match st.bw with
     | .closed =>
       if d.length == 10 && ddw0Sane d && r.stopBit == 1 && r.pagesCounter != 0
       then some { st with bw := .fresh } else none
     | _ => none)
  | .page p =>
    if !(p.ihw.length == 10 && ihwSane p.ihw && r.stopBit == 0) then none else
    match segsOk running r (ihwActiveLanes p.ihw) st.bw.expect { sod := true, cdw := st.cdw } p.segs with
    | none => none
    | some (bw, ps) => some { bw := bw, cdw := ps.cdw }

end Proto
end FastPasta
