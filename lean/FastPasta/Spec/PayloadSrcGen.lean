/- GENERATED on every run by tools/rs2lean.py from the Rust sources listed below — do not edit.
   fastpasta/src/analyze/validators/lib.rs
-/
import FastPasta.Spec.RsPrelude
set_option linter.unusedVariables false
namespace FastPasta
namespace SrcPayload
inductive DataFormat where
  | V0
  | V2
  deriving DecidableEq, Repr, Inhabited
def extract_payload_ff_padding (payload : Bytes) : (Rs.Res Bytes) :=
  (let ff_padding := ((payload.reverse).takeWhile (fun x => (x.toNat == 255))); (if (decide ((ff_padding.length) > 15)) then (Rs.Res.err (Rs.Str.lit true [])) else (Rs.Res.ok ff_padding)))

def detect_payload_data_format (payload : Bytes) : DataFormat :=
  (if (((((payload.drop 10).take 6).takeWhile (fun x => (x.toNat == 0))).length) == 6) then DataFormat.V0 else DataFormat.V2)

def chunkify_payload (payload : Bytes) (data_format : DataFormat) (ff_padding : Bytes) : (List Bytes) :=
  (match data_format with | .V0 => (let chunks := (Rs.chunksExact 16 payload); chunks) | .V2 => (if (decide ((ff_padding.length) > 9)) then (let last_idx_before_padding := (((payload.length) + 2^64 - (ff_padding.length)) % 2^64); (let chunks := (Rs.chunksExact 10 (Rs.slice payload 0 last_idx_before_padding)); chunks)) else (let chunks := (Rs.chunksExact 10 payload); chunks)))

def preprocess_payload (payload : Bytes) : (Rs.Res (List Bytes)) :=
  (match (extract_payload_ff_padding (payload)) with | .err e => .err e | .ok ff_padding => (let detected_data_format := (detect_payload_data_format (payload)); (let gbt_word_chunks := (chunkify_payload (payload) (detected_data_format) (ff_padding)); (Rs.Res.ok gbt_word_chunks))))

/-! kernel-checked: every literal mask was split into contiguous runs correctly -/
end SrcPayload
end FastPasta
