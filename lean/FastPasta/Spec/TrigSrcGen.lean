/- GENERATED on every run by tools/rs2lean.py from the Rust sources listed below — do not edit.
   fastpasta/src/stats/stats_collector/trigger_stats.rs
-/
import FastPasta.Spec.RsPrelude
set_option linter.unusedVariables false
namespace FastPasta
namespace SrcTrig
structure TriggerStats where
  f_orbit : Nat
  f_hb : Nat
  f_hbr : Nat
  f_hc : Nat
  f_pht : Nat
  f_pp : Nat
  f_cal : Nat
  f_sot : Nat
  f_eot : Nat
  f_soc : Nat
  f_eoc : Nat
  f_tf : Nat
  f_fe_rst : Nat
  f_rt : Nat
  f_rs : Nat
  f_lhc_gap1 : Nat
  f_lhc_gap2 : Nat
  f_tpc_sync : Nat
  f_tpc_rst : Nat
  f_tof : Nat
  deriving DecidableEq, Repr, Inhabited
def TriggerStats.collect_stats (self_ : TriggerStats) (trigger : Nat) : (Unit × TriggerStats) :=
  (let self__1 := { self_ with f_orbit := ((self_.f_orbit + (if (((trigger &&& (Rs.mask 0 1)) != 0)) then 1 else 0)) % 2^32) }; (let self_ := { self__1 with f_hb := ((self__1.f_hb + (if (((trigger &&& (Rs.mask 1 1)) != 0)) then 1 else 0)) % 2^32) }; (let self__3 := { self_ with f_hbr := ((self_.f_hbr + (if (((trigger &&& (Rs.mask 2 1)) != 0)) then 1 else 0)) % 2^32) }; (let self_ := { self__3 with f_hc := ((self__3.f_hc + (if (((trigger &&& (Rs.mask 3 1)) != 0)) then 1 else 0)) % 2^32) }; (let self__5 := { self_ with f_pht := ((self_.f_pht + (if (((trigger &&& (Rs.mask 4 1)) != 0)) then 1 else 0)) % 2^32) }; (let self_ := { self__5 with f_pp := ((self__5.f_pp + (if (((trigger &&& (Rs.mask 5 1)) != 0)) then 1 else 0)) % 2^32) }; (let self__7 := { self_ with f_cal := ((self_.f_cal + (if (((trigger &&& (Rs.mask 6 1)) != 0)) then 1 else 0)) % 2^32) }; (let self_ := { self__7 with f_sot := ((self__7.f_sot + (if (((trigger &&& (Rs.mask 7 1)) != 0)) then 1 else 0)) % 2^32) }; (let self__9 := { self_ with f_eot := ((self_.f_eot + (if (((trigger &&& (Rs.mask 8 1)) != 0)) then 1 else 0)) % 2^32) }; (let self_ := { self__9 with f_soc := ((self__9.f_soc + (if (((trigger &&& (Rs.mask 9 1)) != 0)) then 1 else 0)) % 2^32) }; (let self__11 := { self_ with f_eoc := ((self_.f_eoc + (if (((trigger &&& (Rs.mask 10 1)) != 0)) then 1 else 0)) % 2^32) }; (let self_ := { self__11 with f_tf := ((self__11.f_tf + (if (((trigger &&& (Rs.mask 11 1)) != 0)) then 1 else 0)) % 2^32) }; (let self__13 := { self_ with f_fe_rst := ((self_.f_fe_rst + (if (((trigger &&& (Rs.mask 12 1)) != 0)) then 1 else 0)) % 2^32) }; (let self_ := { self__13 with f_rt := ((self__13.f_rt + (if (((trigger &&& (Rs.mask 13 1)) != 0)) then 1 else 0)) % 2^32) }; (let self__15 := { self_ with f_rs := ((self_.f_rs + (if (((trigger &&& (Rs.mask 14 1)) != 0)) then 1 else 0)) % 2^32) }; (let self_ := { self__15 with f_lhc_gap1 := ((self__15.f_lhc_gap1 + (if (((trigger &&& (Rs.mask 27 1)) != 0)) then 1 else 0)) % 2^32) }; (let self__17 := { self_ with f_lhc_gap2 := ((self_.f_lhc_gap2 + (if (((trigger &&& (Rs.mask 28 1)) != 0)) then 1 else 0)) % 2^32) }; (let self_ := { self__17 with f_tpc_sync := ((self__17.f_tpc_sync + (if (((trigger &&& (Rs.mask 29 1)) != 0)) then 1 else 0)) % 2^32) }; (let self__19 := { self_ with f_tpc_rst := ((self_.f_tpc_rst + (if (((trigger &&& (Rs.mask 30 1)) != 0)) then 1 else 0)) % 2^32) }; (let self_ := { self__19 with f_tof := ((self__19.f_tof + (if (((trigger &&& (Rs.mask 31 1)) != 0)) then 1 else 0)) % 2^32) }; ((), self_)))))))))))))))))))))

def TriggerStats.pht (self_ : TriggerStats) : Nat :=
  self_.f_pht

/-! kernel-checked: every literal mask was split into contiguous runs correctly -/
example : (Rs.mask 0 1) = 1 := by decide
example : (Rs.mask 1 1) = 2 := by decide
example : (Rs.mask 2 1) = 4 := by decide
example : (Rs.mask 3 1) = 8 := by decide
example : (Rs.mask 4 1) = 16 := by decide
example : (Rs.mask 5 1) = 32 := by decide
example : (Rs.mask 6 1) = 64 := by decide
example : (Rs.mask 7 1) = 128 := by decide
example : (Rs.mask 8 1) = 256 := by decide
example : (Rs.mask 9 1) = 512 := by decide
example : (Rs.mask 10 1) = 1024 := by decide
example : (Rs.mask 11 1) = 2048 := by decide
example : (Rs.mask 12 1) = 4096 := by decide
example : (Rs.mask 13 1) = 8192 := by decide
example : (Rs.mask 14 1) = 16384 := by decide
example : (Rs.mask 27 1) = 134217728 := by decide
example : (Rs.mask 28 1) = 268435456 := by decide
example : (Rs.mask 29 1) = 536870912 := by decide
example : (Rs.mask 30 1) = 1073741824 := by decide
example : (Rs.mask 31 1) = 2147483648 := by decide
end SrcTrig
end FastPasta
