/-
  Spec.ProtocolStave — the stave-level part of the protocol grammar (`check all its-stave`):
  a *readout frame* is everything between a TDH with continuation 0 that finds no frame open and
  the next TDT with packet_done = 1 (it may span no-data TDHs, continuation pages and HBFs); its
  data words, grouped per lane, must carry well-formed ALPIDE lane data (Spec.AlpideEnc) with one
  common bunch counter, the lane set of the stave's barrel, and — inner barrel — one chip per lane
  whose chip id is the lane number.
-/
import FastPasta.Spec.Protocol
import FastPasta.Spec.AlpideEnc
namespace FastPasta
namespace Proto

/-- lane data of a frame: the 9 data bytes of each data word appended to its lane (data-word id),
    lanes in order of first appearance -/
def frameLanes (dws : List Bytes) : LaneFrames :=
  dws.foldl (fun fs w => storeLane fs (wordId w) (w.take 9)) []

/-- the data of one lane is an ALPIDE event sequence whose chips all carry bunch counter `bc`,
    no chip id twice, at least one chip; inner barrel: exactly one chip, its id = the lane number -/
def LaneOk (barrel : Barrel) (id : Nat) (data : Bytes) (bc : Nat) : Prop :=
  ∃ evs : List Event, data = encodeLane evs ∧ (∀ e ∈ evs, e.Valid) ∧
    (evs.foldl Event.apply {}).bcErr = false ∧
    (evs.foldl Event.apply {}).chips ≠ [] ∧
    (∀ c ∈ (evs.foldl Event.apply {}).chips, c.2 = bc) ∧
    (barrel = .inner → (evs.foldl Event.apply {}).chips.map (·.1) = [ibLane id])

/-- lane set of the barrel: 3 lanes of one inner-barrel group, 8 (middle) or 14 (outer) lanes -/
def lanesOfBarrel (barrel : Barrel) (fs : LaneFrames) : Bool :=
  match barrel with
  | .inner => fs.length == 3 &&
      (let ids := sortNat (fs.map (fun f => ibLane f.1)); ids == [0, 1, 2] || ids == [3, 4, 5] || ids == [6, 7, 8])
  | .middle => fs.length == 8
  | .outer => fs.length == 14

def FrameOk (barrel : Barrel) (dws : List Bytes) : Prop :=
  lanesOfBarrel barrel (frameLanes dws) = true ∧
  ∃ bc, ∀ f ∈ frameLanes dws, LaneOk barrel f.1 f.2 bc

/-- the data-phase words that are stored as lane data: all but a CDW at the start of the payload's data -/
def storedWords (ps : PSt) : List Bytes → List Bytes
  | [] => []
  | w :: ws => if ps.sod && wordId w == ID_CDW then ws else w :: ws

/-- the open frame: `none` = no frame open, `some dws` = the data words collected so far -/
abbrev FSt := Option (List Bytes)

/-- a TDH with continuation 0 opens a frame if none is open -/
def openFrame (fst : FSt) (tdh : Bytes) : FSt :=
  match fst with
  | some d => some d
  | none => if tdhContinuation tdh == 0 then some [] else none

/-- frames along the segments of a page (`ps` = the data-phase bookkeeping *before* each segment, as in `segsOk`) -/
def framesOk (barrel : Barrel) (running : Bool) (lanes : Nat) : FSt → PSt → List Seg → FSt → Prop
  | fst, _, [], fst' => fst' = fst
  | fst, ps, g :: gs, fst' =>
    match g.body with
    | none => framesOk barrel running lanes (openFrame fst g.tdh) ps gs fst'
    | some (d, t) =>
      match dataPhaseOk running lanes ps d with
      | none => False
      | some ps' =>
        match openFrame fst g.tdh with
        | none => False     -- data outside any frame
        | some acc =>
          let acc' := acc ++ storedWords ps d
          if tdtPacketDone t then FrameOk barrel acc' ∧ framesOk barrel running lanes none ps' gs fst'
          else framesOk barrel running lanes (some acc') ps' gs fst'

/-- frames along one payload: a stop page leaves the open frame alone -/
def payloadFrames (barrel : Barrel) (running : Bool) (st : LSt) (fst : FSt) : Payload → FSt → Prop
  | .stop _, fst' => fst' = fst
  | .page p, fst' => framesOk barrel running (ihwActiveLanes p.ihw) fst { sod := true, cdw := st.cdw } p.segs fst'

end Proto
end FastPasta
