/- GENERATED on every run by tools/rs2lean.py from the Rust sources listed below — do not edit.
   alice_protocol_reader/src/rdh/rdh0.rs
   alice_protocol_reader/src/rdh/rdh1.rs
   alice_protocol_reader/src/rdh/rdh2.rs
   alice_protocol_reader/src/rdh/rdh3.rs
   alice_protocol_reader/src/rdh/rdh_cru.rs
   fastpasta/src/words/its/status_words/ihw.rs
   fastpasta/src/words/its/status_words/tdh.rs
   fastpasta/src/words/its/status_words/tdt.rs
   fastpasta/src/words/its/status_words/ddw.rs
   fastpasta/src/words/its/status_words/cdw.rs
   fastpasta/src/analyze/validators/its/status_word/tdh.rs
   fastpasta/src/analyze/validators/its/status_word/util.rs
   fastpasta/src/analyze/validators/its/cdp_running/cdp_tracker.rs
   fastpasta/src/analyze/validators/its/cdp_running/rdh_validator.rs
   fastpasta/src/analyze/validators/its/status_word.rs
   fastpasta/src/analyze/validators/its/status_word/ihw.rs
   fastpasta/src/analyze/validators/its/status_word/tdt.rs
   fastpasta/src/analyze/validators/its/status_word/ddw.rs
-/
import FastPasta.Spec.RsPrelude
import FastPasta.Spec.WordsSrcGen
import FastPasta.Spec.RdhSrcGen
set_option linter.unusedVariables false
namespace FastPasta
namespace SrcState
structure TdhValidator where
  deriving DecidableEq, Repr, Inhabited
structure TdhBuffer where
  f_current_tdh : (Option SrcWords.Tdh)
  f_previous_tdh : (Option SrcWords.Tdh)
  f_previous_tdh_with_internal_set : (Option SrcWords.Tdh)
  deriving DecidableEq, Repr, Inhabited
structure StatusWordContainer where
  f_ihw : (Option SrcWords.Ihw)
  f_tdhs : TdhBuffer
  f_tdt : (Option SrcWords.Tdt)
  f_ddw0 : (Option SrcWords.Ddw0)
  f_cdw : (Option SrcWords.Cdw)
  deriving DecidableEq, Repr, Inhabited
structure CdpTracker where
  f_payload_mem_pos : Nat
  f_gbt_word_counter : Nat
  f_gbt_word_padding_size_bytes : Nat
  f_is_start_of_data : Bool
  deriving DecidableEq, Repr, Inhabited
structure ItsRdhValidator where
  f_rdh : (Option SrcRdh.RdhCru)
  deriving DecidableEq, Repr, Inhabited
structure StatusWordSanityChecker where
  deriving DecidableEq, Repr, Inhabited
def CdpTracker.new (rdh : SrcRdh.RdhCru) (rdh_mem_pos : Nat) : CdpTracker :=
  { f_payload_mem_pos := ((rdh_mem_pos + 64) % 2^64), f_gbt_word_counter := 0, f_gbt_word_padding_size_bytes := (if ((SrcRdh.RdhCru.data_format (rdh)) == 0) then 6 else 0), f_is_start_of_data := true : CdpTracker }

def CdpTracker.start_of_data (self_ : CdpTracker) : Bool :=
  self_.f_is_start_of_data

def CdpTracker.set_data_seen (self_ : CdpTracker) : (Unit × CdpTracker) :=
  (let self__1 := { self_ with f_is_start_of_data := false }; ((), self__1))

def CdpTracker.current_word_mem_pos (self_ : CdpTracker) : Nat :=
  (let gbt_word_memory_size_bytes := ((10 + self_.f_gbt_word_padding_size_bytes) % 2^64); (let gbt_word_index := (((self_.f_gbt_word_counter + 2^16 - 1) % 2^16)); (let relative_mem_pos := ((gbt_word_index * gbt_word_memory_size_bytes) % 2^64); ((relative_mem_pos + self_.f_payload_mem_pos) % 2^64))))

def CdpTracker.incr_word_count (self_ : CdpTracker) : (Unit × CdpTracker) :=
  (let self__1 := { self_ with f_gbt_word_counter := ((self_.f_gbt_word_counter + 1) % 2^16) }; ((), self__1))

def StatusWordContainer.new_const  : StatusWordContainer :=
  { f_ihw := none, f_tdhs := { f_current_tdh := none, f_previous_tdh := none, f_previous_tdh_with_internal_set := none : TdhBuffer }, f_tdt := none, f_ddw0 := none, f_cdw := none : StatusWordContainer }

def TdhBuffer.replace (self_ : TdhBuffer) (tdh : SrcWords.Tdh) : (Unit × TdhBuffer) :=
  (let old_2 := self_.f_current_tdh; (let self__2 := { self_ with f_current_tdh := (some tdh) }; (let old_tdh := old_2; (let self_ := (if (match old_tdh with | some old => ((SrcWords.Tdh.internal_trigger (old)) == 1) | none => false) then (let self_ := { self__2 with f_previous_tdh_with_internal_set := old_tdh }; self_) else self__2); (let self__5 := { self_ with f_previous_tdh := old_tdh }; ((), self__5))))))

def StatusWordContainer.replace_tdh (self_ : StatusWordContainer) (tdh : SrcWords.Tdh) : (Unit × StatusWordContainer) :=
  (let c_1 := (TdhBuffer.replace (self_.f_tdhs) (tdh)); (let self__2 := { self_ with f_tdhs := c_1.2 }; ((), self__2)))

def TdhBuffer.current_tdh (self_ : TdhBuffer) : (Option SrcWords.Tdh) :=
  self_.f_current_tdh

def StatusWordContainer.tdh (self_ : StatusWordContainer) : (Option SrcWords.Tdh) :=
  (TdhBuffer.current_tdh (self_.f_tdhs))

def TdhBuffer.previous_tdh (self_ : TdhBuffer) : (Option SrcWords.Tdh) :=
  self_.f_previous_tdh

def StatusWordContainer.prv_tdh (self_ : StatusWordContainer) : (Option SrcWords.Tdh) :=
  (TdhBuffer.previous_tdh (self_.f_tdhs))

def TdhBuffer.previous_tdh_with_internal_trg (self_ : TdhBuffer) : (Option SrcWords.Tdh) :=
  self_.f_previous_tdh_with_internal_set

def StatusWordContainer.tdh_previous_with_internal_trg (self_ : StatusWordContainer) : (Option SrcWords.Tdh) :=
  (TdhBuffer.previous_tdh_with_internal_trg (self_.f_tdhs))

def StatusWordContainer.replace_ihw (self_ : StatusWordContainer) (ihw : SrcWords.Ihw) : (Unit × StatusWordContainer) :=
  (let self__1 := { self_ with f_ihw := (some ihw) }; ((), self__1))

def StatusWordContainer.ihw (self_ : StatusWordContainer) : (Option SrcWords.Ihw) :=
  self_.f_ihw

def StatusWordContainer.replace_tdt (self_ : StatusWordContainer) (tdt : SrcWords.Tdt) : (Unit × StatusWordContainer) :=
  (let self__1 := { self_ with f_tdt := (some tdt) }; ((), self__1))

def StatusWordContainer.replace_ddw (self_ : StatusWordContainer) (ddw0 : SrcWords.Ddw0) : (Unit × StatusWordContainer) :=
  (let self__1 := { self_ with f_ddw0 := (some ddw0) }; ((), self__1))

def StatusWordContainer.replace_cdw (self_ : StatusWordContainer) (cdw : SrcWords.Cdw) : (Unit × StatusWordContainer) :=
  (let self__1 := { self_ with f_cdw := (some cdw) }; ((), self__1))

def StatusWordContainer.cdw (self_ : StatusWordContainer) : (Option SrcWords.Cdw) :=
  self_.f_cdw

def TdhValidator.matches_trigger_interval (current_trg_bc : Nat) (previous_trg_bc : Nat) (specified_period : Nat) : (Rs.ResV Nat Unit) :=
  (let detected_period := (if (decide (current_trg_bc < previous_trg_bc)) then (let distance_to_max := ((((SrcWords.Tdh.MAX_BC + 2^16 - previous_trg_bc) % 2^16) + 1) % 2^16); ((distance_to_max + current_trg_bc) % 2^16)) else ((current_trg_bc + 2^16 - previous_trg_bc) % 2^16)); (if (detected_period == specified_period) then (Rs.ResV.ok ()) else (Rs.ResV.err detected_period)))

def TdhValidator.check_trigger_interval (tdh : SrcWords.Tdh) (prev_int_tdh : SrcWords.Tdh) (expect_period : Nat) : (Rs.Res Unit) :=
  (if ((TdhValidator.matches_trigger_interval ((SrcWords.Tdh.trigger_bc (tdh))) ((SrcWords.Tdh.trigger_bc (prev_int_tdh))) (expect_period))).isErr then (Rs.Res.err (Rs.Str.lit true [45])) else (Rs.Res.ok ()))

def TdhValidator.check_after_tdt_packet_done_true (status_words : StatusWordContainer) : (Rs.ResV Unit Unit) :=
  (if ((StatusWordContainer.prv_tdh (status_words))).isSome then (if (decide ((SrcWords.Tdh.trigger_bc ((Rs.unwrapD (StatusWordContainer.prv_tdh (status_words))))) > (SrcWords.Tdh.trigger_bc ((Rs.unwrapD (StatusWordContainer.tdh (status_words))))))) then (Rs.ResV.err ()) else (Rs.ResV.ok ())) else (Rs.ResV.ok ()))

def TdhValidator.check_tdh_rdh_bc_trigger_type_match (tdh : SrcWords.Tdh) (rdh : SrcRdh.RdhCru) (errors : Rs.Str) : Rs.Str :=
  (let errors_1 := (if ((SrcWords.Tdh.trigger_bc (tdh)) != (SrcRdh.Rdh1.bc ((SrcRdh.RdhCru.rdh1 (rdh))))) then (let errors_1 := (errors.app (Rs.Str.lit true [445])); errors_1) else errors); (let rdh_trigger_type_12_lsb := (((SrcRdh.RdhCru.rdh2 (rdh)).f_trigger_type % 2^16) &&& (Rs.mask 0 12)); (if (rdh_trigger_type_12_lsb != (SrcWords.Tdh.trigger_type (tdh))) then (let errors := (errors_1.app (Rs.Str.lit true [44])); errors) else errors_1)))

def TdhValidator.check_tdh_no_continuation (tdh : SrcWords.Tdh) (rdh : SrcRdh.RdhCru) : (Rs.Res Unit) :=
  (let errors := Rs.Str.empty; (let errors_2 := (if ((SrcWords.Tdh.continuation (tdh)) != 0) then (let errors_2 := (errors.app (Rs.Str.lit true [42])); errors_2) else errors); (let errors := (if ((SrcWords.Tdh.trigger_orbit (tdh)) != (SrcRdh.RdhCru.rdh1 (rdh)).f_orbit) then (let errors := (errors_2.app (Rs.Str.lit true [444])); errors) else errors_2); (let errors_4 := (if (((SrcRdh.RdhCru.pages_counter (rdh)) == 0) && ((((SrcWords.Tdh.internal_trigger (tdh)) == 1) || (SrcRdh.Rdh2.is_pht_trigger ((SrcRdh.RdhCru.rdh2 (rdh))))))) then (let errors_4 := (TdhValidator.check_tdh_rdh_bc_trigger_type_match (tdh) (rdh) (errors)); errors_4) else errors); (if (!errors_4.nonEmpty) then (Rs.Res.ok ()) else (Rs.Res.err errors_4))))))

def TdhValidator.check_continuation (tdh : SrcWords.Tdh) (prev_tdh : (Option SrcWords.Tdh)) : (Rs.Res Unit) :=
  (let errors := Rs.Str.empty; (let errors_2 := (if ((SrcWords.Tdh.continuation (tdh)) != 1) then (let errors_2 := (errors.app (Rs.Str.lit true [41])); errors_2) else errors); (let errors := (if (prev_tdh).isSome then (let errors := (if ((SrcWords.Tdh.trigger_bc (tdh)) != (SrcWords.Tdh.trigger_bc ((Rs.unwrapD prev_tdh)))) then (let errors := (errors_2.app (Rs.Str.lit true [441])); errors) else errors_2); (let errors_4 := (if ((SrcWords.Tdh.trigger_orbit (tdh)) != (SrcWords.Tdh.trigger_orbit ((Rs.unwrapD prev_tdh)))) then (let errors_4 := (errors.app (Rs.Str.lit true [442])); errors_4) else errors); (let errors := (if ((SrcWords.Tdh.trigger_type (tdh)) != (SrcWords.Tdh.trigger_type ((Rs.unwrapD prev_tdh)))) then (let errors := (errors_4.app (Rs.Str.lit true [443])); errors) else errors_4); errors))) else errors_2); (if (!errors.nonEmpty) then (Rs.Res.ok ()) else (Rs.Res.err errors)))))

def ItsRdhValidator.new (rdh : SrcRdh.RdhCru) : ItsRdhValidator :=
  { f_rdh := (some rdh) : ItsRdhValidator }

def ItsRdhValidator.check_at_ddw0 (self_ : ItsRdhValidator) : (Rs.Res Unit) :=
  (let errors := Rs.Str.empty; (let errors_2 := (if ((SrcRdh.RdhCru.stop_bit ((Rs.unwrapD self_.f_rdh))) != 1) then (let errors_2 := (errors.app (Rs.Str.lit true [110])); errors_2) else errors); (let errors := (if ((SrcRdh.RdhCru.pages_counter ((Rs.unwrapD self_.f_rdh))) == 0) then (let errors := (errors_2.app (Rs.Str.lit true [111])); errors) else errors_2); (if (!errors.nonEmpty) then (Rs.Res.ok ()) else (Rs.Res.err errors)))))

def ItsRdhValidator.check_at_initial_ihw (self_ : ItsRdhValidator) : (Rs.Res Unit) :=
  (let errors := Rs.Str.empty; (let errors_2 := (if ((SrcRdh.RdhCru.stop_bit ((Rs.unwrapD self_.f_rdh))) != 0) then (let errors_2 := (errors.app (Rs.Str.lit true [12])); errors_2) else errors); (if (!errors_2.nonEmpty) then (Rs.Res.ok ()) else (Rs.Res.err errors_2))))

def StatusWordSanityChecker.check_ihw (ihw : SrcWords.Ihw) : (Rs.Res Unit) :=
  (SrcWords.IhwValidator.sanity_check (ihw))

def StatusWordContainer.sanity_check_ihw (self_ : StatusWordContainer) (ihw : SrcWords.Ihw) : (Rs.Res Unit) :=
  (StatusWordSanityChecker.check_ihw (ihw))

def TdhValidator.sanity_check (tdh : SrcWords.Tdh) : (Rs.Res Unit) :=
  (let err_str := Rs.Str.empty; (if ((SrcWords.Tdh.id (tdh)) != SrcWords.Tdh.ID) then (let err_str_2 := (err_str.app (Rs.Str.lit true [])); (Rs.Res.err err_str_2)) else (let err_str_2 := (if (!(SrcWords.Tdh.is_reserved_0 (tdh))) then (let err_str_2 := (err_str.app (Rs.Str.lit true [])); err_str_2) else err_str); (let err_str := (if (((SrcWords.Tdh.trigger_type (tdh)) == 0) && ((SrcWords.Tdh.internal_trigger (tdh)) == 0)) then (let err_str := (err_str_2.app (Rs.Str.lit true [])); err_str) else err_str_2); (if (!err_str.nonEmpty) then (Rs.Res.ok ()) else (Rs.Res.err err_str))))))

def StatusWordSanityChecker.check_tdh (tdh : SrcWords.Tdh) : (Rs.Res Unit) :=
  (TdhValidator.sanity_check (tdh))

def StatusWordContainer.sanity_check_tdh (self_ : StatusWordContainer) (tdh : SrcWords.Tdh) : (Rs.Res Unit) :=
  (StatusWordSanityChecker.check_tdh (tdh))

def StatusWordSanityChecker.check_tdt (tdt : SrcWords.Tdt) : (Rs.Res Unit) :=
  (SrcWords.TdtValidator.sanity_check (tdt))

def StatusWordContainer.sanity_check_tdt (self_ : StatusWordContainer) (tdt : SrcWords.Tdt) : (Rs.Res Unit) :=
  (StatusWordSanityChecker.check_tdt (tdt))

def StatusWordSanityChecker.check_ddw0 (ddw0 : SrcWords.Ddw0) : (Rs.Res Unit) :=
  (SrcWords.Ddw0Validator.sanity_check (ddw0))

def StatusWordContainer.sanity_check_ddw0 (self_ : StatusWordContainer) (ddw0 : SrcWords.Ddw0) : (Rs.Res Unit) :=
  (StatusWordSanityChecker.check_ddw0 (ddw0))

def ItsRdhValidator.rdh (self_ : ItsRdhValidator) : SrcRdh.RdhCru :=
  (Rs.unwrapD self_.f_rdh)

/-! kernel-checked: every literal mask was split into contiguous runs correctly -/
example : (Rs.mask 0 12) = 4095 := by decide
end SrcState
end FastPasta
