/-
  Spec.AlpideEnc — an ALPIDE lane encoder (independent of the decoder): a lane's data in one
  readout frame is a sequence of events — chip frames (header, bunch-counter byte, regions with
  short (2-byte) and long (3-byte) pixel-hit words, trailer with 4 readout flags), chip empty
  frames, BUSY on/off words and idle (0x00) bytes between chips.
-/
import FastPasta.Model.Alpide
namespace FastPasta

inductive Hit
  | short (b0 b1 : UInt8)        -- DATA SHORT: 01<encoder id><addr…>
  | long (b0 b1 b2 : UInt8)      -- DATA LONG:  00<encoder id><addr…> 0<hit map>
  deriving Repr, DecidableEq

/-- only the two leading bits of the first byte are fixed by the format; everything else is
    arbitrary hit content -/
def Hit.Valid : Hit → Prop
  | .short b0 _ => b0.toNat / 64 = 1
  | .long b0 _ _ => b0.toNat / 64 = 0

def Hit.bytes : Hit → Bytes
  | .short b0 b1 => [b0, b1]
  | .long b0 b1 b2 => [b0, b1, b2]

structure Region where
  id : Nat
  hits : List Hit
  deriving Repr

def Region.bytes (r : Region) : Bytes := UInt8.ofNat (0xC0 + r.id) :: r.hits.flatMap Hit.bytes

inductive Event
  | chip (id : Nat) (bc : UInt8) (flags : Nat) (regions : List Region)
  | empty (id : Nat) (bc : UInt8)
  | busyOn | busyOff
  | idle (n : Nat)
  deriving Repr

def Event.Valid : Event → Prop
  | .chip id _ flags regions => id < 16 ∧ flags < 16 ∧ ∀ r ∈ regions, r.id < 32 ∧ ∀ h ∈ r.hits, h.Valid
  | .empty id _ => id < 16
  | _ => True

def Event.bytes : Event → Bytes
  | .chip id bc flags regions =>
    [UInt8.ofNat (0xA0 + id), bc] ++ regions.flatMap Region.bytes ++ [UInt8.ofNat (0xB0 + flags)]
  | .empty id bc => [UInt8.ofNat (0xE0 + id), bc]
  | .busyOn => [0xF0]
  | .busyOff => [0xF1]
  | .idle n => List.replicate n 0x00

def encodeLane (evs : List Event) : Bytes := evs.flatMap Event.bytes

/-- what the lane *means*: the chips (id, bunch counter) in order and the readout flags seen -/
def Event.apply (d : LaneDec) : Event → LaneDec
  | .chip id bc flags _ =>
    let d1 := if d.chips.any (·.1 == id) then { d with bcErr := true, lastChip := id }
              else { d with chips := d.chips ++ [(id, bc.toNat)], lastChip := id }
    { d1 with stats := d1.stats.logTrailer (0xB0 + flags) }
  | .empty id bc =>
    if d.chips.any (·.1 == id) then { d with bcErr := true, lastChip := id }
    else { d with chips := d.chips ++ [(id, bc.toNat)], lastChip := id }
  | _ => d

/-- events with the same skeleton: same kinds, ids, bunch counters and flags; region headers and
    pixel hits may differ arbitrarily -/
def Event.sameSkeleton : Event → Event → Prop
  | .chip i b f _, .chip i' b' f' _ => i = i' ∧ b = b' ∧ f = f'
  | .empty i b, .empty i' b' => i = i' ∧ b = b'
  | .busyOn, .busyOn | .busyOff, .busyOff => True
  | .idle _, .idle _ => True
  | _, _ => False

end FastPasta
