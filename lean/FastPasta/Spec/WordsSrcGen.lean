/- GENERATED on every run by tools/rs2lean.py from the Rust sources listed below — do not edit.
   fastpasta/src/words/its/status_words/ihw.rs
   fastpasta/src/words/its/status_words/tdh.rs
   fastpasta/src/words/its/status_words/tdt.rs
   fastpasta/src/words/its/status_words/ddw.rs
   fastpasta/src/words/its/status_words/cdw.rs
   fastpasta/src/words/its/status_words/util.rs
   fastpasta/src/words/its/data_words.rs
   fastpasta/src/analyze/validators/its/status_word/ihw.rs
   fastpasta/src/analyze/validators/its/status_word/tdh.rs
   fastpasta/src/analyze/validators/its/status_word/tdt.rs
   fastpasta/src/analyze/validators/its/status_word/ddw.rs
   fastpasta/src/analyze/validators/its/data_words.rs
   fastpasta/src/analyze/validators/its/data_words/ib.rs
   fastpasta/src/analyze/validators/its/data_words/ob.rs
-/
import FastPasta.Spec.RsPrelude
set_option linter.unusedVariables false
namespace FastPasta
namespace SrcWords
structure Ihw where
  f_active_lanes : Nat
  f_reserved : Nat
  f_id : Nat
  deriving DecidableEq, Repr, Inhabited
structure Tdh where
  f_trigger_type_internal_trigger_no_data_continuation_reserved2 : Nat
  f_trigger_bc_reserved1 : Nat
  f_trigger_orbit : Nat
  f_reserved0_id : Nat
  deriving DecidableEq, Repr, Inhabited
structure Tdt where
  f_lane_status_15_0 : Nat
  f_lane_status_23_16 : Nat
  f_lane_status_27_24 : Nat
  f_timeout_to_start_timeout_start_stop_timeout_in_idle_res2 : Nat
  f_res0_lane_starts_violation_res1_transmission_timeout_packet_done : Nat
  f_id : Nat
  deriving DecidableEq, Repr, Inhabited
structure Ddw0 where
  f_res3_lane_status : Nat
  f_index : Nat
  f_id : Nat
  deriving DecidableEq, Repr, Inhabited
structure Cdw where
  f_calibration_word_index_lsb_calibration_user_fields : Nat
  f_calibration_word_index_msb : Nat
  f_id : Nat
  deriving DecidableEq, Repr, Inhabited
structure IhwValidator where
  deriving DecidableEq, Repr, Inhabited
structure TdhValidator where
  deriving DecidableEq, Repr, Inhabited
structure TdtValidator where
  deriving DecidableEq, Repr, Inhabited
structure Ddw0Validator where
  deriving DecidableEq, Repr, Inhabited
structure DataWordSanityChecker where
  deriving DecidableEq, Repr, Inhabited
structure IbDataWordValidator where
  deriving DecidableEq, Repr, Inhabited
structure ObDataWordValidator where
  deriving DecidableEq, Repr, Inhabited
def Ihw.from_buf (buf : Bytes) : (Rs.Res Ihw) :=
  (Rs.Res.ok { f_active_lanes := (leField buf 0 4), f_reserved := (leField buf 4 4), f_id := (leField buf 8 2) : Ihw })

def Tdh.from_buf (buf : Bytes) : (Rs.Res Tdh) :=
  (Rs.Res.ok { f_trigger_type_internal_trigger_no_data_continuation_reserved2 := (leField buf 0 2), f_trigger_bc_reserved1 := (leField buf 2 2), f_trigger_orbit := (leField buf 4 4), f_reserved0_id := (leField buf 8 2) : Tdh })

def Tdt.from_buf (buf : Bytes) : (Rs.Res Tdt) :=
  (Rs.Res.ok { f_lane_status_15_0 := (leField buf 0 4), f_lane_status_23_16 := (leField buf 4 2), f_lane_status_27_24 := (bAt buf 6), f_timeout_to_start_timeout_start_stop_timeout_in_idle_res2 := (bAt buf 7), f_res0_lane_starts_violation_res1_transmission_timeout_packet_done := (bAt buf 8), f_id := (bAt buf 9) : Tdt })

def Ddw0.from_buf (buf : Bytes) : (Rs.Res Ddw0) :=
  (Rs.Res.ok { f_res3_lane_status := (leField buf 0 8), f_index := (bAt buf 8), f_id := (bAt buf 9) : Ddw0 })

def Cdw.from_buf (buf : Bytes) : (Rs.Res Cdw) :=
  (Rs.Res.ok { f_calibration_word_index_lsb_calibration_user_fields := (leField buf 0 8), f_calibration_word_index_msb := (bAt buf 8), f_id := (bAt buf 9) : Cdw })

def Ihw.ID : Nat := 224

def Ihw.id (self_ : Ihw) : Nat :=
  (((self_.f_id >>> 8)) % 2^8)

def Ihw.reserved (self_ : Ihw) : Nat :=
  (let four_lsb := (((((self_.f_active_lanes >>> 28)) &&& (Rs.mask 0 4))) % 2^8); (let eight_msb := (self_.f_id &&& (Rs.mask 0 8)); (((((eight_msb) <<< 36) % 2^64) ||| (((self_.f_reserved) <<< 4) % 2^64)) ||| (four_lsb))))

def Ihw.is_reserved_0 (self_ : Ihw) : Bool :=
  ((Ihw.reserved (self_)) == 0)

def IhwValidator.sanity_check (ihw : Ihw) : (Rs.Res Unit) :=
  (let err_str := Rs.Str.empty; (if ((Ihw.id (ihw)) != Ihw.ID) then (let err_str_2 := (err_str.app (Rs.Str.lit true [])); (Rs.Res.err err_str_2)) else (let err_str_2 := (if (!(Ihw.is_reserved_0 (ihw))) then (let err_str_2 := (err_str.app (Rs.Str.lit true [])); err_str_2) else err_str); (if (!err_str_2.nonEmpty) then (Rs.Res.ok ()) else (Rs.Res.err err_str_2)))))

def Tdh.trigger_type (self_ : Tdh) : Nat :=
  (self_.f_trigger_type_internal_trigger_no_data_continuation_reserved2 &&& (Rs.mask 0 12))

def Tdh.internal_trigger (self_ : Tdh) : Nat :=
  (((self_.f_trigger_type_internal_trigger_no_data_continuation_reserved2 &&& (Rs.mask 12 1))) >>> 12)

def Tdh.ID : Nat := 232

def Tdh.id (self_ : Tdh) : Nat :=
  (((self_.f_reserved0_id >>> 8)) % 2^8)

def Tdh.reserved0 (self_ : Tdh) : Nat :=
  (self_.f_reserved0_id &&& (Rs.mask 0 8))

def Tdh.reserved1 (self_ : Tdh) : Nat :=
  (self_.f_trigger_bc_reserved1 &&& (Rs.mask 12 4))

def Tdh.reserved2 (self_ : Tdh) : Nat :=
  (self_.f_trigger_type_internal_trigger_no_data_continuation_reserved2 &&& (Rs.mask 15 1))

def Tdh.is_reserved_0 (self_ : Tdh) : Bool :=
  ((((Tdh.reserved0 (self_)) == 0) && ((Tdh.reserved1 (self_)) == 0)) && ((Tdh.reserved2 (self_)) == 0))

def TdhValidator.sanity_check (tdh : Tdh) : (Rs.Res Unit) :=
  (let err_str := Rs.Str.empty; (if ((Tdh.id (tdh)) != Tdh.ID) then (let err_str_2 := (err_str.app (Rs.Str.lit true [])); (Rs.Res.err err_str_2)) else (let err_str_2 := (if (!(Tdh.is_reserved_0 (tdh))) then (let err_str_2 := (err_str.app (Rs.Str.lit true [])); err_str_2) else err_str); (let err_str := (if (((Tdh.trigger_type (tdh)) == 0) && ((Tdh.internal_trigger (tdh)) == 0)) then (let err_str := (err_str_2.app (Rs.Str.lit true [])); err_str) else err_str_2); (if (!err_str.nonEmpty) then (Rs.Res.ok ()) else (Rs.Res.err err_str))))))

def Tdt.ID : Nat := 240

def Tdt.id (self_ : Tdt) : Nat :=
  self_.f_id

def Tdt.reserved0 (self_ : Tdt) : Nat :=
  (self_.f_res0_lane_starts_violation_res1_transmission_timeout_packet_done >>> 4)

def Tdt.reserved1 (self_ : Tdt) : Nat :=
  (self_.f_res0_lane_starts_violation_res1_transmission_timeout_packet_done &&& (Rs.mask 2 1))

def Tdt.reserved2 (self_ : Tdt) : Nat :=
  (self_.f_timeout_to_start_timeout_start_stop_timeout_in_idle_res2 &&& (Rs.mask 0 5))

def Tdt.is_reserved_0 (self_ : Tdt) : Bool :=
  ((((Tdt.reserved0 (self_)) == 0) && ((Tdt.reserved1 (self_)) == 0)) && ((Tdt.reserved2 (self_)) == 0))

def TdtValidator.sanity_check (tdt : Tdt) : (Rs.Res Unit) :=
  (let err_str := Rs.Str.empty; (if ((Tdt.id (tdt)) != Tdt.ID) then (let err_str_2 := (err_str.app (Rs.Str.lit true [])); (Rs.Res.err err_str_2)) else (let err_str_2 := (if (!(Tdt.is_reserved_0 (tdt))) then (let err_str_2 := (err_str.app (Rs.Str.lit true [])); err_str_2) else err_str); (if (!err_str_2.nonEmpty) then (Rs.Res.ok ()) else (Rs.Res.err err_str_2)))))

def Ddw0.ID : Nat := 228

def Ddw0.id (self_ : Ddw0) : Nat :=
  self_.f_id

def Ddw0.reserved0_1 (self_ : Ddw0) : Nat :=
  (self_.f_index &&& (Rs.mask 0 1 ||| Rs.mask 2 1))

def Ddw0.is_reserved_0 (self_ : Ddw0) : Bool :=
  (((Ddw0.reserved0_1 (self_)) == 0) && (((self_.f_res3_lane_status &&& (Rs.mask 56 8))) == 0))

def Ddw0.index (self_ : Ddw0) : Nat :=
  (((self_.f_index &&& (Rs.mask 4 4))) >>> 4)

def Ddw0Validator.sanity_check (ddw0 : Ddw0) : (Rs.Res Unit) :=
  (let err_str := Rs.Str.empty; (if ((Ddw0.id (ddw0)) != Ddw0.ID) then (let err_str_2 := (err_str.app (Rs.Str.lit true [])); (Rs.Res.err err_str_2)) else (let err_str_2 := (if (!(Ddw0.is_reserved_0 (ddw0))) then (let err_str_2 := (err_str.app (Rs.Str.lit true [])); err_str_2) else err_str); (let err_str := (if ((Ddw0.index (ddw0)) != 0) then (let err_str := (err_str_2.app (Rs.Str.lit true [])); err_str) else err_str_2); (if (!(!err_str.nonEmpty)) then (Rs.Res.err err_str) else (Rs.Res.ok ()))))))

def Ihw.active_lanes (self_ : Ihw) : Nat :=
  (self_.f_active_lanes &&& (Rs.mask 0 28))

def Tdh.no_data (self_ : Tdh) : Nat :=
  (((self_.f_trigger_type_internal_trigger_no_data_continuation_reserved2 &&& (Rs.mask 13 1))) >>> 13)

def Tdh.continuation (self_ : Tdh) : Nat :=
  (((self_.f_trigger_type_internal_trigger_no_data_continuation_reserved2 &&& (Rs.mask 14 1))) >>> 14)

def Tdh.trigger_bc (self_ : Tdh) : Nat :=
  (self_.f_trigger_bc_reserved1 &&& (Rs.mask 0 12))

def Tdh.trigger_orbit (self_ : Tdh) : Nat :=
  self_.f_trigger_orbit

def Tdt.packet_done (self_ : Tdt) : Bool :=
  (((self_.f_res0_lane_starts_violation_res1_transmission_timeout_packet_done &&& (Rs.mask 0 1))) == 1)

def Cdw.calibration_word_index (self_ : Cdw) : Nat :=
  (((((self_.f_calibration_word_index_msb) <<< 16) % 2^32)) ||| ((((self_.f_calibration_word_index_lsb_calibration_user_fields >>> 48)) % 2^32)))

def Cdw.calibration_user_fields (self_ : Cdw) : Nat :=
  (self_.f_calibration_word_index_lsb_calibration_user_fields &&& (Rs.mask 0 48))

def tdh_no_data (tdh_slice : Bytes) : Bool :=
  (((bAt tdh_slice 1) &&& (Rs.mask 5 1)) != 0)

def tdh_continuation (tdh_slice : Bytes) : Bool :=
  (((bAt tdh_slice 1) &&& (Rs.mask 6 1)) != 0)

def tdt_packet_done (tdt_slice : Bytes) : Bool :=
  (((bAt tdt_slice 8) &&& (Rs.mask 0 1)) != 0)

def tdh_soc_trigger (tdh_slice : Bytes) : Bool :=
  (let SOC_BIT_MASK := 2; (((bAt tdh_slice 1) &&& (Rs.mask 1 1)) != 0))

def tdh_internal_trigger (tdh_slice : Bytes) : Bool :=
  (((bAt tdh_slice 1) &&& (Rs.mask 4 1)) != 0)

def tdh_physics_trigger (tdh_slice : Bytes) : Bool :=
  (((bAt tdh_slice 0) &&& (Rs.mask 4 1)) != 0)

def ddw0_tdt_lane_status_any_warning (ddw0_slice : Bytes) : Bool :=
  (let LANE_WARNING_MASK := 85; (let first_7_bytes := (Rs.slice ddw0_slice 0 7); (first_7_bytes.any (fun byte => ((byte.toNat &&& (Rs.mask 0 1 ||| Rs.mask 2 1 ||| Rs.mask 4 1 ||| Rs.mask 6 1)) != 0)))))

def ddw0_tdt_lane_status_any_error (ddw0_slice : Bytes) : Bool :=
  (let LANE_ERROR_MASK := 170; (let first_7_bytes := (Rs.slice ddw0_slice 0 7); (first_7_bytes.any (fun byte => ((byte.toNat &&& (Rs.mask 1 1 ||| Rs.mask 3 1 ||| Rs.mask 5 1 ||| Rs.mask 7 1)) != 0)))))

def ddw0_tdt_lane_status_any_fatal (ddw0_slice : Bytes) : Bool :=
  (let LANE_FATAL_MASK0 := 3; (let LANE_FATAL_MASK1 := 12; (let LANE_FATAL_MASK2 := 48; (let LANE_FATAL_MASK3 := 192; (let first_7_bytes := (Rs.slice ddw0_slice 0 7); (first_7_bytes.any (fun byte => (((((byte.toNat &&& (Rs.mask 0 2)) == LANE_FATAL_MASK0) || ((byte.toNat &&& (Rs.mask 2 2)) == LANE_FATAL_MASK1)) || ((byte.toNat &&& (Rs.mask 4 2)) == LANE_FATAL_MASK2)) || ((byte.toNat &&& (Rs.mask 6 2)) == LANE_FATAL_MASK3)))))))))

def is_lane_active (lane : Nat) (active_lanes : Nat) : Bool :=
  (let lane_1 := lane; (let mask := ((1 <<< (lane_1 % 32)) % 2^32); ((active_lanes &&& mask) != 0)))

def DataWordSanityChecker.is_valid_il_id (id : Nat) : Bool :=
  (decide (32 ≤ id) && decide (id ≤ 40))

def DataWordSanityChecker.is_valid_ml_id (id : Nat) : Bool :=
  ((((decide (67 ≤ id) && decide (id ≤ 70)) || (decide (72 ≤ id) && decide (id ≤ 75))) || (decide (83 ≤ id) && decide (id ≤ 86))) || (decide (88 ≤ id) && decide (id ≤ 91)))

def DataWordSanityChecker.is_valid_ol_id (id : Nat) : Bool :=
  ((((decide (64 ≤ id) && decide (id ≤ 70)) || (decide (72 ≤ id) && decide (id ≤ 78))) || (decide (80 ≤ id) && decide (id ≤ 86))) || (decide (88 ≤ id) && decide (id ≤ 94)))

def DataWordSanityChecker.is_valid_any_id (id : Nat) : Bool :=
  (((DataWordSanityChecker.is_valid_il_id (id)) || (DataWordSanityChecker.is_valid_ml_id (id))) || (DataWordSanityChecker.is_valid_ol_id (id)))

def DataWordSanityChecker.check_any (data_word : Bytes) : (Rs.Res Unit) :=
  (let err_str := Rs.Str.empty; (let id := (bAt data_word 9); (if (!(DataWordSanityChecker.is_valid_any_id (id))) then (let err_str_3 := (err_str.app (Rs.Str.lit true [])); (Rs.Res.err err_str_3)) else (Rs.Res.ok ()))))

def IbDataWordValidator.check (ib_data_word : Bytes) (ihw_active_lanes : Nat) : (Rs.Res Unit) :=
  (let lane_id := ((bAt ib_data_word 9) &&& (Rs.mask 0 5)); (if (is_lane_active (lane_id) (ihw_active_lanes)) then (Rs.Res.ok ()) else (Rs.Res.err (Rs.Str.lit true [72]))))

def ob_data_word_id_to_lane (data_word_id : Nat) : Nat :=
  (if (decide (data_word_id <= 70)) then (data_word_id % 64) else (if (decide (data_word_id <= 78)) then ((7 + ((data_word_id % 72))) % 2^8) else (if (decide (data_word_id <= 86)) then ((14 + ((data_word_id % 80))) % 2^8) else ((21 + ((data_word_id % 88))) % 2^8))))

def ob_data_word_id_to_input_number_connector (data_word_id : Nat) : Nat :=
  (data_word_id &&& (Rs.mask 0 3))

def ObDataWordValidator.check (ob_data_word_slice : Bytes) (ihw_active_lanes : Nat) : (Rs.Res Unit) :=
  (let errors := Rs.Str.empty; (let lane_id := (ob_data_word_id_to_lane ((bAt ob_data_word_slice 9))); (let errors_3 := (if (!(is_lane_active (lane_id) (ihw_active_lanes))) then (let errors_3 := (errors.app (Rs.Str.lit true [71])); errors_3) else errors); (let input_number_connector := (ob_data_word_id_to_input_number_connector ((bAt ob_data_word_slice 9))); (let errors := (if (decide (input_number_connector > 6)) then (let errors := (errors_3.app (Rs.Str.lit true [73])); errors) else errors_3); (if (!errors.nonEmpty) then (Rs.Res.ok ()) else (Rs.Res.err errors)))))))

def ib_data_word_id_to_lane (data_word_id : Nat) : Nat :=
  (data_word_id &&& (Rs.mask 0 5))

def Cdw.ID : Nat := 248

def Tdh.MAX_BC : Nat := 3563

def VALID_OL_CONNECT0_ID : (Nat × Nat) := (64, 70)

def VALID_OL_CONNECT1_ID : (Nat × Nat) := (72, 78)

def VALID_OL_CONNECT2_ID : (Nat × Nat) := (80, 86)

def VALID_OL_CONNECT3_ID : (Nat × Nat) := (88, 94)

def Ddw0.reserved2 (self_ : Ddw0) : Nat :=
  (((((self_.f_res3_lane_status &&& (Rs.mask 56 8))) >>> 56)) % 2^8)

def VALID_IL_ID : (Nat × Nat) := (32, 40)

def VALID_ML_CONNECT0_ID : (Nat × Nat) := (67, 70)

def VALID_ML_CONNECT1_ID : (Nat × Nat) := (72, 75)

def VALID_ML_CONNECT2_ID : (Nat × Nat) := (83, 86)

def VALID_ML_CONNECT3_ID : (Nat × Nat) := (88, 91)

/-! kernel-checked: every literal mask was split into contiguous runs correctly -/
example : (Rs.mask 0 28) = 268435455 := by decide
example : (Rs.mask 0 12) = 4095 := by decide
example : (Rs.mask 12 1) = 4096 := by decide
example : (Rs.mask 13 1) = 8192 := by decide
example : (Rs.mask 14 1) = 16384 := by decide
example : (Rs.mask 0 1) = 1 := by decide
example : (Rs.mask 0 48) = 281474976710655 := by decide
example : (Rs.mask 5 1) = 32 := by decide
example : (Rs.mask 6 1) = 64 := by decide
example : (Rs.mask 1 1) = 2 := by decide
example : (Rs.mask 4 1) = 16 := by decide
example : (Rs.mask 0 1 ||| Rs.mask 2 1 ||| Rs.mask 4 1 ||| Rs.mask 6 1) = 85 := by decide
example : (Rs.mask 1 1 ||| Rs.mask 3 1 ||| Rs.mask 5 1 ||| Rs.mask 7 1) = 170 := by decide
example : (Rs.mask 0 2) = 3 := by decide
example : (Rs.mask 2 2) = 12 := by decide
example : (Rs.mask 4 2) = 48 := by decide
example : (Rs.mask 6 2) = 192 := by decide
example : (Rs.mask 0 5) = 31 := by decide
example : (Rs.mask 0 3) = 7 := by decide
example : (Rs.mask 0 4) = 15 := by decide
example : (Rs.mask 0 8) = 255 := by decide
example : (Rs.mask 12 4) = 61440 := by decide
example : (Rs.mask 15 1) = 32768 := by decide
example : (Rs.mask 56 8) = 18374686479671623680 := by decide
example : (Rs.mask 0 1 ||| Rs.mask 2 1) = 5 := by decide
example : (Rs.mask 4 4) = 240 := by decide
example : (Rs.mask 2 1) = 4 := by decide
end SrcWords
end FastPasta
