/- GENERATED on every run by tools/rs2lean.py from the Rust sources listed below — do not edit.
   alice_protocol_reader/src/stats.rs
-/
import FastPasta.Spec.RsPrelude
set_option linter.unusedVariables false
namespace FastPasta
namespace SrcReaderStats
structure Stats where
  f_out : (List Rs.Stat)
  f_rdhs_seen : Nat
  f_rdhs_filtered : Nat
  f_payload_size_seen : Nat
  f_unique_links_observed : (List Nat)
  f_unique_feeids_observed : (List Nat)
  deriving DecidableEq, Repr, Inhabited
def Stats.try_add_link (self_ : Stats) (link : Nat) : (Unit × Stats) :=
  (if (!(self_.f_unique_links_observed.contains link)) then (let self__1 := { self_ with f_unique_links_observed := (self_.f_unique_links_observed ++ [link]) }; (let self_ := { self__1 with f_out := (self__1.f_out ++ [Rs.Stat.mk "LinksObserved" link]) }; ((), self_))) else ((), self_))

def Stats.try_add_fee_id (self_ : Stats) (fee_id : Nat) : (Unit × Stats) :=
  (if (!(self_.f_unique_feeids_observed.contains fee_id)) then (let self__1 := { self_ with f_unique_feeids_observed := (self_.f_unique_feeids_observed ++ [fee_id]) }; (let self_ := { self__1 with f_out := (self__1.f_out ++ [Rs.Stat.mk "FeeId" fee_id]) }; ((), self_))) else ((), self_))

def Stats.rdh_seen (self_ : Stats) : (Unit × Stats) :=
  (let self__1 := { self_ with f_rdhs_seen := ((self_.f_rdhs_seen + 1) % 2^32) }; (if (self__1.f_rdhs_seen == 4294967295) then (let self_ := { self__1 with f_out := (self__1.f_out ++ [Rs.Stat.mk "RDHSeen" 4294967295]) }; (let self__3 := { self_ with f_rdhs_seen := 0 }; ((), self__3))) else ((), self__1)))

def Stats.rdh_filtered (self_ : Stats) : (Unit × Stats) :=
  (let self__1 := { self_ with f_rdhs_filtered := ((self_.f_rdhs_filtered + 1) % 2^32) }; (if (self__1.f_rdhs_filtered == 4294967295) then (let self_ := { self__1 with f_out := (self__1.f_out ++ [Rs.Stat.mk "RDHFiltered" 4294967295]) }; (let self__3 := { self_ with f_rdhs_filtered := 0 }; ((), self__3))) else ((), self__1)))

def Stats.add_payload_size (self_ : Stats) (payload_size : Nat) : (Unit × Stats) :=
  (if ((if self_.f_payload_size_seen + payload_size < 2^32 then some (self_.f_payload_size_seen + payload_size) else none)).isSome then (let self__1 := { self_ with f_payload_size_seen := (Rs.unwrapD (if self_.f_payload_size_seen + payload_size < 2^32 then some (self_.f_payload_size_seen + payload_size) else none)) }; ((), self__1)) else (let self__1 := { self_ with f_out := (self_.f_out ++ [Rs.Stat.mk "PayloadSize" self_.f_payload_size_seen]) }; (let self_ := { self__1 with f_payload_size_seen := payload_size }; ((), self_))))

def Stats.flush_stats (self_ : Stats) : (Unit × Stats) :=
  (let self__1 := { self_ with f_out := (self_.f_out ++ [Rs.Stat.mk "RDHSeen" self_.f_rdhs_seen]) }; (let self_ := { self__1 with f_out := (self__1.f_out ++ [Rs.Stat.mk "RDHFiltered" self__1.f_rdhs_filtered]) }; (let self__3 := { self_ with f_out := (self_.f_out ++ [Rs.Stat.mk "PayloadSize" self_.f_payload_size_seen]) }; ((), self__3))))

/-! kernel-checked: every literal mask was split into contiguous runs correctly -/
end SrcReaderStats
end FastPasta
