/-
  Spec.Diagram — semantics of the documented continuous-mode state diagram
  (doc/ITS_payload_fsm_continuous_mode.puml, machine-translated into `DiagramGen`).

  Semantics fixed here (DESIGN.md §5.9):
  * a node named after a word type (IHW, TDH, TDT, DDW0 and their `c_` twins) is entered by
    *consuming* a word of that type; an edge whose guard names a word class consumes a word of
    that class; all other moves (into choice nodes, the `Data`/`c_Data` phases, the composite
    state and `[*]`) are silent;
  * guards on `no_data` / `packet_done` refer to the flags of the word consumed last;
  * `[*]` after DDW0 returns to the top-level start; entering the composite state `Continuation`
    continues at its inner start;
  * documented extension outside the diagram (doc/checks_list.md, README `[E8x]`): a CDW is legal
    wherever a data word is legal.
-/
import FastPasta.Spec.DiagramGen
import FastPasta.Model.Words
namespace FastPasta
open DiagramGen

inductive Kind | ihw | tdh | tdt | ddw0 | data | cdw | unknown
  deriving DecidableEq, Repr, Inhabited

/-- word type by identifier (ITS data format) -/
def kindOfId (id : Nat) : Kind :=
  if id == ID_IHW then .ihw else if id == ID_TDH then .tdh else if id == ID_TDT then .tdt
  else if id == ID_DDW0 then .ddw0 else if id == ID_CDW then .cdw
  else if isValidDataId id then .data else .unknown

/-- the word type consumed on entering a node -/
def consumes : Node → Option Kind
  | .n_IHW | .n_c_IHW => some .ihw
  | .n_TDH | .n_c_TDH => some .tdh
  | .n_TDT | .n_c_TDT => some .tdt
  | .n_DDW0 => some .ddw0
  | _ => none

/-- a diagram configuration: the node reached and the flags of the word consumed last -/
structure DCfg where
  node : Node
  noData : Bool
  packetDone : Bool
  deriving DecidableEq, Repr, Inhabited

def flagOk (c : DCfg) : G → Bool
  | .noData0 => !c.noData | .noData1 => c.noData | .pd0 => !c.packetDone | .pd1 => c.packetDone
  | _ => true

def wordGuard : List G → Option Kind
  | [] => none
  | .wTDH :: _ => some .tdh | .wDDW0 :: _ => some .ddw0 | .wIHW :: _ => some .ihw
  | .wData :: _ => some .data | .wTDT :: _ => some .tdt
  | _ :: gs => wordGuard gs

/-- silent continuation of a node that consumes nothing -/
def silentTarget (n : Node) : Node :=
  match composites.find? (·.1 == n) with
  | some (_, i) => i
  | none => if n == .n_top_final then .n_top_init else n

/-- the legal next (word type, node) pairs from node `n` under the flags of `c` -/
def reach : Nat → DCfg → Node → List (Kind × Node)
  | 0, _, _ => []
  | fuel + 1, c, n =>
    (edges.filter (fun e => e.1 == n && e.2.2.all (flagOk c))).flatMap fun e =>
      match wordGuard e.2.2 with
      | some k => [(k, e.2.1)]
      | none =>
        match consumes e.2.1 with
        | some k => [(k, e.2.1)]
        | none => reach fuel c (silentTarget e.2.1)

def legalNext (c : DCfg) : List (Kind × Node) :=
  let l := reach 8 c c.node
  -- extension: CDW legal wherever a data word is legal (stays in the same phase)
  l ++ (l.filter (·.1 == .data)).map (fun p => (.cdw, p.2))

/-- diagram step: `none` = the word is not legal here -/
def diagStep (c : DCfg) (id : Nat) (noData packetDone : Bool) : Option DCfg :=
  match (legalNext c).find? (·.1 == kindOfId id) with
  | some (_, n) => some { node := n, noData := noData, packetDone := packetDone }
  | none => none

def diagStart : DCfg := { node := .n_top_init, noData := false, packetDone := false }

end FastPasta
