/- GENERATED on every run by tools/rs2lean.py from the Rust sources listed below — do not edit.
   fastpasta/src/stats/stats_collector/trigger_stats.rs
   fastpasta/src/stats/stats_collector/rdh_stats.rs
   fastpasta/src/stats/stats_validation.rs
-/
import FastPasta.Spec.RsPrelude
import FastPasta.Spec.TrigSrcGen
set_option linter.unusedVariables false
namespace FastPasta
namespace SrcCustom
structure RdhStats where
  f_rdhs_seen : Nat
  f_trigger_stats : SrcTrig.TriggerStats
  deriving DecidableEq, Repr, Inhabited
/-- abstract view of the configuration object (a trait object in the source): one field per method chain the translated code uses -/
structure CustomAbs where
  cdps : (Option Nat)    -- cdps()
  triggersPht : (Option Nat)    -- triggers_pht()
def RdhStats.rdhs_seen (self_ : RdhStats) : Nat :=
  self_.f_rdhs_seen

def RdhStats.trigger_stats (self_ : RdhStats) : SrcTrig.TriggerStats :=
  self_.f_trigger_stats

def validate_custom_stats (custom_checks : CustomAbs) (rdh_stats : RdhStats) : (Rs.Res Unit) :=
  (let errors := Rs.Str.empty; (let errors_2 := (if (custom_checks.cdps).isSome then (let errors_2 := (if ((RdhStats.rdhs_seen (rdh_stats)) != (Rs.unwrapD custom_checks.cdps)) then (let errors_2 := (errors.app (Rs.Str.lit true [9001])); errors_2) else errors); errors_2) else errors); (let errors := (if (custom_checks.triggersPht).isSome then (let errors := (if ((SrcTrig.TriggerStats.pht ((RdhStats.trigger_stats (rdh_stats)))) != (Rs.unwrapD custom_checks.triggersPht)) then (let errors := (errors_2.app (Rs.Str.lit true [9002])); errors) else errors_2); errors) else errors_2); (if (!errors.nonEmpty) then (Rs.Res.ok ()) else (Rs.Res.err errors)))))

/-! kernel-checked: every literal mask was split into contiguous runs correctly -/
end SrcCustom
end FastPasta
