/- GENERATED on every run by tools/stats2lean.py from fastpasta/src/stats/{lib.rs,stats_collector.rs,stats_collector/*.rs} — do not edit. -/
namespace FastPasta
namespace SrcStats
def TriggerStats.fields : List String := ["orbit", "hb", "hbr", "hc", "pht", "pp", "cal", "sot", "eot", "soc", "eoc", "tf", "fe_rst", "rt", "rs", "lhc_gap1", "lhc_gap2", "tpc_sync", "tpc_rst", "tof"]
def TriggerStats.compared : List String := ["orbit", "hb", "hbr", "hc", "pht", "pp", "cal", "sot", "eot", "soc", "eoc", "tf", "fe_rst", "rt", "rs", "lhc_gap1", "lhc_gap2", "tpc_sync", "tpc_rst", "tof"]
def TriggerStats.subs : List String := []
def ItsStats.fields : List String := ["layer_staves_seen"]
def ItsStats.compared : List String := ["layer_staves_seen"]
def ItsStats.subs : List String := []
def ErrorStats.fields : List String := ["fatal_error", "reported_errors", "custom_checks_stats_errors", "total_errors", "unique_error_codes", "staves_with_errors"]
def ErrorStats.compared : List String := ["fatal_error", "reported_errors", "custom_checks_stats_errors", "total_errors", "unique_error_codes", "staves_with_errors"]
def ErrorStats.subs : List String := []
def ReadoutFlags.fields : List String := ["chip_trailers_seen", "busy_violations", "data_overrun", "transmission_in_fatal", "flushed_incomplete", "strobe_extended", "busy_transitions"]
def ReadoutFlags.compared : List String := ["chip_trailers_seen", "busy_violations", "flushed_incomplete", "strobe_extended", "busy_transitions", "data_overrun", "transmission_in_fatal"]
def ReadoutFlags.subs : List String := []
def AlpideStats.fields : List String := ["readout_flags"]
def AlpideStats.compared : List String := []
def AlpideStats.subs : List String := ["readout_flags"]
def RdhStats.fields : List String := ["rdhs_seen", "rdhs_filtered", "rdh_version", "hbfs_seen", "payload_size", "data_format", "links", "fee_id", "system_id", "run_trigger_type", "its_stats", "trigger_stats"]
def RdhStats.compared : List String := ["rdhs_seen", "rdhs_filtered", "rdh_version", "hbfs_seen", "payload_size", "data_format", "links", "fee_id", "system_id", "run_trigger_type"]
def RdhStats.subs : List String := ["its_stats", "trigger_stats"]
def StatsCollector.fields : List String := ["is_finalized", "rdh_stats", "error_stats", "alpide_stats"]
def StatsCollector.compared : List String := []
def StatsCollector.subs : List String := ["rdh_stats", "error_stats", "alpide_stats"]
/-- leaf names in the order `validate_other_stats` visits them -/
def order : List String := ["layer_staves_seen", "orbit", "hb", "hbr", "hc", "pht", "pp", "cal", "sot", "eot", "soc", "eoc", "tf", "fe_rst", "rt", "rs", "lhc_gap1", "lhc_gap2", "tpc_sync", "tpc_rst", "tof", "rdhs_seen", "rdhs_filtered", "rdh_version", "hbfs_seen", "payload_size", "data_format", "links", "fee_id", "system_id", "run_trigger_type", "fatal_error", "reported_errors", "custom_checks_stats_errors", "total_errors", "unique_error_codes", "staves_with_errors", "chip_trailers_seen", "busy_violations", "flushed_incomplete", "strobe_extended", "busy_transitions", "data_overrun", "transmission_in_fatal"]
/-- the `validate_fields!` macro is the field-by-field `!=` comparison, one message per differing field; each `validate_other`
    and `validate_other_stats` has exactly the expected shape (checked token for token by the translator) -/
def shapesChecked : Bool := true
end SrcStats
end FastPasta
