/-
  Spec.ProtocolExec — executable front end of the protocol grammar: parses the words of a payload
  into the grammar's `Payload` object and checks a whole link against `Proto.payloadOk` and the RDH
  rules. Used by the driver (`conf` request) to show that the streams the C01 oracle feeds to the
  real binary are inside the grammar the C01 theorem quantifies over (non-vacuity at scale).
  Nothing here is trusted by a theorem: the parse is validated by re-flattening (`words = ws`) and
  re-encoding (`payloadBytes = payload`) on every call.
-/
import FastPasta.Spec.Protocol
import FastPasta.Props.C12
namespace FastPasta
namespace Proto

def splitAtTdt : List Bytes → Option (List Bytes × Bytes × List Bytes)
  | [] => none
  | w :: ws =>
    if wordId w == ID_TDT then some ([], w, ws) else
    match splitAtTdt ws with
    | none => none
    | some (d, t, rest) => some (w :: d, t, rest)

def parseSegs : Nat → List Bytes → Option (List Seg)
  | _, [] => some []
  | 0, _ => none
  | fuel + 1, w :: ws =>
    if tdhNoData w == 1 then (parseSegs fuel ws).map ({ tdh := w, body := none } :: ·)
    else match splitAtTdt ws with
      | none => none
      | some (d, t, rest) => (parseSegs fuel rest).map ({ tdh := w, body := some (d, t) } :: ·)

def parsePayload : List Bytes → Option Payload
  | [] => none
  | [d] => if wordId d == ID_DDW0 then some (.stop d) else some (.page { ihw := d, segs := [] })
  | i :: rest => (parseSegs rest.length rest).map (fun sg => .page { ihw := i, segs := sg })

structure ConfSt where
  idx : Nat := 0
  expectId : Option Nat := none
  run : RunSt := {}
  st : LSt := {}

/-- one packet (64 header bytes, payload bytes) against the grammar; `Except` carries the reason -/
def confStep (running : Bool) (c : ConfSt) (hdr payload : Bytes) : Except String ConfSt :=
  if hdr.length != 64 then .error s!"{c.idx}:header-length" else
  let r := decodeRdh hdr
  let id0 := c.expectId.getD r.headerId
  if rdhSanityBad id0 (some 32) r then .error s!"{c.idx}:rdh-sanity" else
  let (run', flag) := if running then runningStep c.run r else (c.run, false)
  if flag then .error s!"{c.idx}:rdh-running" else
  match cutPayload payload with
  | none => .error s!"{c.idx}:padding"
  | some ws =>
    match parsePayload ws with
    | none => .error s!"{c.idx}:parse"
    | some pl =>
      if pl.words != ws then .error s!"{c.idx}:parse-roundtrip" else
      let fmt0 := r.dataFormat == 0
      let pad := ffRun payload
      let enc := if fmt0 then C12.encFormat0 pl.words else C12.encFormat2 pl.words pad
      if enc != payload then .error s!"{c.idx}:layout" else
      if pad > 15 then .error s!"{c.idx}:pad" else
      match payloadOk running r c.st pl with
      | none => .error s!"{c.idx}:grammar"
      | some st' => .ok { idx := c.idx + 1, expectId := some id0, run := run', st := st' }

def confLink (running : Bool) : ConfSt → List (Bytes × Bytes) → Except String ConfSt
  | c, [] => .ok c
  | c, (h, p) :: rest =>
    match confStep running c h p with
    | .error e => .error e
    | .ok c' => confLink running c' rest

end Proto
end FastPasta
