/-
  Spec.RsPrelude — the fixed (hand-written) vocabulary into which `tools/rs2lean.py` translates the pure, first-order
  Rust functions of fastPASTA (word accessors and loaders, sanity predicates, byte-slice predicates of the views,
  data-word identifier tables, payload pre-processing):

  * `Rs.mask k n` — the contiguous bit mask with `n` ones starting at bit `k`; `and_mask` turns `x &&& mask k n`
    into the `/`-`%` form the hand-written model uses;
  * `Rs.Str` — abstract value of a Rust `String`: is it non-empty, and which numeric error codes `[E<n>]` occur in
    its literal text (interpolated values are dropped);
  * `Rs.Res α` — `Result<α, String | Box<str> | Vec<String>>`;
  * `Rs.slice`, `Rs.chunksExact` — slicing and `chunks_exact` on byte lists.
-/
import FastPasta.Model.Bytes
namespace FastPasta
namespace Rs

/-- contiguous mask: `n` one-bits starting at bit `k` -/
def mask (k n : Nat) : Nat := (2^n - 1) <<< k

theorem and_mask (x k n : Nat) : x &&& mask k n = x / 2^k % 2^n * 2^k := by
  apply Nat.eq_of_testBit_eq
  intro i
  unfold mask
  rw [Nat.testBit_and, Nat.testBit_shiftLeft, ← Nat.shiftLeft_eq, Nat.testBit_shiftLeft, Nat.testBit_two_pow_sub_one,
      Nat.testBit_mod_two_pow, Nat.testBit_div_two_pow]
  by_cases h : k ≤ i
  · by_cases h2 : i - k < n <;> simp [h, h2]
  · simp [h]

/-- abstract value of a Rust `String` -/
structure Str where
  nonEmpty : Bool
  codes : List Nat
  deriving DecidableEq, Repr

def Str.empty : Str := ⟨false, []⟩
def Str.lit (ne : Bool) (cs : List Nat) : Str := ⟨ne, cs⟩
def Str.app (a b : Str) : Str := ⟨a.nonEmpty || b.nonEmpty, a.codes ++ b.codes⟩

@[simp] theorem Str.app_nonEmpty (a b : Str) : (a.app b).nonEmpty = (a.nonEmpty || b.nonEmpty) := rfl
@[simp] theorem Str.app_codes (a b : Str) : (a.app b).codes = a.codes ++ b.codes := rfl
@[simp] theorem Str.empty_nonEmpty : Str.empty.nonEmpty = false := rfl
@[simp] theorem Str.empty_codes : Str.empty.codes = [] := rfl
@[simp] theorem Str.lit_nonEmpty (b cs) : (Str.lit b cs).nonEmpty = b := rfl
@[simp] theorem Str.lit_codes (b cs) : (Str.lit b cs).codes = cs := rfl

/-- `Result<α, String>` (also `Box<str>`, `Vec<String>` on the error side) -/
inductive Res (α : Type) where
  | ok (a : α)
  | err (e : Str)
  deriving Repr

def Res.isErr {α} : Res α → Bool
  | .ok _ => false
  | .err _ => true
def Res.errStr {α} : Res α → Str
  | .ok _ => Str.empty
  | .err e => e

/-- `Result::unwrap` (the `Err` case is a panic in Rust; callers prove it unreachable) -/
def Res.unwrapD {α} [Inhabited α] : Res α → α
  | .ok a => a
  | .err _ => default
@[simp] theorem Res.unwrapD_ok {α} [Inhabited α] (a : α) : (Res.ok a).unwrapD = a := rfl

@[simp] theorem Res.isErr_ok {α} (a : α) : (Res.ok a).isErr = false := rfl
@[simp] theorem Res.isErr_err {α} (e : Str) : (Res.err e : Res α).isErr = true := rfl
@[simp] theorem Res.errStr_err {α} (e : Str) : (Res.err e : Res α).errStr = e := rfl
@[simp] theorem Res.errStr_ok {α} (a : α) : (Res.ok a).errStr = Str.empty := rfl

/-- `Result<α, ε>` whose error is a plain value (an integer, `()`), not a message -/
inductive ResV (ε α : Type) where
  | ok (a : α)
  | err (e : ε)
  deriving Repr

def ResV.isErr {ε α} : ResV ε α → Bool
  | .ok _ => false
  | .err _ => true
def ResV.errVal {ε α} [Inhabited ε] : ResV ε α → ε
  | .ok _ => default
  | .err e => e

def ResV.okVal {ε α} [Inhabited α] : ResV ε α → α
  | .ok a => a
  | .err _ => default
@[simp] theorem ResV.okVal_ok {ε α} [Inhabited α] (a : α) : (ResV.ok a : ResV ε α).okVal = a := rfl
@[simp] theorem ResV.errVal_err {ε α} [Inhabited ε] (e : ε) : (ResV.err e : ResV ε α).errVal = e := rfl

@[simp] theorem ResV.isErr_ok {ε α} (a : α) : (ResV.ok a : ResV ε α).isErr = false := rfl
@[simp] theorem ResV.isErr_err {ε α} (e : ε) : (ResV.err e : ResV ε α).isErr = true := rfl

/-- `Option::unwrap` on a value the code has just made `Some` (the `None` case is a panic site of C04's model) -/
def unwrapD {α : Type} [Inhabited α] (o : Option α) : α := o.getD default

/-- one call of a validator's `report_error(msg, word)`: the position it attaches (the tracker's current word position), the message
    and the quoted word; `each = true` stands for `msgs.into_iter().for_each(|m| report_error(m, word))` over a `Vec<String>` whose
    messages carry the codes `msg.codes` (one report per code) -/
structure Report where
  pos : Nat
  msg : Str
  word : Bytes
  each : Bool
  /-- is the word quoted in the message (`report_error`) or not (a message sent directly on the channel) -/
  quoted : Bool
  deriving DecidableEq, Repr

/-- one statistics message of the reader (`InputStatType::<kind>(value)`), the channel taken as a value -/
structure Stat where
  kind : String
  val : Nat
  deriving DecidableEq, Repr

/-- `x as i<w>` for an unsigned `x < 2^w`: two's complement -/
def toSigned (w x : Nat) : Int := if x < 2^(w-1) then (x : Int) else (x : Int) - (2^w : Nat)

/-- `&s[lo .. lo+n]` -/
def slice (bs : Bytes) (lo n : Nat) : Bytes := (bs.drop lo).take n

/-- `chunks_exact(n)`: consecutive chunks of exactly `n` bytes, the remainder is dropped -/
def chunksExactFuel (n : Nat) : Nat → Bytes → List Bytes
  | 0, _ => []
  | fuel + 1, bs => if n = 0 then [] else if bs.length < n then [] else bs.take n :: chunksExactFuel n fuel (bs.drop n)

def chunksExact (n : Nat) (bs : Bytes) : List Bytes := chunksExactFuel n bs.length bs

end Rs
end FastPasta
