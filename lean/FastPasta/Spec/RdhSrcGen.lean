/- GENERATED on every run by tools/rs2lean.py from the Rust sources listed below — do not edit.
   alice_protocol_reader/src/rdh/rdh0.rs
   alice_protocol_reader/src/rdh/rdh1.rs
   alice_protocol_reader/src/rdh/rdh2.rs
   alice_protocol_reader/src/rdh/rdh3.rs
   alice_protocol_reader/src/rdh/rdh_cru.rs
   fastpasta/src/words/its.rs
   fastpasta/src/analyze/validators/rdh.rs
   fastpasta/src/analyze/validators/rdh_running.rs
   fastpasta/src/config/check.rs
-/
import FastPasta.Spec.RsPrelude
set_option linter.unusedVariables false
namespace FastPasta
namespace SrcRdh
structure FeeId where
  f_0 : Nat
  deriving DecidableEq, Repr, Inhabited
structure Rdh0 where
  f_header_id : Nat
  f_header_size : Nat
  f_fee_id : FeeId
  f_priority_bit : Nat
  f_system_id : Nat
  f_reserved0 : Nat
  deriving DecidableEq, Repr, Inhabited
structure BcReserved where
  f_0 : Nat
  deriving DecidableEq, Repr, Inhabited
structure Rdh1 where
  f_bc_reserved0 : BcReserved
  f_orbit : Nat
  deriving DecidableEq, Repr, Inhabited
structure Rdh2 where
  f_trigger_type : Nat
  f_pages_counter : Nat
  f_stop_bit : Nat
  f_reserved0 : Nat
  deriving DecidableEq, Repr, Inhabited
structure Rdh3 where
  f_detector_field : Nat
  f_par_bit : Nat
  f_reserved0 : Nat
  deriving DecidableEq, Repr, Inhabited
structure DataformatReserved where
  f_0 : Nat
  deriving DecidableEq, Repr, Inhabited
structure CruidDw where
  f_0 : Nat
  deriving DecidableEq, Repr, Inhabited
structure RdhCru where
  f_rdh0 : Rdh0
  f_offset_new_packet : Nat
  f_memory_size : Nat
  f_link_id : Nat
  f_packet_counter : Nat
  f_cruid_dw : CruidDw
  f_rdh1 : Rdh1
  f_dataformat_reserved0 : DataformatReserved
  f_rdh2 : Rdh2
  f_reserved1 : Nat
  f_rdh3 : Rdh3
  f_reserved2 : Nat
  deriving DecidableEq, Repr, Inhabited
structure FeeIdSanityValidator where
  f_layer_min_max : (Nat × Nat)
  f_stave_number_min_max : (Nat × Nat)
  deriving DecidableEq, Repr, Inhabited
structure Rdh0Validator where
  f_header_id : (Option Nat)
  f_header_size : Nat
  f_fee_id : FeeIdSanityValidator
  f_priority_bit : Nat
  f_system_id : (Option Nat)
  f_reserved0 : Nat
  deriving DecidableEq, Repr, Inhabited
structure Rdh1Validator where
  f_valid_rdh1 : Rdh1
  deriving DecidableEq, Repr, Inhabited
structure Rdh2Validator where
  deriving DecidableEq, Repr, Inhabited
structure Rdh3Validator where
  deriving DecidableEq, Repr, Inhabited
structure RdhCruSanityValidator where
  f_rdh0_validator : Rdh0Validator
  f_rdh1_validator : Rdh1Validator
  f_rdh2_validator : Rdh2Validator
  f_rdh3_validator : Rdh3Validator
  deriving DecidableEq, Repr, Inhabited
structure RdhCruRunningChecker where
  f_expect_pages_counter : Nat
  f_first_rdh_cru : (Option RdhCru)
  f_second_rdh_cru : (Option RdhCru)
  f_expect_pages_counter_increment : Nat
  f_last_rdh_cru : (Option RdhCru)
  deriving DecidableEq, Repr, Inhabited
inductive SpecializeChecks where
  | ITS
  deriving DecidableEq, Repr, Inhabited
inductive System where
  | ITS
  | ITS_Stave
  deriving DecidableEq, Repr, Inhabited
/-- abstract view of the configuration object (a trait object in the source): one field per method chain the translated code uses -/
structure CfgAbs where
  customEnabled : Bool    -- custom_checks_enabled()
  target : (Option System)    -- check().unwrap().target()
  rdhVersion : (Option Nat)    -- rdh_version()
def Rdh0.from_buf (buf : Bytes) : (Rs.Res Rdh0) :=
  (Rs.Res.ok { f_header_id := (bAt buf 0), f_header_size := (bAt buf 1), f_fee_id := { f_0 := (leField buf 2 2) : FeeId }, f_priority_bit := (bAt buf 4), f_system_id := (bAt buf 5), f_reserved0 := (leField buf 6 2) : Rdh0 })

def Rdh1.from_buf (buf : Bytes) : (Rs.Res Rdh1) :=
  (Rs.Res.ok { f_bc_reserved0 := { f_0 := (leField buf 0 4) : BcReserved }, f_orbit := (leField buf 4 4) : Rdh1 })

def Rdh2.from_buf (buf : Bytes) : (Rs.Res Rdh2) :=
  (Rs.Res.ok { f_trigger_type := (leField buf 0 4), f_pages_counter := (leField buf 4 2), f_stop_bit := (bAt buf 6), f_reserved0 := (bAt buf 7) : Rdh2 })

def Rdh3.from_buf (buf : Bytes) : (Rs.Res Rdh3) :=
  (Rs.Res.ok { f_detector_field := (leField buf 0 4), f_par_bit := (leField buf 4 2), f_reserved0 := (leField buf 6 2) : Rdh3 })

def RdhCru.from_rdh0_and_buf (rdh0 : Rdh0) (buf : Bytes) : (Rs.Res RdhCru) :=
  (match (Rdh1.from_buf ((Rs.slice buf 8 (15 + 1 - 8)))) with | .err e => .err e | .ok t_1 => (match (Rdh2.from_buf ((Rs.slice buf 24 (31 + 1 - 24)))) with | .err e => .err e | .ok t_2 => (match (Rdh3.from_buf ((Rs.slice buf 40 (47 + 1 - 40)))) with | .err e => .err e | .ok t_3 => (Rs.Res.ok { f_rdh0 := rdh0, f_offset_new_packet := (leField buf 0 2), f_memory_size := (leField buf 2 2), f_link_id := (bAt buf 4), f_packet_counter := (bAt buf 5), f_cruid_dw := { f_0 := (leField buf 6 2) : CruidDw }, f_rdh1 := t_1, f_dataformat_reserved0 := { f_0 := (leField buf 16 8) : DataformatReserved }, f_rdh2 := t_2, f_reserved1 := (leField buf 32 8), f_rdh3 := t_3, f_reserved2 := (leField buf 48 8) : RdhCru }))))

def layer_from_feeid (fee_id : Nat) : Nat :=
  (let layer_mask := 7; (let layer_lsb_idx := 12; (((((fee_id >>> layer_lsb_idx)) &&& (Rs.mask 0 3))) % 2^8)))

def stave_number_from_feeid (fee_id : Nat) : Nat :=
  (let stave_number_mask := 63; (((fee_id &&& (Rs.mask 0 6))) % 2^8))

def FeeIdSanityValidator.sanity_check (self_ : FeeIdSanityValidator) (fee_id : FeeId) : (Rs.Res Unit) :=
  (let err_str := Rs.Str.empty; (let reserved_bits_mask := 36032; (let reserved_bits := (fee_id.f_0 &&& (Rs.mask 6 2 ||| Rs.mask 10 2 ||| Rs.mask 15 1)); (let err_str_4 := (if (reserved_bits != 0) then (let err_str_4 := (err_str.app (Rs.Str.lit true [])); err_str_4) else err_str); (let stave_number := (stave_number_from_feeid (fee_id.f_0)); (let err_str := (if ((decide (stave_number < self_.f_stave_number_min_max.1)) || (decide (stave_number > self_.f_stave_number_min_max.2))) then (let err_str := (err_str_4.app (Rs.Str.lit true [])); err_str) else err_str_4); (let layer := (layer_from_feeid (fee_id.f_0)); (let err_str_8 := (if ((decide (layer < self_.f_layer_min_max.1)) || (decide (layer > self_.f_layer_min_max.2))) then (let err_str_8 := (err_str.app (Rs.Str.lit true [])); err_str_8) else err_str); (if (!(!err_str_8.nonEmpty)) then (Rs.Res.err err_str_8) else (Rs.Res.ok ()))))))))))

def Rdh0.fee_id (self_ : Rdh0) : Nat :=
  self_.f_fee_id.f_0

def Rdh0Validator.sanity_check (self_ : Rdh0Validator) (rdh0 : Rdh0) : ((Rs.Res Unit) × Rdh0Validator) :=
  (let self__1 := (if (self_.f_header_id.isNone) then (let self__1 := { self_ with f_header_id := (some rdh0.f_header_id) }; self__1) else self_); (let err_str := Rs.Str.empty; (let err_str_3 := (if (rdh0.f_header_id != (Rs.unwrapD self__1.f_header_id)) then (let err_str_3 := (err_str.app (Rs.Str.lit true [])); err_str_3) else err_str); (let err_str := (if (rdh0.f_header_size != self__1.f_header_size) then (let err_str := (err_str_3.app (Rs.Str.lit true [])); err_str) else err_str_3); (let err_str_5 := (if ((FeeIdSanityValidator.sanity_check (self__1.f_fee_id) ({ f_0 := (Rdh0.fee_id (rdh0)) : FeeId }))).isErr then (let err_str_5 := (err_str.app ((Rs.Str.lit true []).app ((FeeIdSanityValidator.sanity_check (self__1.f_fee_id) ({ f_0 := (Rdh0.fee_id (rdh0)) : FeeId }))).errStr)); err_str_5) else err_str); (let err_str := (if (rdh0.f_priority_bit != self__1.f_priority_bit) then (let err_str := (err_str_5.app (Rs.Str.lit true [])); err_str) else err_str_5); (let err_str_7 := (if (self__1.f_system_id).isSome then (let err_str_7 := (if (rdh0.f_system_id != (Rs.unwrapD self__1.f_system_id)) then (let err_str_7 := (err_str.app (Rs.Str.lit true [])); err_str_7) else err_str); err_str_7) else err_str); (let err_str := (if (rdh0.f_reserved0 != self__1.f_reserved0) then (let tmp := rdh0.f_reserved0; (let err_str := (err_str_7.app (Rs.Str.lit true [])); err_str)) else err_str_7); (if (!(!err_str.nonEmpty)) then ((Rs.Res.err ((Rs.Str.lit true []).app err_str)), self__1) else ((Rs.Res.ok ()), self__1))))))))))

def RdhCru.rdh0 (self_ : RdhCru) : Rdh0 :=
  self_.f_rdh0

def Rdh1.bc (self_ : Rdh1) : Nat :=
  (((self_.f_bc_reserved0.f_0 &&& (Rs.mask 0 12))) % 2^16)

def Rdh1Validator.BC_MAX : Nat := 3563

def Rdh1.reserved0 (self_ : Rdh1) : Nat :=
  (self_.f_bc_reserved0.f_0 >>> 12)

def Rdh1Validator.sanity_check (self_ : Rdh1Validator) (rdh1 : Rdh1) : (Rs.Res Unit) :=
  (let err_str := Rs.Str.empty; (let err_str_2 := (if ((Rdh1.reserved0 (rdh1)) != (Rdh1.reserved0 (self_.f_valid_rdh1))) then (let err_str_2 := (err_str.app (Rs.Str.lit true [])); err_str_2) else err_str); (let err_str := (if (decide ((Rdh1.bc (rdh1)) > Rdh1Validator.BC_MAX)) then (let err_str := (err_str_2.app (Rs.Str.lit true [])); err_str) else err_str_2); (if (!(!err_str.nonEmpty)) then (Rs.Res.err ((Rs.Str.lit true []).app err_str)) else (Rs.Res.ok ())))))

def RdhCru.rdh1 (self_ : RdhCru) : Rdh1 :=
  self_.f_rdh1

def Rdh2Validator.sanity_check (self_ : Rdh2Validator) (rdh2 : Rdh2) : (Rs.Res Unit) :=
  (let err_str := Rs.Str.empty; (let err_str_2 := (if (rdh2.f_reserved0 != 0) then (let err_str_2 := (err_str.app (Rs.Str.lit true [])); err_str_2) else err_str); (let err_str := (if (decide (rdh2.f_stop_bit > 1)) then (let err_str := (err_str_2.app (Rs.Str.lit true [])); err_str) else err_str_2); (let spare_bits_15_to_26_set := 134184960; (let err_str_5 := (if ((rdh2.f_trigger_type == 0) || (((rdh2.f_trigger_type &&& (Rs.mask 15 12)) != 0))) then (let tmp := rdh2.f_trigger_type; (let err_str_6 := (err_str.app (Rs.Str.lit true [])); err_str_6)) else err_str); (if (!(!err_str_5.nonEmpty)) then (Rs.Res.err ((Rs.Str.lit true []).app err_str_5)) else (Rs.Res.ok ())))))))

def RdhCru.rdh2 (self_ : RdhCru) : Rdh2 :=
  self_.f_rdh2

def Rdh3Validator.sanity_check (self_ : Rdh3Validator) (rdh3 : Rdh3) : (Rs.Res Unit) :=
  (let err_str := Rs.Str.empty; (let err_str_2 := (if (rdh3.f_reserved0 != 0) then (let tmp := rdh3.f_reserved0; (let err_str_3 := (err_str.app (Rs.Str.lit true [])); err_str_3)) else err_str); (let reserved_bits_12_to_23_set := 16773120; (let err_str := (if ((rdh3.f_detector_field &&& (Rs.mask 12 12)) != 0) then (let tmp := rdh3.f_detector_field; (let err_str := (err_str_2.app (Rs.Str.lit true [])); err_str)) else err_str_2); (if (!(!err_str.nonEmpty)) then (Rs.Res.err ((Rs.Str.lit true []).app err_str)) else (Rs.Res.ok ()))))))

def RdhCru.rdh3 (self_ : RdhCru) : Rdh3 :=
  self_.f_rdh3

def RdhCru.dw (self_ : RdhCru) : Nat :=
  (((((self_.f_cruid_dw.f_0 &&& (Rs.mask 12 4))) >>> 12)) % 2^8)

def RdhCru.data_format (self_ : RdhCru) : Nat :=
  (((self_.f_dataformat_reserved0.f_0 &&& (Rs.mask 0 8))) % 2^8)

def RdhCruSanityValidator.sanity_check (self_ : RdhCruSanityValidator) (rdh : RdhCru) : ((Rs.Res Unit) × RdhCruSanityValidator) :=
  (let err_str := Rs.Str.empty; (let c_4 := (Rdh0Validator.sanity_check (self_.f_rdh0_validator) ((RdhCru.rdh0 (rdh)))); (let self__3 := { self_ with f_rdh0_validator := c_4.2 }; (let err_str_4 := (if (c_4.1).isErr then (let err_str_4 := (err_str.app (c_4.1).errStr); err_str_4) else err_str); (let err_str := (if ((Rdh1Validator.sanity_check (self__3.f_rdh1_validator) ((RdhCru.rdh1 (rdh))))).isErr then (let err_str := (err_str_4.app ((Rdh1Validator.sanity_check (self__3.f_rdh1_validator) ((RdhCru.rdh1 (rdh))))).errStr); err_str) else err_str_4); (let err_str_6 := (if ((Rdh2Validator.sanity_check (self__3.f_rdh2_validator) ((RdhCru.rdh2 (rdh))))).isErr then (let err_str_6 := (err_str.app ((Rdh2Validator.sanity_check (self__3.f_rdh2_validator) ((RdhCru.rdh2 (rdh))))).errStr); err_str_6) else err_str); (let err_str := (if ((Rdh3Validator.sanity_check (self__3.f_rdh3_validator) ((RdhCru.rdh3 (rdh))))).isErr then (let err_str := (err_str_6.app ((Rdh3Validator.sanity_check (self__3.f_rdh3_validator) ((RdhCru.rdh3 (rdh))))).errStr); err_str) else err_str_6); (let err_str_8 := (if (decide ((RdhCru.dw (rdh)) > 1)) then (let tmp := (RdhCru.dw (rdh)); (let err_str_9 := (err_str.app (Rs.Str.lit true [])); err_str_9)) else err_str); (let err_str := (if (decide ((RdhCru.data_format (rdh)) > 2)) then (let tmp := (RdhCru.data_format (rdh)); (let err_str := (err_str_8.app (Rs.Str.lit true [])); err_str)) else err_str_8); (if (!(!err_str.nonEmpty)) then ((Rs.Res.err ((Rs.Str.lit true [10]).app err_str)), self__3) else ((Rs.Res.ok ()), self__3)))))))))))

def Rdh1.const_default  : Rdh1 :=
  { f_bc_reserved0 := { f_0 := 0 : BcReserved }, f_orbit := 0 : Rdh1 }

def RDH1_VALIDATOR : Rdh1Validator := { f_valid_rdh1 := (Rdh1.const_default) : Rdh1Validator }

def RDH2_VALIDATOR : Rdh2Validator := ({} : Rdh2Validator)

def RDH3_VALIDATOR : Rdh3Validator := ({} : Rdh3Validator)

def Rdh0.HEADER_SIZE : Nat := 64

def FeeIdSanityValidator.new (layer_min_max : (Nat × Nat)) (stave_number_min_max : (Nat × Nat)) : FeeIdSanityValidator :=
  { f_layer_min_max := layer_min_max, f_stave_number_min_max := stave_number_min_max : FeeIdSanityValidator }

def FEE_ID_SANITY_VALIDATOR : FeeIdSanityValidator := (FeeIdSanityValidator.new ((0, 6)) ((0, 47)))

def Rdh0Validator.new (header_id : (Option Nat)) (header_size : Nat) (fee_id : FeeIdSanityValidator) (priority_bit : Nat) (system_id : (Option Nat)) : Rdh0Validator :=
  { f_header_id := header_id, f_header_size := header_size, f_fee_id := fee_id, f_priority_bit := priority_bit, f_system_id := system_id, f_reserved0 := 0 : Rdh0Validator }

def Rdh0Validator.default  : Rdh0Validator :=
  (Rdh0Validator.new (none) (Rdh0.HEADER_SIZE) (FEE_ID_SANITY_VALIDATOR) (0) (none))

def RdhCruSanityValidator.new  : RdhCruSanityValidator :=
  { f_rdh0_validator := (Rdh0Validator.default), f_rdh1_validator := RDH1_VALIDATOR, f_rdh2_validator := RDH2_VALIDATOR, f_rdh3_validator := RDH3_VALIDATOR : RdhCruSanityValidator }

def ITS_SYSTEM_ID : Nat := 32

def RdhCruSanityValidator.with_specialization (specialization : SpecializeChecks) : RdhCruSanityValidator :=
  (match specialization with | .ITS => { f_rdh0_validator := (Rdh0Validator.new (none) (Rdh0.HEADER_SIZE) (FEE_ID_SANITY_VALIDATOR) (0) ((some ITS_SYSTEM_ID))), f_rdh1_validator := RDH1_VALIDATOR, f_rdh2_validator := RDH2_VALIDATOR, f_rdh3_validator := RDH3_VALIDATOR : RdhCruSanityValidator })

def RdhCruSanityValidator.specialize (self_ : RdhCruSanityValidator) (specialization : SpecializeChecks) : (Unit × RdhCruSanityValidator) :=
  (let self__1 := { self_ with f_rdh0_validator.f_system_id := (some ITS_SYSTEM_ID) }; ((), self__1))

def RdhCru.payload_size (self_ : RdhCru) : Nat :=
  ((self_.f_memory_size + 2^16 - 64) % 2^16)

def RdhCru.cru_id (self_ : RdhCru) : Nat :=
  (self_.f_cruid_dw.f_0 &&& (Rs.mask 0 12))

def RdhCru.link_id (self_ : RdhCru) : Nat :=
  self_.f_link_id

def RdhCru.fee_id (self_ : RdhCru) : Nat :=
  self_.f_rdh0.f_fee_id.f_0

def RdhCru.version (self_ : RdhCru) : Nat :=
  self_.f_rdh0.f_header_id

def RdhCru.stop_bit (self_ : RdhCru) : Nat :=
  self_.f_rdh2.f_stop_bit

def RdhCru.pages_counter (self_ : RdhCru) : Nat :=
  self_.f_rdh2.f_pages_counter

def RdhCru.trigger_type (self_ : RdhCru) : Nat :=
  self_.f_rdh2.f_trigger_type

def RdhCru.offset_to_next (self_ : RdhCru) : Nat :=
  self_.f_offset_new_packet

def RdhCruRunningChecker.check_stop_bit_and_page_counter (self_ : RdhCruRunningChecker) (rdh2 : Rdh2) : ((Rs.Res Unit) × RdhCruRunningChecker) :=
  (let err_str := Rs.Str.empty; (let (err_str_2, self__3) := (if (rdh2.f_stop_bit == 0) then (let err_str_2 := (if (rdh2.f_pages_counter != self_.f_expect_pages_counter) then (let tmp := rdh2.f_pages_counter; (let err_str_3 := (err_str.app (Rs.Str.lit true [])); err_str_3)) else err_str); (let self__3 := { self_ with f_expect_pages_counter := ((self_.f_expect_pages_counter + self_.f_expect_pages_counter_increment) % 2^16) }; (err_str_2, self__3))) else (let (err_str_2, self__3) := (if (rdh2.f_stop_bit == 1) then (let err_str_2 := (if (rdh2.f_pages_counter != self_.f_expect_pages_counter) then (let tmp := rdh2.f_pages_counter; (let err_str_3 := (err_str.app (Rs.Str.lit true [])); err_str_3)) else err_str); (let self__3 := { self_ with f_expect_pages_counter := 0 }; (err_str_2, self__3))) else (let tmp := rdh2.f_stop_bit; (let err_str_3 := (err_str.app (Rs.Str.lit true [])); (err_str_3, self_)))); (err_str_2, self__3))); (if (!(!err_str_2.nonEmpty)) then ((Rs.Res.err err_str_2), self__3) else ((Rs.Res.ok ()), self__3))))

def RdhCruRunningChecker.check_orbit_counter_changes (self_ : RdhCruRunningChecker) (rdh1 : Rdh1) : (Rs.Res Unit) :=
  (if (match self_.f_last_rdh_cru with | some last_rdh_cru => (((RdhCru.stop_bit (last_rdh_cru)) == 1) && ((RdhCru.rdh1 (last_rdh_cru)).f_orbit == rdh1.f_orbit)) | none => false) then (let current_orbit := rdh1.f_orbit; (Rs.Res.err (Rs.Str.lit true []))) else (Rs.Res.ok ()))

def RdhCruRunningChecker.check_orbit_trigger_det_field_feeid_same_when_page_not_0 (self_ : RdhCruRunningChecker) (rdh_cru : RdhCru) : (Rs.Res Unit) :=
  (let err_str := Rs.Str.empty; (let err_str_2 := (if ((RdhCru.pages_counter (rdh_cru)) != 0) then (let err_str_2 := (if (self_.f_last_rdh_cru).isSome then (let err_str_2 := (if ((RdhCru.rdh1 (rdh_cru)).f_orbit != (RdhCru.rdh1 ((Rs.unwrapD self_.f_last_rdh_cru))).f_orbit) then (let tmp_current_orbit := (RdhCru.rdh1 (rdh_cru)).f_orbit; (let tmp_last_orbit := (RdhCru.rdh1 ((Rs.unwrapD self_.f_last_rdh_cru))).f_orbit; (let err_str_4 := (err_str.app (Rs.Str.lit true [])); err_str_4))) else err_str); (let err_str := (if ((RdhCru.rdh2 (rdh_cru)).f_trigger_type != (RdhCru.rdh2 ((Rs.unwrapD self_.f_last_rdh_cru))).f_trigger_type) then (let tmp_current_trigger_type := (RdhCru.rdh2 (rdh_cru)).f_trigger_type; (let tmp_last_trigger_type := (RdhCru.rdh2 ((Rs.unwrapD self_.f_last_rdh_cru))).f_trigger_type; (let err_str := (err_str_2.app (Rs.Str.lit true [])); err_str))) else err_str_2); (let err_str_4 := (if ((RdhCru.fee_id (rdh_cru)) != (RdhCru.fee_id ((Rs.unwrapD self_.f_last_rdh_cru)))) then (let tmp_current_fee_id := (RdhCru.fee_id (rdh_cru)); (let tmp_last_fee_id := (RdhCru.fee_id ((Rs.unwrapD self_.f_last_rdh_cru))); (let err_str_6 := (err_str.app (Rs.Str.lit true [])); err_str_6))) else err_str); err_str_4))) else err_str); err_str_2) else err_str); (if (!err_str_2.nonEmpty) then (Rs.Res.ok ()) else (Rs.Res.err err_str_2))))

def RdhCruRunningChecker.check (self_ : RdhCruRunningChecker) (rdh : RdhCru) : ((Rs.Res Unit) × RdhCruRunningChecker) :=
  (let self__1 := (if (self_.f_first_rdh_cru.isNone) then (let self__1 := { self_ with f_first_rdh_cru := (some rdh) }; self__1) else (let self__1 := (if (self_.f_second_rdh_cru.isNone) then (let self__1 := { self_ with f_second_rdh_cru := (some rdh) }; (let self_ := { self__1 with f_expect_pages_counter_increment := (RdhCru.rdh2 ((Rs.unwrapD self__1.f_second_rdh_cru))).f_pages_counter }; self_)) else self_); self__1)); (let err_str := Rs.Str.empty; (let c_5 := (RdhCruRunningChecker.check_stop_bit_and_page_counter (self__1) ((RdhCru.rdh2 (rdh)))); (let self_ := c_5.2; (let err_str_5 := (if (c_5.1).isErr then (let err_str_5 := (err_str.app (c_5.1).errStr); err_str_5) else err_str); (let err_str := (if ((RdhCruRunningChecker.check_orbit_counter_changes (self_) ((RdhCru.rdh1 (rdh))))).isErr then (let err_str := (err_str_5.app ((RdhCruRunningChecker.check_orbit_counter_changes (self_) ((RdhCru.rdh1 (rdh))))).errStr); err_str) else err_str_5); (let err_str_7 := (if ((RdhCruRunningChecker.check_orbit_trigger_det_field_feeid_same_when_page_not_0 (self_) (rdh))).isErr then (let err_str_7 := (err_str.app ((RdhCruRunningChecker.check_orbit_trigger_det_field_feeid_same_when_page_not_0 (self_) (rdh))).errStr); err_str_7) else err_str); (let self__8 := { self_ with f_last_rdh_cru := (some rdh) }; (if (!(!err_str_7.nonEmpty)) then (let err_str := ((Rs.Str.lit true [11]).app err_str_7); ((Rs.Res.err err_str), self__8)) else ((Rs.Res.ok ()), self__8))))))))))

def RdhCruRunningChecker.new  : RdhCruRunningChecker :=
  { f_expect_pages_counter := 0, f_first_rdh_cru := none, f_second_rdh_cru := none, f_expect_pages_counter_increment := 1, f_last_rdh_cru := none : RdhCruRunningChecker }

def Rdh2.is_pht_trigger (self_ : Rdh2) : Bool :=
  (((self_.f_trigger_type >>> 4) &&& (Rs.mask 0 1)) == 1)

def RdhCruSanityValidator.default  : RdhCruSanityValidator :=
  (RdhCruSanityValidator.new)

def RdhCruSanityValidator.with_custom_checks (custom_checks_opt : CfgAbs) : RdhCruSanityValidator :=
  (if (custom_checks_opt.rdhVersion).isSome then { f_rdh0_validator := (Rdh0Validator.new ((some (Rs.unwrapD custom_checks_opt.rdhVersion))) (Rdh0.HEADER_SIZE) (FEE_ID_SANITY_VALIDATOR) (0) (none)), f_rdh1_validator := RDH1_VALIDATOR, f_rdh2_validator := RDH2_VALIDATOR, f_rdh3_validator := RDH3_VALIDATOR : RdhCruSanityValidator } else (RdhCruSanityValidator.default))

def RdhCruSanityValidator.new_from_config (config : CfgAbs) : RdhCruSanityValidator :=
  (if config.customEnabled then (let validator := (RdhCruSanityValidator.with_custom_checks (config)); (let validator_2 := (if (config.target).isSome then (let c_6 := (RdhCruSanityValidator.specialize (validator) (SpecializeChecks.ITS)); (let validator_3 := c_6.2; validator_3)) else validator); validator_2)) else (if (config.target).isSome then (match (Rs.unwrapD config.target) with | System.ITS | System.ITS_Stave => (RdhCruSanityValidator.with_specialization (SpecializeChecks.ITS))) else (RdhCruSanityValidator.default)))

/-! kernel-checked: every literal mask was split into contiguous runs correctly -/
example : (Rs.mask 0 12) = 4095 := by decide
example : (Rs.mask 0 3) = 7 := by decide
example : (Rs.mask 0 6) = 63 := by decide
example : (Rs.mask 0 1) = 1 := by decide
example : (Rs.mask 15 12) = 134184960 := by decide
example : (Rs.mask 12 12) = 16773120 := by decide
example : (Rs.mask 12 4) = 61440 := by decide
example : (Rs.mask 0 8) = 255 := by decide
example : (Rs.mask 6 2 ||| Rs.mask 10 2 ||| Rs.mask 15 1) = 36032 := by decide
end SrcRdh
end FastPasta
