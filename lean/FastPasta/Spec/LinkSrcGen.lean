/- GENERATED on every run by tools/rs2lean.py from the Rust sources listed below — do not edit.
   alice_protocol_reader/src/rdh/rdh0.rs
   alice_protocol_reader/src/rdh/rdh1.rs
   alice_protocol_reader/src/rdh/rdh2.rs
   alice_protocol_reader/src/rdh/rdh3.rs
   alice_protocol_reader/src/rdh/rdh_cru.rs
   fastpasta/src/words/its/status_words/ihw.rs
   fastpasta/src/words/its/status_words/tdh.rs
   fastpasta/src/words/its/status_words/tdt.rs
   fastpasta/src/words/its/status_words/ddw.rs
   fastpasta/src/words/its/status_words/cdw.rs
   fastpasta/src/analyze/validators/its/status_word/tdh.rs
   fastpasta/src/analyze/validators/its/status_word/util.rs
   fastpasta/src/analyze/validators/its/cdp_running/cdp_tracker.rs
   fastpasta/src/analyze/validators/its/cdp_running/rdh_validator.rs
   fastpasta/src/words/its/status_words.rs
   fastpasta/src/words/its/status_words/util.rs
   fastpasta/src/analyze/validators/its/cdp_running.rs
   fastpasta/src/words/its/data_words.rs
   fastpasta/src/analyze/validators/its/data_words.rs
   fastpasta/src/analyze/validators/its/data_words/ib.rs
   fastpasta/src/analyze/validators/its/data_words/ob.rs
   fastpasta/src/analyze/validators/its/lib.rs
   fastpasta/src/analyze/validators/its/its_payload_fsm_cont.rs
   fastpasta/src/analyze/validators/lib.rs
-/
import FastPasta.Spec.RsPrelude
import FastPasta.Spec.WordsSrcGen
import FastPasta.Spec.RdhSrcGen
import FastPasta.Spec.StateSrcGen
import FastPasta.Spec.FsmSrcGen
import FastPasta.Spec.PayloadSrcGen
set_option linter.unusedVariables false
namespace FastPasta
namespace SrcLink
structure CdpRunningValidator where
  f_trigger_period : (Option Nat)
  f_running_checks_enabled : Bool
  f_its_state_machine : FsmSt
  f_tracker : SrcState.CdpTracker
  f_rdh_validator : SrcState.ItsRdhValidator
  f_status_words : SrcState.StatusWordContainer
  f_out : (List Rs.Report)
  deriving DecidableEq, Repr, Inhabited
inductive ItsPayloadWord where
  | IHW
  | IHW_continuation
  | TDH
  | TDH_continuation
  | TDH_after_packet_done
  | TDT
  | CDW
  | DataWord
  | DDW0
  deriving DecidableEq, Repr, Inhabited
inductive AmbigiousError where
  | TDH_or_DDW0
  | DW_or_TDT_CDW
  | DDW0_or_TDH_IHW
  deriving DecidableEq, Repr, Inhabited
/-- the answer of the translated state machine (`SrcFsm.step`, whose `WordClass` merges both sides) as the source's
    `Result<ItsPayloadWord, AmbigiousError>`: `Ok(X)` / `Err(Y)` exactly as tools/src2lean.py names them (spec `lean_prelude`) -/
def classResult : WordClass → Rs.ResV AmbigiousError ItsPayloadWord
  | .ihw => .ok .IHW | .ihwCont => .ok .IHW_continuation | .tdh => .ok .TDH | .tdhCont => .ok .TDH_continuation
  | .tdhAfterPacketDone => .ok .TDH_after_packet_done | .tdt => .ok .TDT | .cdw => .ok .CDW | .dataWord => .ok .DataWord | .ddw0 => .ok .DDW0
  | .errTdhOrDdw0 => .err .TDH_or_DDW0 | .errDwOrTdtCdw => .err .DW_or_TDT_CDW | .errDdw0OrTdhIhw => .err .DDW0_or_TDH_IHW
def CdpRunningValidator.report_error (self_ : CdpRunningValidator) (error : Rs.Str) (word_slice : Bytes) : (Unit × CdpRunningValidator) :=
  (let self__1 := { self_ with f_out := (self_.f_out ++ [Rs.Report.mk (SrcState.CdpTracker.current_word_mem_pos (self_.f_tracker)) error word_slice false true]) }; ((), self__1))

def CdpRunningValidator.preprocess_ihw (self_ : CdpRunningValidator) (ihw_slice : Bytes) : (Unit × CdpRunningValidator) :=
  (let ihw := (Rs.Res.unwrapD (SrcWords.Ihw.from_buf (ihw_slice))); (let self__2 := (if ((SrcState.StatusWordContainer.sanity_check_ihw (self_.f_status_words) (ihw))).isErr then (let c_1 := (CdpRunningValidator.report_error (self_) (((Rs.Str.lit true [30]).app ((SrcState.StatusWordContainer.sanity_check_ihw (self_.f_status_words) (ihw))).errStr)) (ihw_slice)); (let self__3 := c_1.2; self__3)) else self_); (let c_2 := (SrcState.StatusWordContainer.replace_ihw (self__2.f_status_words) (ihw)); (let self_ := { self__2 with f_status_words := c_2.2 }; ((), self_)))))

def CdpRunningValidator.report_errors (self_ : CdpRunningValidator) (errors : Rs.Str) (word_slice : Bytes) : (Unit × CdpRunningValidator) :=
  (let self__1 := { self_ with f_out := (self_.f_out ++ [Rs.Report.mk (SrcState.CdpTracker.current_word_mem_pos (self_.f_tracker)) errors word_slice true true]) }; ((), self__1))

def CdpRunningValidator.check_rdh_at_ddw0 (self_ : CdpRunningValidator) (ddw0_slice : Bytes) : (Unit × CdpRunningValidator) :=
  (if ((SrcState.ItsRdhValidator.check_at_ddw0 (self_.f_rdh_validator))).isErr then (let c_49 := (CdpRunningValidator.report_errors (self_) (((SrcState.ItsRdhValidator.check_at_ddw0 (self_.f_rdh_validator))).errStr) (ddw0_slice)); (let self__2 := c_49.2; ((), self__2))) else ((), self_))

def CdpRunningValidator.preprocess_ddw0 (self_ : CdpRunningValidator) (ddw0_slice : Bytes) : (Unit × CdpRunningValidator) :=
  (let ddw0 := (Rs.Res.unwrapD (SrcWords.Ddw0.from_buf (ddw0_slice))); (let self__2 := (if ((SrcState.StatusWordContainer.sanity_check_ddw0 (self_.f_status_words) (ddw0))).isErr then (let c_3 := (CdpRunningValidator.report_error (self_) (((Rs.Str.lit true [60]).app ((SrcState.StatusWordContainer.sanity_check_ddw0 (self_.f_status_words) (ddw0))).errStr)) (ddw0_slice)); (let self__3 := c_3.2; self__3)) else self_); (let self_ := (if self__2.f_running_checks_enabled then (let c_4 := (CdpRunningValidator.check_rdh_at_ddw0 (self__2) (ddw0_slice)); (let self_ := c_4.2; self_)) else self__2); (let c_5 := (SrcState.StatusWordContainer.replace_ddw (self_.f_status_words) (ddw0)); (let self__5 := { self_ with f_status_words := c_5.2 }; ((), self__5))))))

def CdpRunningValidator.process_cdw (self_ : CdpRunningValidator) (cdw_slice : Bytes) : (Unit × CdpRunningValidator) :=
  (if (!self_.f_running_checks_enabled) then ((), self_) else (let cdw := (Rs.Res.unwrapD (SrcWords.Cdw.from_buf (cdw_slice))); (let self__2 := (if (match (SrcState.StatusWordContainer.cdw (self_.f_status_words)) with | some prv_cdw => (((SrcWords.Cdw.calibration_user_fields (prv_cdw)) != (SrcWords.Cdw.calibration_user_fields (cdw))) && ((SrcWords.Cdw.calibration_word_index (cdw)) != 0)) | none => false) then (let c_6 := (CdpRunningValidator.report_error (self_) ((Rs.Str.lit true [81])) (cdw_slice)); (let self__3 := c_6.2; self__3)) else self_); (let c_7 := (SrcState.StatusWordContainer.replace_cdw (self__2.f_status_words) (cdw)); (let self_ := { self__2 with f_status_words := c_7.2 }; ((), self_))))))

def CdpRunningValidator.check_tdh_by_was_tdt_packet_done_true (self_ : CdpRunningValidator) (tdh_slice : Bytes) : (Unit × CdpRunningValidator) :=
  (if ((SrcState.TdhValidator.check_after_tdt_packet_done_true (self_.f_status_words))).isErr then (let c_8 := (CdpRunningValidator.report_error (self_) ((Rs.Str.lit true [440])) (tdh_slice)); (let self__2 := c_8.2; ((), self__2))) else ((), self_))

def CdpRunningValidator.check_rdh_at_initial_ihw (self_ : CdpRunningValidator) (ihw_slice : Bytes) : (Unit × CdpRunningValidator) :=
  (if ((SrcState.ItsRdhValidator.check_at_initial_ihw (self_.f_rdh_validator))).isErr then (let c_9 := (CdpRunningValidator.report_errors (self_) (((SrcState.ItsRdhValidator.check_at_initial_ihw (self_.f_rdh_validator))).errStr) (ihw_slice)); (let self__2 := c_9.2; ((), self__2))) else ((), self_))

def CdpRunningValidator.check_tdh_continuation (self_ : CdpRunningValidator) (tdh_slice : Bytes) : (Unit × CdpRunningValidator) :=
  (if ((SrcState.TdhValidator.check_continuation ((Rs.unwrapD (SrcState.StatusWordContainer.tdh (self_.f_status_words)))) ((SrcState.StatusWordContainer.prv_tdh (self_.f_status_words))))).isErr then (let c_10 := (CdpRunningValidator.report_errors (self_) (((SrcState.TdhValidator.check_continuation ((Rs.unwrapD (SrcState.StatusWordContainer.tdh (self_.f_status_words)))) ((SrcState.StatusWordContainer.prv_tdh (self_.f_status_words))))).errStr) (tdh_slice)); (let self__2 := c_10.2; ((), self__2))) else ((), self_))

def CdpRunningValidator.check_tdh_no_continuation (self_ : CdpRunningValidator) (tdh_slice : Bytes) : (Unit × CdpRunningValidator) :=
  (if ((SrcState.TdhValidator.check_tdh_no_continuation ((Rs.unwrapD (SrcState.StatusWordContainer.tdh (self_.f_status_words)))) ((SrcState.ItsRdhValidator.rdh (self_.f_rdh_validator))))).isErr then (let c_11 := (CdpRunningValidator.report_errors (self_) (((SrcState.TdhValidator.check_tdh_no_continuation ((Rs.unwrapD (SrcState.StatusWordContainer.tdh (self_.f_status_words)))) ((SrcState.ItsRdhValidator.rdh (self_.f_rdh_validator))))).errStr) (tdh_slice)); (let self__2 := c_11.2; ((), self__2))) else ((), self_))

def CdpRunningValidator.preprocess_tdh (self_ : CdpRunningValidator) (tdh_slice : Bytes) : (Unit × CdpRunningValidator) :=
  (let tdh := (Rs.Res.unwrapD (SrcWords.Tdh.from_buf (tdh_slice))); (let self__2 := (if ((SrcState.StatusWordContainer.sanity_check_tdh (self_.f_status_words) (tdh))).isErr then (let c_12 := (CdpRunningValidator.report_error (self_) (((Rs.Str.lit true [40]).app ((SrcState.StatusWordContainer.sanity_check_tdh (self_.f_status_words) (tdh))).errStr)) (tdh_slice)); (let self__3 := c_12.2; self__3)) else self_); (let c_13 := (SrcState.StatusWordContainer.replace_tdh (self__2.f_status_words) (tdh)); (let self_ := { self__2 with f_status_words := c_13.2 }; ((), self_)))))

def CdpRunningValidator.preprocess_tdt (self_ : CdpRunningValidator) (tdh_slice : Bytes) : (Unit × CdpRunningValidator) :=
  (let tdt := (Rs.Res.unwrapD (SrcWords.Tdt.from_buf (tdh_slice))); (let self__2 := (if ((SrcState.StatusWordContainer.sanity_check_tdt (self_.f_status_words) (tdt))).isErr then (let c_14 := (CdpRunningValidator.report_error (self_) (((Rs.Str.lit true [50]).app ((SrcState.StatusWordContainer.sanity_check_tdt (self_.f_status_words) (tdt))).errStr)) (tdh_slice)); (let self__3 := c_14.2; self__3)) else self_); (let c_15 := (SrcState.StatusWordContainer.replace_tdt (self__2.f_status_words) (tdt)); (let self_ := { self__2 with f_status_words := c_15.2 }; ((), self_)))))

def CdpRunningValidator.process_ib_data_word (self_ : CdpRunningValidator) (ib_slice : Bytes) : (Unit × CdpRunningValidator) :=
  (if (!self_.f_running_checks_enabled) then ((), self_) else (let self__1 := (if ((SrcWords.IbDataWordValidator.check (ib_slice) ((SrcWords.Ihw.active_lanes ((Rs.unwrapD (SrcState.StatusWordContainer.ihw (self_.f_status_words)))))))).isErr then (let c_50 := (CdpRunningValidator.report_error (self_) (((SrcWords.IbDataWordValidator.check (ib_slice) ((SrcWords.Ihw.active_lanes ((Rs.unwrapD (SrcState.StatusWordContainer.ihw (self_.f_status_words)))))))).errStr) (ib_slice)); (let self__2 := c_50.2; self__2)) else self_); ((), self__1)))

def CdpRunningValidator.process_ob_data_word (self_ : CdpRunningValidator) (ob_slice : Bytes) : (Unit × CdpRunningValidator) :=
  (if (!self_.f_running_checks_enabled) then ((), self_) else (let self__1 := (if ((SrcWords.ObDataWordValidator.check (ob_slice) ((SrcWords.Ihw.active_lanes ((Rs.unwrapD (SrcState.StatusWordContainer.ihw (self_.f_status_words)))))))).isErr then (let c_51 := (CdpRunningValidator.report_errors (self_) (((SrcWords.ObDataWordValidator.check (ob_slice) ((SrcWords.Ihw.active_lanes ((Rs.unwrapD (SrcState.StatusWordContainer.ihw (self_.f_status_words)))))))).errStr) (ob_slice)); (let self__2 := c_51.2; self__2)) else self_); ((), self__1)))

def CdpRunningValidator.preprocess_data_word (self_ : CdpRunningValidator) (data_word_slice : Bytes) : (Unit × CdpRunningValidator) :=
  (let ID_INDEX := 9; (let self__2 := (if ((SrcState.CdpTracker.start_of_data (self_.f_tracker)) && ((bAt data_word_slice ID_INDEX) == SrcWords.Cdw.ID)) then (let c_16 := (CdpRunningValidator.process_cdw (self_) (data_word_slice)); (let self__3 := c_16.2; self__3)) else (let self__2 := (if ((SrcWords.DataWordSanityChecker.check_any (data_word_slice))).isErr then (let c_17 := (CdpRunningValidator.report_error (self_) (((Rs.Str.lit true [70]).app ((SrcWords.DataWordSanityChecker.check_any (data_word_slice))).errStr)) (data_word_slice)); (let self__3 := c_17.2; self__3)) else self_); (let id_3_msb := ((bAt data_word_slice ID_INDEX) >>> 5); (let self_ := (if (id_3_msb == 1) then (let c_18 := (CdpRunningValidator.process_ib_data_word (self__2) (data_word_slice)); (let self_ := c_18.2; self_)) else (let self_ := (if (id_3_msb == 2) then (let c_19 := (CdpRunningValidator.process_ob_data_word (self__2) (data_word_slice)); (let self_ := c_19.2; self_)) else self__2); self_)); self_)))); (let c_20 := (SrcState.CdpTracker.set_data_seen (self__2.f_tracker)); (let self_ := { self__2 with f_tracker := c_20.2 }; ((), self_)))))

def CdpRunningValidator.report_noword (self_ : CdpRunningValidator) (error : Rs.Str) : (Unit × CdpRunningValidator) :=
  (let self__1 := { self_ with f_out := (self_.f_out ++ [Rs.Report.mk (SrcState.CdpTracker.current_word_mem_pos (self_.f_tracker)) error [] false false]) }; ((), self__1))

def CdpRunningValidator.check_tdh_trigger_interval (self_ : CdpRunningValidator) (_tdh_slice : Bytes) : (Unit × CdpRunningValidator) :=
  (if (self_.f_trigger_period).isSome then (if ((SrcState.StatusWordContainer.tdh_previous_with_internal_trg (self_.f_status_words))).isSome then (let current_tdh := (Rs.unwrapD (SrcState.StatusWordContainer.tdh (self_.f_status_words))); (if ((SrcWords.Tdh.internal_trigger (current_tdh)) == 1) then (if ((SrcState.TdhValidator.check_trigger_interval (current_tdh) ((Rs.unwrapD (SrcState.StatusWordContainer.tdh_previous_with_internal_trg (self_.f_status_words)))) ((Rs.unwrapD self_.f_trigger_period)))).isErr then (let c_21 := (CdpRunningValidator.report_noword (self_) (((SrcState.TdhValidator.check_trigger_interval (current_tdh) ((Rs.unwrapD (SrcState.StatusWordContainer.tdh_previous_with_internal_trg (self_.f_status_words)))) ((Rs.unwrapD self_.f_trigger_period)))).errStr)); (let self__3 := c_21.2; (c_21.1, self__3))) else ((), self_)) else ((), self_))) else ((), self_)) else ((), self_))

def CdpRunningValidator.fsm_advance (self_ : CdpRunningValidator) (gbt_word : Bytes) : ((Rs.ResV AmbigiousError ItsPayloadWord) × CdpRunningValidator) :=
  (let r := (let r := SrcFsm.step self_.f_its_state_machine (bAt gbt_word 9) (SrcWords.tdh_no_data gbt_word) (SrcWords.tdt_packet_done gbt_word); (r.1, classResult r.2)); (let self__2 := { self_ with f_its_state_machine := r.1 }; (r.2, self__2)))

def CdpRunningValidator.check (self_ : CdpRunningValidator) (gbt_word : Bytes) : (Unit × CdpRunningValidator) :=
  (let c_22 := (SrcState.CdpTracker.incr_word_count (self_.f_tracker)); (let self__2 := { self_ with f_tracker := c_22.2 }; (let c_24 := (CdpRunningValidator.fsm_advance (self__2) (gbt_word)); (let self_ := c_24.2; (let m_23 := c_24.1; (if (m_23).isErr then (let ambigious_word := (Rs.ResV.errVal m_23); (if (ambigious_word == AmbigiousError.TDH_or_DDW0) then (let c_25 := (CdpRunningValidator.report_error (self_) ((Rs.Str.lit true [990])) (gbt_word)); (let self__8 := c_25.2; (let c_26 := (CdpRunningValidator.preprocess_tdh (self__8) (gbt_word)); (let self_ := c_26.2; ((), self_))))) else (if (ambigious_word == AmbigiousError.DW_or_TDT_CDW) then (let c_27 := (CdpRunningValidator.report_error (self_) ((Rs.Str.lit true [991])) (gbt_word)); (let self__8 := c_27.2; (let c_28 := (CdpRunningValidator.preprocess_data_word (self__8) (gbt_word)); (let self_ := c_28.2; ((), self_))))) else (let c_29 := (CdpRunningValidator.report_error (self_) ((Rs.Str.lit true [992])) (gbt_word)); (let self__8 := c_29.2; (let c_30 := (CdpRunningValidator.preprocess_ddw0 (self__8) (gbt_word)); (let self_ := c_30.2; ((), self_)))))))) else (let word := (Rs.ResV.okVal m_23); (if ((word == ItsPayloadWord.DataWord) || (word == ItsPayloadWord.CDW)) then (let c_31 := (CdpRunningValidator.preprocess_data_word (self_) (gbt_word)); (let self__8 := c_31.2; (c_31.1, self__8))) else (if (word == ItsPayloadWord.TDH) then (let c_32 := (CdpRunningValidator.preprocess_tdh (self_) (gbt_word)); (let self__8 := c_32.2; (if self__8.f_running_checks_enabled then (let c_33 := (CdpRunningValidator.check_tdh_no_continuation (self__8) (gbt_word)); (let self_ := c_33.2; (let c_34 := (CdpRunningValidator.check_tdh_trigger_interval (self_) (gbt_word)); (let self__12 := c_34.2; ((), self__12))))) else ((), self__8)))) else (if (word == ItsPayloadWord.TDT) then (let c_35 := (CdpRunningValidator.preprocess_tdt (self_) (gbt_word)); (let self__8 := c_35.2; (c_35.1, self__8))) else (if (word == ItsPayloadWord.IHW) then (let c_36 := (CdpRunningValidator.preprocess_ihw (self_) (gbt_word)); (let self__8 := c_36.2; (if self__8.f_running_checks_enabled then (let c_37 := (CdpRunningValidator.check_rdh_at_initial_ihw (self__8) (gbt_word)); (let self_ := c_37.2; ((), self_))) else ((), self__8)))) else (if (word == ItsPayloadWord.TDH_after_packet_done) then (let c_38 := (CdpRunningValidator.preprocess_tdh (self_) (gbt_word)); (let self__8 := c_38.2; (if self__8.f_running_checks_enabled then (let c_39 := (CdpRunningValidator.check_tdh_by_was_tdt_packet_done_true (self__8) (gbt_word)); (let self_ := c_39.2; (let c_40 := (CdpRunningValidator.check_tdh_trigger_interval (self_) (gbt_word)); (let self__12 := c_40.2; ((), self__12))))) else ((), self__8)))) else (if (word == ItsPayloadWord.DDW0) then (let c_41 := (CdpRunningValidator.preprocess_ddw0 (self_) (gbt_word)); (let self__8 := c_41.2; (c_41.1, self__8))) else (if (word == ItsPayloadWord.TDH_continuation) then (let c_42 := (CdpRunningValidator.preprocess_tdh (self_) (gbt_word)); (let self__8 := c_42.2; (if self__8.f_running_checks_enabled then (let c_43 := (CdpRunningValidator.check_tdh_continuation (self__8) (gbt_word)); (let self_ := c_43.2; ((), self_))) else ((), self__8)))) else (let c_44 := (CdpRunningValidator.preprocess_ihw (self_) (gbt_word)); (let self__8 := c_44.2; (c_44.1, self__8)))))))))))))))))

def CdpRunningValidator.set_current_rdh (self_ : CdpRunningValidator) (rdh : SrcRdh.RdhCru) (rdh_mem_pos : Nat) : (Unit × CdpRunningValidator) :=
  (let self__1 := { self_ with f_tracker := (SrcState.CdpTracker.new (rdh) (rdh_mem_pos)) }; (let self_ := { self__1 with f_rdh_validator := (SrcState.ItsRdhValidator.new (rdh)) }; ((), self_)))

def CdpRunningValidator.report_at (self_ : CdpRunningValidator) (pos : Nat) (error : Rs.Str) : (Unit × CdpRunningValidator) :=
  (let self__1 := { self_ with f_out := (self_.f_out ++ [Rs.Report.mk pos error [] false false]) }; ((), self__1))

def CdpRunningValidator.reset_fsm (self_ : CdpRunningValidator) : (Unit × CdpRunningValidator) :=
  (let self__1 := { self_ with f_its_state_machine := SrcFsm.initial }; ((), self__1))

def do_payload_checks (cdp : (SrcRdh.RdhCru × Bytes × Nat)) (cdp_validator : CdpRunningValidator) : CdpRunningValidator :=
  (let (rdh, payload, rdh_mem_pos) := cdp; (let c_45 := (CdpRunningValidator.set_current_rdh (cdp_validator) (rdh) (rdh_mem_pos)); (let cdp_validator_5 := c_45.2; (let m_46 := (SrcPayload.preprocess_payload (payload)); (if (m_46).isErr then (let e := (m_46).errStr; (let c_47 := (CdpRunningValidator.report_at (cdp_validator_5) (rdh_mem_pos) (((Rs.Str.lit true []).app e))); (let cdp_validator := c_47.2; (let c_48 := (CdpRunningValidator.reset_fsm (cdp_validator)); (let cdp_validator_11 := c_48.2; cdp_validator_11))))) else (let gbt_word_chunks := (Rs.Res.unwrapD m_46); (let cdp_validator := (List.foldl (fun v w => (CdpRunningValidator.check v (w.take 10)).2) cdp_validator_5 gbt_word_chunks); cdp_validator)))))))

/-! kernel-checked: every literal mask was split into contiguous runs correctly -/
end SrcLink
end FastPasta
