/- GENERATED on every run by tools/rs2lean.py from the Rust sources listed below — do not edit.
   alice_protocol_reader/src/rdh/rdh0.rs
   alice_protocol_reader/src/rdh/rdh1.rs
   alice_protocol_reader/src/rdh/rdh2.rs
   alice_protocol_reader/src/rdh/rdh3.rs
   alice_protocol_reader/src/rdh/rdh_cru.rs
   fastpasta/src/words/its/status_words/ihw.rs
   fastpasta/src/words/its/status_words/tdh.rs
   fastpasta/src/words/its/status_words/tdt.rs
   fastpasta/src/words/its/status_words/ddw.rs
   fastpasta/src/words/its/status_words/cdw.rs
   fastpasta/src/analyze/validators/its/status_word/tdh.rs
   fastpasta/src/analyze/validators/its/status_word/util.rs
   fastpasta/src/analyze/validators/its/cdp_running/cdp_tracker.rs
   fastpasta/src/analyze/validators/its/cdp_running/rdh_validator.rs
   fastpasta/src/words/its/status_words.rs
   fastpasta/src/words/its/status_words/util.rs
   fastpasta/src/analyze/validators/its/cdp_running.rs
-/
import FastPasta.Spec.RsPrelude
import FastPasta.Spec.WordsSrcGen
import FastPasta.Spec.RdhSrcGen
import FastPasta.Spec.StateSrcGen
set_option linter.unusedVariables false
namespace FastPasta
namespace SrcLink
structure CdpRunningValidator where
  f_running_checks_enabled : Bool
  f_tracker : SrcState.CdpTracker
  f_rdh_validator : SrcState.ItsRdhValidator
  f_status_words : SrcState.StatusWordContainer
  f_out : (List Rs.Report)
  deriving DecidableEq, Repr, Inhabited
def CdpRunningValidator.report_error (self_ : CdpRunningValidator) (error : Rs.Str) (word_slice : Bytes) : (Unit × CdpRunningValidator) :=
  (let self__1 := { self_ with f_out := (self_.f_out ++ [Rs.Report.mk (SrcState.CdpTracker.current_word_mem_pos (self_.f_tracker)) error word_slice false]) }; ((), self__1))

def CdpRunningValidator.preprocess_ihw (self_ : CdpRunningValidator) (ihw_slice : Bytes) : (Unit × CdpRunningValidator) :=
  (let ihw := (Rs.Res.unwrapD (SrcWords.Ihw.from_buf (ihw_slice))); (let self__2 := (if ((SrcState.StatusWordContainer.sanity_check_ihw (self_.f_status_words) (ihw))).isErr then (let c_1 := (CdpRunningValidator.report_error (self_) (((Rs.Str.lit true [30]).app ((SrcState.StatusWordContainer.sanity_check_ihw (self_.f_status_words) (ihw))).errStr)) (ihw_slice)); (let self__3 := c_1.2; self__3)) else self_); (let c_2 := (SrcState.StatusWordContainer.replace_ihw (self__2.f_status_words) (ihw)); (let self_ := { self__2 with f_status_words := c_2.2 }; ((), self_)))))

def CdpRunningValidator.report_errors (self_ : CdpRunningValidator) (errors : Rs.Str) (word_slice : Bytes) : (Unit × CdpRunningValidator) :=
  (let self__1 := { self_ with f_out := (self_.f_out ++ [Rs.Report.mk (SrcState.CdpTracker.current_word_mem_pos (self_.f_tracker)) errors word_slice true]) }; ((), self__1))

def CdpRunningValidator.check_rdh_at_ddw0 (self_ : CdpRunningValidator) (ddw0_slice : Bytes) : (Unit × CdpRunningValidator) :=
  (if ((SrcState.ItsRdhValidator.check_at_ddw0 (self_.f_rdh_validator))).isErr then (let c_12 := (CdpRunningValidator.report_errors (self_) (((SrcState.ItsRdhValidator.check_at_ddw0 (self_.f_rdh_validator))).errStr) (ddw0_slice)); (let self__2 := c_12.2; ((), self__2))) else ((), self_))

def CdpRunningValidator.preprocess_ddw0 (self_ : CdpRunningValidator) (ddw0_slice : Bytes) : (Unit × CdpRunningValidator) :=
  (let ddw0 := (Rs.Res.unwrapD (SrcWords.Ddw0.from_buf (ddw0_slice))); (let self__2 := (if ((SrcState.StatusWordContainer.sanity_check_ddw0 (self_.f_status_words) (ddw0))).isErr then (let c_3 := (CdpRunningValidator.report_error (self_) (((Rs.Str.lit true [60]).app ((SrcState.StatusWordContainer.sanity_check_ddw0 (self_.f_status_words) (ddw0))).errStr)) (ddw0_slice)); (let self__3 := c_3.2; self__3)) else self_); (let self_ := (if self__2.f_running_checks_enabled then (let c_4 := (CdpRunningValidator.check_rdh_at_ddw0 (self__2) (ddw0_slice)); (let self_ := c_4.2; self_)) else self__2); (let c_5 := (SrcState.StatusWordContainer.replace_ddw (self_.f_status_words) (ddw0)); (let self__5 := { self_ with f_status_words := c_5.2 }; ((), self__5))))))

def CdpRunningValidator.process_cdw (self_ : CdpRunningValidator) (cdw_slice : Bytes) : (Unit × CdpRunningValidator) :=
  (if (!self_.f_running_checks_enabled) then ((), self_) else (let cdw := (Rs.Res.unwrapD (SrcWords.Cdw.from_buf (cdw_slice))); (let self__2 := (if (match (SrcState.StatusWordContainer.cdw (self_.f_status_words)) with | some prv_cdw => (((SrcWords.Cdw.calibration_user_fields (prv_cdw)) != (SrcWords.Cdw.calibration_user_fields (cdw))) && ((SrcWords.Cdw.calibration_word_index (cdw)) != 0)) | none => false) then (let c_6 := (CdpRunningValidator.report_error (self_) ((Rs.Str.lit true [81])) (cdw_slice)); (let self__3 := c_6.2; self__3)) else self_); (let c_7 := (SrcState.StatusWordContainer.replace_cdw (self__2.f_status_words) (cdw)); (let self_ := { self__2 with f_status_words := c_7.2 }; ((), self_))))))

def CdpRunningValidator.check_tdh_by_was_tdt_packet_done_true (self_ : CdpRunningValidator) (tdh_slice : Bytes) : (Unit × CdpRunningValidator) :=
  (if ((SrcState.TdhValidator.check_after_tdt_packet_done_true (self_.f_status_words))).isErr then (let c_8 := (CdpRunningValidator.report_error (self_) ((Rs.Str.lit true [440])) (tdh_slice)); (let self__2 := c_8.2; ((), self__2))) else ((), self_))

def CdpRunningValidator.check_rdh_at_initial_ihw (self_ : CdpRunningValidator) (ihw_slice : Bytes) : (Unit × CdpRunningValidator) :=
  (if ((SrcState.ItsRdhValidator.check_at_initial_ihw (self_.f_rdh_validator))).isErr then (let c_9 := (CdpRunningValidator.report_errors (self_) (((SrcState.ItsRdhValidator.check_at_initial_ihw (self_.f_rdh_validator))).errStr) (ihw_slice)); (let self__2 := c_9.2; ((), self__2))) else ((), self_))

def CdpRunningValidator.check_tdh_continuation (self_ : CdpRunningValidator) (tdh_slice : Bytes) : (Unit × CdpRunningValidator) :=
  (if ((SrcState.TdhValidator.check_continuation ((Rs.unwrapD (SrcState.StatusWordContainer.tdh (self_.f_status_words)))) ((SrcState.StatusWordContainer.prv_tdh (self_.f_status_words))))).isErr then (let c_10 := (CdpRunningValidator.report_errors (self_) (((SrcState.TdhValidator.check_continuation ((Rs.unwrapD (SrcState.StatusWordContainer.tdh (self_.f_status_words)))) ((SrcState.StatusWordContainer.prv_tdh (self_.f_status_words))))).errStr) (tdh_slice)); (let self__2 := c_10.2; ((), self__2))) else ((), self_))

def CdpRunningValidator.check_tdh_no_continuation (self_ : CdpRunningValidator) (tdh_slice : Bytes) : (Unit × CdpRunningValidator) :=
  (if ((SrcState.TdhValidator.check_tdh_no_continuation ((Rs.unwrapD (SrcState.StatusWordContainer.tdh (self_.f_status_words)))) ((SrcState.ItsRdhValidator.rdh (self_.f_rdh_validator))))).isErr then (let c_11 := (CdpRunningValidator.report_errors (self_) (((SrcState.TdhValidator.check_tdh_no_continuation ((Rs.unwrapD (SrcState.StatusWordContainer.tdh (self_.f_status_words)))) ((SrcState.ItsRdhValidator.rdh (self_.f_rdh_validator))))).errStr) (tdh_slice)); (let self__2 := c_11.2; ((), self__2))) else ((), self_))

/-! kernel-checked: every literal mask was split into contiguous runs correctly -/
end SrcLink
end FastPasta
