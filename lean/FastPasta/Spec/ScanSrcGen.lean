/- GENERATED on every run by tools/rs2lean.py from the Rust sources listed below — do not edit.
   alice_protocol_reader/src/rdh/rdh0.rs
   alice_protocol_reader/src/rdh/rdh1.rs
   alice_protocol_reader/src/rdh/rdh2.rs
   alice_protocol_reader/src/rdh/rdh3.rs
   alice_protocol_reader/src/rdh/rdh_cru.rs
   alice_protocol_reader/src/config/filter.rs
   alice_protocol_reader/src/mem_pos_tracker.rs
   alice_protocol_reader/src/input_scanner.rs
-/
import FastPasta.Spec.RsPrelude
import FastPasta.Spec.RdhSrcGen
set_option linter.unusedVariables false
namespace FastPasta
namespace SrcScan
structure MemPosTracker where
  f_memory_address_bytes : Nat
  f_offset_next : Int
  f_rdh_cru_size_bytes : Nat
  deriving DecidableEq, Repr, Inhabited
inductive FilterTarget where
  | Link (a0 : Nat)
  | Fee (a0 : Nat)
  | ItsLayerStave (a0 : Nat)
  deriving DecidableEq, Repr, Inhabited
def is_match_feeid_layer_stave (a_fee_id : Nat) (b_fee_id : Nat) : Bool :=
  (let layer_stave_mask := 28735; (((a_fee_id &&& (Rs.mask 0 6 ||| Rs.mask 12 3))) == ((b_fee_id &&& (Rs.mask 0 6 ||| Rs.mask 12 3)))))

def is_rdh_filter_target (rdh : SrcRdh.RdhCru) (target : FilterTarget) : Bool :=
  (match target with | .Link id => ((SrcRdh.RdhCru.link_id (rdh)) == id) | .Fee id => ((SrcRdh.RdhCru.fee_id (rdh)) == id) | .ItsLayerStave fee_id => (is_match_feeid_layer_stave ((SrcRdh.RdhCru.fee_id (rdh))) (fee_id)))

def MemPosTracker.RDH_SIZE_BYTES : Nat := 64

def MemPosTracker.new  : MemPosTracker :=
  { f_rdh_cru_size_bytes := MemPosTracker.RDH_SIZE_BYTES, f_offset_next := 0, f_memory_address_bytes := 0 : MemPosTracker }

def MemPosTracker.next (self_ : MemPosTracker) (rdh_offset : Nat) : (Int × MemPosTracker) :=
  (let self__1 := { self_ with f_offset_next := (Rs.toSigned 64 ((((rdh_offset + 2^64 - self_.f_rdh_cru_size_bytes) % 2^64)) % 2^64)) }; (let self_ := { self__1 with f_memory_address_bytes := ((self__1.f_memory_address_bytes + rdh_offset) % 2^64) }; (self_.f_offset_next, self_)))

def MemPosTracker.current_mem_address (self_ : MemPosTracker) : Nat :=
  self_.f_memory_address_bytes

def MemPosTracker.update_mem_address (self_ : MemPosTracker) (mem_offset : Nat) : (Unit × MemPosTracker) :=
  (let self__1 := { self_ with f_memory_address_bytes := ((self_.f_memory_address_bytes + mem_offset) % 2^64) }; ((), self__1))

/-! kernel-checked: every literal mask was split into contiguous runs correctly -/
example : (Rs.mask 0 6 ||| Rs.mask 12 3) = 28735 := by decide
end SrcScan
end FastPasta
