/- GENERATED on every run by tools/rs2lean.py from the Rust sources listed below — do not edit.
   alice_protocol_reader/src/rdh/rdh0.rs
   alice_protocol_reader/src/rdh/rdh1.rs
   alice_protocol_reader/src/rdh/rdh2.rs
   alice_protocol_reader/src/rdh/rdh3.rs
   alice_protocol_reader/src/rdh/rdh_cru.rs
   fastpasta/src/words/its.rs
   fastpasta/src/analyze/validators/rdh.rs
   fastpasta/src/analyze/validators/rdh_running.rs
   fastpasta/src/config/check.rs
   fastpasta/src/analyze/validators/link_validator.rs
-/
import FastPasta.Spec.RsPrelude
import FastPasta.Spec.RdhSrcGen
set_option linter.unusedVariables false
namespace FastPasta
namespace SrcLinkRdh
structure LinkValidator where
  f_running_checks : Bool
  f_out : (List Rs.Report)
  f_rdh_running_validator : SrcRdh.RdhCruRunningChecker
  f_rdh_sanity_validator : SrcRdh.RdhCruSanityValidator
  deriving DecidableEq, Repr, Inhabited
def LinkValidator.report_rdh_error (self_ : LinkValidator) (rdh : SrcRdh.RdhCru) (error : Rs.Str) (rdh_mem_pos : Nat) : (Unit × LinkValidator) :=
  (let self__1 := { self_ with f_out := (self_.f_out ++ [Rs.Report.mk rdh_mem_pos error [] false false]) }; ((), self__1))

def LinkValidator.do_rdh_checks (self_ : LinkValidator) (rdh : SrcRdh.RdhCru) (rdh_mem_pos : Nat) : (Unit × LinkValidator) :=
  (let c_1 := (SrcRdh.RdhCruSanityValidator.sanity_check (self_.f_rdh_sanity_validator) (rdh)); (let self__2 := { self_ with f_rdh_sanity_validator := c_1.2 }; (let self_ := (if (c_1.1).isErr then (let c_2 := (LinkValidator.report_rdh_error (self__2) (rdh) ((c_1.1).errStr) (rdh_mem_pos)); (let self_ := c_2.2; self_)) else self__2); (if self_.f_running_checks then (let c_3 := (SrcRdh.RdhCruRunningChecker.check (self_.f_rdh_running_validator) (rdh)); (let self__5 := { self_ with f_rdh_running_validator := c_3.2 }; (if (c_3.1).isErr then (let c_4 := (LinkValidator.report_rdh_error (self__5) (rdh) ((c_3.1).errStr) (rdh_mem_pos)); (let self_ := c_4.2; ((), self_))) else ((), self__5)))) else ((), self_)))))

/-! kernel-checked: every literal mask was split into contiguous runs correctly -/
end SrcLinkRdh
end FastPasta
