/-
  Spec.AlpideSrc — the (hand-written, fixed) vocabulary into which `tools/alpide2lean.py` translates
  `LaneAlpideFrameAnalyzer::decode`: an `Act` is the set of field updates one arm of the word `match`
  performs, a `Guard` is one of the early-return tests in front of it. `run` interprets both on the
  model's decoder state. `store_bunch_counter` and `log_readout_flags` are not translated: they are
  the model's (`storeBc`, `AlpideStats.logTrailer`), tied by correspondence.
-/
import FastPasta.Model.Alpide
namespace FastPasta
namespace SrcAlpide

/-- field updates of one arm of `decode`'s word match (`none` / `false` = field untouched) -/
structure Act where
  skip : Option Nat := none        -- self.skip_n_bytes = n
  header : Option Bool := none     -- self.is_header_seen = b
  lastChip : Bool := false         -- self.last_chip_id = alpide_byte & 0b1111
  nextBc : Bool := false           -- self.next_is_bc = true
  logFlags : Bool := false         -- self.alpide_stats.log_readout_flags(alpide_byte)
  fatal : Bool := false            -- self.lane_status_fatal = true
  deriving DecidableEq, Repr

/-- the early-return tests of `decode` -/
inductive Guard
  | skipping       -- if self.skip_n_bytes > 0 { self.skip_n_bytes -= 1; return; }
  | bunchCounter   -- if self.next_is_bc { store_bunch_counter(byte) …; self.next_is_bc = false; return; }
  | padding        -- if !self.is_header_seen && alpide_byte == 0 { return; }
  deriving DecidableEq, Repr

def Act.apply (a : Act) (d : LaneDec) (b : Nat) : LaneDec :=
  { d with skip := a.skip.getD d.skip,
           headerSeen := a.header.getD d.headerSeen,
           lastChip := if a.lastChip then b % 16 else d.lastChip,
           nextIsBc := if a.nextBc then true else d.nextIsBc,
           stats := if a.logFlags then d.stats.logTrailer b else d.stats,
           fatal := if a.fatal then true else d.fatal }

/-- `store_bunch_counter` (model side, not translated) -/
def storeBc (d : LaneDec) (b : Nat) : LaneDec :=
  if d.chips.any (·.1 == d.lastChip) then { d with bcErr := true } else { d with chips := d.chips ++ [(d.lastChip, b)] }

/-- a guard that fires returns the state `decode` returns with -/
def Guard.fire (g : Guard) (d : LaneDec) (b : Nat) : Option LaneDec :=
  match g with
  | .skipping => if d.skip > 0 then some { d with skip := d.skip - 1 } else none
  | .bunchCounter => if d.nextIsBc then some { (storeBc d b) with nextIsBc := false } else none
  | .padding => if !d.headerSeen && b == 0 then some d else none

/-- `decode`: the guards in order, then the word's action -/
def run (gs : List Guard) (action : Nat → Act) (d : LaneDec) (b : Nat) : LaneDec :=
  match gs with
  | [] => (action b).apply d b
  | g :: rest => match g.fire d b with
    | some d' => d'
    | none => run rest action d b

end SrcAlpide
end FastPasta
