/- GENERATED on every run by tools/rs2lean.py from the Rust sources listed below — do not edit.
   fastpasta/src/stats/stats_collector/its_stats/alpide_stats.rs
-/
import FastPasta.Spec.RsPrelude
set_option linter.unusedVariables false
namespace FastPasta
namespace SrcAlpStats
structure ReadoutFlags where
  f_chip_trailers_seen : Nat
  f_busy_violations : Nat
  f_data_overrun : Nat
  f_transmission_in_fatal : Nat
  f_flushed_incomplete : Nat
  f_strobe_extended : Nat
  f_busy_transitions : Nat
  deriving DecidableEq, Repr, Inhabited
structure AlpideStats where
  f_readout_flags : ReadoutFlags
  deriving DecidableEq, Repr, Inhabited
def ReadoutFlags.CHIP_TRAILER_BUSY_VIOLATION : Nat := 184

def ReadoutFlags.CHIP_TRAILER_DATA_OVERRUN : Nat := 188

def ReadoutFlags.CHIP_TRAILER_TRANSMISSION_IN_FATAL : Nat := 190

def ReadoutFlags.log (self_ : ReadoutFlags) (chip_trailer : Nat) : (Unit × ReadoutFlags) :=
  (let self__1 := { self_ with f_chip_trailers_seen := ((self_.f_chip_trailers_seen + 1) % 2^32) }; (if (chip_trailer == ReadoutFlags.CHIP_TRAILER_BUSY_VIOLATION) then (let self_ := { self__1 with f_busy_violations := ((self__1.f_busy_violations + 1) % 2^32) }; ((), self_)) else (if (chip_trailer == ReadoutFlags.CHIP_TRAILER_DATA_OVERRUN) then (let self_ := { self__1 with f_data_overrun := ((self__1.f_data_overrun + 1) % 2^32) }; ((), self_)) else (if (chip_trailer == ReadoutFlags.CHIP_TRAILER_TRANSMISSION_IN_FATAL) then (let self_ := { self__1 with f_transmission_in_fatal := ((self__1.f_transmission_in_fatal + 1) % 2^32) }; ((), self_)) else (let val := chip_trailer; (let self_ := { self__1 with f_flushed_incomplete := ((self__1.f_flushed_incomplete + (if (((val &&& (Rs.mask 2 1)) == 4)) then 1 else 0)) % 2^32) }; (let self__4 := { self_ with f_strobe_extended := ((self_.f_strobe_extended + (if (((val &&& (Rs.mask 1 1)) == 2)) then 1 else 0)) % 2^32) }; (let self_ := { self__4 with f_busy_transitions := ((self__4.f_busy_transitions + (if (((val &&& (Rs.mask 0 1)) == 1)) then 1 else 0)) % 2^32) }; ((), self_)))))))))

def AlpideStats.log_readout_flags (self_ : AlpideStats) (chip_trailer : Nat) : (Unit × AlpideStats) :=
  (let c_1 := (ReadoutFlags.log (self_.f_readout_flags) (chip_trailer)); (let self__2 := { self_ with f_readout_flags := c_1.2 }; ((), self__2)))

def ReadoutFlags.sum (self_ : ReadoutFlags) (other : ReadoutFlags) : ReadoutFlags :=
  { f_chip_trailers_seen := ((self_.f_chip_trailers_seen + other.f_chip_trailers_seen) % 2^32), f_busy_violations := ((self_.f_busy_violations + other.f_busy_violations) % 2^32), f_flushed_incomplete := ((self_.f_flushed_incomplete + other.f_flushed_incomplete) % 2^32), f_strobe_extended := ((self_.f_strobe_extended + other.f_strobe_extended) % 2^32), f_busy_transitions := ((self_.f_busy_transitions + other.f_busy_transitions) % 2^32), f_data_overrun := ((self_.f_data_overrun + other.f_data_overrun) % 2^32), f_transmission_in_fatal := ((self_.f_transmission_in_fatal + other.f_transmission_in_fatal) % 2^32) : ReadoutFlags }

def AlpideStats.sum (self_ : AlpideStats) (other : AlpideStats) : (Unit × AlpideStats) :=
  (let self__1 := { self_ with f_readout_flags := (ReadoutFlags.sum (self_.f_readout_flags) (other.f_readout_flags)) }; ((), self__1))

/-! kernel-checked: every literal mask was split into contiguous runs correctly -/
example : (Rs.mask 2 1) = 4 := by decide
example : (Rs.mask 1 1) = 2 := by decide
example : (Rs.mask 0 1) = 1 := by decide
end SrcAlpStats
end FastPasta
