/- GENERATED on every run by tools/rs2lean.py from the Rust sources listed below — do not edit.
   fastpasta/src/words/its.rs
   fastpasta/src/words/its/alpide.rs
   fastpasta/src/analyze/validators/its/alpide/lane_alpide_frame_analyzer.rs
-/
import FastPasta.Spec.RsPrelude
set_option linter.unusedVariables false
namespace FastPasta
namespace SrcLane
structure AlpideFrameChipData where
  f_chip_id : Nat
  f_bunch_counter : (Option Nat)
  deriving DecidableEq, Repr, Inhabited
inductive Layer where
  | Inner
  | Middle
  | Outer
  deriving DecidableEq, Repr, Inhabited
structure LaneAlpideFrameAnalyzer where
  f_lane_number : Nat
  f_chip_data : (List AlpideFrameChipData)
  f_from_layer : (Option Layer)
  f_valid_chip_order_ob : (Option (List (List Nat)))
  f_valid_chip_count_ob : (Option Nat)
  deriving DecidableEq, Repr, Inhabited
def LaneAlpideFrameAnalyzer.IL_CHIP_COUNT : Nat := 1

def LaneAlpideFrameAnalyzer.check_chip_count (self_ : LaneAlpideFrameAnalyzer) : (Rs.Res Unit) :=
  (if ((self_.f_from_layer == (some Layer.Inner))) then (if ((self_.f_chip_data.length) != LaneAlpideFrameAnalyzer.IL_CHIP_COUNT) then (Rs.Res.err (Rs.Str.lit true [])) else (Rs.Res.ok ())) else (if (self_.f_valid_chip_count_ob).isSome then (if ((self_.f_chip_data.length) != (Rs.unwrapD self_.f_valid_chip_count_ob)) then (Rs.Res.err (Rs.Str.lit true [])) else (Rs.Res.ok ())) else (Rs.Res.ok ())))

def LaneAlpideFrameAnalyzer.check_chip_id_order (self_ : LaneAlpideFrameAnalyzer) : (Rs.Res Unit) :=
  (let chip_ids := (self_.f_chip_data.map (fun cd => cd.f_chip_id)); (if (self_.f_from_layer).isSome then (if ((Rs.unwrapD self_.f_from_layer) == Layer.Inner) then (if ((chip_ids.getD 0 0) != self_.f_lane_number) then (Rs.Res.err (Rs.Str.lit true [])) else (Rs.Res.ok ())) else (if (self_.f_valid_chip_order_ob).isSome then (if (!((Rs.unwrapD self_.f_valid_chip_order_ob).contains chip_ids)) then (Rs.Res.err (Rs.Str.lit true [])) else (Rs.Res.ok ())) else (Rs.Res.ok ()))) else (Rs.Res.ok ())))

/-! kernel-checked: every literal mask was split into contiguous runs correctly -/
end SrcLane
end FastPasta
