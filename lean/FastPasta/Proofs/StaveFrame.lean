/-
  Proofs.StaveFrame — a readout frame that satisfies the frame grammar (`Proto.FrameOk`) passes
  the ALPIDE frame checks: no lane error, no fatal lane, lane set accepted. Used by C01 (stave mode).
-/
import FastPasta.Spec.ProtocolStave
import FastPasta.Props.C13
namespace FastPasta
namespace Proto

theorem apply_fatal (evs : List Event) : ∀ d : LaneDec, (evs.foldl Event.apply d).fatal = d.fatal := by
  induction evs with
  | nil => intro d; rfl
  | cons e es ih =>
    intro d
    simp only [List.foldl_cons]
    rw [ih]
    cases e <;> simp only [Event.apply] <;> (repeat' split) <;> rfl

theorem dedupNat_const (l : List Nat) (b : Nat) (hne : l ≠ []) (h : ∀ x ∈ l, x = b) : dedupNat l = [b] := by
  induction l with
  | nil => exact absurd rfl hne
  | cons x xs ih =>
    have hx : x = b := h x (by simp)
    subst hx
    by_cases hxs : xs = []
    · subst hxs; rfl
    · have := ih hxs (fun y hy => h y (by simp [hy]))
      simp [dedupNat, this]

theorem dedupNat_const_le (l : List Nat) (b : Nat) (h : ∀ x ∈ l, x = b) : (dedupNat l).length ≤ 1 := by
  by_cases hne : l = []
  · subst hne; simp [dedupNat]
  · rw [dedupNat_const l b hne h]; simp

/-- a lane accepted by the frame grammar gets the verdict "valid, bunch counter bc" -/
theorem laneOk_verdict (barrel : Barrel) (id : Nat) (data : Bytes) (bc : Nat) (h : LaneOk barrel id data bc) :
    laneVerdict {} barrel (laneNumber barrel id) (decodeLane data) = .valid bc := by
  obtain ⟨evs, rfl, hv, hbc, hne, hall, hin⟩ := h
  rw [C13.decode_encode evs hv]
  generalize hd : evs.foldl Event.apply {} = d at hbc hne hall hin
  have hfat : d.fatal = false := by rw [← hd, apply_fatal]
  have hbcs : dedupNat (d.chips.map (·.2)) = [bc] :=
    dedupNat_const _ bc (by simpa using hne) (by
      intro x hx
      simp only [List.mem_map] at hx
      obtain ⟨c, hc, rfl⟩ := hx
      exact hall c hc)
  have hemp : d.chips.isEmpty = false := by
    cases hc : d.chips with
    | nil => exact absurd hc hne
    | cons _ _ => rfl
  unfold laneVerdict
  simp only [hfat, Bool.false_eq_true, ↓reduceIte]
  have hcodes : laneCodes {} barrel (laneNumber barrel id) d = [] := by
    unfold laneCodes
    simp only [hbc, Bool.false_eq_true, ↓reduceIte, hemp, hbcs, List.length_singleton, Nat.lt_irrefl, decide_false,
      Bool.or_self, List.nil_append]
    cases barrel with
    | inner =>
      have hm := hin rfl
      have hlen : d.chips.length = 1 := by
        have := congrArg List.length hm
        simpa using this
      simp [countBad, orderBad, hlen, hm, laneNumber]
    | middle => simp [countBad, orderBad]
    | outer => simp [countBad, orderBad]
  simp [hcodes, hbcs]

theorem go_valid (barrel : Barrel) (bc : Nat) (fs : LaneFrames) :
    ∀ (errIds : List Nat) (nErr : Nat) (codes : List String) (st : AlpideStats) (fatal : List Nat) (valid : List (Nat × Nat)),
      (∀ f ∈ fs, laneVerdict {} barrel (laneNumber barrel f.1) (decodeLane f.2) = .valid bc) →
      (∀ v ∈ valid, v.2 = bc) →
      (checkAlpideFrame.go {} barrel fs errIds nErr codes st fatal valid).laneErrorCount = nErr ∧
      (checkAlpideFrame.go {} barrel fs errIds nErr codes st fatal valid).newFatal = fatal := by
  induction fs with
  | nil =>
    intro errIds nErr codes st fatal valid _ hv
    have hle : (dedupNat (valid.map (·.2))).length ≤ 1 :=
      dedupNat_const_le _ bc (by
        intro x hx
        simp only [List.mem_map] at hx
        obtain ⟨v, hvv, rfl⟩ := hx
        exact hv v hvv)
    have : ¬ ((dedupNat (valid.map (·.2))).length > 1) := by omega
    simp [checkAlpideFrame.go, this]
  | cons f fs ih =>
    intro errIds nErr codes st fatal valid hf hv
    obtain ⟨id, data⟩ := f
    have h1 := hf (id, data) (by simp)
    simp only at h1
    simp only [checkAlpideFrame.go, h1]
    apply ih
    · intro g hg; exact hf g (by simp [hg])
    · intro v hvv
      simp only [List.mem_append, List.mem_singleton] at hvv
      rcases hvv with hvv | rfl
      · exact hv v hvv
      · rfl

theorem lanes_valid (barrel : Barrel) (fs : LaneFrames) (h : lanesOfBarrel barrel fs = true) :
    frameLanesValid barrel fs none = true := by
  cases barrel with
  | inner =>
    rw [C13.lane_count_iff_ib]
    simp only [lanesOfBarrel, Bool.and_eq_true, beq_iff_eq] at h
    simp [h.1, h.2]
  | middle =>
    rw [C13.lane_count_iff_ml]
    simp only [lanesOfBarrel, beq_iff_eq] at h
    simp [h]
  | outer =>
    rw [C13.lane_count_iff_ol]
    simp only [lanesOfBarrel, beq_iff_eq] at h
    simp [h]

/-- **a conforming frame passes**: no lane error message, no new fatal lane, lane set accepted -/
theorem frameOk_checks (barrel : Barrel) (dws : List Bytes) (h : FrameOk barrel dws) :
    (checkAlpideFrame {} barrel (frameLanes dws)).laneErrorCount = 0 ∧
    (checkAlpideFrame {} barrel (frameLanes dws)).newFatal = [] ∧
    frameLanesValid barrel (frameLanes dws) none = true := by
  obtain ⟨hl, bc, hlanes⟩ := h
  have := go_valid barrel bc (frameLanes dws) [] 0 [] {} [] []
    (fun f hf => laneOk_verdict barrel f.1 f.2 bc (hlanes f hf)) (by intro v hv; simp at hv)
  exact ⟨this.1, this.2, lanes_valid barrel _ hl⟩

end Proto
end FastPasta
