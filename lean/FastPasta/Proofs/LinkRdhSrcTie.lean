/-
  Proofs.LinkRdhSrcTie — the header part of `LinkValidator::do_checks` (`do_rdh_checks`, link_validator.rs → `Spec/LinkRdhSrcGen.lean`,
  translated on every run) IS the header part of the model's `linkStep`: the sanity validator first (learning the header id), the running
  checker only for `check all`, each failure reported once at the packet's offset without a word dump, `[E10]` before `[E11]`.
-/
import FastPasta.Spec.LinkRdhSrcGen
import FastPasta.Proofs.LinkSrcTie
namespace FastPasta
namespace SrcTie
open SrcRdh SrcLinkRdh
set_option linter.unusedSimpArgs false

/-- `do_rdh_checks` = the `m1`, `m2`, `expectId`, `run` part of `linkStep` -/
theorem do_rdh_checks_eq (cfg : CheckCfg) (v : LinkValidator) (s : LinkSt) (c : RdhCru) (off : Nat) (sysId : Option Nat)
    (hrun : v.f_running_checks = cfg.running)
    (hsan : v.f_rdh_sanity_validator = mkValidator s.expectId sysId)
    (habs : runAbs v.f_rdh_running_validator = s.run) (hwf : RunWf v.f_rdh_running_validator)
    (hfee : c.f_rdh0.f_fee_id.f_0 < 65536) (hcd : c.f_cruid_dw.f_0 < 65536) :
    let expectId := s.expectId.getD (toModel c).headerId
    let v' := (v.do_rdh_checks c off).2
    v'.f_running_checks = cfg.running ∧
    v'.f_rdh_sanity_validator = mkValidator (some expectId) sysId ∧
    runAbs v'.f_rdh_running_validator = (if cfg.running then (runningStep s.run (toModel c)).1 else s.run) ∧
    RunWf v'.f_rdh_running_validator ∧
    outMsgs v'.f_out = outMsgs v.f_out ++
      (if rdhSanityBad expectId sysId (toModel c) then [mkErrNoWord off "E10"] else []) ++
      (if (if cfg.running then (runningStep s.run (toModel c)).2 else false) then [mkErrNoWord off "E11"] else []) := by
  intro expectId v'
  obtain ⟨hs1, hs2, hs3⟩ := sanity_check_c s.expectId sysId c hfee hcd
  obtain ⟨hr1, hr2, hr3, hr4⟩ := running_check_eq v.f_rdh_running_validator c hwf
  have hid : (toModel c).headerId = c.f_rdh0.f_header_id := rfl
  simp only [v', LinkValidator.do_rdh_checks, LinkValidator.report_rdh_error, hsan]
  by_cases hbad : rdhSanityBad expectId sysId (toModel c) = true
  · have he : (RdhCruSanityValidator.sanity_check (mkValidator s.expectId sysId) c).1.isErr = true := by rw [hs1]; exact hbad
    obtain ⟨cs, hcs⟩ := hs2 he
    by_cases hR : cfg.running = true
    · by_cases h11 : (runningStep s.run (toModel c)).2 = true
      · have he2 : (RdhCruRunningChecker.check v.f_rdh_running_validator c).1.isErr = true := by rw [hr3, habs]; exact h11
        obtain ⟨cs2, hcs2⟩ := hr4 he2
        simp only [he, hrun, hR, he2, hbad, h11, if_true]
        refine ⟨trivial, hs3, by rw [hr1, habs], hr2, ?_⟩
        simp [outMsgs_append, outMsgs, reportMsgs, hcs, hcs2, mkErrNoWord, codeStr]
      · have he2 : (RdhCruRunningChecker.check v.f_rdh_running_validator c).1.isErr = false := by
          rw [hr3, habs]; simpa using h11
        simp only [he, hrun, hR, he2, hbad, h11, if_true, Bool.false_eq_true, if_false, List.append_nil]
        refine ⟨trivial, hs3, by rw [hr1, habs], hr2, ?_⟩
        simp [outMsgs_append, outMsgs, reportMsgs, hcs, mkErrNoWord, codeStr]
    · simp only [Bool.not_eq_true] at hR
      simp only [he, hrun, hR, hbad, if_true, Bool.false_eq_true, if_false, List.append_nil]
      refine ⟨trivial, hs3, habs, hwf, ?_⟩
      simp [outMsgs_append, outMsgs, reportMsgs, hcs, mkErrNoWord, codeStr]
  · have he : (RdhCruSanityValidator.sanity_check (mkValidator s.expectId sysId) c).1.isErr = false := by
      rw [hs1]; simpa [expectId, hid] using hbad
    by_cases hR : cfg.running = true
    · by_cases h11 : (runningStep s.run (toModel c)).2 = true
      · have he2 : (RdhCruRunningChecker.check v.f_rdh_running_validator c).1.isErr = true := by rw [hr3, habs]; exact h11
        obtain ⟨cs2, hcs2⟩ := hr4 he2
        simp only [he, hrun, hR, he2, hbad, h11, if_true, Bool.false_eq_true, if_false, List.append_nil, List.nil_append]
        refine ⟨trivial, hs3, by rw [hr1, habs], hr2, ?_⟩
        simp [outMsgs_append, outMsgs, reportMsgs, hcs2, mkErrNoWord, codeStr]
      · have he2 : (RdhCruRunningChecker.check v.f_rdh_running_validator c).1.isErr = false := by
          rw [hr3, habs]; simpa using h11
        simp only [he, hrun, hR, he2, hbad, h11, if_true, Bool.false_eq_true, if_false, List.append_nil]
        exact ⟨trivial, hs3, by rw [hr1, habs], hr2, trivial⟩
    · simp only [Bool.not_eq_true] at hR
      simp only [he, hrun, hR, hbad, Bool.false_eq_true, if_false, List.append_nil]
      exact ⟨trivial, hs3, habs, hwf, trivial⟩

end SrcTie
end FastPasta
