/-
  Proofs.FsmTable — the finite core of C09: the one-step simulation check evaluated by the
  kernel over all states × related diagram configurations × 256 identifiers × both flags.
  Kept in its own module (depends only on Model.Fsm and Spec.Diagram) because the kernel
  evaluation takes tens of seconds.
-/
import FastPasta.Model.Fsm
import FastPasta.Spec.Diagram
namespace FastPasta
namespace C09
open DiagramGen

/-- simulation relation between implementation states and diagram configurations -/
def R (s : FsmSt) (c : DCfg) : Bool :=
  match s with
  | .initialIhw => c.node == .n_top_init
  | .ihwByWasDdw0 => c.node == .n_DDW0
  | .tdhByWasIhw => c.node == .n_IHW
  | .choiceByNoDataTrue => c.node == .n_TDH && c.noData
  | .dataByNoDataFalse => c.node == .n_TDH && !c.noData
  | .dataByWasData => c.node == .n_Data
  | .cIhwByTdtFalse => (c.node == .n_TDT || c.node == .n_c_TDT) && !c.packetDone
  | .choiceByTdtTrue => (c.node == .n_TDT || c.node == .n_c_TDT) && c.packetDone
  | .cTdhByNext => c.node == .n_c_IHW
  | .cDataByNext => c.node == .n_c_TDH
  | .cDataByWasData => c.node == .n_c_Data

/-- the word type a classification result stands for -/
def classKind : WordClass → Option Kind
  | .ihw | .ihwCont => some .ihw
  | .tdh | .tdhCont | .tdhAfterPacketDone => some .tdh
  | .tdt => some .tdt
  | .cdw => some .cdw
  | .dataWord => some .data
  | .ddw0 => some .ddw0
  | .errTdhOrDdw0 | .errDwOrTdtCdw | .errDdw0OrTdhIhw => none

def allNodes : List Node :=
  [.n_after_TDH, .n_after_TDT, .n_after_Data, .n_top_init, .n_IHW, .n_TDH, .n_Data, .n_DDW0, .n_TDT,
   .n_Continuation, .n_after_c_Data, .n_Continuation_init, .n_c_IHW, .n_c_TDH, .n_c_Data, .n_c_TDT,
   .n_top_final]

theorem allNodes_complete (n : Node) : n ∈ allNodes := by cases n <;> decide

def allCfgs : List DCfg :=
  allNodes.flatMap fun n => [⟨n, false, false⟩, ⟨n, false, true⟩, ⟨n, true, false⟩, ⟨n, true, true⟩]

theorem allCfgs_complete (c : DCfg) : c ∈ allCfgs := by
  obtain ⟨n, a, b⟩ := c
  have := allNodes_complete n
  unfold allCfgs
  simp only [List.mem_flatMap]
  refine ⟨n, this, ?_⟩
  cases a <;> cases b <;> simp

theorem allStates_complete (s : FsmSt) : s ∈ FsmSt.all := by cases s <;> decide

/-- one-step check, as a Boolean over the finite table -/
def stepOk (s : FsmSt) (c : DCfg) (id : Nat) (nd pd : Bool) : Bool :=
  !R s c ||
  (let (s', cls) := fsmStep s id nd pd
   match diagStep c id nd pd with
   | some c' => classKind cls == some (kindOfId id) && R s' c'
   | none =>
     -- illegal word: ambiguity error, or handed to a sanity check that rejects its identifier
     match cls with
     | .errTdhOrDdw0 | .errDwOrTdtCdw | .errDdw0OrTdhIhw => true
     | .ihw | .ihwCont => id != ID_IHW
     | .tdh | .tdhCont | .tdhAfterPacketDone => id != ID_TDH
     | _ => false)

/-- the configurations related to a state (finite candidates) -/
def cfgsOf (s : FsmSt) : List DCfg := allCfgs.filter (R s)

theorem table_ok : ∀ s ∈ FsmSt.all, ∀ c ∈ cfgsOf s, ∀ id : Fin 256, ∀ nd pd : Bool,
    stepOk s c id.val nd pd = true := by
  decide +kernel

theorem step_ok (s : FsmSt) (c : DCfg) (id : Nat) (hid : id < 256) (nd pd : Bool) :
    stepOk s c id nd pd = true := by
  by_cases hR : R s c = true
  · have hc : c ∈ cfgsOf s := by
      unfold cfgsOf
      exact List.mem_filter.mpr ⟨allCfgs_complete c, hR⟩
    exact table_ok s (allStates_complete s) c hc ⟨id, hid⟩ nd pd
  · unfold stepOk
    simp [hR]


end C09
end FastPasta
