/-
  Proofs.LaneSrcTie — the two configurable per-lane ALPIDE rules of the model (`Model/Alpide.lean`: `countBad`, `orderBad`, the
  [E9004] / [E9005] halves of `laneCodes`) ARE the source's `LaneAlpideFrameAnalyzer::check_chip_count` and `check_chip_id_order`
  (`lane_alpide_frame_analyzer.rs`, translated by `tools/rs2lean.py` into `Spec/LaneSrcGen.lean` on every run; of the analyzer struct
  only the five fields these functions read are translated — a function touching any other field is a translation error).
-/
import FastPasta.Spec.LaneSrcGen
import FastPasta.Model.Alpide
namespace FastPasta
namespace SrcTie
open SrcLane

def layerOf : Barrel → Layer
  | .inner => .Inner
  | .middle => .Middle
  | .outer => .Outer

/-- the analyzer state the checks see, built from the model's decoded lane -/
def analyzerOf (cfg : AlpideCfg) (barrel : Barrel) (laneNumber : Nat) (d : LaneDec) : LaneAlpideFrameAnalyzer :=
  { f_lane_number := laneNumber, f_chip_data := d.chips.map (fun c => { f_chip_id := c.1, f_bunch_counter := some c.2 }),
    f_from_layer := some (layerOf barrel), f_valid_chip_order_ob := cfg.chipOrdersOb, f_valid_chip_count_ob := cfg.chipCountOb }

theorem chip_count_eq (cfg : AlpideCfg) (barrel : Barrel) (laneNumber : Nat) (d : LaneDec) :
    (LaneAlpideFrameAnalyzer.check_chip_count (analyzerOf cfg barrel laneNumber d)).isErr = countBad cfg barrel d := by
  simp only [LaneAlpideFrameAnalyzer.check_chip_count, analyzerOf, countBad, LaneAlpideFrameAnalyzer.IL_CHIP_COUNT, List.length_map]
  cases barrel <;> cases h : cfg.chipCountOb <;> simp [layerOf, Rs.unwrapD] <;> split <;> simp_all

theorem chip_order_eq (cfg : AlpideCfg) (barrel : Barrel) (laneNumber : Nat) (d : LaneDec) (hc : countBad cfg barrel d = false) :
    (LaneAlpideFrameAnalyzer.check_chip_id_order (analyzerOf cfg barrel laneNumber d)).isErr = orderBad cfg barrel laneNumber d := by
  simp only [LaneAlpideFrameAnalyzer.check_chip_id_order, analyzerOf, orderBad, List.map_map]
  have hm : (d.chips.map ((fun cd : AlpideFrameChipData => cd.f_chip_id) ∘ fun c => ({ f_chip_id := c.1, f_bunch_counter := some c.2 } : AlpideFrameChipData))) =
      d.chips.map (·.1) := by
    apply List.map_congr_left; intros; rfl
  rw [hm]
  cases barrel
  · -- inner: exactly one chip (the count check passed)
    simp only [countBad] at hc
    have hl : d.chips.length = 1 := by simpa using hc
    match hd : d.chips, hl with
    | [c], _ => simp [layerOf, Rs.unwrapD]; split <;> simp_all
  · cases h : cfg.chipOrdersOb <;> simp [layerOf, Rs.unwrapD] <;> split <;> simp_all
  · cases h : cfg.chipOrdersOb <;> simp [layerOf, Rs.unwrapD] <;> split <;> simp_all

end SrcTie
end FastPasta
