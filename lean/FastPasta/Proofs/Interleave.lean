/-
  Proofs.Interleave — arrival sequences at the statistics channel: all interleavings of the
  senders' message sequences that preserve each sender's own order.
-/
import FastPasta.Model.Collector
namespace FastPasta

/-- `Interleave S a`: `a` is obtained by repeatedly taking the next message of some sender -/
inductive Interleave : List (List Stat) → List Stat → Prop
  | done (S : List (List Stat)) (h : ∀ s ∈ S, s = []) : Interleave S []
  | step (S : List (List Stat)) (i : Nat) (m : Stat) (rest : List Stat) (a : List Stat)
      (hi : S[i]? = some (m :: rest)) (h : Interleave (S.set i rest) a) : Interleave S (m :: a)

/-- all messages satisfying `p` come from sender `i` -/
def SingleSender (S : List (List Stat)) (p : Stat → Bool) (i : Nat) : Prop :=
  ∀ j s, S[j]? = some s → j ≠ i → ∀ m ∈ s, p m = false

theorem singleSender_set (S : List (List Stat)) (p : Stat → Bool) (i j : Nat) (m : Stat) (rest : List Stat)
    (hj : S[j]? = some (m :: rest)) (h : SingleSender S p i) : SingleSender (S.set j rest) p i := by
  intro k s hk hne x hx
  by_cases hkj : k = j
  · subst hkj
    have hlt : k < S.length := by
      rcases Nat.lt_or_ge k S.length with h | h
      · exact h
      · rw [List.getElem?_eq_none h] at hj; cases hj
    rw [List.getElem?_set_self hlt] at hk
    simp only [Option.some.injEq] at hk
    subst hk
    exact h k (m :: rest) hj hne x (List.mem_cons_of_mem _ hx)
  · rw [List.getElem?_set_ne (Ne.symm hkj)] at hk
    exact h k s hk hne x hx

/-- the `p`-messages arrive in the order in which their single sender sent them -/
theorem interleave_filter (S : List (List Stat)) (a : List Stat) (hI : Interleave S a) (p : Stat → Bool) (i : Nat)
    (hs : SingleSender S p i) : a.filter p = (S[i]?.getD []).filter p := by
  induction hI with
  | done S h =>
    cases hsi : S[i]? with
    | none => simp
    | some s =>
      have : s = [] := h s (List.mem_of_getElem? hsi)
      simp [this]
  | step S j m rest a hj _ ih =>
    have hs' := singleSender_set S p i j m rest hj hs
    have ih' := ih hs'
    have hlt : j < S.length := by
      rcases Nat.lt_or_ge j S.length with h | h
      · exact h
      · rw [List.getElem?_eq_none h] at hj; cases hj
    by_cases hji : j = i
    · subst hji
      rw [List.getElem?_set_self hlt] at ih'
      simp only [hj, Option.getD_some, List.filter_cons] at ih' ⊢
      rw [ih']
    · have hpm : p m = false := hs j (m :: rest) hj hji m (by simp)
      rw [List.getElem?_set_ne hji] at ih'
      rw [List.filter_cons, hpm]
      simpa using ih'

/-- sums over the arrival sequence do not depend on the interleaving -/
def total (g : Stat → Nat) (S : List (List Stat)) : Nat := (S.map (fun s => (s.map g).sum)).sum

theorem total_set (g : Stat → Nat) : ∀ (S : List (List Stat)) (j : Nat) (m : Stat) (rest : List Stat),
    S[j]? = some (m :: rest) → total g S = g m + total g (S.set j rest)
  | [], j, m, rest, h => by simp at h
  | s :: S, 0, m, rest, h => by
    simp only [List.getElem?_cons_zero, Option.some.injEq] at h
    subst h
    simp [total, List.set]; omega
  | s :: S, j + 1, m, rest, h => by
    simp only [List.getElem?_cons_succ] at h
    have := total_set g S j m rest h
    simp only [total, List.map_cons, List.sum_cons, List.set] at this ⊢
    omega

theorem interleave_sum (g : Stat → Nat) (S : List (List Stat)) (a : List Stat) (hI : Interleave S a) :
    (a.map g).sum = total g S := by
  induction hI with
  | done S h =>
    have : ∀ (T : List (List Stat)), (∀ s ∈ T, s = []) → total g T = 0 := by
      intro T
      induction T with
      | nil => intro _; rfl
      | cons t ts ih =>
        intro hT
        have ht : t = [] := hT t (by simp)
        have := ih (fun s hs => hT s (by simp [hs]))
        simp only [total, List.map_cons, List.sum_cons] at this ⊢
        simp [ht, this]
    simp [this S h]
  | step S j m rest a hj _ ih =>
    rw [total_set g S j m rest hj]
    simp [ih]

/-- membership is independent of the interleaving -/
theorem interleave_any (p : Stat → Bool) (S : List (List Stat)) (a : List Stat) (hI : Interleave S a) :
    a.any p = S.any (fun s => s.any p) := by
  induction hI with
  | done S h =>
    have : S.any (fun s => s.any p) = false := by
      rw [List.any_eq_false]
      intro s hs
      simp [h s hs]
    simp [this]
  | step S j m rest a hj _ ih =>
    have key : ∀ (T : List (List Stat)) (j : Nat), T[j]? = some (m :: rest) →
        T.any (fun s => s.any p) = (p m || (T.set j rest).any (fun s => s.any p)) := by
      intro T
      induction T with
      | nil => intro j h; simp at h
      | cons t ts iht =>
        intro j h
        cases j with
        | zero =>
          simp only [List.getElem?_cons_zero, Option.some.injEq] at h
          subst h
          simp [List.set, Bool.or_assoc]
        | succ j =>
          simp only [List.getElem?_cons_succ] at h
          have := iht j h
          simp only [List.any_cons, List.set, this]
          cases t.any p <;> cases p m <;> simp
    rw [key S j hj, List.any_cons, ih]

end FastPasta
