/-
  Proofs.TrigSrcTie — the 20 per-bit trigger-type counters of the collector model (`Model/Collector.lean`:
  `trig k += t / 2^k % 2` for the bits of `triggerBits`) ARE the source's `TriggerStats::collect_stats`
  (`stats_collector/trigger_stats.rs`, translated by `tools/rs2lean.py` into `Spec/TrigSrcGen.lean` on every run):
  which bit each named counter looks at, and that it is incremented by exactly that bit.
-/
import FastPasta.Spec.TrigSrcGen
import FastPasta.Model.Collector
namespace FastPasta
namespace SrcTie
open SrcTrig

theorem ite_bit (t k : Nat) : (if ((t &&& Rs.mask k 1) != 0) = true then 1 else 0) = t / 2^k % 2 := by
  rw [Rs.and_mask]
  have hp : 0 < 2^k := Nat.pow_pos (by omega)
  have h2 := Nat.mod_two_eq_zero_or_one (t / 2^k)
  rcases h2 with h | h
  · simp [h]
  · have : 1 * 2^k ≠ 0 := by omega
    simp [h, Nat.ne_of_gt hp]

/-- the counters in the order of `triggerBits` -/
def trigCounters (v : TriggerStats) : List Nat :=
  [v.f_orbit, v.f_hb, v.f_hbr, v.f_hc, v.f_pht, v.f_pp, v.f_cal, v.f_sot, v.f_eot, v.f_soc, v.f_eoc, v.f_tf, v.f_fe_rst, v.f_rt, v.f_rs,
   v.f_lhc_gap1, v.f_lhc_gap2, v.f_tpc_sync, v.f_tpc_rst, v.f_tof]

/-- **`collect_stats`**: the k-th named counter grows by bit `triggerBits[k]` of the trigger type (`u32` counters) -/
theorem collect_stats_eq (v : TriggerStats) (t : Nat) :
    trigCounters (v.collect_stats t).2 =
      List.zipWith (fun c k => (c + t / 2^k % 2) % 2^32) (trigCounters v) triggerBits := by
  simp only [TriggerStats.collect_stats, trigCounters, triggerBits, ite_bit, List.zipWith_cons_cons, List.zipWith_nil_right]

end SrcTie
end FastPasta
