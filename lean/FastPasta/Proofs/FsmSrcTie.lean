/-
  Proofs.FsmSrcTie — the hand-written model of the ITS payload state machine IS the function that
  `tools/src2lean.py` generates from the Rust source on every run (`Spec/FsmSrcGen.lean`):
  all 11 states × 256 identifiers × both flag bits, by kernel evaluation; the identifier constants
  and the initial state likewise. Every theorem about `fsmStep` / `fsmAdvance` (C09, C01, C02, C12,
  C19) is thereby re-checked against the current source text of `advance` and of the `sm!` table.
-/
import FastPasta.Spec.FsmSrcGen
namespace FastPasta
namespace C09

theorem src_table : ∀ s ∈ FsmSt.all, ∀ id : Fin 256, ∀ nd pd : Bool,
    fsmStep s id.val nd pd = SrcFsm.step s id.val nd pd := by
  decide +kernel

theorem allStates_complete' (s : FsmSt) : s ∈ FsmSt.all := by cases s <;> decide

/-- **model = translated source**, one step -/
theorem fsmStep_eq_src (s : FsmSt) (id : Nat) (hid : id < 256) (nd pd : Bool) :
    fsmStep s id nd pd = SrcFsm.step s id nd pd :=
  src_table s (allStates_complete' s) ⟨id, hid⟩ nd pd

/-- the identifier constants of the model are those of the source (`pub const ID: u8`) -/
theorem ids_eq_src : ID_IHW = SrcFsm.ID_IHW ∧ ID_TDH = SrcFsm.ID_TDH ∧ ID_TDT = SrcFsm.ID_TDT ∧
    ID_DDW0 = SrcFsm.ID_DDW0 ∧ ID_CDW = SrcFsm.ID_CDW := by decide

/-- the machine starts (and is reset to) the source's initial state -/
theorem initial_eq_src : FsmSt.initialIhw = SrcFsm.initial := by decide

/-- **model = translated source**, on words -/
theorem fsmAdvance_eq_src (s : FsmSt) (w : Bytes) :
    fsmAdvance s w = SrcFsm.step s (wordId w) (tdhNoData w == 1) (tdtPacketDone w) := by
  unfold fsmAdvance
  apply fsmStep_eq_src
  unfold wordId bAt
  cases h : w[9]? with
  | none => simp [List.getD, h]
  | some b => simp only [List.getD, h, Option.getD]; exact b.toNat_lt

end C09
end FastPasta
