/-
  Proofs.AlpStatsSrcTie — the ALPIDE readout-flag counters of the model (`Model/Alpide.lean`: `AlpideStats.logTrailer`, `AlpideStats.add`)
  ARE the source's `AlpideStats::log_readout_flags` / `ReadoutFlags::log` and `AlpideStats::sum` / `ReadoutFlags::sum`
  (`stats_collector/its_stats/alpide_stats.rs`, translated into `Spec/AlpStatsSrcGen.lean` on every run), below the `u32` wrap.
-/
import FastPasta.Spec.AlpStatsSrcGen
import FastPasta.Model.Alpide
namespace FastPasta
namespace SrcTie

/-- the source's counters as the model's record -/
def statsOf (a : SrcAlpStats.AlpideStats) : AlpideStats :=
  { chipTrailers := a.f_readout_flags.f_chip_trailers_seen, busyViolations := a.f_readout_flags.f_busy_violations,
    dataOverrun := a.f_readout_flags.f_data_overrun, transmissionInFatal := a.f_readout_flags.f_transmission_in_fatal,
    flushedIncomplete := a.f_readout_flags.f_flushed_incomplete, strobeExtended := a.f_readout_flags.f_strobe_extended,
    busyTransitions := a.f_readout_flags.f_busy_transitions }

/-- all seven counters below `2^32 − 1`: no wrap on the next increment -/
def StatsSmall (s : AlpideStats) : Prop :=
  s.chipTrailers + 1 < 2^32 ∧ s.busyViolations + 1 < 2^32 ∧ s.dataOverrun + 1 < 2^32 ∧ s.transmissionInFatal + 1 < 2^32 ∧
  s.flushedIncomplete + 1 < 2^32 ∧ s.strobeExtended + 1 < 2^32 ∧ s.busyTransitions + 1 < 2^32

theorem flag_bit (v k : Nat) : (if ((v &&& Rs.mask k 1) == 2^k) = true then 1 else 0) = v / 2^k % 2 := by
  rw [Rs.and_mask]
  have hp : 0 < 2^k := Nat.pow_pos (by omega)
  rcases Nat.mod_two_eq_zero_or_one (v / 2^k) with h | h
  · have : (0:Nat) ≠ 2^k := by omega
    simp [h, this]
  · simp [h]

/-- **`log_readout_flags` = `logTrailer`** for every chip-trailer byte -/
theorem log_flags_eq (a : SrcAlpStats.AlpideStats) (b : Nat) (hs : StatsSmall (statsOf a)) :
    statsOf (a.log_readout_flags b).2 = (statsOf a).logTrailer b := by
  obtain ⟨h1, h2, h3, h4, h5, h6, h7⟩ := hs
  simp only [statsOf] at h1 h2 h3 h4 h5 h6 h7
  have f2 := flag_bit b 2; have f1 := flag_bit b 1; have f0 := flag_bit b 0
  simp only [Nat.pow_zero, Nat.pow_one, Nat.reducePow, Nat.div_one] at f2 f1 f0
  have hb2 : b / 4 % 2 < 2 := Nat.mod_lt _ (by omega)
  have hb1 : b / 2 % 2 < 2 := Nat.mod_lt _ (by omega)
  have hb0 : b % 2 < 2 := Nat.mod_lt _ (by omega)
  simp only [SrcAlpStats.AlpideStats.log_readout_flags, SrcAlpStats.ReadoutFlags.log, AlpideStats.logTrailer, statsOf,
    SrcAlpStats.ReadoutFlags.CHIP_TRAILER_BUSY_VIOLATION, SrcAlpStats.ReadoutFlags.CHIP_TRAILER_DATA_OVERRUN,
    SrcAlpStats.ReadoutFlags.CHIP_TRAILER_TRANSMISSION_IN_FATAL, f2, f1, f0]
  by_cases e1 : (b == 184) = true
  · simp [e1, Nat.mod_eq_of_lt h1, Nat.mod_eq_of_lt h2]
  · by_cases e2 : (b == 188) = true
    · simp [e1, e2, Nat.mod_eq_of_lt h1, Nat.mod_eq_of_lt h3]
    · by_cases e3 : (b == 190) = true
      · simp [e1, e2, e3, Nat.mod_eq_of_lt h1, Nat.mod_eq_of_lt h4]
      · have m5 : (a.f_readout_flags.f_flushed_incomplete + b / 4 % 2) % 2^32 = a.f_readout_flags.f_flushed_incomplete + b / 4 % 2 := Nat.mod_eq_of_lt (by omega)
        have m6 : (a.f_readout_flags.f_strobe_extended + b / 2 % 2) % 2^32 = a.f_readout_flags.f_strobe_extended + b / 2 % 2 := Nat.mod_eq_of_lt (by omega)
        have m7 : (a.f_readout_flags.f_busy_transitions + b % 2) % 2^32 = a.f_readout_flags.f_busy_transitions + b % 2 := Nat.mod_eq_of_lt (by omega)
        simp [e1, e2, e3, Nat.mod_eq_of_lt h1, m5, m6, m7]

/-- **`sum` = `add`** (per-link counters merged by the collector), below the `u32` wrap -/
theorem stats_sum_eq (a o : SrcAlpStats.AlpideStats)
    (h : ∀ x ∈ [((statsOf a).add (statsOf o)).chipTrailers, ((statsOf a).add (statsOf o)).busyViolations, ((statsOf a).add (statsOf o)).dataOverrun,
      ((statsOf a).add (statsOf o)).transmissionInFatal, ((statsOf a).add (statsOf o)).flushedIncomplete,
      ((statsOf a).add (statsOf o)).strobeExtended, ((statsOf a).add (statsOf o)).busyTransitions], x < 2^32) :
    statsOf (a.sum o).2 = (statsOf a).add (statsOf o) := by
  simp only [List.mem_cons, List.not_mem_nil, or_false, forall_eq_or_imp, forall_eq, AlpideStats.add, statsOf] at h
  obtain ⟨h1, h2, h3, h4, h5, h6, h7⟩ := h
  simp only [SrcAlpStats.AlpideStats.sum, SrcAlpStats.ReadoutFlags.sum, statsOf, AlpideStats.add,
    Nat.mod_eq_of_lt h1, Nat.mod_eq_of_lt h2, Nat.mod_eq_of_lt h3, Nat.mod_eq_of_lt h4, Nat.mod_eq_of_lt h5, Nat.mod_eq_of_lt h6, Nat.mod_eq_of_lt h7]

end SrcTie
end FastPasta
