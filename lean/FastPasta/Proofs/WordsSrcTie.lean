/-
  Proofs.WordsSrcTie — the hand-written word-level model (`Model/Words.lean`, the byte predicates of `Model/View.lean`,
  the two flag bits the state machine reads) IS what `tools/rs2lean.py` translates from the Rust sources on every run
  (`Spec/WordsSrcGen.lean`): struct loaders (`from_buf`), field accessors, the four status-word sanity checks, the
  data-word identifier tables / lane mapping / lane-activity test and the three data-word validators, and the
  byte-slice predicates used by the views. Every theorem about these model functions (C11, C09, C19, C02, C01, C13)
  is thereby re-checked against the current source text.
-/
import FastPasta.Spec.WordsSrcGen
import FastPasta.Model.View
import FastPasta.Proofs.Bits
namespace FastPasta
namespace SrcTie
open SrcWords

/-! ### bridges between the bit operators of the source and the `/`, `%` arithmetic of the model -/
theorem bAt_lt (w : Bytes) (i : Nat) : bAt w i < 256 := by
  unfold bAt; exact (w.getD i 0).toNat_lt

theorem leField_lt (w : Bytes) (i n : Nat) : leField w i n < 256 ^ n := by
  unfold leField slice
  have h := leNat_lt ((w.drop i).take n)
  have h2 : ((w.drop i).take n).length ≤ n := by simp [List.length_take]; omega
  exact Nat.lt_of_lt_of_le h (Nat.pow_le_pow_right (by omega) h2)

theorem getD_drop (w : Bytes) (i k : Nat) : (w.drop i).getD k 0 = w.getD (i + k) 0 := by
  simp [List.getD_eq_getElem?_getD, List.getElem?_drop]

/-- a two-byte little-endian field in terms of its bytes (any `w`, also a short one) -/
theorem leField2 (w : Bytes) (i : Nat) : leField w i 2 = bAt w i + 256 * bAt w (i+1) := by
  unfold leField slice bAt
  have h0 := getD_drop w i 0
  have h1 := getD_drop w i 1
  simp only [Nat.add_zero] at h0
  rw [← h0, ← h1]
  generalize w.drop i = l
  match l with
  | [] => simp [leNat]
  | [a] => simp [leNat]
  | a :: b :: r => simp [leNat]

/-- Bool equation between source and model form → linear arithmetic -/
macro "bool_omega" : tactic => `(tactic| (rw [Bool.eq_iff_iff]; simp only [bne_iff_ne, beq_iff_eq, ne_eq, Bool.and_eq_true, Bool.or_eq_true,
  Bool.not_eq_true', decide_eq_true_eq, Bool.not_eq_eq_eq_not, Bool.not_true, beq_eq_false_iff_ne, bne_eq_false_iff_eq,
  Nat.reduceAdd, Nat.reducePow, Nat.reduceMul]; omega))

theorem leNat_byte (l : Bytes) (k : Nat) : leNat l / 256^k % 256 = (l.getD k 0).toNat := by
  induction l generalizing k with
  | nil => simp [leNat]
  | cons a r ih =>
    have ha := a.toNat_lt
    cases k with
    | zero => simp [leNat]
    | succ k =>
      have : (a.toNat + 256 * leNat r) / 256 ^ (k+1) = leNat r / 256^k := by
        rw [Nat.pow_succ, Nat.mul_comm (256^k) 256, ← Nat.div_div_eq_div_mul]
        congr 1; omega
      simp only [leNat, this, ih k, List.getD_cons_succ]

theorem getD_take (l : Bytes) (n k : Nat) (h : k < n) : (l.take n).getD k 0 = l.getD k 0 := by
  simp [List.getD_eq_getElem?_getD, h]

/-- byte `k` of a little-endian field is byte `i + k` of the string (any `w`, also a short one) -/
theorem leField_byte (w : Bytes) (i n k : Nat) (h : k < n) : leField w i n / 256^k % 256 = bAt w (i + k) := by
  unfold leField slice bAt
  rw [leNat_byte, getD_take _ _ _ h, getD_drop]

theorem shr (x k : Nat) : x >>> k = x / 2^k := Nat.shiftRight_eq_div_pow x k
theorem shl (x k : Nat) : x <<< k = x * 2^k := Nat.shiftLeft_eq x k

/-! ### the two flag bits read by the state machine, and `packet_done` -/
theorem tdt_packet_done_eq (w : Bytes) : tdt_packet_done w = tdtPacketDone w := by
  unfold tdt_packet_done tdtPacketDone
  have := bAt_lt w 8
  rw [Rs.and_mask]; simp

theorem tdh_no_data_eq (w : Bytes) : tdh_no_data w = (tdhNoData w == 1) := by
  unfold tdh_no_data tdhNoData tdhW0
  have h0 := bAt_lt w 0; have h1 := bAt_lt w 1
  rw [Rs.and_mask, leField2]
  bool_omega

theorem tdh_continuation_eq (w : Bytes) : tdh_continuation w = (tdhContinuation w == 1) := by
  unfold tdh_continuation tdhContinuation tdhW0
  have h0 := bAt_lt w 0; have h1 := bAt_lt w 1
  rw [Rs.and_mask, leField2]
  bool_omega


/-- splits left by `split`: Bool equations and hypotheses → linear arithmetic -/
macro "bool_arith" : tactic => `(tactic| (
  rw [Bool.eq_iff_iff]; (simp only [bne_iff_ne, beq_iff_eq, ne_eq, Bool.and_eq_true, Bool.or_eq_true,
    Bool.not_eq_true', decide_eq_true_eq, Bool.not_eq_eq_eq_not, Bool.not_true, Bool.not_false, beq_eq_false_iff_ne, bne_eq_false_iff_eq,
    Bool.and_eq_false_imp, Bool.or_eq_false_iff, Bool.not_eq_false', Bool.not_not, Bool.true_eq_false, Bool.false_eq_true,
    true_iff, false_iff, iff_true, iff_false, not_true_eq_false, not_false_eq_true, Nat.or_eq_zero_iff,
    Nat.reduceAdd, Nat.reducePow, Nat.reduceMul, Nat.div_one, Nat.mul_one] at *) <;> omega))

/-! ### the four status-word sanity checks: `sanity_check(from_buf(w))` fails exactly when the model's predicate is false -/
set_option linter.unusedSimpArgs false

theorem tdh_sane_eq (w : Bytes) : ∃ t, Tdh.from_buf w = .ok t ∧ (TdhValidator.sanity_check t).isErr = !tdhSane w := by
  refine ⟨_, rfl, ?_⟩
  have h8 := bAt_lt w 8; have h9 := bAt_lt w 9
  have hA := leField_lt w 0 2; have hB := leField_lt w 2 2
  simp only [TdhValidator.sanity_check, Tdh.id, Tdh.ID, Tdh.is_reserved_0, Tdh.reserved0, Tdh.reserved1, Tdh.reserved2,
    Tdh.trigger_type, Tdh.internal_trigger, tdhSane, tdhReservedZero, tdhReserved0, tdhReserved1, tdhReserved2, tdhTriggerType,
    tdhInternal, tdhW0, wordId, ID_TDH, Rs.and_mask, shr, leField2 w 8,
    apply_ite Rs.Res.isErr, apply_ite Rs.Str.nonEmpty, Rs.Str.app_nonEmpty, Rs.Str.empty_nonEmpty, Rs.Str.lit_nonEmpty,
    Rs.Res.isErr_ok, Rs.Res.isErr_err, Bool.or_true, Bool.false_or, Bool.not_true, Bool.not_false, if_true, if_false]
  repeat' split
  all_goals bool_arith

theorem tdt_sane_eq (w : Bytes) : ∃ t, Tdt.from_buf w = .ok t ∧ (TdtValidator.sanity_check t).isErr = !tdtSane w := by
  refine ⟨_, rfl, ?_⟩
  have h7 := bAt_lt w 7; have h8 := bAt_lt w 8; have h9 := bAt_lt w 9
  simp only [TdtValidator.sanity_check, Tdt.id, Tdt.ID, Tdt.is_reserved_0, Tdt.reserved0, Tdt.reserved1, Tdt.reserved2,
    tdtSane, tdtReservedZero, wordId, ID_TDT, Rs.and_mask, shr,
    apply_ite Rs.Res.isErr, apply_ite Rs.Str.nonEmpty, Rs.Str.app_nonEmpty, Rs.Str.empty_nonEmpty, Rs.Str.lit_nonEmpty,
    Rs.Res.isErr_ok, Rs.Res.isErr_err, Bool.or_true, Bool.false_or, Bool.not_true, Bool.not_false, if_true, if_false]
  repeat' split
  all_goals bool_arith

theorem ddw0_sane_eq (w : Bytes) : ∃ t, Ddw0.from_buf w = .ok t ∧ (Ddw0Validator.sanity_check t).isErr = !ddw0Sane w := by
  refine ⟨_, rfl, ?_⟩
  have h7 := bAt_lt w 7; have h8 := bAt_lt w 8; have h9 := bAt_lt w 9
  have hA := leField_lt w 0 8
  have hF := leField_byte w 0 8 7 (by omega)
  simp only [Ddw0Validator.sanity_check, Ddw0.id, Ddw0.ID, Ddw0.is_reserved_0, Ddw0.reserved0_1, Ddw0.index,
    ddw0Sane, ddw0ReservedZero, ddw0Index, wordId, ID_DDW0, Nat.and_or_distrib_left, Nat.or_eq_zero_iff, Rs.and_mask, shr,
    apply_ite Rs.Res.isErr, apply_ite Rs.Str.nonEmpty, Rs.Str.app_nonEmpty, Rs.Str.empty_nonEmpty, Rs.Str.lit_nonEmpty,
    Rs.Res.isErr_ok, Rs.Res.isErr_err, Bool.or_true, Bool.false_or, Bool.not_true, Bool.not_false, if_true, if_false]
  repeat' split
  all_goals bool_arith

theorem leField_split (w : Bytes) (i m n : Nat) : leField w i (m + n) = leField w i m + 256^m * leField w (i + m) n := by
  unfold leField slice
  rw [← List.drop_drop]
  generalize w.drop i = l
  by_cases h : m ≤ l.length
  · have : l.take (m + n) = l.take m ++ (l.drop m).take n := by
      rw [List.take_add]
    rw [this, leNat_append, List.length_take, Nat.min_eq_left h]
  · have h1 : l.take (m+n) = l := List.take_of_length_le (by omega)
    have h2 : l.take m = l := List.take_of_length_le (by omega)
    have h3 : l.drop m = [] := List.drop_of_length_le (by omega)
    simp [h1, h2, h3, leNat]

theorem ihw_sane_eq (w : Bytes) : ∃ t, Ihw.from_buf w = .ok t ∧ (IhwValidator.sanity_check t).isErr = !ihwSane w := by
  refine ⟨_, rfl, ?_⟩
  have h8 := bAt_lt w 8; have h9 := bAt_lt w 9
  have hA := leField_lt w 0 4; have hB := leField_lt w 4 4
  simp only [IhwValidator.sanity_check, Ihw.id, Ihw.ID, Ihw.is_reserved_0, Ihw.reserved,
    ihwSane, ihwReservedZero, wordId, ID_IHW, Rs.and_mask, shr, shl, leField2 w 8,
    apply_ite Rs.Res.isErr, apply_ite Rs.Str.nonEmpty, Rs.Str.app_nonEmpty, Rs.Str.empty_nonEmpty, Rs.Str.lit_nonEmpty,
    Rs.Res.isErr_ok, Rs.Res.isErr_err, Bool.or_true, Bool.false_or, Bool.not_true, Bool.not_false, if_true, if_false]
  repeat' split
  all_goals bool_arith

/-! ### accessors -/
theorem ihw_active_lanes_eq (w : Bytes) : ∃ t, Ihw.from_buf w = .ok t ∧ t.active_lanes = ihwActiveLanes w := by
  refine ⟨_, rfl, ?_⟩
  simp only [Ihw.active_lanes, ihwActiveLanes, Rs.and_mask]; omega

theorem tdh_fields_eq (w : Bytes) : ∃ t, Tdh.from_buf w = .ok t ∧ t.trigger_type = tdhTriggerType w ∧ t.internal_trigger = tdhInternal w ∧
    t.no_data = tdhNoData w ∧ t.continuation = tdhContinuation w ∧ t.trigger_bc = tdhBc w ∧ t.trigger_orbit = tdhOrbit w := by
  refine ⟨_, rfl, ?_⟩
  simp only [Tdh.trigger_type, Tdh.internal_trigger, Tdh.no_data, Tdh.continuation, Tdh.trigger_bc, Tdh.trigger_orbit,
    tdhTriggerType, tdhInternal, tdhNoData, tdhContinuation, tdhBc, tdhOrbit, tdhW0, Rs.and_mask, shr, Nat.reducePow, Nat.div_one, Nat.mul_one]
  refine ⟨trivial, ?_, ?_, ?_, trivial, trivial⟩ <;> omega

theorem tdt_packet_done_field_eq (w : Bytes) : ∃ t, Tdt.from_buf w = .ok t ∧ t.packet_done = tdtPacketDone w := by
  refine ⟨_, rfl, ?_⟩
  simp only [Tdt.packet_done, tdtPacketDone, Rs.and_mask]
  bool_arith

theorem cdw_fields_eq (w : Bytes) : ∃ t, Cdw.from_buf w = .ok t ∧ t.calibration_user_fields = cdwUserFields w ∧
    t.calibration_word_index = cdwIndex w := by
  refine ⟨_, rfl, ?_⟩
  have h8 := bAt_lt w 8
  have hA := leField_lt w 0 8
  have hs := leField_split w 0 6 2
  have hC := leField_lt w 0 6; have hD := leField_lt w 6 2
  have hor : bAt w 8 * 65536 ||| leField w 6 2 = bAt w 8 * 65536 + leField w 6 2 := by
    have := Nat.shiftLeft_add_eq_or_of_lt (i := 16) (b := leField w 6 2) (by simpa using hD) (bAt w 8)
    rw [Nat.shiftLeft_eq] at this; simpa using this.symm
  simp only [Cdw.calibration_user_fields, Cdw.calibration_word_index, cdwUserFields, cdwIndex, Rs.and_mask, shr, shl, Nat.reducePow, Nat.div_one, Nat.mul_one]
  simp only [Nat.reduceAdd, Nat.zero_add, Nat.reducePow] at hs hC hD hA
  have e1 : leField w 0 8 % 281474976710656 = leField w 0 6 := by omega
  have e2 : leField w 0 8 / 281474976710656 % 4294967296 = leField w 6 2 := by omega
  have e3 : bAt w 8 * 65536 % 4294967296 = bAt w 8 * 65536 := by omega
  rw [e1, e2, e3, hor]; exact ⟨rfl, rfl⟩


/-! ### data words -/
theorem is_valid_any_id_eq (id : Nat) : DataWordSanityChecker.is_valid_any_id id = isValidDataId id := by
  simp only [DataWordSanityChecker.is_valid_any_id, DataWordSanityChecker.is_valid_il_id, DataWordSanityChecker.is_valid_ml_id,
    DataWordSanityChecker.is_valid_ol_id, isValidDataId, isIlId, isMlId, isOlId, inRange,
    ]

theorem ob_lane_eq (id : Nat) (h : id < 256) : ob_data_word_id_to_lane id = obLane id := by
  simp only [ob_data_word_id_to_lane, obLane, decide_eq_true_eq, Nat.reducePow]
  repeat' split
  all_goals omega

theorem ib_lane_eq (id : Nat) : ib_data_word_id_to_lane id = ibLane id := by
  simp only [ib_data_word_id_to_lane, ibLane, Rs.and_mask, Nat.reducePow, Nat.div_one, Nat.mul_one]

theorem ob_connector_eq (id : Nat) : ob_data_word_id_to_input_number_connector id = obConnectorInput id := by
  simp only [ob_data_word_id_to_input_number_connector, obConnectorInput, Rs.and_mask, Nat.reducePow, Nat.div_one, Nat.mul_one]

theorem and_one_shl (x k : Nat) (hk : k < 32) : (x &&& (1 <<< k) % 2^32 != 0) = (x / 2^k % 2 == 1) := by
  have h1 : (1 <<< k) % 2^32 = Rs.mask k 1 := by
    unfold Rs.mask
    have : (1:Nat) <<< k < 2^32 := by
      rw [Nat.shiftLeft_eq, Nat.one_mul]; exact Nat.pow_lt_pow_right (by omega) hk
    rw [Nat.mod_eq_of_lt this]
  rw [h1, Rs.and_mask]
  have hp : 0 < 2^k := Nat.pow_pos (by omega)
  have := Nat.mod_two_eq_zero_or_one (x / 2^k)
  rcases this with h | h <;> simp [h] <;> omega

theorem is_lane_active_eq (lane lanes : Nat) : is_lane_active lane lanes = laneActive lane lanes := by
  unfold is_lane_active laneActive
  exact and_one_shl lanes (lane % 32) (Nat.mod_lt _ (by omega))


/-! ### data-word validators -/
theorem check_any_eq (w : Bytes) : (DataWordSanityChecker.check_any w).isErr = !isValidDataId (wordId w) := by
  simp only [DataWordSanityChecker.check_any, wordId, apply_ite Rs.Res.isErr, Rs.Res.isErr_ok, Rs.Res.isErr_err, is_valid_any_id_eq]
  cases isValidDataId (bAt w 9) <;> rfl

/-- `IbDataWordValidator::check`: `[E72]` exactly when the lane (identifier bits 4:0) is not active -/
theorem ib_check_eq (w : Bytes) (lanes : Nat) :
    (IbDataWordValidator.check w lanes).errStr.codes = if laneActive (ibLane (wordId w)) lanes then [] else [72] := by
  simp only [IbDataWordValidator.check, wordId, is_lane_active_eq, ← ib_lane_eq, ib_data_word_id_to_lane]
  split <;> rfl

/-- `ObDataWordValidator::check`: `[E71]` when the lane is not active, `[E73]` when the connector input exceeds 6 -/
theorem ob_check_eq (w : Bytes) (lanes : Nat) :
    (ObDataWordValidator.check w lanes).errStr.codes =
      (if laneActive (obLane (wordId w)) lanes then [] else [71]) ++ (if obConnectorInput (wordId w) > 6 then [73] else []) := by
  have h9 := bAt_lt w 9
  simp only [ObDataWordValidator.check, wordId, is_lane_active_eq, ob_lane_eq _ h9, ob_connector_eq]
  by_cases h1 : laneActive (obLane (bAt w 9)) lanes <;> by_cases h2 : obConnectorInput (bAt w 9) > 6 <;> simp [h1, h2, Rs.Res.errStr]

/-! ### byte-slice predicates of the views -/
theorem byte_fatal_eq : ∀ b : Fin 256,
    (((b.val &&& Rs.mask 0 2) == 3 || (b.val &&& Rs.mask 2 2) == 12) || (b.val &&& Rs.mask 4 2) == 48 || (b.val &&& Rs.mask 6 2) == 192) = byteAnyFatal b.val := by
  decide +kernel
theorem byte_error_eq : ∀ b : Fin 256,
    ((b.val &&& (Rs.mask 1 1 ||| Rs.mask 3 1 ||| Rs.mask 5 1 ||| Rs.mask 7 1)) != 0) = byteAnyError b.val := by
  decide +kernel
theorem byte_warning_eq : ∀ b : Fin 256,
    ((b.val &&& (Rs.mask 0 1 ||| Rs.mask 2 1 ||| Rs.mask 4 1 ||| Rs.mask 6 1)) != 0) = byteAnyWarning b.val := by
  decide +kernel

theorem lane_status_any_fatal_eq (w : Bytes) :
    ddw0_tdt_lane_status_any_fatal w = ((w.take 7).map (·.toNat)).any byteAnyFatal := by
  simp only [ddw0_tdt_lane_status_any_fatal, Rs.slice, List.drop_zero, List.any_map]
  congr 1; funext b; exact byte_fatal_eq ⟨b.toNat, b.toNat_lt⟩
theorem lane_status_any_error_eq (w : Bytes) :
    ddw0_tdt_lane_status_any_error w = ((w.take 7).map (·.toNat)).any byteAnyError := by
  simp only [ddw0_tdt_lane_status_any_error, Rs.slice, List.drop_zero, List.any_map]
  congr 1; funext b; exact byte_error_eq ⟨b.toNat, b.toNat_lt⟩
theorem lane_status_any_warning_eq (w : Bytes) :
    ddw0_tdt_lane_status_any_warning w = ((w.take 7).map (·.toNat)).any byteAnyWarning := by
  simp only [ddw0_tdt_lane_status_any_warning, Rs.slice, List.drop_zero, List.any_map]
  congr 1; funext b; exact byte_warning_eq ⟨b.toNat, b.toNat_lt⟩

/-- the three trigger bits `tdh_trigger_as_string` looks at, in its priority order -/
theorem tdh_trigger_bits_eq (w : Bytes) :
    tdh_soc_trigger w = (bAt w 1 / 2 % 2 == 1) ∧ tdh_internal_trigger w = (bAt w 1 / 16 % 2 == 1) ∧
    tdh_physics_trigger w = (bAt w 0 / 16 % 2 == 1) := by
  have h0 := bAt_lt w 0; have h1 := bAt_lt w 1
  simp only [tdh_soc_trigger, tdh_internal_trigger, tdh_physics_trigger, Rs.and_mask]
  refine ⟨?_, ?_, ?_⟩ <;> bool_arith

end SrcTie
end FastPasta
