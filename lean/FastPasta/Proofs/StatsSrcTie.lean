/-
  Proofs.StatsSrcTie — WHICH statistics the comparison looks at: the field lists read from the Rust source on every run by
  tools/stats2lean.py (Spec/StatsSrcGen.lean: struct declarations, the `Self { f: other.f, .. }` copies, the `validate_fields!`
  invocations, the sub-struct `validate_other` calls, all required to have exactly the expected shape) are the leaf names
  `Model.StatsCompare.validateOther` compares.
-/
import FastPasta.Spec.StatsSrcGen
import FastPasta.Model.StatsCompare
namespace FastPasta
namespace StatsSrcTie
open SrcStats

/-- no field of a statistics struct is left out: each declared field is in the struct's `validate_fields!` list or is handed to its own
    `validate_other` (the only exception is `StatsCollector::is_finalized`, which is not a statistic) -/
theorem every_field_compared :
    (∀ f ∈ RdhStats.fields, f ∈ RdhStats.compared ∨ f ∈ RdhStats.subs) ∧
    (∀ f ∈ TriggerStats.fields, f ∈ TriggerStats.compared) ∧
    (∀ f ∈ ItsStats.fields, f ∈ ItsStats.compared) ∧
    (∀ f ∈ ErrorStats.fields, f ∈ ErrorStats.compared) ∧
    (∀ f ∈ ReadoutFlags.fields, f ∈ ReadoutFlags.compared) ∧
    (∀ f ∈ AlpideStats.fields, f ∈ AlpideStats.subs) ∧
    (∀ f ∈ StatsCollector.fields, f = "is_finalized" ∨ f ∈ StatsCollector.subs) := by decide

/-- the source compares exactly the leaves the model compares: same names, same order up to the seven ALPIDE counters (which the macro
    lists in another order than the struct declares them; mismatch messages are compared as sets) -/
theorem order_eq :
    SrcStats.order.take 37 = comparedLeafNames.take 37 ∧ SrcStats.order.drop 37 = ReadoutFlags.compared ∧
    comparedLeafNames.drop 37 = alpideNames ∧ ReadoutFlags.compared.Perm alpideNames ∧ ReadoutFlags.fields = alpideNames ∧
    TriggerStats.compared = triggerNames ∧ SrcStats.order.Perm comparedLeafNames := by decide

/-- nothing is compared twice -/
theorem order_nodup : SrcStats.order.Nodup := by decide

end StatsSrcTie
end FastPasta
