/-
  Proofs.ItsConforming — simulation between the protocol grammar (Spec.Protocol) and the ITS payload
  validator (Model.Cdp) in the non-stave modes: every payload the grammar accepts is processed
  without any message, and the validator ends in the state the grammar prescribes. Used by C01.
-/
import FastPasta.Spec.Protocol
import FastPasta.Props.C11
import FastPasta.Props.C12
namespace FastPasta
namespace Proto

theorem wordId_lt (w : Bytes) : wordId w < 256 := by
  unfold wordId bAt; exact (w.getD 9 0).toNat_lt

theorem valid_id_facts : ∀ id : Fin 256, isValidDataId id.val = true →
    isFsmDataId id.val = true ∧ id.val ≠ ID_CDW ∧ id.val ≠ ID_TDT ∧ (id.val / 32 = 1 ∨ id.val / 32 = 2) := by
  decide +kernel

theorem valid_facts (w : Bytes) (h : isValidDataId (wordId w) = true) :
    isFsmDataId (wordId w) = true ∧ wordId w ≠ ID_CDW ∧ wordId w ≠ ID_TDT ∧ (wordId w / 32 = 1 ∨ wordId w / 32 = 2) :=
  valid_id_facts ⟨wordId w, wordId_lt w⟩ h

/-- the four data-phase states of the state machine -/
def InData (st : FsmSt) : Prop :=
  st = .dataByNoDataFalse ∨ st = .dataByWasData ∨ st = .cDataByNext ∨ st = .cDataByWasData

/-- fields of the validator state that only status words change -/
structure Same (s s' : CdpSt) : Prop where
  tdh : s'.tdh = s.tdh
  rdh : s'.rdh = s.rdh
  ihw : s'.ihw = s.ihw

theorem step_data (cfg : CheckCfg) (hst : cfg.stave = false) (s : CdpSt) (w i : Bytes)
    (hi : s.ihw = some i) (hfsm : InData s.fsm)
    (hok : dataOk cfg.running (ihwActiveLanes i) w = true) :
    ∃ s', checkWord cfg s w = .ok (s', []) ∧ InData s'.fsm ∧ Same s s' ∧ s'.startOfData = false ∧ s'.cdw = s.cdw := by
  simp only [dataOk, Bool.and_eq_true, beq_iff_eq, Bool.or_eq_true, Bool.not_eq_true'] at hok
  obtain ⟨⟨_, hvalid⟩, hlane⟩ := hok
  obtain ⟨hf, hncdw, hntdt, h12⟩ := valid_facts w hvalid
  have hadv : ∃ st', fsmAdvance s.fsm w = (st', .dataWord) ∧ InData st' := by
    unfold fsmAdvance fsmStep
    rcases hfsm with h | h | h | h <;> simp only [h, hf, ↓reduceIte] <;>
      first
        | exact ⟨_, rfl, Or.inr (Or.inl rfl)⟩
        | exact ⟨_, rfl, Or.inr (Or.inr (Or.inr rfl))⟩
  obtain ⟨st', hadv, hst'⟩ := hadv
  unfold checkWord
  simp only [hadv]
  unfold preData
  have hne : (wordId w == ID_CDW) = false := by simpa using hncdw
  simp only [hne, Bool.and_false, Bool.false_eq_true, ↓reduceIte, hvalid, List.nil_append]
  by_cases hr : cfg.running = true
  · have h12' : ¬ ((wordId w / 32 != 1 && wordId w / 32 != 2) = true) := by
      rcases h12 with h | h <;> simp [h]
    simp only [hr, Bool.not_true, Bool.false_or, h12', ↓reduceIte, hi, hst, Bool.not_false]
    have hlane : (if wordId w / 32 = 1 then laneActive (ibLane (wordId w)) (ihwActiveLanes i)
        else laneActive (obLane (wordId w)) (ihwActiveLanes i) && decide (obConnectorInput (wordId w) ≤ 6)) = true := by
      rcases hlane with hlane | hlane
      · simp [hr] at hlane
      · exact hlane
    rcases h12 with h1 | h2
    · simp only [h1, ↓reduceIte] at hlane
      simp only [h1, beq_self_eq_true, ↓reduceIte, hlane]
      exact ⟨_, rfl, hst', ⟨rfl, rfl, by simp only [hi]⟩, rfl, rfl⟩
    · have hne1 : ¬ wordId w / 32 = 1 := by omega
      simp only [hne1, ↓reduceIte, Bool.and_eq_true, decide_eq_true_eq] at hlane
      have hb : (wordId w / 32 == 1) = false := by simp [h2]
      have hc : ¬ (obConnectorInput (wordId w) > 6) := by omega
      simp only [hb, Bool.false_eq_true, ↓reduceIte, hlane.1, hc, List.append_nil]
      exact ⟨_, rfl, hst', ⟨rfl, rfl, by simp only [hi]⟩, rfl, rfl⟩
  · simp only [hr, Bool.not_false, Bool.true_or, ↓reduceIte]
    exact ⟨_, rfl, hst', ⟨rfl, rfl, rfl⟩, rfl, rfl⟩

theorem step_cdw (cfg : CheckCfg) (s : CdpSt) (w : Bytes) (prev : Option Bytes)
    (hfsm : InData s.fsm) (hsod : s.startOfData = true) (hcdw : cfg.running = true → s.cdw = prev)
    (hok : cdwOk cfg.running prev w = true) :
    ∃ s', checkWord cfg s w = .ok (s', []) ∧ InData s'.fsm ∧ Same s s' ∧ s'.startOfData = false ∧
      (cfg.running = true → s'.cdw = some w) := by
  simp only [cdwOk, Bool.and_eq_true, beq_iff_eq, Bool.or_eq_true, Bool.not_eq_true'] at hok
  obtain ⟨⟨_, hid⟩, hrule⟩ := hok
  have hadv : ∃ st', fsmAdvance s.fsm w = (st', .cdw) ∧ InData st' := by
    unfold fsmAdvance fsmStep
    rcases hfsm with h | h | h | h <;> simp only [h, hid] <;>
      first
        | exact ⟨_, rfl, Or.inr (Or.inl rfl)⟩
        | exact ⟨_, rfl, Or.inr (Or.inr (Or.inr rfl))⟩
  obtain ⟨st', hadv, hst'⟩ := hadv
  unfold checkWord
  simp only [hadv]
  unfold preData
  simp only [hsod, hid, beq_self_eq_true, Bool.and_self, ↓reduceIte]
  by_cases hr : cfg.running = true
  · simp only [hr, Bool.not_true, Bool.false_eq_true, ↓reduceIte, hcdw hr]
    rcases hrule with hrule | hrule
    · simp [hr] at hrule
    · cases prev with
      | none => exact ⟨_, rfl, hst', ⟨rfl, rfl, rfl⟩, rfl, fun _ => rfl⟩
      | some p =>
        simp only [Bool.or_eq_true, beq_iff_eq] at hrule
        have : (cdwUserFields p != cdwUserFields w && cdwIndex w != 0) = false := by
          rcases hrule with h | h <;> simp [h]
        simp only [this, Bool.false_eq_true, ↓reduceIte]
        exact ⟨_, rfl, hst', ⟨rfl, rfl, rfl⟩, rfl, fun _ => rfl⟩
  · have hr' : cfg.running = false := by simpa using hr
    simp only [hr', Bool.not_false, ↓reduceIte]
    exact ⟨_, rfl, hst', ⟨rfl, rfl, rfl⟩, rfl, fun h => by simp at h⟩

theorem checkWords_append (cfg : CheckCfg) (a b : List Bytes) : ∀ (s : CdpSt),
    checkWords cfg s (a ++ b) = match checkWords cfg s a with
      | .error p => .error p
      | .ok (s1, m1) => match checkWords cfg s1 b with
        | .error p => .error p
        | .ok (s2, m2) => .ok (s2, m1 ++ m2) := by
  induction a with
  | nil =>
    intro s
    simp only [List.nil_append, checkWords]
    cases checkWords cfg s b with
    | error p => rfl
    | ok r => obtain ⟨s2, m2⟩ := r; simp
  | cons w ws ih =>
    intro s
    simp only [List.cons_append, checkWords]
    cases checkWord cfg s w with
    | error p => rfl
    | ok r =>
      obtain ⟨s1, m1⟩ := r
      simp only [ih s1]
      cases checkWords cfg s1 ws with
      | error p => rfl
      | ok r2 =>
        obtain ⟨s2, m2⟩ := r2
        simp only
        cases checkWords cfg s2 b with
        | error p => rfl
        | ok r3 => obtain ⟨s3, m3⟩ := r3; simp [List.append_assoc]

/-- quiet run: the words are processed without any message -/
def Quiet (cfg : CheckCfg) (s : CdpSt) (ws : List Bytes) (s' : CdpSt) : Prop := checkWords cfg s ws = .ok (s', [])

theorem Quiet.nil (cfg : CheckCfg) (s : CdpSt) : Quiet cfg s [] s := rfl
theorem Quiet.cons {cfg : CheckCfg} {s s1 s2 : CdpSt} {w : Bytes} {ws : List Bytes}
    (h1 : checkWord cfg s w = .ok (s1, [])) (h2 : Quiet cfg s1 ws s2) : Quiet cfg s (w :: ws) s2 := by
  unfold Quiet at *; simp [checkWords, h1, h2]
theorem Quiet.append {cfg : CheckCfg} {s s1 s2 : CdpSt} {a b : List Bytes}
    (h1 : Quiet cfg s a s1) (h2 : Quiet cfg s1 b s2) : Quiet cfg s (a ++ b) s2 := by
  unfold Quiet at *; rw [checkWords_append, h1]; simp [h2]
theorem Quiet.single {cfg : CheckCfg} {s s1 : CdpSt} {w : Bytes}
    (h1 : checkWord cfg s w = .ok (s1, [])) : Quiet cfg s [w] s1 := Quiet.cons h1 (Quiet.nil cfg s1)

theorem Same.trans {a b c : CdpSt} (h1 : Same a b) (h2 : Same b c) : Same a c :=
  ⟨h2.tdh.trans h1.tdh, h2.rdh.trans h1.rdh, h2.ihw.trans h1.ihw⟩
theorem Same.refl (a : CdpSt) : Same a a := ⟨rfl, rfl, rfl⟩

/-- the data phase of a segment -/
theorem data_sim (cfg : CheckCfg) (hst : cfg.stave = false) (i : Bytes) (d : List Bytes) :
    ∀ (s : CdpSt) (ps ps' : PSt), s.ihw = some i → InData s.fsm → s.startOfData = ps.sod →
      (cfg.running = true → s.cdw = ps.cdw) →
      dataPhaseOk cfg.running (ihwActiveLanes i) ps d = some ps' →
      ∃ s', Quiet cfg s d s' ∧ InData s'.fsm ∧ Same s s' ∧ s'.startOfData = ps'.sod ∧
        (cfg.running = true → s'.cdw = ps'.cdw) := by
  induction d with
  | nil =>
    intro s ps ps' hi hf hsod hcdw hok
    simp only [dataPhaseOk, Option.some.injEq] at hok
    subst hok
    exact ⟨s, Quiet.nil cfg s, hf, Same.refl s, hsod, hcdw⟩
  | cons w ws ih =>
    intro s ps ps' hi hf hsod hcdw hok
    simp only [dataPhaseOk] at hok
    split at hok
    · rename_i hc
      simp only [Bool.and_eq_true, beq_iff_eq] at hc
      split at hok
      · rename_i hcok
        obtain ⟨s1, h1, hf1, hsame1, hsod1, hcdw1⟩ := step_cdw cfg s w ps.cdw hf (by rw [hsod]; exact hc.1) hcdw hcok
        obtain ⟨s2, h2, hf2, hsame2, hsod2, hcdw2⟩ := ih s1 _ ps' (by rw [hsame1.ihw]; exact hi) hf1 hsod1 hcdw1 hok
        exact ⟨s2, Quiet.cons h1 h2, hf2, hsame1.trans hsame2, hsod2, hcdw2⟩
      · cases hok
    · split at hok
      · rename_i hdok
        obtain ⟨s1, h1, hf1, hsame1, hsod1, hcdw1⟩ := step_data cfg hst s w i hi hf hdok
        obtain ⟨s2, h2, hf2, hsame2, hsod2, hcdw2⟩ := ih s1 { ps with sod := false } ps' (by rw [hsame1.ihw]; exact hi) hf1 hsod1
          (fun hr => by rw [hcdw1]; exact hcdw hr) hok
        exact ⟨s2, Quiet.cons h1 h2, hf2, hsame1.trans hsame2, hsod2, hcdw2⟩
      · cases hok

def InChoice (st : FsmSt) : Prop := st = .choiceByTdtTrue ∨ st = .choiceByNoDataTrue

theorem step_tdt (cfg : CheckCfg) (hst : cfg.stave = false) (s : CdpSt) (t : Bytes)
    (hfsm : InData s.fsm) (hok : tdtSane t = true) :
    ∃ s', checkWord cfg s t = .ok (s', []) ∧
      s'.fsm = (if tdtPacketDone t then .choiceByTdtTrue else .cIhwByTdtFalse) ∧
      Same s s' ∧ s'.startOfData = s.startOfData ∧ s'.cdw = s.cdw := by
  have hid : wordId t = ID_TDT := by
    simp only [tdtSane, Bool.and_eq_true, beq_iff_eq] at hok; exact hok.1
  have hadv : fsmAdvance s.fsm t = (if tdtPacketDone t then .choiceByTdtTrue else .cIhwByTdtFalse, .tdt) := by
    have h1 : isFsmDataId ID_TDT = false := by decide
    unfold fsmAdvance fsmStep
    rcases hfsm with h | h | h | h <;>
      simp only [h, hid, h1, beq_self_eq_true, ↓reduceIte, Bool.false_eq_true] <;> (split <;> rfl)
  unfold checkWord
  simp only [hadv]
  unfold preTdt
  simp only [hok, ↓reduceIte, hst, Bool.false_and, Bool.false_eq_true, List.nil_append]
  exact ⟨_, rfl, rfl, ⟨rfl, rfl, rfl⟩, rfl, rfl⟩

theorem tdhSane_id (w : Bytes) (h : tdhSane w = true) : wordId w = ID_TDH := by
  simp only [tdhSane, Bool.and_eq_true, beq_iff_eq] at h; exact h.1.1

theorem preTdh_quiet (cfg : CheckCfg) (hst : cfg.stave = false) (s : CdpSt) (w : Bytes) (h : tdhSane w = true) :
    preTdh cfg s w = (replaceTdh s w, []) := by
  unfold preTdh
  simp [h, hst]

theorem noCont_quiet (s0 : CdpSt) (w : Bytes) (hcont : tdhContinuation w = 0) (horb : tdhOrbit w = s0.rdh.orbit)
    (hpage : (s0.rdh.pagesCounter == 0 && (tdhInternal w == 1 || s0.rdh.isPht)) = false ∨
      (tdhBc w = s0.rdh.bc ∧ s0.rdh.triggerType % 4096 = tdhTriggerType w)) :
    tdhNoContinuationChecks (replaceTdh s0 w) w = [] := by
  unfold tdhNoContinuationChecks
  have hr : (replaceTdh s0 w).rdh = s0.rdh := rfl
  simp only [hr, hcont, bne_self_eq_false, Bool.false_eq_true, ↓reduceIte, horb, List.nil_append]
  rcases hpage with hp | hp
  · simp [hp]
  · simp [hp.1, hp.2]

theorem interval_quiet (cfg : CheckCfg) (htp : cfg.triggerPeriod = none) (s0 : CdpSt) : tdhTriggerInterval cfg s0 = [] := by
  unfold tdhTriggerInterval; simp [htp]

theorem cont_quiet (s0 : CdpSt) (o w : Bytes) (hprev : s0.tdh = some o) (hcont : tdhContinuation w = 1)
    (hbc : tdhBc w = tdhBc o) (horb : tdhOrbit w = tdhOrbit o) (htrg : tdhTriggerType w = tdhTriggerType o) :
    tdhContinuationChecks (replaceTdh s0 w) w = [] := by
  have hpt : (replaceTdh s0 w).prevTdh = some o := by simp [replaceTdh, hprev]
  unfold tdhContinuationChecks
  simp [hpt, hcont, hbc, horb, htrg]

/-- TDH directly after the IHW of a page that opens a new packet -/
theorem step_tdh_first (cfg : CheckCfg) (hst : cfg.stave = false) (htp : cfg.triggerPeriod = none)
    (s : CdpSt) (w : Bytes) (hfsm : s.fsm = .tdhByWasIhw) (hok : tdhFirstOk s.rdh w = true) :
    ∃ s', checkWord cfg s w = .ok (s', []) ∧
      s'.fsm = (if tdhNoData w == 1 then .choiceByNoDataTrue else .dataByNoDataFalse) ∧
      s'.tdh = some w ∧ s'.rdh = s.rdh ∧ s'.ihw = s.ihw ∧ s'.startOfData = s.startOfData ∧ s'.cdw = s.cdw := by
  simp only [tdhFirstOk, Bool.and_eq_true, beq_iff_eq, Bool.or_eq_true, Bool.not_eq_true'] at hok
  obtain ⟨⟨⟨⟨_, hsane⟩, hcont⟩, horb⟩, hpage⟩ := hok
  have hadv : fsmAdvance s.fsm w = (if tdhNoData w == 1 then .choiceByNoDataTrue else .dataByNoDataFalse, .tdh) := by
    unfold fsmAdvance fsmStep; simp only [hfsm]
  unfold checkWord
  simp only [hadv, preTdh_quiet cfg hst _ w hsane, List.nil_append]
  rw [noCont_quiet { s with wordCount := s.wordCount + 1, fsm := (if tdhNoData w == 1 then FsmSt.choiceByNoDataTrue else FsmSt.dataByNoDataFalse) } w hcont horb hpage, interval_quiet cfg htp]
  simp only [List.append_nil, ite_self]
  exact ⟨_, rfl, rfl, rfl, rfl, rfl, rfl, rfl⟩

/-- TDH after a closed packet or a no-data TDH of the same page -/
theorem step_tdh_next (cfg : CheckCfg) (hst : cfg.stave = false) (htp : cfg.triggerPeriod = none)
    (s : CdpSt) (prev w : Bytes) (hfsm : InChoice s.fsm) (hprev : s.tdh = some prev)
    (hok : tdhNextOk s.rdh prev w = true) :
    ∃ s', checkWord cfg s w = .ok (s', []) ∧
      s'.fsm = (if tdhNoData w == 1 then .choiceByNoDataTrue else .dataByNoDataFalse) ∧
      s'.tdh = some w ∧ s'.rdh = s.rdh ∧ s'.ihw = s.ihw ∧ s'.startOfData = s.startOfData ∧ s'.cdw = s.cdw := by
  simp only [tdhNextOk, Bool.and_eq_true, beq_iff_eq, decide_eq_true_eq] at hok
  obtain ⟨⟨⟨⟨_, hsane⟩, _⟩, _⟩, hbc⟩ := hok
  have hid := tdhSane_id w hsane
  have hadv : fsmAdvance s.fsm w = (if tdhNoData w == 1 then .choiceByNoDataTrue else .dataByNoDataFalse, .tdhAfterPacketDone) := by
    unfold fsmAdvance fsmStep
    rcases hfsm with h | h <;> simp only [h, hid, beq_self_eq_true, ↓reduceIte] <;> (split <;> rfl)
  unfold checkWord
  simp only [hadv, preTdh_quiet cfg hst _ w hsane, List.nil_append]
  rw [interval_quiet cfg htp]
  have hgt : ¬ (tdhBc prev > tdhBc w) := by omega
  simp only [replaceTdh, hprev, hgt, decide_false, Bool.false_eq_true, ↓reduceIte, List.append_nil, ite_self]
  exact ⟨_, rfl, rfl, rfl, rfl, rfl, rfl, rfl⟩

/-- TDH continuing an open packet (directly after the continuation IHW) -/
theorem step_tdh_cont (cfg : CheckCfg) (hst : cfg.stave = false)
    (s : CdpSt) (o w : Bytes) (hfsm : s.fsm = .cTdhByNext) (hprev : s.tdh = some o)
    (hok : tdhContOk o w = true) :
    ∃ s', checkWord cfg s w = .ok (s', []) ∧ s'.fsm = .cDataByNext ∧
      s'.tdh = some w ∧ s'.rdh = s.rdh ∧ s'.ihw = s.ihw ∧ s'.startOfData = s.startOfData ∧ s'.cdw = s.cdw := by
  simp only [tdhContOk, Bool.and_eq_true, beq_iff_eq] at hok
  obtain ⟨⟨⟨⟨⟨⟨_, hsane⟩, hcont⟩, _⟩, hbc⟩, horb⟩, htrg⟩ := hok
  have hadv : fsmAdvance s.fsm w = (.cDataByNext, .tdhCont) := by
    unfold fsmAdvance fsmStep; simp only [hfsm]
  unfold checkWord
  simp only [hadv, preTdh_quiet cfg hst _ w hsane, List.nil_append]
  rw [cont_quiet { s with wordCount := s.wordCount + 1, fsm := FsmSt.cDataByNext } o w hprev hcont hbc horb htrg]
  simp only [ite_self]
  exact ⟨_, rfl, rfl, rfl, rfl, rfl, rfl, rfl⟩

def InFresh (st : FsmSt) : Prop := st = .initialIhw ∨ st = .ihwByWasDdw0

theorem ihwSane_id (w : Bytes) (h : ihwSane w = true) : wordId w = ID_IHW := by
  simp only [ihwSane, Bool.and_eq_true, beq_iff_eq] at h; exact h.1

/-- IHW opening a page (not a continuation) -/
theorem step_ihw (cfg : CheckCfg) (s : CdpSt) (w : Bytes) (hfsm : InFresh s.fsm ∨ InChoice s.fsm)
    (hok : ihwSane w = true) (hstop : s.rdh.stopBit = 0) :
    ∃ s', checkWord cfg s w = .ok (s', []) ∧ s'.fsm = .tdhByWasIhw ∧ s'.ihw = some w ∧
      s'.tdh = s.tdh ∧ s'.rdh = s.rdh ∧ s'.startOfData = s.startOfData ∧ s'.cdw = s.cdw := by
  have hid := ihwSane_id w hok
  have hadv : fsmAdvance s.fsm w = (.tdhByWasIhw, .ihw) := by
    have h1 : (ID_IHW == ID_TDH) = false := by decide
    unfold fsmAdvance fsmStep
    rcases hfsm with (h | h) | (h | h) <;>
      simp only [h, hid, h1, beq_self_eq_true, ↓reduceIte, Bool.false_eq_true]
  unfold checkWord
  simp only [hadv, preIhw, hok, ↓reduceIte, List.nil_append, hstop, bne_self_eq_false, Bool.and_false, Bool.false_eq_true]
  exact ⟨_, rfl, rfl, rfl, rfl, rfl, rfl, rfl⟩

/-- IHW of a page that continues an open packet -/
theorem step_ihw_cont (cfg : CheckCfg) (s : CdpSt) (w : Bytes) (hfsm : s.fsm = .cIhwByTdtFalse)
    (hok : ihwSane w = true) :
    ∃ s', checkWord cfg s w = .ok (s', []) ∧ s'.fsm = .cTdhByNext ∧ s'.ihw = some w ∧
      s'.tdh = s.tdh ∧ s'.rdh = s.rdh ∧ s'.startOfData = s.startOfData ∧ s'.cdw = s.cdw := by
  have hadv : fsmAdvance s.fsm w = (.cTdhByNext, .ihwCont) := by
    unfold fsmAdvance fsmStep; simp only [hfsm]
  unfold checkWord
  simp only [hadv, preIhw, hok, ↓reduceIte]
  exact ⟨_, rfl, rfl, rfl, rfl, rfl, rfl, rfl⟩

/-- DDW0 on the stop page -/
theorem step_ddw0 (cfg : CheckCfg) (s : CdpSt) (w : Bytes) (hfsm : InChoice s.fsm)
    (hok : ddw0Sane w = true) (hstop : s.rdh.stopBit = 1) (hpage : s.rdh.pagesCounter ≠ 0) :
    ∃ s', checkWord cfg s w = .ok (s', []) ∧ s'.fsm = .ihwByWasDdw0 ∧ s'.cdw = s.cdw := by
  have hid : wordId w = ID_DDW0 := by
    simp only [ddw0Sane, Bool.and_eq_true, beq_iff_eq] at hok; exact hok.1.1
  have hadv : fsmAdvance s.fsm w = (.ihwByWasDdw0, .ddw0) := by
    have h1 : (ID_DDW0 == ID_TDH) = false := by decide
    have h2 : (ID_DDW0 == ID_IHW) = false := by decide
    unfold fsmAdvance fsmStep
    rcases hfsm with h | h <;>
      simp only [h, hid, h1, h2, beq_self_eq_true, ↓reduceIte, Bool.false_eq_true]
  unfold checkWord
  have hp : (s.rdh.pagesCounter == 0) = false := by simpa using hpage
  simp only [hadv, preDdw0, hok, ↓reduceIte, List.nil_append, hstop, bne_self_eq_false, Bool.false_eq_true, hp,
    List.append_nil, ite_self]
  exact ⟨_, rfl, rfl, rfl⟩

/-- the validator state against what the grammar expects next inside a page -/
structure SegRel (running : Bool) (r : Rdh) (i : Bytes) (e : Expect) (ps : PSt) (s : CdpSt) : Prop where
  fsm : match e with
    | .first => s.fsm = .tdhByWasIhw
    | .cont o => s.fsm = .cTdhByNext ∧ s.tdh = some o
    | .next p => InChoice s.fsm ∧ s.tdh = some p
  rdh : s.rdh = r
  ihw : s.ihw = some i
  sod : s.startOfData = ps.sod
  cdw : running = true → s.cdw = ps.cdw

/-- the validator state against where the grammar stands between two payloads -/
structure EndRel (running : Bool) (bw : Between) (cdw : Option Bytes) (s : CdpSt) : Prop where
  fsm : match bw with
    | .fresh => InFresh s.fsm
    | .closed => InChoice s.fsm
    | .open_ o => s.fsm = .cIhwByTdtFalse ∧ s.tdh = some o
  cdw : running = true → s.cdw = cdw

theorem segs_sim (cfg : CheckCfg) (hst : cfg.stave = false) (htp : cfg.triggerPeriod = none)
    (r : Rdh) (i : Bytes) (gs : List Seg) :
    ∀ (e : Expect) (ps : PSt) (s : CdpSt) (bw : Between) (ps' : PSt),
      SegRel cfg.running r i e ps s →
      segsOk cfg.running r (ihwActiveLanes i) e ps gs = some (bw, ps') →
      ∃ s', Quiet cfg s (gs.flatMap Seg.words) s' ∧ EndRel cfg.running bw ps'.cdw s' := by
  induction gs with
  | nil =>
    intro e ps s bw ps' hrel hok
    cases e with
    | first => simp [segsOk] at hok
    | cont o => simp [segsOk] at hok
    | next p =>
      simp only [segsOk, Option.some.injEq, Prod.mk.injEq] at hok
      obtain ⟨rfl, rfl⟩ := hok
      exact ⟨s, Quiet.nil cfg s, ⟨hrel.fsm.1, hrel.cdw⟩⟩
  | cons g gs ih =>
    intro e ps s bw ps' hrel hok
    simp only [segsOk] at hok
    have hokT : e.tdhOk r g.tdh = true := by
      cases hc : e.tdhOk r g.tdh with
      | true => rfl
      | false => simp [hc] at hok
    simp only [hokT, Bool.not_true, Bool.false_eq_true, ↓reduceIte] at hok
    -- the TDH of the segment
    have htdh : ∃ s1, checkWord cfg s g.tdh = .ok (s1, []) ∧
        s1.tdh = some g.tdh ∧ s1.rdh = r ∧ s1.ihw = some i ∧ s1.startOfData = ps.sod ∧
        (cfg.running = true → s1.cdw = ps.cdw) ∧
        (e.isCont = true → s1.fsm = .cDataByNext ∧ tdhNoData g.tdh = 0) ∧
        (e.isCont = false → s1.fsm = (if tdhNoData g.tdh == 1 then .choiceByNoDataTrue else .dataByNoDataFalse)) := by
      cases e with
      | first =>
        have hT : tdhFirstOk s.rdh g.tdh = true := by rw [hrel.rdh]; exact hokT
        obtain ⟨s1, h1, hf, ht, hr, hi, hs, hc⟩ := step_tdh_first cfg hst htp s g.tdh hrel.fsm hT
        exact ⟨s1, h1, ht, hr.trans hrel.rdh, hi.trans hrel.ihw, hs.trans hrel.sod,
          fun hrn => hc.trans (hrel.cdw hrn), fun h => by simp [Expect.isCont] at h, fun _ => hf⟩
      | next p =>
        have hT : tdhNextOk s.rdh p g.tdh = true := by rw [hrel.rdh]; exact hokT
        obtain ⟨s1, h1, hf, ht, hr, hi, hs, hc⟩ := step_tdh_next cfg hst htp s p g.tdh hrel.fsm.1 hrel.fsm.2 hT
        exact ⟨s1, h1, ht, hr.trans hrel.rdh, hi.trans hrel.ihw, hs.trans hrel.sod,
          fun hrn => hc.trans (hrel.cdw hrn), fun h => by simp [Expect.isCont] at h, fun _ => hf⟩
      | cont o =>
        have hT : tdhContOk o g.tdh = true := hokT
        obtain ⟨s1, h1, hf, ht, hr, hi, hs, hc⟩ := step_tdh_cont cfg hst s o g.tdh hrel.fsm.1 hrel.fsm.2 hT
        have hnd : tdhNoData g.tdh = 0 := by
          simp only [tdhContOk, Bool.and_eq_true, beq_iff_eq] at hT
          exact hT.1.1.1.2
        exact ⟨s1, h1, ht, hr.trans hrel.rdh, hi.trans hrel.ihw, hs.trans hrel.sod,
          fun hrn => hc.trans (hrel.cdw hrn), fun _ => ⟨hf, hnd⟩, fun h => by simp [Expect.isCont] at h⟩
    obtain ⟨s1, h1, ht1, hr1, hi1, hs1, hc1, hfc, hfn⟩ := htdh
    cases hb : g.body with
    | none =>
      simp only [hb] at hok
      have hw : Seg.words g = [g.tdh] := by simp [Seg.words, hb]
      split at hok
      · cases hok
      · rename_i hcond
        simp only [Bool.or_eq_true, bne_iff_ne, ne_eq, not_or, Bool.not_eq_true, Decidable.not_not] at hcond
        have hf1 := hfn hcond.1
        simp only [hcond.2, beq_self_eq_true, ↓reduceIte] at hf1
        obtain ⟨s', hq, hend⟩ := ih (.next g.tdh) ps s1 bw ps'
          ⟨⟨Or.inr hf1, ht1⟩, hr1, hi1, hs1, hc1⟩ hok
        exact ⟨s', by rw [List.flatMap_cons, hw]; exact Quiet.cons h1 hq, hend⟩
    | some dt =>
      obtain ⟨d, t⟩ := dt
      simp only [hb] at hok
      have hw : Seg.words g = g.tdh :: (d ++ [t]) := by simp [Seg.words, hb]
      split at hok
      · cases hok
      · rename_i hnd0
        have hnd : tdhNoData g.tdh = 0 := by simpa using hnd0
        have hdata : InData s1.fsm := by
          cases hic : e.isCont with
          | true => exact Or.inr (Or.inr (Or.inl (hfc hic).1))
          | false =>
            have := hfn hic
            simp only [hnd] at this
            exact Or.inl (by simpa using this)
        cases hdp : dataPhaseOk cfg.running (ihwActiveLanes i) ps d with
        | none => simp [hdp] at hok
        | some st' =>
          simp only [hdp] at hok
          obtain ⟨s2, hq2, hf2, hsame2, hs2, hc2⟩ := data_sim cfg hst i d s1 ps st' hi1 hdata hs1 hc1 hdp
          split at hok
          · cases hok
          · rename_i htok
            have htsane : tdtSane t = true := by
              simp only [Bool.not_eq_true', Bool.and_eq_false_iff, not_or, Bool.not_eq_true, Bool.not_eq_false] at htok
              exact htok.2
            obtain ⟨s3, h3, hf3, hsame3, hs3, hc3⟩ := step_tdt cfg hst s2 t hf2 htsane
            have hq3 : Quiet cfg s (g.tdh :: (d ++ [t])) s3 := Quiet.cons h1 (Quiet.append hq2 (Quiet.single h3))
            have ht3 : s3.tdh = some g.tdh := by rw [hsame3.tdh, hsame2.tdh]; exact ht1
            have hc3' : cfg.running = true → s3.cdw = st'.cdw := fun hrn => by rw [hc3]; exact hc2 hrn
            split at hok
            · rename_i hdone
              simp only [hdone, ↓reduceIte] at hf3
              obtain ⟨s', hq, hend⟩ := ih (.next g.tdh) st' s3 bw ps'
                ⟨⟨Or.inl hf3, ht3⟩, by rw [hsame3.rdh, hsame2.rdh]; exact hr1,
                 by rw [hsame3.ihw, hsame2.ihw]; exact hi1, by rw [hs3]; exact hs2, hc3'⟩ hok
              exact ⟨s', by rw [List.flatMap_cons, hw]; exact Quiet.append hq3 hq, hend⟩
            · rename_i hdone
              have hdone' : tdtPacketDone t = false := by simpa using hdone
              simp only [hdone', Bool.false_eq_true, ↓reduceIte] at hf3
              cases gs with
              | nil =>
                simp only [Option.some.injEq, Prod.mk.injEq] at hok
                obtain ⟨rfl, rfl⟩ := hok
                exact ⟨s3, by simpa [hw] using hq3, ⟨⟨hf3, ht3⟩, hc3'⟩⟩
              | cons _ _ => simp at hok

/-- **one payload**: a payload the grammar accepts is processed without any message and leaves the
    validator where the grammar stands -/
theorem payload_sim (cfg : CheckCfg) (hst : cfg.stave = false) (htp : cfg.triggerPeriod = none)
    (r : Rdh) (st st' : LSt) (pl : Payload) (s0 : CdpSt)
    (hrel : EndRel cfg.running st.bw st.cdw s0) (hr : s0.rdh = r) (hsod : s0.startOfData = true)
    (hok : payloadOk cfg.running r st pl = some st') :
    ∃ s', Quiet cfg s0 pl.words s' ∧ EndRel cfg.running st'.bw st'.cdw s' := by
  cases pl with
  | stop d =>
    simp only [payloadOk] at hok
    cases hbw : st.bw with
    | fresh => simp [hbw] at hok
    | open_ o => simp [hbw] at hok
    | closed =>
      simp only [hbw] at hok
      split at hok
      · rename_i hc
        simp only [Bool.and_eq_true, beq_iff_eq, bne_iff_ne, ne_eq] at hc
        obtain ⟨⟨⟨_, hsane⟩, hstop⟩, hpage⟩ := hc
        have hfsm : InChoice s0.fsm := by have := hrel.fsm; rw [hbw] at this; exact this
        obtain ⟨s', h1, hf, hc⟩ := step_ddw0 cfg s0 d hfsm hsane (by rw [hr]; exact hstop) (by rw [hr]; exact hpage)
        simp only [Option.some.injEq] at hok
        subst hok
        exact ⟨s', Quiet.single h1, ⟨Or.inr hf, fun hrn => by rw [hc]; exact hrel.cdw hrn⟩⟩
      · cases hok
  | page p =>
    simp only [payloadOk] at hok
    split at hok
    · cases hok
    · rename_i hc
      simp only [Bool.not_eq_true', Bool.and_eq_false_iff, not_or, Bool.not_eq_false, Bool.and_eq_true, beq_iff_eq] at hc
      obtain ⟨⟨_, hsane⟩, hstop⟩ := hc
      cases hsg : segsOk cfg.running r (ihwActiveLanes p.ihw) st.bw.expect { sod := true, cdw := st.cdw } p.segs with
      | none => simp [hsg] at hok
      | some res =>
        obtain ⟨bw, ps⟩ := res
        simp only [hsg, Option.some.injEq] at hok
        subst hok
        have hihw : ∃ s1, checkWord cfg s0 p.ihw = .ok (s1, []) ∧
            SegRel cfg.running r p.ihw st.bw.expect { sod := true, cdw := st.cdw } s1 := by
          cases hbw : st.bw with
          | fresh =>
            have hfsm : InFresh s0.fsm := by have := hrel.fsm; rw [hbw] at this; exact this
            obtain ⟨s1, h1, hf, hi, ht, hr1, hs, hcw⟩ := step_ihw cfg s0 p.ihw (Or.inl hfsm) hsane (by rw [hr]; exact hstop)
            exact ⟨s1, h1, ⟨hf, hr1.trans hr, hi, hs.trans hsod, fun hrn => by rw [hcw]; exact hrel.cdw hrn⟩⟩
          | closed =>
            have hfsm : InChoice s0.fsm := by have := hrel.fsm; rw [hbw] at this; exact this
            obtain ⟨s1, h1, hf, hi, ht, hr1, hs, hcw⟩ := step_ihw cfg s0 p.ihw (Or.inr hfsm) hsane (by rw [hr]; exact hstop)
            exact ⟨s1, h1, ⟨hf, hr1.trans hr, hi, hs.trans hsod, fun hrn => by rw [hcw]; exact hrel.cdw hrn⟩⟩
          | open_ o =>
            have hfsm : s0.fsm = .cIhwByTdtFalse ∧ s0.tdh = some o := by have := hrel.fsm; rw [hbw] at this; exact this
            obtain ⟨s1, h1, hf, hi, ht, hr1, hs, hcw⟩ := step_ihw_cont cfg s0 p.ihw hfsm.1 hsane
            exact ⟨s1, h1, ⟨⟨hf, ht.trans hfsm.2⟩, hr1.trans hr, hi, hs.trans hsod, fun hrn => by rw [hcw]; exact hrel.cdw hrn⟩⟩
        obtain ⟨s1, h1, hseg⟩ := hihw
        obtain ⟨s', hq, hend⟩ := segs_sim cfg hst htp r p.ihw p.segs _ _ s1 bw ps hseg hsg
        exact ⟨s', Quiet.cons h1 hq, hend⟩

/-! ### shape of the words of an accepted payload (needed by the payload cutter) -/

def WordOk (w : Bytes) : Prop := w.length = 10 ∧ wordId w ≠ 255

theorem valid_id_ne_ff : ∀ id : Fin 256, isValidDataId id.val = true → id.val ≠ 255 := by decide +kernel

theorem dataOk_word {running : Bool} {lanes : Nat} {w : Bytes} (h : dataOk running lanes w = true) : WordOk w := by
  simp only [dataOk, Bool.and_eq_true, beq_iff_eq] at h
  exact ⟨h.1.1, valid_id_ne_ff ⟨wordId w, wordId_lt w⟩ h.1.2⟩

theorem cdwOk_word {running : Bool} {prev : Option Bytes} {w : Bytes} (h : cdwOk running prev w = true) : WordOk w := by
  simp only [cdwOk, Bool.and_eq_true, beq_iff_eq] at h
  exact ⟨h.1.1, by rw [h.1.2]; decide⟩

theorem dataPhase_words (running : Bool) (lanes : Nat) (d : List Bytes) :
    ∀ ps ps', dataPhaseOk running lanes ps d = some ps' → ∀ w ∈ d, WordOk w := by
  induction d with
  | nil => intro _ _ _ w hw; simp at hw
  | cons x xs ih =>
    intro ps ps' hok w hw
    simp only [dataPhaseOk] at hok
    simp only [List.mem_cons] at hw
    split at hok
    · split at hok
      · rename_i hc
        rcases hw with rfl | hw
        · exact cdwOk_word hc
        · exact ih _ _ hok w hw
      · cases hok
    · split at hok
      · rename_i hc
        rcases hw with rfl | hw
        · exact dataOk_word hc
        · exact ih _ _ hok w hw
      · cases hok

theorem tdhOk_word {r : Rdh} {e : Expect} {w : Bytes} (h : e.tdhOk r w = true) : WordOk w ∧ tdhSane w = true := by
  cases e <;>
    simp only [Expect.tdhOk, tdhFirstOk, tdhNextOk, tdhContOk, Bool.and_eq_true, beq_iff_eq] at h
  · exact ⟨⟨h.1.1.1.1, by rw [tdhSane_id w h.1.1.1.2]; decide⟩, h.1.1.1.2⟩
  · exact ⟨⟨h.1.1.1.1.1.1, by rw [tdhSane_id w h.1.1.1.1.1.2]; decide⟩, h.1.1.1.1.1.2⟩
  · exact ⟨⟨h.1.1.1.1, by rw [tdhSane_id w h.1.1.1.2]; decide⟩, h.1.1.1.2⟩

theorem segs_words (running : Bool) (r : Rdh) (lanes : Nat) (gs : List Seg) :
    ∀ e ps res, segsOk running r lanes e ps gs = some res → ∀ w ∈ gs.flatMap Seg.words, WordOk w := by
  induction gs with
  | nil => intro _ _ _ _ w hw; simp at hw
  | cons g gs ih =>
    intro e ps res hok w hw
    simp only [segsOk] at hok
    have hokT : e.tdhOk r g.tdh = true := by
      cases hc : e.tdhOk r g.tdh with
      | true => rfl
      | false => simp [hc] at hok
    simp only [hokT, Bool.not_true, Bool.false_eq_true, ↓reduceIte] at hok
    simp only [List.flatMap_cons, List.mem_append] at hw
    cases hb : g.body with
    | none =>
      simp only [hb] at hok
      split at hok
      · cases hok
      · rcases hw with hw | hw
        · simp only [Seg.words, hb, List.mem_singleton] at hw
          subst hw; exact (tdhOk_word hokT).1
        · exact ih _ _ _ hok w hw
    | some dt =>
      obtain ⟨d, t⟩ := dt
      simp only [hb] at hok
      split at hok
      · cases hok
      · cases hdp : dataPhaseOk running lanes ps d with
        | none => simp [hdp] at hok
        | some st' =>
          simp only [hdp] at hok
          split at hok
          · cases hok
          · rename_i htok
            simp only [Bool.not_eq_true', Bool.and_eq_false_iff, not_or, Bool.not_eq_true, Bool.not_eq_false,
              beq_iff_eq] at htok
            have ht : WordOk t := ⟨htok.1, by
              have := htok.2
              simp only [tdtSane, Bool.and_eq_true, beq_iff_eq] at this
              rw [this.1]; decide⟩
            rcases hw with hw | hw
            · simp only [Seg.words, hb, List.mem_cons, List.mem_append, List.mem_singleton, List.not_mem_nil, or_false] at hw
              rcases hw with rfl | hw | rfl
              · exact (tdhOk_word hokT).1
              · exact dataPhase_words running lanes d ps st' hdp w hw
              · exact ht
            · split at hok
              · exact ih _ _ _ hok w hw
              · cases gs with
                | nil => simp at hw
                | cons _ _ => simp at hok

theorem payload_words (running : Bool) (r : Rdh) (st st' : LSt) (pl : Payload)
    (hok : payloadOk running r st pl = some st') : ∀ w ∈ pl.words, WordOk w := by
  cases pl with
  | stop d =>
    intro w hw
    simp only [Payload.words, List.mem_singleton] at hw
    subst hw
    simp only [payloadOk] at hok
    split at hok
    · split at hok
      · rename_i hc
        simp only [Bool.and_eq_true, beq_iff_eq] at hc
        have := hc.1.1.2
        simp only [ddw0Sane, Bool.and_eq_true, beq_iff_eq] at this
        exact ⟨hc.1.1.1, by rw [this.1.1]; decide⟩
      · cases hok
    · cases hok
  | page p =>
    intro w hw
    simp only [payloadOk] at hok
    split at hok
    · cases hok
    · rename_i hc
      simp only [Bool.not_eq_true', Bool.and_eq_false_iff, not_or, Bool.not_eq_false, Bool.and_eq_true, beq_iff_eq] at hc
      simp only [Payload.words, Page.words, List.mem_cons] at hw
      rcases hw with rfl | hw
      · exact ⟨hc.1.1, by rw [ihwSane_id _ hc.1.2]; decide⟩
      · cases hsg : segsOk running r (ihwActiveLanes p.ihw) st.bw.expect { sod := true, cdw := st.cdw } p.segs with
        | none => simp [hsg] at hok
        | some res => exact segs_words running r _ p.segs _ _ res hsg w hw

/-! ### the encoded payload is cut back into exactly the grammar's words -/

theorem flatten_getLast (ws : List Bytes) (hne : ws ≠ []) (hlen : ∀ w ∈ ws, w.length = 10) :
    ∃ w, w ∈ ws ∧ ws.flatten.getLast? = w.getLast? := by
  induction ws with
  | nil => exact absurd rfl hne
  | cons x xs ih =>
    cases xs with
    | nil => exact ⟨x, by simp, by simp⟩
    | cons y ys =>
      obtain ⟨w, hw, hl⟩ := ih (by simp) (fun w hw => hlen w (by simp [hw]))
      refine ⟨w, by simp [hw], ?_⟩
      have hwl : w.length = 10 := hlen w (by simp [hw])
      obtain ⟨b0,b1,b2,b3,b4,b5,b6,b7,b8,b9, rfl⟩ := list10 w hwl
      rw [List.flatten_cons, List.getLast?_append, hl]
      rfl

theorem lastIdNotFF (ws : List Bytes) (hok : ∀ w ∈ ws, WordOk w) : C12.LastIdNotFF ws := by
  by_cases hne : ws = []
  · exact Or.inl hne
  · right
    obtain ⟨w, hw, hl⟩ := flatten_getLast ws hne (fun w hw => (hok w hw).1)
    obtain ⟨hlen, hid⟩ := hok w hw
    obtain ⟨b0,b1,b2,b3,b4,b5,b6,b7,b8,b9, rfl⟩ := list10 w hlen
    refine ⟨b9, by rw [hl]; rfl, ?_⟩
    intro h
    apply hid
    simp [wordId, bAt, h]

theorem detectV0_stop (d : Bytes) (hd : d.length = 10) (pad : Nat) : detectV0 (C12.encFormat2 [d] pad) = false := by
  unfold detectV0 C12.encFormat2
  simp only [List.flatten_cons, List.flatten_nil, List.append_nil]
  rw [← hd, List.drop_left']
  · cases pad with
    | zero => simp
    | succ n => simp [List.replicate_succ, List.takeWhile]
  · rfl

theorem detectV0_page (i t : Bytes) (rest : List Bytes) (pad : Nat) (hi : i.length = 10) (ht : t.length = 10)
    (hsane : tdhSane t = true) : detectV0 (C12.encFormat2 (i :: t :: rest) pad) = false := by
  obtain ⟨b0,b1,b2,b3,b4,b5,b6,b7,b8,b9, rfl⟩ := list10 t ht
  unfold detectV0 C12.encFormat2
  simp only [List.flatten_cons, List.append_assoc]
  rw [← hi, List.drop_left']
  · simp only [List.cons_append, List.take_succ_cons, List.take_zero]
    by_cases h0 : b0 = 0
    · by_cases h1 : b1 = 0
      · exfalso
        subst h0 h1
        simp [tdhSane, tdhTriggerType, tdhInternal, tdhW0, leField, slice, leNat] at hsane
      · have h1' : (b1 == 0) = false := by simpa using h1
        simp [List.takeWhile, h0, h1']
    · have h0' : (b0 == 0) = false := by simpa using h0
      simp [List.takeWhile, h0']
  · rfl

theorem segsOk_nonempty (running : Bool) (r : Rdh) (lanes : Nat) (e : Expect) (he : ∀ p, e ≠ .next p) (ps : PSt)
    (gs : List Seg) (res : Between × PSt) (h : segsOk running r lanes e ps gs = some res) :
    ∃ g gs', gs = g :: gs' ∧ e.tdhOk r g.tdh = true := by
  cases gs with
  | nil =>
    cases e with
    | first => simp [segsOk] at h
    | cont o => simp [segsOk] at h
    | next p => exact absurd rfl (he p)
  | cons g gs' =>
    refine ⟨g, gs', rfl, ?_⟩
    simp only [segsOk] at h
    cases hc : e.tdhOk r g.tdh with
    | true => rfl
    | false => simp [hc] at h

/-- the cutter recovers exactly the words of an accepted payload from either layout -/
theorem cut_payload (running : Bool) (r : Rdh) (st st' : LSt) (pl : Payload)
    (hok : payloadOk running r st pl = some st') (fmt0 : Bool) (pad : Nat) (hpad : pad ≤ 15) :
    cutPayload (if fmt0 then C12.encFormat0 pl.words else C12.encFormat2 pl.words pad) = some pl.words := by
  have hw := payload_words running r st st' pl hok
  have hlen : ∀ w ∈ pl.words, w.length = 10 := fun w h => (hw w h).1
  have hne : pl.words ≠ [] := by cases pl <;> simp [Payload.words, Page.words]
  cases fmt0 with
  | true => simp only [↓reduceIte]; exact C12.cut_format0 pl.words hne hlen
  | false =>
    simp only [Bool.false_eq_true, ↓reduceIte]
    apply C12.cut_format2 pl.words pad hlen hpad (lastIdNotFF pl.words hw)
    cases pl with
    | stop d => exact detectV0_stop d (hlen d (by simp [Payload.words])) pad
    | page p =>
      simp only [payloadOk] at hok
      split at hok
      · cases hok
      · cases hsg : segsOk running r (ihwActiveLanes p.ihw) st.bw.expect { sod := true, cdw := st.cdw } p.segs with
        | none => simp [hsg] at hok
        | some res =>
          have he : ∀ q, st.bw.expect ≠ .next q := by
            intro q; cases st.bw <;> simp [Between.expect]
          obtain ⟨g, gs', hgs, hT⟩ := segsOk_nonempty running r _ _ he _ p.segs res hsg
          have hwords : (Payload.page p).words = p.ihw :: g.tdh :: ((match g.body with | none => [] | some (d, t) => d ++ [t]) ++ gs'.flatMap Seg.words) := by
            simp only [Payload.words, Page.words, hgs, Seg.words, List.flatMap_cons, List.cons_append, List.cons.injEq, true_and]
            cases g.body <;> rfl
          rw [hwords]
          have hi : p.ihw.length = 10 := hlen p.ihw (by simp [Payload.words, Page.words])
          exact detectV0_page p.ihw g.tdh _ pad hi (tdhOk_word hT).1.1 (tdhOk_word hT).2

end Proto
end FastPasta
