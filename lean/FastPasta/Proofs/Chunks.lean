/-
  Proofs.Chunks — lemmas about `chunksExact`, `ffRun`, `detectV0`.
-/
import FastPasta.Model.Preprocess
namespace FastPasta

theorem chunksExact_short {α} (n : Nat) (l : List α) (h : l.length < n) : chunksExact n l = [] := by
  rw [chunksExact]; simp [h]

theorem chunksExact_cons {α} (n : Nat) (hn : 0 < n) (w rest : List α) (hw : w.length = n) :
    chunksExact n (w ++ rest) = w :: chunksExact n rest := by
  rw [chunksExact]
  have h1 : ¬ (n = 0 ∨ (w ++ rest).length < n) := by
    simp only [List.length_append, hw]; omega
  simp only [h1, ↓reduceDIte]
  rw [← hw, List.take_left', List.drop_left'] <;> rfl

theorem chunksExact_flatten {α} (n : Nat) (hn : 0 < n) (ws : List (List α)) (r : List α)
    (hws : ∀ w ∈ ws, w.length = n) (hr : r.length < n) :
    chunksExact n (ws.flatten ++ r) = ws := by
  induction ws with
  | nil => simpa using chunksExact_short n r hr
  | cons w ws ih =>
    have hw : w.length = n := hws w (by simp)
    have ih' := ih (fun x hx => hws x (by simp [hx]))
    simp only [List.flatten_cons, List.append_assoc]
    rw [chunksExact_cons n hn w _ hw, ih']

theorem ffRun_append_replicate (a : Bytes) (k : Nat)
    (ha : a = [] ∨ ∃ b, a.getLast? = some b ∧ b ≠ 0xFF) :
    ffRun (a ++ List.replicate k 0xFF) = k := by
  unfold ffRun
  rw [List.reverse_append, List.reverse_replicate]
  rcases ha with rfl | ⟨b, hb, hne⟩
  · simp [List.takeWhile_replicate]
  · have : a.reverse.head? = some b := by simpa [List.head?_reverse] using hb
    cases hrev : a.reverse with
    | nil => simp [hrev] at this
    | cons x xs =>
      simp only [hrev, List.head?_cons, Option.some.injEq] at this
      subst this
      have hx : (x == 0xFF) = false := by simpa using hne
      rw [List.takeWhile_append]
      simp [List.takeWhile_replicate, hx]

end FastPasta
