/-
  Proofs.RdhSrcTie — the hand-written RDH model (`Model/Rdh.lean`: `decodeRdh` and the accessors; `Model/Cdp.lean`:
  `rdhSanityBad`) IS what `tools/rs2lean.py` translates from the Rust sources on every run (`Spec/RdhSrcGen.lean`):
  `Rdh0::from_buf` + `RdhCru::from_rdh0_and_buf` (with `Rdh1/2/3::from_buf`), the accessors of `RdhCru`,
  and `RdhCruSanityValidator::sanity_check` with its four sub-validators, the FEE-ID validator, the constructors
  `new` / `with_specialization(ITS)` / `specialize(ITS)` and every constant they use.
-/
import FastPasta.Spec.RdhSrcGen
import FastPasta.Model.Cdp
import FastPasta.Proofs.WordsSrcTie
namespace FastPasta
namespace SrcTie
open SrcRdh
set_option linter.unusedSimpArgs false

/-- the source's header struct read back as the model's record -/
def toModel (c : RdhCru) : Rdh where
  headerId := c.f_rdh0.f_header_id
  headerSize := c.f_rdh0.f_header_size
  feeId := c.f_rdh0.f_fee_id.f_0
  priority := c.f_rdh0.f_priority_bit
  systemId := c.f_rdh0.f_system_id
  reserved0 := c.f_rdh0.f_reserved0
  offsetNext := c.f_offset_new_packet
  memSize := c.f_memory_size
  linkId := c.f_link_id
  packetCounter := c.f_packet_counter
  cruidDw := c.f_cruid_dw.f_0
  bcReserved := c.f_rdh1.f_bc_reserved0.f_0
  orbit := c.f_rdh1.f_orbit
  dataFormatReserved := c.f_dataformat_reserved0.f_0
  triggerType := c.f_rdh2.f_trigger_type
  pagesCounter := c.f_rdh2.f_pages_counter
  stopBit := c.f_rdh2.f_stop_bit
  rdh2Reserved := c.f_rdh2.f_reserved0
  reserved1 := c.f_reserved1
  detectorField := c.f_rdh3.f_detector_field
  parBit := c.f_rdh3.f_par_bit
  rdh3Reserved := c.f_rdh3.f_reserved0
  reserved2 := c.f_reserved2

theorem leField1 (w : Bytes) (i : Nat) : leField w i 1 = bAt w i := by
  have h := leField_byte w i 1 0 (by omega)
  have hl := leField_lt w i 1
  simp only [Nat.pow_zero, Nat.div_one, Nat.add_zero, Nat.pow_one] at h hl
  omega

theorem leField_drop (w : Bytes) (k i n : Nat) : leField (w.drop k) i n = leField w (k + i) n := by
  unfold leField slice; rw [List.drop_drop]

theorem bAt_drop (w : Bytes) (k i : Nat) : bAt (w.drop k) i = bAt w (k + i) := by
  unfold bAt; rw [getD_drop]

theorem leField_take (w : Bytes) (k i n : Nat) (h : i + n ≤ k) : leField (w.take k) i n = leField w i n := by
  unfold leField slice
  rw [List.drop_take, List.take_take, Nat.min_eq_left (by omega)]

theorem bAt_take (w : Bytes) (k i : Nat) (h : i < k) : bAt (w.take k) i = bAt w i := by
  unfold bAt; rw [getD_take _ _ _ h]

theorem leField_slice (w : Bytes) (lo m i n : Nat) (h : i + n ≤ m) : leField (Rs.slice w lo m) i n = leField w (lo + i) n := by
  unfold Rs.slice; rw [leField_take _ _ _ _ h, leField_drop]

theorem bAt_slice (w : Bytes) (lo m i : Nat) (h : i < m) : bAt (Rs.slice w lo m) i = bAt w (lo + i) := by
  unfold Rs.slice; rw [bAt_take _ _ _ h, bAt_drop]

/-- what the reader does with the 64 header bytes: `Rdh0::from_buf` on the first 8, `from_rdh0_and_buf` on the other 56 -/
def loadRdh (bs : Bytes) : Rs.Res RdhCru :=
  match Rdh0.from_buf (bs.take 8) with
  | .ok r0 => RdhCru.from_rdh0_and_buf r0 (bs.drop 8)
  | .err e => .err e

/-- **loader = `decodeRdh`**: every field, for every byte string -/
theorem load_eq_decode (bs : Bytes) : ∃ c, loadRdh bs = .ok c ∧ toModel c = decodeRdh bs := by
  refine ⟨_, rfl, ?_⟩
  simp only [toModel, decodeRdh, Rdh1.from_buf, Rdh2.from_buf, Rdh3.from_buf, leField1, leField_drop, bAt_drop,
    leField_slice, bAt_slice, leField_take, bAt_take, Nat.reduceAdd, Nat.reduceSub, Nat.reduceLeDiff, Nat.reduceLT, Nat.le_refl]


/-- the validators the constructors build: everything constant except the learnt header id and the system id -/
def mkValidator (hid sys : Option Nat) : RdhCruSanityValidator :=
  { f_rdh0_validator := Rdh0Validator.new hid Rdh0.HEADER_SIZE FEE_ID_SANITY_VALIDATOR 0 sys,
    f_rdh1_validator := RDH1_VALIDATOR, f_rdh2_validator := RDH2_VALIDATOR, f_rdh3_validator := RDH3_VALIDATOR }

theorem new_eq : RdhCruSanityValidator.new = mkValidator none none := rfl
theorem with_its_eq : RdhCruSanityValidator.with_specialization .ITS = mkValidator none (some 32) := rfl
theorem specialize_eq (h s : Option Nat) : (RdhCruSanityValidator.specialize (mkValidator h s) .ITS).2 = mkValidator h (some 32) := rfl

theorem fee_check_eq (fee : Nat) (_hf : fee < 65536) :
    (FeeIdSanityValidator.sanity_check FEE_ID_SANITY_VALIDATOR { f_0 := fee }).isErr = feeIdBad fee := by
  simp only [FeeIdSanityValidator.sanity_check, FEE_ID_SANITY_VALIDATOR, FeeIdSanityValidator.new, stave_number_from_feeid,
    layer_from_feeid, feeIdBad, Nat.and_or_distrib_left, Rs.and_mask, shr,
    apply_ite Rs.Res.isErr, apply_ite Rs.Str.nonEmpty, Rs.Str.app_nonEmpty, Rs.Str.empty_nonEmpty, Rs.Str.lit_nonEmpty,
    Rs.Res.isErr_ok, Rs.Res.isErr_err, Bool.or_true, Bool.false_or, Bool.not_true, Bool.not_false, if_true, if_false]
  repeat' split
  all_goals bool_arith

theorem fee_check_ne (fee : Nat) :
    (FeeIdSanityValidator.sanity_check FEE_ID_SANITY_VALIDATOR { f_0 := fee }).errStr.nonEmpty =
    (FeeIdSanityValidator.sanity_check FEE_ID_SANITY_VALIDATOR { f_0 := fee }).isErr := by
  simp only [FeeIdSanityValidator.sanity_check, apply_ite Rs.Res.isErr, apply_ite Rs.Res.errStr, apply_ite Rs.Str.nonEmpty,
    Rs.Res.isErr_ok, Rs.Res.isErr_err, Rs.Res.errStr_err, Rs.Res.errStr_ok, Rs.Str.empty_nonEmpty]
  split <;> simp_all

/-- RDH0 sub-validator with the learnt / configured header id `hid` and the optional system id -/
theorem rdh0_check_eq (hid sys : Option Nat) (r : Rdh0) (hf : r.f_fee_id.f_0 < 65536) :
    let res := Rdh0Validator.sanity_check (Rdh0Validator.new hid Rdh0.HEADER_SIZE FEE_ID_SANITY_VALIDATOR 0 sys) r
    res.1.isErr = (r.f_header_id != hid.getD r.f_header_id || r.f_header_size != 0x40 || feeIdBad r.f_fee_id.f_0 || r.f_priority_bit != 0 ||
      (match sys with | some s => r.f_system_id != s | none => false) || r.f_reserved0 != 0) ∧
    res.1.errStr.nonEmpty = res.1.isErr ∧
    res.2 = Rdh0Validator.new (some (hid.getD r.f_header_id)) Rdh0.HEADER_SIZE FEE_ID_SANITY_VALIDATOR 0 sys := by
  have hfee := fee_check_eq r.f_fee_id.f_0 hf
  have hne := fee_check_ne r.f_fee_id.f_0
  cases hid <;> cases sys <;>
  simp only [Rdh0Validator.sanity_check, Rdh0Validator.new, Rdh0.HEADER_SIZE, Rdh0.fee_id, Rs.unwrapD, Option.isNone_none, Option.isNone_some,
    Option.isSome_none, Option.isSome_some, Option.getD_none, Option.getD_some, if_true, if_false, Bool.false_eq_true, hfee, hne,
    apply_ite Rs.Res.isErr, apply_ite Rs.Res.errStr, apply_ite Rs.Str.nonEmpty, apply_ite Prod.fst, apply_ite Prod.snd, Rs.Str.app_nonEmpty, Rs.Str.empty_nonEmpty, Rs.Str.lit_nonEmpty,
    Rs.Res.isErr_ok, Rs.Res.isErr_err, Rs.Res.errStr_err, Rs.Res.errStr_ok, Bool.or_true, Bool.true_or, Bool.false_or, Bool.not_true, Bool.not_false]
  all_goals (
    refine ⟨?_, trivial, by simp only [ite_self]⟩
    generalize (r.f_reserved0 != 0) = a1
    generalize (r.f_priority_bit != 0) = a3
    generalize feeIdBad r.f_fee_id.f_0 = a4
    generalize (r.f_header_size != 64) = a5
    cases a1 <;> cases a3 <;> cases a4 <;> cases a5 <;> simp [bne, Bool.beq_eq_decide_eq] <;> (rw [Bool.eq_iff_iff]; simp; omega))

theorem rdh1_check_eq (r : Rdh1) :
    let res := Rdh1Validator.sanity_check RDH1_VALIDATOR r
    res.isErr = (r.f_bc_reserved0.f_0 / 4096 != 0 || r.f_bc_reserved0.f_0 % 4096 > 0xdeb) ∧ res.errStr.nonEmpty = res.isErr := by
  simp only [Rdh1Validator.sanity_check, RDH1_VALIDATOR, Rdh1.const_default, Rdh1.reserved0, Rdh1.bc, Rdh1Validator.BC_MAX,
    Rs.and_mask, shr, apply_ite Rs.Res.isErr, apply_ite Rs.Res.errStr, apply_ite Rs.Str.nonEmpty, Rs.Str.app_nonEmpty, Rs.Str.empty_nonEmpty, Rs.Str.lit_nonEmpty,
    Rs.Res.isErr_ok, Rs.Res.isErr_err, Rs.Res.errStr_err, Rs.Res.errStr_ok, Bool.or_true, Bool.true_or, Bool.false_or, Bool.not_true, Bool.not_false, if_true, if_false]
  refine ⟨?_, ?_⟩
  · repeat' split
    all_goals bool_arith
  · repeat' split
    all_goals simp_all

theorem rdh2_check_eq (r : Rdh2) :
    let res := Rdh2Validator.sanity_check RDH2_VALIDATOR r
    res.isErr = (r.f_reserved0 != 0 || r.f_stop_bit > 1 || r.f_trigger_type == 0 || r.f_trigger_type / 2^15 % 2^12 != 0) ∧
    res.errStr.nonEmpty = res.isErr := by
  simp only [Rdh2Validator.sanity_check, Rs.and_mask, shr, apply_ite Rs.Res.isErr, apply_ite Rs.Res.errStr, apply_ite Rs.Str.nonEmpty,
    Rs.Str.app_nonEmpty, Rs.Str.empty_nonEmpty, Rs.Str.lit_nonEmpty,
    Rs.Res.isErr_ok, Rs.Res.isErr_err, Rs.Res.errStr_err, Rs.Res.errStr_ok, Bool.or_true, Bool.true_or, Bool.false_or, Bool.not_true, Bool.not_false, if_true, if_false]
  refine ⟨?_, ?_⟩
  · repeat' split
    all_goals bool_arith
  · repeat' split
    all_goals simp_all

theorem rdh3_check_eq (r : Rdh3) :
    let res := Rdh3Validator.sanity_check RDH3_VALIDATOR r
    res.isErr = (r.f_reserved0 != 0 || r.f_detector_field / 2^12 % 2^12 != 0) ∧ res.errStr.nonEmpty = res.isErr := by
  simp only [Rdh3Validator.sanity_check, Rs.and_mask, shr, apply_ite Rs.Res.isErr, apply_ite Rs.Res.errStr, apply_ite Rs.Str.nonEmpty,
    Rs.Str.app_nonEmpty, Rs.Str.empty_nonEmpty, Rs.Str.lit_nonEmpty,
    Rs.Res.isErr_ok, Rs.Res.isErr_err, Rs.Res.errStr_err, Rs.Res.errStr_ok, Bool.or_true, Bool.true_or, Bool.false_or, Bool.not_true, Bool.not_false, if_true, if_false]
  refine ⟨?_, ?_⟩
  · repeat' split
    all_goals bool_arith
  · repeat' split
    all_goals simp_all

theorem dw_eq (c : RdhCru) (hcd : c.f_cruid_dw.f_0 < 65536) : c.dw = (toModel c).dw := by
  simp only [RdhCru.dw, Rdh.dw, toModel, Rs.and_mask, shr]; omega
theorem data_format_eq (c : RdhCru) : c.data_format = (toModel c).dataFormat := by
  simp only [RdhCru.data_format, Rdh.dataFormat, toModel, Rs.and_mask, shr]; omega

/-- **`RdhCruSanityValidator::sanity_check` = `rdhSanityBad`** for a header struct with in-range fields -/
theorem sanity_check_c (hid sys : Option Nat) (c : RdhCru) (hfee : c.f_rdh0.f_fee_id.f_0 < 65536) (hcd : c.f_cruid_dw.f_0 < 65536) :
    (RdhCruSanityValidator.sanity_check (mkValidator hid sys) c).1.isErr =
        rdhSanityBad (hid.getD c.f_rdh0.f_header_id) sys (toModel c) ∧
    ((RdhCruSanityValidator.sanity_check (mkValidator hid sys) c).1.isErr = true →
        ∃ cs, (RdhCruSanityValidator.sanity_check (mkValidator hid sys) c).1.errStr.codes = 10 :: cs) ∧
    (RdhCruSanityValidator.sanity_check (mkValidator hid sys) c).2 = mkValidator (some (hid.getD c.f_rdh0.f_header_id)) sys := by
  have h0 := rdh0_check_eq hid sys c.f_rdh0 hfee
  have h1 := rdh1_check_eq c.f_rdh1
  have h2 := rdh2_check_eq c.f_rdh2
  have h3 := rdh3_check_eq c.f_rdh3
  simp only at h0 h1 h2 h3
  have hm : rdhSanityBad (hid.getD c.f_rdh0.f_header_id) sys (toModel c) =
      (((Rdh0Validator.new hid Rdh0.HEADER_SIZE FEE_ID_SANITY_VALIDATOR 0 sys).sanity_check c.f_rdh0).fst.isErr ||
      (RDH1_VALIDATOR.sanity_check c.f_rdh1).isErr || (RDH2_VALIDATOR.sanity_check c.f_rdh2).isErr ||
      (RDH3_VALIDATOR.sanity_check c.f_rdh3).isErr || decide (c.dw > 1) || decide (c.data_format > 2)) := by
    rw [h0.1, h1.1, h2.1, h3.1, dw_eq c hcd, data_format_eq c]
    simp only [rdhSanityBad, rdh0Bad, rdh1Bad, rdh2Bad, rdh3Bad, toModel, Rdh.rdh1Reserved, Rdh.bc, Bool.or_assoc]
    try rfl
  rw [hm]
  have e0 := h0.2.1; have e1 := h1.2; have e2 := h2.2; have e3 := h3.2; have ev := h0.2.2
  clear h0 h1 h2 h3 hm
  generalize hp0 : (Rdh0Validator.new hid Rdh0.HEADER_SIZE FEE_ID_SANITY_VALIDATOR 0 sys).sanity_check c.f_rdh0 = p0 at e0 ev
  generalize hr1 : RDH1_VALIDATOR.sanity_check c.f_rdh1 = r1 at e1
  generalize hr2 : RDH2_VALIDATOR.sanity_check c.f_rdh2 = r2 at e2
  generalize hr3 : RDH3_VALIDATOR.sanity_check c.f_rdh3 = r3 at e3
  generalize hb4 : decide (c.dw > 1) = b4
  generalize hb5 : decide (c.data_format > 2) = b5
  obtain ⟨r0, v0⟩ := p0
  simp only at e0 ev
  subst ev
  simp only [RdhCruSanityValidator.sanity_check, mkValidator, RdhCru.rdh0, RdhCru.rdh1, RdhCru.rdh2, RdhCru.rdh3, hp0, hr1, hr2, hr3, hb4, hb5]
  rcases r0 with _ | s0 <;> rcases r1 with _ | s1 <;> rcases r2 with _ | s2 <;> rcases r3 with _ | s3 <;>
    cases b4 <;> cases b5 <;> simp_all [Rs.Str.app, Rs.Str.lit, Rs.Str.empty, Rs.Res.isErr, Rs.Res.errStr]

/-- **source = model on bytes**: for every 64-byte (or any) string, every learnt / configured header id and either system-id
    setting, the source's `sanity_check` on the source's own loader result fails exactly when `rdhSanityBad` says so on
    `decodeRdh`; the message then starts with `[E10]`; the validator afterwards expects the header id it has learnt -/
theorem sanity_check_bytes (hid sys : Option Nat) (bs : Bytes) : ∃ c, loadRdh bs = .ok c ∧ toModel c = decodeRdh bs ∧
    (RdhCruSanityValidator.sanity_check (mkValidator hid sys) c).1.isErr =
        rdhSanityBad (hid.getD (decodeRdh bs).headerId) sys (decodeRdh bs) ∧
    ((RdhCruSanityValidator.sanity_check (mkValidator hid sys) c).1.isErr = true →
        ∃ cs, (RdhCruSanityValidator.sanity_check (mkValidator hid sys) c).1.errStr.codes = 10 :: cs) ∧
    (RdhCruSanityValidator.sanity_check (mkValidator hid sys) c).2 = mkValidator (some (hid.getD (decodeRdh bs).headerId)) sys := by
  obtain ⟨c, hc, hm⟩ := load_eq_decode bs
  have hfee : c.f_rdh0.f_fee_id.f_0 < 65536 := by
    have : c.f_rdh0.f_fee_id.f_0 = (decodeRdh bs).feeId := by rw [← hm]; rfl
    rw [this]; exact leField_lt bs 2 2
  have hcd : c.f_cruid_dw.f_0 < 65536 := by
    have : c.f_cruid_dw.f_0 = (decodeRdh bs).cruidDw := by rw [← hm]; rfl
    rw [this]; exact leField_lt bs 14 2
  have hh : c.f_rdh0.f_header_id = (decodeRdh bs).headerId := by rw [← hm]; rfl
  have := sanity_check_c hid sys c hfee hcd
  rw [hm, hh] at this
  exact ⟨c, hc, hm, this⟩

/-- the accessors of `RdhCru` the scanner, the filters and the running checks read -/
theorem accessors_eq (c : RdhCru) (hcd : c.f_cruid_dw.f_0 < 65536) :
    c.payload_size = (toModel c).payloadSize ∧ c.cru_id = (toModel c).cruId ∧ c.link_id = (toModel c).linkId ∧
    c.fee_id = (toModel c).feeId ∧ c.version = (toModel c).headerId ∧ c.stop_bit = (toModel c).stopBit ∧
    c.pages_counter = (toModel c).pagesCounter ∧ c.trigger_type = (toModel c).triggerType ∧
    c.offset_to_next = (toModel c).offsetNext ∧ c.dw = (toModel c).dw ∧ c.data_format = (toModel c).dataFormat := by
  refine ⟨?_, ?_, rfl, rfl, rfl, rfl, rfl, rfl, rfl, dw_eq c hcd, data_format_eq c⟩
  · simp only [RdhCru.payload_size, Rdh.payloadSize, toModel]
  · simp only [RdhCru.cru_id, Rdh.cruId, toModel, Rs.and_mask]; omega

theorem fee_fields_eq (fee : Nat) (h : fee < 65536) : layer_from_feeid fee = feeLayer fee ∧ stave_number_from_feeid fee = feeStave fee := by
  simp only [layer_from_feeid, stave_number_from_feeid, feeLayer, feeStave, Rs.and_mask, shr]
  omega

end SrcTie
end FastPasta
