/-
  Proofs.RdhSrcTie — the hand-written RDH model (`Model/Rdh.lean`: `decodeRdh` and the accessors; `Model/Cdp.lean`:
  `rdhSanityBad`) IS what `tools/rs2lean.py` translates from the Rust sources on every run (`Spec/RdhSrcGen.lean`):
  `Rdh0::from_buf` + `RdhCru::from_rdh0_and_buf` (with `Rdh1/2/3::from_buf`), the accessors of `RdhCru`,
  and `RdhCruSanityValidator::sanity_check` with its four sub-validators, the FEE-ID validator, the constructors
  `new` / `with_specialization(ITS)` / `specialize(ITS)` and every constant they use; `RdhCruRunningChecker::check` with its
  three sub-checks (`rdh_running.rs`) = `runningStep` through the abstraction `runAbs`.
-/
import FastPasta.Spec.RdhSrcGen
import FastPasta.Model.Cdp
import FastPasta.Proofs.WordsSrcTie
namespace FastPasta
namespace SrcTie
open SrcRdh
set_option linter.unusedSimpArgs false

/-- the source's header struct read back as the model's record -/
def toModel (c : RdhCru) : Rdh where
  headerId := c.f_rdh0.f_header_id
  headerSize := c.f_rdh0.f_header_size
  feeId := c.f_rdh0.f_fee_id.f_0
  priority := c.f_rdh0.f_priority_bit
  systemId := c.f_rdh0.f_system_id
  reserved0 := c.f_rdh0.f_reserved0
  offsetNext := c.f_offset_new_packet
  memSize := c.f_memory_size
  linkId := c.f_link_id
  packetCounter := c.f_packet_counter
  cruidDw := c.f_cruid_dw.f_0
  bcReserved := c.f_rdh1.f_bc_reserved0.f_0
  orbit := c.f_rdh1.f_orbit
  dataFormatReserved := c.f_dataformat_reserved0.f_0
  triggerType := c.f_rdh2.f_trigger_type
  pagesCounter := c.f_rdh2.f_pages_counter
  stopBit := c.f_rdh2.f_stop_bit
  rdh2Reserved := c.f_rdh2.f_reserved0
  reserved1 := c.f_reserved1
  detectorField := c.f_rdh3.f_detector_field
  parBit := c.f_rdh3.f_par_bit
  rdh3Reserved := c.f_rdh3.f_reserved0
  reserved2 := c.f_reserved2

theorem leField1 (w : Bytes) (i : Nat) : leField w i 1 = bAt w i := by
  have h := leField_byte w i 1 0 (by omega)
  have hl := leField_lt w i 1
  simp only [Nat.pow_zero, Nat.div_one, Nat.add_zero, Nat.pow_one] at h hl
  omega

theorem leField_drop (w : Bytes) (k i n : Nat) : leField (w.drop k) i n = leField w (k + i) n := by
  unfold leField slice; rw [List.drop_drop]

theorem bAt_drop (w : Bytes) (k i : Nat) : bAt (w.drop k) i = bAt w (k + i) := by
  unfold bAt; rw [getD_drop]

theorem leField_take (w : Bytes) (k i n : Nat) (h : i + n ≤ k) : leField (w.take k) i n = leField w i n := by
  unfold leField slice
  rw [List.drop_take, List.take_take, Nat.min_eq_left (by omega)]

theorem bAt_take (w : Bytes) (k i : Nat) (h : i < k) : bAt (w.take k) i = bAt w i := by
  unfold bAt; rw [getD_take _ _ _ h]

theorem leField_slice (w : Bytes) (lo m i n : Nat) (h : i + n ≤ m) : leField (Rs.slice w lo m) i n = leField w (lo + i) n := by
  unfold Rs.slice; rw [leField_take _ _ _ _ h, leField_drop]

theorem bAt_slice (w : Bytes) (lo m i : Nat) (h : i < m) : bAt (Rs.slice w lo m) i = bAt w (lo + i) := by
  unfold Rs.slice; rw [bAt_take _ _ _ h, bAt_drop]

/-- what the reader does with the 64 header bytes: `Rdh0::from_buf` on the first 8, `from_rdh0_and_buf` on the other 56 -/
def loadRdh (bs : Bytes) : Rs.Res RdhCru :=
  match Rdh0.from_buf (bs.take 8) with
  | .ok r0 => RdhCru.from_rdh0_and_buf r0 (bs.drop 8)
  | .err e => .err e

/-- **loader = `decodeRdh`**: every field, for every byte string -/
theorem load_eq_decode (bs : Bytes) : ∃ c, loadRdh bs = .ok c ∧ toModel c = decodeRdh bs := by
  refine ⟨_, rfl, ?_⟩
  simp only [toModel, decodeRdh, Rdh1.from_buf, Rdh2.from_buf, Rdh3.from_buf, leField1, leField_drop, bAt_drop,
    leField_slice, bAt_slice, leField_take, bAt_take, Nat.reduceAdd, Nat.reduceSub, Nat.reduceLeDiff, Nat.reduceLT, Nat.le_refl]


/-- the validators the constructors build: everything constant except the learnt header id and the system id -/
def mkValidator (hid sys : Option Nat) : RdhCruSanityValidator :=
  { f_rdh0_validator := Rdh0Validator.new hid Rdh0.HEADER_SIZE FEE_ID_SANITY_VALIDATOR 0 sys,
    f_rdh1_validator := RDH1_VALIDATOR, f_rdh2_validator := RDH2_VALIDATOR, f_rdh3_validator := RDH3_VALIDATOR }

theorem new_eq : RdhCruSanityValidator.new = mkValidator none none := rfl
theorem with_its_eq : RdhCruSanityValidator.with_specialization .ITS = mkValidator none (some 32) := rfl
theorem specialize_eq (h s : Option Nat) : (RdhCruSanityValidator.specialize (mkValidator h s) .ITS).2 = mkValidator h (some 32) := rfl

theorem fee_check_eq (fee : Nat) (_hf : fee < 65536) :
    (FeeIdSanityValidator.sanity_check FEE_ID_SANITY_VALIDATOR { f_0 := fee }).isErr = feeIdBad fee := by
  simp only [FeeIdSanityValidator.sanity_check, FEE_ID_SANITY_VALIDATOR, FeeIdSanityValidator.new, stave_number_from_feeid,
    layer_from_feeid, feeIdBad, Nat.and_or_distrib_left, Rs.and_mask, shr,
    apply_ite Rs.Res.isErr, apply_ite Rs.Str.nonEmpty, Rs.Str.app_nonEmpty, Rs.Str.empty_nonEmpty, Rs.Str.lit_nonEmpty,
    Rs.Res.isErr_ok, Rs.Res.isErr_err, Bool.or_true, Bool.false_or, Bool.not_true, Bool.not_false, if_true, if_false]
  repeat' split
  all_goals bool_arith

theorem fee_check_ne (fee : Nat) :
    (FeeIdSanityValidator.sanity_check FEE_ID_SANITY_VALIDATOR { f_0 := fee }).errStr.nonEmpty =
    (FeeIdSanityValidator.sanity_check FEE_ID_SANITY_VALIDATOR { f_0 := fee }).isErr := by
  simp only [FeeIdSanityValidator.sanity_check, apply_ite Rs.Res.isErr, apply_ite Rs.Res.errStr, apply_ite Rs.Str.nonEmpty,
    Rs.Res.isErr_ok, Rs.Res.isErr_err, Rs.Res.errStr_err, Rs.Res.errStr_ok, Rs.Str.empty_nonEmpty]
  split <;> simp_all

/-- RDH0 sub-validator with the learnt / configured header id `hid` and the optional system id -/
theorem rdh0_check_eq (hid sys : Option Nat) (r : Rdh0) (hf : r.f_fee_id.f_0 < 65536) :
    let res := Rdh0Validator.sanity_check (Rdh0Validator.new hid Rdh0.HEADER_SIZE FEE_ID_SANITY_VALIDATOR 0 sys) r
    res.1.isErr = (r.f_header_id != hid.getD r.f_header_id || r.f_header_size != 0x40 || feeIdBad r.f_fee_id.f_0 || r.f_priority_bit != 0 ||
      (match sys with | some s => r.f_system_id != s | none => false) || r.f_reserved0 != 0) ∧
    res.1.errStr.nonEmpty = res.1.isErr ∧
    res.2 = Rdh0Validator.new (some (hid.getD r.f_header_id)) Rdh0.HEADER_SIZE FEE_ID_SANITY_VALIDATOR 0 sys := by
  have hfee := fee_check_eq r.f_fee_id.f_0 hf
  have hne := fee_check_ne r.f_fee_id.f_0
  cases hid <;> cases sys <;>
  simp only [Rdh0Validator.sanity_check, Rdh0Validator.new, Rdh0.HEADER_SIZE, Rdh0.fee_id, Rs.unwrapD, Option.isNone_none, Option.isNone_some,
    Option.isSome_none, Option.isSome_some, Option.getD_none, Option.getD_some, if_true, if_false, Bool.false_eq_true, hfee, hne,
    apply_ite Rs.Res.isErr, apply_ite Rs.Res.errStr, apply_ite Rs.Str.nonEmpty, apply_ite Prod.fst, apply_ite Prod.snd, Rs.Str.app_nonEmpty, Rs.Str.empty_nonEmpty, Rs.Str.lit_nonEmpty,
    Rs.Res.isErr_ok, Rs.Res.isErr_err, Rs.Res.errStr_err, Rs.Res.errStr_ok, Bool.or_true, Bool.true_or, Bool.false_or, Bool.not_true, Bool.not_false]
  all_goals (
    refine ⟨?_, trivial, by simp only [ite_self]⟩
    generalize (r.f_reserved0 != 0) = a1
    generalize (r.f_priority_bit != 0) = a3
    generalize feeIdBad r.f_fee_id.f_0 = a4
    generalize (r.f_header_size != 64) = a5
    cases a1 <;> cases a3 <;> cases a4 <;> cases a5 <;> simp [bne, Bool.beq_eq_decide_eq] <;> (rw [Bool.eq_iff_iff]; simp; omega))

theorem rdh1_check_eq (r : Rdh1) :
    let res := Rdh1Validator.sanity_check RDH1_VALIDATOR r
    res.isErr = (r.f_bc_reserved0.f_0 / 4096 != 0 || r.f_bc_reserved0.f_0 % 4096 > 0xdeb) ∧ res.errStr.nonEmpty = res.isErr := by
  simp only [Rdh1Validator.sanity_check, RDH1_VALIDATOR, Rdh1.const_default, Rdh1.reserved0, Rdh1.bc, Rdh1Validator.BC_MAX,
    Rs.and_mask, shr, apply_ite Rs.Res.isErr, apply_ite Rs.Res.errStr, apply_ite Rs.Str.nonEmpty, Rs.Str.app_nonEmpty, Rs.Str.empty_nonEmpty, Rs.Str.lit_nonEmpty,
    Rs.Res.isErr_ok, Rs.Res.isErr_err, Rs.Res.errStr_err, Rs.Res.errStr_ok, Bool.or_true, Bool.true_or, Bool.false_or, Bool.not_true, Bool.not_false, if_true, if_false]
  refine ⟨?_, ?_⟩
  · repeat' split
    all_goals bool_arith
  · repeat' split
    all_goals simp_all

theorem rdh2_check_eq (r : Rdh2) :
    let res := Rdh2Validator.sanity_check RDH2_VALIDATOR r
    res.isErr = (r.f_reserved0 != 0 || r.f_stop_bit > 1 || r.f_trigger_type == 0 || r.f_trigger_type / 2^15 % 2^12 != 0) ∧
    res.errStr.nonEmpty = res.isErr := by
  simp only [Rdh2Validator.sanity_check, Rs.and_mask, shr, apply_ite Rs.Res.isErr, apply_ite Rs.Res.errStr, apply_ite Rs.Str.nonEmpty,
    Rs.Str.app_nonEmpty, Rs.Str.empty_nonEmpty, Rs.Str.lit_nonEmpty,
    Rs.Res.isErr_ok, Rs.Res.isErr_err, Rs.Res.errStr_err, Rs.Res.errStr_ok, Bool.or_true, Bool.true_or, Bool.false_or, Bool.not_true, Bool.not_false, if_true, if_false]
  refine ⟨?_, ?_⟩
  · repeat' split
    all_goals bool_arith
  · repeat' split
    all_goals simp_all

theorem rdh3_check_eq (r : Rdh3) :
    let res := Rdh3Validator.sanity_check RDH3_VALIDATOR r
    res.isErr = (r.f_reserved0 != 0 || r.f_detector_field / 2^12 % 2^12 != 0) ∧ res.errStr.nonEmpty = res.isErr := by
  simp only [Rdh3Validator.sanity_check, Rs.and_mask, shr, apply_ite Rs.Res.isErr, apply_ite Rs.Res.errStr, apply_ite Rs.Str.nonEmpty,
    Rs.Str.app_nonEmpty, Rs.Str.empty_nonEmpty, Rs.Str.lit_nonEmpty,
    Rs.Res.isErr_ok, Rs.Res.isErr_err, Rs.Res.errStr_err, Rs.Res.errStr_ok, Bool.or_true, Bool.true_or, Bool.false_or, Bool.not_true, Bool.not_false, if_true, if_false]
  refine ⟨?_, ?_⟩
  · repeat' split
    all_goals bool_arith
  · repeat' split
    all_goals simp_all

theorem dw_eq (c : RdhCru) (hcd : c.f_cruid_dw.f_0 < 65536) : c.dw = (toModel c).dw := by
  simp only [RdhCru.dw, Rdh.dw, toModel, Rs.and_mask, shr]; omega
theorem data_format_eq (c : RdhCru) : c.data_format = (toModel c).dataFormat := by
  simp only [RdhCru.data_format, Rdh.dataFormat, toModel, Rs.and_mask, shr]; omega

/-- **`RdhCruSanityValidator::sanity_check` = `rdhSanityBad`** for a header struct with in-range fields -/
theorem sanity_check_c (hid sys : Option Nat) (c : RdhCru) (hfee : c.f_rdh0.f_fee_id.f_0 < 65536) (hcd : c.f_cruid_dw.f_0 < 65536) :
    (RdhCruSanityValidator.sanity_check (mkValidator hid sys) c).1.isErr =
        rdhSanityBad (hid.getD c.f_rdh0.f_header_id) sys (toModel c) ∧
    ((RdhCruSanityValidator.sanity_check (mkValidator hid sys) c).1.isErr = true →
        ∃ cs, (RdhCruSanityValidator.sanity_check (mkValidator hid sys) c).1.errStr.codes = 10 :: cs) ∧
    (RdhCruSanityValidator.sanity_check (mkValidator hid sys) c).2 = mkValidator (some (hid.getD c.f_rdh0.f_header_id)) sys := by
  have h0 := rdh0_check_eq hid sys c.f_rdh0 hfee
  have h1 := rdh1_check_eq c.f_rdh1
  have h2 := rdh2_check_eq c.f_rdh2
  have h3 := rdh3_check_eq c.f_rdh3
  simp only at h0 h1 h2 h3
  have hm : rdhSanityBad (hid.getD c.f_rdh0.f_header_id) sys (toModel c) =
      (((Rdh0Validator.new hid Rdh0.HEADER_SIZE FEE_ID_SANITY_VALIDATOR 0 sys).sanity_check c.f_rdh0).fst.isErr ||
      (RDH1_VALIDATOR.sanity_check c.f_rdh1).isErr || (RDH2_VALIDATOR.sanity_check c.f_rdh2).isErr ||
      (RDH3_VALIDATOR.sanity_check c.f_rdh3).isErr || decide (c.dw > 1) || decide (c.data_format > 2)) := by
    rw [h0.1, h1.1, h2.1, h3.1, dw_eq c hcd, data_format_eq c]
    simp only [rdhSanityBad, rdh0Bad, rdh1Bad, rdh2Bad, rdh3Bad, toModel, Rdh.rdh1Reserved, Rdh.bc, Bool.or_assoc]
    try rfl
  rw [hm]
  have e0 := h0.2.1; have e1 := h1.2; have e2 := h2.2; have e3 := h3.2; have ev := h0.2.2
  clear h0 h1 h2 h3 hm
  generalize hp0 : (Rdh0Validator.new hid Rdh0.HEADER_SIZE FEE_ID_SANITY_VALIDATOR 0 sys).sanity_check c.f_rdh0 = p0 at e0 ev
  generalize hr1 : RDH1_VALIDATOR.sanity_check c.f_rdh1 = r1 at e1
  generalize hr2 : RDH2_VALIDATOR.sanity_check c.f_rdh2 = r2 at e2
  generalize hr3 : RDH3_VALIDATOR.sanity_check c.f_rdh3 = r3 at e3
  generalize hb4 : decide (c.dw > 1) = b4
  generalize hb5 : decide (c.data_format > 2) = b5
  obtain ⟨r0, v0⟩ := p0
  simp only at e0 ev
  subst ev
  simp only [RdhCruSanityValidator.sanity_check, mkValidator, RdhCru.rdh0, RdhCru.rdh1, RdhCru.rdh2, RdhCru.rdh3, hp0, hr1, hr2, hr3, hb4, hb5]
  rcases r0 with _ | s0 <;> rcases r1 with _ | s1 <;> rcases r2 with _ | s2 <;> rcases r3 with _ | s3 <;>
    cases b4 <;> cases b5 <;> simp_all [Rs.Str.app, Rs.Str.lit, Rs.Str.empty, Rs.Res.isErr, Rs.Res.errStr]

/-- **source = model on bytes**: for every 64-byte (or any) string, every learnt / configured header id and either system-id
    setting, the source's `sanity_check` on the source's own loader result fails exactly when `rdhSanityBad` says so on
    `decodeRdh`; the message then starts with `[E10]`; the validator afterwards expects the header id it has learnt -/
theorem sanity_check_bytes (hid sys : Option Nat) (bs : Bytes) : ∃ c, loadRdh bs = .ok c ∧ toModel c = decodeRdh bs ∧
    (RdhCruSanityValidator.sanity_check (mkValidator hid sys) c).1.isErr =
        rdhSanityBad (hid.getD (decodeRdh bs).headerId) sys (decodeRdh bs) ∧
    ((RdhCruSanityValidator.sanity_check (mkValidator hid sys) c).1.isErr = true →
        ∃ cs, (RdhCruSanityValidator.sanity_check (mkValidator hid sys) c).1.errStr.codes = 10 :: cs) ∧
    (RdhCruSanityValidator.sanity_check (mkValidator hid sys) c).2 = mkValidator (some (hid.getD (decodeRdh bs).headerId)) sys := by
  obtain ⟨c, hc, hm⟩ := load_eq_decode bs
  have hfee : c.f_rdh0.f_fee_id.f_0 < 65536 := by
    have : c.f_rdh0.f_fee_id.f_0 = (decodeRdh bs).feeId := by rw [← hm]; rfl
    rw [this]; exact leField_lt bs 2 2
  have hcd : c.f_cruid_dw.f_0 < 65536 := by
    have : c.f_cruid_dw.f_0 = (decodeRdh bs).cruidDw := by rw [← hm]; rfl
    rw [this]; exact leField_lt bs 14 2
  have hh : c.f_rdh0.f_header_id = (decodeRdh bs).headerId := by rw [← hm]; rfl
  have := sanity_check_c hid sys c hfee hcd
  rw [hm, hh] at this
  exact ⟨c, hc, hm, this⟩

/-- the accessors of `RdhCru` the scanner, the filters and the running checks read -/
theorem accessors_eq (c : RdhCru) (hcd : c.f_cruid_dw.f_0 < 65536) :
    c.payload_size = (toModel c).payloadSize ∧ c.cru_id = (toModel c).cruId ∧ c.link_id = (toModel c).linkId ∧
    c.fee_id = (toModel c).feeId ∧ c.version = (toModel c).headerId ∧ c.stop_bit = (toModel c).stopBit ∧
    c.pages_counter = (toModel c).pagesCounter ∧ c.trigger_type = (toModel c).triggerType ∧
    c.offset_to_next = (toModel c).offsetNext ∧ c.dw = (toModel c).dw ∧ c.data_format = (toModel c).dataFormat := by
  refine ⟨?_, ?_, rfl, rfl, rfl, rfl, rfl, rfl, rfl, dw_eq c hcd, data_format_eq c⟩
  · simp only [RdhCru.payload_size, Rdh.payloadSize, toModel]
  · simp only [RdhCru.cru_id, Rdh.cruId, toModel, Rs.and_mask]; omega

theorem fee_fields_eq (fee : Nat) (h : fee < 65536) : layer_from_feeid fee = feeLayer fee ∧ stave_number_from_feeid fee = feeStave fee := by
  simp only [layer_from_feeid, stave_number_from_feeid, feeLayer, feeStave, Rs.and_mask, shr]
  omega


/-- **which validator a command line gets**: `RdhCruSanityValidator::new_from_config` builds the state `mkValidator hid sys` with
    `hid` = the configured `rdh_version` when custom checks are enabled (otherwise learnt from the first header) and
    `sys` = the ITS system id exactly when a target system (`its`, `its-stave`) is given — in every combination of the two -/
theorem new_from_config_eq (cfg : CfgAbs) :
    RdhCruSanityValidator.new_from_config cfg =
      mkValidator (if cfg.customEnabled then cfg.rdhVersion else none) (if cfg.target.isSome then some 32 else none) := by
  obtain ⟨en, tg, rv⟩ := cfg
  cases en <;> cases rv <;> (cases tg with | none => rfl | some t => cases t <;> rfl)

/-! ### `RdhCruRunningChecker` (rdh_running.rs) = `runningStep` -/

/-- abstraction: the source's running-checker state as the model's `RunSt` -/
def runAbs (v : RdhCruRunningChecker) : RunSt :=
  { expectPage := v.f_expect_pages_counter,
    seen := if v.f_first_rdh_cru.isNone then 0 else if v.f_second_rdh_cru.isNone then 1 else 2,
    increment := v.f_expect_pages_counter_increment,
    last := v.f_last_rdh_cru.map toModel }

/-- states the source can be in: the second header is stored only after the first -/
def RunWf (v : RdhCruRunningChecker) : Prop := v.f_first_rdh_cru.isNone = true → v.f_second_rdh_cru.isNone = true

theorem run_new : runAbs RdhCruRunningChecker.new = {} ∧ RunWf RdhCruRunningChecker.new := by
  constructor
  · rfl
  · intro _; rfl

theorem stop_page_eq (v : RdhCruRunningChecker) (r : Rdh2) :
    let res := RdhCruRunningChecker.check_stop_bit_and_page_counter v r
    res.1.isErr = (if r.f_stop_bit == 0 then r.f_pages_counter != v.f_expect_pages_counter
                   else if r.f_stop_bit == 1 then r.f_pages_counter != v.f_expect_pages_counter else true) ∧
    res.1.errStr.nonEmpty = res.1.isErr ∧
    res.2 = { v with f_expect_pages_counter :=
                if r.f_stop_bit == 0 then (v.f_expect_pages_counter + v.f_expect_pages_counter_increment) % 65536
                else if r.f_stop_bit == 1 then 0 else v.f_expect_pages_counter } := by
  simp only [RdhCruRunningChecker.check_stop_bit_and_page_counter]
  by_cases h0 : (r.f_stop_bit == 0) = true
  · by_cases hp : (r.f_pages_counter != v.f_expect_pages_counter) = true <;> simp [h0, hp, Rs.Str.app, Rs.Str.lit, Rs.Str.empty, Rs.Res.isErr, Rs.Res.errStr]
  · by_cases h1 : (r.f_stop_bit == 1) = true
    · by_cases hp : (r.f_pages_counter != v.f_expect_pages_counter) = true <;> simp [h0, h1, hp, Rs.Str.app, Rs.Str.lit, Rs.Str.empty, Rs.Res.isErr, Rs.Res.errStr]
    · simp [h0, h1, Rs.Str.app, Rs.Str.lit, Rs.Str.empty, Rs.Res.isErr, Rs.Res.errStr]

theorem orbit_change_eq (v : RdhCruRunningChecker) (r : Rdh1) :
    let res := RdhCruRunningChecker.check_orbit_counter_changes v r
    res.isErr = (match v.f_last_rdh_cru with | some l => l.f_rdh2.f_stop_bit == 1 && l.f_rdh1.f_orbit == r.f_orbit | none => false) ∧
    res.errStr.nonEmpty = res.isErr := by
  simp only [RdhCruRunningChecker.check_orbit_counter_changes, RdhCru.stop_bit, RdhCru.rdh1]
  cases v.f_last_rdh_cru with
  | none => simp [Rs.Res.isErr, Rs.Res.errStr]
  | some l =>
    by_cases h : (l.f_rdh2.f_stop_bit == 1 && l.f_rdh1.f_orbit == r.f_orbit) = true <;>
      simp [h, Rs.Res.isErr, Rs.Res.errStr, Rs.Str.lit]

theorem same_hbf_eq (v : RdhCruRunningChecker) (c : RdhCru) :
    let res := RdhCruRunningChecker.check_orbit_trigger_det_field_feeid_same_when_page_not_0 v c
    res.isErr = (c.f_rdh2.f_pages_counter != 0 && (match v.f_last_rdh_cru with
      | some l => c.f_rdh1.f_orbit != l.f_rdh1.f_orbit || c.f_rdh2.f_trigger_type != l.f_rdh2.f_trigger_type ||
                  c.f_rdh0.f_fee_id.f_0 != l.f_rdh0.f_fee_id.f_0
      | none => false)) ∧
    res.errStr.nonEmpty = res.isErr := by
  simp only [RdhCruRunningChecker.check_orbit_trigger_det_field_feeid_same_when_page_not_0, RdhCru.pages_counter, RdhCru.rdh1,
    RdhCru.rdh2, RdhCru.fee_id]
  by_cases hp : (c.f_rdh2.f_pages_counter != 0) = true
  · cases hl : v.f_last_rdh_cru with
    | none => simp [hp, hl, Rs.Res.isErr, Rs.Res.errStr, Rs.Str.empty]
    | some l =>
      by_cases h1 : (c.f_rdh1.f_orbit != l.f_rdh1.f_orbit) = true <;>
      by_cases h2 : (c.f_rdh2.f_trigger_type != l.f_rdh2.f_trigger_type) = true <;>
      by_cases h3 : (c.f_rdh0.f_fee_id.f_0 != l.f_rdh0.f_fee_id.f_0) = true <;>
      simp [hp, hl, h1, h2, h3, Rs.unwrapD, Rs.Res.isErr, Rs.Res.errStr, Rs.Str.empty, Rs.Str.app, Rs.Str.lit]
  · simp [hp, Rs.Res.isErr, Rs.Res.errStr, Rs.Str.empty]

/-- the part of `check` after the first/second-header bookkeeping, for an arbitrary intermediate result -/
theorem check_tail (c : RdhCru) (p0 : Rs.Res Unit × RdhCruRunningChecker) (r1 r2 : Rs.Res Unit)
    (out : Rs.Res Unit × RdhCruRunningChecker)
    (e0 : p0.1.errStr.nonEmpty = p0.1.isErr) (e1 : r1.errStr.nonEmpty = r1.isErr) (e2 : r2.errStr.nonEmpty = r2.isErr)
    (hout : out =
      (let err0 := if p0.1.isErr then Rs.Str.empty.app p0.1.errStr else Rs.Str.empty
       let err1 := if r1.isErr then err0.app r1.errStr else err0
       let err2 := if r2.isErr then err1.app r2.errStr else err1
       if (!(!err2.nonEmpty)) then (Rs.Res.err ((Rs.Str.lit true [11]).app err2), { p0.2 with f_last_rdh_cru := some c })
       else (Rs.Res.ok (), { p0.2 with f_last_rdh_cru := some c }))) :
    out.1.isErr = (p0.1.isErr || r1.isErr || r2.isErr) ∧ (out.1.isErr = true → ∃ cs, out.1.errStr.codes = 11 :: cs) ∧
    out.2 = { p0.2 with f_last_rdh_cru := some c } := by
  subst hout
  obtain ⟨r0, v0⟩ := p0
  rcases r0 with _ | s0 <;> rcases r1 with _ | s1 <;> rcases r2 with _ | s2 <;>
    simp_all [Rs.Str.app, Rs.Str.lit, Rs.Str.empty, Rs.Res.isErr, Rs.Res.errStr]

theorem running_check_eq (v : RdhCruRunningChecker) (c : RdhCru) (hw : RunWf v) :
    runAbs (RdhCruRunningChecker.check v c).2 = (runningStep (runAbs v) (toModel c)).1 ∧
    RunWf (RdhCruRunningChecker.check v c).2 ∧
    (RdhCruRunningChecker.check v c).1.isErr = (runningStep (runAbs v) (toModel c)).2 ∧
    ((RdhCruRunningChecker.check v c).1.isErr = true → ∃ cs, (RdhCruRunningChecker.check v c).1.errStr.codes = 11 :: cs) := by
  -- the state after the first/second-header bookkeeping
  obtain ⟨v1, hv1, hseen, hinc, hexp, hlast, hwf1⟩ : ∃ v1 : RdhCruRunningChecker,
      (RdhCruRunningChecker.check v c) =
        (let p0 := RdhCruRunningChecker.check_stop_bit_and_page_counter v1 c.f_rdh2
         let r1 := RdhCruRunningChecker.check_orbit_counter_changes p0.2 c.f_rdh1
         let r2 := RdhCruRunningChecker.check_orbit_trigger_det_field_feeid_same_when_page_not_0 p0.2 c
         let err0 := if p0.1.isErr then Rs.Str.empty.app p0.1.errStr else Rs.Str.empty
         let err1 := if r1.isErr then err0.app r1.errStr else err0
         let err2 := if r2.isErr then err1.app r2.errStr else err1
         if (!(!err2.nonEmpty)) then (Rs.Res.err ((Rs.Str.lit true [11]).app err2), { p0.2 with f_last_rdh_cru := some c })
         else (Rs.Res.ok (), { p0.2 with f_last_rdh_cru := some c })) ∧
      (if v1.f_first_rdh_cru.isNone then 0 else if v1.f_second_rdh_cru.isNone then 1 else 2) =
        (if (runAbs v).seen < 2 then (runAbs v).seen + 1 else 2) ∧
      v1.f_expect_pages_counter_increment = (if (runAbs v).seen == 1 then c.f_rdh2.f_pages_counter else v.f_expect_pages_counter_increment) ∧
      v1.f_expect_pages_counter = v.f_expect_pages_counter ∧ v1.f_last_rdh_cru = v.f_last_rdh_cru ∧ RunWf v1 := by
    rcases hf : v.f_first_rdh_cru with _ | f
    · have hs : v.f_second_rdh_cru.isNone = true := hw (by simp [hf])
      refine ⟨{ v with f_first_rdh_cru := some c }, ?_, ?_, ?_, rfl, rfl, ?_⟩
      · simp only [RdhCruRunningChecker.check, hf, Option.isNone_none, if_true, RdhCru.rdh2, RdhCru.rdh1]
      · simp [runAbs, hf, hs]
      · simp [runAbs, hf]
      · intro h; simp at h
    · rcases hs : v.f_second_rdh_cru with _ | s2
      · refine ⟨{ v with f_second_rdh_cru := some c, f_expect_pages_counter_increment := c.f_rdh2.f_pages_counter }, ?_, ?_, ?_, rfl, rfl, ?_⟩
        · simp only [RdhCruRunningChecker.check, hf, hs, Option.isNone_none, Option.isNone_some, if_true, if_false, Bool.false_eq_true,
            RdhCru.rdh2, RdhCru.rdh1, Rs.unwrapD, Option.getD_some]
        · simp [runAbs, hf, hs]
        · simp [runAbs, hf, hs]
        · intro h; simp [hf] at h
      · refine ⟨v, ?_, ?_, ?_, rfl, rfl, hw⟩
        · simp only [RdhCruRunningChecker.check, hf, hs, Option.isNone_none, Option.isNone_some, if_true, if_false, Bool.false_eq_true,
            RdhCru.rdh2, RdhCru.rdh1]
        · simp [runAbs, hf, hs]
        · simp [runAbs, hf, hs]
  have h0 := stop_page_eq v1 c.f_rdh2
  simp only at h0 hv1
  generalize hp0 : RdhCruRunningChecker.check_stop_bit_and_page_counter v1 c.f_rdh2 = p0 at h0 hv1
  have h1 := orbit_change_eq p0.2 c.f_rdh1
  have h2 := same_hbf_eq p0.2 c
  simp only at h1 h2
  generalize hr1 : RdhCruRunningChecker.check_orbit_counter_changes p0.2 c.f_rdh1 = r1 at h1 hv1
  generalize hr2 : RdhCruRunningChecker.check_orbit_trigger_det_field_feeid_same_when_page_not_0 p0.2 c = r2 at h2 hv1
  obtain ⟨t1, t2, t3⟩ := check_tail c p0 r1 r2 _ h0.2.1 h1.2 h2.2 hv1
  have hl2 : p0.2.f_last_rdh_cru = v.f_last_rdh_cru := by rw [h0.2.2]; exact hlast
  refine ⟨?_, ?_, ?_, t2⟩
  · rw [t3]
    simp only [runAbs, runningStep, h0.2.2, hseen, hinc, hexp, hlast, toModel, Option.map_some]
    by_cases hs0 : (c.f_rdh2.f_stop_bit == 0) = true <;> by_cases hs1 : (c.f_rdh2.f_stop_bit == 1) = true <;> simp [hs0, hs1]
  · rw [t3]; intro h; simp only [h0.2.2] at h ⊢; exact hwf1 h
  · rw [t1, h0.1, h1.1, h2.1, hl2]
    simp only [runAbs, runningStep, toModel, hexp]
    by_cases hs0 : (c.f_rdh2.f_stop_bit == 0) = true <;> by_cases hs1 : (c.f_rdh2.f_stop_bit == 1) = true <;>
      cases v.f_last_rdh_cru <;> simp [hs0, hs1, toModel]

end SrcTie
end FastPasta
