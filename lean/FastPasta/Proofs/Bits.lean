/-
  Proofs.Bits — little-endian fields as bit ranges of the whole value.
-/
import FastPasta.Proofs.Basic
namespace FastPasta

theorem leNat_take_drop (bs : Bytes) (i : Nat) (hi : i ≤ bs.length) :
    leNat bs = leNat (bs.take i) + 256 ^ i * leNat (bs.drop i) := by
  have h := leNat_append (bs.take i) (bs.drop i)
  rw [List.take_append_drop] at h
  rw [h, List.length_take, Nat.min_eq_left hi]

/-- a little-endian field of `n` bytes at byte index `i` is the bit range
    `[8i, 8(i+n))` of the little-endian value of the whole string -/
theorem leField_eq (bs : Bytes) (i n : Nat) (h : i + n ≤ bs.length) :
    leField bs i n = leNat bs / 256 ^ i % 256 ^ n := by
  unfold leField slice
  have h1 := leNat_take_drop bs i (by omega)
  have h2 := leNat_take_drop (bs.drop i) n (by simp only [List.length_drop]; omega)
  have hA := leNat_lt (bs.take i)
  have hF := leNat_lt ((bs.drop i).take n)
  rw [List.length_take, Nat.min_eq_left (by omega)] at hA
  rw [List.length_take, List.length_drop, Nat.min_eq_left (by omega)] at hF
  have hp : 0 < 256 ^ i := Nat.pow_pos (by omega)
  have hq : 0 < 256 ^ n := Nat.pow_pos (by omega)
  rw [h1, Nat.add_comm, Nat.mul_add_div hp, Nat.div_eq_of_lt hA, Nat.add_zero, h2,
    Nat.add_mul_mod_self_left, Nat.mod_eq_of_lt hF]

end FastPasta
