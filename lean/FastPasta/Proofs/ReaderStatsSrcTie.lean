/-
  Proofs.ReaderStatsSrcTie — the reader's statistics bookkeeping (`alice_protocol_reader/src/stats.rs` → `Spec/ReaderStatsSrcGen.lean`,
  translated on every run; the channel is a value): nothing is lost between the accumulators and the messages.
    * `try_add_link` / `try_add_fee_id` = the first-occurrence lists and announcements of `ScanSt.seeRdh` / `ScanSt.seeMsgs`;
    * for each of the three counters, (sum of the values already sent) + (accumulator) grows by exactly what is added — also across
      the `u32` boundary (F14: the payload sum used to wrap);
    * `flush_stats` sends the three accumulators.
-/
import FastPasta.Spec.ReaderStatsSrcGen
import FastPasta.Model.Scanner
namespace FastPasta
namespace SrcTie
open SrcReaderStats

/-- sum of the values sent so far under one kind -/
def sent (kind : String) (out : List Rs.Stat) : Nat := ((out.filter (·.kind == kind)).map (·.val)).sum

theorem sent_append (k : String) (a b : List Rs.Stat) : sent k (a ++ b) = sent k a + sent k b := by
  simp [sent, List.filter_append, List.map_append, List.sum_append]

theorem try_add_link_eq (st : Stats) (l : Nat) :
    (st.try_add_link l).2.f_unique_links_observed =
      (if st.f_unique_links_observed.contains l then st.f_unique_links_observed else st.f_unique_links_observed ++ [l]) ∧
    (st.try_add_link l).2.f_out = st.f_out ++ (if st.f_unique_links_observed.contains l then [] else [Rs.Stat.mk "LinksObserved" l]) ∧
    (st.try_add_link l).2.f_unique_feeids_observed = st.f_unique_feeids_observed ∧
    (st.try_add_link l).2.f_rdhs_seen = st.f_rdhs_seen ∧ (st.try_add_link l).2.f_rdhs_filtered = st.f_rdhs_filtered ∧
    (st.try_add_link l).2.f_payload_size_seen = st.f_payload_size_seen := by
  unfold Stats.try_add_link
  cases h : st.f_unique_links_observed.contains l <;> simp [h]

theorem try_add_fee_id_eq (st : Stats) (f : Nat) :
    (st.try_add_fee_id f).2.f_unique_feeids_observed =
      (if st.f_unique_feeids_observed.contains f then st.f_unique_feeids_observed else st.f_unique_feeids_observed ++ [f]) ∧
    (st.try_add_fee_id f).2.f_out = st.f_out ++ (if st.f_unique_feeids_observed.contains f then [] else [Rs.Stat.mk "FeeId" f]) ∧
    (st.try_add_fee_id f).2.f_unique_links_observed = st.f_unique_links_observed ∧
    (st.try_add_fee_id f).2.f_rdhs_seen = st.f_rdhs_seen ∧ (st.try_add_fee_id f).2.f_rdhs_filtered = st.f_rdhs_filtered ∧
    (st.try_add_fee_id f).2.f_payload_size_seen = st.f_payload_size_seen := by
  unfold Stats.try_add_fee_id
  cases h : st.f_unique_feeids_observed.contains f <;> simp [h]

/-- **the payload sum is never lost** (F14): sent + accumulated grows by exactly the payload size, whatever the accumulator holds -/
theorem add_payload_size_sum (st : Stats) (n : Nat) (hacc : st.f_payload_size_seen < 2^32) (hn : n < 2^32) :
    sent "PayloadSize" (st.add_payload_size n).2.f_out + (st.add_payload_size n).2.f_payload_size_seen =
      sent "PayloadSize" st.f_out + st.f_payload_size_seen + n ∧
    (st.add_payload_size n).2.f_payload_size_seen < 2^32 := by
  unfold Stats.add_payload_size
  by_cases h : st.f_payload_size_seen + n < 2^32
  · simp [h, Rs.unwrapD]; omega
  · simp [h, sent_append, sent]; omega

theorem rdh_seen_sum (st : Stats) (hacc : st.f_rdhs_seen < 2^32 - 1) :
    sent "RDHSeen" (st.rdh_seen).2.f_out + (st.rdh_seen).2.f_rdhs_seen = sent "RDHSeen" st.f_out + st.f_rdhs_seen + 1 ∧
    (st.rdh_seen).2.f_rdhs_seen < 2^32 - 1 := by
  unfold Stats.rdh_seen
  have e : (st.f_rdhs_seen + 1) % 2^32 = st.f_rdhs_seen + 1 := Nat.mod_eq_of_lt (by omega)
  by_cases h : st.f_rdhs_seen = 4294967294
  · simp [h, sent_append, sent]
  · have h' : ¬ (st.f_rdhs_seen + 1 = 4294967295) := by omega
    simp only [e, beq_iff_eq, h', if_false]; omega

theorem rdh_filtered_sum (st : Stats) (hacc : st.f_rdhs_filtered < 2^32 - 1) :
    sent "RDHFiltered" (st.rdh_filtered).2.f_out + (st.rdh_filtered).2.f_rdhs_filtered =
      sent "RDHFiltered" st.f_out + st.f_rdhs_filtered + 1 ∧
    (st.rdh_filtered).2.f_rdhs_filtered < 2^32 - 1 := by
  unfold Stats.rdh_filtered
  have e : (st.f_rdhs_filtered + 1) % 2^32 = st.f_rdhs_filtered + 1 := Nat.mod_eq_of_lt (by omega)
  by_cases h : st.f_rdhs_filtered = 4294967294
  · simp [h, sent_append, sent]
  · have h' : ¬ (st.f_rdhs_filtered + 1 = 4294967295) := by omega
    simp only [e, beq_iff_eq, h', if_false]; omega

/-- `flush_stats` sends the three accumulators, in the order seen / filtered / payload -/
theorem flush_stats_eq (st : Stats) :
    (st.flush_stats).2.f_out = st.f_out ++ [Rs.Stat.mk "RDHSeen" st.f_rdhs_seen, Rs.Stat.mk "RDHFiltered" st.f_rdhs_filtered,
      Rs.Stat.mk "PayloadSize" st.f_payload_size_seen] := by
  simp [Stats.flush_stats]

end SrcTie
end FastPasta
