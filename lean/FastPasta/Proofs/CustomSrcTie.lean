/-
  Proofs.CustomSrcTie — the statistics-level custom checks of the model (`customStatErrors`, Model/Collector.lean) ARE the source's
  `validate_custom_stats` (stats/stats_validation.rs → `Spec/CustomSrcGen.lean`, translated on every run): `[E9001]` iff a CDP count is
  configured and differs from the RDHs seen, `[E9002]` iff a PhT trigger count is configured and differs from the counted PhT triggers,
  in this order.
-/
import FastPasta.Spec.CustomSrcGen
import FastPasta.Model.Collector
namespace FastPasta
namespace SrcTie
open SrcCustom

def custCode : Nat → String
  | 9001 => "E9001" | 9002 => "E9002" | _ => "?"

theorem validate_custom_eq (a : CustomAbs) (r : RdhStats) (c : Coll)
    (h1 : r.f_rdhs_seen = c.rdhsSeen) (h2 : r.f_trigger_stats.f_pht = c.trig 4) :
    (validate_custom_stats a r).errStr.codes.map custCode = customStatErrors a.cdps a.triggersPht c ∧
    ((validate_custom_stats a r).isErr = !(customStatErrors a.cdps a.triggersPht c).isEmpty) := by
  obtain ⟨cd, pt⟩ := a
  simp only [validate_custom_stats, customStatErrors, RdhStats.rdhs_seen, RdhStats.trigger_stats, SrcTrig.TriggerStats.pht, h1, h2]
  cases cd with
  | none =>
    cases pt with
    | none => simp [Rs.Res.errStr, Rs.Res.isErr]
    | some p => by_cases hp : c.trig 4 = p <;> simp [hp, Rs.unwrapD, Rs.Res.errStr, Rs.Res.isErr, Rs.Str.app, Rs.Str.lit, Rs.Str.empty, custCode]
  | some n =>
    cases pt with
    | none => by_cases hn : c.rdhsSeen = n <;> simp [hn, Rs.unwrapD, Rs.Res.errStr, Rs.Res.isErr, Rs.Str.app, Rs.Str.lit, Rs.Str.empty, custCode]
    | some p =>
      by_cases hn : c.rdhsSeen = n <;> by_cases hp : c.trig 4 = p <;>
        simp [hn, hp, Rs.unwrapD, Rs.Res.errStr, Rs.Res.isErr, Rs.Str.app, Rs.Str.lit, Rs.Str.empty, custCode]

end SrcTie
end FastPasta
