/-
  Proofs.LinkSrcTie — the per-word handlers of the link validator (`CdpRunningValidator`, cdp_running.rs) ARE the model's
  (`Model/Cdp.lean`): `preprocess_ihw` = `preIhw`, `preprocess_ddw0` (+ `check_rdh_at_ddw0`) = `preDdw0`, `process_cdw` = the CDW
  branch of `preData`, and the four state-dependent check methods report exactly the model's messages, each at the tracker's current
  word position and quoting the word. Source side: `Spec/LinkSrcGen.lean`, translated on every run by tools/rs2lean.py
  (`rsspec/linkval.json`); the error channel is a value (`f_out : List Rs.Report`, see the `rewrites` / `inject` of the spec).
-/
import FastPasta.Spec.LinkSrcGen
import FastPasta.Proofs.StateSrcTie
import FastPasta.Proofs.FsmSrcTie
namespace FastPasta
namespace SrcTie
open SrcState SrcLink
set_option linter.unusedSimpArgs false

def ihwOf (w : Bytes) : SrcWords.Ihw := (SrcWords.Ihw.from_buf w).unwrapD
def ddw0Of (w : Bytes) : SrcWords.Ddw0 := (SrcWords.Ddw0.from_buf w).unwrapD
def cdwOf (w : Bytes) : SrcWords.Cdw := (SrcWords.Cdw.from_buf w).unwrapD
def tdtOf (w : Bytes) : SrcWords.Tdt := (SrcWords.Tdt.from_buf w).unwrapD

/-- the messages one `report_error` call stands for -/
def reportMsgs (r : Rs.Report) : List Msg :=
  if r.each then r.msg.codes.map (fun k => Msg.error { offset := r.pos, code := codeStr k, word := if r.quoted then some r.word else none })
  else [Msg.error { offset := r.pos, code := codeStr (r.msg.codes.headD 0), word := if r.quoted then some r.word else none }]

def outMsgs (out : List Rs.Report) : List Msg := out.flatMap reportMsgs

theorem outMsgs_append (a b : List Rs.Report) : outMsgs (a ++ b) = outMsgs a ++ outMsgs b := by
  simp [outMsgs]

/-- abstraction: the source validator `v` (projected to the fields the translated handlers use) stands for the model state `s`
    under configuration `cfg`, `c` being the source's copy of the current header -/
structure Abs (cfg : CheckCfg) (v : CdpRunningValidator) (s : CdpSt) (c : SrcRdh.RdhCru) : Prop where
  running : v.f_running_checks_enabled = cfg.running
  period : v.f_trigger_period = cfg.triggerPeriod
  sod : v.f_tracker.f_is_start_of_data = s.startOfData
  pos : v.f_tracker.current_word_mem_pos = s.wordPos
  rdhv : v.f_rdh_validator = ItsRdhValidator.new c
  rdh : toModel c = s.rdh
  ihw : v.f_status_words.f_ihw = s.ihw.map ihwOf
  tdhs : v.f_status_words.f_tdhs = bufOf s.tdh s.prevTdh s.prevInternalTdh
  tdt : v.f_status_words.f_tdt = s.tdt.map tdtOf
  ddw0 : v.f_status_words.f_ddw0 = s.ddw0.map ddw0Of
  cdw : v.f_status_words.f_cdw = s.cdw.map cdwOf

/-- `preprocess_ihw` = `preIhw` -/
theorem preprocess_ihw_eq (cfg : CheckCfg) (v : CdpRunningValidator) (s : CdpSt) (c : SrcRdh.RdhCru) (w : Bytes)
    (h : Abs cfg v s c) :
    Abs cfg (v.preprocess_ihw w).2 (preIhw s w).1 c ∧
    outMsgs (v.preprocess_ihw w).2.f_out = outMsgs v.f_out ++ (preIhw s w).2 := by
  obtain ⟨t, ht, hs⟩ := ihw_sane_eq w
  have ht' : SrcWords.Ihw.from_buf w = .ok (ihwOf w) := rfl
  rw [ht'] at ht; cases ht
  simp only [CdpRunningValidator.preprocess_ihw, StatusWordContainer.sanity_check_ihw, StatusWordSanityChecker.check_ihw, hs,
    CdpRunningValidator.report_error, StatusWordContainer.replace_ihw, preIhw, ht', Rs.Res.unwrapD_ok]
  by_cases hsane : ihwSane w = true
  · simp only [hsane, Bool.not_true, Bool.false_eq_true, if_false, if_true, List.append_nil]
    exact ⟨⟨h.running, h.period, h.sod, h.pos, h.rdhv, h.rdh, by simp, h.tdhs, h.tdt, h.ddw0, h.cdw⟩, trivial⟩
  · simp only [hsane, Bool.not_false, if_true, if_false]
    refine ⟨⟨h.running, h.period, h.sod, h.pos, h.rdhv, h.rdh, by simp, h.tdhs, h.tdt, h.ddw0, h.cdw⟩, ?_⟩
    simp [outMsgs_append, outMsgs, reportMsgs, mkErr, h.pos, codeStr, Rs.Str.app, Rs.Str.lit]

/-! ### helpers: what a conditional report adds -/
theorem abs_out (cfg : CheckCfg) (v : CdpRunningValidator) (s : CdpSt) (c : SrcRdh.RdhCru) (o : List Rs.Report) (h : Abs cfg v s c) :
    Abs cfg { v with f_out := o } s c := ⟨h.running, h.period, h.sod, h.pos, h.rdhv, h.rdh, h.ihw, h.tdhs, h.tdt, h.ddw0, h.cdw⟩

/-- `if let Err(es) = r { es.into_iter().for_each(|e| self.report_error(e, w)) }`: one message per code of the error, nothing for `Ok` -/
theorem report_each (v : CdpRunningValidator) (r : Rs.Res Unit) (w : Bytes) :
    (if r.isErr then (v.report_errors r.errStr w).2 else v) =
      { v with f_out := v.f_out ++ (if r.isErr then [Rs.Report.mk v.f_tracker.current_word_mem_pos r.errStr w true true] else []) } := by
  cases r <;> simp [CdpRunningValidator.report_errors]

theorem out_each (o : List Rs.Report) (r : Rs.Res Unit) (pos : Nat) (w : Bytes) :
    outMsgs (o ++ (if r.isErr then [Rs.Report.mk pos r.errStr w true true] else [])) =
      outMsgs o ++ r.errStr.codes.map (fun k => Msg.error { offset := pos, code := codeStr k, word := some w }) := by
  cases r <;> simp [outMsgs, reportMsgs]

theorem out_single (o : List Rs.Report) (c : Prop) [Decidable c] (pos : Nat) (m : Rs.Str) (w : Bytes) :
    outMsgs (o ++ (if c then [Rs.Report.mk pos m w false true] else [])) =
      outMsgs o ++ (if c then [Msg.error { offset := pos, code := codeStr (m.codes.headD 0), word := some w }] else []) := by
  split <;> simp [outMsgs, reportMsgs]

theorem ite_pair_snd {α} (c : Prop) [Decidable c] (a b : α) : (if c then ((), a) else ((), b)).2 = if c then a else b := by
  split <;> rfl

theorem ite_with_out (v : CdpRunningValidator) (c : Prop) [Decidable c] (l : List Rs.Report) :
    (if c then { v with f_out := v.f_out ++ l } else v) = { v with f_out := v.f_out ++ (if c then l else []) } := by
  split <;> simp

theorem check_rdh_at_ddw0_eq (v : CdpRunningValidator) (w : Bytes) :
    (v.check_rdh_at_ddw0 w).2 = { v with f_out := v.f_out ++
      (if v.f_rdh_validator.check_at_ddw0.isErr then [Rs.Report.mk v.f_tracker.current_word_mem_pos v.f_rdh_validator.check_at_ddw0.errStr w true true] else []) } := by
  simp only [CdpRunningValidator.check_rdh_at_ddw0, ite_pair_snd, report_each]

/-- `preprocess_ddw0` (with `check_rdh_at_ddw0`) = `preDdw0` -/
theorem preprocess_ddw0_eq (cfg : CheckCfg) (v : CdpRunningValidator) (s : CdpSt) (c : SrcRdh.RdhCru) (w : Bytes)
    (h : Abs cfg v s c) :
    Abs cfg (v.preprocess_ddw0 w).2 (preDdw0 cfg s w).1 c ∧
    outMsgs (v.preprocess_ddw0 w).2.f_out = outMsgs v.f_out ++ (preDdw0 cfg s w).2 := by
  obtain ⟨t, ht, hs⟩ := ddw0_sane_eq w
  have ht' : SrcWords.Ddw0.from_buf w = .ok (ddw0Of w) := rfl
  rw [ht'] at ht; cases ht
  have hr := ddw0_rdh_eq s w c h.rdh
  have hrun := h.running
  have hpos := h.pos
  have hrv := h.rdhv
  simp only [CdpRunningValidator.preprocess_ddw0, check_rdh_at_ddw0_eq, StatusWordContainer.sanity_check_ddw0,
    StatusWordSanityChecker.check_ddw0, hs, CdpRunningValidator.report_error, StatusWordContainer.replace_ddw, preDdw0, ht',
    Rs.Res.unwrapD_ok, hr, ite_with_out]
  refine ⟨⟨?_, ?_, ?_, ?_, ?_, h.rdh, ?_, ?_, ?_, ?_, ?_⟩, ?_⟩
  · split <;> simp [hrun]
  · split <;> simp [h.period]
  · split <;> simp [h.sod]
  · split <;> simp [hpos, CdpSt.wordPos]
  · split <;> simp [hrv]
  · split <;> simp [h.ihw]
  · split <;> simp [h.tdhs]
  · split <;> simp [h.tdt]
  · split <;> simp
  · split <;> simp [h.cdw]
  · rw [hrun, hrv, hpos]
    by_cases hR : cfg.running = true
    · simp only [hR, if_true, Bool.not_true, Bool.false_eq_true, if_false]
      rw [out_each, out_single]
      by_cases hsane : ddw0Sane w = true <;> simp [hsane, mkErr, codeStr, Rs.Str.app, Rs.Str.lit]
    · simp only [hR, if_false, Bool.not_false, if_true, Bool.not_eq_true] at hR ⊢
      simp only [hR, Bool.false_eq_true, if_false, Bool.not_false, if_true, List.append_nil]
      rw [out_single]
      by_cases hsane : ddw0Sane w = true <;> simp [hsane, mkErr, codeStr, Rs.Str.app, Rs.Str.lit]

/-! ### the four state-dependent check methods: state untouched, exactly the model's messages -/
theorem check_rdh_at_initial_ihw_eq (cfg : CheckCfg) (v : CdpRunningValidator) (s : CdpSt) (c : SrcRdh.RdhCru) (w : Bytes)
    (h : Abs cfg v s c) :
    Abs cfg (v.check_rdh_at_initial_ihw w).2 s c ∧
    outMsgs (v.check_rdh_at_initial_ihw w).2.f_out = outMsgs v.f_out ++ (if s.rdh.stopBit != 0 then [mkErr s "E12" w] else []) := by
  simp only [CdpRunningValidator.check_rdh_at_initial_ihw, ite_pair_snd, report_each]
  refine ⟨abs_out cfg v s c _ h, ?_⟩
  simp only [out_each, h.rdhv, h.pos, ihw_rdh_eq s w c h.rdh]
  rfl

theorem check_tdh_no_continuation_eq (cfg : CheckCfg) (v : CdpRunningValidator) (s : CdpSt) (c : SrcRdh.RdhCru) (w : Bytes)
    (h : Abs cfg v s c) (hcur : s.tdh = some w) :
    Abs cfg (v.check_tdh_no_continuation w).2 s c ∧
    outMsgs (v.check_tdh_no_continuation w).2.f_out = outMsgs v.f_out ++ tdhNoContinuationChecks s w := by
  simp only [CdpRunningValidator.check_tdh_no_continuation, ite_pair_snd, report_each]
  refine ⟨abs_out cfg v s c _ h, ?_⟩
  have e1 : Rs.unwrapD (StatusWordContainer.tdh v.f_status_words) = tdhOf w := by
    simp [StatusWordContainer.tdh, TdhBuffer.current_tdh, h.tdhs, bufOf, hcur, Rs.unwrapD]
  have e2 : ItsRdhValidator.rdh v.f_rdh_validator = c := by simp [h.rdhv, ItsRdhValidator.rdh, ItsRdhValidator.new, Rs.unwrapD]
  simp only [out_each, e1, e2, h.pos, no_continuation_eq s w c h.rdh]
  rfl

theorem check_tdh_continuation_eq (cfg : CheckCfg) (v : CdpRunningValidator) (s : CdpSt) (c : SrcRdh.RdhCru) (w : Bytes)
    (h : Abs cfg v s c) (hcur : s.tdh = some w) :
    Abs cfg (v.check_tdh_continuation w).2 s c ∧
    outMsgs (v.check_tdh_continuation w).2.f_out = outMsgs v.f_out ++ tdhContinuationChecks s w := by
  simp only [CdpRunningValidator.check_tdh_continuation, ite_pair_snd, report_each]
  refine ⟨abs_out cfg v s c _ h, ?_⟩
  have e1 : Rs.unwrapD (StatusWordContainer.tdh v.f_status_words) = tdhOf w := by
    simp [StatusWordContainer.tdh, TdhBuffer.current_tdh, h.tdhs, bufOf, hcur, Rs.unwrapD]
  have e2 : StatusWordContainer.prv_tdh v.f_status_words = s.prevTdh.map tdhOf := by
    simp [StatusWordContainer.prv_tdh, TdhBuffer.previous_tdh, h.tdhs, bufOf]
  simp only [out_each, e1, e2, h.pos, continuation_eq s w]
  rfl

theorem check_tdh_after_packet_done_eq (cfg : CheckCfg) (v : CdpRunningValidator) (s : CdpSt) (c : SrcRdh.RdhCru) (w : Bytes)
    (h : Abs cfg v s c) (hcur : s.tdh = some w) :
    Abs cfg (v.check_tdh_by_was_tdt_packet_done_true w).2 s c ∧
    outMsgs (v.check_tdh_by_was_tdt_packet_done_true w).2.f_out = outMsgs v.f_out ++
      (match s.prevTdh with | some prev => if tdhBc prev > tdhBc w then [mkErr s "E440" w] else [] | none => []) := by
  cases hp : s.prevTdh with
  | none =>
    have hd := after_packet_done_eq (some w) none s.prevInternalTdh w rfl v.f_status_words (by rw [h.tdhs, hcur, hp])
    simp only [CdpRunningValidator.check_tdh_by_was_tdt_packet_done_true, ite_pair_snd, CdpRunningValidator.report_error, ite_with_out, hd]
    exact ⟨abs_out cfg v s c _ h, by simp⟩
  | some prev =>
    have hd := after_packet_done_eq (some w) (some prev) s.prevInternalTdh w rfl v.f_status_words (by rw [h.tdhs, hcur, hp])
    simp only [CdpRunningValidator.check_tdh_by_was_tdt_packet_done_true, ite_pair_snd, CdpRunningValidator.report_error, ite_with_out, hd]
    refine ⟨abs_out cfg v s c _ h, ?_⟩
    rw [out_single, h.pos]
    by_cases hb : tdhBc prev > tdhBc w <;> simp [hb, mkErr, codeStr, Rs.Str.lit]

/-! ### `process_cdw` = the calibration-word branch of `preData` -/
/-- the model's calibration-word step without the tracker flag (`set_data_seen` is done by the caller `preprocess_data_word`) -/
def cdwStep (cfg : CheckCfg) (s : CdpSt) (w : Bytes) : CdpSt × List Msg :=
  if !cfg.running then (s, []) else
  ({ s with cdw := some w },
   if (match s.cdw with | some prev => cdwUserFields prev != cdwUserFields w && cdwIndex w != 0 | none => false)
   then [mkErr s "E81" w] else [])

theorem preData_cdw (cfg : CheckCfg) (s : CdpSt) (w : Bytes) (h : (s.startOfData && wordId w == ID_CDW) = true) :
    preData cfg s w = .ok ({ (cdwStep cfg s w).1 with startOfData := false }, (cdwStep cfg s w).2) := by
  unfold preData cdwStep
  simp only [h, if_true]
  cases hr : cfg.running <;> rfl

theorem process_cdw_eq (cfg : CheckCfg) (v : CdpRunningValidator) (s : CdpSt) (c : SrcRdh.RdhCru) (w : Bytes)
    (h : Abs cfg v s c) :
    Abs cfg (v.process_cdw w).2 (cdwStep cfg s w).1 c ∧
    outMsgs (v.process_cdw w).2.f_out = outMsgs v.f_out ++ (cdwStep cfg s w).2 := by
  have ht' : SrcWords.Cdw.from_buf w = .ok (cdwOf w) := rfl
  obtain ⟨t, ht, hu, hi⟩ := cdw_fields_eq w
  rw [ht'] at ht; cases ht
  have hrun := h.running
  unfold cdwStep
  by_cases hR : cfg.running = true
  · have hv : v.f_running_checks_enabled = true := by rw [hrun, hR]
    have hcdw : StatusWordContainer.cdw v.f_status_words = s.cdw.map cdwOf := by simp [StatusWordContainer.cdw, h.cdw]
    unfold CdpRunningValidator.process_cdw
    rw [if_neg (show ¬ ((!v.f_running_checks_enabled) = true) by rw [hv]; decide)]
    simp only [hR, Bool.not_true, Bool.false_eq_true, if_false, ht', Rs.Res.unwrapD_ok,
      CdpRunningValidator.report_error, StatusWordContainer.replace_cdw, ite_with_out, hcdw]
    cases hc : s.cdw with
    | none =>
      simp only [Option.map_none, Bool.false_eq_true, if_false, List.append_nil]
      exact ⟨⟨hrun, by simp [h.period], by simp [h.sod], by simp [h.pos, CdpSt.wordPos], by simp [h.rdhv], h.rdh, by simp [h.ihw], by simp [h.tdhs], by simp [h.tdt],
        by simp [h.ddw0], by simp⟩, trivial⟩
    | some prev =>
      obtain ⟨t', ht2, hu', _⟩ := cdw_fields_eq prev
      have hp' : SrcWords.Cdw.from_buf prev = .ok (cdwOf prev) := rfl
      rw [hp'] at ht2; cases ht2
      simp only [Option.map_some, hu, hi, hu']
      refine ⟨⟨hrun, by simp [h.period], by simp [h.sod], by simp [h.pos, CdpSt.wordPos], by simp [h.rdhv], h.rdh, by simp [h.ihw], by simp [h.tdhs], by simp [h.tdt],
        by simp [h.ddw0], by simp⟩, ?_⟩
      simp only [out_single, h.pos]
      split <;> simp [mkErr, codeStr, Rs.Str.lit]
  · simp only [Bool.not_eq_true] at hR
    simp only [CdpRunningValidator.process_cdw, hrun, hR, Bool.not_false, if_true, List.append_nil]
    exact ⟨h, trivial⟩

/-! ### TDH / TDT / data words, in the configurations without the readout-frame validator (`cfg.stave = false`; the translation of
    these handlers is specialised to `readout_frame_validator = None`, see `none_fields` in rsspec/linkval.json) -/
/-- the state spec re-translates the TDH sanity check (same Rust struct as the state-dependent checks): it is the one of `SrcWords` -/
theorem tdh_sanity_same (t : SrcWords.Tdh) : SrcState.TdhValidator.sanity_check t = SrcWords.TdhValidator.sanity_check t := rfl

theorem preprocess_tdh_eq (cfg : CheckCfg) (v : CdpRunningValidator) (s : CdpSt) (c : SrcRdh.RdhCru) (w : Bytes)
    (h : Abs cfg v s c) (hst : cfg.stave = false) :
    Abs cfg (v.preprocess_tdh w).2 (preTdh cfg s w).1 c ∧
    outMsgs (v.preprocess_tdh w).2.f_out = outMsgs v.f_out ++ (preTdh cfg s w).2 := by
  obtain ⟨t, ht, hs⟩ := tdh_sane_eq w
  rw [tdhOf_from_buf] at ht; cases ht
  have hrep := tdh_replace_eq s w
  simp only [CdpRunningValidator.preprocess_tdh, StatusWordContainer.sanity_check_tdh, StatusWordSanityChecker.check_tdh, tdh_sanity_same, hs,
    CdpRunningValidator.report_error, tdhOf_from_buf, Rs.Res.unwrapD_ok, ite_with_out, preTdh, hst, Bool.false_and,
    Bool.false_eq_true, if_false, (container_replace_tdh _ _).1]
  refine ⟨⟨h.running, h.period, by simp [h.sod, replaceTdh], by simp [h.pos, CdpSt.wordPos, replaceTdh], h.rdhv, by simp [h.rdh, replaceTdh],
    by simp [h.ihw, replaceTdh], ?_, by simp [h.tdt, replaceTdh], by simp [h.ddw0, replaceTdh], by simp [h.cdw, replaceTdh]⟩, ?_⟩
  · simp only [h.tdhs, hrep]
  · rw [out_single, h.pos]
    by_cases hsane : tdhSane w = true <;> simp [hsane, mkErr, codeStr, Rs.Str.app, Rs.Str.lit]

theorem preprocess_tdt_eq (cfg : CheckCfg) (v : CdpRunningValidator) (s : CdpSt) (c : SrcRdh.RdhCru) (w : Bytes)
    (h : Abs cfg v s c) (hst : cfg.stave = false) :
    ∃ s' ms, preTdt cfg s w = .ok (s', ms) ∧ Abs cfg (v.preprocess_tdt w).2 s' c ∧
      outMsgs (v.preprocess_tdt w).2.f_out = outMsgs v.f_out ++ ms := by
  obtain ⟨t, ht, hs⟩ := tdt_sane_eq w
  have ht' : SrcWords.Tdt.from_buf w = .ok (tdtOf w) := rfl
  rw [ht'] at ht; cases ht
  have hpre : preTdt cfg s w = .ok ({ s with tdt := some w }, if tdtSane w then [] else [mkErr s "E50" w]) := by
    simp only [preTdt, hst, Bool.false_and, Bool.false_eq_true, if_false]
  refine ⟨_, _, hpre, ?_, ?_⟩
  · simp only [CdpRunningValidator.preprocess_tdt, StatusWordContainer.sanity_check_tdt, StatusWordSanityChecker.check_tdt, hs,
      CdpRunningValidator.report_error, ht', Rs.Res.unwrapD_ok, ite_with_out, StatusWordContainer.replace_tdt]
    exact ⟨h.running, h.period, h.sod, by simp [h.pos, CdpSt.wordPos], h.rdhv, h.rdh, by simp [h.ihw], by simp [h.tdhs], by simp,
      by simp [h.ddw0], by simp [h.cdw]⟩
  · simp only [CdpRunningValidator.preprocess_tdt, StatusWordContainer.sanity_check_tdt, StatusWordSanityChecker.check_tdt, hs,
      CdpRunningValidator.report_error, ht', Rs.Res.unwrapD_ok, ite_with_out, StatusWordContainer.replace_tdt]
    rw [out_single, h.pos]
    by_cases hsane : tdtSane w = true <;> simp [hsane, mkErr, codeStr, Rs.Str.app, Rs.Str.lit]

/-- `check_tdh_trigger_interval` = `tdhTriggerInterval` ([E45], sent without a word dump) -/
theorem check_tdh_trigger_interval_eq (cfg : CheckCfg) (v : CdpRunningValidator) (s : CdpSt) (c : SrcRdh.RdhCru) (w : Bytes)
    (h : Abs cfg v s c) (hcur : s.tdh.isSome = true ∨ s.prevInternalTdh = none) :
    Abs cfg (v.check_tdh_trigger_interval w).2 s c ∧
    outMsgs (v.check_tdh_trigger_interval w).2.f_out = outMsgs v.f_out ++ tdhTriggerInterval cfg s := by
  have hper := h.period
  have e1 : StatusWordContainer.tdh_previous_with_internal_trg v.f_status_words = s.prevInternalTdh.map tdhOf := by
    simp [StatusWordContainer.tdh_previous_with_internal_trg, TdhBuffer.previous_tdh_with_internal_trg, h.tdhs, bufOf]
  have e2 : StatusWordContainer.tdh v.f_status_words = s.tdh.map tdhOf := by
    simp [StatusWordContainer.tdh, TdhBuffer.current_tdh, h.tdhs, bufOf]
  unfold CdpRunningValidator.check_tdh_trigger_interval tdhTriggerInterval
  rw [hper, e1, e2]
  cases hp : cfg.triggerPeriod with
  | none => exact ⟨by simpa using h, by simp⟩
  | some p =>
    cases hpi : s.prevInternalTdh with
    | none => exact ⟨by simpa using h, by simp⟩
    | some prev =>
      cases hc : s.tdh with
      | none => rw [hc, hpi] at hcur; simp at hcur
      | some cur =>
        obtain ⟨hie, hcode⟩ := trigger_interval_eq cur prev p
        have hint := (tdhOf_fields cur).2.1
        simp only [Option.map_some, Option.isSome_some, if_true, Rs.unwrapD, Option.getD_some, hint, hie,
          CdpRunningValidator.report_noword]
        by_cases hI : tdhInternal cur = 1
        · by_cases hD : (detectedPeriod (tdhBc cur) (tdhBc prev) != p) = true
          · have hcodes := hcode (by rw [hie]; exact hD)
            simp only [hI, beq_self_eq_true, if_true, hD, Bool.and_true]
            refine ⟨abs_out cfg v s c _ h, ?_⟩
            simp [outMsgs_append, outMsgs, reportMsgs, hcodes, mkErrNoWord, codeStr, h.pos]
          · simp only [hI, beq_self_eq_true, if_true, hD, Bool.and_false, Bool.false_eq_true, if_false, List.append_nil]
            exact ⟨h, trivial⟩
        · have : (tdhInternal cur == 1) = false := by simpa using hI
          simp only [this, Bool.false_eq_true, if_false, Bool.false_and, List.append_nil]
          exact ⟨h, trivial⟩

/-! ### data words -/
theorem ib_check_isErr (w : Bytes) (lanes : Nat) :
    (SrcWords.IbDataWordValidator.check w lanes).isErr = !laneActive (ibLane (wordId w)) lanes := by
  simp only [SrcWords.IbDataWordValidator.check, wordId, is_lane_active_eq, ← ib_lane_eq, SrcWords.ib_data_word_id_to_lane]
  split <;> simp_all

theorem ihw_lanes (v : CdpRunningValidator) (s : CdpSt) (ihw : Bytes) (hi : v.f_status_words.f_ihw = s.ihw.map ihwOf) (hs : s.ihw = some ihw) :
    SrcWords.Ihw.active_lanes (Rs.unwrapD (StatusWordContainer.ihw v.f_status_words)) = ihwActiveLanes ihw := by
  obtain ⟨t, ht, hl⟩ := ihw_active_lanes_eq ihw
  have : SrcWords.Ihw.from_buf ihw = .ok (ihwOf ihw) := rfl
  rw [this] at ht; cases ht
  simp [StatusWordContainer.ihw, hi, hs, Rs.unwrapD, hl]

theorem process_ib_eq (cfg : CheckCfg) (v : CdpRunningValidator) (s : CdpSt) (c : SrcRdh.RdhCru) (w ihw : Bytes)
    (h : Abs cfg v s c) (hi : cfg.running = true → s.ihw = some ihw) :
    Abs cfg (v.process_ib_data_word w).2 s c ∧
    outMsgs (v.process_ib_data_word w).2.f_out = outMsgs v.f_out ++
      (if cfg.running then (if laneActive (ibLane (wordId w)) (ihwActiveLanes ihw) then [] else [mkErr s "E72" w]) else []) := by
  by_cases hR : cfg.running = true
  · have hv : v.f_running_checks_enabled = true := by rw [h.running, hR]
    unfold CdpRunningValidator.process_ib_data_word
    rw [if_neg (show ¬ ((!v.f_running_checks_enabled) = true) by rw [hv]; decide)]
    simp only [ihw_lanes v s ihw h.ihw (hi hR), ib_check_isErr, CdpRunningValidator.report_error, ite_with_out, hR, if_true]
    refine ⟨abs_out cfg v s c _ h, ?_⟩
    rw [out_single, h.pos]
    have hc := ib_check_eq w (ihwActiveLanes ihw)
    by_cases ha : laneActive (ibLane (wordId w)) (ihwActiveLanes ihw) = true <;> simp [ha, hc, mkErr, codeStr]
  · simp only [Bool.not_eq_true] at hR
    have hv : v.f_running_checks_enabled = false := by rw [h.running, hR]
    unfold CdpRunningValidator.process_ib_data_word
    rw [if_pos (show ((!v.f_running_checks_enabled) = true) by rw [hv]; decide)]
    simp only [hR, Bool.false_eq_true, if_false, List.append_nil]
    exact ⟨h, trivial⟩

theorem process_ob_eq (cfg : CheckCfg) (v : CdpRunningValidator) (s : CdpSt) (c : SrcRdh.RdhCru) (w ihw : Bytes)
    (h : Abs cfg v s c) (hi : cfg.running = true → s.ihw = some ihw) :
    Abs cfg (v.process_ob_data_word w).2 s c ∧
    outMsgs (v.process_ob_data_word w).2.f_out = outMsgs v.f_out ++
      (if cfg.running then
        (if laneActive (obLane (wordId w)) (ihwActiveLanes ihw) then [] else [mkErr s "E71" w]) ++
        (if obConnectorInput (wordId w) > 6 then [mkErr s "E73" w] else []) else []) := by
  by_cases hR : cfg.running = true
  · have hv : v.f_running_checks_enabled = true := by rw [h.running, hR]
    unfold CdpRunningValidator.process_ob_data_word
    rw [if_neg (show ¬ ((!v.f_running_checks_enabled) = true) by rw [hv]; decide)]
    simp only [ihw_lanes v s ihw h.ihw (hi hR), report_each, hR, if_true]
    refine ⟨abs_out cfg v s c _ h, ?_⟩
    rw [out_each, h.pos, ob_check_eq]
    by_cases ha : laneActive (obLane (wordId w)) (ihwActiveLanes ihw) = true <;> by_cases hb : obConnectorInput (wordId w) > 6 <;>
      simp [ha, hb, mkErr, codeStr]
  · simp only [Bool.not_eq_true] at hR
    have hv : v.f_running_checks_enabled = false := by rw [h.running, hR]
    unfold CdpRunningValidator.process_ob_data_word
    rw [if_pos (show ((!v.f_running_checks_enabled) = true) by rw [hv]; decide)]
    simp only [hR, Bool.false_eq_true, if_false, List.append_nil]
    exact ⟨h, trivial⟩

/-- `set_data_seen` only clears the start-of-data flag -/
theorem abs_data_seen (cfg : CheckCfg) (v : CdpRunningValidator) (s : CdpSt) (c : SrcRdh.RdhCru) (h : Abs cfg v s c) :
    Abs cfg { v with f_tracker := (CdpTracker.set_data_seen v.f_tracker).2 } { s with startOfData := false } c :=
  ⟨h.running, h.period, rfl, h.pos, h.rdhv, h.rdh, h.ihw, h.tdhs, h.tdt, h.ddw0, h.cdw⟩

/-- the part of `preprocess_data_word` before `set_data_seen` -/
def dataCore (v : CdpRunningValidator) (w : Bytes) : CdpRunningValidator :=
  if (CdpTracker.start_of_data v.f_tracker && (bAt w 9 == SrcWords.Cdw.ID)) then (v.process_cdw w).2
  else
    let v1 := if (SrcWords.DataWordSanityChecker.check_any w).isErr
      then (v.report_error ((Rs.Str.lit true [70]).app (SrcWords.DataWordSanityChecker.check_any w).errStr) w).2 else v
    if (bAt w 9 >>> 5 == 1) then (v1.process_ib_data_word w).2
    else if (bAt w 9 >>> 5 == 2) then (v1.process_ob_data_word w).2 else v1

theorem data_unfold (v : CdpRunningValidator) (w : Bytes) :
    (v.preprocess_data_word w).2 = { dataCore v w with f_tracker := (CdpTracker.set_data_seen (dataCore v w).f_tracker).2 } := rfl

theorem dataCore_eq (cfg : CheckCfg) (v : CdpRunningValidator) (s : CdpSt) (c : SrcRdh.RdhCru) (w : Bytes)
    (h : Abs cfg v s c) (hst : cfg.stave = false) (s' : CdpSt) (ms : List Msg) (hok : preData cfg s w = .ok (s', ms)) :
    ∃ sX, s' = { sX with startOfData := false } ∧ Abs cfg (dataCore v w) sX c ∧
      outMsgs (dataCore v w).f_out = outMsgs v.f_out ++ ms := by
  have hsod : CdpTracker.start_of_data v.f_tracker = s.startOfData := h.sod
  have hid : (bAt w 9 == SrcWords.Cdw.ID) = (wordId w == ID_CDW) := rfl
  unfold dataCore
  rw [hsod, hid]
  by_cases hC : (s.startOfData && wordId w == ID_CDW) = true
  · rw [if_pos hC]
    rw [preData_cdw cfg s w hC] at hok
    cases hok
    exact ⟨_, rfl, (process_cdw_eq cfg v s c w h).1, (process_cdw_eq cfg v s c w h).2⟩
  · rw [if_neg hC]
    -- the sanity report
    have h1 : Abs cfg (if (SrcWords.DataWordSanityChecker.check_any w).isErr
        then (v.report_error ((Rs.Str.lit true [70]).app (SrcWords.DataWordSanityChecker.check_any w).errStr) w).2 else v) s c ∧
        outMsgs (if (SrcWords.DataWordSanityChecker.check_any w).isErr
          then (v.report_error ((Rs.Str.lit true [70]).app (SrcWords.DataWordSanityChecker.check_any w).errStr) w).2 else v).f_out =
          outMsgs v.f_out ++ (if isValidDataId (wordId w) then [] else [mkErr s "E70" w]) := by
      simp only [CdpRunningValidator.report_error, ite_with_out, check_any_eq]
      refine ⟨abs_out cfg v s c _ h, ?_⟩
      rw [out_single, h.pos]
      by_cases hv : isValidDataId (wordId w) = true <;> simp [hv, mkErr, codeStr, Rs.Str.app, Rs.Str.lit]
    generalize (if (SrcWords.DataWordSanityChecker.check_any w).isErr
        then (v.report_error ((Rs.Str.lit true [70]).app (SrcWords.DataWordSanityChecker.check_any w).errStr) w).2 else v) = v1 at h1 ⊢
    obtain ⟨ha1, ho1⟩ := h1
    have e5 : bAt w 9 >>> 5 = wordId w / 32 := by simp [wordId, Nat.shiftRight_eq_div_pow]
    simp only [e5]
    unfold preData at hok
    simp only [hC, Bool.false_eq_true, if_false, hst] at hok
    by_cases hR : cfg.running = true
    · by_cases k1 : wordId w / 32 = 1
      · simp only [hR, k1, Bool.not_true, bne_self_eq_false, Bool.false_and, Bool.or_false, Bool.false_eq_true, if_false,
          beq_self_eq_true, if_true] at hok ⊢
        cases hi : s.ihw with
        | none => rw [hi] at hok; cases hok
        | some ihw =>
          rw [hi] at hok
          simp only [Bool.not_false, if_true, Except.ok.injEq, Prod.mk.injEq] at hok
          obtain ⟨rfl, rfl⟩ := hok
          obtain ⟨a, o⟩ := process_ib_eq cfg v1 s c w ihw ha1 (fun _ => hi)
          exact ⟨s, by simp [hi], a, by rw [o, ho1, hR]; simp [List.append_assoc]⟩
      · by_cases k2 : wordId w / 32 = 2
        · have k1' : (wordId w / 32 == 1) = false := by simp [k2]
          have t21 : ((2 : Nat) == 1) = false := rfl
          simp only [hR, k2, k1', t21, Bool.not_true, bne_self_eq_false, Bool.and_false, Bool.or_false, Bool.false_eq_true, if_false,
            beq_self_eq_true, if_true] at hok ⊢
          cases hi : s.ihw with
          | none => rw [hi] at hok; cases hok
          | some ihw =>
            rw [hi] at hok
            simp only [Bool.not_false, if_true, Except.ok.injEq, Prod.mk.injEq] at hok
            obtain ⟨rfl, rfl⟩ := hok
            obtain ⟨a, o⟩ := process_ob_eq cfg v1 s c w ihw ha1 (fun _ => hi)
            exact ⟨s, by simp [hi], a, by rw [o, ho1, hR]; simp [List.append_assoc]⟩
        · have k1' : (wordId w / 32 == 1) = false := by simpa using k1
          have k2' : (wordId w / 32 == 2) = false := by simpa using k2
          have n1 : (wordId w / 32 != 1) = true := by simpa using k1
          have n2 : (wordId w / 32 != 2) = true := by simpa using k2
          simp only [k1', k2', n1, n2, Bool.and_self, Bool.or_true, if_true, Bool.false_eq_true, if_false,
            Except.ok.injEq, Prod.mk.injEq] at hok ⊢
          obtain ⟨rfl, rfl⟩ := hok
          exact ⟨s, rfl, ha1, ho1⟩
    · simp only [Bool.not_eq_true] at hR
      simp only [hR, Bool.not_false, Bool.true_or, if_true, Except.ok.injEq, Prod.mk.injEq] at hok
      obtain ⟨rfl, rfl⟩ := hok
      by_cases k1 : wordId w / 32 = 1
      · simp only [k1, beq_self_eq_true, if_true]
        obtain ⟨a, o⟩ := process_ib_eq cfg v1 s c w [] ha1 (fun hh => by rw [hR] at hh; cases hh)
        exact ⟨s, rfl, a, by rw [o, ho1, hR]; simp⟩
      · have k1' : (wordId w / 32 == 1) = false := by simpa using k1
        simp only [k1', Bool.false_eq_true, if_false]
        by_cases k2 : wordId w / 32 = 2
        · simp only [k2, beq_self_eq_true, if_true]
          obtain ⟨a, o⟩ := process_ob_eq cfg v1 s c w [] ha1 (fun hh => by rw [hR] at hh; cases hh)
          exact ⟨s, rfl, a, by rw [o, ho1, hR]; simp⟩
        · have k2' : (wordId w / 32 == 2) = false := by simpa using k2
          simp only [k2', Bool.false_eq_true, if_false]
          exact ⟨s, rfl, ha1, ho1⟩

/-- `preprocess_data_word` = `preData` (data words and calibration words; configurations without the readout-frame validator) -/
theorem preprocess_data_word_eq (cfg : CheckCfg) (v : CdpRunningValidator) (s : CdpSt) (c : SrcRdh.RdhCru) (w : Bytes)
    (h : Abs cfg v s c) (hst : cfg.stave = false) (s' : CdpSt) (ms : List Msg) (hok : preData cfg s w = .ok (s', ms)) :
    Abs cfg (v.preprocess_data_word w).2 s' c ∧ outMsgs (v.preprocess_data_word w).2.f_out = outMsgs v.f_out ++ ms := by
  obtain ⟨sX, rfl, ha, ho⟩ := dataCore_eq cfg v s c w h hst s' ms hok
  rw [data_unfold]
  exact ⟨abs_data_seen cfg _ sX c ha, ho⟩

/-! ### the dispatcher `check` = `checkWord` (configurations without the readout-frame validator) -/

/-- what no handler touches: the tracker's position fields and the state machine -/
structure Frame (v v' : CdpRunningValidator) : Prop where
  pay : v'.f_tracker.f_payload_mem_pos = v.f_tracker.f_payload_mem_pos
  cnt : v'.f_tracker.f_gbt_word_counter = v.f_tracker.f_gbt_word_counter
  pad : v'.f_tracker.f_gbt_word_padding_size_bytes = v.f_tracker.f_gbt_word_padding_size_bytes
  fsm : v'.f_its_state_machine = v.f_its_state_machine

theorem Frame.rfl' (v : CdpRunningValidator) : Frame v v := ⟨rfl, rfl, rfl, rfl⟩
theorem Frame.trans {a b c : CdpRunningValidator} (h1 : Frame a b) (h2 : Frame b c) : Frame a c :=
  ⟨h2.pay.trans h1.pay, h2.cnt.trans h1.cnt, h2.pad.trans h1.pad, h2.fsm.trans h1.fsm⟩
theorem Frame.ite {a b c : CdpRunningValidator} (p : Prop) [Decidable p] (h1 : Frame a b) (h2 : Frame a c) : Frame a (if p then b else c) := by
  split <;> assumption

theorem frame_report_error (v : CdpRunningValidator) (m : Rs.Str) (w : Bytes) : Frame v (v.report_error m w).2 := ⟨rfl, rfl, rfl, rfl⟩
theorem frame_report_errors (v : CdpRunningValidator) (m : Rs.Str) (w : Bytes) : Frame v (v.report_errors m w).2 := ⟨rfl, rfl, rfl, rfl⟩
theorem frame_report_noword (v : CdpRunningValidator) (m : Rs.Str) : Frame v (v.report_noword m).2 := ⟨rfl, rfl, rfl, rfl⟩

theorem frame_preprocess_ihw (v : CdpRunningValidator) (w : Bytes) : Frame v (v.preprocess_ihw w).2 := by
  unfold CdpRunningValidator.preprocess_ihw
  refine ⟨?_, ?_, ?_, ?_⟩ <;> (dsimp only; split <;> rfl)

macro "frame_tac" : tactic => `(tactic| (refine ⟨?_, ?_, ?_, ?_⟩ <;> (dsimp only; (repeat' split) <;> rfl)))

theorem frame_preprocess_ddw0 (v : CdpRunningValidator) (w : Bytes) : Frame v (v.preprocess_ddw0 w).2 := by
  unfold CdpRunningValidator.preprocess_ddw0 CdpRunningValidator.check_rdh_at_ddw0; frame_tac
theorem frame_preprocess_tdh (v : CdpRunningValidator) (w : Bytes) : Frame v (v.preprocess_tdh w).2 := by
  unfold CdpRunningValidator.preprocess_tdh; frame_tac
theorem frame_preprocess_tdt (v : CdpRunningValidator) (w : Bytes) : Frame v (v.preprocess_tdt w).2 := by
  unfold CdpRunningValidator.preprocess_tdt; frame_tac
theorem frame_process_cdw (v : CdpRunningValidator) (w : Bytes) : Frame v (v.process_cdw w).2 := by
  unfold CdpRunningValidator.process_cdw; frame_tac
theorem frame_check_initial_ihw (v : CdpRunningValidator) (w : Bytes) : Frame v (v.check_rdh_at_initial_ihw w).2 := by
  unfold CdpRunningValidator.check_rdh_at_initial_ihw; frame_tac
theorem frame_check_no_cont (v : CdpRunningValidator) (w : Bytes) : Frame v (v.check_tdh_no_continuation w).2 := by
  unfold CdpRunningValidator.check_tdh_no_continuation; frame_tac
theorem frame_check_cont (v : CdpRunningValidator) (w : Bytes) : Frame v (v.check_tdh_continuation w).2 := by
  unfold CdpRunningValidator.check_tdh_continuation; frame_tac
theorem frame_check_after_done (v : CdpRunningValidator) (w : Bytes) : Frame v (v.check_tdh_by_was_tdt_packet_done_true w).2 := by
  unfold CdpRunningValidator.check_tdh_by_was_tdt_packet_done_true; frame_tac
theorem frame_check_interval (v : CdpRunningValidator) (w : Bytes) : Frame v (v.check_tdh_trigger_interval w).2 := by
  unfold CdpRunningValidator.check_tdh_trigger_interval; frame_tac
theorem frame_process_ib (v : CdpRunningValidator) (w : Bytes) : Frame v (v.process_ib_data_word w).2 := by
  unfold CdpRunningValidator.process_ib_data_word; frame_tac
theorem frame_process_ob (v : CdpRunningValidator) (w : Bytes) : Frame v (v.process_ob_data_word w).2 := by
  unfold CdpRunningValidator.process_ob_data_word; frame_tac
theorem frame_dataCore (v : CdpRunningValidator) (w : Bytes) : Frame v (dataCore v w) := by
  unfold dataCore
  refine Frame.ite _ (frame_process_cdw v w) ?_
  dsimp only
  have h1 : Frame v (if (SrcWords.DataWordSanityChecker.check_any w).isErr
      then (v.report_error ((Rs.Str.lit true [70]).app (SrcWords.DataWordSanityChecker.check_any w).errStr) w).2 else v) :=
    Frame.ite _ (frame_report_error v _ w) (Frame.rfl' v)
  exact Frame.ite _ (h1.trans (frame_process_ib _ w)) (Frame.ite _ (h1.trans (frame_process_ob _ w)) h1)
theorem frame_preprocess_data_word (v : CdpRunningValidator) (w : Bytes) : Frame v (v.preprocess_data_word w).2 := by
  rw [data_unfold]
  exact ⟨(frame_dataCore v w).pay, (frame_dataCore v w).cnt, (frame_dataCore v w).pad, (frame_dataCore v w).fsm⟩

/-- the relation between words (before the word counter is incremented): `Abs` with the tracker and the state machine field by field -/
structure AbsW (cfg : CheckCfg) (v : CdpRunningValidator) (s : CdpSt) (c : SrcRdh.RdhCru) : Prop where
  running : v.f_running_checks_enabled = cfg.running
  period : v.f_trigger_period = cfg.triggerPeriod
  sod : v.f_tracker.f_is_start_of_data = s.startOfData
  pay : v.f_tracker.f_payload_mem_pos = s.payloadPos
  cnt : v.f_tracker.f_gbt_word_counter = s.wordCount
  slot : 10 + v.f_tracker.f_gbt_word_padding_size_bytes = s.slot
  pad : v.f_tracker.f_gbt_word_padding_size_bytes ≤ 6
  fsm : v.f_its_state_machine = s.fsm
  rdhv : v.f_rdh_validator = ItsRdhValidator.new c
  rdh : toModel c = s.rdh
  ihw : v.f_status_words.f_ihw = s.ihw.map ihwOf
  tdhs : v.f_status_words.f_tdhs = bufOf s.tdh s.prevTdh s.prevInternalTdh
  tdt : v.f_status_words.f_tdt = s.tdt.map tdtOf
  ddw0 : v.f_status_words.f_ddw0 = s.ddw0.map ddw0Of
  cdw : v.f_status_words.f_cdw = s.cdw.map cdwOf

theorem AbsW.toAbs {cfg v s c} (h : AbsW cfg v s c) (h1 : 1 ≤ s.wordCount) (h2 : s.wordCount < 65536)
    (hb : s.payloadPos + 65536 * 16 < 2^64) : Abs cfg v s c := by
  refine ⟨h.running, h.period, h.sod, ?_, h.rdhv, h.rdh, h.ihw, h.tdhs, h.tdt, h.ddw0, h.cdw⟩
  rw [tracker_word_pos v.f_tracker (by rw [h.cnt]; exact h1) (by rw [h.cnt]; exact h2) h.pad (by rw [h.pay]; exact hb),
    h.pay, h.cnt, h.slot]
  rfl

/-- back from `Abs` for the state after a handler: the handler kept the tracker's position fields and the state machine (`Frame`),
    the model's next state kept its own -/
theorem AbsW.ofAbs {cfg v v' s s' c} (hw : AbsW cfg v s c) (ha : Abs cfg v' s' c) (hf : Frame v v')
    (e1 : s'.payloadPos = s.payloadPos) (e2 : s'.wordCount = s.wordCount) (e3 : s'.slot = s.slot) (e4 : s'.fsm = s.fsm) :
    AbsW cfg v' s' c :=
  ⟨ha.running, ha.period, ha.sod, by rw [hf.pay, hw.pay, e1], by rw [hf.cnt, hw.cnt, e2], by rw [hf.pad, hw.slot, e3],
   by rw [hf.pad]; exact hw.pad, by rw [hf.fsm, hw.fsm, e4], ha.rdhv, ha.rdh, ha.ihw, ha.tdhs, ha.tdt, ha.ddw0, ha.cdw⟩

theorem fsm_step_src (st : FsmSt) (w : Bytes) :
    SrcFsm.step st (bAt w 9) (SrcWords.tdh_no_data w) (SrcWords.tdt_packet_done w) = fsmAdvance st w := by
  rw [tdh_no_data_eq, tdt_packet_done_eq]; exact (C09.fsmAdvance_eq_src st w).symm

/-- the first two steps of `check`: count the word, advance the state machine -/
theorem check_prefix (cfg : CheckCfg) (v : CdpRunningValidator) (s : CdpSt) (c : SrcRdh.RdhCru) (w : Bytes)
    (h : AbsW cfg v s c) (h2 : s.wordCount + 1 < 65536) :
    AbsW cfg { v with f_tracker := { v.f_tracker with f_gbt_word_counter := v.f_tracker.f_gbt_word_counter + 1 },
                      f_its_state_machine := (fsmAdvance s.fsm w).1 }
      { s with wordCount := s.wordCount + 1, fsm := (fsmAdvance s.fsm w).1 } c :=
  ⟨h.running, h.period, h.sod, h.pay, by simp [h.cnt], h.slot, h.pad, rfl, h.rdhv, h.rdh, h.ihw, h.tdhs, h.tdt, h.ddw0, h.cdw⟩

/-- what `check` does after counting the word and advancing the state machine, by the machine's answer -/
def dispatch (cls : WordClass) (v : CdpRunningValidator) (w : Bytes) : CdpRunningValidator :=
  match cls with
  | .dataWord | .cdw => (v.preprocess_data_word w).2
  | .tdh =>
    let v := (v.preprocess_tdh w).2
    if v.f_running_checks_enabled then ((v.check_tdh_no_continuation w).2.check_tdh_trigger_interval w).2 else v
  | .tdt => (v.preprocess_tdt w).2
  | .ihw =>
    let v := (v.preprocess_ihw w).2
    if v.f_running_checks_enabled then (v.check_rdh_at_initial_ihw w).2 else v
  | .tdhAfterPacketDone =>
    let v := (v.preprocess_tdh w).2
    if v.f_running_checks_enabled then ((v.check_tdh_by_was_tdt_packet_done_true w).2.check_tdh_trigger_interval w).2 else v
  | .ddw0 => (v.preprocess_ddw0 w).2
  | .tdhCont =>
    let v := (v.preprocess_tdh w).2
    if v.f_running_checks_enabled then (v.check_tdh_continuation w).2 else v
  | .ihwCont => (v.preprocess_ihw w).2
  | .errTdhOrDdw0 => ((v.report_error (Rs.Str.lit true [990]) w).2.preprocess_tdh w).2
  | .errDwOrTdtCdw => ((v.report_error (Rs.Str.lit true [991]) w).2.preprocess_data_word w).2
  | .errDdw0OrTdhIhw => ((v.report_error (Rs.Str.lit true [992]) w).2.preprocess_ddw0 w).2

theorem check_unfold (v : CdpRunningValidator) (w : Bytes) (hcnt : v.f_tracker.f_gbt_word_counter + 1 < 65536) :
    (v.check w).2 = dispatch (fsmAdvance v.f_its_state_machine w).2
      { v with f_tracker := { v.f_tracker with f_gbt_word_counter := v.f_tracker.f_gbt_word_counter + 1 },
               f_its_state_machine := (fsmAdvance v.f_its_state_machine w).1 } w := by
  unfold CdpRunningValidator.check CdpRunningValidator.fsm_advance
  simp only [tracker_incr v.f_tracker hcnt, fsm_step_src]
  cases hc : (fsmAdvance v.f_its_state_machine w).2 <;>
    simp only [classResult, dispatch, Rs.ResV.isErr_ok, Rs.ResV.isErr_err, Rs.ResV.okVal_ok, Rs.ResV.errVal_err, beq_iff_eq,
      Bool.or_eq_true, reduceCtorEq, or_self, or_false, false_or, or_true, true_or, if_true, if_false, Bool.false_eq_true, ite_pair_snd]

/-! model-side frame facts -/
theorem preTdh_frame (cfg : CheckCfg) (s : CdpSt) (w : Bytes) (hst : cfg.stave = false) :
    (preTdh cfg s w).1 = replaceTdh s w ∧ (preTdh cfg s w).1.payloadPos = s.payloadPos ∧ (preTdh cfg s w).1.wordCount = s.wordCount ∧
    (preTdh cfg s w).1.slot = s.slot ∧ (preTdh cfg s w).1.fsm = s.fsm ∧ (preTdh cfg s w).1.tdh = some w := by
  simp [preTdh, hst, replaceTdh]

theorem preData_frame (cfg : CheckCfg) (s : CdpSt) (w : Bytes) (hst : cfg.stave = false) (s' : CdpSt) (ms : List Msg)
    (hok : preData cfg s w = .ok (s', ms)) :
    s'.payloadPos = s.payloadPos ∧ s'.wordCount = s.wordCount ∧ s'.slot = s.slot ∧ s'.fsm = s.fsm := by
  unfold preData at hok
  simp only [hst] at hok
  repeat' (split at hok)
  all_goals first
    | (cases hok; exact ⟨rfl, rfl, rfl, rfl⟩)
    | (simp at hok)
    | (obtain ⟨rfl, _⟩ := (by simpa using hok : _ ∧ _); exact ⟨rfl, rfl, rfl, rfl⟩)

/-- a report made before a handler: `[E99x]` at the word's position -/
theorem report_pre (cfg : CheckCfg) (v : CdpRunningValidator) (s : CdpSt) (c : SrcRdh.RdhCru) (w : Bytes) (k : Nat) (h : Abs cfg v s c) :
    Abs cfg (v.report_error (Rs.Str.lit true [k]) w).2 s c ∧
    outMsgs (v.report_error (Rs.Str.lit true [k]) w).2.f_out = outMsgs v.f_out ++ [mkErr s (codeStr k) w] := by
  refine ⟨abs_out cfg v s c _ h, ?_⟩
  simp [CdpRunningValidator.report_error, outMsgs_append, outMsgs, reportMsgs, mkErr, h.pos, Rs.Str.lit]

/-- the model's `checkWord` after the word has been counted and the state machine advanced -/
def stepAfter (cfg : CheckCfg) (s : CdpSt) (cls : WordClass) (w : Bytes) : Except PanicSite (CdpSt × List Msg) :=
  match cls with
  | .dataWord | .cdw => preData cfg s w
  | .tdh =>
    let (s, m) := preTdh cfg s w
    .ok (s, m ++ (if cfg.running then tdhNoContinuationChecks s w ++ tdhTriggerInterval cfg s else []))
  | .tdt => preTdt cfg s w
  | .ihw =>
    let (s, m) := preIhw s w
    .ok (s, m ++ (if cfg.running && s.rdh.stopBit != 0 then [mkErr s "E12" w] else []))
  | .tdhAfterPacketDone =>
    let (s, m) := preTdh cfg s w
    let m2 := if !cfg.running then [] else
      (match s.prevTdh with
       | some prev => if tdhBc prev > tdhBc w then [mkErr s "E440" w] else []
       | none => []) ++ tdhTriggerInterval cfg s
    .ok (s, m ++ m2)
  | .ddw0 => .ok (preDdw0 cfg s w)
  | .tdhCont =>
    let (s, m) := preTdh cfg s w
    .ok (s, m ++ (if cfg.running then tdhContinuationChecks s w else []))
  | .ihwCont => .ok (preIhw s w)
  | .errTdhOrDdw0 =>
    let (s', m) := preTdh cfg s w
    .ok (s', mkErr s "E990" w :: m)
  | .errDwOrTdtCdw =>
    match preData cfg s w with
    | .error p => .error p
    | .ok (s', m) => .ok (s', mkErr s "E991" w :: m)
  | .errDdw0OrTdhIhw =>
    let (s', m) := preDdw0 cfg s w
    .ok (s', mkErr s "E992" w :: m)

theorem checkWord_stepAfter (cfg : CheckCfg) (s : CdpSt) (w : Bytes) :
    checkWord cfg s w = stepAfter cfg { s with wordCount := s.wordCount + 1, fsm := (fsmAdvance s.fsm w).1 } (fsmAdvance s.fsm w).2 w := by
  unfold checkWord stepAfter
  rfl

theorem dispatch_eq (cfg : CheckCfg) (v1 : CdpRunningValidator) (s1 : CdpSt) (c : SrcRdh.RdhCru) (w : Bytes) (cls : WordClass)
    (hW1 : AbsW cfg v1 s1 c) (hA1 : Abs cfg v1 s1 c) (hst : cfg.stave = false)
    (s' : CdpSt) (ms : List Msg) (hok : stepAfter cfg s1 cls w = .ok (s', ms)) :
    AbsW cfg (dispatch cls v1 w) s' c ∧ outMsgs (dispatch cls v1 w).f_out = outMsgs v1.f_out ++ ms := by
  cases cls
  case dataWord =>
    obtain ⟨a, o⟩ := preprocess_data_word_eq cfg v1 s1 c w hA1 hst s' ms hok
    obtain ⟨e1, e2, e3, e4⟩ := preData_frame cfg s1 w hst s' ms hok
    exact ⟨AbsW.ofAbs hW1 a (frame_preprocess_data_word v1 w) e1 e2 e3 e4, o⟩
  case cdw =>
    obtain ⟨a, o⟩ := preprocess_data_word_eq cfg v1 s1 c w hA1 hst s' ms hok
    obtain ⟨e1, e2, e3, e4⟩ := preData_frame cfg s1 w hst s' ms hok
    exact ⟨AbsW.ofAbs hW1 a (frame_preprocess_data_word v1 w) e1 e2 e3 e4, o⟩
  case errDwOrTdtCdw =>
    obtain ⟨ar, orr⟩ := report_pre cfg v1 s1 c w 991 hA1
    simp only [dispatch]
    simp only [stepAfter] at hok
    cases hp : preData cfg s1 w with
    | error p => rw [hp] at hok; cases hok
    | ok r =>
      obtain ⟨s2, m2⟩ := r
      rw [hp] at hok
      simp only [Except.ok.injEq, Prod.mk.injEq] at hok
      obtain ⟨rfl, rfl⟩ := hok
      obtain ⟨a, o⟩ := preprocess_data_word_eq cfg _ s1 c w ar hst s2 m2 hp
      obtain ⟨e1, e2, e3, e4⟩ := preData_frame cfg s1 w hst s2 m2 hp
      refine ⟨AbsW.ofAbs hW1 a ((frame_report_error v1 _ w).trans (frame_preprocess_data_word _ w)) e1 e2 e3 e4, ?_⟩
      rw [o, orr]; simp [codeStr]
  case errTdhOrDdw0 =>
    obtain ⟨ar, orr⟩ := report_pre cfg v1 s1 c w 990 hA1
    obtain ⟨a, o⟩ := preprocess_tdh_eq cfg _ s1 c w ar hst
    obtain ⟨_, e1, e2, e3, e4, _⟩ := preTdh_frame cfg s1 w hst
    simp only [stepAfter, Except.ok.injEq, Prod.mk.injEq] at hok
    obtain ⟨rfl, rfl⟩ := hok
    refine ⟨AbsW.ofAbs hW1 a ((frame_report_error v1 _ w).trans (frame_preprocess_tdh _ w)) e1 e2 e3 e4, ?_⟩
    simp only [dispatch]; rw [o, orr]; simp [codeStr]
  case errDdw0OrTdhIhw =>
    obtain ⟨ar, orr⟩ := report_pre cfg v1 s1 c w 992 hA1
    obtain ⟨a, o⟩ := preprocess_ddw0_eq cfg _ s1 c w ar
    simp only [stepAfter, Except.ok.injEq, Prod.mk.injEq] at hok
    obtain ⟨rfl, rfl⟩ := hok
    refine ⟨AbsW.ofAbs hW1 a ((frame_report_error v1 _ w).trans (frame_preprocess_ddw0 _ w)) rfl rfl rfl rfl, ?_⟩
    simp only [dispatch]; rw [o, orr]; simp [codeStr]
  case ddw0 =>
    obtain ⟨a, o⟩ := preprocess_ddw0_eq cfg v1 s1 c w hA1
    simp only [stepAfter, Except.ok.injEq] at hok
    subst_vars
    cases hok
    exact ⟨AbsW.ofAbs hW1 a (frame_preprocess_ddw0 v1 w) rfl rfl rfl rfl, o⟩
  case ihwCont =>
    obtain ⟨a, o⟩ := preprocess_ihw_eq cfg v1 s1 c w hA1
    simp only [stepAfter, Except.ok.injEq] at hok
    cases hok
    exact ⟨AbsW.ofAbs hW1 a (frame_preprocess_ihw v1 w) rfl rfl rfl rfl, o⟩
  case tdt =>
    obtain ⟨s2, m2, hp, a, o⟩ := preprocess_tdt_eq cfg v1 s1 c w hA1 hst
    simp only [stepAfter] at hok
    rw [hp] at hok
    have hp' := hp
    simp only [preTdt, hst, Bool.false_and, Bool.false_eq_true, if_false, Except.ok.injEq, Prod.mk.injEq] at hp'
    cases hok
    obtain ⟨rfl, _⟩ := hp'
    exact ⟨AbsW.ofAbs hW1 a (frame_preprocess_tdt v1 w) rfl rfl rfl rfl, o⟩
  case ihw =>
    obtain ⟨a, o⟩ := preprocess_ihw_eq cfg v1 s1 c w hA1
    simp only [stepAfter, Except.ok.injEq, Prod.mk.injEq] at hok
    obtain ⟨rfl, rfl⟩ := hok
    simp only [dispatch, a.running]
    by_cases hR : cfg.running = true
    · obtain ⟨a3, o3⟩ := check_rdh_at_initial_ihw_eq cfg _ _ c w a
      simp only [hR, if_true, Bool.true_and]
      refine ⟨AbsW.ofAbs hW1 a3 ((frame_preprocess_ihw v1 w).trans (frame_check_initial_ihw _ w)) rfl rfl rfl rfl, ?_⟩
      rw [o3, o, List.append_assoc]
    · simp only [Bool.not_eq_true] at hR
      simp only [hR, Bool.false_eq_true, if_false, Bool.false_and, List.append_nil]
      exact ⟨AbsW.ofAbs hW1 a (frame_preprocess_ihw v1 w) rfl rfl rfl rfl, o⟩
  case tdh =>
    obtain ⟨a, o⟩ := preprocess_tdh_eq cfg v1 s1 c w hA1 hst
    obtain ⟨_, e1, e2, e3, e4, htdh⟩ := preTdh_frame cfg s1 w hst
    simp only [stepAfter, Except.ok.injEq, Prod.mk.injEq] at hok
    obtain ⟨rfl, rfl⟩ := hok
    simp only [dispatch, a.running]
    by_cases hR : cfg.running = true
    · obtain ⟨a3, o3⟩ := check_tdh_no_continuation_eq cfg _ _ c w a htdh
      obtain ⟨a4, o4⟩ := check_tdh_trigger_interval_eq cfg _ _ c w a3 (Or.inl (by rw [htdh]; rfl))
      simp only [hR, if_true]
      refine ⟨AbsW.ofAbs hW1 a4 (((frame_preprocess_tdh v1 w).trans (frame_check_no_cont _ w)).trans (frame_check_interval _ w)) e1 e2 e3 e4, ?_⟩
      rw [o4, o3, o]; simp [List.append_assoc]
    · simp only [Bool.not_eq_true] at hR
      simp only [hR, Bool.false_eq_true, if_false, List.append_nil]
      exact ⟨AbsW.ofAbs hW1 a (frame_preprocess_tdh v1 w) e1 e2 e3 e4, o⟩
  case tdhAfterPacketDone =>
    obtain ⟨a, o⟩ := preprocess_tdh_eq cfg v1 s1 c w hA1 hst
    obtain ⟨_, e1, e2, e3, e4, htdh⟩ := preTdh_frame cfg s1 w hst
    simp only [stepAfter, Except.ok.injEq, Prod.mk.injEq] at hok
    obtain ⟨rfl, rfl⟩ := hok
    simp only [dispatch, a.running]
    by_cases hR : cfg.running = true
    · obtain ⟨a3, o3⟩ := check_tdh_after_packet_done_eq cfg _ _ c w a htdh
      obtain ⟨a4, o4⟩ := check_tdh_trigger_interval_eq cfg _ _ c w a3 (Or.inl (by rw [htdh]; rfl))
      simp only [hR, if_true, Bool.not_true, Bool.false_eq_true, if_false]
      refine ⟨AbsW.ofAbs hW1 a4 (((frame_preprocess_tdh v1 w).trans (frame_check_after_done _ w)).trans (frame_check_interval _ w)) e1 e2 e3 e4, ?_⟩
      rw [o4, o3, o]; simp [List.append_assoc]
    · simp only [Bool.not_eq_true] at hR
      simp only [hR, Bool.false_eq_true, if_false, Bool.not_false, if_true, List.append_nil]
      exact ⟨AbsW.ofAbs hW1 a (frame_preprocess_tdh v1 w) e1 e2 e3 e4, o⟩
  case tdhCont =>
    obtain ⟨a, o⟩ := preprocess_tdh_eq cfg v1 s1 c w hA1 hst
    obtain ⟨_, e1, e2, e3, e4, htdh⟩ := preTdh_frame cfg s1 w hst
    simp only [stepAfter, Except.ok.injEq, Prod.mk.injEq] at hok
    obtain ⟨rfl, rfl⟩ := hok
    simp only [dispatch, a.running]
    by_cases hR : cfg.running = true
    · obtain ⟨a3, o3⟩ := check_tdh_continuation_eq cfg _ _ c w a htdh
      simp only [hR, if_true]
      refine ⟨AbsW.ofAbs hW1 a3 ((frame_preprocess_tdh v1 w).trans (frame_check_cont _ w)) e1 e2 e3 e4, ?_⟩
      rw [o3, o]; simp [List.append_assoc]
    · simp only [Bool.not_eq_true] at hR
      simp only [hR, Bool.false_eq_true, if_false, List.append_nil]
      exact ⟨AbsW.ofAbs hW1 a (frame_preprocess_tdh v1 w) e1 e2 e3 e4, o⟩

/-- **`CdpRunningValidator::check` = `checkWord`**, for every word, in every configuration without the readout-frame validator:
    if the source validator stands for the model state (`AbsW`) and the model's step does not stop at a panic site, the source's step
    leaves a validator that stands for the model's next state, having sent exactly the model's messages -/
theorem check_eq (cfg : CheckCfg) (v : CdpRunningValidator) (s : CdpSt) (c : SrcRdh.RdhCru) (w : Bytes)
    (h : AbsW cfg v s c) (hst : cfg.stave = false) (h2 : s.wordCount + 1 < 65536) (hb : s.payloadPos + 65536 * 16 < 2^64)
    (s' : CdpSt) (ms : List Msg) (hok : checkWord cfg s w = .ok (s', ms)) :
    AbsW cfg (v.check w).2 s' c ∧ outMsgs (v.check w).2.f_out = outMsgs v.f_out ++ ms := by
  rw [check_unfold v w (by rw [h.cnt]; exact h2), h.fsm]
  have hW1 := check_prefix cfg v s c w h h2
  have hA1 := hW1.toAbs (by simp) (by simp; omega) hb
  rw [checkWord_stepAfter] at hok
  exact dispatch_eq cfg _ _ c w _ hW1 hA1 hst s' ms hok

/-! ### `set_current_rdh`: what survives from packet to packet, and the fresh tracker -/
/-- the packet-independent part of the relation: configuration, state machine, stored status words -/
structure AbsR (cfg : CheckCfg) (v : CdpRunningValidator) (s : CdpSt) : Prop where
  running : v.f_running_checks_enabled = cfg.running
  period : v.f_trigger_period = cfg.triggerPeriod
  fsm : v.f_its_state_machine = s.fsm
  ihw : v.f_status_words.f_ihw = s.ihw.map ihwOf
  tdhs : v.f_status_words.f_tdhs = bufOf s.tdh s.prevTdh s.prevInternalTdh
  tdt : v.f_status_words.f_tdt = s.tdt.map tdtOf
  ddw0 : v.f_status_words.f_ddw0 = s.ddw0.map ddw0Of
  cdw : v.f_status_words.f_cdw = s.cdw.map cdwOf

theorem AbsW.toAbsR {cfg v s c} (h : AbsW cfg v s c) : AbsR cfg v s :=
  ⟨h.running, h.period, h.fsm, h.ihw, h.tdhs, h.tdt, h.ddw0, h.cdw⟩

/-- a freshly constructed validator (`new`: default state machine, empty status-word container) stands for the model's initial state -/
theorem absR_init (cfg : CheckCfg) (tr : CdpTracker) (rv : ItsRdhValidator) :
    AbsR cfg { f_running_checks_enabled := cfg.running, f_trigger_period := cfg.triggerPeriod, f_its_state_machine := SrcFsm.initial,
               f_tracker := tr, f_rdh_validator := rv, f_status_words := StatusWordContainer.new_const, f_out := [] } {} :=
  ⟨rfl, rfl, rfl, rfl, rfl, rfl, rfl, rfl⟩

/-- the model state at the start of a packet -/
def startPkt (s : CdpSt) (off : Nat) (r : Rdh) : CdpSt :=
  { s with payloadPos := off + 64, wordCount := 0, slot := (if r.dataFormat == 0 then 16 else 10), startOfData := true, rdh := r }

/-- `set_current_rdh(rdh, offset)` = `setCurrentRdh` (without the stave bookkeeping): new tracker at `offset + 64`, counter 0, slot
    size by the header's data format, start-of-data set; everything else kept -/
theorem set_current_rdh_eq (cfg : CheckCfg) (v : CdpRunningValidator) (s : CdpSt) (c : SrcRdh.RdhCru) (off : Nat)
    (h : AbsR cfg v s) (hst : cfg.stave = false) (hoff : off + 64 < 2^64) :
    setCurrentRdh cfg s off (toModel c) = .ok (startPkt s off (toModel c)) ∧
    AbsW cfg (v.set_current_rdh c off).2 (startPkt s off (toModel c)) c := by
  obtain ⟨t1, t2, t3, t4⟩ := tracker_new c off hoff
  refine ⟨by simp [setCurrentRdh, hst, startPkt], ?_⟩
  simp only [CdpRunningValidator.set_current_rdh, startPkt]
  refine ⟨h.running, h.period, t4, t1, t2, t3, ?_, h.fsm, rfl, rfl, h.ihw, h.tdhs, h.tdt, h.ddw0, h.cdw⟩
  show (CdpTracker.new c off).f_gbt_word_padding_size_bytes ≤ 6
  have := t3
  split at this <;> omega

end SrcTie
end FastPasta
