/-
  Proofs.LinkSrcTie — the per-word handlers of the link validator (`CdpRunningValidator`, cdp_running.rs) ARE the model's
  (`Model/Cdp.lean`): `preprocess_ihw` = `preIhw`, `preprocess_ddw0` (+ `check_rdh_at_ddw0`) = `preDdw0`, `process_cdw` = the CDW
  branch of `preData`, and the four state-dependent check methods report exactly the model's messages, each at the tracker's current
  word position and quoting the word. Source side: `Spec/LinkSrcGen.lean`, translated on every run by tools/rs2lean.py
  (`rsspec/linkval.json`); the error channel is a value (`f_out : List Rs.Report`, see the `rewrites` / `inject` of the spec).
-/
import FastPasta.Spec.LinkSrcGen
import FastPasta.Proofs.StateSrcTie
namespace FastPasta
namespace SrcTie
open SrcState SrcLink
set_option linter.unusedSimpArgs false

def ihwOf (w : Bytes) : SrcWords.Ihw := (SrcWords.Ihw.from_buf w).unwrapD
def ddw0Of (w : Bytes) : SrcWords.Ddw0 := (SrcWords.Ddw0.from_buf w).unwrapD
def cdwOf (w : Bytes) : SrcWords.Cdw := (SrcWords.Cdw.from_buf w).unwrapD
def tdtOf (w : Bytes) : SrcWords.Tdt := (SrcWords.Tdt.from_buf w).unwrapD

/-- the messages one `report_error` call stands for -/
def reportMsgs (r : Rs.Report) : List Msg :=
  if r.each then r.msg.codes.map (fun k => Msg.error { offset := r.pos, code := codeStr k, word := some r.word })
  else [Msg.error { offset := r.pos, code := codeStr (r.msg.codes.headD 0), word := some r.word }]

def outMsgs (out : List Rs.Report) : List Msg := out.flatMap reportMsgs

theorem outMsgs_append (a b : List Rs.Report) : outMsgs (a ++ b) = outMsgs a ++ outMsgs b := by
  simp [outMsgs]

/-- abstraction: the source validator `v` (projected to the fields the translated handlers use) stands for the model state `s`
    under configuration `cfg`, `c` being the source's copy of the current header -/
structure Abs (cfg : CheckCfg) (v : CdpRunningValidator) (s : CdpSt) (c : SrcRdh.RdhCru) : Prop where
  running : v.f_running_checks_enabled = cfg.running
  pos : v.f_tracker.current_word_mem_pos = s.wordPos
  rdhv : v.f_rdh_validator = ItsRdhValidator.new c
  rdh : toModel c = s.rdh
  ihw : v.f_status_words.f_ihw = s.ihw.map ihwOf
  tdhs : v.f_status_words.f_tdhs = bufOf s.tdh s.prevTdh s.prevInternalTdh
  tdt : v.f_status_words.f_tdt = s.tdt.map tdtOf
  ddw0 : v.f_status_words.f_ddw0 = s.ddw0.map ddw0Of
  cdw : v.f_status_words.f_cdw = s.cdw.map cdwOf

/-- `preprocess_ihw` = `preIhw` -/
theorem preprocess_ihw_eq (cfg : CheckCfg) (v : CdpRunningValidator) (s : CdpSt) (c : SrcRdh.RdhCru) (w : Bytes)
    (h : Abs cfg v s c) :
    Abs cfg (v.preprocess_ihw w).2 (preIhw s w).1 c ∧
    outMsgs (v.preprocess_ihw w).2.f_out = outMsgs v.f_out ++ (preIhw s w).2 := by
  obtain ⟨t, ht, hs⟩ := ihw_sane_eq w
  have ht' : SrcWords.Ihw.from_buf w = .ok (ihwOf w) := rfl
  rw [ht'] at ht; cases ht
  simp only [CdpRunningValidator.preprocess_ihw, StatusWordContainer.sanity_check_ihw, StatusWordSanityChecker.check_ihw, hs,
    CdpRunningValidator.report_error, StatusWordContainer.replace_ihw, preIhw, ht', Rs.Res.unwrapD_ok]
  by_cases hsane : ihwSane w = true
  · simp only [hsane, Bool.not_true, Bool.false_eq_true, if_false, if_true, List.append_nil]
    exact ⟨⟨h.running, h.pos, h.rdhv, h.rdh, by simp, h.tdhs, h.tdt, h.ddw0, h.cdw⟩, trivial⟩
  · simp only [hsane, Bool.not_false, if_true, if_false]
    refine ⟨⟨h.running, h.pos, h.rdhv, h.rdh, by simp, h.tdhs, h.tdt, h.ddw0, h.cdw⟩, ?_⟩
    simp [outMsgs_append, outMsgs, reportMsgs, mkErr, h.pos, codeStr, Rs.Str.app, Rs.Str.lit]

/-! ### helpers: what a conditional report adds -/
theorem abs_out (cfg : CheckCfg) (v : CdpRunningValidator) (s : CdpSt) (c : SrcRdh.RdhCru) (o : List Rs.Report) (h : Abs cfg v s c) :
    Abs cfg { v with f_out := o } s c := ⟨h.running, h.pos, h.rdhv, h.rdh, h.ihw, h.tdhs, h.tdt, h.ddw0, h.cdw⟩

/-- `if let Err(es) = r { es.into_iter().for_each(|e| self.report_error(e, w)) }`: one message per code of the error, nothing for `Ok` -/
theorem report_each (v : CdpRunningValidator) (r : Rs.Res Unit) (w : Bytes) :
    (if r.isErr then (v.report_errors r.errStr w).2 else v) =
      { v with f_out := v.f_out ++ (if r.isErr then [Rs.Report.mk v.f_tracker.current_word_mem_pos r.errStr w true] else []) } := by
  cases r <;> simp [CdpRunningValidator.report_errors]

theorem out_each (o : List Rs.Report) (r : Rs.Res Unit) (pos : Nat) (w : Bytes) :
    outMsgs (o ++ (if r.isErr then [Rs.Report.mk pos r.errStr w true] else [])) =
      outMsgs o ++ r.errStr.codes.map (fun k => Msg.error { offset := pos, code := codeStr k, word := some w }) := by
  cases r <;> simp [outMsgs, reportMsgs]

theorem out_single (o : List Rs.Report) (c : Prop) [Decidable c] (pos : Nat) (m : Rs.Str) (w : Bytes) :
    outMsgs (o ++ (if c then [Rs.Report.mk pos m w false] else [])) =
      outMsgs o ++ (if c then [Msg.error { offset := pos, code := codeStr (m.codes.headD 0), word := some w }] else []) := by
  split <;> simp [outMsgs, reportMsgs]

theorem ite_pair_snd {α} (c : Prop) [Decidable c] (a b : α) : (if c then ((), a) else ((), b)).2 = if c then a else b := by
  split <;> rfl

theorem ite_with_out (v : CdpRunningValidator) (c : Prop) [Decidable c] (l : List Rs.Report) :
    (if c then { v with f_out := v.f_out ++ l } else v) = { v with f_out := v.f_out ++ (if c then l else []) } := by
  split <;> simp

theorem check_rdh_at_ddw0_eq (v : CdpRunningValidator) (w : Bytes) :
    (v.check_rdh_at_ddw0 w).2 = { v with f_out := v.f_out ++
      (if v.f_rdh_validator.check_at_ddw0.isErr then [Rs.Report.mk v.f_tracker.current_word_mem_pos v.f_rdh_validator.check_at_ddw0.errStr w true] else []) } := by
  simp only [CdpRunningValidator.check_rdh_at_ddw0, ite_pair_snd, report_each]

/-- `preprocess_ddw0` (with `check_rdh_at_ddw0`) = `preDdw0` -/
theorem preprocess_ddw0_eq (cfg : CheckCfg) (v : CdpRunningValidator) (s : CdpSt) (c : SrcRdh.RdhCru) (w : Bytes)
    (h : Abs cfg v s c) :
    Abs cfg (v.preprocess_ddw0 w).2 (preDdw0 cfg s w).1 c ∧
    outMsgs (v.preprocess_ddw0 w).2.f_out = outMsgs v.f_out ++ (preDdw0 cfg s w).2 := by
  obtain ⟨t, ht, hs⟩ := ddw0_sane_eq w
  have ht' : SrcWords.Ddw0.from_buf w = .ok (ddw0Of w) := rfl
  rw [ht'] at ht; cases ht
  have hr := ddw0_rdh_eq s w c h.rdh
  have hrun := h.running
  have hpos := h.pos
  have hrv := h.rdhv
  simp only [CdpRunningValidator.preprocess_ddw0, check_rdh_at_ddw0_eq, StatusWordContainer.sanity_check_ddw0,
    StatusWordSanityChecker.check_ddw0, hs, CdpRunningValidator.report_error, StatusWordContainer.replace_ddw, preDdw0, ht',
    Rs.Res.unwrapD_ok, hr, ite_with_out]
  refine ⟨⟨?_, ?_, ?_, h.rdh, ?_, ?_, ?_, ?_, ?_⟩, ?_⟩
  · split <;> simp [hrun]
  · split <;> simp [hpos, CdpSt.wordPos]
  · split <;> simp [hrv]
  · split <;> simp [h.ihw]
  · split <;> simp [h.tdhs]
  · split <;> simp [h.tdt]
  · split <;> simp
  · split <;> simp [h.cdw]
  · rw [hrun, hrv, hpos]
    by_cases hR : cfg.running = true
    · simp only [hR, if_true, Bool.not_true, Bool.false_eq_true, if_false]
      rw [out_each, out_single]
      by_cases hsane : ddw0Sane w = true <;> simp [hsane, mkErr, codeStr, Rs.Str.app, Rs.Str.lit]
    · simp only [hR, if_false, Bool.not_false, if_true, Bool.not_eq_true] at hR ⊢
      simp only [hR, Bool.false_eq_true, if_false, Bool.not_false, if_true, List.append_nil]
      rw [out_single]
      by_cases hsane : ddw0Sane w = true <;> simp [hsane, mkErr, codeStr, Rs.Str.app, Rs.Str.lit]

/-! ### the four state-dependent check methods: state untouched, exactly the model's messages -/
theorem check_rdh_at_initial_ihw_eq (cfg : CheckCfg) (v : CdpRunningValidator) (s : CdpSt) (c : SrcRdh.RdhCru) (w : Bytes)
    (h : Abs cfg v s c) :
    Abs cfg (v.check_rdh_at_initial_ihw w).2 s c ∧
    outMsgs (v.check_rdh_at_initial_ihw w).2.f_out = outMsgs v.f_out ++ (if s.rdh.stopBit != 0 then [mkErr s "E12" w] else []) := by
  simp only [CdpRunningValidator.check_rdh_at_initial_ihw, ite_pair_snd, report_each]
  refine ⟨abs_out cfg v s c _ h, ?_⟩
  simp only [out_each, h.rdhv, h.pos, ihw_rdh_eq s w c h.rdh]
  rfl

theorem check_tdh_no_continuation_eq (cfg : CheckCfg) (v : CdpRunningValidator) (s : CdpSt) (c : SrcRdh.RdhCru) (w : Bytes)
    (h : Abs cfg v s c) (hcur : s.tdh = some w) :
    Abs cfg (v.check_tdh_no_continuation w).2 s c ∧
    outMsgs (v.check_tdh_no_continuation w).2.f_out = outMsgs v.f_out ++ tdhNoContinuationChecks s w := by
  simp only [CdpRunningValidator.check_tdh_no_continuation, ite_pair_snd, report_each]
  refine ⟨abs_out cfg v s c _ h, ?_⟩
  have e1 : Rs.unwrapD (StatusWordContainer.tdh v.f_status_words) = tdhOf w := by
    simp [StatusWordContainer.tdh, TdhBuffer.current_tdh, h.tdhs, bufOf, hcur, Rs.unwrapD]
  have e2 : ItsRdhValidator.rdh v.f_rdh_validator = c := by simp [h.rdhv, ItsRdhValidator.rdh, ItsRdhValidator.new, Rs.unwrapD]
  simp only [out_each, e1, e2, h.pos, no_continuation_eq s w c h.rdh]
  rfl

theorem check_tdh_continuation_eq (cfg : CheckCfg) (v : CdpRunningValidator) (s : CdpSt) (c : SrcRdh.RdhCru) (w : Bytes)
    (h : Abs cfg v s c) (hcur : s.tdh = some w) :
    Abs cfg (v.check_tdh_continuation w).2 s c ∧
    outMsgs (v.check_tdh_continuation w).2.f_out = outMsgs v.f_out ++ tdhContinuationChecks s w := by
  simp only [CdpRunningValidator.check_tdh_continuation, ite_pair_snd, report_each]
  refine ⟨abs_out cfg v s c _ h, ?_⟩
  have e1 : Rs.unwrapD (StatusWordContainer.tdh v.f_status_words) = tdhOf w := by
    simp [StatusWordContainer.tdh, TdhBuffer.current_tdh, h.tdhs, bufOf, hcur, Rs.unwrapD]
  have e2 : StatusWordContainer.prv_tdh v.f_status_words = s.prevTdh.map tdhOf := by
    simp [StatusWordContainer.prv_tdh, TdhBuffer.previous_tdh, h.tdhs, bufOf]
  simp only [out_each, e1, e2, h.pos, continuation_eq s w]
  rfl

theorem check_tdh_after_packet_done_eq (cfg : CheckCfg) (v : CdpRunningValidator) (s : CdpSt) (c : SrcRdh.RdhCru) (w : Bytes)
    (h : Abs cfg v s c) (hcur : s.tdh = some w) :
    Abs cfg (v.check_tdh_by_was_tdt_packet_done_true w).2 s c ∧
    outMsgs (v.check_tdh_by_was_tdt_packet_done_true w).2.f_out = outMsgs v.f_out ++
      (match s.prevTdh with | some prev => if tdhBc prev > tdhBc w then [mkErr s "E440" w] else [] | none => []) := by
  cases hp : s.prevTdh with
  | none =>
    have hd := after_packet_done_eq (some w) none s.prevInternalTdh w rfl v.f_status_words (by rw [h.tdhs, hcur, hp])
    simp only [CdpRunningValidator.check_tdh_by_was_tdt_packet_done_true, ite_pair_snd, CdpRunningValidator.report_error, ite_with_out, hd]
    exact ⟨abs_out cfg v s c _ h, by simp⟩
  | some prev =>
    have hd := after_packet_done_eq (some w) (some prev) s.prevInternalTdh w rfl v.f_status_words (by rw [h.tdhs, hcur, hp])
    simp only [CdpRunningValidator.check_tdh_by_was_tdt_packet_done_true, ite_pair_snd, CdpRunningValidator.report_error, ite_with_out, hd]
    refine ⟨abs_out cfg v s c _ h, ?_⟩
    rw [out_single, h.pos]
    by_cases hb : tdhBc prev > tdhBc w <;> simp [hb, mkErr, codeStr, Rs.Str.lit]

/-! ### `process_cdw` = the calibration-word branch of `preData` -/
/-- the model's calibration-word step without the tracker flag (`set_data_seen` is done by the caller `preprocess_data_word`) -/
def cdwStep (cfg : CheckCfg) (s : CdpSt) (w : Bytes) : CdpSt × List Msg :=
  if !cfg.running then (s, []) else
  ({ s with cdw := some w },
   if (match s.cdw with | some prev => cdwUserFields prev != cdwUserFields w && cdwIndex w != 0 | none => false)
   then [mkErr s "E81" w] else [])

theorem preData_cdw (cfg : CheckCfg) (s : CdpSt) (w : Bytes) (h : (s.startOfData && wordId w == ID_CDW) = true) :
    preData cfg s w = .ok ({ (cdwStep cfg s w).1 with startOfData := false }, (cdwStep cfg s w).2) := by
  unfold preData cdwStep
  simp only [h, if_true]
  cases hr : cfg.running <;> rfl

theorem process_cdw_eq (cfg : CheckCfg) (v : CdpRunningValidator) (s : CdpSt) (c : SrcRdh.RdhCru) (w : Bytes)
    (h : Abs cfg v s c) :
    Abs cfg (v.process_cdw w).2 (cdwStep cfg s w).1 c ∧
    outMsgs (v.process_cdw w).2.f_out = outMsgs v.f_out ++ (cdwStep cfg s w).2 := by
  have ht' : SrcWords.Cdw.from_buf w = .ok (cdwOf w) := rfl
  obtain ⟨t, ht, hu, hi⟩ := cdw_fields_eq w
  rw [ht'] at ht; cases ht
  have hrun := h.running
  unfold cdwStep
  by_cases hR : cfg.running = true
  · have hv : v.f_running_checks_enabled = true := by rw [hrun, hR]
    have hcdw : StatusWordContainer.cdw v.f_status_words = s.cdw.map cdwOf := by simp [StatusWordContainer.cdw, h.cdw]
    unfold CdpRunningValidator.process_cdw
    rw [if_neg (show ¬ ((!v.f_running_checks_enabled) = true) by rw [hv]; decide)]
    simp only [hR, Bool.not_true, Bool.false_eq_true, if_false, ht', Rs.Res.unwrapD_ok,
      CdpRunningValidator.report_error, StatusWordContainer.replace_cdw, ite_with_out, hcdw]
    cases hc : s.cdw with
    | none =>
      simp only [Option.map_none, Bool.false_eq_true, if_false, List.append_nil]
      exact ⟨⟨hrun, by simp [h.pos, CdpSt.wordPos], by simp [h.rdhv], h.rdh, by simp [h.ihw], by simp [h.tdhs], by simp [h.tdt],
        by simp [h.ddw0], by simp⟩, trivial⟩
    | some prev =>
      obtain ⟨t', ht2, hu', _⟩ := cdw_fields_eq prev
      have hp' : SrcWords.Cdw.from_buf prev = .ok (cdwOf prev) := rfl
      rw [hp'] at ht2; cases ht2
      simp only [Option.map_some, hu, hi, hu']
      refine ⟨⟨hrun, by simp [h.pos, CdpSt.wordPos], by simp [h.rdhv], h.rdh, by simp [h.ihw], by simp [h.tdhs], by simp [h.tdt],
        by simp [h.ddw0], by simp⟩, ?_⟩
      simp only [out_single, h.pos]
      split <;> simp [mkErr, codeStr, Rs.Str.lit]
  · simp only [Bool.not_eq_true] at hR
    simp only [CdpRunningValidator.process_cdw, hrun, hR, Bool.not_false, if_true, List.append_nil]
    exact ⟨h, trivial⟩

end SrcTie
end FastPasta
