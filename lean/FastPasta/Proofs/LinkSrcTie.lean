/-
  Proofs.LinkSrcTie — the per-word handlers of the link validator (`CdpRunningValidator`, cdp_running.rs) ARE the model's
  (`Model/Cdp.lean`): `preprocess_ihw` = `preIhw`, `preprocess_ddw0` (+ `check_rdh_at_ddw0`) = `preDdw0`, `process_cdw` = the CDW
  branch of `preData`, and the four state-dependent check methods report exactly the model's messages, each at the tracker's current
  word position and quoting the word. Source side: `Spec/LinkSrcGen.lean`, translated on every run by tools/rs2lean.py
  (`rsspec/linkval.json`); the error channel is a value (`f_out : List Rs.Report`, see the `rewrites` / `inject` of the spec).
-/
import FastPasta.Spec.LinkSrcGen
import FastPasta.Proofs.StateSrcTie
namespace FastPasta
namespace SrcTie
open SrcState SrcLink
set_option linter.unusedSimpArgs false

def ihwOf (w : Bytes) : SrcWords.Ihw := (SrcWords.Ihw.from_buf w).unwrapD
def ddw0Of (w : Bytes) : SrcWords.Ddw0 := (SrcWords.Ddw0.from_buf w).unwrapD
def cdwOf (w : Bytes) : SrcWords.Cdw := (SrcWords.Cdw.from_buf w).unwrapD
def tdtOf (w : Bytes) : SrcWords.Tdt := (SrcWords.Tdt.from_buf w).unwrapD

/-- the messages one `report_error` call stands for -/
def reportMsgs (r : Rs.Report) : List Msg :=
  if r.each then r.msg.codes.map (fun k => Msg.error { offset := r.pos, code := codeStr k, word := if r.quoted then some r.word else none })
  else [Msg.error { offset := r.pos, code := codeStr (r.msg.codes.headD 0), word := if r.quoted then some r.word else none }]

def outMsgs (out : List Rs.Report) : List Msg := out.flatMap reportMsgs

theorem outMsgs_append (a b : List Rs.Report) : outMsgs (a ++ b) = outMsgs a ++ outMsgs b := by
  simp [outMsgs]

/-- abstraction: the source validator `v` (projected to the fields the translated handlers use) stands for the model state `s`
    under configuration `cfg`, `c` being the source's copy of the current header -/
structure Abs (cfg : CheckCfg) (v : CdpRunningValidator) (s : CdpSt) (c : SrcRdh.RdhCru) : Prop where
  running : v.f_running_checks_enabled = cfg.running
  period : v.f_trigger_period = cfg.triggerPeriod
  sod : v.f_tracker.f_is_start_of_data = s.startOfData
  pos : v.f_tracker.current_word_mem_pos = s.wordPos
  rdhv : v.f_rdh_validator = ItsRdhValidator.new c
  rdh : toModel c = s.rdh
  ihw : v.f_status_words.f_ihw = s.ihw.map ihwOf
  tdhs : v.f_status_words.f_tdhs = bufOf s.tdh s.prevTdh s.prevInternalTdh
  tdt : v.f_status_words.f_tdt = s.tdt.map tdtOf
  ddw0 : v.f_status_words.f_ddw0 = s.ddw0.map ddw0Of
  cdw : v.f_status_words.f_cdw = s.cdw.map cdwOf

/-- `preprocess_ihw` = `preIhw` -/
theorem preprocess_ihw_eq (cfg : CheckCfg) (v : CdpRunningValidator) (s : CdpSt) (c : SrcRdh.RdhCru) (w : Bytes)
    (h : Abs cfg v s c) :
    Abs cfg (v.preprocess_ihw w).2 (preIhw s w).1 c ∧
    outMsgs (v.preprocess_ihw w).2.f_out = outMsgs v.f_out ++ (preIhw s w).2 := by
  obtain ⟨t, ht, hs⟩ := ihw_sane_eq w
  have ht' : SrcWords.Ihw.from_buf w = .ok (ihwOf w) := rfl
  rw [ht'] at ht; cases ht
  simp only [CdpRunningValidator.preprocess_ihw, StatusWordContainer.sanity_check_ihw, StatusWordSanityChecker.check_ihw, hs,
    CdpRunningValidator.report_error, StatusWordContainer.replace_ihw, preIhw, ht', Rs.Res.unwrapD_ok]
  by_cases hsane : ihwSane w = true
  · simp only [hsane, Bool.not_true, Bool.false_eq_true, if_false, if_true, List.append_nil]
    exact ⟨⟨h.running, h.period, h.sod, h.pos, h.rdhv, h.rdh, by simp, h.tdhs, h.tdt, h.ddw0, h.cdw⟩, trivial⟩
  · simp only [hsane, Bool.not_false, if_true, if_false]
    refine ⟨⟨h.running, h.period, h.sod, h.pos, h.rdhv, h.rdh, by simp, h.tdhs, h.tdt, h.ddw0, h.cdw⟩, ?_⟩
    simp [outMsgs_append, outMsgs, reportMsgs, mkErr, h.pos, codeStr, Rs.Str.app, Rs.Str.lit]

/-! ### helpers: what a conditional report adds -/
theorem abs_out (cfg : CheckCfg) (v : CdpRunningValidator) (s : CdpSt) (c : SrcRdh.RdhCru) (o : List Rs.Report) (h : Abs cfg v s c) :
    Abs cfg { v with f_out := o } s c := ⟨h.running, h.period, h.sod, h.pos, h.rdhv, h.rdh, h.ihw, h.tdhs, h.tdt, h.ddw0, h.cdw⟩

/-- `if let Err(es) = r { es.into_iter().for_each(|e| self.report_error(e, w)) }`: one message per code of the error, nothing for `Ok` -/
theorem report_each (v : CdpRunningValidator) (r : Rs.Res Unit) (w : Bytes) :
    (if r.isErr then (v.report_errors r.errStr w).2 else v) =
      { v with f_out := v.f_out ++ (if r.isErr then [Rs.Report.mk v.f_tracker.current_word_mem_pos r.errStr w true true] else []) } := by
  cases r <;> simp [CdpRunningValidator.report_errors]

theorem out_each (o : List Rs.Report) (r : Rs.Res Unit) (pos : Nat) (w : Bytes) :
    outMsgs (o ++ (if r.isErr then [Rs.Report.mk pos r.errStr w true true] else [])) =
      outMsgs o ++ r.errStr.codes.map (fun k => Msg.error { offset := pos, code := codeStr k, word := some w }) := by
  cases r <;> simp [outMsgs, reportMsgs]

theorem out_single (o : List Rs.Report) (c : Prop) [Decidable c] (pos : Nat) (m : Rs.Str) (w : Bytes) :
    outMsgs (o ++ (if c then [Rs.Report.mk pos m w false true] else [])) =
      outMsgs o ++ (if c then [Msg.error { offset := pos, code := codeStr (m.codes.headD 0), word := some w }] else []) := by
  split <;> simp [outMsgs, reportMsgs]

theorem ite_pair_snd {α} (c : Prop) [Decidable c] (a b : α) : (if c then ((), a) else ((), b)).2 = if c then a else b := by
  split <;> rfl

theorem ite_with_out (v : CdpRunningValidator) (c : Prop) [Decidable c] (l : List Rs.Report) :
    (if c then { v with f_out := v.f_out ++ l } else v) = { v with f_out := v.f_out ++ (if c then l else []) } := by
  split <;> simp

theorem check_rdh_at_ddw0_eq (v : CdpRunningValidator) (w : Bytes) :
    (v.check_rdh_at_ddw0 w).2 = { v with f_out := v.f_out ++
      (if v.f_rdh_validator.check_at_ddw0.isErr then [Rs.Report.mk v.f_tracker.current_word_mem_pos v.f_rdh_validator.check_at_ddw0.errStr w true true] else []) } := by
  simp only [CdpRunningValidator.check_rdh_at_ddw0, ite_pair_snd, report_each]

/-- `preprocess_ddw0` (with `check_rdh_at_ddw0`) = `preDdw0` -/
theorem preprocess_ddw0_eq (cfg : CheckCfg) (v : CdpRunningValidator) (s : CdpSt) (c : SrcRdh.RdhCru) (w : Bytes)
    (h : Abs cfg v s c) :
    Abs cfg (v.preprocess_ddw0 w).2 (preDdw0 cfg s w).1 c ∧
    outMsgs (v.preprocess_ddw0 w).2.f_out = outMsgs v.f_out ++ (preDdw0 cfg s w).2 := by
  obtain ⟨t, ht, hs⟩ := ddw0_sane_eq w
  have ht' : SrcWords.Ddw0.from_buf w = .ok (ddw0Of w) := rfl
  rw [ht'] at ht; cases ht
  have hr := ddw0_rdh_eq s w c h.rdh
  have hrun := h.running
  have hpos := h.pos
  have hrv := h.rdhv
  simp only [CdpRunningValidator.preprocess_ddw0, check_rdh_at_ddw0_eq, StatusWordContainer.sanity_check_ddw0,
    StatusWordSanityChecker.check_ddw0, hs, CdpRunningValidator.report_error, StatusWordContainer.replace_ddw, preDdw0, ht',
    Rs.Res.unwrapD_ok, hr, ite_with_out]
  refine ⟨⟨?_, ?_, ?_, ?_, ?_, h.rdh, ?_, ?_, ?_, ?_, ?_⟩, ?_⟩
  · split <;> simp [hrun]
  · split <;> simp [h.period]
  · split <;> simp [h.sod]
  · split <;> simp [hpos, CdpSt.wordPos]
  · split <;> simp [hrv]
  · split <;> simp [h.ihw]
  · split <;> simp [h.tdhs]
  · split <;> simp [h.tdt]
  · split <;> simp
  · split <;> simp [h.cdw]
  · rw [hrun, hrv, hpos]
    by_cases hR : cfg.running = true
    · simp only [hR, if_true, Bool.not_true, Bool.false_eq_true, if_false]
      rw [out_each, out_single]
      by_cases hsane : ddw0Sane w = true <;> simp [hsane, mkErr, codeStr, Rs.Str.app, Rs.Str.lit]
    · simp only [hR, if_false, Bool.not_false, if_true, Bool.not_eq_true] at hR ⊢
      simp only [hR, Bool.false_eq_true, if_false, Bool.not_false, if_true, List.append_nil]
      rw [out_single]
      by_cases hsane : ddw0Sane w = true <;> simp [hsane, mkErr, codeStr, Rs.Str.app, Rs.Str.lit]

/-! ### the four state-dependent check methods: state untouched, exactly the model's messages -/
theorem check_rdh_at_initial_ihw_eq (cfg : CheckCfg) (v : CdpRunningValidator) (s : CdpSt) (c : SrcRdh.RdhCru) (w : Bytes)
    (h : Abs cfg v s c) :
    Abs cfg (v.check_rdh_at_initial_ihw w).2 s c ∧
    outMsgs (v.check_rdh_at_initial_ihw w).2.f_out = outMsgs v.f_out ++ (if s.rdh.stopBit != 0 then [mkErr s "E12" w] else []) := by
  simp only [CdpRunningValidator.check_rdh_at_initial_ihw, ite_pair_snd, report_each]
  refine ⟨abs_out cfg v s c _ h, ?_⟩
  simp only [out_each, h.rdhv, h.pos, ihw_rdh_eq s w c h.rdh]
  rfl

theorem check_tdh_no_continuation_eq (cfg : CheckCfg) (v : CdpRunningValidator) (s : CdpSt) (c : SrcRdh.RdhCru) (w : Bytes)
    (h : Abs cfg v s c) (hcur : s.tdh = some w) :
    Abs cfg (v.check_tdh_no_continuation w).2 s c ∧
    outMsgs (v.check_tdh_no_continuation w).2.f_out = outMsgs v.f_out ++ tdhNoContinuationChecks s w := by
  simp only [CdpRunningValidator.check_tdh_no_continuation, ite_pair_snd, report_each]
  refine ⟨abs_out cfg v s c _ h, ?_⟩
  have e1 : Rs.unwrapD (StatusWordContainer.tdh v.f_status_words) = tdhOf w := by
    simp [StatusWordContainer.tdh, TdhBuffer.current_tdh, h.tdhs, bufOf, hcur, Rs.unwrapD]
  have e2 : ItsRdhValidator.rdh v.f_rdh_validator = c := by simp [h.rdhv, ItsRdhValidator.rdh, ItsRdhValidator.new, Rs.unwrapD]
  simp only [out_each, e1, e2, h.pos, no_continuation_eq s w c h.rdh]
  rfl

theorem check_tdh_continuation_eq (cfg : CheckCfg) (v : CdpRunningValidator) (s : CdpSt) (c : SrcRdh.RdhCru) (w : Bytes)
    (h : Abs cfg v s c) (hcur : s.tdh = some w) :
    Abs cfg (v.check_tdh_continuation w).2 s c ∧
    outMsgs (v.check_tdh_continuation w).2.f_out = outMsgs v.f_out ++ tdhContinuationChecks s w := by
  simp only [CdpRunningValidator.check_tdh_continuation, ite_pair_snd, report_each]
  refine ⟨abs_out cfg v s c _ h, ?_⟩
  have e1 : Rs.unwrapD (StatusWordContainer.tdh v.f_status_words) = tdhOf w := by
    simp [StatusWordContainer.tdh, TdhBuffer.current_tdh, h.tdhs, bufOf, hcur, Rs.unwrapD]
  have e2 : StatusWordContainer.prv_tdh v.f_status_words = s.prevTdh.map tdhOf := by
    simp [StatusWordContainer.prv_tdh, TdhBuffer.previous_tdh, h.tdhs, bufOf]
  simp only [out_each, e1, e2, h.pos, continuation_eq s w]
  rfl

theorem check_tdh_after_packet_done_eq (cfg : CheckCfg) (v : CdpRunningValidator) (s : CdpSt) (c : SrcRdh.RdhCru) (w : Bytes)
    (h : Abs cfg v s c) (hcur : s.tdh = some w) :
    Abs cfg (v.check_tdh_by_was_tdt_packet_done_true w).2 s c ∧
    outMsgs (v.check_tdh_by_was_tdt_packet_done_true w).2.f_out = outMsgs v.f_out ++
      (match s.prevTdh with | some prev => if tdhBc prev > tdhBc w then [mkErr s "E440" w] else [] | none => []) := by
  cases hp : s.prevTdh with
  | none =>
    have hd := after_packet_done_eq (some w) none s.prevInternalTdh w rfl v.f_status_words (by rw [h.tdhs, hcur, hp])
    simp only [CdpRunningValidator.check_tdh_by_was_tdt_packet_done_true, ite_pair_snd, CdpRunningValidator.report_error, ite_with_out, hd]
    exact ⟨abs_out cfg v s c _ h, by simp⟩
  | some prev =>
    have hd := after_packet_done_eq (some w) (some prev) s.prevInternalTdh w rfl v.f_status_words (by rw [h.tdhs, hcur, hp])
    simp only [CdpRunningValidator.check_tdh_by_was_tdt_packet_done_true, ite_pair_snd, CdpRunningValidator.report_error, ite_with_out, hd]
    refine ⟨abs_out cfg v s c _ h, ?_⟩
    rw [out_single, h.pos]
    by_cases hb : tdhBc prev > tdhBc w <;> simp [hb, mkErr, codeStr, Rs.Str.lit]

/-! ### `process_cdw` = the calibration-word branch of `preData` -/
/-- the model's calibration-word step without the tracker flag (`set_data_seen` is done by the caller `preprocess_data_word`) -/
def cdwStep (cfg : CheckCfg) (s : CdpSt) (w : Bytes) : CdpSt × List Msg :=
  if !cfg.running then (s, []) else
  ({ s with cdw := some w },
   if (match s.cdw with | some prev => cdwUserFields prev != cdwUserFields w && cdwIndex w != 0 | none => false)
   then [mkErr s "E81" w] else [])

theorem preData_cdw (cfg : CheckCfg) (s : CdpSt) (w : Bytes) (h : (s.startOfData && wordId w == ID_CDW) = true) :
    preData cfg s w = .ok ({ (cdwStep cfg s w).1 with startOfData := false }, (cdwStep cfg s w).2) := by
  unfold preData cdwStep
  simp only [h, if_true]
  cases hr : cfg.running <;> rfl

theorem process_cdw_eq (cfg : CheckCfg) (v : CdpRunningValidator) (s : CdpSt) (c : SrcRdh.RdhCru) (w : Bytes)
    (h : Abs cfg v s c) :
    Abs cfg (v.process_cdw w).2 (cdwStep cfg s w).1 c ∧
    outMsgs (v.process_cdw w).2.f_out = outMsgs v.f_out ++ (cdwStep cfg s w).2 := by
  have ht' : SrcWords.Cdw.from_buf w = .ok (cdwOf w) := rfl
  obtain ⟨t, ht, hu, hi⟩ := cdw_fields_eq w
  rw [ht'] at ht; cases ht
  have hrun := h.running
  unfold cdwStep
  by_cases hR : cfg.running = true
  · have hv : v.f_running_checks_enabled = true := by rw [hrun, hR]
    have hcdw : StatusWordContainer.cdw v.f_status_words = s.cdw.map cdwOf := by simp [StatusWordContainer.cdw, h.cdw]
    unfold CdpRunningValidator.process_cdw
    rw [if_neg (show ¬ ((!v.f_running_checks_enabled) = true) by rw [hv]; decide)]
    simp only [hR, Bool.not_true, Bool.false_eq_true, if_false, ht', Rs.Res.unwrapD_ok,
      CdpRunningValidator.report_error, StatusWordContainer.replace_cdw, ite_with_out, hcdw]
    cases hc : s.cdw with
    | none =>
      simp only [Option.map_none, Bool.false_eq_true, if_false, List.append_nil]
      exact ⟨⟨hrun, by simp [h.period], by simp [h.sod], by simp [h.pos, CdpSt.wordPos], by simp [h.rdhv], h.rdh, by simp [h.ihw], by simp [h.tdhs], by simp [h.tdt],
        by simp [h.ddw0], by simp⟩, trivial⟩
    | some prev =>
      obtain ⟨t', ht2, hu', _⟩ := cdw_fields_eq prev
      have hp' : SrcWords.Cdw.from_buf prev = .ok (cdwOf prev) := rfl
      rw [hp'] at ht2; cases ht2
      simp only [Option.map_some, hu, hi, hu']
      refine ⟨⟨hrun, by simp [h.period], by simp [h.sod], by simp [h.pos, CdpSt.wordPos], by simp [h.rdhv], h.rdh, by simp [h.ihw], by simp [h.tdhs], by simp [h.tdt],
        by simp [h.ddw0], by simp⟩, ?_⟩
      simp only [out_single, h.pos]
      split <;> simp [mkErr, codeStr, Rs.Str.lit]
  · simp only [Bool.not_eq_true] at hR
    simp only [CdpRunningValidator.process_cdw, hrun, hR, Bool.not_false, if_true, List.append_nil]
    exact ⟨h, trivial⟩

/-! ### TDH / TDT / data words, in the configurations without the readout-frame validator (`cfg.stave = false`; the translation of
    these handlers is specialised to `readout_frame_validator = None`, see `none_fields` in rsspec/linkval.json) -/
/-- the state spec re-translates the TDH sanity check (same Rust struct as the state-dependent checks): it is the one of `SrcWords` -/
theorem tdh_sanity_same (t : SrcWords.Tdh) : SrcState.TdhValidator.sanity_check t = SrcWords.TdhValidator.sanity_check t := rfl

theorem preprocess_tdh_eq (cfg : CheckCfg) (v : CdpRunningValidator) (s : CdpSt) (c : SrcRdh.RdhCru) (w : Bytes)
    (h : Abs cfg v s c) (hst : cfg.stave = false) :
    Abs cfg (v.preprocess_tdh w).2 (preTdh cfg s w).1 c ∧
    outMsgs (v.preprocess_tdh w).2.f_out = outMsgs v.f_out ++ (preTdh cfg s w).2 := by
  obtain ⟨t, ht, hs⟩ := tdh_sane_eq w
  rw [tdhOf_from_buf] at ht; cases ht
  have hrep := tdh_replace_eq s w
  simp only [CdpRunningValidator.preprocess_tdh, StatusWordContainer.sanity_check_tdh, StatusWordSanityChecker.check_tdh, tdh_sanity_same, hs,
    CdpRunningValidator.report_error, tdhOf_from_buf, Rs.Res.unwrapD_ok, ite_with_out, preTdh, hst, Bool.false_and,
    Bool.false_eq_true, if_false, (container_replace_tdh _ _).1]
  refine ⟨⟨h.running, h.period, by simp [h.sod, replaceTdh], by simp [h.pos, CdpSt.wordPos, replaceTdh], h.rdhv, by simp [h.rdh, replaceTdh],
    by simp [h.ihw, replaceTdh], ?_, by simp [h.tdt, replaceTdh], by simp [h.ddw0, replaceTdh], by simp [h.cdw, replaceTdh]⟩, ?_⟩
  · simp only [h.tdhs, hrep]
  · rw [out_single, h.pos]
    by_cases hsane : tdhSane w = true <;> simp [hsane, mkErr, codeStr, Rs.Str.app, Rs.Str.lit]

theorem preprocess_tdt_eq (cfg : CheckCfg) (v : CdpRunningValidator) (s : CdpSt) (c : SrcRdh.RdhCru) (w : Bytes)
    (h : Abs cfg v s c) (hst : cfg.stave = false) :
    ∃ s' ms, preTdt cfg s w = .ok (s', ms) ∧ Abs cfg (v.preprocess_tdt w).2 s' c ∧
      outMsgs (v.preprocess_tdt w).2.f_out = outMsgs v.f_out ++ ms := by
  obtain ⟨t, ht, hs⟩ := tdt_sane_eq w
  have ht' : SrcWords.Tdt.from_buf w = .ok (tdtOf w) := rfl
  rw [ht'] at ht; cases ht
  have hpre : preTdt cfg s w = .ok ({ s with tdt := some w }, if tdtSane w then [] else [mkErr s "E50" w]) := by
    simp only [preTdt, hst, Bool.false_and, Bool.false_eq_true, if_false]
  refine ⟨_, _, hpre, ?_, ?_⟩
  · simp only [CdpRunningValidator.preprocess_tdt, StatusWordContainer.sanity_check_tdt, StatusWordSanityChecker.check_tdt, hs,
      CdpRunningValidator.report_error, ht', Rs.Res.unwrapD_ok, ite_with_out, StatusWordContainer.replace_tdt]
    exact ⟨h.running, h.period, h.sod, by simp [h.pos, CdpSt.wordPos], h.rdhv, h.rdh, by simp [h.ihw], by simp [h.tdhs], by simp,
      by simp [h.ddw0], by simp [h.cdw]⟩
  · simp only [CdpRunningValidator.preprocess_tdt, StatusWordContainer.sanity_check_tdt, StatusWordSanityChecker.check_tdt, hs,
      CdpRunningValidator.report_error, ht', Rs.Res.unwrapD_ok, ite_with_out, StatusWordContainer.replace_tdt]
    rw [out_single, h.pos]
    by_cases hsane : tdtSane w = true <;> simp [hsane, mkErr, codeStr, Rs.Str.app, Rs.Str.lit]

/-- `check_tdh_trigger_interval` = `tdhTriggerInterval` ([E45], sent without a word dump) -/
theorem check_tdh_trigger_interval_eq (cfg : CheckCfg) (v : CdpRunningValidator) (s : CdpSt) (c : SrcRdh.RdhCru) (w : Bytes)
    (h : Abs cfg v s c) (hcur : s.tdh.isSome = true ∨ s.prevInternalTdh = none) :
    Abs cfg (v.check_tdh_trigger_interval w).2 s c ∧
    outMsgs (v.check_tdh_trigger_interval w).2.f_out = outMsgs v.f_out ++ tdhTriggerInterval cfg s := by
  have hper := h.period
  have e1 : StatusWordContainer.tdh_previous_with_internal_trg v.f_status_words = s.prevInternalTdh.map tdhOf := by
    simp [StatusWordContainer.tdh_previous_with_internal_trg, TdhBuffer.previous_tdh_with_internal_trg, h.tdhs, bufOf]
  have e2 : StatusWordContainer.tdh v.f_status_words = s.tdh.map tdhOf := by
    simp [StatusWordContainer.tdh, TdhBuffer.current_tdh, h.tdhs, bufOf]
  unfold CdpRunningValidator.check_tdh_trigger_interval tdhTriggerInterval
  rw [hper, e1, e2]
  cases hp : cfg.triggerPeriod with
  | none => exact ⟨by simpa using h, by simp⟩
  | some p =>
    cases hpi : s.prevInternalTdh with
    | none => exact ⟨by simpa using h, by simp⟩
    | some prev =>
      cases hc : s.tdh with
      | none => rw [hc, hpi] at hcur; simp at hcur
      | some cur =>
        obtain ⟨hie, hcode⟩ := trigger_interval_eq cur prev p
        have hint := (tdhOf_fields cur).2.1
        simp only [Option.map_some, Option.isSome_some, if_true, Rs.unwrapD, Option.getD_some, hint, hie,
          CdpRunningValidator.report_noword]
        by_cases hI : tdhInternal cur = 1
        · by_cases hD : (detectedPeriod (tdhBc cur) (tdhBc prev) != p) = true
          · have hcodes := hcode (by rw [hie]; exact hD)
            simp only [hI, beq_self_eq_true, if_true, hD, Bool.and_true]
            refine ⟨abs_out cfg v s c _ h, ?_⟩
            simp [outMsgs_append, outMsgs, reportMsgs, hcodes, mkErrNoWord, codeStr, h.pos]
          · simp only [hI, beq_self_eq_true, if_true, hD, Bool.and_false, Bool.false_eq_true, if_false, List.append_nil]
            exact ⟨h, trivial⟩
        · have : (tdhInternal cur == 1) = false := by simpa using hI
          simp only [this, Bool.false_eq_true, if_false, Bool.false_and, List.append_nil]
          exact ⟨h, trivial⟩

/-! ### data words -/
theorem ib_check_isErr (w : Bytes) (lanes : Nat) :
    (SrcWords.IbDataWordValidator.check w lanes).isErr = !laneActive (ibLane (wordId w)) lanes := by
  simp only [SrcWords.IbDataWordValidator.check, wordId, is_lane_active_eq, ← ib_lane_eq, SrcWords.ib_data_word_id_to_lane]
  split <;> simp_all

theorem ihw_lanes (v : CdpRunningValidator) (s : CdpSt) (ihw : Bytes) (hi : v.f_status_words.f_ihw = s.ihw.map ihwOf) (hs : s.ihw = some ihw) :
    SrcWords.Ihw.active_lanes (Rs.unwrapD (StatusWordContainer.ihw v.f_status_words)) = ihwActiveLanes ihw := by
  obtain ⟨t, ht, hl⟩ := ihw_active_lanes_eq ihw
  have : SrcWords.Ihw.from_buf ihw = .ok (ihwOf ihw) := rfl
  rw [this] at ht; cases ht
  simp [StatusWordContainer.ihw, hi, hs, Rs.unwrapD, hl]

theorem process_ib_eq (cfg : CheckCfg) (v : CdpRunningValidator) (s : CdpSt) (c : SrcRdh.RdhCru) (w ihw : Bytes)
    (h : Abs cfg v s c) (hi : cfg.running = true → s.ihw = some ihw) :
    Abs cfg (v.process_ib_data_word w).2 s c ∧
    outMsgs (v.process_ib_data_word w).2.f_out = outMsgs v.f_out ++
      (if cfg.running then (if laneActive (ibLane (wordId w)) (ihwActiveLanes ihw) then [] else [mkErr s "E72" w]) else []) := by
  by_cases hR : cfg.running = true
  · have hv : v.f_running_checks_enabled = true := by rw [h.running, hR]
    unfold CdpRunningValidator.process_ib_data_word
    rw [if_neg (show ¬ ((!v.f_running_checks_enabled) = true) by rw [hv]; decide)]
    simp only [ihw_lanes v s ihw h.ihw (hi hR), ib_check_isErr, CdpRunningValidator.report_error, ite_with_out, hR, if_true]
    refine ⟨abs_out cfg v s c _ h, ?_⟩
    rw [out_single, h.pos]
    have hc := ib_check_eq w (ihwActiveLanes ihw)
    by_cases ha : laneActive (ibLane (wordId w)) (ihwActiveLanes ihw) = true <;> simp [ha, hc, mkErr, codeStr]
  · simp only [Bool.not_eq_true] at hR
    have hv : v.f_running_checks_enabled = false := by rw [h.running, hR]
    unfold CdpRunningValidator.process_ib_data_word
    rw [if_pos (show ((!v.f_running_checks_enabled) = true) by rw [hv]; decide)]
    simp only [hR, Bool.false_eq_true, if_false, List.append_nil]
    exact ⟨h, trivial⟩

theorem process_ob_eq (cfg : CheckCfg) (v : CdpRunningValidator) (s : CdpSt) (c : SrcRdh.RdhCru) (w ihw : Bytes)
    (h : Abs cfg v s c) (hi : cfg.running = true → s.ihw = some ihw) :
    Abs cfg (v.process_ob_data_word w).2 s c ∧
    outMsgs (v.process_ob_data_word w).2.f_out = outMsgs v.f_out ++
      (if cfg.running then
        (if laneActive (obLane (wordId w)) (ihwActiveLanes ihw) then [] else [mkErr s "E71" w]) ++
        (if obConnectorInput (wordId w) > 6 then [mkErr s "E73" w] else []) else []) := by
  by_cases hR : cfg.running = true
  · have hv : v.f_running_checks_enabled = true := by rw [h.running, hR]
    unfold CdpRunningValidator.process_ob_data_word
    rw [if_neg (show ¬ ((!v.f_running_checks_enabled) = true) by rw [hv]; decide)]
    simp only [ihw_lanes v s ihw h.ihw (hi hR), report_each, hR, if_true]
    refine ⟨abs_out cfg v s c _ h, ?_⟩
    rw [out_each, h.pos, ob_check_eq]
    by_cases ha : laneActive (obLane (wordId w)) (ihwActiveLanes ihw) = true <;> by_cases hb : obConnectorInput (wordId w) > 6 <;>
      simp [ha, hb, mkErr, codeStr]
  · simp only [Bool.not_eq_true] at hR
    have hv : v.f_running_checks_enabled = false := by rw [h.running, hR]
    unfold CdpRunningValidator.process_ob_data_word
    rw [if_pos (show ((!v.f_running_checks_enabled) = true) by rw [hv]; decide)]
    simp only [hR, Bool.false_eq_true, if_false, List.append_nil]
    exact ⟨h, trivial⟩

/-- `set_data_seen` only clears the start-of-data flag -/
theorem abs_data_seen (cfg : CheckCfg) (v : CdpRunningValidator) (s : CdpSt) (c : SrcRdh.RdhCru) (h : Abs cfg v s c) :
    Abs cfg { v with f_tracker := (CdpTracker.set_data_seen v.f_tracker).2 } { s with startOfData := false } c :=
  ⟨h.running, h.period, rfl, h.pos, h.rdhv, h.rdh, h.ihw, h.tdhs, h.tdt, h.ddw0, h.cdw⟩

/-- the part of `preprocess_data_word` before `set_data_seen` -/
def dataCore (v : CdpRunningValidator) (w : Bytes) : CdpRunningValidator :=
  if (CdpTracker.start_of_data v.f_tracker && (bAt w 9 == SrcWords.Cdw.ID)) then (v.process_cdw w).2
  else
    let v1 := if (SrcWords.DataWordSanityChecker.check_any w).isErr
      then (v.report_error ((Rs.Str.lit true [70]).app (SrcWords.DataWordSanityChecker.check_any w).errStr) w).2 else v
    if (bAt w 9 >>> 5 == 1) then (v1.process_ib_data_word w).2
    else if (bAt w 9 >>> 5 == 2) then (v1.process_ob_data_word w).2 else v1

theorem data_unfold (v : CdpRunningValidator) (w : Bytes) :
    (v.preprocess_data_word w).2 = { dataCore v w with f_tracker := (CdpTracker.set_data_seen (dataCore v w).f_tracker).2 } := rfl

theorem dataCore_eq (cfg : CheckCfg) (v : CdpRunningValidator) (s : CdpSt) (c : SrcRdh.RdhCru) (w : Bytes)
    (h : Abs cfg v s c) (hst : cfg.stave = false) (s' : CdpSt) (ms : List Msg) (hok : preData cfg s w = .ok (s', ms)) :
    ∃ sX, s' = { sX with startOfData := false } ∧ Abs cfg (dataCore v w) sX c ∧
      outMsgs (dataCore v w).f_out = outMsgs v.f_out ++ ms := by
  have hsod : CdpTracker.start_of_data v.f_tracker = s.startOfData := h.sod
  have hid : (bAt w 9 == SrcWords.Cdw.ID) = (wordId w == ID_CDW) := rfl
  unfold dataCore
  rw [hsod, hid]
  by_cases hC : (s.startOfData && wordId w == ID_CDW) = true
  · rw [if_pos hC]
    rw [preData_cdw cfg s w hC] at hok
    cases hok
    exact ⟨_, rfl, (process_cdw_eq cfg v s c w h).1, (process_cdw_eq cfg v s c w h).2⟩
  · rw [if_neg hC]
    -- the sanity report
    have h1 : Abs cfg (if (SrcWords.DataWordSanityChecker.check_any w).isErr
        then (v.report_error ((Rs.Str.lit true [70]).app (SrcWords.DataWordSanityChecker.check_any w).errStr) w).2 else v) s c ∧
        outMsgs (if (SrcWords.DataWordSanityChecker.check_any w).isErr
          then (v.report_error ((Rs.Str.lit true [70]).app (SrcWords.DataWordSanityChecker.check_any w).errStr) w).2 else v).f_out =
          outMsgs v.f_out ++ (if isValidDataId (wordId w) then [] else [mkErr s "E70" w]) := by
      simp only [CdpRunningValidator.report_error, ite_with_out, check_any_eq]
      refine ⟨abs_out cfg v s c _ h, ?_⟩
      rw [out_single, h.pos]
      by_cases hv : isValidDataId (wordId w) = true <;> simp [hv, mkErr, codeStr, Rs.Str.app, Rs.Str.lit]
    generalize (if (SrcWords.DataWordSanityChecker.check_any w).isErr
        then (v.report_error ((Rs.Str.lit true [70]).app (SrcWords.DataWordSanityChecker.check_any w).errStr) w).2 else v) = v1 at h1 ⊢
    obtain ⟨ha1, ho1⟩ := h1
    have e5 : bAt w 9 >>> 5 = wordId w / 32 := by simp [wordId, Nat.shiftRight_eq_div_pow]
    simp only [e5]
    unfold preData at hok
    simp only [hC, Bool.false_eq_true, if_false, hst] at hok
    by_cases hR : cfg.running = true
    · by_cases k1 : wordId w / 32 = 1
      · simp only [hR, k1, Bool.not_true, bne_self_eq_false, Bool.false_and, Bool.or_false, Bool.false_eq_true, if_false,
          beq_self_eq_true, if_true] at hok ⊢
        cases hi : s.ihw with
        | none => rw [hi] at hok; cases hok
        | some ihw =>
          rw [hi] at hok
          simp only [Bool.not_false, if_true, Except.ok.injEq, Prod.mk.injEq] at hok
          obtain ⟨rfl, rfl⟩ := hok
          obtain ⟨a, o⟩ := process_ib_eq cfg v1 s c w ihw ha1 (fun _ => hi)
          exact ⟨s, by simp [hi], a, by rw [o, ho1, hR]; simp [List.append_assoc]⟩
      · by_cases k2 : wordId w / 32 = 2
        · have k1' : (wordId w / 32 == 1) = false := by simp [k2]
          have t21 : ((2 : Nat) == 1) = false := rfl
          simp only [hR, k2, k1', t21, Bool.not_true, bne_self_eq_false, Bool.and_false, Bool.or_false, Bool.false_eq_true, if_false,
            beq_self_eq_true, if_true] at hok ⊢
          cases hi : s.ihw with
          | none => rw [hi] at hok; cases hok
          | some ihw =>
            rw [hi] at hok
            simp only [Bool.not_false, if_true, Except.ok.injEq, Prod.mk.injEq] at hok
            obtain ⟨rfl, rfl⟩ := hok
            obtain ⟨a, o⟩ := process_ob_eq cfg v1 s c w ihw ha1 (fun _ => hi)
            exact ⟨s, by simp [hi], a, by rw [o, ho1, hR]; simp [List.append_assoc]⟩
        · have k1' : (wordId w / 32 == 1) = false := by simpa using k1
          have k2' : (wordId w / 32 == 2) = false := by simpa using k2
          have n1 : (wordId w / 32 != 1) = true := by simpa using k1
          have n2 : (wordId w / 32 != 2) = true := by simpa using k2
          simp only [k1', k2', n1, n2, Bool.and_self, Bool.or_true, if_true, Bool.false_eq_true, if_false,
            Except.ok.injEq, Prod.mk.injEq] at hok ⊢
          obtain ⟨rfl, rfl⟩ := hok
          exact ⟨s, rfl, ha1, ho1⟩
    · simp only [Bool.not_eq_true] at hR
      simp only [hR, Bool.not_false, Bool.true_or, if_true, Except.ok.injEq, Prod.mk.injEq] at hok
      obtain ⟨rfl, rfl⟩ := hok
      by_cases k1 : wordId w / 32 = 1
      · simp only [k1, beq_self_eq_true, if_true]
        obtain ⟨a, o⟩ := process_ib_eq cfg v1 s c w [] ha1 (fun hh => by rw [hR] at hh; cases hh)
        exact ⟨s, rfl, a, by rw [o, ho1, hR]; simp⟩
      · have k1' : (wordId w / 32 == 1) = false := by simpa using k1
        simp only [k1', Bool.false_eq_true, if_false]
        by_cases k2 : wordId w / 32 = 2
        · simp only [k2, beq_self_eq_true, if_true]
          obtain ⟨a, o⟩ := process_ob_eq cfg v1 s c w [] ha1 (fun hh => by rw [hR] at hh; cases hh)
          exact ⟨s, rfl, a, by rw [o, ho1, hR]; simp⟩
        · have k2' : (wordId w / 32 == 2) = false := by simpa using k2
          simp only [k2', Bool.false_eq_true, if_false]
          exact ⟨s, rfl, ha1, ho1⟩

/-- `preprocess_data_word` = `preData` (data words and calibration words; configurations without the readout-frame validator) -/
theorem preprocess_data_word_eq (cfg : CheckCfg) (v : CdpRunningValidator) (s : CdpSt) (c : SrcRdh.RdhCru) (w : Bytes)
    (h : Abs cfg v s c) (hst : cfg.stave = false) (s' : CdpSt) (ms : List Msg) (hok : preData cfg s w = .ok (s', ms)) :
    Abs cfg (v.preprocess_data_word w).2 s' c ∧ outMsgs (v.preprocess_data_word w).2.f_out = outMsgs v.f_out ++ ms := by
  obtain ⟨sX, rfl, ha, ho⟩ := dataCore_eq cfg v s c w h hst s' ms hok
  rw [data_unfold]
  exact ⟨abs_data_seen cfg _ sX c ha, ho⟩

end SrcTie
end FastPasta
