/-
  Proofs.StateSrcTie — the state-dependent pieces of the per-word validator model (`Model/Cdp.lean`) ARE what
  `tools/rs2lean.py` translates from the Rust sources on every run (`Spec/StateSrcGen.lean`, which re-uses the word and RDH
  structures of `WordsSrcGen` / `RdhSrcGen`):
    * `CdpTracker` (cdp_tracker.rs): `new`, `incr_word_count`, `current_word_mem_pos`, `start_of_data`, `set_data_seen`
      = `payloadPos / wordCount / slot / startOfData` and `CdpSt.wordPos` — the offset every word-level message carries (C07);
    * `TdhBuffer::replace` / `StatusWordContainer` (status_word/util.rs) = `replaceTdh` (current, previous, previous internal);
    * `TdhValidator::check_tdh_no_continuation` (+ `check_tdh_rdh_bc_trigger_type_match`), `check_continuation`,
      `check_after_tdt_packet_done_true`, `check_trigger_interval` / `matches_trigger_interval` (status_word/tdh.rs)
      = the code lists E42/E444/E445/E44, E41/E441/E442/E443, E440, E45 with `detectedPeriod`;
    * `ItsRdhValidator::check_at_ddw0`, `check_at_initial_ihw` (cdp_running/rdh_validator.rs) = E110/E111, E12.
  Not translated: `cdp_running.rs` itself (which of these is called for which word class) — tied by correspondence and by C09.
-/
import FastPasta.Spec.StateSrcGen
import FastPasta.Proofs.RdhSrcTie
namespace FastPasta
namespace SrcTie
open SrcState
set_option linter.unusedSimpArgs false

/-! ### word bytes as the source's structs -/
def tdhOf (w : Bytes) : SrcWords.Tdh :=
  { f_trigger_type_internal_trigger_no_data_continuation_reserved2 := leField w 0 2, f_trigger_bc_reserved1 := leField w 2 2,
    f_trigger_orbit := leField w 4 4, f_reserved0_id := leField w 8 2 }

theorem tdhOf_from_buf (w : Bytes) : SrcWords.Tdh.from_buf w = .ok (tdhOf w) := rfl

theorem tdhOf_fields (w : Bytes) :
    (tdhOf w).trigger_type = tdhTriggerType w ∧ (tdhOf w).internal_trigger = tdhInternal w ∧ (tdhOf w).no_data = tdhNoData w ∧
    (tdhOf w).continuation = tdhContinuation w ∧ (tdhOf w).trigger_bc = tdhBc w ∧ (tdhOf w).trigger_orbit = tdhOrbit w := by
  obtain ⟨t, ht, h⟩ := tdh_fields_eq w
  rw [tdhOf_from_buf] at ht
  cases ht
  exact h

/-! ### CdpTracker -/
theorem tracker_new (c : SrcRdh.RdhCru) (off : Nat) (h : off + 64 < 2^64) :
    (CdpTracker.new c off).f_payload_mem_pos = off + 64 ∧ (CdpTracker.new c off).f_gbt_word_counter = 0 ∧
    10 + (CdpTracker.new c off).f_gbt_word_padding_size_bytes = (if (toModel c).dataFormat == 0 then 16 else 10) ∧
    (CdpTracker.new c off).f_is_start_of_data = true := by
  simp only [CdpTracker.new, data_format_eq]
  refine ⟨by omega, trivial, ?_, trivial⟩
  split <;> simp_all

/-- **the offset of the current word**: `payload start + (words seen − 1) × slot size`, exactly the model's `CdpSt.wordPos`,
    whenever at least one word was counted (the counter is a `u16`: it wraps after 65535 words, a payload holds at most 6553) -/
theorem tracker_word_pos (tr : CdpTracker) (h1 : 1 ≤ tr.f_gbt_word_counter) (h2 : tr.f_gbt_word_counter < 65536)
    (hp : tr.f_gbt_word_padding_size_bytes ≤ 6) (hb : tr.f_payload_mem_pos + 65536 * 16 < 2^64) :
    tr.current_word_mem_pos = tr.f_payload_mem_pos + (tr.f_gbt_word_counter - 1) * (10 + tr.f_gbt_word_padding_size_bytes) := by
  simp only [CdpTracker.current_word_mem_pos]
  have e1 : (tr.f_gbt_word_counter + 2 ^ 16 - 1) % 2 ^ 16 = tr.f_gbt_word_counter - 1 := by omega
  have e2 : (10 + tr.f_gbt_word_padding_size_bytes) % 2 ^ 64 = 10 + tr.f_gbt_word_padding_size_bytes := by omega
  rw [e1, e2]
  have hm : (tr.f_gbt_word_counter - 1) * (10 + tr.f_gbt_word_padding_size_bytes) ≤ 65535 * 16 :=
    Nat.mul_le_mul (by omega) (by omega)
  have e3 : (tr.f_gbt_word_counter - 1) * (10 + tr.f_gbt_word_padding_size_bytes) % 2 ^ 64 =
      (tr.f_gbt_word_counter - 1) * (10 + tr.f_gbt_word_padding_size_bytes) := Nat.mod_eq_of_lt (by omega)
  rw [e3, Nat.mod_eq_of_lt (by omega)]
  omega

theorem tracker_incr (tr : CdpTracker) (h : tr.f_gbt_word_counter + 1 < 65536) :
    (tr.incr_word_count).2 = { tr with f_gbt_word_counter := tr.f_gbt_word_counter + 1 } := by
  simp only [CdpTracker.incr_word_count]
  rw [Nat.mod_eq_of_lt h]

theorem tracker_flags (tr : CdpTracker) :
    tr.start_of_data = tr.f_is_start_of_data ∧ (tr.set_data_seen).2 = { tr with f_is_start_of_data := false } := ⟨rfl, rfl⟩

/-! ### TdhBuffer / StatusWordContainer -/
/-- the model's three stored TDHs as the source's buffer -/
def bufOf (cur prev prevInt : Option Bytes) : TdhBuffer :=
  { f_current_tdh := cur.map tdhOf, f_previous_tdh := prev.map tdhOf, f_previous_tdh_with_internal_set := prevInt.map tdhOf }

theorem tdh_replace_eq (s : CdpSt) (w : Bytes) :
    (TdhBuffer.replace (bufOf s.tdh s.prevTdh s.prevInternalTdh) (tdhOf w)).2 =
      bufOf (replaceTdh s w).tdh (replaceTdh s w).prevTdh (replaceTdh s w).prevInternalTdh := by
  simp only [TdhBuffer.replace, bufOf, replaceTdh]
  cases h : s.tdh with
  | none => simp
  | some old =>
    have hi := (tdhOf_fields old).2.1
    by_cases hint : tdhInternal old == 1 <;> simp [hi, hint]

theorem container_replace_tdh (c : StatusWordContainer) (t : SrcWords.Tdh) :
    (c.replace_tdh t).2 = { c with f_tdhs := (c.f_tdhs.replace t).2 } ∧
    c.tdh = c.f_tdhs.f_current_tdh ∧ c.prv_tdh = c.f_tdhs.f_previous_tdh ∧
    c.tdh_previous_with_internal_trg = c.f_tdhs.f_previous_tdh_with_internal_set := ⟨rfl, rfl, rfl, rfl⟩

/-! ### the state-dependent checks -/

/-- numeric error code of the source's message text → the code string of the model's finding -/
def codeStr : Nat → String
  | 0 => "PAYLOAD"      -- a message without any `[E..]` code: the payload (padding) error of `do_payload_checks`
  | 10 => "E10" | 11 => "E11" | 12 => "E12" | 30 => "E30" | 40 => "E40" | 50 => "E50" | 60 => "E60" | 70 => "E70" | 71 => "E71" | 72 => "E72" | 73 => "E73" | 81 => "E81" | 41 => "E41" | 42 => "E42" | 44 => "E44" | 45 => "E45" | 110 => "E110" | 111 => "E111"
  | 990 => "E990" | 991 => "E991" | 992 => "E992" | 440 => "E440" | 441 => "E441" | 442 => "E442" | 443 => "E443" | 444 => "E444" | 445 => "E445" | _ => "?"

theorem no_continuation_eq (s : CdpSt) (w : Bytes) (c : SrcRdh.RdhCru) (hc : toModel c = s.rdh) :
    tdhNoContinuationChecks s w =
      (TdhValidator.check_tdh_no_continuation (tdhOf w) c).errStr.codes.map (fun k => mkErr s (codeStr k) w) := by
  obtain ⟨f1, f2, _, f4, f5, f6⟩ := tdhOf_fields w
  have r1 : s.rdh.orbit = c.f_rdh1.f_orbit := by rw [← hc]; rfl
  have r2 : s.rdh.pagesCounter = c.f_rdh2.f_pages_counter := by rw [← hc]; rfl
  have r3 : s.rdh.bc = (SrcRdh.Rdh1.bc c.f_rdh1) := by
    rw [← hc]; simp only [Rdh.bc, toModel, SrcRdh.Rdh1.bc, Rs.and_mask]; omega
  have r4 : s.rdh.isPht = SrcRdh.Rdh2.is_pht_trigger c.f_rdh2 := by
    rw [← hc]; simp only [Rdh.isPht, toModel, SrcRdh.Rdh2.is_pht_trigger, Rs.and_mask, shr]
    bool_arith
  have r5 : s.rdh.triggerType % 4096 = (c.f_rdh2.f_trigger_type % 2 ^ 16 &&& Rs.mask 0 12) := by
    rw [← hc]; simp only [toModel, Rs.and_mask]; omega
  simp only [tdhNoContinuationChecks, TdhValidator.check_tdh_no_continuation, TdhValidator.check_tdh_rdh_bc_trigger_type_match,
    SrcRdh.RdhCru.rdh1, SrcRdh.RdhCru.rdh2, SrcRdh.RdhCru.pages_counter, f1, f2, f4, f5, f6, r1, r2, r3, r4, r5]
  by_cases h1 : (tdhContinuation w != 0) = true <;> by_cases h2 : (tdhOrbit w != c.f_rdh1.f_orbit) = true <;>
  by_cases h3 : (c.f_rdh2.f_pages_counter == 0 && (tdhInternal w == 1 || SrcRdh.Rdh2.is_pht_trigger c.f_rdh2)) = true <;>
  by_cases h4 : (tdhBc w != SrcRdh.Rdh1.bc c.f_rdh1) = true <;>
  by_cases h5 : ((c.f_rdh2.f_trigger_type % 2 ^ 16 &&& Rs.mask 0 12) != tdhTriggerType w) = true <;>
  simp [h1, h2, h3, h4, h5, codeStr, Rs.Str.app, Rs.Str.lit, Rs.Str.empty, Rs.Res.errStr]

theorem continuation_eq (s : CdpSt) (w : Bytes) :
    tdhContinuationChecks s w =
      (TdhValidator.check_continuation (tdhOf w) (s.prevTdh.map tdhOf)).errStr.codes.map (fun k => mkErr s (codeStr k) w) := by
  obtain ⟨f1, _, _, f4, f5, f6⟩ := tdhOf_fields w
  simp only [tdhContinuationChecks, TdhValidator.check_continuation, f1, f4, f5, f6]
  cases hp : s.prevTdh with
  | none =>
    by_cases h1 : (tdhContinuation w != 1) = true <;> simp [h1, codeStr, Rs.Str.app, Rs.Str.lit, Rs.Str.empty, Rs.Res.errStr]
  | some prev =>
    obtain ⟨g1, _, _, _, g5, g6⟩ := tdhOf_fields prev
    by_cases h1 : (tdhContinuation w != 1) = true <;> by_cases h2 : (tdhBc w != tdhBc prev) = true <;>
    by_cases h3 : (tdhOrbit w != tdhOrbit prev) = true <;> by_cases h4 : (tdhTriggerType w != tdhTriggerType prev) = true <;>
    simp [h1, h2, h3, h4, g1, g5, g6, codeStr, Rs.unwrapD, Rs.Str.app, Rs.Str.lit, Rs.Str.empty, Rs.Res.errStr]

/-- E440: the bunch counter of the previous TDH is above the current one's (read from the container after `replace`) -/
theorem after_packet_done_eq (cur prev prevInt : Option Bytes) (w : Bytes) (hcur : cur = some w) (c : StatusWordContainer)
    (hc : c.f_tdhs = bufOf cur prev prevInt) :
    (TdhValidator.check_after_tdt_packet_done_true c).isErr =
      (match prev with | some p => decide (tdhBc p > tdhBc w) | none => false) := by
  subst hcur
  simp only [TdhValidator.check_after_tdt_packet_done_true, StatusWordContainer.prv_tdh, StatusWordContainer.tdh,
    TdhBuffer.previous_tdh, TdhBuffer.current_tdh, hc, bufOf]
  cases prev with
  | none => simp
  | some p =>
    have g := (tdhOf_fields p).2.2.2.2.1
    have f := (tdhOf_fields w).2.2.2.2.1
    by_cases h : tdhBc p > tdhBc w <;> simp [h, g, f, Rs.unwrapD]

theorem detected_period_eq (cur prev p : Nat) (hc : cur < 65536) (hp : prev < 65536) :
    (TdhValidator.matches_trigger_interval cur prev p).isErr = (detectedPeriod cur prev != p) := by
  simp only [TdhValidator.matches_trigger_interval, SrcWords.Tdh.MAX_BC, detectedPeriod, decide_eq_true_eq]
  by_cases h : cur < prev
  · simp only [h, if_true]
    split <;> simp_all
  · have e : (cur + 2 ^ 16 - prev) % 2 ^ 16 = cur - prev := by omega
    simp only [h, if_false, e]
    split <;> simp_all

/-- E45 for a pair of internal-trigger TDHs: the source's check fails exactly when the detected period differs from the configured one -/
theorem trigger_interval_eq (w prev : Bytes) (p : Nat) :
    (TdhValidator.check_trigger_interval (tdhOf w) (tdhOf prev) p).isErr = (detectedPeriod (tdhBc w) (tdhBc prev) != p) ∧
    ((TdhValidator.check_trigger_interval (tdhOf w) (tdhOf prev) p).isErr = true →
      (TdhValidator.check_trigger_interval (tdhOf w) (tdhOf prev) p).errStr.codes = [45]) := by
  have f := (tdhOf_fields w).2.2.2.2.1
  have g := (tdhOf_fields prev).2.2.2.2.1
  have hb : tdhBc w < 65536 := by unfold tdhBc; omega
  have hb' : tdhBc prev < 65536 := by unfold tdhBc; omega
  have hd := detected_period_eq (tdhBc w) (tdhBc prev) p hb hb'
  simp only [TdhValidator.check_trigger_interval, f, g]
  by_cases h : (TdhValidator.matches_trigger_interval (tdhBc w) (tdhBc prev) p).isErr = true
  · simp [h, ← hd, Rs.Str.lit]
  · simp [h, ← hd]

theorem ddw0_rdh_eq (s : CdpSt) (w : Bytes) (c : SrcRdh.RdhCru) (hc : toModel c = s.rdh) :
    ((if s.rdh.stopBit != 1 then [mkErr s "E110" w] else []) ++ (if s.rdh.pagesCounter == 0 then [mkErr s "E111" w] else [])) =
      (ItsRdhValidator.check_at_ddw0 (ItsRdhValidator.new c)).errStr.codes.map (fun k => mkErr s (codeStr k) w) := by
  have r1 : s.rdh.stopBit = c.f_rdh2.f_stop_bit := by rw [← hc]; rfl
  have r2 : s.rdh.pagesCounter = c.f_rdh2.f_pages_counter := by rw [← hc]; rfl
  simp only [ItsRdhValidator.check_at_ddw0, ItsRdhValidator.new, SrcRdh.RdhCru.stop_bit, SrcRdh.RdhCru.pages_counter, Rs.unwrapD, Option.getD_some, r1, r2]
  by_cases h1 : (c.f_rdh2.f_stop_bit != 1) = true <;> by_cases h2 : (c.f_rdh2.f_pages_counter == 0) = true <;>
    simp [h1, h2, codeStr, Rs.Str.app, Rs.Str.lit, Rs.Str.empty, Rs.Res.errStr]

theorem ihw_rdh_eq (s : CdpSt) (w : Bytes) (c : SrcRdh.RdhCru) (hc : toModel c = s.rdh) :
    (if s.rdh.stopBit != 0 then [mkErr s "E12" w] else []) =
      (ItsRdhValidator.check_at_initial_ihw (ItsRdhValidator.new c)).errStr.codes.map (fun k => mkErr s (codeStr k) w) := by
  have r1 : s.rdh.stopBit = c.f_rdh2.f_stop_bit := by rw [← hc]; rfl
  simp only [ItsRdhValidator.check_at_initial_ihw, ItsRdhValidator.new, SrcRdh.RdhCru.stop_bit, Rs.unwrapD, Option.getD_some, r1]
  by_cases h1 : (c.f_rdh2.f_stop_bit != 0) = true <;> simp [h1, codeStr, Rs.Str.app, Rs.Str.lit, Rs.Str.empty, Rs.Res.errStr]

end SrcTie
end FastPasta
