/-
  Proofs.StaveConforming — the simulation of Proofs.ItsConforming redone for `check all its-stave`:
  besides the word-level rules the validator now opens a readout frame at a TDH, stores the lane
  data of every data word, and runs the ALPIDE frame checks at the closing TDT. For payloads the
  grammar accepts (`payloadOk`) whose frames satisfy `framesOk`, every message is an ALPIDE
  statistics message — never an error.
-/
import FastPasta.Proofs.ItsConforming
import FastPasta.Proofs.StaveFrame
namespace FastPasta
namespace Proto

/-- the configuration of `check all its-stave` without custom checks -/
structure SCfg (cfg : CheckCfg) : Prop where
  stave : cfg.stave = true
  running : cfg.running = true
  tp : cfg.triggerPeriod = none
  alp : cfg.alpide = {}

def Msg.isStats : Msg → Bool
  | .alpideStats _ => true
  | .error _ => false

/-- only statistics messages -/
def OnlyStats (ms : List Msg) : Prop := ∀ m ∈ ms, Msg.isStats m = true
theorem OnlyStats.nil : OnlyStats [] := by intro m hm; simp at hm
theorem OnlyStats.append {a b : List Msg} (ha : OnlyStats a) (hb : OnlyStats b) : OnlyStats (a ++ b) := by
  intro m hm
  simp only [List.mem_append] at hm
  rcases hm with hm | hm
  · exact ha m hm
  · exact hb m hm

/-- the words are processed and only statistics are emitted -/
def Calm (cfg : CheckCfg) (s : CdpSt) (ws : List Bytes) (s' : CdpSt) : Prop :=
  ∃ ms, checkWords cfg s ws = .ok (s', ms) ∧ OnlyStats ms

theorem Calm.nil (cfg : CheckCfg) (s : CdpSt) : Calm cfg s [] s := ⟨[], rfl, OnlyStats.nil⟩
theorem Calm.cons {cfg : CheckCfg} {s s1 s2 : CdpSt} {w : Bytes} {ws : List Bytes} {m1 : List Msg}
    (h1 : checkWord cfg s w = .ok (s1, m1)) (hm : OnlyStats m1) (h2 : Calm cfg s1 ws s2) : Calm cfg s (w :: ws) s2 := by
  obtain ⟨m2, h2, hm2⟩ := h2
  exact ⟨m1 ++ m2, by simp [checkWords, h1, h2], hm.append hm2⟩
theorem Calm.append {cfg : CheckCfg} {s s1 s2 : CdpSt} {a b : List Bytes}
    (h1 : Calm cfg s a s1) (h2 : Calm cfg s1 b s2) : Calm cfg s (a ++ b) s2 := by
  obtain ⟨m1, h1, hm1⟩ := h1
  obtain ⟨m2, h2, hm2⟩ := h2
  exact ⟨m1 ++ m2, by rw [checkWords_append, h1]; simp [h2], hm1.append hm2⟩
theorem Calm.single {cfg : CheckCfg} {s s1 : CdpSt} {w : Bytes} {m1 : List Msg}
    (h1 : checkWord cfg s w = .ok (s1, m1)) (hm : OnlyStats m1) : Calm cfg s [w] s1 :=
  Calm.cons h1 hm (Calm.nil cfg s1)

/-- the frame bookkeeping of the validator against the grammar's open frame -/
structure FrameRel (barrel : Barrel) (fst : FSt) (s : CdpSt) : Prop where
  barrel : s.barrel = some barrel
  fatal : s.fatalLanes = none
  frame : match fst with
    | none => s.frame = none ∧ s.inFrame = false
    | some dws => s.inFrame = true ∧ ∃ st, s.frame = some { start := st, lanes := frameLanes dws }

/-- fields no frame operation touches -/
structure SameCore (s s' : CdpSt) : Prop where
  fsm : s'.fsm = s.fsm
  tdh : s'.tdh = s.tdh
  prevTdh : s'.prevTdh = s.prevTdh
  rdh : s'.rdh = s.rdh
  ihw : s'.ihw = s.ihw
  sod : s'.startOfData = s.startOfData
  cdw : s'.cdw = s.cdw

theorem preTdh_stave (cfg : CheckCfg) (hst : cfg.stave = true) (barrel : Barrel) (fst : FSt) (s : CdpSt) (w : Bytes)
    (hsane : tdhSane w = true) (hrel : FrameRel barrel fst s) :
    ∃ s1, preTdh cfg s w = (s1, []) ∧ FrameRel barrel (openFrame fst w) s1 ∧
      s1.fsm = s.fsm ∧ s1.tdh = some w ∧ s1.prevTdh = s.tdh ∧ s1.rdh = s.rdh ∧ s1.ihw = s.ihw ∧
      s1.startOfData = s.startOfData ∧ s1.cdw = s.cdw := by
  unfold preTdh
  simp only [hsane, ↓reduceIte, hst, Bool.true_and]
  have hif : (replaceTdh s w).inFrame = s.inFrame := rfl
  cases fst with
  | some dws =>
    obtain ⟨hin, st, hfr⟩ := hrel.frame
    simp only [hif, hin, Bool.not_true, Bool.false_and, Bool.false_eq_true, ↓reduceIte]
    exact ⟨_, rfl, ⟨hrel.barrel, hrel.fatal, by simpa [openFrame] using ⟨hin, st, hfr⟩⟩, rfl, rfl, rfl, rfl, rfl, rfl, rfl⟩
  | none =>
    obtain ⟨hfr, hin⟩ := hrel.frame
    simp only [hif, hin, Bool.not_false, Bool.true_and]
    by_cases hc : tdhContinuation w = 0
    · simp only [hc, beq_self_eq_true, ↓reduceIte]
      refine ⟨_, rfl, ⟨hrel.barrel, hrel.fatal, ?_⟩, rfl, rfl, rfl, rfl, rfl, rfl, rfl⟩
      simp only [openFrame, hc, beq_self_eq_true, ↓reduceIte]
      exact ⟨trivial, _, rfl⟩
    · have hc' : (tdhContinuation w == 0) = false := by simpa using hc
      simp only [hc', Bool.false_eq_true, ↓reduceIte]
      refine ⟨_, rfl, ⟨hrel.barrel, hrel.fatal, ?_⟩, rfl, rfl, rfl, rfl, rfl, rfl, rfl⟩
      simp only [openFrame, hc', Bool.false_eq_true, ↓reduceIte]
      exact ⟨hfr, hin⟩

theorem noCont_quiet' (s1 : CdpSt) (w : Bytes) (hcont : tdhContinuation w = 0) (horb : tdhOrbit w = s1.rdh.orbit)
    (hpage : (s1.rdh.pagesCounter == 0 && (tdhInternal w == 1 || s1.rdh.isPht)) = false ∨
      (tdhBc w = s1.rdh.bc ∧ s1.rdh.triggerType % 4096 = tdhTriggerType w)) :
    tdhNoContinuationChecks s1 w = [] := by
  unfold tdhNoContinuationChecks
  simp only [hcont, bne_self_eq_false, Bool.false_eq_true, ↓reduceIte, horb, List.nil_append]
  rcases hpage with hp | hp
  · simp [hp]
  · simp [hp.1, hp.2]

theorem cont_quiet' (s1 : CdpSt) (o w : Bytes) (hprev : s1.prevTdh = some o) (hcont : tdhContinuation w = 1)
    (hbc : tdhBc w = tdhBc o) (horb : tdhOrbit w = tdhOrbit o) (htrg : tdhTriggerType w = tdhTriggerType o) :
    tdhContinuationChecks s1 w = [] := by
  unfold tdhContinuationChecks
  simp [hprev, hcont, hbc, horb, htrg]

/-- what a TDH step leaves behind (stave mode) -/
structure TdhPost (barrel : Barrel) (fst : FSt) (s s' : CdpSt) (w : Bytes) : Prop where
  frame : FrameRel barrel (openFrame fst w) s'
  tdh : s'.tdh = some w
  rdh : s'.rdh = s.rdh
  ihw : s'.ihw = s.ihw
  sod : s'.startOfData = s.startOfData
  cdw : s'.cdw = s.cdw

theorem sstep_tdh_first (cfg : CheckCfg) (hc : SCfg cfg) (barrel : Barrel) (fst : FSt)
    (s : CdpSt) (w : Bytes) (hfsm : s.fsm = .tdhByWasIhw) (hok : tdhFirstOk s.rdh w = true) (hrel : FrameRel barrel fst s) :
    ∃ s', checkWord cfg s w = .ok (s', []) ∧
      s'.fsm = (if tdhNoData w == 1 then .choiceByNoDataTrue else .dataByNoDataFalse) ∧ TdhPost barrel fst s s' w := by
  simp only [tdhFirstOk, Bool.and_eq_true, beq_iff_eq, Bool.or_eq_true, Bool.not_eq_true'] at hok
  obtain ⟨⟨⟨⟨_, hsane⟩, hcont⟩, horb⟩, hpage⟩ := hok
  have hadv : fsmAdvance s.fsm w = (if tdhNoData w == 1 then .choiceByNoDataTrue else .dataByNoDataFalse, .tdh) := by
    unfold fsmAdvance fsmStep; simp only [hfsm]
  obtain ⟨s1, hpre, hfr, h1, h2, h3, h4, h5, h6, h7⟩ := preTdh_stave cfg hc.stave barrel fst
    { s with wordCount := s.wordCount + 1, fsm := (if tdhNoData w == 1 then FsmSt.choiceByNoDataTrue else FsmSt.dataByNoDataFalse) } w hsane
    ⟨hrel.barrel, hrel.fatal, hrel.frame⟩
  unfold checkWord
  simp only [hadv, hpre, List.nil_append, hc.running, ↓reduceIte]
  rw [noCont_quiet' s1 w hcont (by rw [h4]; exact horb) (by rw [h4]; exact hpage), interval_quiet cfg hc.tp]
  exact ⟨s1, rfl, h1, ⟨hfr, h2, h4, h5, h6, h7⟩⟩

theorem sstep_tdh_next (cfg : CheckCfg) (hc : SCfg cfg) (barrel : Barrel) (fst : FSt)
    (s : CdpSt) (prev w : Bytes) (hfsm : InChoice s.fsm) (hprev : s.tdh = some prev)
    (hok : tdhNextOk s.rdh prev w = true) (hrel : FrameRel barrel fst s) :
    ∃ s', checkWord cfg s w = .ok (s', []) ∧
      s'.fsm = (if tdhNoData w == 1 then .choiceByNoDataTrue else .dataByNoDataFalse) ∧ TdhPost barrel fst s s' w := by
  simp only [tdhNextOk, Bool.and_eq_true, beq_iff_eq, decide_eq_true_eq] at hok
  obtain ⟨⟨⟨⟨_, hsane⟩, _⟩, _⟩, hbc⟩ := hok
  have hid := tdhSane_id w hsane
  have hadv : fsmAdvance s.fsm w = (if tdhNoData w == 1 then .choiceByNoDataTrue else .dataByNoDataFalse, .tdhAfterPacketDone) := by
    unfold fsmAdvance fsmStep
    rcases hfsm with h | h <;> simp only [h, hid, beq_self_eq_true, ↓reduceIte] <;> (split <;> rfl)
  obtain ⟨s1, hpre, hfr, h1, h2, h3, h4, h5, h6, h7⟩ := preTdh_stave cfg hc.stave barrel fst
    { s with wordCount := s.wordCount + 1, fsm := (if tdhNoData w == 1 then FsmSt.choiceByNoDataTrue else FsmSt.dataByNoDataFalse) } w hsane
    ⟨hrel.barrel, hrel.fatal, hrel.frame⟩
  unfold checkWord
  simp only [hadv, hpre, List.nil_append, hc.running, Bool.not_true, Bool.false_eq_true, ↓reduceIte]
  rw [interval_quiet cfg hc.tp]
  have hp : s1.prevTdh = some prev := by rw [h3]; exact hprev
  have hgt : ¬ (tdhBc prev > tdhBc w) := by omega
  simp only [hp, hgt, decide_false, Bool.false_eq_true, ↓reduceIte, List.append_nil]
  exact ⟨s1, rfl, h1, ⟨hfr, h2, h4, h5, h6, h7⟩⟩

theorem sstep_tdh_cont (cfg : CheckCfg) (hc : SCfg cfg) (barrel : Barrel) (fst : FSt)
    (s : CdpSt) (o w : Bytes) (hfsm : s.fsm = .cTdhByNext) (hprev : s.tdh = some o)
    (hok : tdhContOk o w = true) (hrel : FrameRel barrel fst s) :
    ∃ s', checkWord cfg s w = .ok (s', []) ∧ s'.fsm = .cDataByNext ∧ TdhPost barrel fst s s' w := by
  simp only [tdhContOk, Bool.and_eq_true, beq_iff_eq] at hok
  obtain ⟨⟨⟨⟨⟨⟨_, hsane⟩, hcont⟩, _⟩, hbc⟩, horb⟩, htrg⟩ := hok
  have hadv : fsmAdvance s.fsm w = (.cDataByNext, .tdhCont) := by
    unfold fsmAdvance fsmStep; simp only [hfsm]
  obtain ⟨s1, hpre, hfr, h1, h2, h3, h4, h5, h6, h7⟩ := preTdh_stave cfg hc.stave barrel fst
    { s with wordCount := s.wordCount + 1, fsm := FsmSt.cDataByNext } w hsane ⟨hrel.barrel, hrel.fatal, hrel.frame⟩
  unfold checkWord
  simp only [hadv, hpre, List.nil_append, hc.running, ↓reduceIte]
  rw [cont_quiet' s1 o w (by rw [h3]; exact hprev) hcont hbc horb htrg]
  exact ⟨s1, rfl, h1, ⟨hfr, h2, h4, h5, h6, h7⟩⟩

theorem frameLanes_snoc (dws : List Bytes) (w : Bytes) :
    frameLanes (dws ++ [w]) = storeLane (frameLanes dws) (wordId w) (w.take 9) := by
  simp [frameLanes, List.foldl_append]

theorem sstep_data (cfg : CheckCfg) (hc : SCfg cfg) (barrel : Barrel) (dws : List Bytes) (s : CdpSt) (w i : Bytes)
    (hi : s.ihw = some i) (hfsm : InData s.fsm)
    (hok : dataOk cfg.running (ihwActiveLanes i) w = true) (hrel : FrameRel barrel (some dws) s) :
    ∃ s', checkWord cfg s w = .ok (s', []) ∧ InData s'.fsm ∧ Same s s' ∧ s'.startOfData = false ∧ s'.cdw = s.cdw ∧
      FrameRel barrel (some (dws ++ [w])) s' := by
  simp only [dataOk, Bool.and_eq_true, beq_iff_eq, Bool.or_eq_true, Bool.not_eq_true'] at hok
  obtain ⟨⟨_, hvalid⟩, hlane⟩ := hok
  obtain ⟨hf, hncdw, hntdt, h12⟩ := valid_facts w hvalid
  have hadv : ∃ st', fsmAdvance s.fsm w = (st', .dataWord) ∧ InData st' := by
    unfold fsmAdvance fsmStep
    rcases hfsm with h | h | h | h <;> simp only [h, hf, ↓reduceIte] <;>
      first
        | exact ⟨_, rfl, Or.inr (Or.inl rfl)⟩
        | exact ⟨_, rfl, Or.inr (Or.inr (Or.inr rfl))⟩
  obtain ⟨st', hadv, hst'⟩ := hadv
  obtain ⟨hin, st0, hfr⟩ := hrel.frame
  unfold checkWord
  simp only [hadv]
  unfold preData
  have hne : (wordId w == ID_CDW) = false := by simpa using hncdw
  have hr := hc.running
  have h12' : ¬ ((wordId w / 32 != 1 && wordId w / 32 != 2) = true) := by
    rcases h12 with h | h <;> simp [h]
  simp only [hne, Bool.and_false, Bool.false_eq_true, ↓reduceIte, hvalid, List.nil_append, hr, Bool.not_true,
    Bool.false_or, h12', hi, hc.stave, hfr, hrel.barrel]
  have hlane : (if wordId w / 32 = 1 then laneActive (ibLane (wordId w)) (ihwActiveLanes i)
      else laneActive (obLane (wordId w)) (ihwActiveLanes i) && decide (obConnectorInput (wordId w) ≤ 6)) = true := by
    rcases hlane with hlane | hlane
    · simp [hr] at hlane
    · exact hlane
  have hpost : ∀ (sX : CdpSt), sX.barrel = some barrel → sX.fatalLanes = s.fatalLanes → sX.inFrame = s.inFrame →
      sX.frame = some { start := st0, lanes := storeLane (frameLanes dws) (wordId w) (w.take 9) } →
      FrameRel barrel (some (dws ++ [w])) sX := by
    intro sX hb hfl hif hfrX
    exact ⟨hb, hfl.trans hrel.fatal, by rw [hif]; exact hin, st0, by rw [hfrX, frameLanes_snoc]⟩
  rcases h12 with h1 | h2
  · simp only [h1, ↓reduceIte] at hlane
    simp only [h1, beq_self_eq_true, ↓reduceIte, hlane]
    exact ⟨_, rfl, hst', ⟨rfl, rfl, by simp only [hi]⟩, rfl, rfl, hpost _ rfl rfl rfl rfl⟩
  · have hne1 : ¬ wordId w / 32 = 1 := by omega
    simp only [hne1, ↓reduceIte, Bool.and_eq_true, decide_eq_true_eq] at hlane
    have hb : (wordId w / 32 == 1) = false := by simp [h2]
    have hcn : ¬ (obConnectorInput (wordId w) > 6) := by omega
    simp only [hb, Bool.false_eq_true, ↓reduceIte, hlane.1, hcn, List.append_nil]
    exact ⟨_, rfl, hst', ⟨rfl, rfl, by simp only [hi]⟩, rfl, rfl, hpost _ rfl rfl rfl rfl⟩

/-- the frame bookkeeping fields -/
structure SameFrame (s s' : CdpSt) : Prop where
  barrel : s'.barrel = s.barrel
  fatal : s'.fatalLanes = s.fatalLanes
  frame : s'.frame = s.frame
  inFrame : s'.inFrame = s.inFrame

theorem FrameRel.of_same {barrel : Barrel} {fst : FSt} {s s' : CdpSt} (h : FrameRel barrel fst s) (hs : SameFrame s s') :
    FrameRel barrel fst s' :=
  ⟨hs.barrel.trans h.barrel, hs.fatal.trans h.fatal, by rw [hs.frame, hs.inFrame]; exact h.frame⟩

/-- IHW, continuation IHW and DDW0 steps do not touch the frame bookkeeping -/
theorem frame_untouched_status (cfg : CheckCfg) (s : CdpSt) (w : Bytes) (s' : CdpSt) (ms : List Msg)
    (h : checkWord cfg s w = .ok (s', ms))
    (hcls : (fsmAdvance s.fsm w).2 = .ihw ∨ (fsmAdvance s.fsm w).2 = .ihwCont ∨ (fsmAdvance s.fsm w).2 = .ddw0) :
    SameFrame s s' := by
  rcases hadv : fsmAdvance s.fsm w with ⟨st', cls⟩
  rw [hadv] at hcls
  rcases hcls with hcls | hcls | hcls <;> subst hcls <;>
  · simp only [checkWord, hadv, preIhw, preDdw0, Except.ok.injEq, Prod.mk.injEq] at h
    obtain ⟨rfl, _⟩ := h
    exact ⟨rfl, rfl, rfl, rfl⟩

/-- a CDW at the start of the payload's data does not touch the frame bookkeeping -/
theorem frame_untouched_cdw (cfg : CheckCfg) (s : CdpSt) (w : Bytes) (s' : CdpSt) (ms : List Msg)
    (h : checkWord cfg s w = .ok (s', ms)) (hcls : (fsmAdvance s.fsm w).2 = .cdw)
    (hsod : s.startOfData = true) (hid : wordId w = ID_CDW) : SameFrame s s' := by
  rcases hadv : fsmAdvance s.fsm w with ⟨st', cls⟩
  rw [hadv] at hcls
  subst hcls
  simp only [checkWord, hadv, preData, hsod, hid, beq_self_eq_true, Bool.and_self, ↓reduceIte] at h
  split at h
  · simp only [Except.ok.injEq, Prod.mk.injEq] at h
    obtain ⟨rfl, _⟩ := h
    exact ⟨rfl, rfl, rfl, rfl⟩
  · simp only [Except.ok.injEq, Prod.mk.injEq] at h
    obtain ⟨rfl, _⟩ := h
    exact ⟨rfl, rfl, rfl, rfl⟩

theorem cdw_class (s : CdpSt) (w : Bytes) (hfsm : InData s.fsm) (hid : wordId w = ID_CDW) :
    (fsmAdvance s.fsm w).2 = .cdw := by
  have h1 : isFsmDataId ID_CDW = false := by decide
  have h2 : (ID_CDW == ID_TDT) = false := by decide
  unfold fsmAdvance fsmStep
  rcases hfsm with h | h | h | h <;> simp [h, hid, h1, h2]

/-- the data phase of a segment in stave mode: every stored word is appended to the open frame -/
theorem sdata_sim (cfg : CheckCfg) (hc : SCfg cfg) (barrel : Barrel) (i : Bytes) (d : List Bytes) :
    ∀ (s : CdpSt) (ps ps' : PSt) (acc : List Bytes), s.ihw = some i → InData s.fsm → s.startOfData = ps.sod →
      s.cdw = ps.cdw → FrameRel barrel (some acc) s →
      dataPhaseOk cfg.running (ihwActiveLanes i) ps d = some ps' →
      ∃ s', Quiet cfg s d s' ∧ InData s'.fsm ∧ Same s s' ∧ s'.startOfData = ps'.sod ∧ s'.cdw = ps'.cdw ∧
        FrameRel barrel (some (acc ++ storedWords ps d)) s' := by
  induction d with
  | nil =>
    intro s ps ps' acc hi hf hsod hcdw hrel hok
    simp only [dataPhaseOk, Option.some.injEq] at hok
    subst hok
    exact ⟨s, Quiet.nil cfg s, hf, Same.refl s, hsod, hcdw, by simpa [storedWords] using hrel⟩
  | cons w ws ih =>
    intro s ps ps' acc hi hf hsod hcdw hrel hok
    simp only [dataPhaseOk] at hok
    split at hok
    · rename_i hcnd
      simp only [Bool.and_eq_true, beq_iff_eq] at hcnd
      split at hok
      · rename_i hcok
        obtain ⟨s1, h1, hf1, hsame1, hsod1, hcdw1⟩ := step_cdw cfg s w ps.cdw hf (by rw [hsod]; exact hcnd.1) (fun _ => hcdw) hcok
        have hfr1 : FrameRel barrel (some acc) s1 :=
          hrel.of_same (frame_untouched_cdw cfg s w s1 [] h1 (cdw_class s w hf hcnd.2) (by rw [hsod]; exact hcnd.1) hcnd.2)
        have hst : storedWords ps (w :: ws) = ws := by simp [storedWords, hcnd.1, hcnd.2]
        -- after the CDW no further word of this payload is a CDW-at-start, so all of `ws` is stored
        obtain ⟨s2, h2, hf2, hsame2, hsod2, hcdw2, hfr2⟩ := ih s1 { sod := false, cdw := some w } ps' acc
          (by rw [hsame1.ihw]; exact hi) hf1 hsod1 (hcdw1 hc.running) hfr1 hok
        have hst2 : storedWords { sod := false, cdw := some w } ws = ws := by cases ws <;> simp [storedWords]
        rw [hst2] at hfr2
        exact ⟨s2, Quiet.cons h1 h2, hf2, hsame1.trans hsame2, hsod2, hcdw2, by rw [hst]; exact hfr2⟩
      · cases hok
    · rename_i hcnd
      split at hok
      · rename_i hdok
        obtain ⟨s1, h1, hf1, hsame1, hsod1, hcdw1, hfr1⟩ := sstep_data cfg hc barrel acc s w i hi hf hdok hrel
        obtain ⟨s2, h2, hf2, hsame2, hsod2, hcdw2, hfr2⟩ := ih s1 { ps with sod := false } ps' (acc ++ [w])
          (by rw [hsame1.ihw]; exact hi) hf1 hsod1 (by rw [hcdw1]; exact hcdw) hfr1 hok
        have hst : storedWords ps (w :: ws) = w :: ws := by
          simp only [storedWords]
          split
          · rename_i hx; exact absurd hx hcnd
          · rfl
        have hst2 : storedWords { ps with sod := false } ws = ws := by cases ws <;> simp [storedWords]
        rw [hst2] at hfr2
        exact ⟨s2, Quiet.cons h1 h2, hf2, hsame1.trans hsame2, hsod2, hcdw2, by rw [hst]; simpa using hfr2⟩
      · cases hok

theorem lanes_nonempty (barrel : Barrel) (fs : LaneFrames) (h : lanesOfBarrel barrel fs = true) : fs.isEmpty = false := by
  cases fs with
  | nil => cases barrel <;> simp [lanesOfBarrel] at h
  | cons _ _ => rfl

/-- closing a conforming frame: one statistics message, no error, the frame bookkeeping is reset -/
theorem processFrame_calm (cfg : CheckCfg) (hc : SCfg cfg) (barrel : Barrel) (acc : List Bytes) (s : CdpSt)
    (hrel : FrameRel barrel (some acc) s) (hok : FrameOk barrel acc) :
    ∃ s' ms, processFrame cfg s = .ok (s', ms) ∧ OnlyStats ms ∧ FrameRel barrel none s' ∧
      s'.fsm = s.fsm ∧ s'.tdh = s.tdh ∧ s'.rdh = s.rdh ∧ s'.ihw = s.ihw ∧ s'.startOfData = s.startOfData ∧ s'.cdw = s.cdw := by
  obtain ⟨_, st0, hfr⟩ := hrel.frame
  obtain ⟨hcnt, hfat, hval⟩ := frameOk_checks barrel acc hok
  have hne := lanes_nonempty barrel _ hok.1
  unfold processFrame
  simp only [hfr, hne, Bool.false_eq_true, ↓reduceIte, hrel.barrel, hc.alp, hfat, List.isEmpty_nil, hrel.fatal, hval,
    hcnt, beq_self_eq_true, List.nil_append, List.append_nil]
  refine ⟨_, _, rfl, ?_, ⟨rfl, rfl, rfl, rfl⟩, rfl, rfl, rfl, rfl, rfl, rfl⟩
  intro m hm
  simp only [List.mem_singleton] at hm
  subst hm; rfl

theorem tdt_class (s : CdpSt) (t : Bytes) (hfsm : InData s.fsm) (hid : wordId t = ID_TDT) :
    fsmAdvance s.fsm t = (if tdtPacketDone t then .choiceByTdtTrue else .cIhwByTdtFalse, .tdt) := by
  have h1 : isFsmDataId ID_TDT = false := by decide
  unfold fsmAdvance fsmStep
  rcases hfsm with h | h | h | h <;>
    simp only [h, hid, h1, beq_self_eq_true, ↓reduceIte, Bool.false_eq_true] <;> (split <;> rfl)

/-- TDT that leaves the packet open (stave mode): nothing happens to the frame -/
theorem sstep_tdt_open (cfg : CheckCfg) (hc : SCfg cfg) (barrel : Barrel) (fst : FSt) (s : CdpSt) (t : Bytes)
    (hfsm : InData s.fsm) (hok : tdtSane t = true) (hdone : tdtPacketDone t = false) (hrel : FrameRel barrel fst s) :
    ∃ s', checkWord cfg s t = .ok (s', []) ∧ s'.fsm = .cIhwByTdtFalse ∧
      Same s s' ∧ s'.startOfData = s.startOfData ∧ s'.cdw = s.cdw ∧ FrameRel barrel fst s' := by
  have hid : wordId t = ID_TDT := by
    simp only [tdtSane, Bool.and_eq_true, beq_iff_eq] at hok; exact hok.1
  have hadv := tdt_class s t hfsm hid
  simp only [hdone, Bool.false_eq_true, ↓reduceIte] at hadv
  unfold checkWord
  simp only [hadv]
  unfold preTdt
  simp only [hok, ↓reduceIte, hdone, Bool.and_false, Bool.false_eq_true, List.nil_append]
  exact ⟨_, rfl, rfl, ⟨rfl, rfl, rfl⟩, rfl, rfl, ⟨hrel.barrel, hrel.fatal, hrel.frame⟩⟩

/-- TDT that closes the packet (stave mode): the frame is checked and closed -/
theorem sstep_tdt_done (cfg : CheckCfg) (hc : SCfg cfg) (barrel : Barrel) (acc : List Bytes) (s : CdpSt) (t : Bytes)
    (hfsm : InData s.fsm) (hok : tdtSane t = true) (hdone : tdtPacketDone t = true)
    (hrel : FrameRel barrel (some acc) s) (hframe : FrameOk barrel acc) :
    ∃ s' ms, checkWord cfg s t = .ok (s', ms) ∧ OnlyStats ms ∧ s'.fsm = .choiceByTdtTrue ∧
      Same s s' ∧ s'.startOfData = s.startOfData ∧ s'.cdw = s.cdw ∧ FrameRel barrel none s' := by
  have hid : wordId t = ID_TDT := by
    simp only [tdtSane, Bool.and_eq_true, beq_iff_eq] at hok; exact hok.1
  have hadv := tdt_class s t hfsm hid
  simp only [hdone, ↓reduceIte] at hadv
  obtain ⟨s2, ms, hpf, hos, hfr, g1, g2, g3, g4, g5, g6⟩ := processFrame_calm cfg hc barrel acc
    { s with wordCount := s.wordCount + 1, fsm := FsmSt.choiceByTdtTrue, tdt := some t } ⟨hrel.barrel, hrel.fatal, hrel.frame⟩ hframe
  unfold checkWord
  simp only [hadv]
  unfold preTdt
  simp only [hok, ↓reduceIte, hc.stave, hdone, Bool.and_self, hpf, List.nil_append]
  exact ⟨s2, ms, rfl, hos, g1, ⟨g2, g3, g4⟩, g5, g6, hfr⟩

theorem Quiet.calm {cfg : CheckCfg} {s s' : CdpSt} {ws : List Bytes} (h : Quiet cfg s ws s') : Calm cfg s ws s' :=
  ⟨[], h, OnlyStats.nil⟩

/-- **segments of a page, stave mode** -/
theorem ssegs_sim (cfg : CheckCfg) (hc : SCfg cfg) (barrel : Barrel) (r : Rdh) (i : Bytes) (gs : List Seg) :
    ∀ (e : Expect) (ps : PSt) (s : CdpSt) (bw : Between) (ps' : PSt) (fst fst' : FSt),
      SegRel cfg.running r i e ps s → FrameRel barrel fst s →
      segsOk cfg.running r (ihwActiveLanes i) e ps gs = some (bw, ps') →
      framesOk barrel cfg.running (ihwActiveLanes i) fst ps gs fst' →
      ∃ s', Calm cfg s (gs.flatMap Seg.words) s' ∧ EndRel cfg.running bw ps'.cdw s' ∧ FrameRel barrel fst' s' := by
  induction gs with
  | nil =>
    intro e ps s bw ps' fst fst' hrel hfrel hok hfr
    simp only [framesOk] at hfr
    subst hfr
    cases e with
    | first => simp [segsOk] at hok
    | cont o => simp [segsOk] at hok
    | next p =>
      simp only [segsOk, Option.some.injEq, Prod.mk.injEq] at hok
      obtain ⟨rfl, rfl⟩ := hok
      exact ⟨s, Calm.nil cfg s, ⟨hrel.fsm.1, hrel.cdw⟩, hfrel⟩
  | cons g gs ih =>
    intro e ps s bw ps' fst fst' hrel hfrel hok hfr
    simp only [segsOk] at hok
    have hokT : e.tdhOk r g.tdh = true := by
      cases hcc : e.tdhOk r g.tdh with
      | true => rfl
      | false => simp [hcc] at hok
    simp only [hokT, Bool.not_true, Bool.false_eq_true, ↓reduceIte] at hok
    have htdh : ∃ s1, checkWord cfg s g.tdh = .ok (s1, []) ∧ TdhPost barrel fst s s1 g.tdh ∧
        (e.isCont = true → s1.fsm = .cDataByNext ∧ tdhNoData g.tdh = 0) ∧
        (e.isCont = false → s1.fsm = (if tdhNoData g.tdh == 1 then .choiceByNoDataTrue else .dataByNoDataFalse)) := by
      cases e with
      | first =>
        have hT : tdhFirstOk s.rdh g.tdh = true := by rw [hrel.rdh]; exact hokT
        obtain ⟨s1, h1, hf, hp⟩ := sstep_tdh_first cfg hc barrel fst s g.tdh hrel.fsm hT hfrel
        exact ⟨s1, h1, hp, fun h => by simp [Expect.isCont] at h, fun _ => hf⟩
      | next p =>
        have hT : tdhNextOk s.rdh p g.tdh = true := by rw [hrel.rdh]; exact hokT
        obtain ⟨s1, h1, hf, hp⟩ := sstep_tdh_next cfg hc barrel fst s p g.tdh hrel.fsm.1 hrel.fsm.2 hT hfrel
        exact ⟨s1, h1, hp, fun h => by simp [Expect.isCont] at h, fun _ => hf⟩
      | cont o =>
        have hT : tdhContOk o g.tdh = true := hokT
        obtain ⟨s1, h1, hf, hp⟩ := sstep_tdh_cont cfg hc barrel fst s o g.tdh hrel.fsm.1 hrel.fsm.2 hT hfrel
        have hnd : tdhNoData g.tdh = 0 := by
          simp only [tdhContOk, Bool.and_eq_true, beq_iff_eq] at hT
          exact hT.1.1.1.2
        exact ⟨s1, h1, hp, fun _ => ⟨hf, hnd⟩, fun h => by simp [Expect.isCont] at h⟩
    obtain ⟨s1, h1, hpost, hfc, hfn⟩ := htdh
    have hr1 : s1.rdh = r := hpost.rdh.trans hrel.rdh
    have hi1 : s1.ihw = some i := hpost.ihw.trans hrel.ihw
    have hs1 : s1.startOfData = ps.sod := hpost.sod.trans hrel.sod
    have hc1 : s1.cdw = ps.cdw := hpost.cdw.trans (hrel.cdw hc.running)
    cases hb : g.body with
    | none =>
      simp only [hb] at hok
      simp only [framesOk, hb] at hfr
      have hw : Seg.words g = [g.tdh] := by simp [Seg.words, hb]
      split at hok
      · cases hok
      · rename_i hcond
        simp only [Bool.or_eq_true, bne_iff_ne, ne_eq, not_or, Bool.not_eq_true, Decidable.not_not] at hcond
        have hf1 := hfn hcond.1
        simp only [hcond.2, beq_self_eq_true, ↓reduceIte] at hf1
        obtain ⟨s', hq, hend, hfre⟩ := ih (.next g.tdh) ps s1 bw ps' (openFrame fst g.tdh) fst'
          ⟨⟨Or.inr hf1, hpost.tdh⟩, hr1, hi1, hs1, fun _ => hc1⟩ hpost.frame hok hfr
        exact ⟨s', by rw [List.flatMap_cons, hw]; exact Calm.cons h1 OnlyStats.nil hq, hend, hfre⟩
    | some dt =>
      obtain ⟨d, t⟩ := dt
      simp only [hb] at hok
      simp only [framesOk, hb] at hfr
      have hw : Seg.words g = g.tdh :: (d ++ [t]) := by simp [Seg.words, hb]
      split at hok
      · cases hok
      · rename_i hnd0
        have hnd : tdhNoData g.tdh = 0 := by simpa using hnd0
        have hdata : InData s1.fsm := by
          cases hic : e.isCont with
          | true => exact Or.inr (Or.inr (Or.inl (hfc hic).1))
          | false =>
            have := hfn hic
            simp only [hnd] at this
            exact Or.inl (by simpa using this)
        cases hdp : dataPhaseOk cfg.running (ihwActiveLanes i) ps d with
        | none => simp [hdp] at hok
        | some st' =>
          simp only [hdp] at hok hfr
          cases hof : openFrame fst g.tdh with
          | none => simp [hof] at hfr
          | some acc =>
            simp only [hof] at hfr
            have hfrel1 : FrameRel barrel (some acc) s1 := by have := hpost.frame; rw [hof] at this; exact this
            obtain ⟨s2, hq2, hf2, hsame2, hs2, hc2, hfr2⟩ := sdata_sim cfg hc barrel i d s1 ps st' acc hi1 hdata hs1 hc1 hfrel1 hdp
            split at hok
            · cases hok
            · rename_i htok
              have htsane : tdtSane t = true := by
                simp only [Bool.not_eq_true', Bool.and_eq_false_iff, not_or, Bool.not_eq_true, Bool.not_eq_false] at htok
                exact htok.2
              have ht2 : s2.tdh = some g.tdh := by rw [hsame2.tdh]; exact hpost.tdh
              by_cases hdone : tdtPacketDone t = true
              · simp only [hdone, ↓reduceIte] at hok hfr
                obtain ⟨s3, m3, h3, hos3, hf3, hsame3, hs3, hc3, hfr3⟩ := sstep_tdt_done cfg hc barrel _ s2 t hf2 htsane hdone hfr2 hfr.1
                obtain ⟨s', hq, hend, hfre⟩ := ih (.next g.tdh) st' s3 bw ps' none fst'
                  ⟨⟨Or.inl hf3, by rw [hsame3.tdh]; exact ht2⟩, by rw [hsame3.rdh, hsame2.rdh]; exact hr1,
                   by rw [hsame3.ihw, hsame2.ihw]; exact hi1, by rw [hs3]; exact hs2, fun _ => by rw [hc3]; exact hc2⟩ hfr3 hok hfr.2
                refine ⟨s', ?_, hend, hfre⟩
                rw [List.flatMap_cons, hw]
                exact Calm.append (Calm.cons h1 OnlyStats.nil (Calm.append hq2.calm (Calm.single h3 hos3))) hq
              · have hdone' : tdtPacketDone t = false := by simpa using hdone
                simp only [hdone', Bool.false_eq_true, ↓reduceIte] at hok hfr
                obtain ⟨s3, h3, hf3, hsame3, hs3, hc3, hfr3⟩ := sstep_tdt_open cfg hc barrel _ s2 t hf2 htsane hdone' hfr2
                cases gs with
                | nil =>
                  simp only [Option.some.injEq, Prod.mk.injEq] at hok
                  obtain ⟨rfl, rfl⟩ := hok
                  simp only [framesOk] at hfr
                  subst hfr
                  refine ⟨s3, ?_, ⟨⟨hf3, by rw [hsame3.tdh]; exact ht2⟩, fun _ => by rw [hc3]; exact hc2⟩, hfr3⟩
                  simp only [List.flatMap_cons, List.flatMap_nil, List.append_nil, hw]
                  exact Calm.cons h1 OnlyStats.nil (Calm.append hq2.calm (Calm.single h3 OnlyStats.nil))
                | cons _ _ => simp at hok

theorem ihw_class (s : CdpSt) (w : Bytes) (hfsm : InFresh s.fsm ∨ InChoice s.fsm) (hid : wordId w = ID_IHW) :
    (fsmAdvance s.fsm w).2 = .ihw := by
  have h1 : (ID_IHW == ID_TDH) = false := by decide
  unfold fsmAdvance fsmStep
  rcases hfsm with (h | h) | (h | h) <;> simp [h, hid, h1]

theorem ddw0_class (s : CdpSt) (w : Bytes) (hfsm : InChoice s.fsm) (hid : wordId w = ID_DDW0) :
    (fsmAdvance s.fsm w).2 = .ddw0 := by
  have h1 : (ID_DDW0 == ID_TDH) = false := by decide
  have h2 : (ID_DDW0 == ID_IHW) = false := by decide
  unfold fsmAdvance fsmStep
  rcases hfsm with h | h <;> simp [h, hid, h1, h2]

/-- **one payload, stave mode** -/
theorem spayload_sim (cfg : CheckCfg) (hc : SCfg cfg) (barrel : Barrel)
    (r : Rdh) (st st' : LSt) (fst fst' : FSt) (pl : Payload) (s0 : CdpSt)
    (hrel : EndRel cfg.running st.bw st.cdw s0) (hfrel : FrameRel barrel fst s0) (hr : s0.rdh = r) (hsod : s0.startOfData = true)
    (hok : payloadOk cfg.running r st pl = some st') (hfr : payloadFrames barrel cfg.running st fst pl fst') :
    ∃ s', Calm cfg s0 pl.words s' ∧ EndRel cfg.running st'.bw st'.cdw s' ∧ FrameRel barrel fst' s' := by
  cases pl with
  | stop d =>
    simp only [payloadFrames] at hfr
    subst hfr
    simp only [payloadOk] at hok
    cases hbw : st.bw with
    | fresh => simp [hbw] at hok
    | open_ o => simp [hbw] at hok
    | closed =>
      simp only [hbw] at hok
      split at hok
      · rename_i hcnd
        simp only [Bool.and_eq_true, beq_iff_eq, bne_iff_ne, ne_eq] at hcnd
        obtain ⟨⟨⟨_, hsane⟩, hstop⟩, hpage⟩ := hcnd
        have hfsm : InChoice s0.fsm := by have := hrel.fsm; rw [hbw] at this; exact this
        obtain ⟨s', h1, hf, hcw⟩ := step_ddw0 cfg s0 d hfsm hsane (by rw [hr]; exact hstop) (by rw [hr]; exact hpage)
        have hid : wordId d = ID_DDW0 := by
          simp only [ddw0Sane, Bool.and_eq_true, beq_iff_eq] at hsane; exact hsane.1.1
        have hsf := frame_untouched_status cfg s0 d s' [] h1 (Or.inr (Or.inr (ddw0_class s0 d hfsm hid)))
        simp only [Option.some.injEq] at hok
        subst hok
        exact ⟨s', Calm.single h1 OnlyStats.nil, ⟨Or.inr hf, fun hrn => by rw [hcw]; exact hrel.cdw hrn⟩, hfrel.of_same hsf⟩
      · cases hok
  | page p =>
    simp only [payloadFrames] at hfr
    simp only [payloadOk] at hok
    split at hok
    · cases hok
    · rename_i hcnd
      simp only [Bool.not_eq_true', Bool.and_eq_false_iff, not_or, Bool.not_eq_false, Bool.and_eq_true, beq_iff_eq] at hcnd
      obtain ⟨⟨_, hsane⟩, hstop⟩ := hcnd
      have hid := ihwSane_id p.ihw hsane
      cases hsg : segsOk cfg.running r (ihwActiveLanes p.ihw) st.bw.expect { sod := true, cdw := st.cdw } p.segs with
      | none => simp [hsg] at hok
      | some res =>
        obtain ⟨bw, ps⟩ := res
        simp only [hsg, Option.some.injEq] at hok
        subst hok
        have hihw : ∃ s1, checkWord cfg s0 p.ihw = .ok (s1, []) ∧
            SegRel cfg.running r p.ihw st.bw.expect { sod := true, cdw := st.cdw } s1 ∧ FrameRel barrel fst s1 := by
          cases hbw : st.bw with
          | fresh =>
            have hfsm : InFresh s0.fsm := by have := hrel.fsm; rw [hbw] at this; exact this
            obtain ⟨s1, h1, hf, hi, ht, hr1, hs, hcw⟩ := step_ihw cfg s0 p.ihw (Or.inl hfsm) hsane (by rw [hr]; exact hstop)
            have hsf := frame_untouched_status cfg s0 p.ihw s1 [] h1 (Or.inl (ihw_class s0 p.ihw (Or.inl hfsm) hid))
            exact ⟨s1, h1, ⟨hf, hr1.trans hr, hi, hs.trans hsod, fun hrn => by rw [hcw]; exact hrel.cdw hrn⟩, hfrel.of_same hsf⟩
          | closed =>
            have hfsm : InChoice s0.fsm := by have := hrel.fsm; rw [hbw] at this; exact this
            obtain ⟨s1, h1, hf, hi, ht, hr1, hs, hcw⟩ := step_ihw cfg s0 p.ihw (Or.inr hfsm) hsane (by rw [hr]; exact hstop)
            have hsf := frame_untouched_status cfg s0 p.ihw s1 [] h1 (Or.inl (ihw_class s0 p.ihw (Or.inr hfsm) hid))
            exact ⟨s1, h1, ⟨hf, hr1.trans hr, hi, hs.trans hsod, fun hrn => by rw [hcw]; exact hrel.cdw hrn⟩, hfrel.of_same hsf⟩
          | open_ o =>
            have hfsm : s0.fsm = .cIhwByTdtFalse ∧ s0.tdh = some o := by have := hrel.fsm; rw [hbw] at this; exact this
            obtain ⟨s1, h1, hf, hi, ht, hr1, hs, hcw⟩ := step_ihw_cont cfg s0 p.ihw hfsm.1 hsane
            have hcls : (fsmAdvance s0.fsm p.ihw).2 = .ihwCont := by simp [fsmAdvance, fsmStep, hfsm.1]
            have hsf := frame_untouched_status cfg s0 p.ihw s1 [] h1 (Or.inr (Or.inl hcls))
            exact ⟨s1, h1, ⟨⟨hf, ht.trans hfsm.2⟩, hr1.trans hr, hi, hs.trans hsod, fun hrn => by rw [hcw]; exact hrel.cdw hrn⟩, hfrel.of_same hsf⟩
        obtain ⟨s1, h1, hseg, hfrel1⟩ := hihw
        obtain ⟨s', hq, hend, hfre⟩ := ssegs_sim cfg hc barrel r p.ihw p.segs _ _ s1 bw ps fst fst' hseg hfrel1 hsg hfr
        exact ⟨s', Calm.cons h1 OnlyStats.nil hq, hend, hfre⟩

end Proto
end FastPasta
