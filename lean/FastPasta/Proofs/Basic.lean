/-
  Proofs.Basic — helper lemmas shared by the property files.
-/
import FastPasta.Model.Bytes
namespace FastPasta

theorem list10 (w : Bytes) (h : w.length = 10) :
    ∃ b0 b1 b2 b3 b4 b5 b6 b7 b8 b9, w = [b0,b1,b2,b3,b4,b5,b6,b7,b8,b9] := by
  match w, h with
  | [b0,b1,b2,b3,b4,b5,b6,b7,b8,b9], _ => exact ⟨b0,b1,b2,b3,b4,b5,b6,b7,b8,b9, rfl⟩

theorem leNat_append (a b : Bytes) : leNat (a ++ b) = leNat a + 256 ^ a.length * leNat b := by
  induction a with
  | nil => simp [leNat]
  | cons x xs ih =>
    simp only [List.cons_append, leNat, ih, List.length_cons, Nat.pow_succ]
    rw [Nat.mul_add, Nat.mul_comm (256 ^ xs.length) 256, Nat.mul_assoc]
    omega

theorem leNat_lt (a : Bytes) : leNat a < 256 ^ a.length := by
  induction a with
  | nil => simp [leNat]
  | cons x xs ih =>
    have := x.toNat_lt
    simp only [leNat, List.length_cons, Nat.pow_succ]
    omega

end FastPasta
