/-
  Proofs.ScanSrcTie — the hand-written scanner model's filter predicate and position bookkeeping (Model/Scanner.lean)
  ARE the source's `is_rdh_filter_target` / `is_match_feeid_layer_stave` (input_scanner.rs) and `MemPosTracker`
  (mem_pos_tracker.rs) as translated on every run by tools/rs2lean.py (Spec/ScanSrcGen.lean).
-/
import FastPasta.Spec.ScanSrcGen
import FastPasta.Proofs.RdhSrcTie
import FastPasta.Model.Scanner
namespace FastPasta
namespace ScanSrcTie
open SrcScan

/-- the source's `FilterTarget` as the model's `Filter` -/
def toFilter : FilterTarget → Filter
  | .Link id => .link id
  | .Fee id => .fee id
  | .ItsLayerStave f => .stave f

theorem and_layer_stave (x : Nat) : x &&& (Rs.mask 0 6 ||| Rs.mask 12 3) = x / 4096 % 8 * 4096 + x % 64 := by
  rw [Nat.and_or_distrib_left, Rs.and_mask, Rs.and_mask, Nat.or_comm]
  have e1 : x / 2 ^ 0 % 2 ^ 6 * 2 ^ 0 = x % 64 := by simp
  have e2 : x / 2 ^ 12 % 2 ^ 3 * 2 ^ 12 = (x / 4096 % 8) <<< 12 := by rw [Nat.shiftLeft_eq]
  have h3 : x % 64 < 2 ^ 12 := Nat.lt_of_lt_of_le (Nat.mod_lt _ (by decide)) (by decide)
  rw [e1, e2, ← Nat.shiftLeft_add_eq_or_of_lt h3, Nat.shiftLeft_eq]

theorem layer_stave_eq (a b : Nat) :
    is_match_feeid_layer_stave a b = (a / 4096 % 8 == b / 4096 % 8 && a % 64 == b % 64) := by
  simp only [is_match_feeid_layer_stave, and_layer_stave]
  rw [Bool.eq_iff_iff]
  simp only [beq_iff_eq, Bool.and_eq_true]
  omega

/-- **the filter predicate**: for every header and every filter target, the source's `is_rdh_filter_target` is the
    model's `Filter.matches` -/
theorem filter_target_eq (c : SrcRdh.RdhCru) (t : FilterTarget) :
    is_rdh_filter_target c t = (toFilter t).matches (SrcTie.toModel c) := by
  cases t with
  | Link id => rfl
  | Fee id => rfl
  | ItsLayerStave f => simp only [is_rdh_filter_target, toFilter, Filter.matches, layer_stave_eq]; rfl

/-- **the position tracker**: a fresh tracker is at address 0; `next(off)` for an offset the scanner has accepted
    (`64 ≤ off`, which `sanity_check_offset_next` enforces before any seek) advances the address by `off` and returns the
    relative seek distance `off − 64` (the model's `seekNext`: `pos + off`, drop `off − 64` bytes); `update_mem_address`
    adds its argument. No wrap-around below 2^64 bytes of input. -/
theorem tracker_eq (t : MemPosTracker) (off : Nat) (h64 : 64 ≤ off) (hoff : off < 2^16)
    (hsz : t.f_rdh_cru_size_bytes = 64) (hpos : t.f_memory_address_bytes + off < 2^64) :
    MemPosTracker.new.current_mem_address = 0 ∧ MemPosTracker.new.f_rdh_cru_size_bytes = 64 ∧
    (t.next off).1 = ((off - 64 : Nat) : Int) ∧
    (t.next off).2.current_mem_address = t.current_mem_address + off ∧
    (t.next off).2.f_rdh_cru_size_bytes = 64 ∧
    (t.update_mem_address off).2.current_mem_address = t.current_mem_address + off ∧
    (t.update_mem_address off).2.f_rdh_cru_size_bytes = 64 := by
  refine ⟨rfl, rfl, ?_, ?_, hsz, ?_, hsz⟩
  · simp only [MemPosTracker.next, hsz, Rs.toSigned]
    have : (off + 2 ^ 64 - 64) % 2 ^ 64 % 2 ^ 64 = off - 64 := by omega
    rw [this, if_pos (by omega)]
  · simp only [MemPosTracker.next, MemPosTracker.current_mem_address]; omega
  · simp only [MemPosTracker.update_mem_address, MemPosTracker.current_mem_address]; omega

end ScanSrcTie
end FastPasta
