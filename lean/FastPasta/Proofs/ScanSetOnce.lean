/-
  Proofs.ScanSetOnce — the scanner announces the run-wide attributes (run trigger type, data format,
  system ID) exactly once, from the first 64 bytes of the input: loop invariants over
  `filterLoop` / `loadRdh` / `loadCdp` / `scanLoop` (tracked position > 0 after the first packet).
-/
import FastPasta.Model.Scanner
namespace FastPasta
namespace C03

/-- the three run-wide attributes the scanner announces from the very first header -/
def _root_.FastPasta.InMsg.setOnce : InMsg → Bool
  | .runTrigger _ | .dataFormat _ | .systemId _ => true
  | _ => false

def firstAttrs (r : Rdh) : List InMsg := [.runTrigger r.triggerType, .dataFormat r.dataFormat, .systemId r.systemId]

theorem seeMsgs_noSetOnce (s : ScanSt) (r : Rdh) : (s.seeMsgs r).filter InMsg.setOnce = [] := by
  unfold ScanSt.seeMsgs
  split <;> split <;> simp [InMsg.setOnce]

theorem filterLoop_setOnce (src : Src) (t : Filter) (s : ScanSt) (acc : List InMsg) :
    (filterLoop src t s acc).2.1.filter InMsg.setOnce = acc.filter InMsg.setOnce ∧
    (∀ r, (filterLoop src t s acc).2.2 = .ok r → offsetOk r = true) ∧
    s.pos ≤ (filterLoop src t s acc).1.pos := by
  fun_induction filterLoop src t s acc with
  | case1 s acc h => exact ⟨rfl, (by intro r hr; cases hr), Nat.le_refl _⟩
  | case2 s acc h r s1 hoff => exact ⟨by simp [InMsg.setOnce], (by intro r hr; cases hr), Nat.le_refl _⟩
  | case3 s acc h r s1 hoff s2 m hm =>
    refine ⟨by simp [List.filter_append, m, seeMsgs_noSetOnce], ?_, Nat.le_refl _⟩
    intro r' hr'; simp only [Except.ok.injEq] at hr'; subst hr'; simpa using hoff
  | case4 s acc h r s1 hoff s2 m hm s3 hsk =>
    exact ⟨by simp [List.filter_append, m, seeMsgs_noSetOnce], (by intro r hr; cases hr), by simp [s3, seekNext, s2, ScanSt.seeRdh, s1]⟩
  | case5 s acc h r s1 hoff s2 m hm s3 hsk ih =>
    obtain ⟨i1, i2, i3⟩ := ih
    refine ⟨by rw [i1]; simp [List.filter_append, m, seeMsgs_noSetOnce], i2, ?_⟩
    have : s.pos ≤ s3.pos := by simp [s3, seekNext, s2, ScanSt.seeRdh, s1]
    omega


theorem loadRdh_setOnce (cfg : ScanCfg) (s : ScanSt) :
    (loadRdh cfg s).2.1.filter InMsg.setOnce =
      (if s.pos == 0 && decide (64 ≤ s.rest.length) then firstAttrs (decodeRdh (s.rest.take 64)) else []) ∧
    (∀ r, (loadRdh cfg s).2.2 = .ok r → offsetOk r = true) ∧
    s.pos ≤ (loadRdh cfg s).1.pos := by
  unfold loadRdh
  by_cases hlen : s.rest.length < 64
  · simp only [hlen, ↓reduceIte]
    refine ⟨?_, (by intro r hr; cases hr), Nat.le_refl _⟩
    have : ¬ 64 ≤ s.rest.length := by omega
    simp [this]
  · simp only [hlen, ↓reduceIte]
    have hge : 64 ≤ s.rest.length := by omega
    generalize hr : decodeRdh (s.rest.take 64) = r
    have hm0 : (if s.pos = 0 then [InMsg.runTrigger r.triggerType, .dataFormat r.dataFormat, .systemId r.systemId] else []).filter InMsg.setOnce =
        (if s.pos = 0 ∧ 64 ≤ s.rest.length then firstAttrs r else []) := by
      by_cases hp : s.pos = 0 <;> simp [hp, hge, firstAttrs, InMsg.setOnce]
    by_cases hoff : offsetOk r = true
    · simp only [hoff, Bool.not_true, Bool.false_eq_true, ↓reduceIte]
      cases hf : cfg.filter with
      | none =>
        simp only
        refine ⟨by simp [List.filter_append, hm0, seeMsgs_noSetOnce], ?_, by simp [ScanSt.seeRdh]⟩
        intro r' hr'; simp only [Except.ok.injEq] at hr'; subst hr'; exact hoff
      | some t =>
        simp only
        by_cases hmt : t.matches r = true
        · simp only [hmt, ↓reduceIte]
          refine ⟨by simp [List.filter_append, hm0, seeMsgs_noSetOnce], ?_, by simp [ScanSt.seeRdh]⟩
          intro r' hr'; simp only [Except.ok.injEq] at hr'; subst hr'; exact hoff
        · simp only [hmt, Bool.false_eq_true, ↓reduceIte]
          by_cases hsk : seekOk cfg.src (ScanSt.seeRdh { s with rest := s.rest.drop 64 } r) r.offsetNext = true
          · simp only [hsk, Bool.not_true, Bool.false_eq_true, ↓reduceIte]
            obtain ⟨i1, i2, i3⟩ := filterLoop_setOnce cfg.src t (seekNext (ScanSt.seeRdh { s with rest := s.rest.drop 64 } r) r.offsetNext) []
            generalize filterLoop cfg.src t _ [] = x at i1 i2 i3
            obtain ⟨x1, x2, x3⟩ := x
            simp only at i1 i2 i3
            have hpos : s.pos ≤ x1.pos := by
              have : s.pos ≤ (seekNext (ScanSt.seeRdh { s with rest := s.rest.drop 64 } r) r.offsetNext).pos := by simp [seekNext, ScanSt.seeRdh]
              omega
            cases x3 with
            | error e =>
              exact ⟨by simp [List.filter_append, hm0, seeMsgs_noSetOnce, i1], (by intro r' hr'; cases hr'), hpos⟩
            | ok r' =>
              refine ⟨by simp [List.filter_append, hm0, seeMsgs_noSetOnce, i1], ?_, hpos⟩
              intro r'' hr''; simp only [Except.ok.injEq] at hr''; subst hr''; exact i2 _ rfl
          · simp only [hsk, Bool.not_false, ↓reduceIte]
            exact ⟨by simp [List.filter_append, hm0, seeMsgs_noSetOnce], (by intro r' hr'; cases hr'), by simp [seekNext, ScanSt.seeRdh]⟩
    · simp only [hoff, Bool.not_false, ↓reduceIte]
      exact ⟨by simp [List.filter_append, hm0, seeMsgs_noSetOnce, InMsg.setOnce], (by intro r' hr'; cases hr'), by simp [ScanSt.seeRdh]⟩


theorem loadCdp_setOnce (cfg : ScanCfg) (s : ScanSt) :
    (loadCdp cfg s).2.1.filter InMsg.setOnce =
      (if s.pos == 0 && decide (64 ≤ s.rest.length) then firstAttrs (decodeRdh (s.rest.take 64)) else []) ∧
    (∀ p, (loadCdp cfg s).2.2 = .ok p → s.pos + 64 ≤ (loadCdp cfg s).1.pos) := by
  obtain ⟨h1, h2, h3⟩ := loadRdh_setOnce cfg s
  unfold loadCdp
  generalize loadRdh cfg s = x at h1 h2 h3
  obtain ⟨s1, m, res⟩ := x
  simp only at h1 h2 h3
  cases res with
  | error e => exact ⟨h1, by intro p hp; cases hp⟩
  | ok r =>
    have hoff := h2 r rfl
    simp only [offsetOk, Bool.and_eq_true, decide_eq_true_eq] at hoff
    simp only
    split
    · refine ⟨?_, ?_⟩
      · rw [List.filter_append, h1]; split <;> simp [InMsg.setOnce]
      · intro p _; simp only [seekNext]; omega
    · split
      · refine ⟨?_, ?_⟩
        · rw [List.filter_append, h1]; simp [InMsg.setOnce]
        · intro p _; simp only; omega
      · exact ⟨h1, by intro p _; simp only; omega⟩

/-- from a position past the start of the input the scanner announces no run-wide attribute -/
theorem scanLoop_setOnce_later (cfg : ScanCfg) (s : ScanSt) (pk : List Packet) (ms : List InMsg) (hpos : 0 < s.pos) :
    (scanLoop cfg s pk ms).msgs.filter InMsg.setOnce = ms.filter InMsg.setOnce := by
  fun_induction scanLoop cfg s pk ms with
  | case1 s pk ms s1 m e h =>
    have := (loadCdp_setOnce cfg s).1; rw [h] at this
    have hp : (s.pos == 0) = false := by simp; omega
    simp only [hp, Bool.false_and, Bool.false_eq_true, ↓reduceIte] at this
    simp [List.filter_append, this]
  | case2 s pk ms s1 m p h hg ih =>
    have h0 := loadCdp_setOnce cfg s; rw [h] at h0
    have hp : (s.pos == 0) = false := by simp; omega
    simp only [hp, Bool.false_and, Bool.false_eq_true, ↓reduceIte] at h0
    have := h0.2 p rfl
    rw [ih (by omega)]
    simp [List.filter_append, h0.1]
  | case3 s pk ms s1 m p h hg =>
    have := (loadCdp_setOnce cfg s).1; rw [h] at this
    have hp : (s.pos == 0) = false := by simp; omega
    simp only [hp, Bool.false_and, Bool.false_eq_true, ↓reduceIte] at this
    simp [List.filter_append, this]

/-- **the run-wide attributes are announced exactly once, from the first 64 bytes of the input** -/
theorem scanAll_setOnce (cfg : ScanCfg) (input : Bytes) :
    (scanAll cfg input).msgs.filter InMsg.setOnce =
      (if 64 ≤ input.length then firstAttrs (decodeRdh (input.take 64)) else []) := by
  unfold scanAll
  simp only [List.filter_append]
  have hflush : ∀ a b c : Nat, [InMsg.rdhSeen a, .rdhFiltered b, .payloadSize c].filter InMsg.setOnce = [] := by
    intro a b c; simp [InMsg.setOnce]
  rw [hflush, List.append_nil]
  have h0 := loadCdp_setOnce cfg { rest := input }
  simp only [beq_self_eq_true, Bool.true_and] at h0
  unfold scanLoop
  split
  · rename_i s1 m e h
    rw [h] at h0
    simp only [List.nil_append]
    rw [h0.1]; by_cases hl : 64 ≤ input.length <;> simp [hl]
  · rename_i s1 m p h
    rw [h] at h0
    have hp := h0.2 p rfl
    split
    · rw [scanLoop_setOnce_later cfg s1 _ _ (by simp only at hp; omega)]
      simp only [List.nil_append]
      rw [h0.1]; by_cases hl : 64 ≤ input.length <;> simp [hl]
    · simp only [List.nil_append]
      rw [h0.1]; by_cases hl : 64 ≤ input.length <;> simp [hl]

end C03
end FastPasta
