/-
  Proofs.ScanTail — the scanner on an input that ends *inside the payload* of its last packet:
  `bytesOf ps ++ q.hdr ++ part` with `part` shorter than the payload `q`'s header announces.
  The complete packets `ps` are delivered exactly as in the untruncated input; the truncated
  packet is delivered with an empty payload iff its header matches the filter. Used by C18.
-/
import FastPasta.Proofs.ScanCount
namespace FastPasta
namespace C03

def totalSize (ps : List RawPkt) : Nat := (ps.map RawPkt.size).sum

/-- the header of the truncated packet: well-formed, announcing `n` payload bytes -/
structure WFH (q : RawPkt) (n : Nat) : Prop where
  hlen : q.hdr.length = 64
  off : q.rdh.offsetNext = 64 + n
  mem : q.rdh.memSize = 64 + n
  small : n ≤ 10000

theorem offsetOk_of_wfh (q : RawPkt) (n : Nat) (h : WFH q n) : offsetOk q.rdh = true := by
  unfold offsetOk
  rw [h.off]
  have := h.small
  simp only [Bool.and_eq_true, decide_eq_true_eq]
  omega

theorem take_hdr' (q : RawPkt) (hl : q.hdr.length = 64) (tail : Bytes) :
    (q.hdr ++ tail).take 64 = q.hdr ∧ (q.hdr ++ tail).drop 64 = tail ∧ ¬ (q.hdr ++ tail).length < 64 := by
  refine ⟨?_, ?_, ?_⟩
  · rw [← hl, List.take_left']; rfl
  · rw [← hl, List.drop_left']; rfl
  · simp only [List.length_append]; omega

/-- the filter loop passes over packets that do not match and arrives at the tail -/
theorem filterLoop_reach (src : Src) (t : Filter) (ps : List RawPkt) (hwf : ∀ p ∈ ps, WF p) (tail : Bytes) :
    ∀ (s : ScanSt) (acc : List InMsg), s.rest = bytesOf ps ++ tail → firstMatch (some t) s.pos ps = none →
      ∃ s' acc', s'.rest = tail ∧ s'.pos = s.pos + totalSize ps ∧ filterLoop src t s acc = filterLoop src t s' acc' := by
  induction ps with
  | nil =>
    intro s acc hs _
    exact ⟨s, acc, by simpa [bytesOf] using hs, by simp [totalSize], rfl⟩
  | cons p ps ih =>
    intro s acc hs hfm
    have hp := hwf p (by simp)
    rw [bytesOf_cons, List.append_assoc, List.append_assoc] at hs
    obtain ⟨ht, hd, hl⟩ := take_hdr p hp (p.payload ++ (bytesOf ps ++ tail))
    have hok := offsetOk_of_wf p hp
    simp only [RawPkt.rdh] at hok
    have hm : ¬ t.matches (decodeRdh p.hdr) = true := by
      intro hm
      simp [firstMatch, filterMatches, RawPkt.rdh, hm] at hfm
    have hfm' : firstMatch (some t) (s.pos + p.size) ps = none := by
      simpa [firstMatch, filterMatches, RawPkt.rdh, hm] using hfm
    have hoff : (decodeRdh p.hdr).offsetNext = 64 + p.payload.length := hp.off
    have hseek : seekOk src (ScanSt.seeRdh { s with rest := p.payload ++ (bytesOf ps ++ tail) } (decodeRdh p.hdr))
        (decodeRdh p.hdr).offsetNext = true := by
      cases src <;> simp [seekOk, ScanSt.seeRdh, hoff]
    have hrest : (seekNext (ScanSt.seeRdh { s with rest := p.payload ++ (bytesOf ps ++ tail) } (decodeRdh p.hdr))
        (decodeRdh p.hdr).offsetNext).rest = bytesOf ps ++ tail := by
      simp [seekNext, ScanSt.seeRdh, hoff]
    have hpos : (seekNext (ScanSt.seeRdh { s with rest := p.payload ++ (bytesOf ps ++ tail) } (decodeRdh p.hdr))
        (decodeRdh p.hdr).offsetNext).pos = s.pos + p.size := by
      simp [seekNext, ScanSt.seeRdh, hoff, RawPkt.size]
    obtain ⟨s', acc', h1, h2, h3⟩ := ih (fun q hq => hwf q (by simp [hq])) _
      (acc ++ ScanSt.seeMsgs { s with rest := p.payload ++ (bytesOf ps ++ tail) } (decodeRdh p.hdr)) hrest (by rw [hpos]; exact hfm')
    refine ⟨s', acc', h1, ?_, ?_⟩
    · rw [h2, hpos]; simp [totalSize]; omega
    · rw [← h3]
      rw [filterLoop]
      simp only [hs, hl, ↓reduceDIte, ht, hd, hok, Bool.not_true, Bool.false_eq_true, ↓reduceIte, hm, hseek]

/-- the filter loop at the truncated packet -/
theorem filterLoop_tail (src : Src) (t : Filter) (q : RawPkt) (n : Nat) (hq : WFH q n) (part : Bytes) (hpart : part.length < n)
    (s : ScanSt) (acc : List InMsg) (hs : s.rest = q.hdr ++ part) :
    if t.matches q.rdh then
      (filterLoop src t s acc).2.2 = .ok q.rdh ∧ (filterLoop src t s acc).1.rest = part ∧ (filterLoop src t s acc).1.pos = s.pos
    else ∃ e, (filterLoop src t s acc).2.2 = .error e := by
  obtain ⟨ht, hd, hl⟩ := take_hdr' q hq.hlen part
  have hok := offsetOk_of_wfh q n hq
  simp only [RawPkt.rdh] at hok
  have hoff : (decodeRdh q.hdr).offsetNext = 64 + n := hq.off
  rw [filterLoop]
  simp only [hs, hl, ↓reduceDIte, ht, hd, hok, Bool.not_true, Bool.false_eq_true, ↓reduceIte]
  by_cases hm : t.matches (decodeRdh q.hdr) = true
  · simp [RawPkt.rdh, hm, ScanSt.seeRdh]
  · simp only [RawPkt.rdh, hm, Bool.false_eq_true, ↓reduceIte]
    cases src with
    | pipe =>
      have : seekOk .pipe (ScanSt.seeRdh { s with rest := part } (decodeRdh q.hdr)) (decodeRdh q.hdr).offsetNext = false := by
        simp [seekOk, ScanSt.seeRdh, hoff]; omega
      simp only [this, Bool.not_false, ↓reduceIte]
      exact ⟨_, rfl⟩
    | file =>
      have : seekOk .file (ScanSt.seeRdh { s with rest := part } (decodeRdh q.hdr)) (decodeRdh q.hdr).offsetNext = true := rfl
      simp only [this, Bool.not_true, Bool.false_eq_true, ↓reduceIte]
      have hr : (seekNext (ScanSt.seeRdh { s with rest := part } (decodeRdh q.hdr)) (decodeRdh q.hdr).offsetNext).rest = [] := by
        simp only [seekNext, ScanSt.seeRdh, hoff]
        apply List.drop_eq_nil_of_le; omega
      rw [filterLoop]
      simp only [hr, List.length_nil, Nat.zero_lt_succ, Nat.lt_add_one, ↓reduceDIte]
      exact ⟨_, rfl⟩

/-! ### the "next matching packet" lemmas of C03 for an arbitrary tail -/

theorem filterLoop_some (src : Src) (t : Filter) (ps : List RawPkt) (hwf : ∀ p ∈ ps, WF p) (tail : Bytes) :
    ∀ (s : ScanSt) (acc : List InMsg), s.rest = bytesOf ps ++ tail →
      ∀ o' p post, firstMatch (some t) s.pos ps = some (o', p, post) →
        (filterLoop src t s acc).2.2 = .ok p.rdh ∧
        (filterLoop src t s acc).1.rest = p.payload ++ (bytesOf post ++ tail) ∧
        (filterLoop src t s acc).1.pos = o' := by
  induction ps with
  | nil => intro s acc _ o' p post h; simp [firstMatch] at h
  | cons p ps ih =>
    intro s acc hs o' q post hfm
    have hp := hwf p (by simp)
    rw [bytesOf_cons, List.append_assoc, List.append_assoc] at hs
    obtain ⟨ht, hd, hl⟩ := take_hdr p hp (p.payload ++ (bytesOf ps ++ tail))
    rw [filterLoop]
    simp only [hs, hl, ↓reduceDIte, ht, hd]
    have hok := offsetOk_of_wf p hp
    simp only [RawPkt.rdh] at hok
    simp only [hok, Bool.not_true, Bool.false_eq_true, ↓reduceIte]
    by_cases hm : t.matches (decodeRdh p.hdr) = true
    · simp only [firstMatch, filterMatches, RawPkt.rdh, hm, ↓reduceIte, Option.some.injEq, Prod.mk.injEq] at hfm
      obtain ⟨rfl, rfl, rfl⟩ := hfm
      simp [RawPkt.rdh, hm, ScanSt.seeRdh]
    · have hoff : (decodeRdh p.hdr).offsetNext = 64 + p.payload.length := hp.off
      have hseek : seekOk src (ScanSt.seeRdh { s with rest := p.payload ++ (bytesOf ps ++ tail) } (decodeRdh p.hdr))
          (decodeRdh p.hdr).offsetNext = true := by
        cases src <;> simp [seekOk, ScanSt.seeRdh, hoff]
      simp only [hm, Bool.false_eq_true, ↓reduceIte, hseek, Bool.not_true]
      have hrest : (seekNext (ScanSt.seeRdh { s with rest := p.payload ++ (bytesOf ps ++ tail) } (decodeRdh p.hdr))
          (decodeRdh p.hdr).offsetNext).rest = bytesOf ps ++ tail := by
        simp [seekNext, ScanSt.seeRdh, hoff]
      have hpos : (seekNext (ScanSt.seeRdh { s with rest := p.payload ++ (bytesOf ps ++ tail) } (decodeRdh p.hdr))
          (decodeRdh p.hdr).offsetNext).pos = s.pos + p.size := by
        simp [seekNext, ScanSt.seeRdh, hoff, RawPkt.size]
      have hfm' : firstMatch (some t) (s.pos + p.size) ps = some (o', q, post) := by
        simpa [firstMatch, filterMatches, RawPkt.rdh, hm] using hfm
      exact ih (fun x hx => hwf x (by simp [hx])) _ _ hrest o' q post (by rw [hpos]; exact hfm')

theorem loadRdh_some (cfg : ScanCfg) (ps : List RawPkt) (hwf : ∀ p ∈ ps, WF p) (tail : Bytes)
    (s : ScanSt) (hs : s.rest = bytesOf ps ++ tail) (o' : Nat) (p : RawPkt) (post : List RawPkt)
    (hfm : firstMatch cfg.filter s.pos ps = some (o', p, post)) :
    (loadRdh cfg s).2.2 = .ok p.rdh ∧ (loadRdh cfg s).1.rest = p.payload ++ (bytesOf post ++ tail) ∧ (loadRdh cfg s).1.pos = o' := by
  cases ps with
  | nil => simp [firstMatch] at hfm
  | cons x ps =>
    have hp := hwf x (by simp)
    rw [bytesOf_cons, List.append_assoc, List.append_assoc] at hs
    obtain ⟨ht, hd, hl⟩ := take_hdr x hp (x.payload ++ (bytesOf ps ++ tail))
    have hok := offsetOk_of_wf x hp
    simp only [RawPkt.rdh] at hok
    have hoff : (decodeRdh x.hdr).offsetNext = 64 + x.payload.length := hp.off
    unfold loadRdh
    simp only [hs, hl, ↓reduceIte, ht, hd, hok, Bool.not_true, Bool.false_eq_true]
    cases hf : cfg.filter with
    | none =>
      simp only [hf, firstMatch, filterMatches, ↓reduceIte, Option.some.injEq, Prod.mk.injEq] at hfm
      obtain ⟨rfl, rfl, rfl⟩ := hfm
      simp [RawPkt.rdh, ScanSt.seeRdh]
    | some t =>
      rw [hf] at hfm
      by_cases hm : t.matches (decodeRdh x.hdr) = true
      · simp only [firstMatch, filterMatches, RawPkt.rdh, hm, ↓reduceIte, Option.some.injEq, Prod.mk.injEq] at hfm
        obtain ⟨rfl, rfl, rfl⟩ := hfm
        simp [RawPkt.rdh, hm, ScanSt.seeRdh]
      · have hseek : seekOk cfg.src (ScanSt.seeRdh { s with rest := x.payload ++ (bytesOf ps ++ tail) } (decodeRdh x.hdr))
            (decodeRdh x.hdr).offsetNext = true := by
          cases cfg.src <;> simp [seekOk, ScanSt.seeRdh, hoff]
        have hrest : (seekNext (ScanSt.seeRdh { s with rest := x.payload ++ (bytesOf ps ++ tail) } (decodeRdh x.hdr))
            (decodeRdh x.hdr).offsetNext).rest = bytesOf ps ++ tail := by
          simp [seekNext, ScanSt.seeRdh, hoff]
        have hpos : (seekNext (ScanSt.seeRdh { s with rest := x.payload ++ (bytesOf ps ++ tail) } (decodeRdh x.hdr))
            (decodeRdh x.hdr).offsetNext).pos = s.pos + x.size := by
          simp [seekNext, ScanSt.seeRdh, hoff, RawPkt.size]
        have hfm' : firstMatch (some t) (s.pos + x.size) ps = some (o', p, post) := by
          simpa [firstMatch, filterMatches, RawPkt.rdh, hm] using hfm
        have hfl := filterLoop_some cfg.src t ps (fun q hq => hwf q (by simp [hq])) tail _ [] hrest o' p post (by rw [hpos]; exact hfm')
        simp only [hm, Bool.false_eq_true, ↓reduceIte, hseek, Bool.not_true]
        generalize filterLoop cfg.src t _ [] = r at hfl
        obtain ⟨s3, m2, res⟩ := r
        simp only at hfl
        obtain ⟨h1, h2, h3⟩ := hfl
        subst h1
        exact ⟨rfl, h2, h3⟩

theorem loadCdp_some (cfg : ScanCfg) (ps : List RawPkt) (hwf : ∀ p ∈ ps, WF p) (tail : Bytes)
    (s : ScanSt) (hs : s.rest = bytesOf ps ++ tail) (o' : Nat) (p : RawPkt) (post : List RawPkt)
    (hfm : firstMatch cfg.filter s.pos ps = some (o', p, post)) :
    (loadCdp cfg s).2.2 = .ok (mkPacket cfg.skipPayload (o', p)) ∧
    (loadCdp cfg s).1.rest = bytesOf post ++ tail ∧ (loadCdp cfg s).1.pos = o' + p.size := by
  have h := loadRdh_some cfg ps hwf tail s hs o' p post hfm
  unfold loadCdp
  generalize loadRdh cfg s = r at h
  obtain ⟨s1, m, res⟩ := r
  simp only at h
  obtain ⟨h1, h2, h3⟩ := h
  subst h1
  have hp : WF p := hwf p (firstMatch_mem _ ps _ _ _ _ hfm).1
  have hoff : p.rdh.offsetNext = 64 + p.payload.length := hp.off
  have hsz := payloadSize_eq p hp
  simp only
  by_cases hskip : cfg.skipPayload = true
  · simp [hskip, seekNext, h2, h3, hoff, mkPacket, RawPkt.size]
  · have hlen : ¬ (p.payload.length + ((bytesOf post).length + tail.length) < p.payload.length) := by omega
    simp [hskip, h2, h3, hsz, mkPacket, RawPkt.size, hoff, hlen]

/-! ### reaching the truncated packet -/

theorem drop_part (part : Bytes) (n : Nat) (h : part.length < n) : part.drop n = [] :=
  List.drop_eq_nil_of_le (by omega)

/-- `loadRdh` directly at the truncated packet -/
theorem loadRdh_tail (cfg : ScanCfg) (q : RawPkt) (n : Nat) (hq : WFH q n) (part : Bytes) (hpart : part.length < n)
    (s : ScanSt) (hs : s.rest = q.hdr ++ part) :
    if filterMatches cfg.filter q.rdh then
      (loadRdh cfg s).2.2 = .ok q.rdh ∧ (loadRdh cfg s).1.rest = part ∧ (loadRdh cfg s).1.pos = s.pos
    else ∃ e, (loadRdh cfg s).2.2 = .error e := by
  obtain ⟨ht, hd, hl⟩ := take_hdr' q hq.hlen part
  have hok := offsetOk_of_wfh q n hq
  simp only [RawPkt.rdh] at hok
  have hoff : (decodeRdh q.hdr).offsetNext = 64 + n := hq.off
  unfold loadRdh
  simp only [hs, hl, ↓reduceIte, ht, hd, hok, Bool.not_true, Bool.false_eq_true]
  cases hf : cfg.filter with
  | none => simp [filterMatches, ScanSt.seeRdh, RawPkt.rdh]
  | some t =>
    by_cases hm : t.matches (decodeRdh q.hdr) = true
    · simp [filterMatches, RawPkt.rdh, hm, ScanSt.seeRdh]
    · simp only [filterMatches, RawPkt.rdh, hm, Bool.false_eq_true, ↓reduceIte]
      cases hsrc : cfg.src with
      | pipe =>
        have : seekOk .pipe (ScanSt.seeRdh { s with rest := part } (decodeRdh q.hdr)) (decodeRdh q.hdr).offsetNext = false := by
          simp [seekOk, ScanSt.seeRdh, hoff]; omega
        simp only [this, Bool.not_false, ↓reduceIte]
        exact ⟨_, rfl⟩
      | file =>
        have : seekOk .file (ScanSt.seeRdh { s with rest := part } (decodeRdh q.hdr)) (decodeRdh q.hdr).offsetNext = true := rfl
        simp only [this, Bool.not_true, Bool.false_eq_true, ↓reduceIte]
        have hr : (seekNext (ScanSt.seeRdh { s with rest := part } (decodeRdh q.hdr)) (decodeRdh q.hdr).offsetNext).rest = [] := by
          simp only [seekNext, ScanSt.seeRdh, hoff]
          exact drop_part part _ (by omega)
        rw [filterLoop]
        simp only [hr, List.length_nil, Nat.zero_lt_succ, Nat.lt_add_one, ↓reduceDIte]
        exact ⟨_, rfl⟩

/-- `loadRdh` over packets that do not match, up to the truncated packet -/
theorem loadRdh_nomatch (cfg : ScanCfg) (ps : List RawPkt) (hwf : ∀ p ∈ ps, WF p)
    (q : RawPkt) (n : Nat) (hq : WFH q n) (part : Bytes) (hpart : part.length < n)
    (s : ScanSt) (hs : s.rest = bytesOf ps ++ (q.hdr ++ part)) (hfm : firstMatch cfg.filter s.pos ps = none) :
    if filterMatches cfg.filter q.rdh then
      (loadRdh cfg s).2.2 = .ok q.rdh ∧ (loadRdh cfg s).1.rest = part ∧ (loadRdh cfg s).1.pos = s.pos + totalSize ps
    else ∃ e, (loadRdh cfg s).2.2 = .error e := by
  cases ps with
  | nil =>
    have := loadRdh_tail cfg q n hq part hpart s (by simpa [bytesOf] using hs)
    simpa [totalSize] using this
  | cons x ps =>
    have hp := hwf x (by simp)
    rw [bytesOf_cons, List.append_assoc, List.append_assoc] at hs
    obtain ⟨ht, hd, hl⟩ := take_hdr x hp (x.payload ++ (bytesOf ps ++ (q.hdr ++ part)))
    have hok := offsetOk_of_wf x hp
    simp only [RawPkt.rdh] at hok
    have hoff : (decodeRdh x.hdr).offsetNext = 64 + x.payload.length := hp.off
    cases hf : cfg.filter with
    | none => simp [hf, firstMatch, filterMatches] at hfm
    | some t =>
      rw [hf] at hfm
      have hm : ¬ t.matches (decodeRdh x.hdr) = true := by
        intro hm; simp [firstMatch, filterMatches, RawPkt.rdh, hm] at hfm
      have hfm' : firstMatch (some t) (s.pos + x.size) ps = none := by
        simpa [firstMatch, filterMatches, RawPkt.rdh, hm] using hfm
      have hseek : seekOk cfg.src (ScanSt.seeRdh { s with rest := x.payload ++ (bytesOf ps ++ (q.hdr ++ part)) } (decodeRdh x.hdr))
          (decodeRdh x.hdr).offsetNext = true := by
        cases cfg.src <;> simp [seekOk, ScanSt.seeRdh, hoff]
      have hrest : (seekNext (ScanSt.seeRdh { s with rest := x.payload ++ (bytesOf ps ++ (q.hdr ++ part)) } (decodeRdh x.hdr))
          (decodeRdh x.hdr).offsetNext).rest = bytesOf ps ++ (q.hdr ++ part) := by
        simp [seekNext, ScanSt.seeRdh, hoff]
      have hpos : (seekNext (ScanSt.seeRdh { s with rest := x.payload ++ (bytesOf ps ++ (q.hdr ++ part)) } (decodeRdh x.hdr))
          (decodeRdh x.hdr).offsetNext).pos = s.pos + x.size := by
        simp [seekNext, ScanSt.seeRdh, hoff, RawPkt.size]
      obtain ⟨s', acc', h1, h2, h3⟩ := filterLoop_reach cfg.src t ps (fun y hy => hwf y (by simp [hy])) (q.hdr ++ part) _ [] hrest
        (by rw [hpos]; exact hfm')
      have htl := filterLoop_tail cfg.src t q n hq part hpart s' acc' h1
      unfold loadRdh
      simp only [hs, hl, ↓reduceIte, ht, hd, hok, Bool.not_true, Bool.false_eq_true, hf, hm, hseek, h3]
      have hpos' : s'.pos = s.pos + totalSize (x :: ps) := by
        rw [h2, hpos]; simp [totalSize]; omega
      by_cases hmq : t.matches q.rdh = true
      · simp only [hmq, ↓reduceIte, filterMatches] at htl ⊢
        generalize filterLoop cfg.src t s' acc' = r at htl
        obtain ⟨s3, m2, res⟩ := r
        simp only at htl
        obtain ⟨g1, g2, g3⟩ := htl
        subst g1
        exact ⟨rfl, g2, by rw [g3, hpos']⟩
      · simp only [hmq, Bool.false_eq_true, ↓reduceIte, filterMatches] at htl ⊢
        generalize filterLoop cfg.src t s' acc' = r at htl
        obtain ⟨s3, m2, res⟩ := r
        obtain ⟨e, he⟩ := htl
        simp only at he
        subst he
        exact ⟨e, rfl⟩

theorem payloadSize_wfh (q : RawPkt) (n : Nat) (hq : WFH q n) : q.rdh.payloadSize = n := by
  unfold Rdh.payloadSize
  rw [hq.mem]
  have := hq.small
  omega

/-- the truncated packet as the scanner delivers it: header, true offset, empty payload -/
def truncPacket (off : Nat) (q : RawPkt) : Packet := { offset := off, rdh := q.rdh, payload := [] }

theorem loadCdp_nomatch (cfg : ScanCfg) (ps : List RawPkt) (hwf : ∀ p ∈ ps, WF p)
    (q : RawPkt) (n : Nat) (hq : WFH q n) (part : Bytes) (hpart : part.length < n)
    (s : ScanSt) (hs : s.rest = bytesOf ps ++ (q.hdr ++ part)) (hfm : firstMatch cfg.filter s.pos ps = none) :
    if filterMatches cfg.filter q.rdh then
      (loadCdp cfg s).2.2 = .ok (truncPacket (s.pos + totalSize ps) q) ∧ (loadCdp cfg s).1.rest = []
    else ∃ e, (loadCdp cfg s).2.2 = .error e := by
  have h := loadRdh_nomatch cfg ps hwf q n hq part hpart s hs hfm
  unfold loadCdp
  generalize loadRdh cfg s = r at h
  obtain ⟨s1, m, res⟩ := r
  by_cases hmq : filterMatches cfg.filter q.rdh = true
  · simp only [hmq, ↓reduceIte] at h ⊢
    obtain ⟨h1, h2, h3⟩ := h
    subst h1
    have hoff : q.rdh.offsetNext = 64 + n := hq.off
    have hsz := payloadSize_wfh q n hq
    simp only
    by_cases hskip : cfg.skipPayload = true
    · simp only [hskip, ↓reduceIte, seekNext, h2, hoff, truncPacket, h3]
      refine ⟨by simp, ?_⟩
      exact drop_part part _ (by omega)
    · simp only [hskip, Bool.false_eq_true, ↓reduceIte, h2, hsz, hpart, truncPacket, h3]
      simp
  · simp only [hmq, Bool.false_eq_true, ↓reduceIte] at h ⊢
    obtain ⟨e, he⟩ := h
    subst he
    exact ⟨e, rfl⟩

/-- after the truncated packet nothing is left: the next load reports the end of the input -/
theorem scanLoop_empty (cfg : ScanCfg) (s1 : ScanSt) (h2 : s1.rest = []) (pk : List Packet) (ms : List InMsg) :
    (scanLoop cfg s1 pk ms).packets = pk := by
  have hnil : loadCdp cfg s1 = ({ s1 with rest := [] }, [], .error .eof) := by
    unfold loadCdp loadRdh; simp [h2]
  rw [scanLoop]
  generalize hl2 : loadCdp cfg s1 = r2
  rw [hnil] at hl2
  subst hl2
  rfl

/-- **the scan loop on an input cut inside a payload** -/
theorem scanLoop_tail (cfg : ScanCfg) (q : RawPkt) (n : Nat) (hq : WFH q n) (part : Bytes) (hpart : part.length < n) :
    ∀ (k : Nat) (ps : List RawPkt), ps.length ≤ k → (∀ p ∈ ps, WF p) →
    ∀ (s : ScanSt) (pk : List Packet) (ms : List InMsg), s.rest = bytesOf ps ++ (q.hdr ++ part) →
      (scanLoop cfg s pk ms).packets = pk ++ expected cfg s.pos ps ++
        (if filterMatches cfg.filter q.rdh then [truncPacket (s.pos + totalSize ps) q] else []) := by
  -- the case "no further matching packet among `ps`": one more `loadCdp` reaches the truncated packet
  have key : ∀ (ps : List RawPkt), (∀ p ∈ ps, WF p) → ∀ (s : ScanSt) (pk : List Packet) (ms : List InMsg),
      s.rest = bytesOf ps ++ (q.hdr ++ part) → firstMatch cfg.filter s.pos ps = none →
      (scanLoop cfg s pk ms).packets = pk ++
        (if filterMatches cfg.filter q.rdh then [truncPacket (s.pos + totalSize ps) q] else []) := by
    intro ps hwf s pk ms hs hfm
    have h := loadCdp_nomatch cfg ps hwf q n hq part hpart s hs hfm
    rw [scanLoop]
    generalize hl : loadCdp cfg s = r at h
    obtain ⟨s1, m, res⟩ := r
    by_cases hmq : filterMatches cfg.filter q.rdh = true
    · simp only [hmq, ↓reduceIte] at h ⊢
      obtain ⟨h1, h2⟩ := h
      have h1' : res = .ok (truncPacket (s.pos + totalSize ps) q) := h1
      have h2' : s1.rest = [] := h2
      subst h1'
      have hguard : s1.rest.length < s.rest.length := by
        rw [h2', hs]; simp only [List.length_nil, List.length_append, hq.hlen]; omega
      simp only [hguard, ↓reduceIte]
      exact scanLoop_empty cfg s1 h2' _ _
    · simp only [hmq, Bool.false_eq_true, ↓reduceIte] at h ⊢
      obtain ⟨e, he⟩ := h
      have he' : res = .error e := he
      subst he'
      simp
  intro k
  induction k with
  | zero =>
    intro ps hlen hwf s pk ms hs
    have : ps = [] := List.eq_nil_of_length_eq_zero (by omega)
    subst this
    rw [key [] hwf s pk ms hs rfl]
    simp [expected, chain]
  | succ k ih =>
    intro ps hlen hwf s pk ms hs
    rw [expected_unfold]
    cases hfm : firstMatch cfg.filter s.pos ps with
    | none =>
      rw [key ps hwf s pk ms hs hfm]
      simp
    | some x =>
      obtain ⟨o', p, post⟩ := x
      obtain ⟨h1, h2, h3⟩ := loadCdp_some cfg ps hwf (q.hdr ++ part) s hs o' p post hfm
      rw [scanLoop]
      generalize hl : loadCdp cfg s = r at h1 h2 h3
      obtain ⟨s1, m, res⟩ := r
      have h1' : res = .ok (mkPacket cfg.skipPayload (o', p)) := h1
      have h2' : s1.rest = bytesOf post ++ (q.hdr ++ part) := h2
      have h3' : s1.pos = o' + p.size := h3
      subst h1'
      have hlt := firstMatch_bytes_len cfg.filter ps hwf s.pos o' p post hfm
      have hguard : s1.rest.length < s.rest.length := by
        rw [h2', hs]; simp only [List.length_append]; omega
      simp only [hguard, ↓reduceIte]
      have hpl := firstMatch_post_len cfg.filter s.pos ps o' p post hfm
      have hwf' : ∀ y ∈ post, WF y := fun y hy => hwf y ((firstMatch_mem _ ps _ _ _ _ hfm).2 y hy)
      have := ih post (by omega) hwf' s1 (pk ++ [mkPacket cfg.skipPayload (o', p)]) (ms ++ m) h2'
      rw [this, h3']
      have htot : ∀ (l : List RawPkt) o, firstMatch cfg.filter o l = some (o', p, post) →
          o' + p.size + totalSize post = o + totalSize l := by
        intro l
        induction l with
        | nil => intro o h; simp [firstMatch] at h
        | cons a as ih2 =>
          intro o h
          simp only [firstMatch] at h
          split at h
          · simp only [Option.some.injEq, Prod.mk.injEq] at h
            obtain ⟨rfl, rfl, rfl⟩ := h
            simp [totalSize]; omega
          · have := ih2 _ h
            simp [totalSize] at this ⊢; omega
      rw [htot ps s.pos hfm]
      simp [List.append_assoc]

end C03
end FastPasta
