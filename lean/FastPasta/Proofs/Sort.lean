/-
  Proofs.Sort — the stable sort by offset: sortedness, stability, and uniqueness
  ("a list sorted by key is determined by its per-key subsequences").
-/
import FastPasta.Model.Collector
namespace FastPasta

def keyIs (k : Nat) (f : Finding) : Bool := f.offset == k

/-- sorted by offset -/
def SortedBy : List Finding → Prop
  | [] => True
  | f :: fs => (∀ g ∈ fs, f.offset ≤ g.offset) ∧ SortedBy fs

theorem insertStable_mem (f g : Finding) (l : List Finding) : g ∈ insertStable f l ↔ g = f ∨ g ∈ l := by
  induction l with
  | nil => simp [insertStable]
  | cons x xs ih =>
    simp only [insertStable]
    split
    · simp only [List.mem_cons, ih]
      constructor
      · rintro (h | h | h)
        · exact Or.inr (Or.inl h)
        · exact Or.inl h
        · exact Or.inr (Or.inr h)
      · rintro (h | h | h)
        · exact Or.inr (Or.inl h)
        · exact Or.inl h
        · exact Or.inr (Or.inr h)
    · simp [List.mem_cons]

theorem insertStable_sorted (f : Finding) (l : List Finding) (h : SortedBy l) : SortedBy (insertStable f l) := by
  induction l with
  | nil => simp [insertStable, SortedBy]
  | cons x xs ih =>
    simp only [insertStable]
    obtain ⟨hx, hxs⟩ := h
    split
    · rename_i hle
      refine ⟨?_, ih hxs⟩
      intro g hg
      rcases (insertStable_mem f g xs).mp hg with rfl | hg
      · exact hle
      · exact hx g hg
    · rename_i hnle
      have hlt : f.offset < x.offset := by omega
      refine ⟨?_, hx, hxs⟩
      intro g hg
      rcases List.mem_cons.mp hg with rfl | hg
      · omega
      · have := hx g hg; omega

/-- stability: inserting into a sorted list appends to the bucket of its own key and leaves the
    other buckets untouched -/
theorem insertStable_filter (k : Nat) (f : Finding) (l : List Finding) (h : SortedBy l) :
    (insertStable f l).filter (keyIs k) = l.filter (keyIs k) ++ (if f.offset = k then [f] else []) := by
  induction l with
  | nil => by_cases hk : f.offset = k <;> simp [insertStable, keyIs, hk]
  | cons x xs ih =>
    obtain ⟨hx, hxs⟩ := h
    simp only [insertStable]
    split
    · simp only [List.filter_cons, ih hxs]
      split <;> simp
    · rename_i hnle
      have hlt : f.offset < x.offset := by omega
      by_cases hk : f.offset = k
      · -- nothing in x :: xs has key k (all keys > f.offset)
        have hnone : (x :: xs).filter (keyIs k) = [] := by
          apply List.filter_eq_nil_iff.mpr
          intro g hg
          simp only [keyIs, beq_iff_eq]
          rcases List.mem_cons.mp hg with rfl | hg
          · omega
          · have := hx g hg; omega
        have hfk : keyIs k f = true := by simp [keyIs, hk]
        rw [List.filter_cons, hfk]
        simp [hnone, hk]
      · have hfk : keyIs k f = false := by simp [keyIs, hk]
        rw [List.filter_cons, hfk]
        simp [hk]

theorem sortStable_spec (l : List Finding) : ∀ acc, SortedBy acc →
    SortedBy (l.foldl (fun acc f => insertStable f acc) acc) ∧
    ∀ k, (l.foldl (fun acc f => insertStable f acc) acc).filter (keyIs k) = acc.filter (keyIs k) ++ l.filter (keyIs k) := by
  induction l with
  | nil => intro acc h; exact ⟨h, fun k => by simp⟩
  | cons f fs ih =>
    intro acc h
    have h1 := insertStable_sorted f acc h
    obtain ⟨hs, hf⟩ := ih (insertStable f acc) h1
    refine ⟨hs, ?_⟩
    intro k
    simp only [List.foldl_cons]
    rw [hf k, insertStable_filter k f acc h, List.filter_cons]
    by_cases hk : f.offset = k
    · have : keyIs k f = true := by simp [keyIs, hk]
      simp [hk, this]
    · have : keyIs k f = false := by simp [keyIs, hk]
      simp [hk, this]

theorem sortStable_sorted (l : List Finding) : SortedBy (sortStable l) :=
  (sortStable_spec l [] trivial).1

theorem sortStable_filter (l : List Finding) (k : Nat) : (sortStable l).filter (keyIs k) = l.filter (keyIs k) := by
  have := (sortStable_spec l [] trivial).2 k
  simpa [sortStable] using this

/-- uniqueness: two lists sorted by offset with the same per-offset subsequences are equal -/
theorem sorted_unique : ∀ (l1 l2 : List Finding), SortedBy l1 → SortedBy l2 →
    (∀ k, l1.filter (keyIs k) = l2.filter (keyIs k)) → l1 = l2
  | [], [], _, _, _ => rfl
  | [], y :: ys, _, _, h => by
    have := h y.offset
    simp [keyIs] at this
  | x :: xs, [], _, _, h => by
    have := h x.offset
    simp [keyIs] at this
  | x :: xs, y :: ys, h1, h2, h => by
    obtain ⟨hx, hxs⟩ := h1
    obtain ⟨hy, hys⟩ := h2
    -- the heads have the same key
    have hxy : x.offset ≤ y.offset := by
      have hmem : y ∈ (x :: xs).filter (keyIs y.offset) := by
        rw [h y.offset]; simp [keyIs]
      have := (List.mem_filter.mp hmem).1
      rcases List.mem_cons.mp this with rfl | hm
      · exact Nat.le_refl _
      · exact hx y hm
    have hyx : y.offset ≤ x.offset := by
      have hmem : x ∈ (y :: ys).filter (keyIs x.offset) := by
        rw [← h x.offset]; simp [keyIs]
      have := (List.mem_filter.mp hmem).1
      rcases List.mem_cons.mp this with rfl | hm
      · exact Nat.le_refl _
      · exact hy x hm
    have hk : x.offset = y.offset := Nat.le_antisymm hxy hyx
    -- the heads are the heads of the same bucket
    have hb := h x.offset
    have e1 : keyIs x.offset x = true := by simp [keyIs]
    have e2 : keyIs x.offset y = true := by simp [keyIs, hk]
    rw [List.filter_cons, List.filter_cons, e1, e2] at hb
    simp only [↓reduceIte, List.cons.injEq] at hb
    obtain ⟨rfl, hb'⟩ := hb
    -- tails
    have htail : ∀ k, xs.filter (keyIs k) = ys.filter (keyIs k) := by
      intro k
      have := h k
      rw [List.filter_cons, List.filter_cons] at this
      split at this
      · simpa using this
      · exact this
    rw [sorted_unique xs ys hxs hys htail]

/-- **the stable sort depends only on the per-offset subsequences of its input** -/
theorem sortStable_congr (l1 l2 : List Finding) (h : ∀ k, l1.filter (keyIs k) = l2.filter (keyIs k)) :
    sortStable l1 = sortStable l2 :=
  sorted_unique _ _ (sortStable_sorted l1) (sortStable_sorted l2)
    (fun k => by rw [sortStable_filter, sortStable_filter, h k])

end FastPasta
