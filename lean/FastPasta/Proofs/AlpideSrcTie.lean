/-
  Proofs.AlpideSrcTie — the hand-written byte-wise ALPIDE lane decoder `LaneDec.step` IS the function
  that `tools/alpide2lean.py` generates from the Rust source on every run (`Spec/AlpideSrcGen.lean`):
  the same early-return tests in the same order, and for all 256 byte values the same field updates
  (word classification `AlpideWord::from_byte` + the arm of `decode`). Consequently `decodeLane`, and
  with it C13's `decode_encode` / `hits_irrelevant` and the stave part of C01, are re-checked against
  the current source text. Also proved on the *translated source*: the `unreachable_unchecked` arm
  (APE padding) is never selected.
-/
import FastPasta.Spec.AlpideSrcGen
namespace FastPasta
namespace C13
open SrcAlpide

/-- what the model's `LaneDec.step` does with a byte that reaches the word match, as field updates -/
def modelAct : AlpideWord → Act
  | .dataShort => { skip := some 1 }
  | .dataLong => { skip := some 2 }
  | .regionHeader => { header := some true }
  | .chipHeader => { header := some true, lastChip := true, nextBc := true }
  | .chipEmptyFrame => { header := some false, lastChip := true, nextBc := true }
  | .chipTrailer => { header := some false, logFlags := true }
  | .apeFatal => { fatal := true }
  | .busyOn | .busyOff | .apeWarn | .unknown => {}

/-- the model's step is `run` with the model's guards and action table -/
theorem step_as_run (d : LaneDec) (b : Nat) :
    d.step b = run [.skipping, .bunchCounter, .padding] (fun b => modelAct (alpideWord b)) d b := by
  unfold LaneDec.step run Guard.fire
  by_cases h1 : d.skip > 0
  · simp [h1]
  · simp only [h1, ↓reduceIte]
    unfold run Guard.fire
    by_cases h2 : d.nextIsBc = true
    · simp only [h2, ↓reduceIte, storeBc]
      split <;> rfl
    · simp only [h2, Bool.false_eq_true, ↓reduceIte]
      unfold run Guard.fire
      by_cases h3 : (!d.headerSeen && b == 0) = true
      · simp [h3]
      · simp only [h3, Bool.false_eq_true, ↓reduceIte]
        unfold run
        have hn : d.nextIsBc = false := by simpa using h2
        cases alpideWord b <;> (cases d; simp_all [modelAct, Act.apply])

/-- all 256 byte values: the model's classification + action = the translated source's -/
theorem action_table : ∀ b : Fin 256, modelAct (alpideWord b.val) = action b.val := by
  decide +kernel

theorem guards_eq_src : guards = [.skipping, .bunchCounter, .padding] := by decide

/-- **model = translated source**, one byte -/
theorem step_eq_src (d : LaneDec) (b : Nat) (hb : b < 256) : d.step b = run guards action d b := by
  rw [step_as_run, guards_eq_src]
  have : (fun b => modelAct (alpideWord b)) b = action b := action_table ⟨b, hb⟩
  unfold run Guard.fire
  split
  · rfl
  · unfold run Guard.fire
    split
    · rfl
    · unfold run Guard.fire
      split
      · rfl
      · unfold run; simp only at this; rw [this]

/-- **model = translated source**, a whole lane -/
theorem decodeLane_eq_src (bs : Bytes) :
    decodeLane bs = bs.foldl (fun d b => run guards action d b.toNat) {} := by
  unfold decodeLane
  generalize ({} : LaneDec) = d0
  induction bs generalizing d0 with
  | nil => rfl
  | cons b bs ih => simp only [List.foldl_cons]; rw [step_eq_src d0 b.toNat b.toNat_lt]; exact ih _

/-- on the translated source: no byte is classified as APE padding, i.e. the arm of `decode` that is
    marked `unreachable_unchecked` is never selected -/
theorem src_padding_arm_unreachable : ∀ b : Fin 256, wordOfByte b.val ≠ .ape .Padding := by
  decide +kernel

end C13
end FastPasta
