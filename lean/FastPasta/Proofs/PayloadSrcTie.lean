/-
  Proofs.PayloadSrcTie — the payload cutter of the model (`Model/Preprocess.lean`: `cutPayload`) IS what `tools/rs2lean.py`
  translates from `fastpasta/src/analyze/validators/lib.rs` on every run (`Spec/PayloadSrcGen.lean`): `preprocess_payload` with
  `extract_payload_ff_padding`, `detect_payload_data_format`, `chunkify_payload`; the callers' `&gbt_word[..10]` is the
  `take 10` of the statement.
-/
import FastPasta.Spec.PayloadSrcGen
import FastPasta.Model.Preprocess
namespace FastPasta
namespace SrcTie
open SrcPayload

theorem chunksExactFuel_eq (n : Nat) (fuel : Nat) (bs : Bytes) (h : bs.length ≤ fuel) :
    Rs.chunksExactFuel n fuel bs = chunksExact n bs := by
  induction fuel generalizing bs with
  | zero =>
    have : bs = [] := List.eq_nil_of_length_eq_zero (by omega)
    subst this
    unfold Rs.chunksExactFuel chunksExact
    by_cases hn : n = 0 <;> simp [hn]
  | succ f ih =>
    unfold Rs.chunksExactFuel
    rw [chunksExact]
    by_cases hn : n = 0
    · simp [hn]
    · by_cases hl : bs.length < n
      · simp [hn, hl]
      · have : (bs.drop n).length ≤ f := by simp only [List.length_drop]; omega
        simp [hn, hl, ih _ this]

theorem rs_chunksExact_eq (n : Nat) (bs : Bytes) : Rs.chunksExact n bs = chunksExact n bs :=
  chunksExactFuel_eq n bs.length bs (Nat.le_refl _)

theorem chunksExact_len (n : Nat) (bs : Bytes) : ∀ c ∈ chunksExact n bs, c.length = n := by
  induction h : bs.length using Nat.strongRecOn generalizing bs with
  | _ k ih =>
    intro c hc
    rw [chunksExact] at hc
    by_cases hn : n = 0 ∨ bs.length < n
    · simp [hn] at hc
    · simp only [hn, dite_false, List.mem_cons] at hc
      rcases hc with rfl | hc
      · simp only [List.length_take]; omega
      · exact ih (bs.drop n).length (by simp only [List.length_drop]; omega) (bs.drop n) rfl c hc

theorem map_take_id (n : Nat) (bs : Bytes) : (chunksExact n bs).map (·.take n) = chunksExact n bs := by
  have h := chunksExact_len n bs
  have : ∀ l : List Bytes, (∀ c ∈ l, c.length = n) → l.map (·.take n) = l := by
    intro l hl
    induction l with
    | nil => rfl
    | cons a r ih =>
      simp only [List.map_cons, List.cons.injEq]
      exact ⟨List.take_of_length_le (by rw [hl a (by simp)]; exact Nat.le_refl _), ih (fun c hc => hl c (by simp [hc]))⟩
  exact this _ h

theorem tw_len {α} (l : List α) (p : α → Bool) : (l.takeWhile p).length ≤ l.length := by
  induction l with
  | nil => simp
  | cons a r ih => simp only [List.takeWhile]; split <;> simp <;> omega

theorem pred255 : (fun x : UInt8 => x.toNat == 255) = (fun x : UInt8 => x == 0xFF) := by
  funext x; rw [Bool.eq_iff_iff]; simp [← UInt8.toNat_inj]
theorem pred0 : (fun x : UInt8 => x.toNat == 0) = (fun x : UInt8 => x == 0x00) := by
  funext x; rw [Bool.eq_iff_iff]; simp [← UInt8.toNat_inj]

theorem extract_eq (p : Bytes) :
    extract_payload_ff_padding p = if ffRun p > 15 then .err (Rs.Str.lit true []) else .ok (p.reverse.takeWhile (· == 0xFF)) := by
  simp only [extract_payload_ff_padding, pred255, ffRun, decide_eq_true_eq]
  split <;> simp_all

theorem detect_eq (p : Bytes) : detect_payload_data_format p = if detectV0 p then .V0 else .V2 := by
  simp only [detect_payload_data_format, pred0, detectV0]
  split <;> simp_all

/-- **`preprocess_payload` = `cutPayload`** for every payload (a slice is shorter than 2^64 bytes): the over-padding error on
    exactly the same inputs, otherwise the same chunks (of which the callers use the first ten bytes) -/
theorem preprocess_eq (p : Bytes) (hp : p.length < 2^64) :
    cutPayload p = (match preprocess_payload p with | .err _ => none | .ok cs => some (cs.map (·.take 10))) := by
  have hlen : ffRun p ≤ p.length := by
    unfold ffRun
    exact Nat.le_trans (tw_len _ _) (by simp)
  have hfl : (p.reverse.takeWhile (· == 0xFF)).length = ffRun p := rfl
  unfold preprocess_payload cutPayload
  rw [extract_eq]
  by_cases h15 : ffRun p > 15
  · simp only [h15, if_true]
  · simp only [h15, if_false, detect_eq, chunkify_payload, hfl, rs_chunksExact_eq, Rs.slice, List.drop_zero]
    by_cases hv : detectV0 p = true
    · simp only [hv, if_true]
    · have hv' : detectV0 p = false := by simpa using hv
      simp only [hv', Bool.false_eq_true, if_false]
      by_cases h9 : ffRun p > 9
      · have hsub : (p.length + 2 ^ 64 - ffRun p) % 2 ^ 64 = p.length - ffRun p := by omega
        simp only [h9, if_true, decide_true, hsub, map_take_id]
      · simp only [h9, if_false, decide_false, Bool.false_eq_true, map_take_id]

end SrcTie
end FastPasta
